(* reconcileCommit + the configuration store write RE-ESTABLISH the hypotheses of commit_store_refines: the stored map
   afterwards has distinct proper keys that are the paths of their values, is `clean` again (no live value beneath a
   stored tombstone), holds only indexes up to the transaction's, names only paths the stored map or the request
   named, and its live values are live values from before or updates of the request. *)
From Coq Require Import List NArith Bool Lia.
From OC Require Import Base.Bytes Model.Merge Model.CfgStore
     Proofs.MergeProofs Proofs.TextPathProofs Proofs.PruneProofs Proofs.StoreProofs Proofs.CommitProofs Proofs.StoreFullProofs.
Import ListNotations.
Open Scope N_scope.

(* every stored value is older than the transaction *)
Definition older (idx : N) (M : cfgmap) : Prop := forall k e, In (k, e) M -> pv_index e < idx.
(* every change value carries the transaction index *)
Definition stamped (idx : N) (ch : cfgmap) : Prop := forall k c, In (k, c) ch -> pv_index c = idx.

Lemma fresh_of_older idx M ch : older idx M -> stamped idx ch -> fresh_index idx M ch.
Proof. intros O S. split; [exact S|]. intros k e HI E. specialize (O k e HI). lia. Qed.

Section Preserve.
  Context (idx : N) (M ch : cfgmap).
  Context (KM : keys_ok M) (NM : nodup M) (PM : proper_keys M) (CM : clean M)
          (KC : keys_ok ch) (NC : nodup ch) (PC : proper_keys ch) (GC : no_overlap ch)
          (LF : leaf_ok M ch) (OM : older idx M) (SC : stamped idx ch).

  Let V' := commit_merge idx ch M.
  Let M' := persist_commit M idx ch.
  Let FI : fresh_index idx M ch := fresh_of_older idx M ch OM SC.
  Let INV : adc_inv idx M ch (fold_left (adc_step idx) ch ([], M)) := adc_invariant idx M KM NM ch KC NC GC.

  Lemma M'_unfold : M' = store_write M V'.
  Proof. reflexivity. Qed.

  Lemma V'_nodup : nodup V'.
  Proof. apply (V'_wf idx M ch KM NM KC NC GC). Qed.
  Lemma V'_keys_ok : keys_ok V'.
  Proof. apply (V'_wf idx M ch KM NM KC NC GC). Qed.

  (* an entry of the merged map: a value of the request, a tombstone, or a stored entry as it was; its key is named
     by the request or stored *)
  Lemma V'_origin q v : map_get q V' = Some v ->
    (In (q, v) ch \/ pv_deleted v = true \/ map_get q M = Some v) /\ (In q (map fst ch) \/ In q (map fst M)).
  Proof.
    intros H. destruct (V'_prov idx M ch KM NM KC NC GC q v H) as [[H1 HO]|[_ HM]].
    - split; [destruct HO as [HI|[D _]]; auto|].
      assert (HN : map_get q (fst (fold_left (adc_step idx) ch ([], M))) <> None) by congruence.
      destruct (ai_dom _ _ _ _ INV q HN) as [HK|[kd [d [_ [_ [_ HV]]]]]]; [left; exact HK|].
      right. destruct (map_get q M) as [w|] eqn:G; [|congruence].
      apply map_get_some_in in G. apply (in_map fst) in G. exact G.
    - split; [right; right; exact HM|]. right. apply map_get_some_in in HM. apply (in_map fst) in HM. exact HM.
  Qed.

  (* what the store holds afterwards is an entry of the merged map, or an untouched entry the merged map does not name *)
  Lemma M'_entry q v : map_get q M' = Some v ->
    map_get q V' = Some v \/ (map_get q V' = None /\ map_get q M = Some v).
  Proof.
    intros H. rewrite M'_unfold in H.
    destruct (store_write_full M V' V'_keys_ok V'_nodup) as [_ [W2 [W3 _]]].
    destruct (map_get q V') as [pv|] eqn:G.
    - left. rewrite (W2 q pv G) in H. unfold entry_after in H.
      assert (Eq : q = pv_path pv) by (apply V'_keys_ok; apply map_get_some_in; exact G). rewrite <- Eq in H.
      destruct (map_get q M) as [e|] eqn:GM.
      + destruct (kept q V'); cbn [negb] in H; [|discriminate].
        destruct (pv_index pv =? pv_index e) eqn:EI; cbn [negb] in H; [|exact H].
        injection H as <-. apply N.eqb_eq in EI.
        destruct (V'_index idx M ch KM NM KC NC GC FI q pv G) as [HM|HI]; [congruence|].
        exfalso. apply map_get_some_in in GM. apply (proj2 FI q e GM). congruence.
      + destruct (kept q V'); [exact H | discriminate].
    - right. split; [reflexivity|]. destruct (W3 q G) as [E|E]; congruence.
  Qed.

  Lemma M'_nodup : nodup M'.
  Proof. rewrite M'_unfold. apply (store_write_full M V' V'_keys_ok V'_nodup). exact NM. Qed.

  Lemma M'_in q v : In (q, v) M' -> map_get q M' = Some v.
  Proof. apply map_get_in. exact M'_nodup. Qed.

  Lemma M'_keys_ok : keys_ok M'.
  Proof.
    intros q v HI. destruct (M'_entry q v (M'_in q v HI)) as [H|[_ H]]; apply map_get_some_in in H.
    - apply (V'_keys_ok _ _ H).
    - apply (KM _ _ H).
  Qed.

  Lemma M'_proper : proper_keys M'.
  Proof.
    intros q v HI. destruct (M'_entry q v (M'_in q v HI)) as [H|[_ H]].
    - apply (V'_key_proper idx M ch KM NM PM KC NC PC GC q v H).
    - apply map_get_some_in in H. apply (PM _ _ H).
  Qed.

  Lemma M'_older : older (N.succ idx) M'.
  Proof.
    intros q v HI. destruct (M'_entry q v (M'_in q v HI)) as [H|[_ H]].
    - destruct (V'_index idx M ch KM NM KC NC GC FI q v H) as [HM|E]; [|lia].
      apply map_get_some_in in HM. pose proof (OM _ _ HM). lia.
    - apply map_get_some_in in H. pose proof (OM _ _ H). lia.
  Qed.

  (* the store names nothing new *)
  Lemma M'_keys q : In q (map fst M') -> In q (map fst ch) \/ In q (map fst M).
  Proof.
    intros HI. apply in_map_iff in HI. destruct HI as [[k v] [E HI]]. cbn in E. subst k.
    destruct (M'_entry q v (M'_in q v HI)) as [H|[_ H]].
    - apply (V'_origin q v H).
    - right. apply map_get_some_in in H. apply (in_map fst) in H. exact H.
  Qed.

  (* a live value afterwards is a live entry of the merged map, stored as such *)
  Lemma M'_live p : live M' p <> None ->
    exists pv, map_get p V' = Some pv /\ pv_deleted pv = false /\ map_get p M' = Some pv.
  Proof.
    intros L. unfold live in L. destruct (map_get p M') as [pv|] eqn:G; [|congruence].
    assert (Dp : pv_deleted pv = false) by (unfold live_of in L; destruct (pv_deleted pv); congruence).
    exists pv. destruct (M'_entry p pv G) as [H|[HN HM]]; [auto|]. exfalso.
    pose proof (gone_not_live idx M ch KM NM PM KC NC GC LF p HN) as E.
    unfold live in E. rewrite HM in E. unfold live_of in E. rewrite Dp in E. discriminate.
  Qed.

  (* ... and it is an update of the request or a live value from before *)
  Lemma M'_live_origin p : live M' p <> None ->
    (exists c, In (p, c) ch /\ pv_deleted c = false) \/ live M p <> None.
  Proof.
    intros L. destruct (M'_live p L) as [pv [G [Dp _]]].
    destruct (V'_origin p pv G) as [[HI|[D|HM]] _]; [left; exists pv; auto | congruence|].
    right. unfold live. rewrite HM. unfold live_of. rewrite Dp. discriminate.
  Qed.

  (* the store is clean again *)
  Lemma M'_clean : clean M'.
  Proof.
    intros p t e L HI De. destruct (is_path_below p t) eqn:B; [exfalso | reflexivity].
    destruct (M'_live p L) as [pv [Gp [Dp Sp]]].
    assert (Pt : proper t) by (apply (M'_proper t e HI)).
    assert (HA : In t (boundary_ancestors p)) by (apply (ancestor_below p t Pt); exact B).
    pose proof (live_kept idx M ch KM NM PM CM KC NC PC GC p pv Gp Dp) as K. fold V' in K.
    destruct (M'_entry t e (M'_in t e HI)) as [Ht|[HtN HtM]].
    - (* a tombstone of the merged map above a kept value: PrunePathMap would have dropped the value *)
      apply (kept_elim V' p t V'_keys_ok K); [|exact HA].
      exists e. split; [apply map_get_some_in; exact Ht | exact De].
    - destruct (V'_origin p pv Gp) as [[HIp|[D|HpM]] _]; [| congruence |].
      + (* p is written by this commit: the old tombstone above it has been removed *)
        assert (W : written M V' pv = true).
        { unfold written. rewrite <- (V'_keys_ok _ _ (map_get_some_in _ _ _ Gp)). rewrite K.
          destruct (map_get p M) as [e0|] eqn:G0; [|reflexivity]. cbn [andb]. apply negb_true_iff. apply N.eqb_neq.
          rewrite (SC _ _ HIp). apply map_get_some_in in G0. pose proof (OM _ _ G0). lia. }
        destruct (store_write_full M V' V'_keys_ok V'_nodup) as [_ [_ [_ W4]]].
        assert (OT : old_tomb M V' t).
        { split; [unfold map_has; rewrite HtN; reflexivity | exists e; auto]. }
        pose proof (W4 p pv Gp W Dp t HA OT) as E. rewrite <- M'_unfold in E.
        rewrite (M'_in t e HI) in E. discriminate.
      + (* p is an untouched stored value: the stored map was clean *)
        assert (Lp : live M p <> None) by (unfold live; rewrite HpM; unfold live_of; rewrite Dp; discriminate).
        apply map_get_some_in in HtM. pose proof (CM p t e Lp HtM De). congruence.
  Qed.
End Preserve.

(* C04, concrete pure layer: what the functions of Model/P2Pure.v compute, as lookup tables, for ALL values:
   overlay, AddDeleteChildren, the recording loop over applyChangeToConfig, PrunePathValues / live, store().
   Stdlib only. *)
From Coq Require Import List PeanoNat NArith Bool Lia Permutation Sorted.
From OC Require Import Base.Bytes Model.P2Pure Proofs.P2PureApplyDefs Proofs.P2PureApplyBase.
Import ListNotations.
Open Scope N_scope.

(** * overlay *)
Lemma overlay_lookup b : forall a k, ND b ->
  lookup k (overlay a b) = match lookup k b with Some v => Some v | None => lookup k a end.
Proof.
  unfold overlay. induction b as [|[k0 v0] b IH]; intros a k Hn; cbn; [reflexivity|].
  unfold ND in Hn. cbn in Hn. inversion Hn as [|? ? Hnot Hnd]; subst. rewrite IH by exact Hnd. rewrite lookup_insert.
  deq k k0; [|reflexivity]. subst k0. apply lookup_none in Hnot. rewrite Hnot. reflexivity.
Qed.

Lemma ND_overlay b : forall a, ND a -> ND (overlay a b).
Proof.
  unfold overlay. induction b as [|[k0 v0] b IH]; intros a Ha; cbn; [exact Ha|]. apply IH. apply ND_insert. exact Ha.
Qed.

Lemma In_overlay b : forall a x, In x (overlay a b) -> In x a \/ In x b.
Proof.
  unfold overlay. induction b as [|[k0 v0] b IH]; intros a x; cbn; [auto|]. intros H. apply IH in H.
  destruct H as [H|H]; [|auto]. apply In_insert in H. destruct H as [->|H]; auto.
Qed.

Lemma KO_overlay a b : KO a -> KO b -> KO (overlay a b).
Proof. intros Ha Hb k v H. apply In_overlay in H. destruct H; [apply Ha|apply Hb]; assumption. Qed.

Lemma WF_overlay a b : WF a -> WF b -> WF (overlay a b).
Proof. intros [N1 K1] [N2 K2]. split; [apply ND_overlay; exact N1|apply KO_overlay; assumption]. Qed.

(** * AddDeleteChildren *)
Definition adc_step (index : N) : cmap * cmap -> str * pv -> cmap * cmap :=
  fun '(upd, st) '(_, cv) =>
  if pv_deleted cv then
    let hit (v : pv) := is_path_below (pv_path v) (pv_path cv) in
    let mark (v : pv) := mkPV (pv_path v) (pv_val v) true index in
    let kids := filter (fun '(_, v) => hit v) st in
    let st' := map (fun '(k, v) => if hit v then (k, mark v) else (k, v)) st in
    let upd' := fold_left (fun u '(_, v) => insert (pv_path v) (mark v) u) kids upd in
    (insert (pv_path cv) cv upd', st')
  else (insert (pv_path cv) cv upd, st).

Lemma adc_fold index change store : add_delete_children index change store = fold_left (adc_step index) change ([], store).
Proof. reflexivity. Qed.

Definition paths (m : cmap) : list str := map (fun kv => pv_path (snd kv)) m.

Definition kids_fold (mark : pv -> pv) (kids upd : cmap) : cmap :=
  fold_left (fun u '(_, v) => insert (pv_path v) (mark v) u) kids upd.

Lemma kids_fold_cases mark kids : forall upd k,
  ((forall kv, In kv kids -> pv_path (snd kv) <> k) /\ lookup k (kids_fold mark kids upd) = lookup k upd) \/
  (exists kv, In kv kids /\ pv_path (snd kv) = k /\ lookup k (kids_fold mark kids upd) = Some (mark (snd kv))).
Proof.
  unfold kids_fold. induction kids as [|[k0 v0] kids IH]; intros upd k; cbn [fold_left].
  - left. split; [intros kv []|reflexivity].
  - destruct (IH (insert (pv_path v0) (mark v0) upd) k) as [[Hno Hl]|(kv & Hin & Hp & Hl)].
    + rewrite lookup_insert in Hl. deq k (pv_path v0).
      * right. exists (k0, v0). split; [left; reflexivity|]. split; [auto|exact Hl].
      * left. split; [|exact Hl]. intros kv [<-|Hin]; [cbn; congruence|apply Hno; exact Hin].
    + right. exists kv. split; [right; exact Hin|]. split; assumption.
Qed.

Lemma kids_fold_ND mark kids : forall upd, ND upd -> ND (kids_fold mark kids upd).
Proof.
  unfold kids_fold. induction kids as [|[k0 v0] kids IH]; intros upd Hn; cbn [fold_left]; [exact Hn|].
  apply IH. apply ND_insert. exact Hn.
Qed.

(* a change that does not delete a path and update something beneath it *)
Definition WFC (c : cmap) : Prop :=
  WF c /\ forall k v kd d, In (k, v) c -> pv_deleted v = false -> In (kd, d) c -> pv_deleted d = true -> ~ Below k kd.

Lemma covered_spec M p :
  covered M p = true <-> exists t e, In (t, e) M /\ pv_deleted e = true /\ is_path_below p t = true.
Proof.
  unfold covered. rewrite existsb_exists. split.
  - intros ([t e] & Hin & H). cbn in H. apply andb_true_iff in H. exists t, e. tauto.
  - intros (t & e & Hin & H1 & H2). exists (t, e). cbn. rewrite H1, H2. auto.
Qed.

Lemma wf_change_WFC c : wf_change c = true <-> WFC c.
Proof.
  unfold wf_change, WFC, no_live_below. rewrite andb_true_iff, wfk_WF, forallb_forall. split.
  - intros [Hw H]. split; [exact Hw|]. intros k v kd d Hk Hlv Hd Hdel Hb.
    specialize (H _ Hk). cbn in H. rewrite Hlv in H. cbn in H. apply negb_true_iff in H.
    assert (covered c k = true) as Hc; [|congruence].
    apply covered_spec. exists kd, d. split; [exact Hd|]. split; [exact Hdel|].
    apply below_spec; [apply (proj2 Hw _ _ Hd)|exact Hb].
  - intros [Hw H]. split; [exact Hw|]. intros [k v] Hk. cbn. destruct (pv_deleted v) eqn:Ev; [reflexivity|]. cbn. apply negb_true_iff.
    destruct (covered c k) eqn:E; [|reflexivity]. exfalso. apply covered_spec in E. destruct E as (t & e & Hin & Hdel & Hb).
    apply (H _ _ _ _ Hk Ev Hin Hdel). apply below_spec; [apply (proj2 Hw _ _ Hin)|exact Hb].
Qed.

Record upd_inv (i : N) (c c1 vw upd : cmap) : Prop := {
  ui_nd : ND upd;
  ui_ch : forall k cv, In (k, cv) c1 -> pv_deleted cv = false -> lookup k upd = Some cv;
  ui_del : forall k cv, In (k, cv) c1 -> pv_deleted cv = true ->
      exists v, lookup k upd = Some v /\ pv_deleted v = true /\ pv_path v = k;
  ui_cases : forall k v, lookup k upd = Some v ->
      In (k, v) c1 \/
      (pv_path v = k /\ pv_deleted v = true /\ pv_index v = i /\ In k (paths vw) /\
       exists kc cv, In (kc, cv) c1 /\ pv_deleted cv = true /\ Below k kc);
  ui_kids : forall k kc cv, In k (paths vw) -> In (kc, cv) c1 -> pv_deleted cv = true -> Below k kc -> lookup k upd <> None }.

Lemma ND_mid_notin (c1 : cmap) k0 v0 c2 : ND (c1 ++ (k0, v0) :: c2) -> ~ In k0 (map fst c1).
Proof.
  unfold ND. rewrite map_app. cbn. intros H Hin. apply NoDup_remove_2 in H. apply H. apply in_app_iff. auto.
Qed.

Lemma adc_step_inv i c vw (k0 : str) (cv0 : pv) c1 c2 upd st :
  WFC c -> c = c1 ++ (k0, cv0) :: c2 -> paths st = paths vw -> upd_inv i c c1 vw upd ->
  upd_inv i c (c1 ++ [(k0, cv0)]) vw (fst (adc_step i (upd, st) (k0, cv0))) /\
  paths (snd (adc_step i (upd, st) (k0, cv0))) = paths vw.
Proof.
  intros [[Hnd Hko] Hwf] Hc Hst [Und Uch Udel Ucases Ukids].
  assert (Hin0 : In (k0, cv0) c) by (rewrite Hc; apply in_app_iff; right; left; reflexivity).
  destruct (Hko _ _ Hin0) as [Hk0 Hp0].
  assert (Hnot : ~ In k0 (map fst c1)) by (apply (ND_mid_notin c1 k0 cv0 c2); rewrite <- Hc; exact Hnd).
  assert (Hsub : forall x, In x c1 -> In x c) by (intros x Hx; rewrite Hc; apply in_app_iff; auto).
  assert (Hne : forall k cv, In (k, cv) c1 -> k <> k0).
  { intros k cv Hin ->. apply Hnot. apply in_map_iff. exists (k0, cv). auto. }
  unfold adc_step. cbv zeta. destruct (pv_deleted cv0) eqn:Edel; cbn [fst snd].
  - (* a delete: cascade *)
    pose (hit := fun v : pv => is_path_below (pv_path v) (pv_path cv0)).
    pose (mark := fun v : pv => mkPV (pv_path v) (pv_val v) true i).
    pose (kids := filter (fun '(_, v) => hit v) st).
    change (upd_inv i c (c1 ++ [(k0, cv0)]) vw (insert (pv_path cv0) cv0 (kids_fold mark kids upd)) /\
            paths (map (fun '(k, v) => if hit v then (k, mark v) else (k, v)) st) = paths vw).
    assert (Hkid : forall kv, In kv kids -> In kv st /\ Below (pv_path (snd kv)) k0).
    { intros [k v] Hin. apply filter_In in Hin. destruct Hin as [Hin Hh]. split; [exact Hin|].
      cbn. unfold hit in Hh. rewrite <- Hk0 in Hh. apply (below_spec _ _ Hp0). exact Hh. }
    split; [split|].
    + apply ND_insert. apply kids_fold_ND. exact Und.
    + intros k cv Hin Hlv. apply in_app_iff in Hin. destruct Hin as [Hin|[[= <- <-]|[]]]; [|congruence].
      rewrite lookup_insert, <- Hk0. deq k k0; [exfalso; exact (Hne _ _ Hin E)|].
      destruct (kids_fold_cases mark kids upd k) as [[_ Hl]|(kv & Hkv & Hp & _)]; [rewrite Hl; apply Uch; assumption|].
      exfalso. destruct (Hkid _ Hkv) as [_ Hb]. rewrite Hp in Hb. exact (Hwf _ _ _ _ (Hsub _ Hin) Hlv Hin0 Edel Hb).
    + intros k cv Hin Hd. rewrite lookup_insert, <- Hk0. apply in_app_iff in Hin. destruct Hin as [Hin|[[= <- <-]|[]]].
      * deq k k0; [exfalso; exact (Hne _ _ Hin E)|].
        destruct (kids_fold_cases mark kids upd k) as [[_ Hl]|(kv & Hkv & Hp & Hl)]; rewrite Hl; [apply (Udel _ _ Hin Hd)|].
        exists (mark (snd kv)). split; [reflexivity|]. split; [reflexivity|exact Hp].
      * rewrite eqb_str_refl. exists cv0. split; [reflexivity|]. split; [exact Edel|auto].
    + intros k v Hl. rewrite lookup_insert, <- Hk0 in Hl. deq k k0.
      * injection Hl as <-. subst k. left. apply in_app_iff. right. left. reflexivity.
      * destruct (kids_fold_cases mark kids upd k) as [[_ Hl2]|(kv & Hkv & Hp & Hl2)].
        -- rewrite Hl2 in Hl. destruct (Ucases _ _ Hl) as [Hin|(H2 & H3 & H4 & H5 & kc & cv & H6 & H7)].
           ++ left. apply in_app_iff. auto.
           ++ right. repeat (split; [assumption|]). exists kc, cv. split; [apply in_app_iff; auto|exact H7].
        -- rewrite Hl2 in Hl. injection Hl as <-. destruct (Hkid _ Hkv) as [Hs Hb]. rewrite Hp in Hb. right.
           split; [exact Hp|]. split; [reflexivity|]. split; [reflexivity|]. split.
           { rewrite <- Hst. unfold paths. rewrite <- Hp. apply (in_map (fun kv => pv_path (snd kv))). exact Hs. }
           exists k0, cv0. split; [apply in_app_iff; right; left; reflexivity|]. split; assumption.
    + intros k kc cv Hk Hin Hd Hb. rewrite lookup_insert, <- Hk0. deq k k0; [discriminate|].
      apply in_app_iff in Hin. destruct Hin as [Hin|[[= <- <-]|[]]].
      * specialize (Ukids _ _ _ Hk Hin Hd Hb).
        destruct (kids_fold_cases mark kids upd k) as [[_ Hl]|(kv & _ & _ & Hl)]; rewrite Hl; [exact Ukids|discriminate].
      * destruct (kids_fold_cases mark kids upd k) as [[Hno _]|(kv & _ & _ & Hl)]; [|rewrite Hl; discriminate].
        exfalso. rewrite <- Hst in Hk. unfold paths in Hk. apply in_map_iff in Hk. destruct Hk as ([k' v'] & Hp & Hs).
        cbn in Hp. apply (Hno (k', v')); [|exact Hp]. apply filter_In. split; [exact Hs|].
        unfold hit. rewrite Hp, <- Hk0. apply (below_spec _ _ Hp0). exact Hb.
    + rewrite <- Hst. unfold paths. rewrite map_map. apply map_ext. intros [k v]. destruct (hit v); reflexivity.
  - (* an update *)
    split; [split|exact Hst].
    + apply ND_insert. exact Und.
    + intros k cv Hin Hlv. rewrite lookup_insert, <- Hk0. apply in_app_iff in Hin. destruct Hin as [Hin|[[= <- <-]|[]]].
      * deq k k0; [exfalso; exact (Hne _ _ Hin E)|]. apply Uch; assumption.
      * rewrite eqb_str_refl. reflexivity.
    + intros k cv Hin Hd. rewrite lookup_insert, <- Hk0. apply in_app_iff in Hin. destruct Hin as [Hin|[[= <- <-]|[]]]; [|congruence].
      deq k k0; [exfalso; exact (Hne _ _ Hin E)|]. apply (Udel _ _ Hin Hd).
    + intros k v Hl. rewrite lookup_insert, <- Hk0 in Hl. deq k k0.
      * injection Hl as <-. subst k. left. apply in_app_iff. right. left. reflexivity.
      * destruct (Ucases _ _ Hl) as [Hin|(H2 & H3 & H4 & H5 & kc & cv & H6 & H7)].
        -- left. apply in_app_iff. auto.
        -- right. repeat (split; [assumption|]). exists kc, cv. split; [apply in_app_iff; auto|exact H7].
    + intros k kc cv Hk Hin Hd Hb. rewrite lookup_insert, <- Hk0. deq k k0; [discriminate|].
      apply in_app_iff in Hin. destruct Hin as [Hin|[[= <- <-]|[]]]; [|congruence].
      exact (Ukids _ _ _ Hk Hin Hd Hb).
Qed.

Lemma adc_inv i c vw : WFC c -> forall c2 c1 upd st,
  c = c1 ++ c2 -> paths st = paths vw -> upd_inv i c c1 vw upd ->
  upd_inv i c c vw (fst (fold_left (adc_step i) c2 (upd, st))).
Proof.
  intros Hw. induction c2 as [|[k0 cv0] c2 IH]; intros c1 upd st Hc Hst Hinv; cbn [fold_left].
  - rewrite app_nil_r in Hc. subst c1. exact Hinv.
  - destruct (adc_step_inv i c vw k0 cv0 c1 c2 upd st Hw Hc Hst Hinv) as [H1 H2].
    destruct (adc_step i (upd, st) (k0, cv0)) as [upd' st'] eqn:E. cbn [fst snd] in H1, H2.
    apply (IH (c1 ++ [(k0, cv0)])); [rewrite <- app_assoc; exact Hc|exact H2|exact H1].
Qed.

(* the updated change values of AddDeleteChildren, for a well-formed change [c] and ANY store [vw] *)
Definition upd_spec (i : N) (c vw upd : cmap) : Prop := upd_inv i c c vw upd.

Theorem adc_spec i c vw : WFC c -> upd_spec i c vw (fst (add_delete_children i c vw)).
Proof.
  intros Hw. rewrite adc_fold. apply (adc_inv i c vw Hw c [] [] vw); [reflexivity|reflexivity|].
  split; [constructor|intros k cv []|intros k cv []|intros k v H; discriminate H|intros k kc cv _ []].
Qed.

(** * The recording loop: applyChangeToConfig over the updated change values *)
Definition tombb (o : option pv) : bool := match o with Some e => pv_deleted e | None => false end.
Definition isnone {A} (o : option A) : bool := match o with Some _ => false | None => true end.

Definition drop_step : cmap * option (str * pv) -> str -> cmap * option (str * pv) :=
  fun '(acc, dropped) a =>
    match lookup a acc with
    | Some e => if pv_deleted e then (remove a acc, Some (a, e)) else (acc, dropped)
    | None => (acc, dropped)
    end.

Lemma existsb_eqb_in k A : existsb (eqb_str k) A = true <-> In k A.
Proof.
  rewrite existsb_exists. split; [intros (x & Hx & E); apply eqb_str_eq in E; subst; exact Hx|].
  intros H. exists k. split; [exact H|apply eqb_str_refl].
Qed.

Lemma drop_fold A : forall acc d, ND acc ->
  ND (fst (fold_left drop_step A (acc, d))) /\
  (forall x, In x (fst (fold_left drop_step A (acc, d))) -> In x acc) /\
  forall k, lookup k (fst (fold_left drop_step A (acc, d))) =
            if existsb (eqb_str k) A && tombb (lookup k acc) then None else lookup k acc.
Proof.
  induction A as [|a A IH]; intros acc d Hn; cbn [fold_left].
  - split; [exact Hn|]. split; [auto|]. intros k. reflexivity.
  - cbn [drop_step]. destruct (lookup a acc) as [e|] eqn:Ea.
    + destruct (pv_deleted e) eqn:Ed.
      * destruct (IH (remove a acc) (Some (a, e)) (ND_remove a acc Hn)) as (I1 & I2 & I3).
        split; [exact I1|]. split; [intros x Hx; eapply In_remove; apply I2; exact Hx|]. intros k. rewrite I3.
        rewrite (lookup_remove k a acc Hn). cbn [existsb]. deq k a.
        -- subst k. rewrite Ea. cbn. rewrite Ed. destruct (existsb (eqb_str a) A); reflexivity.
        -- cbn. reflexivity.
      * destruct (IH acc d Hn) as (I1 & I2 & I3). split; [exact I1|]. split; [exact I2|]. intros k. rewrite I3.
        cbn [existsb]. deq k a; [|reflexivity]. subst k. rewrite Ea. cbn. rewrite Ed, !andb_false_r. reflexivity.
    + destruct (IH acc d Hn) as (I1 & I2 & I3). split; [exact I1|]. split; [exact I2|]. intros k. rewrite I3.
      cbn [existsb]. deq k a; [|reflexivity]. subst k. rewrite Ea. cbn. rewrite !andb_false_r. reflexivity.
Qed.

Lemma acta_eq acc p v :
  fst (apply_change_to_config acc p v) =
  if pv_deleted v then insert p v acc else fst (fold_left drop_step (ancestors p) (insert p v acc, None)).
Proof. unfold apply_change_to_config. destruct (pv_deleted v); reflexivity. Qed.

Lemma acta_ND acc p v : ND acc -> ND (fst (apply_change_to_config acc p v)).
Proof.
  intros Hn. rewrite acta_eq. destruct (pv_deleted v); [apply ND_insert; exact Hn|].
  apply drop_fold. apply ND_insert. exact Hn.
Qed.

Lemma acta_In acc p v x : ND acc -> In x (fst (apply_change_to_config acc p v)) -> x = (p, v) \/ In x acc.
Proof.
  intros Hn. rewrite acta_eq. destruct (pv_deleted v); [apply In_insert|].
  intros H. apply drop_fold in H; [|apply ND_insert; exact Hn]. apply In_insert. exact H.
Qed.

Lemma acta_lookup acc p v k : ND acc -> KO acc ->
  lookup k (fst (apply_change_to_config acc p v)) =
  if eqb_str k p then Some v
  else if negb (pv_deleted v) && tombb (lookup k acc) && is_path_below p k then None else lookup k acc.
Proof.
  intros Hn Hk. rewrite acta_eq. destruct (pv_deleted v) eqn:Ed.
  - rewrite lookup_insert. cbn. reflexivity.
  - destruct (drop_fold (ancestors p) (insert p v acc) None (ND_insert p v acc Hn)) as (_ & _ & H). rewrite H.
    rewrite lookup_insert. deq k p.
    + cbn. rewrite Ed, andb_false_r. reflexivity.
    + cbn [negb andb]. destruct (lookup k acc) as [e|] eqn:Ek; cbn [tombb]; [|rewrite andb_false_r; reflexivity].
      destruct (pv_deleted e); [|rewrite andb_false_r; reflexivity]. rewrite andb_true_r.
      assert (Hp : proper k = true) by (apply (KO_lookup _ _ _ Hk Ek)).
      assert (Heq : existsb (eqb_str k) (ancestors p) = is_path_below p k).
      { apply eq_true_iff_eq. rewrite existsb_eqb_in. apply ancestors_below. exact Hp. }
      rewrite Heq. reflexivity.
Qed.

Definition act_fold (l va : cmap) : cmap :=
  fold_left (fun acc '(p, v) => fst (apply_change_to_config acc p v)) l va.
(* a live value of [l] lies beneath [k] *)
Definition dropb (l : cmap) (k : str) : bool :=
  existsb (fun kv => negb (pv_deleted (snd kv)) && is_path_below (fst kv) k) l.
(* no tombstone of [l] above a live value of [l] *)
Definition NoTombAbove (l : cmap) : Prop :=
  forall k v a e, In (k, v) l -> pv_deleted v = false -> In (a, e) l -> pv_deleted e = true -> is_path_below k a = false.

Lemma act_fold_WF l : forall va, WF va -> KO l -> WF (act_fold l va).
Proof.
  unfold act_fold. induction l as [|[p v] l IH]; intros va Hw Hl; cbn [fold_left]; [exact Hw|].
  apply IH; [|intros k' v' H; apply Hl; right; exact H]. destruct Hw as [Hn Hk]. split; [apply acta_ND; exact Hn|].
  intros k' v' H. apply acta_In in H; [|exact Hn]. destruct H as [[= -> ->]|H]; [apply Hl; left; reflexivity|apply Hk; exact H].
Qed.

Lemma act_fold_In l : forall va x, ND va -> In x (act_fold l va) -> In x l \/ In x va.
Proof.
  unfold act_fold. induction l as [|[p v] l IH]; intros va x Hn; cbn [fold_left]; [auto|]. intros H.
  apply IH in H; [|apply acta_ND; exact Hn]. destruct H as [H|H]; [left; right; exact H|].
  apply acta_In in H; [|exact Hn]. destruct H as [->|H]; [left; left; reflexivity|right; exact H].
Qed.

Theorem act_fold_lookup l : forall va k, WF va -> ND l -> KO l -> NoTombAbove l ->
  lookup k (act_fold l va) =
  match lookup k l with
  | Some v => Some v
  | None => match lookup k va with
            | Some e => if pv_deleted e && dropb l k then None else Some e
            | None => None
            end
  end.
Proof.
  induction l as [|[p v] l IH]; intros va k Hw Hn Hk Ht.
  - cbn. destruct (lookup k va) as [e|]; [rewrite andb_false_r|]; reflexivity.
  - assert (Hw1 : WF (fst (apply_change_to_config va p v))).
    { destruct Hw as [N1 K1]. split; [apply acta_ND; exact N1|]. intros k' v' H. apply acta_In in H; [|exact N1].
      destruct H as [[= -> ->]|H]; [apply Hk; left; reflexivity|apply K1; exact H]. }
    assert (Hn' : ND l) by (unfold ND in *; cbn in Hn; inversion Hn; assumption).
    assert (Hk' : KO l) by (intros k' v' H; apply Hk; right; exact H).
    assert (Ht' : NoTombAbove l).
    { intros k1 v1 a e H1 H2 H3 H4. apply (Ht k1 v1 a e); [right; exact H1|exact H2|right; exact H3|exact H4]. }
    change (act_fold ((p, v) :: l) va) with (act_fold l (fst (apply_change_to_config va p v))).
    rewrite (IH _ k Hw1 Hn' Hk' Ht'). destruct Hw as [N1 K1]. rewrite (acta_lookup va p v k N1 K1).
    cbn [lookup]. deq k p.
    + subst k. assert (Hl : lookup p l = None).
      { apply lookup_none. unfold ND in Hn. cbn in Hn. inversion Hn. assumption. }
      rewrite Hl. destruct (pv_deleted v) eqn:Ed; [|reflexivity]. cbn [andb].
      destruct (dropb l p) eqn:Edr; [|reflexivity]. exfalso. unfold dropb in Edr. apply existsb_exists in Edr.
      destruct Edr as ([w vw] & Hin & H). cbn in H. apply andb_true_iff in H. destruct H as [H1 H2]. apply negb_true_iff in H1.
      rewrite (Ht w vw p v) in H2; [discriminate|right; exact Hin|exact H1|left; reflexivity|exact Ed].
    + destruct (lookup k l) as [v'|]; [reflexivity|].
      unfold dropb. cbn [existsb fst snd]. fold (dropb l k).
      destruct (lookup k va) as [e|] eqn:Ek; cbn [tombb]; [|rewrite andb_false_r; reflexivity].
      destruct (pv_deleted e) eqn:Ede; [|rewrite andb_false_r; cbn; rewrite Ede; reflexivity].
      rewrite andb_true_r. destruct (negb (pv_deleted v) && is_path_below p k); cbn; [reflexivity|].
      rewrite Ede. reflexivity.
Qed.

(** * PrunePathValues, live *)
Lemma snd_in_lookup M v : WF M -> (In v (map snd M) <-> lookup (pv_path v) M = Some v).
Proof.
  intros [Hn Hk]. split.
  - intros H. apply in_map_iff in H. destruct H as ([k v'] & E & Hin). cbn in E. subst v'.
    destruct (Hk _ _ Hin) as [-> _]. apply in_lookup; assumption.
  - intros H. apply lookup_in in H. apply in_map_iff. exists (pv_path v, v). auto.
Qed.

Lemma paths_keys M : KO M -> map pv_path (map snd M) = map fst M.
Proof.
  intros Hk. rewrite map_map. apply map_ext_in. intros [k v] Hin. cbn. destruct (Hk _ _ Hin). auto.
Qed.

Lemma below_deleted_covered M p : KO M -> below_deleted p (map pv_path (filter pv_deleted (map snd M))) = covered M p.
Proof.
  intros Hk. rewrite below_deleted_spec.
  - apply eq_true_iff_eq. rewrite covered_spec, existsb_exists. split.
    + intros (d & Hd & Hb). apply in_map_iff in Hd. destruct Hd as (e & <- & He). apply filter_In in He. destruct He as [He Hdel].
      apply in_map_iff in He. destruct He as ([t e'] & E & Hin). cbn in E. subst e'. exists t, e.
      destruct (Hk _ _ Hin) as [-> _]. auto.
    + intros (t & e & Hin & Hdel & Hb). exists t. split; [|exact Hb]. destruct (Hk _ _ Hin) as [-> _].
      apply in_map. apply filter_In. split; [|exact Hdel]. apply in_map_iff. exists (pv_path e, e). auto.
  - intros d Hd. apply in_map_iff in Hd. destruct Hd as (e & <- & He). apply filter_In in He. destruct He as [He _].
    apply in_map_iff in He. destruct He as ([t e'] & E & Hin). cbn in E. subst e'. destruct (Hk _ _ Hin) as [<- H]. exact H.
Qed.

Lemma prune_in M kt v : WF M ->
  (In v (prune_path_values (map snd M) kt) <->
   lookup (pv_path v) M = Some v /\ covered M (pv_path v) = false /\ (pv_deleted v = false \/ kt = true)).
Proof.
  intros Hw. unfold prune_path_values. rewrite filter_In, (below_deleted_covered _ _ (proj2 Hw)).
  rewrite sort_pvs_gsort. split.
  - intros [Hin H]. apply (Permutation_in _ (gsort_perm pv_path _)) in Hin. apply (snd_in_lookup _ _ Hw) in Hin.
    apply andb_true_iff in H. destruct H as [H1 H2]. apply negb_true_iff in H1. split; [exact Hin|]. split; [exact H1|].
    apply orb_true_iff in H2. destruct H2 as [H2|H2]; [left; apply negb_true_iff; exact H2|right; exact H2].
  - intros (H1 & H2 & H3). split.
    + apply (Permutation_in _ (Permutation_sym (gsort_perm pv_path _))). apply (snd_in_lookup _ _ Hw). exact H1.
    + rewrite H2. cbn. destruct H3 as [->| ->]; [reflexivity|apply orb_true_r].
Qed.

(* [p] is a live leaf of value [x]: not deleted, not beneath a tombstone *)
Definition lvp (M : cmap) (p x : str) : Prop :=
  exists v, lookup p M = Some v /\ pv_deleted v = false /\ pv_val v = x /\ covered M p = false.

Lemma live_in M p x : WF M -> (In (p, x) (live M) <-> lvp M p x).
Proof.
  intros Hw. unfold live, lvp. rewrite in_map_iff. split.
  - intros (v & [= <- <-] & Hin). apply (prune_in _ _ _ Hw) in Hin. destruct Hin as (H1 & H2 & [H3|H3]); [|discriminate].
    exists v. auto.
  - intros (v & H1 & H2 & H3 & H4). destruct (KO_lookup _ _ _ (proj2 Hw) H1) as [Hp _]. exists v. subst x. rewrite Hp.
    split; [reflexivity|]. apply (prune_in _ _ _ Hw). rewrite Hp. auto.
Qed.

Lemma prune_sorted M kt : WF M -> StronglySorted (klt pv_path) (prune_path_values (map snd M) kt).
Proof.
  intros [Hn Hk]. unfold prune_path_values. apply ksorted_filter. rewrite sort_pvs_gsort. apply gsort_sorted.
  rewrite (paths_keys _ Hk). exact Hn.
Qed.

Lemma live_sorted M : WF M -> StronglySorted (klt fst) (live M).
Proof. intros Hw. unfold live. apply (ksorted_map pv_path fst); [reflexivity|]. apply prune_sorted. exact Hw. Qed.

Theorem live_ext M1 M2 : WF M1 -> WF M2 -> (forall p x, lvp M1 p x <-> lvp M2 p x) -> live M1 = live M2.
Proof.
  intros H1 H2 H. apply (ksorted_ext fst); [apply live_sorted; exact H1|apply live_sorted; exact H2|].
  intros [p x]. rewrite (live_in _ _ _ H1), (live_in _ _ _ H2). apply H.
Qed.

Lemma pruned_none M k : WF M -> (lookup k (prune_path_map M true) = None <-> lookup k M = None \/ covered M k = true).
Proof.
  intros Hw. unfold prune_path_map. rewrite lookup_none, map_map. cbn [fst]. split.
  - intros H. destruct (lookup k M) as [v|] eqn:E; [|left; reflexivity]. destruct (covered M k) eqn:Ec; [right; reflexivity|].
    exfalso. apply H. destruct (KO_lookup _ _ _ (proj2 Hw) E) as [Hp _]. apply in_map_iff. exists v. split; [exact Hp|].
    apply (prune_in _ _ _ Hw). rewrite Hp. auto.
  - intros H Hin. apply in_map_iff in Hin. destruct Hin as (v & Hp & Hin). apply (prune_in _ _ _ Hw) in Hin.
    rewrite Hp in Hin. destruct Hin as (H1 & H2 & _). destruct H as [H|H]; congruence.
Qed.

(* the topmost tombstone above a covered path is itself not covered *)
Lemma covered_top M : KO M -> forall n p, (length p <= n)%nat -> covered M p = true ->
  exists t e, In (t, e) M /\ pv_deleted e = true /\ is_path_below p t = true /\ covered M t = false.
Proof.
  intros Hk. induction n as [|n IH]; intros p Hlen Hc.
  - apply covered_spec in Hc. destruct Hc as (t & e & Hin & _ & Hb). apply (below_spec _ _ (proj2 (Hk _ _ Hin))) in Hb.
    apply Below_len in Hb. lia.
  - apply covered_spec in Hc. destruct Hc as (t & e & Hin & Hdel & Hb). destruct (covered M t) eqn:Ect.
    + pose proof (proj2 (Hk _ _ Hin)) as Hpt. pose proof (proj1 (below_spec _ _ Hpt) Hb) as HB.
      destruct (IH t) as (t' & e' & Hin' & Hdel' & Hb' & Hc'); [apply Below_len in HB; lia|exact Ect|].
      exists t', e'. split; [exact Hin'|]. split; [exact Hdel'|]. split; [|exact Hc'].
      pose proof (proj2 (Hk _ _ Hin')) as Hpt'. apply (below_spec _ _ Hpt'). eapply Below_trans; [exact HB|].
      apply (below_spec _ _ Hpt'). exact Hb'.
    + exists t, e. auto.
Qed.

(* [M] holds, content-wise, every uncovered entry of [X], and nothing that [X] does not hold: same live leaves *)
Lemma prune_equiv_cov X M : WF X -> WF M ->
  (forall k v, lookup k X = Some v -> covered X k = false -> exists v', lookup k M = Some v' /\ same_content v' v = true) ->
  (forall k, lookup k M <> None -> lookup k X <> None) ->
  forall p, covered M p = covered X p.
Proof.
  intros HX HM H1 H2.
  { intros p. apply eq_true_iff_eq. split; intros Hc.
    - apply covered_spec in Hc. destruct Hc as (t & e & Hin & Hdel & Hb).
      pose proof (in_lookup _ _ _ (proj1 HM) Hin) as Hl.
      destruct (lookup t X) as [e'|] eqn:Et; [|exfalso; apply (H2 t); congruence].
      destruct (covered X t) eqn:Ect.
      + apply covered_spec in Ect. destruct Ect as (t' & e'' & Hin' & Hdel' & Hb'). apply covered_spec. exists t', e''.
        split; [exact Hin'|]. split; [exact Hdel'|]. pose proof (proj2 (proj2 HX _ _ Hin')) as Hp'.
        apply (below_spec _ _ Hp'). eapply Below_trans; [|apply (below_spec _ _ Hp'); exact Hb'].
        apply (below_spec _ _ (proj2 (proj2 HM _ _ Hin))). exact Hb.
      + destruct (H1 _ _ Et Ect) as (v' & Hv' & Hs). rewrite Hl in Hv'. injection Hv' as <-.
        unfold same_content in Hs. apply andb_true_iff in Hs. destruct Hs as [Hs _]. apply eqb_prop in Hs.
        apply covered_spec. exists t, e'. split; [apply lookup_in; exact Et|]. split; [congruence|exact Hb].
    - destruct (covered_top X (proj2 HX) (length p) p (le_n _) Hc) as (t & e & Hin & Hdel & Hb & Hct).
      destruct (H1 _ _ (in_lookup _ _ _ (proj1 HX) Hin) Hct) as (v' & Hv' & Hs).
      unfold same_content in Hs. apply andb_true_iff in Hs. destruct Hs as [Hs _]. apply eqb_prop in Hs.
      apply covered_spec. exists t, v'. split; [apply lookup_in; exact Hv'|]. split; [congruence|exact Hb]. }
Qed.

Theorem prune_equiv X M : WF X -> WF M ->
  (forall k v, lookup k X = Some v -> covered X k = false -> exists v', lookup k M = Some v' /\ same_content v' v = true) ->
  (forall k, lookup k M <> None -> lookup k X <> None) ->
  forall p x, lvp M p x <-> lvp X p x.
Proof.
  intros HX HM H1 H2. pose proof (prune_equiv_cov X M HX HM H1 H2) as Hcov.
  intros p x. unfold lvp. rewrite Hcov. split.
  - intros (v & Hl & Hd & Hv & Hc). destruct (lookup p X) as [e|] eqn:Ep; [|exfalso; apply (H2 p); congruence].
    destruct (H1 _ _ Ep Hc) as (v' & Hv' & Hs). rewrite Hl in Hv'. injection Hv' as <-.
    unfold same_content in Hs. apply andb_true_iff in Hs. destruct Hs as [Hs1 Hs2]. apply eqb_prop in Hs1.
    exists e. split; [reflexivity|]. split; [congruence|]. split; [|exact Hc].
    rewrite <- Hs1, Hd in Hs2. cbn in Hs2. apply eqb_str_eq in Hs2. congruence.
  - intros (v & Hl & Hd & Hv & Hc). destruct (H1 _ _ Hl Hc) as (v' & Hv' & Hs).
    unfold same_content in Hs. apply andb_true_iff in Hs. destruct Hs as [Hs1 Hs2]. apply eqb_prop in Hs1.
    exists v'. split; [exact Hv'|]. split; [congruence|]. split; [|exact Hc].
    rewrite Hd in Hs2. cbn in Hs2. apply eqb_str_eq in Hs2. congruence.
Qed.

(** * store() *)
Definition sw_step (m X pruned : cmap) : cmap -> str * pv -> cmap :=
  fun st '(_, v) =>
    match lookup (pv_path v) m, lookup (pv_path v) pruned with
    | None, Some _ => clear_ancestors m X v (insert (pv_path v) v st)
    | None, None => st
    | Some _, None => remove (pv_path v) st
    | Some e, Some _ => if pv_index v =? pv_index e then st else clear_ancestors m X v (insert (pv_path v) v st)
    end.

Lemma sw_fold m X : store_write m X = fold_left (sw_step m X (prune_path_map X true)) X m.
Proof. reflexivity. Qed.

(* a stored tombstone that the writer no longer holds *)
Definition ccond (m X : cmap) (k : str) : bool := isnone (lookup k X) && tombb (lookup k m).

Definition clear_step (m X : cmap) : cmap -> str -> cmap :=
  fun acc a =>
    match lookup a X with
    | Some _ => acc
    | None => match lookup a m with
              | Some e => if pv_deleted e then remove a acc else acc
              | None => acc
              end
    end.

Lemma clear_fold m X A : forall st, ND st ->
  ND (fold_left (clear_step m X) A st) /\
  (forall x, In x (fold_left (clear_step m X) A st) -> In x st) /\
  forall k, lookup k (fold_left (clear_step m X) A st) =
            if existsb (eqb_str k) A && ccond m X k then None else lookup k st.
Proof.
  induction A as [|a A IH]; intros st Hn; cbn [fold_left].
  - split; [exact Hn|]. split; [auto|]. reflexivity.
  - assert (Hkeep : ccond m X a = false -> clear_step m X st a = st).
    { unfold ccond, clear_step. destruct (lookup a X); [reflexivity|]. destruct (lookup a m) as [e|]; [|reflexivity].
      cbn. intros ->. reflexivity. }
    destruct (ccond m X a) eqn:Ec.
    + assert (Hrm : clear_step m X st a = remove a st).
      { unfold ccond in Ec. unfold clear_step. destruct (lookup a X); [discriminate|]. destruct (lookup a m) as [e|]; [|discriminate].
        cbn in Ec. rewrite Ec. reflexivity. }
      rewrite Hrm. destruct (IH (remove a st) (ND_remove a st Hn)) as (I1 & I2 & I3). split; [exact I1|].
      split; [intros x Hx; eapply In_remove; apply I2; exact Hx|]. intros k. rewrite I3, (lookup_remove k a st Hn).
      cbn [existsb]. deq k a; [subst k; rewrite Ec; destruct (existsb (eqb_str a) A); reflexivity|reflexivity].
    + rewrite (Hkeep eq_refl). destruct (IH st Hn) as (I1 & I2 & I3). split; [exact I1|]. split; [exact I2|].
      intros k. rewrite I3. cbn [existsb]. deq k a; [subst k; rewrite Ec, !andb_false_r; reflexivity|reflexivity].
Qed.

Lemma clear_spec m X v st : ND st ->
  ND (clear_ancestors m X v st) /\
  (forall x, In x (clear_ancestors m X v st) -> In x st) /\
  forall k, lookup k (clear_ancestors m X v st) =
            if negb (pv_deleted v) && existsb (eqb_str k) (ancestors (pv_path v)) && ccond m X k then None else lookup k st.
Proof.
  intros Hn. unfold clear_ancestors. destruct (pv_deleted v).
  - split; [exact Hn|]. split; [auto|]. reflexivity.
  - exact (clear_fold m X (ancestors (pv_path v)) st Hn).
Qed.

(* a value of the written map that store() writes *)
Definition written (m X : cmap) (k : str) (v : pv) : bool :=
  negb (covered X k) && match lookup k m with None => true | Some e => negb (pv_index v =? pv_index e) end.
(* a written live value among [X1] lies beneath [k] *)
Definition clrb (m X X1 : cmap) (k : str) : bool :=
  existsb (fun kv => written m X (fst kv) (snd kv) && negb (pv_deleted (snd kv)) && is_path_below (fst kv) k) X1.
Definition sw_val (m X X1 : cmap) (k : str) : option pv :=
  match lookup k X1 with
  | Some v => if covered X k then None
              else match lookup k m with None => Some v | Some e => if pv_index v =? pv_index e then Some e else Some v end
  | None => match lookup k X with
            | Some _ => lookup k m
            | None => if tombb (lookup k m) && clrb m X X1 k then None else lookup k m
            end
  end.

Lemma sw_step_inv m X X1 k0 v0 X2 st :
  WF X -> WF m -> X = X1 ++ (k0, v0) :: X2 -> ND st -> (forall k, lookup k st = sw_val m X X1 k) ->
  ND (sw_step m X (prune_path_map X true) st (k0, v0)) /\
  (forall x, In x (sw_step m X (prune_path_map X true) st (k0, v0)) -> In x st \/ x = (k0, v0)) /\
  forall k, lookup k (sw_step m X (prune_path_map X true) st (k0, v0)) = sw_val m X (X1 ++ [(k0, v0)]) k.
Proof.
  intros HX Hm HeqX Hn Hinv.
  assert (Hin0 : In (k0, v0) X) by (rewrite HeqX; apply in_app_iff; right; left; reflexivity).
  destruct (proj2 HX _ _ Hin0) as [Hk0 Hp0].
  assert (HX0 : lookup k0 X = Some v0) by (apply in_lookup; [apply HX|exact Hin0]).
  assert (HX1 : lookup k0 X1 = None).
  { apply lookup_none. apply (ND_mid_notin X1 k0 v0 X2). rewrite <- HeqX. apply HX. }
  assert (Hsub : forall k v, lookup k X1 = Some v -> lookup k X = Some v).
  { intros k v H. rewrite HeqX, lookup_app, H. reflexivity. }
  assert (Hst0 : lookup k0 st = lookup k0 m) by (rewrite Hinv; unfold sw_val; rewrite HX1, HX0; reflexivity).
  assert (Hsnoc : forall k, lookup k (X1 ++ [(k0, v0)]) =
                            match lookup k X1 with Some v => Some v | None => if eqb_str k k0 then Some v0 else None end).
  { intros k. rewrite lookup_app. cbn. reflexivity. }
  assert (Hclr : forall k, clrb m X (X1 ++ [(k0, v0)]) k =
                           clrb m X X1 k || (written m X k0 v0 && negb (pv_deleted v0) && is_path_below k0 k)).
  { intros k. unfold clrb. rewrite existsb_app. cbn. rewrite orb_false_r. reflexivity. }
  (* every other key, when nothing is written for k0 *)
  assert (Hother : written m X k0 v0 = false -> forall k, k <> k0 -> sw_val m X (X1 ++ [(k0, v0)]) k = sw_val m X X1 k).
  { intros Hw k Hne. unfold sw_val. rewrite Hsnoc, Hclr, Hw. cbn [andb]. rewrite orb_false_r.
    destruct (lookup k X1); [reflexivity|]. apply eqb_str_neq in Hne. rewrite Hne. reflexivity. }
  (* the value is written *)
  assert (HW : written m X k0 v0 = true ->
               ND (clear_ancestors m X v0 (insert k0 v0 st)) /\
               (forall x, In x (clear_ancestors m X v0 (insert k0 v0 st)) -> In x st \/ x = (k0, v0)) /\
               forall k, lookup k (clear_ancestors m X v0 (insert k0 v0 st)) = sw_val m X (X1 ++ [(k0, v0)]) k).
  { intros Hw. destruct (clear_spec m X v0 (insert k0 v0 st) (ND_insert k0 v0 st Hn)) as (C1 & C2 & C3).
    split; [exact C1|]. split.
    { intros x Hx. apply C2 in Hx. apply In_insert in Hx. destruct Hx; auto. }
    intros k. rewrite C3, <- Hk0, lookup_insert. unfold sw_val. rewrite Hsnoc, Hclr, Hw. cbn [andb].
    unfold written in Hw. apply andb_true_iff in Hw. destruct Hw as [Hw1 Hw2]. apply negb_true_iff in Hw1.
    deq k k0.
    - subst k. unfold ccond. rewrite HX0, HX1. cbn [isnone andb]. rewrite andb_false_r, Hw1.
      destruct (lookup k0 m) as [e|]; [|reflexivity]. apply negb_true_iff in Hw2. rewrite Hw2. reflexivity.
    - destruct (lookup k X1) as [v|] eqn:E1.
      + unfold ccond. rewrite (Hsub _ _ E1). cbn [isnone andb]. rewrite andb_false_r. rewrite Hinv. unfold sw_val. rewrite E1. reflexivity.
      + unfold ccond. destruct (lookup k X) as [v|] eqn:E2.
        * cbn [isnone andb]. rewrite andb_false_r, Hinv. unfold sw_val. rewrite E1, E2. reflexivity.
        * cbn [isnone andb]. rewrite Hinv. unfold sw_val. rewrite E1, E2.
          destruct (lookup k m) as [e|] eqn:Em; cbn [tombb]; [|rewrite andb_false_r; reflexivity].
          destruct (pv_deleted e); [|rewrite andb_false_r; reflexivity]. rewrite andb_true_r. cbn [andb].
          assert (Heq : existsb (eqb_str k) (ancestors k0) = is_path_below k0 k).
          { apply eq_true_iff_eq. rewrite existsb_eqb_in. apply ancestors_below. apply (KO_lookup _ _ _ (proj2 Hm) Em). }
          rewrite Heq. destruct (negb (pv_deleted v0)), (is_path_below k0 k), (clrb m X X1 k); reflexivity. }
  assert (Hcov : lookup k0 (prune_path_map X true) = None <-> covered X k0 = true).
  { rewrite (pruned_none X k0 HX), HX0. split; [intros [H|H]; [discriminate|exact H]|auto]. }
  unfold sw_step. rewrite <- Hk0.
  destruct (lookup k0 m) as [e|] eqn:Em; destruct (lookup k0 (prune_path_map X true)) as [pe|] eqn:Ep.
  - (* stored, kept by the pruning *)
    assert (Hc : covered X k0 = false).
    { destruct (covered X k0) eqn:E; [|reflexivity]. discriminate (proj2 Hcov eq_refl). }
    destruct (pv_index v0 =? pv_index e) eqn:Ei.
    + assert (Hw : written m X k0 v0 = false) by (unfold written; rewrite Em, Ei, andb_false_r; reflexivity).
      split; [exact Hn|]. split; [auto|]. intros k. deq k k0.
      * subst k. rewrite Hst0. unfold sw_val. rewrite Hsnoc, HX1, eqb_str_refl, Hc, Em, Ei. reflexivity.
      * rewrite (Hother Hw k E). apply Hinv.
    + apply HW. unfold written. rewrite Em, Ei, Hc. reflexivity.
  - (* stored, pruned: removed *)
    assert (Hc : covered X k0 = true) by (apply Hcov; reflexivity).
    assert (Hw : written m X k0 v0 = false) by (unfold written; rewrite Hc; reflexivity).
    split; [apply ND_remove; exact Hn|]. split; [intros x Hx; left; eapply In_remove; exact Hx|]. intros k.
    rewrite (lookup_remove k k0 st Hn). deq k k0.
    + subst k. unfold sw_val. rewrite Hsnoc, HX1, eqb_str_refl, Hc. reflexivity.
    + rewrite (Hother Hw k E). apply Hinv.
  - (* new, kept by the pruning *)
    assert (Hc : covered X k0 = false).
    { destruct (covered X k0) eqn:E; [|reflexivity]. discriminate (proj2 Hcov eq_refl). }
    apply HW. unfold written. rewrite Em, Hc. reflexivity.
  - (* new, pruned: skipped *)
    assert (Hc : covered X k0 = true) by (apply Hcov; reflexivity).
    assert (Hw : written m X k0 v0 = false) by (unfold written; rewrite Hc; reflexivity).
    split; [exact Hn|]. split; [auto|]. intros k. deq k k0.
    + subst k. rewrite Hst0. unfold sw_val. rewrite Hsnoc, HX1, eqb_str_refl, Hc. reflexivity.
    + rewrite (Hother Hw k E). apply Hinv.
Qed.

Lemma sw_inv m X : WF X -> WF m -> forall X2 X1 st,
  X = X1 ++ X2 -> ND st -> (forall x, In x st -> In x m \/ In x X) -> (forall k, lookup k st = sw_val m X X1 k) ->
  let r := fold_left (sw_step m X (prune_path_map X true)) X2 st in
  ND r /\ (forall x, In x r -> In x m \/ In x X) /\ forall k, lookup k r = sw_val m X X k.
Proof.
  intros HX Hm. induction X2 as [|[k0 v0] X2 IH]; intros X1 st HeqX Hn Hsub Hinv; cbn [fold_left].
  - rewrite app_nil_r in HeqX. subst X1. auto.
  - destruct (sw_step_inv m X X1 k0 v0 X2 st HX Hm HeqX Hn Hinv) as (S1 & S2 & S3).
    apply (IH (X1 ++ [(k0, v0)])); [rewrite <- app_assoc; exact HeqX|exact S1| |exact S3].
    intros x Hx. apply S2 in Hx. destruct Hx as [Hx| ->]; [auto|]. right. rewrite HeqX. apply in_app_iff. right. left. reflexivity.
Qed.

Theorem store_write_spec m X : WF X -> WF m ->
  WF (store_write m X) /\ forall k, lookup k (store_write m X) = sw_val m X X k.
Proof.
  intros HX Hm. rewrite sw_fold.
  destruct (sw_inv m X HX Hm X [] m eq_refl (proj1 Hm)) as (R1 & R2 & R3).
  - auto.
  - intros k. unfold sw_val. cbn [lookup]. destruct (lookup k X); [reflexivity|]. unfold clrb. cbn. rewrite andb_false_r. reflexivity.
  - split; [|exact R3]. split; [exact R1|]. intros k v Hin. destruct (R2 _ Hin) as [H|H]; [apply (proj2 Hm)|apply (proj2 HX)]; exact H.
Qed.

(* Proofs about Model/Watch.v *)
From Coq Require Import List NArith Bool Lia.
From OC Require Import Model.Watch.
Import ListNotations.
Open Scope N_scope.

(* ---------------------------------------------------------------- the order of registration and snapshot matters *)
(* hypothetical swapped order (snapshot before the listener is registered): the update that falls between
   the two is never shown - snapshot, write (event dispatched to nobody), register *)
Definition swapped_schedule : list label :=
  [SWrite 0; STake; SOpen 1 None true; SSnap 1; SWrite 0; STake; SRegister 1; SReplay 1; SReplay 1].

Example swapped_order_misses_update :
  let g := wrun true true w0 swapped_schedule in quiescent g = true /\ watch_ok g = false.
Proof. vm_compute. split; reflexivity. Qed.

Example real_order_same_schedule_ok :
  let g := settle true 6 (wrun true false w0 swapped_schedule) in quiescent g = true /\ watch_ok g = true.
Proof. vm_compute. split; reflexivity. Qed.

(* ---------------------------------------------------------------- F-10: cancel during the replay *)
(* watcher 1 replays two records; after the first one a write happens and the event loop takes its event with
   listeners [1; 2]; watcher 1 is cancelled and sees the dead context before its second replayed event *)
Definition f10_schedule : list label :=
  [SWrite 0; SWrite 1; STake; STake; SOpen 1 None true; SOpen 2 None false; SSnap 1; SReplay 1; SWrite 0; STake; SCancel 1; SReplay 1].

Definition innocent_served (g : world) : bool :=
  match find_w 2 (g_ws g) with Some w => negb (w_cancelled w) && shown_latest w g | None => false end.

(* as the code is: the loop is parked on the dead listener *)
Example f10_loop_blocked :
  let g := wrun false false w0 f10_schedule in
  g_loop g = LSend {| ev_key := 0; ev_ver := 3 |} [1; 2] /\
  (match find_w 1 (g_ws g) with Some w => w_phase w | None => WMain end) = WStuck.
Proof. vm_compute. split; reflexivity. Qed.

Lemma find_upd id id' f ws : (forall w, w_id (f w) = w_id w) ->
  find_w id (upd_w id' f ws) = if N.eqb id' id then option_map f (find_w id ws) else find_w id ws.
Proof.
  intro Hf. induction ws as [|w r IH]; simpl.
  - destruct (N.eqb id' id); reflexivity.
  - destruct (N.eqb_spec (w_id w) id') as [E|E]; simpl.
    + rewrite Hf. destruct (N.eqb_spec (w_id w) id) as [E2|E2].
      * subst. rewrite N.eqb_refl. reflexivity.
      * destruct (N.eqb_spec id' id); [congruence | reflexivity].
    + destruct (N.eqb_spec (w_id w) id) as [E2|E2].
      * destruct (N.eqb_spec id' id); [congruence | reflexivity].
      * exact IH.
Qed.

Definition parked (g : world) (e : ev) (id : N) (rest : list N) : Prop :=
  g_loop g = LSend e (id :: rest) /\ exists w, find_w id (g_ws g) = Some w /\ w_phase w = WStuck.

Lemma find_map_note k id ws : find_w id (map (note_write k) ws) = option_map (note_write k) (find_w id ws).
Proof. induction ws as [|w r IH]; simpl; [reflexivity|]. destruct (N.eqb (w_id w) id); [reflexivity | exact IH]. Qed.

Lemma find_app id ws w' : find_w id ws <> None -> find_w id (ws ++ [w']) = find_w id ws.
Proof.
  induction ws as [|w r IH]; simpl; [congruence|]. destruct (N.eqb (w_id w) id); [reflexivity | exact IH].
Qed.

(* once the loop is parked on a listener whose goroutine has gone without a drainer, NO step of anybody
   ever moves it again: every later event, for every other watcher of the store, stays undelivered *)
Ltac shape := first [ left; reflexivity | right; eexists; split; [| reflexivity]; intro; reflexivity ].

Lemma parked_step fixed g e id rest l : parked g e id rest -> parked (wstep fixed false g l) e id rest.
Proof.
  intros [Hloop [w [Hf Hp]]].
  (* a step of another watcher id0 either does nothing or rewrites that watcher only *)
  assert (Hshape : forall id0 g', id0 <> id ->
            (g' = g \/ exists f, (forall x, w_id (f x) = w_id x) /\ g' = with_ws g (upd_w id0 f (g_ws g))) ->
            parked g' e id rest).
  { intros id0 g' Hne [-> | [f [Hfid ->]]].
    - split; [exact Hloop|]. eexists; split; [exact Hf | exact Hp].
    - split; [exact Hloop|]. simpl. rewrite (find_upd id id0 f _ Hfid).
      destruct (N.eqb_spec id0 id); [contradiction|]. eexists; split; [exact Hf | exact Hp]. }
  assert (Hsame : parked g e id rest) by (split; [exact Hloop|]; eexists; split; [exact Hf | exact Hp]).
  destruct l; simpl.
  - (* SWrite *) split; [exact Hloop|]. simpl. rewrite find_map_note, Hf. simpl. eexists; split; [reflexivity | exact Hp].
  - (* SOpen *) destruct (find_w id0 (g_ws g)) eqn:E; [exact Hsame|]. split; [exact Hloop|]. simpl.
    rewrite find_app by congruence. eexists; split; [exact Hf | exact Hp].
  - (* SSnap *) destruct (N.eqb_spec id0 id) as [->|Hne].
    + rewrite Hf, Hp. exact Hsame.
    + apply (Hshape id0); [exact Hne|].
      repeat match goal with |- context[match ?x with _ => _ end] => destruct x end; shape.
  - (* SReplay *) destruct (N.eqb_spec id0 id) as [->|Hne].
    + rewrite Hf, Hp. exact Hsame.
    + apply (Hshape id0); [exact Hne|].
      repeat match goal with |- context[match ?x with _ => _ end] => destruct x end; shape.
  - (* STake *) rewrite Hloop. exact Hsame.
  - (* SSend *) rewrite Hloop, Hf, Hp. exact Hsame.
  - (* SFwd *) destruct (N.eqb_spec id0 id) as [->|Hne].
    + rewrite Hf, Hp. exact Hsame.
    + apply (Hshape id0); [exact Hne|].
      repeat match goal with |- context[match ?x with _ => _ end] => destruct x end; shape.
  - (* SCancel *) split; [exact Hloop|]. simpl. rewrite (find_upd id id0 set_cancelled _ (fun _ => eq_refl)), Hf.
    destruct (N.eqb id0 id); simpl; eexists; split; try reflexivity; exact Hp.
  - (* SClose *) destruct (N.eqb_spec id0 id) as [->|Hne].
    + rewrite Hf, Hp. exact Hsame.
    + apply (Hshape id0); [exact Hne|].
      repeat match goal with |- context[match ?x with _ => _ end] => destruct x end; shape.
  - (* SRegister *) destruct (N.eqb_spec id0 id) as [->|Hne].
    + rewrite Hf, Hp. exact Hsame.
    + apply (Hshape id0); [exact Hne|].
      repeat match goal with |- context[match ?x with _ => _ end] => destruct x end; shape.
Qed.

Lemma parked_forever fixed ls : forall g e id rest, parked g e id rest -> parked (wrun fixed false g ls) e id rest.
Proof.
  induction ls as [|l ls IH]; intros g e id rest H; simpl; [exact H|].
  apply IH. apply parked_step. exact H.
Qed.

(* C15_cancel_isolated is FALSE for the code as it is: after the schedule above no continuation whatsoever
   (any steps of any component, any further writes) makes the system quiescent again - the innocent watcher 2
   is never shown version 3 of record 0, nor anything written later *)
Theorem cancel_isolated_refuted :
  forall ls, let g := wrun false false (wrun false false w0 f10_schedule) ls in
  quiescent g = false /\ g_loop g = LSend {| ev_key := 0; ev_ver := 3 |} [1; 2].
Proof.
  intros ls. cbv zeta.
  assert (H : parked (wrun false false w0 f10_schedule) {| ev_key := 0; ev_ver := 3 |} 1 [2]).
  { split; [vm_compute; reflexivity|]. eexists. split; vm_compute; reflexivity. }
  destruct (parked_forever false ls _ _ _ _ H) as [Hl _].
  split; [|exact Hl]. unfold quiescent. rewrite Hl. destruct (g_queue _); reflexivity.
Qed.

(* with the drainer also started on the replay path (repaired code) the same schedule ends with the
   innocent watcher served *)
Example f10_fixed_served :
  let g := settle true 6 (wrun true false w0 f10_schedule) in quiescent g = true /\ innocent_served g = true /\ watch_ok g = true.
Proof. vm_compute. repeat split. Qed.

(* ---------------------------------------------------------------- cancellation touches nobody else *)
(* the two steps that belong to cancelling watcher id (ctx cancel, the ctx.Done branch) leave the store, the
   event stream, the loop and every other watcher exactly as they were *)
Lemma upd_other id f ws w : w_id w <> id -> In w ws -> In w (upd_w id f ws).
Proof.
  intros Hne. induction ws as [|x r IH]; simpl; [tauto|].
  intros [->|Hin].
  - destruct (N.eqb_spec (w_id w) id); [contradiction | left; reflexivity].
  - destruct (N.eqb (w_id x) id); right; [exact Hin | exact (IH Hin)].
Qed.

Theorem cancel_touches_nobody_else : forall fixed g id l, l = SCancel id \/ l = SClose id ->
  let g' := wstep fixed false g l in
  g_store g' = g_store g /\ g_clock g' = g_clock g /\ g_queue g' = g_queue g /\ g_loop g' = g_loop g /\
  forall w, In w (g_ws g) -> w_id w <> id -> In w (g_ws g').
Proof.
  intros fixed g id l [-> | ->]; cbv zeta; simpl.
  - repeat split; try reflexivity. intros w Hin Hne. apply upd_other; assumption.
  - destruct (find_w id (g_ws g)) as [w1|]; [|repeat split; auto].
    destruct (w_phase w1); try (repeat split; auto; fail).
    destruct (w_cancelled w1); [|repeat split; auto].
    simpl. repeat split; try reflexivity. intros w Hin Hne. apply upd_other; assumption.
Qed.

(* a drained listener never blocks the loop (repaired and unrepaired code alike once the drainer runs) *)
Theorem drained_listener_never_blocks : forall fixed g e id rest w,
  g_loop g = LSend e (id :: rest) -> find_w id (g_ws g) = Some w -> w_phase w = WDrained ->
  g_loop (wstep fixed false g SSend) = after_targets e rest /\ g_ws (wstep fixed false g SSend) = g_ws g.
Proof.
  intros fixed g e id rest w Hl Hf Hp. simpl. rewrite Hl, Hf, Hp. simpl. split; reflexivity.
Qed.

(* Concrete instances (vm_compute) for Model/SetReq.v: a non-trivial accepted request, one refusal per cause
   inside otherwise valid requests, and the witnesses of the two findings of property C13. *)
From Coq Require Import List NArith ZArith Bool.
From OC Require Import Base.Bytes Model.PathModel Model.SetReq Proofs.SetReqProofs.
Import ListNotations.
Open Scope N_scope.

Definition rw (p : str) (k : bool) (a : str) : rw_entry := mkRw p 1 k a.

Definition ex_plugin : plugin :=
  mkPlugin (B "devicesim") (B "1.0.0")
    [ rw (B "/sys/name") false (B "name"); rw (B "/sys/sub/leaf") false (B "leaf"); rw (B "/sys/subx") false (B "subx");
      rw (B "/ifs/if[name=*]/name") true (B "name"); rw (B "/ifs/if[name=*]/descr") false (B "descr");
      rw (B "/acl/rule[dir=*][id=*]/id") true (B "id"); rw (B "/acl/rule[dir=*][id=*]/action") false (B "action") ].

Definition ex_plugin2 : plugin := mkPlugin (B "Stratum") (B "1.0") [ rw (B "/st/leaf") false (B "leaf") ].

Definition ex_cfg (limit : Z) : server_cfg :=
  mkCfg [ mkEnt (B "t1") (Some (B "devicesim", B "1.0.0")); mkEnt (B "t2") (Some (B "devicesim", B "1.0.0"));
          mkEnt (B "t4") (Some (B "stratum", B "1.0")); mkEnt (B "t5") (Some (B "nomodel", B "9")); mkEnt (B "t6") None ]
        [ ex_plugin; ex_plugin2 ] limit.

Definition no_json : pv_oracle := fun _ _ _ => None.
(* a plugin answering every document with one leaf "descr" below the base path *)
Definition one_leaf : pv_oracle := fun _ base _ => Some [ (base ++ B "/descr", mkTv 1 (B "from-json")) ].

Definition el (n : str) : elem := mkElem n [].
Definition elk (n : str) (ks : list (str * str)) : elem := mkElem n ks.
Definition path (t : str) (es : list elem) : gpath := mkPath t es [].
Definition supd (t : str) (es : list elem) (v : str) : update := mkUpd (path t es) (VStr v).

(* prefix with target t1 and element /ifs; the operations name t2 and t4, which the prefix target overrides;
   a delete of a list-key leaf, a replace and two updates of the same leaf, a JSON update, a key leaf agreeing with its entry *)
Definition ex_req : request :=
  mkReq (path (B "t1") [el (B "ifs")])
        [ path (B "t2") [elk (B "if") [(B "name", B "eth9")]; el (B "name")] ]
        [ supd (B "t4") [elk (B "if") [(B "name", B "eth0")]; el (B "descr")] (B "first") ]
        [ supd (B "") [elk (B "if") [(B "name", B "eth0")]; el (B "descr")] (B "second");
          supd (B "t2") [elk (B "if") [(B "name", B "eth1")]; el (B "name")] (B "eth1");
          mkUpd (path (B "t2") [elk (B "if") [(B "name", B "eth2")]]) (VJson (B "{}")) ]
        [ ExtOther; ExtStrategy true ].

Example accepted_example :
  set_resolve false (ex_cfg 0) one_leaf ex_req =
  Ok (mkTx [ (B "t1", [ (B "/ifs/if[name=eth0]/descr", CUpd (mkTv 1 (B "second")));
                        (B "/ifs/if[name=eth1]/name", CUpd (mkTv 1 (B "eth1")));
                        (B "/ifs/if[name=eth2]/descr", CUpd (mkTv 1 (B "from-json")));
                        (B "/ifs/if[name=eth9]", CDel) ]) ]
           [ (B "t1", (B "devicesim", B "1.0.0")) ]).
Proof. vm_compute. reflexivity. Qed.

Example accepted_example_repaired : set_resolve true (ex_cfg 0) one_leaf ex_req = set_resolve false (ex_cfg 0) one_leaf ex_req.
Proof. vm_compute. reflexivity. Qed.

(* the size limit counts the operations of the single target *)
Example limit_example : set_resolve false (ex_cfg 4) one_leaf ex_req <> Err CInvalid /\
                        set_resolve false (ex_cfg 3) one_leaf ex_req = Err CInvalid.
Proof. split; vm_compute; [discriminate | reflexivity]. Qed.

(* one invalid operation among valid ones *)
Definition with_update (u : update) : request :=
  mkReq (path [] []) [ path (B "t1") [el (B "sys"); el (B "sub")] ]
        [ supd (B "t2") [el (B "sys"); el (B "name")] (B "x") ] [ u; supd (B "t1") [el (B "sys"); el (B "subx")] (B "y") ] [].

Example refused_examples :
  set_resolve false (ex_cfg 0) no_json (with_update (supd (B "ghost") [el (B "sys"); el (B "name")] (B "v"))) = Err CNotFound /\
  set_resolve false (ex_cfg 0) no_json (with_update (supd (B "t6") [el (B "sys"); el (B "name")] (B "v"))) = Err CInternal /\
  set_resolve false (ex_cfg 0) no_json (with_update (supd (B "t5") [el (B "sys"); el (B "name")] (B "v"))) = Err CNotFound /\
  set_resolve false (ex_cfg 0) no_json (with_update (supd (B "t1") [el (B "sys"); el (B "nope")] (B "v"))) = Err CInternal /\
  set_resolve false (ex_cfg 0) no_json (with_update (supd (B "t1") [elk (B "if") [(B "name", B "eth0")]; el (B "name")] (B "v"))) = Err CInternal /\
  set_resolve false (ex_cfg 0) no_json
     (with_update (supd (B "t1") [el (B "ifs"); elk (B "if") [(B "name", B "eth0")]; el (B "name")] (B "eth1"))) = Err CInvalid /\
  set_resolve false (ex_cfg 0) no_json
     (with_update (supd (B "t1") [el (B "ifs"); elk (B "if") [(B "name", B "eth0")]; el (B "name")] (B "eth0"))) <> Err CInvalid /\
  set_resolve false (ex_cfg 0) no_json (mkReq (path [] []) [] [] [] [ExtStrategy true]) = Err CInvalid /\
  set_resolve false (ex_cfg 1) no_json (with_update (supd (B "t1") [el (B "sys"); el (B "name")] (B "v"))) = Err CInvalid.
Proof. repeat split; vm_compute; try reflexivity; discriminate. Qed.

(* ---------------- finding F-C13a: a delete whose effective path is not a valid path text *)

(* prefix /sys, delete of the empty path on t1: the effective path is "/sys/" *)
Definition nil_req : request := mkReq (path [] [el (B "sys")]) [ path (B "t1") [] ] [] [] [ExtStrategy true].

Lemma nil_change_logged :
  set_resolve false (ex_cfg 0) no_json nil_req =
  Ok (mkTx [ (B "t1", [ (B "/sys/", CNil) ]) ] [ (B "t1", (B "devicesim", B "1.0.0")) ]).
Proof. vm_compute. reflexivity. Qed.

Lemma lands_as_delete_refuted :
  exists cfg orc req t id ch p,
    set_resolve false cfg orc req = Ok t /\ aget (tx_changes t) id = Some ch /\ aget ch p = Some CNil /\ response_panics t = true.
Proof.
  exists (ex_cfg 0), no_json, nil_req. eexists. exists (B "t1"). eexists. exists (B "/sys/").
  rewrite nil_change_logged. vm_compute. repeat split; reflexivity.
Qed.

Lemma nil_change_repaired : set_resolve true (ex_cfg 0) no_json nil_req = Err CInvalid.
Proof. vm_compute. reflexivity. Qed.

(* ---------------- former finding F-C13b (fixed by 2e764cc): a delete naming only a leading part of an element name *)

Definition partial_req (es : list elem) : request := mkReq (path [] []) [ path (B "t1") es ] [] [] [].

(* regression: /sys/su, /sy and /ifs/if[name=x]/desc are no nodes of the model and no ancestors of one by whole
   elements - refused; the genuine ancestors /sys, /sys/sub and the list entry /ifs/if[name=x] are accepted *)
Example partial_name_delete_refused :
  set_resolve false (ex_cfg 0) no_json (partial_req [el (B "sys"); el (B "su")]) = Err CInvalid /\
  set_resolve false (ex_cfg 0) no_json (partial_req [el (B "sy")]) = Err CInvalid /\
  set_resolve false (ex_cfg 0) no_json (partial_req [el (B "ifs"); elk (B "if") [(B "name", B "x")]; el (B "desc")]) = Err CInvalid /\
  set_resolve false (ex_cfg 0) no_json (partial_req [el (B "sys")]) =
    Ok (mkTx [ (B "t1", [ (B "/sys", CDel) ]) ] [ (B "t1", (B "devicesim", B "1.0.0")) ]) /\
  set_resolve false (ex_cfg 0) no_json (partial_req [el (B "sys"); el (B "sub")]) =
    Ok (mkTx [ (B "t1", [ (B "/sys/sub", CDel) ]) ] [ (B "t1", (B "devicesim", B "1.0.0")) ]) /\
  set_resolve false (ex_cfg 0) no_json (partial_req [el (B "ifs"); elk (B "if") [(B "name", B "x")]]) =
    Ok (mkTx [ (B "t1", [ (B "/ifs/if[name=x]", CDel) ]) ] [ (B "t1", (B "devicesim", B "1.0.0")) ]).
Proof. repeat split; vm_compute; reflexivity. Qed.

(* ---------------- GNMI_SET_SIZE_LIMIT parsing *)
Example parse_limit_examples :
  parse_limit (B "5") = 5%Z /\ parse_limit (B "") = 0%Z /\ parse_limit (B "abc") = 0%Z /\ parse_limit (B "-3") = (-3)%Z /\
  parse_limit (B "+3") = 3%Z /\ parse_limit (B "1 ") = 0%Z /\ parse_limit (B "99999999999999999999") = max_int64 /\
  parse_limit (B "38221585393358015642 ") = max_int64.
Proof. repeat split; vm_compute; reflexivity. Qed.

(* a limit that is not positive never refuses *)
Lemma limit_off cfg ts : (sc_limit cfg <= 0)%Z -> limit_ok (sc_limit cfg) ts = true.
Proof. intros H. unfold limit_ok. destruct (0 <? sc_limit cfg)%Z eqn:E; [apply Z.ltb_lt in E; exfalso; apply (Z.lt_irrefl 0); eapply Z.lt_le_trans; eauto | reflexivity]. Qed.

(* ---------------- a list nested in a list, both keyed by a leaf named id: the key leaf of the inner entry must
   carry the inner entry's key; the same-named key of the enclosing entry does not count (fix 7b08917) *)
Definition nested_plugin : plugin :=
  mkPlugin (B "devicesim") (B "1.0.0")
    [ rw (B "/cont/outer[id=*]/id") true (B "id"); rw (B "/cont/outer[id=*]/inner[id=*]/id") true (B "id");
      rw (B "/cont/outer[id=*]/inner[id=*]/val") false (B "val") ].
Definition nested_cfg : server_cfg := mkCfg [ mkEnt (B "t1") (Some (B "devicesim", B "1.0.0")) ] [ nested_plugin ] 0.
Definition nested_req (v : str) : request :=
  mkReq (path (B "t1") [el (B "cont")]) [] []
        [ supd (B "") [elk (B "outer") [(B "id", B "a")]; elk (B "inner") [(B "id", B "b")]; el (B "val")] (B "x");
          supd (B "") [elk (B "outer") [(B "id", B "a")]; elk (B "inner") [(B "id", B "b")]; el (B "id")] v ] [].

Example nested_key_examples :
  set_resolve false nested_cfg no_json (nested_req (B "a")) = Err CInvalid /\
  set_resolve false nested_cfg no_json (nested_req (B "c")) = Err CInvalid /\
  (exists t, set_resolve false nested_cfg no_json (nested_req (B "b")) = Ok t).
Proof. repeat split; try (vm_compute; reflexivity). eexists. vm_compute. reflexivity. Qed.

(* ---------------- type/version overrides never make an unresolvable target acceptable: the entity must exist and be
   Configurable whatever the extension says (the overrides only choose the model plugin) *)
Definition override_req (t : str) : request :=
  mkReq (path [] []) [] []
        [ supd (B "t1") [el (B "sys"); el (B "name")] (B "x"); supd t [el (B "sys"); el (B "name")] (B "y") ]
        [ ExtOverrides true [ (t, (B "devicesim", B "1.0.0")) ] ].

Example override_examples :
  set_resolve false (ex_cfg 0) no_json (override_req (B "ghost")) = Err CNotFound /\
  set_resolve false (ex_cfg 0) no_json (override_req (B "t6")) = Err CInternal /\
  (exists t, set_resolve false (ex_cfg 0) no_json (override_req (B "t5")) = Ok t) /\
  set_resolve false (ex_cfg 0) no_json (mkReq (path (B "ghost") []) [] [] [ supd (B "t1") [el (B "sys"); el (B "name")] (B "x") ]
                                              [ ExtOverrides true [ (B "ghost", (B "devicesim", B "1.0.0")) ] ]) = Err CNotFound.
Proof. repeat split; try (vm_compute; reflexivity). eexists. vm_compute. reflexivity. Qed.

(* ---------------- the effective path is the prefix followed by the path whichever field carries them: a prefix (or path)
   given in the deprecated gNMI 0.3 `element` form resolves exactly as the same text given as `elem` *)
Definition element_req : request :=
  mkReq (mkPath (B "t1") [] [B "ifs"; B "if[name=eth0]"]) [ mkPath [] [] [B "name"] ] []
        [ supd (B "") [el (B "descr")] (B "d") ] [].

Example element_prefix_example :
  set_resolve false (ex_cfg 0) no_json element_req =
  set_resolve false (ex_cfg 0) no_json
    (mkReq (path (B "t1") [el (B "ifs"); elk (B "if") [(B "name", B "eth0")]]) [ path [] [el (B "name")] ] []
           [ supd (B "") [el (B "descr")] (B "d") ] []) /\
  set_resolve false (ex_cfg 0) no_json element_req =
  Ok (mkTx [ (B "t1", [ (B "/ifs/if[name=eth0]/descr", CUpd (mkTv 1 (B "d"))); (B "/ifs/if[name=eth0]", CDel) ]) ]
           [ (B "t1", (B "devicesim", B "1.0.0")) ]).
Proof. split; vm_compute; reflexivity. Qed.

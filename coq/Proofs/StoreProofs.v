(* The configuration store's write (Model/CfgStore.v store_write, repaired version) seen through the live leaves. *)
From Coq Require Import List NArith Bool.
From OC Require Import Base.Bytes Model.Merge Model.CfgStore Proofs.MergeProofs Proofs.TextPathProofs Proofs.PruneProofs.
Import ListNotations.
Open Scope N_scope.

Section Store.
  Context (M V : cfgmap).

  (* what the write decides for one value of V *)
  Definition decision (pv : path_value) : option str :=
    match map_get (pv_path pv) M with
    | None => if kept (pv_path pv) V then live_of pv else None
    | Some e => if negb (kept (pv_path pv) V) then None
                else if negb (pv_index pv =? pv_index e) then live_of pv else live_of e
    end.

  (* keys outside V are only ever removed *)
  Definition outside_ok (acc : cfgmap) : Prop :=
    forall k, map_has k V = false -> map_get k acc = map_get k M \/ map_get k acc = None.

  Lemma outside_ok_set k v acc : map_has k V = true -> outside_ok acc -> outside_ok (map_set k v acc).
  Proof.
    intros Hk I q Hq. rewrite map_get_set. deq q k; [congruence | apply I; exact Hq].
  Qed.

  Lemma outside_ok_del k acc : outside_ok acc -> outside_ok (map_del k acc).
  Proof.
    intros I q Hq. rewrite map_get_del. deq q k; [right; reflexivity | apply I; exact Hq].
  Qed.

  Lemma clear_fold ancs : forall acc, outside_ok acc ->
    let r := fold_left (fun a anc =>
                          if map_has anc V then a else
                          match map_get anc M with
                          | Some e => if pv_deleted e then map_del anc a else a
                          | None => a
                          end) ancs acc in
    outside_ok r /\ (forall q, live r q = live acc q) /\ (forall q, map_has q V = true -> map_get q r = map_get q acc).
  Proof.
    induction ancs as [|a ancs IH]; intros acc I; cbn [fold_left].
    - split; [exact I|]. split; reflexivity.
    - destruct (map_has a V) eqn:HV; [apply IH; exact I|].
      destruct (map_get a M) as [e|] eqn:GM; [|apply IH; exact I].
      destruct (pv_deleted e) eqn:De; [|apply IH; exact I].
      destruct (IH (map_del a acc) (outside_ok_del a acc I)) as [I' [L' K']].
      split; [exact I'|]. split.
      + intros q. rewrite L'. unfold live. rewrite map_get_del. deq q a; [|reflexivity].
        destruct (I a HV) as [EA|EA]; rewrite EA; [rewrite GM; unfold live_of; rewrite De|]; reflexivity.
      + intros q Hq. rewrite (K' q Hq). rewrite map_get_del. deq q a; [congruence | reflexivity].
  Qed.

  Lemma clear_ok pv acc : outside_ok acc ->
    outside_ok (clear_deleted_ancestors M V pv acc) /\
    (forall q, live (clear_deleted_ancestors M V pv acc) q = live acc q) /\
    (forall q, map_has q V = true -> map_get q (clear_deleted_ancestors M V pv acc) = map_get q acc).
  Proof.
    intros I. unfold clear_deleted_ancestors. destruct (pv_deleted pv); [split; [exact I | split; reflexivity]|].
    exact (clear_fold (boundary_ancestors (pv_path pv)) acc I).
  Qed.

  Lemma store_step_ok acc pv : map_has (pv_path pv) V = true -> outside_ok acc ->
    map_get (pv_path pv) acc = map_get (pv_path pv) M ->
    let r := store_step M (prune_path_map V true) V acc pv in
    outside_ok r /\
    (forall q, live r q = if eqb_str q (pv_path pv) then decision pv else live acc q) /\
    (forall q, map_has q V = true -> q <> pv_path pv -> map_get q r = map_get q acc).
  Proof.
    intros HV I F. unfold store_step, decision. fold (kept (pv_path pv) V).
    destruct (map_get (pv_path pv) M) as [e|] eqn:GM.
    - destruct (kept (pv_path pv) V) eqn:K; cbn [negb].
      + destruct (pv_index pv =? pv_index e) eqn:EI; cbn [negb].
        * split; [exact I|]. split; [|reflexivity]. intros q. deq q (pv_path pv); [|reflexivity].
          unfold live. rewrite F. reflexivity.
        * destruct (clear_ok pv (map_set (pv_path pv) pv acc) (outside_ok_set _ _ _ HV I)) as [A [B C]].
          split; [exact A|]. split.
          -- intros q. rewrite B. unfold live. rewrite map_get_set.
             destruct (eqb_str q (pv_path pv)); reflexivity.
          -- intros q Hq Nq. rewrite (C q Hq). rewrite map_get_set. apply eqb_str_neq in Nq. rewrite Nq. reflexivity.
      + split; [apply outside_ok_del; exact I|]. split.
        * intros q. unfold live. rewrite map_get_del. destruct (eqb_str q (pv_path pv)); reflexivity.
        * intros q Hq Nq. rewrite map_get_del. apply eqb_str_neq in Nq. rewrite Nq. reflexivity.
    - destruct (kept (pv_path pv) V) eqn:K.
      + destruct (clear_ok pv (map_set (pv_path pv) pv acc) (outside_ok_set _ _ _ HV I)) as [A [B C]].
        split; [exact A|]. split.
        * intros q. rewrite B. unfold live. rewrite map_get_set. destruct (eqb_str q (pv_path pv)); reflexivity.
        * intros q Hq Nq. rewrite (C q Hq). rewrite map_get_set. apply eqb_str_neq in Nq. rewrite Nq. reflexivity.
      + split; [exact I|]. split; [|reflexivity]. intros q. deq q (pv_path pv); [|reflexivity].
        unfold live. rewrite F. reflexivity.
  Qed.

  Lemma store_fold_ok l : forall acc,
    NoDup (map pv_path l) -> (forall pv, In pv l -> map_has (pv_path pv) V = true) ->
    outside_ok acc -> (forall pv, In pv l -> map_get (pv_path pv) acc = map_get (pv_path pv) M) ->
    forall q, live (fold_left (store_step M (prune_path_map V true) V) l acc) q
              = match find (fun pv => eqb_str q (pv_path pv)) l with Some pv => decision pv | None => live acc q end.
  Proof.
    induction l as [|x l IH]; intros acc ND HV I F q; cbn [fold_left find]; [reflexivity|].
    inversion ND as [|? ? Hn ND']; subst.
    destruct (store_step_ok acc x (HV x (or_introl eq_refl)) I (F x (or_introl eq_refl))) as [A [B C]].
    rewrite IH; [| exact ND' | intros pv Hp; apply HV; right; exact Hp | exact A |].
    - rewrite B. destruct (eqb_str q (pv_path x)) eqn:E; [|reflexivity].
      apply eqb_str_eq in E. subst q.
      destruct (find (fun pv => eqb_str (pv_path x) (pv_path pv)) l) as [y|] eqn:Fd; [|reflexivity].
      exfalso. apply find_some in Fd. destruct Fd as [Hy Ey]. apply eqb_str_eq in Ey.
      apply Hn. rewrite Ey. apply in_map. exact Hy.
    - intros pv Hp. rewrite C; [apply F; right; exact Hp | apply HV; right; exact Hp |].
      intros E. apply Hn. rewrite <- E. apply in_map. exact Hp.
  Qed.
End Store.

Lemma find_map_get q m : keys_ok m -> find (fun pv => eqb_str q (pv_path pv)) (map snd m) = map_get q m.
Proof.
  induction m as [|[k v] m IH]; intros KO; cbn; [reflexivity|].
  rewrite <- (KO k v (or_introl eq_refl)).
  destruct (eqb_str q k); [reflexivity|]. apply IH. intros k1 v1 H1. apply KO. right. exact H1.
Qed.

Lemma paths_are_keys m : keys_ok m -> map pv_path (map snd m) = map fst m.
Proof.
  induction m as [|[k v] m IH]; intros KO; cbn; [reflexivity|].
  rewrite <- (KO k v (or_introl eq_refl)). f_equal. apply IH. intros k1 v1 H1. apply KO. right. exact H1.
Qed.

(* the store write, pointwise on the live leaves *)
Theorem store_write_live M V : keys_ok V -> nodup V ->
  forall q, live (store_write M V) q
            = match map_get q V with Some pv => decision M V pv | None => live M q end.
Proof.
  intros KO ND q. unfold store_write. rewrite store_fold_ok.
  - rewrite find_map_get by exact KO. reflexivity.
  - rewrite paths_are_keys by exact KO. exact ND.
  - intros pv HI. apply in_map_iff in HI. destruct HI as [[k v] [E HI]]. cbn in E. subst v.
    unfold map_has. rewrite <- (KO _ _ HI). rewrite (map_get_in _ _ _ ND HI). reflexivity.
  - intros k Hk. left. reflexivity.
  - intros pv HI. reflexivity.
Qed.

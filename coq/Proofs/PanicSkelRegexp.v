(* regexp.MustCompile never panics on the text utils.MatchWildcardRegexp builds: the QuoteMeta'd query,
   after the two ReplaceAll passes, is exactly the rendering of a token list (literal / ".*" / legal-character
   class), and the recogniser of the emitted fragment accepts every such rendering. *)
From Coq Require Import List NArith ZArith Bool Lia.
From OC Require Import Base.Bytes Model.PanicSkel Proofs.PanicSkelProofs.
Import ListNotations.
Open Scope N_scope.
Local Arguments N.eqb : simpl never.
Local Arguments is_meta : simpl never.

Fixpoint toks (q : str) : list tok :=
  match q with
  | [] => []
  | c :: q' =>
    if c =? 46 then
      match q' with
      | c2 :: c3 :: q'' => if (c2 =? 46) && (c3 =? 46) then TAny :: toks q'' else TLit c :: toks q'
      | _ => TLit c :: toks q'
      end
    else if c =? 42 then TLegal :: toks q'
    else TLit c :: toks q'
  end.

Definition qtok (c : N) : str := if is_meta c then [92; c] else [c].
Definition rend1 (t : tok) : str := match t with TLit c => qtok c | TAny => B ".*" | TLegal => B "\*" end.
Definition rend2 (t : tok) : str := match t with TLit c => qtok c | TAny => B ".*" | TLegal => legal_class end.
Definition r1 (ts : list tok) : str := flat_map rend1 ts.
Definition r2 (ts : list tok) : str := flat_map rend2 ts.

Definition R1 (s : str) : str := replace_all (B "\.\.\.") (B ".*") s.
Definition R2 (s : str) : str := replace_all (B "\*") legal_class s.

Lemma quote_cons c q : quote_meta (c :: q) = qtok c ++ quote_meta q.
Proof. reflexivity. Qed.

(* first character of a quoted text: a backslash or a non-meta character *)
Definition head_ok (s : str) : Prop := match s with [] => True | x :: _ => x = 92 \/ is_meta x = false end.

Lemma quote_head q : head_ok (quote_meta q).
Proof.
  destruct q as [|c q]; [exact I|]. rewrite quote_cons. unfold qtok, head_ok.
  destruct (is_meta c) eqn:E; cbn [app]; [left; reflexivity | right; exact E].
Qed.

Lemma meta_46 : is_meta 46 = true. Proof. reflexivity. Qed.
Lemma meta_42 : is_meta 42 = true. Proof. reflexivity. Qed.

Lemma head_ok_not x s : head_ok (x :: s) -> is_meta x = true -> x <> 92 -> False.
Proof. cbn. intros [H|H] Hm Hn; congruence. Qed.

Lemma R1_step_other c s : (c =? 92) = false -> R1 (c :: s) = c :: R1 s.
Proof.
  intros H. unfold R1, replace_all. cbn.
  replace (92 =? c) with false by (rewrite N.eqb_sym; symmetry; exact H). reflexivity.
Qed.

Lemma R2_step_other c s : (c =? 92) = false -> R2 (c :: s) = c :: R2 s.
Proof.
  intros H. unfold R2, replace_all. cbn.
  replace (92 =? c) with false by (rewrite N.eqb_sym; symmetry; exact H). reflexivity.
Qed.

Lemma R1_nil : R1 [] = []. Proof. reflexivity. Qed.
Lemma R2_nil : R2 [] = []. Proof. reflexivity. Qed.

(* backslash followed by a character other than '.' *)
Lemma R1_bs_other c s : (c =? 46) = false -> R1 (92 :: c :: s) = 92 :: R1 (c :: s).
Proof.
  intros H. unfold R1, replace_all. cbn.
  replace (46 =? c) with false by (rewrite N.eqb_sym; symmetry; exact H). reflexivity.
Qed.

Lemma R1_bs_end : R1 [92] = [92]. Proof. reflexivity. Qed.

Lemma R2_bs_other c s : (c =? 42) = false -> R2 (92 :: c :: s) = 92 :: R2 (c :: s).
Proof.
  intros H. unfold R2, replace_all. cbn.
  replace (42 =? c) with false by (rewrite N.eqb_sym; symmetry; exact H). reflexivity.
Qed.
Lemma R2_bs_end : R2 [92] = [92]. Proof. reflexivity. Qed.

Lemma R2_star s : R2 (92 :: 42 :: s) = legal_class ++ R2 s.
Proof. unfold R2, replace_all. cbn. reflexivity. Qed.

Lemma R1_dots s : R1 (92 :: 46 :: 92 :: 46 :: 92 :: 46 :: s) = 46 :: 42 :: R1 s.
Proof. unfold R1, replace_all. cbn. reflexivity. Qed.

(* ---------------------------------------------------------------- stage 2 *)
Definition tok_ok (t : tok) : Prop := match t with TLit c => c <> 42 | _ => True end.

Definition nostar (s : str) : Prop := match s with [] => True | x :: _ => x <> 42 end.

Lemma r1_nostar ts : nostar (r1 ts).
Proof.
  destruct ts as [|t ts]; [exact I|]. unfold r1; cbn [flat_map]. destruct t as [c| |]; cbn; try discriminate.
  unfold qtok. destruct (is_meta c) eqn:E; cbn; [discriminate|]. intros ->. discriminate.
Qed.

Lemma neqb a b : a <> b -> (a =? b) = false.
Proof. intros H. apply N.eqb_neq. exact H. Qed.

Lemma R2_bs_nostar s : nostar s -> R2 (92 :: s) = 92 :: R2 s.
Proof.
  destruct s as [|x s]; cbn [nostar]; intros H; [reflexivity|].
  apply R2_bs_other. apply neqb. exact H.
Qed.

Lemma stage2 ts : Forall tok_ok ts -> R2 (r1 ts) = r2 ts.
Proof.
  induction 1 as [|t ts Ht _ IH]; [reflexivity|].
  unfold r1, r2 in *; cbn [flat_map]. destruct t as [c| |].
  - cbn [rend1 rend2 tok_ok] in *. unfold qtok. destruct (is_meta c) eqn:Em.
    + cbn [app]. destruct (c =? 92) eqn:E92.
      * apply N.eqb_eq in E92. subst c. rewrite R2_bs_other by reflexivity.
        rewrite R2_bs_nostar by apply r1_nostar. rewrite IH. reflexivity.
      * rewrite R2_bs_other by (apply neqb; exact Ht). rewrite R2_step_other by exact E92. rewrite IH. reflexivity.
    + cbn [app]. rewrite R2_step_other; [rewrite IH; reflexivity|].
      apply neqb. intros ->. discriminate.
  - cbn [rend1 rend2 app B]. change (B ".*") with [46; 42]. cbn [app].
    rewrite R2_step_other by reflexivity. rewrite R2_step_other by reflexivity. rewrite IH. reflexivity.
  - cbn [rend1 rend2]. change (B "\*") with [92; 42]. cbn [app]. rewrite R2_star. rewrite IH. reflexivity.
Qed.

(* ---------------------------------------------------------------- stage 1 *)
Lemma R1_bs_dot_nomatch X : prefixb [92; 46; 92; 46] X = false -> R1 (92 :: 46 :: X) = 92 :: 46 :: R1 X.
Proof.
  intros H. unfold R1, replace_all.
  change (B "\.\.\.") with [92; 46; 92; 46; 92; 46]. cbn [replace_all_aux].
  change (prefixb [92; 46; 92; 46; 92; 46] (92 :: 46 :: X)) with ((92 =? 92) && ((46 =? 46) && prefixb [92; 46; 92; 46] X)).
  rewrite H. change (prefixb [92; 46; 92; 46; 92; 46] (46 :: X)) with ((92 =? 46) && prefixb [46; 92; 46; 92; 46] X).
  reflexivity.
Qed.

Lemma R1_bs_quote q : R1 (92 :: quote_meta q) = 92 :: R1 (quote_meta q).
Proof.
  pose proof (quote_head q) as Hh. destruct (quote_meta q) as [|x s]; [reflexivity|].
  apply R1_bs_other. apply neqb. intros ->. cbn in Hh. destruct Hh as [H|H]; discriminate.
Qed.

Lemma quote_no_dots_prefix q :
  match q with c2 :: c3 :: _ => (c2 =? 46) && (c3 =? 46) = false | _ => True end ->
  prefixb [92; 46; 92; 46] (quote_meta q) = false.
Proof.
  destruct q as [|c2 [|c3 q]]; intros H.
  - reflexivity.
  - rewrite quote_cons. unfold qtok. destruct (is_meta c2) eqn:E2; cbn.
    + rewrite andb_false_r. reflexivity.
    + destruct (92 =? c2) eqn:E; [apply N.eqb_eq in E; subst c2; discriminate | reflexivity].
  - rewrite !quote_cons. unfold qtok.
    destruct (is_meta c2) eqn:E2; cbn.
    + destruct (46 =? c2) eqn:Ec2; [|reflexivity]. apply N.eqb_eq in Ec2. subst c2.
      cbn in H. destruct (is_meta c3) eqn:E3; cbn.
      * destruct (46 =? c3) eqn:Ec3; [|reflexivity]. apply N.eqb_eq in Ec3. subst c3. discriminate.
      * destruct (92 =? c3) eqn:E; [apply N.eqb_eq in E; subst c3; discriminate | reflexivity].
    + destruct (92 =? c2) eqn:E; [apply N.eqb_eq in E; subst c2; discriminate | reflexivity].
Qed.

Lemma stage1_aux : forall n q, (List.length q <= n)%nat -> R1 (quote_meta q) = r1 (toks q) /\ Forall tok_ok (toks q).
Proof.
  induction n as [|n IH]; intros q Hn.
  - destruct q; [split; [reflexivity | constructor] | cbn in Hn; lia].
  - destruct q as [|c q']; [split; [reflexivity | constructor]|].
    cbn [List.length] in Hn. assert (Hq' : (List.length q' <= n)%nat) by lia.
    destruct (IH q' Hq') as [IH1 IH2].
    rewrite quote_cons. cbn [toks].
    destruct (c =? 46) eqn:E46.
    + apply N.eqb_eq in E46. subst c. unfold qtok. rewrite meta_46. cbn [app].
      assert (Hplain : match q' with c2 :: c3 :: _ => (c2 =? 46) && (c3 =? 46) = false | _ => True end ->
                       R1 (92 :: 46 :: quote_meta q') = r1 (TLit 46 :: toks q') /\ Forall tok_ok (TLit 46 :: toks q')).
      { intros Hc. split.
        - rewrite R1_bs_dot_nomatch by (apply quote_no_dots_prefix; exact Hc).
          rewrite IH1. unfold r1. cbn [flat_map rend1]. unfold qtok. rewrite meta_46. reflexivity.
        - constructor; [cbn; discriminate | exact IH2]. }
      destruct q' as [|c2 [|c3 q'']]; [apply Hplain; exact I | apply Hplain; exact I |].
      destruct ((c2 =? 46) && (c3 =? 46)) eqn:Edd; [|apply Hplain; reflexivity].
      apply andb_true_iff in Edd. destruct Edd as [Ea Eb]. apply N.eqb_eq in Ea. apply N.eqb_eq in Eb. subst c2 c3.
      cbn [List.length] in Hq'. destruct (IH q'' ltac:(lia)) as [J1 J2].
      rewrite !quote_cons. unfold qtok. rewrite meta_46. cbn [app]. rewrite R1_dots. rewrite J1.
      split; [reflexivity | constructor; [exact I | exact J2]].
    + destruct (c =? 42) eqn:E42.
      * apply N.eqb_eq in E42. subst c. unfold qtok. rewrite meta_42. cbn [app].
        rewrite R1_bs_other by reflexivity. rewrite R1_step_other by reflexivity. rewrite IH1.
        split; [reflexivity | constructor; [exact I | exact IH2]].
      * assert (Hok : Forall tok_ok (TLit c :: toks q')).
        { constructor; [cbn; intros ->; discriminate | exact IH2]. }
        split; [|exact Hok].
        unfold r1. cbn [flat_map rend1]. unfold qtok. destruct (is_meta c) eqn:Em; cbn [app].
        -- destruct (c =? 92) eqn:E92.
           ++ apply N.eqb_eq in E92. subst c. rewrite R1_bs_other by reflexivity.
              rewrite R1_bs_quote. rewrite IH1. reflexivity.
           ++ rewrite R1_bs_other by exact E46. rewrite R1_step_other by exact E92. rewrite IH1. reflexivity.
        -- rewrite R1_step_other; [rewrite IH1; reflexivity|]. apply neqb. intros ->. discriminate.
Qed.

Lemma body_tokens q : R2 (R1 (quote_meta q)) = r2 (toks q).
Proof.
  destruct (stage1_aux (List.length q) q (le_n _)) as [H1 H2]. rewrite H1. apply stage2. exact H2.
Qed.

(* ---------------------------------------------------------------- the recogniser accepts what is rendered *)
Definition ends (e : str) : Prop := e = [] \/ e = B "$" \/ e = B "(?:$|[/\[])".
Definition end_of (e : str) : rend := if eqb_str e [] then EndOpen else if eqb_str e (B "$") then EndExact else EndBoundary.

Lemma re_atoms_end e f : ends e -> re_atoms (S f) e = Some ([], end_of e).
Proof. intros [-> | [-> | ->]]; reflexivity. Qed.

Lemma nonmeta_facts c : is_meta c = false ->
  (c =? 92) = false /\ (c =? 46) = false /\ (c =? 36) = false /\ (c =? 40) = false /\ (c =? 91) = false.
Proof.
  intros H. repeat split; apply N.eqb_neq; intros ->; discriminate.
Qed.

Lemma re_atoms_render ts : forall e fuel, ends e -> (List.length (r2 ts ++ e) < fuel)%nat ->
  re_atoms fuel (r2 ts ++ e) = Some (ts, end_of e).
Proof.
  induction ts as [|t ts IH]; intros e fuel HS Hf.
  - cbn [r2 flat_map app] in *. destruct fuel as [|f]; [lia|]. apply re_atoms_end. exact HS.
  - destruct fuel as [|f]; [lia|].
    unfold r2 in *. cbn [flat_map] in *. rewrite <- app_assoc in *.
    set (rest := flat_map rend2 ts ++ e) in *.
    destruct t as [c| |].
    + cbn [rend2] in *. unfold qtok in *. destruct (is_meta c) eqn:Em.
      * cbn [app] in *. cbn [List.length] in Hf.
        assert (Hr : re_atoms f rest = Some (ts, end_of e)) by (apply IH; [exact HS | unfold rest in *; cbn [List.length] in *; lia]).
        cbn [re_atoms]. change (eqb_str (92 :: c :: rest) []) with false.
        change (eqb_str (92 :: c :: rest) (B "$")) with ((92 =? 36) && eqb_str (c :: rest) []).
        change (92 =? 36) with false. cbn [andb].
        change (eqb_str (92 :: c :: rest) (B "(?:$|[/\[])")) with ((92 =? 40) && eqb_str (c :: rest) (B "?:$|[/\[])")).
        change (92 =? 40) with false. cbn [andb].
        change (prefixb legal_class (92 :: c :: rest)) with ((91 =? 92) && prefixb (B "a-zA-Z0-9_:,\-\.]*?") (c :: rest)).
        change (91 =? 92) with false. cbn [andb].
        change (92 =? 92) with true. cbv iota. rewrite Em, Hr. reflexivity.
      * cbn [app] in *. cbn [List.length] in Hf.
        assert (Hr : re_atoms f rest = Some (ts, end_of e)) by (apply IH; [exact HS | unfold rest in *; cbn [List.length] in *; lia]).
        destruct (nonmeta_facts c Em) as (N92 & N46 & N36 & N40 & N91).
        cbn [re_atoms]. change (eqb_str (c :: rest) []) with false.
        change (eqb_str (c :: rest) (B "$")) with ((c =? 36) && eqb_str rest []). rewrite N36. cbn [andb].
        change (eqb_str (c :: rest) (B "(?:$|[/\[])")) with ((c =? 40) && eqb_str rest (B "?:$|[/\[])")). rewrite N40. cbn [andb].
        change (prefixb legal_class (c :: rest)) with ((91 =? c) && prefixb (B "a-zA-Z0-9_:,\-\.]*?") rest).
        rewrite (N.eqb_sym 91 c), N91. cbn [andb].
        rewrite N92, N46, Em, Hr. reflexivity.
    + cbn [rend2] in *. change (B ".*") with [46; 42] in *. cbn [app] in *. cbn [List.length] in Hf.
      assert (Hr : re_atoms f rest = Some (ts, end_of e)) by (apply IH; [exact HS | unfold rest in *; cbn [List.length] in *; lia]).
      cbn [re_atoms]. change (eqb_str (46 :: 42 :: rest) []) with false.
      change (eqb_str (46 :: 42 :: rest) (B "$")) with ((46 =? 36) && eqb_str (42 :: rest) []).
      change (46 =? 36) with false. cbn [andb].
      change (eqb_str (46 :: 42 :: rest) (B "(?:$|[/\[])")) with ((46 =? 40) && eqb_str (42 :: rest) (B "?:$|[/\[])")).
      change (46 =? 40) with false. cbn [andb].
      change (prefixb legal_class (46 :: 42 :: rest)) with ((91 =? 46) && prefixb (B "a-zA-Z0-9_:,\-\.]*?") (42 :: rest)).
      change (91 =? 46) with false. cbn [andb].
      change (46 =? 92) with false. change (46 =? 46) with true. change (42 =? 42) with true. cbv iota.
      rewrite Hr. reflexivity.
    + cbn [rend2] in *. rewrite app_length in Hf.
      assert (Hl : (0 < List.length legal_class)%nat) by (vm_compute; lia).
      assert (Hr : re_atoms f rest = Some (ts, end_of e)) by (apply IH; [exact HS | unfold rest in *; cbn [List.length] in *; lia]).
      cbn [re_atoms].
      assert (E1 : eqb_str (legal_class ++ rest) [] = false) by reflexivity.
      assert (E2 : eqb_str (legal_class ++ rest) (B "$") = false) by reflexivity.
      assert (E3 : eqb_str (legal_class ++ rest) (B "(?:$|[/\[])") = false) by reflexivity.
      rewrite E1, E2, E3. rewrite prefixb_app.
      replace (skipn (List.length legal_class) (legal_class ++ rest)) with rest by reflexivity.
      rewrite Hr. reflexivity.
Qed.

Theorem wildcard_regexp_compiles : forall q exact, np (must_compile (wildcard_regexp q exact)).
Proof.
  intros q exact. unfold wildcard_regexp.
  change (replace_all (B "\*") legal_class (replace_all (B "\.\.\.") (B ".*") (quote_meta q))) with (R2 (R1 (quote_meta q))).
  rewrite body_tokens.
  assert (H : forall e, ends e -> np (must_compile (B "^" ++ r2 (toks q) ++ e))).
  { intros e HS. change (B "^" ++ r2 (toks q) ++ e) with (94 :: (r2 (toks q) ++ e)). unfold must_compile.
    rewrite (re_atoms_render (toks q) e _ HS) by lia. reflexivity. }
  destruct exact.
  - apply H. right; left; reflexivity.
  - destruct (suffixb [c_slash] q || suffixb (B "...") q).
    + rewrite <- (app_nil_r (r2 (toks q))). apply H. left; reflexivity.
    + apply H. right; right; reflexivity.
Qed.

(* Get: full totality under the state hypothesis *)
Theorem get_handler_total : forall e st r,
  get_wire_ok r = true -> state_ok st = true -> np (get_handler e st r).
Proof.
  intros e st r. apply get_handler_total_partial. intros q. apply wildcard_regexp_compiles.
Qed.

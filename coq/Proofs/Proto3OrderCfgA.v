(* Proto3OrderCfgA: the configuration-record writes of applyChange / applyRollback (the Applied cursor) that do not
   complete an apply preserve the frontier invariant. *)
From Coq Require Import List NArith Bool Arith Lia.
From OC Require Import Model.Proto3 Spec.Tla3 Proofs.Proto3Proofs Proofs.Proto3OrderBase.
Import ListNotations.
Open Scope N_scope.

Ltac prj := cbn [k_index k_ordinal k_revision k_target k_change] in *.
Ltac cfg_sinv HS g extra := sinv_by prj HS g extra.
Ltac hcfg cm ap := apply HInv_cfg with (cm := cm) (ap := ap); auto; try (cbn; lia); repeat constructor.

(* applyChange PENDING: Applied.Target := i *)
Lemma cfg_AC1 g n cm ap h i t :
  IA g n cm ap h -> g i = Some t ->
  cc t = 2 -> ca t = 0 -> k_ordinal ap + 1 = t_cord t -> k_target ap <> i ->
  (forall j p, g j = Some p -> j = k_index ap /\ k_target ap = k_index ap -> 2 <= ca p) ->
  IA g n cm {| k_index := k_index ap; k_ordinal := k_ordinal ap; k_revision := k_revision ap; k_target := i; k_change := k_change ap |}
     (h ++ [ev PhChange StApply i InProgress]).
Proof.
  intros [HS HH] Hi G1 G2 G3 G4 Gt. split; [cfg_sinv HS g ltac:(inst_gate Gt g) | hcfg cm ap].
Qed.

(* applyRollback PENDING: Applied.Target := Rollback.Index *)
Lemma cfg_AR1 g n cm ap h i t :
  IA g n cm ap h -> g i = Some t ->
  rc t = 2 -> ra t = 0 -> k_ordinal ap + 1 = t_rord t -> ca t <> 0 -> ca t <> 1 ->
  (ca t = 3 \/ ca t = 5 -> t_cord t <= k_ordinal ap) ->
  IA g n cm {| k_index := k_index ap; k_ordinal := k_ordinal ap; k_revision := k_revision ap; k_target := t_ridx t; k_change := k_change ap |}
     (h ++ [ev PhRollback StApply i InProgress]).
Proof.
  intros [HS HH] Hi G1 G2 G3 G4 G5 G6. split; [cfg_sinv HS g idtac | hcfg cm ap].
Qed.

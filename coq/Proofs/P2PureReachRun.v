(* C04, reachability invariant of the instance, part 4: the invariant along runs and the run theorem without a per-step
   well-formedness premise.
     Inv w            static part (Proofs/P2PureReachInv.v) + dynamic part for every configuration (P2PureReachDyn.v)
     inv_step         Inv is kept by every environment label whose changes are well-formed and by every COMPLETE invocation
     inv_wf_step      Inv w -> wf_step w t l for every target and label
     labels_wfb ls    (boolean) every change of every LChange of ls is a wf_change, and no updated path of the run lies
                      beneath another updated path of the same target (values live at leaves)
     converged_reach  the run theorem: labels_wfb + all invocations complete + the start condition conv. *)
From stdpp Require Import gmap.
From RecordUpdate Require Import RecordUpdate.
From Coq Require Import NArith Lia.
From OC Require Import Base.Bytes Model.P2Pure Model.Proto2 Model.P2Inst Proofs.P2Base Proofs.P2Phases Proofs.P2_Cursor Proofs.P2_Converge
     Proofs.P2_ConvergeEx.
From OC Require Import Proofs.P2PureApplyDefs Proofs.P2PureApplyBase Proofs.P2PureApplySem Proofs.P2PureApplySound
     Proofs.P2PureApplyStatus Proofs.P2PureApplyInst Proofs.P2PureReachPure Proofs.P2PureReachInv Proofs.P2PureReachEff
     Proofs.P2PureReachDyn.
Open Scope N_scope.

Definition empty4 (C : Cfg) : Prop := c_values C = [] /\ c_avalues C = [] /\ c_inline C = [] /\ c_ainline C = [].

Lemma dyn_empty (C : Cfg) : empty4 C -> dyn C.
Proof.
  intros (E1 & E2 & E3 & E4). unfold dyn. rewrite E1, E2, E3, E4. split; [reflexivity|]. split; [intros k H; exact H|reflexivity].
Qed.

(** * a configuration that does not exist yet *)
Definition nocfg_eff (t : N) (e : Eff) : Prop :=
  match e with
  | EPutCfg t' _ | EPutValues t' _ | EPutAValues t' _ => t' <> t
  | ECreateCfg t' C0 => t' = t -> empty4 C0
  | _ => True
  end.

Lemma rec_prop_putvalues (o : oracle) (w : Wd) t i t' v :
  In (EPutValues t' v) (fst (p2_reconcile o w (CtlProp (t, i)))) -> exists C : Cfg, cfgs w !! t' = Some C.
Proof.
  unfold p2_reconcile. cbn [Proto2.reconcile]. unfold Proto2.rec_prop, Proto2.vfail, Proto2.upd_status.
  match goal with |- context [match ?x with Some _ => _ | None => ([], RDone) end] => destruct x as [P|] eqn:HP end; [|intros []].
  destruct_matches; intros H;
    try (match goal with E : _ = Some ?e |- _ => is_var e;
           repeat match type of E with context [match ?x with _ => _ end] => destruct x eqn:? end;
           try discriminate E; injection E as <- end);
    cbn [fst app In] in H;
    repeat match type of H with
           | _ \/ _ => destruct H as [H|H]; [try discriminate H|]
           | False => destruct H
           end;
    injection H as <- <-; eexists; eassumption.
Qed.

Lemma reconcile_nocfg (Lf : N -> str -> Prop) (o : oracle) (w : Wd) c t :
  cfgs w !! t = None -> Forall (eff_ok Lf w) (fst (p2_reconcile o w c)) -> Forall (nocfg_eff t) (fst (p2_reconcile o w c)).
Proof.
  intros Hn Hok. apply List.Forall_forall. intros e He. rewrite List.Forall_forall in Hok. specialize (Hok e He).
  destruct e as [| | |t' C0|t' C0|t' v|t' v| | |]; cbn; try exact I.
  - intros ->. exact Hok.
  - intros ->. apply (reconcile_putcfg candidate candidate_rb rollback_of overlay commit_merge payload record_applied touched restore
                        resync_payload doc_ok stamp nil nil nil) in He. destruct He as (C & c0 & HC & _). assert (Hx : Some C = None) by (rewrite <- HC; exact Hn). discriminate Hx.
  - intros ->. destruct c as [i|[t0 i]|t0|t0|cc].
    + pose proof (rec_tx_tp stamp w i) as Hf. rewrite List.Forall_forall in Hf. exact (Hf _ He).
    + apply rec_prop_putvalues in He. destruct He as (C & HC). assert (Hx : Some C = None) by (rewrite <- HC; exact Hn). discriminate Hx.
    + unfold p2_reconcile in He. cbn [Proto2.reconcile] in He. unfold Proto2.rec_cfg, Proto2.upd_status in He. revert He.
      destruct_matches; intros He; cbn [fst] in He; try (apply in_app_or in He; destruct He as [He|He]);
        cbn [In] in He; repeat (destruct He as [He|He]; [discriminate He|]); try (destruct He).
      all: match goal with E : resync_effs ?t1 ?m0 ?te0 ?a0 ?rq0 = (?es, _), H : In _ ?es |- _ =>
             let Hx := fresh in
             pose proof (resync_effs_in (V:=cmap) (Ch:=cmap) t1 m0 te0 a0 rq0) as Hx; rewrite E in Hx;
             destruct (Hx _ H) as (? & Hd & _); discriminate Hd end.
    + apply rec_master_only_putcfg in He. destruct He.
    + apply rec_conn_only_rel in He. destruct He.
  - intros ->. apply (reconcile_putavalues candidate candidate_rb rollback_of overlay commit_merge payload record_applied touched restore
                        resync_payload doc_ok stamp nil nil nil) in He. destruct He as (C & HC & _). assert (Hx : Some C = None) by (rewrite <- HC; exact Hn). discriminate Hx.
Qed.

Lemma fold_nocfg t (es : list Eff) : forall w : Wd,
  (cfgs w !! t = None \/ exists C0 : Cfg, cfgs w !! t = Some C0 /\ empty4 C0) -> Forall (nocfg_eff t) es ->
  (cfgs (fold_left p2_apply_eff es w) !! t = None \/ exists C0 : Cfg, cfgs (fold_left p2_apply_eff es w) !! t = Some C0 /\ empty4 C0).
Proof.
  induction es as [|e es IH]; intros w Hw Hf; [exact Hw|]. inversion Hf as [|? ? He Hr]; subst. cbn [fold_left]. apply IH; [|exact Hr].
  unfold p2_apply_eff. rewrite (cfgs_apply_eff dev_apply nil).
  destruct e as [| | |t' C0|t' C0|t' v|t' v| | |]; try exact Hw; cbn in He.
  - destruct (cfgs w !! t') eqn:E; [exact Hw|]. destruct (decide (t' = t)) as [->|Hne].
    + right. exists C0. rewrite fin_maps.lookup_insert. split; [reflexivity|apply He; reflexivity].
    + rewrite lookup_insert_ne by exact Hne. exact Hw.
  - destruct (cfgs w !! t'); [|exact Hw]. rewrite lookup_insert_ne by exact He. exact Hw.
  - destruct (cfgs w !! t'); [|exact Hw]. rewrite lookup_insert_ne by exact He. exact Hw.
  - destruct (cfgs w !! t'); [|exact Hw]. rewrite lookup_insert_ne by exact He. exact Hw.
Qed.

Section Run.
  Context (Lf : N -> str -> Prop) (Lf_free : forall t p q, Lf t p -> Lf t q -> ~ Below p q).

  Definition Inv (w : Wd) : Prop := SInv Lf w /\ forall t (C : Cfg), cfgs w !! t = Some C -> dyn C.

  Definition label_ok (l : Label) : Prop :=
    match l with LChange chs _ _ => forall t c, In (t, c) chs -> nb_ok Lf t c | _ => True end.

  Lemma inv_init : Inv p2_init.
  Proof.
    split; [|intros t C H; cbn in H; rewrite lookup_empty in H; discriminate H].
    split; cbn; [discriminate|intros i T H|intros t i P H|intros t C H]; rewrite lookup_empty in H; discriminate H.
  Qed.

  Lemma sinv_env (w w' : Wd) :
    props w' = props w -> cfgs w' = cfgs w -> next_index w' <> 0 ->
    (forall i (T : Txn), txs w' !! i = Some T -> i <> 0 /\ tx_ok Lf (t_details T)) -> SInv Lf w -> SInv Lf w'.
  Proof.
    intros Hp Hc Hn Ht HS. assert (Hst : pstable w w') by (intros k P H; exists P; rewrite Hp; auto). split.
    - exact Hn.
    - exact Ht.
    - intros t i P HP. rewrite Hp in HP. destruct (si_prop Lf w HS _ _ _ HP) as (H1 & H2 & H3). split; [exact H1|]. split; [exact H2|].
      intros rb Hrb. destruct (H3 rb Hrb). split; [eapply cgood_mono; eauto|assumption].
    - intros t C HC. rewrite Hc in HC. destruct (si_cfg Lf w HS t C HC) as (H1 & H2 & H3 & H4).
      split; [eapply cgood_mono; eauto|]. split; [eapply cgood_mono; eauto|]. split; eapply cgood_mono; eauto.
  Qed.

  Lemma inv_env (w w' : Wd) :
    props w' = props w -> cfgs w' = cfgs w -> next_index w' <> 0 ->
    (forall i (T : Txn), txs w' !! i = Some T -> i <> 0 /\ tx_ok Lf (t_details T)) -> Inv w -> Inv w'.
  Proof.
    intros Hp Hc Hn Ht [HS HD]. split; [eapply sinv_env; eauto|]. intros t C HC. rewrite Hc in HC. exact (HD t C HC).
  Qed.

  Theorem inv_step (w : Wd) (l : Label) : Inv w -> label_ok l -> i_complete w l -> Inv (p2_step w l).
  Proof.
    intros HI Hl Hc. pose proof HI as [HS HD]. unfold p2_step.
    destruct l as [chs sy se|ri|c k o|c t0|c|c t0|t0 p|t0|t0]; cbn [Proto2.step].
    - apply (inv_env w); try reflexivity; [cbn; lia| |exact HI]. intros i T. cbn.
      destruct (decide (next_index w = i)) as [<-|Hne].
      + rewrite fin_maps.lookup_insert. intros [= <-]. split; [apply (si_next Lf w HS)|exact Hl].
      + rewrite lookup_insert_ne by exact Hne. apply (si_tx Lf w HS).
    - apply (inv_env w); try reflexivity; [cbn; lia| |exact HI]. intros i T. cbn.
      destruct (decide (next_index w = i)) as [<-|Hne].
      + rewrite fin_maps.lookup_insert. intros [= <-]. split; [apply (si_next Lf w HS)|exact I].
      + rewrite lookup_insert_ne by exact Hne. apply (si_tx Lf w HS).
    - (* a complete invocation *)
      cbn [complete] in Hc. rewrite firstn_all2 by exact Hc.
      pose proof (reconcile_ok Lf Lf_free o w c HS HD) as Hok.
      split.
      + pose proof (fold_static Lf (fst (p2_reconcile o w c)) w w (length (fst (p2_reconcile o w c))) HS (pstable_refl w) Hok) as H.
        rewrite firstn_all in H. exact H.
      + intros t C' HC'. destruct (cfgs w !! t) as [C|] eqn:HC.
        * pose proof (cfg_fold dev_apply nil (fst (p2_reconcile o w c)) t w C HC) as Hf.
          assert (Hq : Some C' = Some (fold_left (cfg_on t) (fst (p2_reconcile o w c)) C)) by (rewrite <- HC'; exact Hf).
          injection Hq as ->. apply (reconcile_dyn Lf o w c t C HS HC (HD t C HC)).
        * destruct (fold_nocfg t (fst (p2_reconcile o w c)) w (or_introl HC) (reconcile_nocfg Lf o w c t HC Hok)) as [Hn|(C0 & H0 & He)].
          -- assert (Hq : Some C' = None) by (rewrite <- HC'; exact Hn). discriminate Hq.
          -- assert (Hq : Some C' = Some C0) by (rewrite <- HC'; exact H0). injection Hq as ->. apply dyn_empty. exact He.
    - destruct (conns w !! c); [exact HI|]. apply (inv_env w); try reflexivity; [apply (si_next Lf w HS)|apply (si_tx Lf w HS)|exact HI].
    - apply (inv_env w); try reflexivity; [apply (si_next Lf w HS)|apply (si_tx Lf w HS)|exact HI].
    - destruct (rels w !! c); [exact HI|]. apply (inv_env w); try reflexivity; [apply (si_next Lf w HS)|apply (si_tx Lf w HS)|exact HI].
    - apply (inv_env w); try reflexivity; [apply (si_next Lf w HS)|apply (si_tx Lf w HS)|exact HI].
    - apply (inv_env w); try reflexivity; [apply (si_next Lf w HS)|apply (si_tx Lf w HS)|exact HI].
    - apply (inv_env w); try reflexivity; [apply (si_next Lf w HS)|apply (si_tx Lf w HS)|exact HI].
  Qed.

  (* every label carries well-formed changes and every invocation runs to its end *)
  Fixpoint run_good (w : Wd) (ls : list Label) : Prop :=
    match ls with [] => True | l :: r => label_ok l /\ i_complete w l /\ run_good (p2_step w l) r end.

  Lemma run_good_app (a b : list Label) : forall w, run_good w (a ++ b) <-> run_good w a /\ run_good (fold_left p2_step a w) b.
  Proof. induction a as [|l a IH]; intros w; cbn; [tauto|]. rewrite IH. tauto. Qed.

  Theorem inv_run (ls : list Label) : forall w, Inv w -> run_good w ls -> Inv (fold_left p2_step ls w).
  Proof.
    induction ls as [|l ls IH]; intros w HI Hg; [exact HI|]. destruct Hg as (H1 & H2 & H3). cbn [fold_left].
    apply IH; [apply inv_step; assumption|exact H3].
  Qed.

  (** * the invariant gives the well-formedness every step needs *)
  Theorem inv_wf_step (w : Wd) t (l : Label) : Inv w -> wf_step w t l.
  Proof.
    intros [HS HD] C HC. pose proof (HD t C HC) as Hd. destruct (dc_wf Lf w HS t C HC) as (H1 & H2 & H3 & H4).
    split; [apply wfk_of; exact H4|]. split; [apply wfk_of; exact H2|].
    destruct l as [| |[|[t' i]|t'| |] k o| | | | | |]; try exact I.
    - intros -> C0 P HC0 HP. assert (C0 = C) as -> by congruence. apply (dc_wf_apply Lf w HS t C HC Hd i P HP).
    - intros _. apply Hd.
  Qed.

  (* no restart of the device of [t], no switch of [t] to persistent *)
  Definition quiet_env (t : N) (ls : list Label) : Prop := Forall (fun l => l <> LDevRestart t /\ l <> LTarget t true) ls.

  Lemma run_crun_wf t (ls : list Label) : forall w0 w : Wd,
    Inv w -> run_good w ls -> quiet_env t ls -> crun_wf t w0 w -> crun_wf t w0 (fold_left p2_step ls w).
  Proof.
    induction ls as [|l ls IH]; intros w0 w HI Hg Hq Hrun; [exact Hrun|]. destruct Hg as (H1 & H2 & H3).
    inversion Hq as [|? ? [Q1 Q2] Qr]; subst. cbn [fold_left]. apply IH; [apply inv_step; assumption|exact H3|exact Qr|].
    apply (crun_wf_step t w0 w l Hrun). split; [exact H2|]. split; [exact Q1|]. split; [exact Q2|]. apply inv_wf_step. exact HI.
  Qed.

  Theorem converged_reach_Lf (ls0 ls : list Label) t (C' : Cfg) :
    run_good p2_init (ls0 ++ ls) -> quiet_env t ls -> i_conv (x_run ls0) t ->
    cfgs (x_run (ls0 ++ ls)) !! t = Some C' -> c_state C' = CSynchronized -> c_aterm C' = c_term C' ->
    i_agrees (x_run (ls0 ++ ls)) t.
  Proof.
    intros Hg Hq Hc. apply run_good_app in Hg. destruct Hg as [G0 G1].
    unfold x_run at 1 2. rewrite fold_left_app. fold (x_run ls0).
    apply (converged_inst (x_run ls0) (fold_left p2_step ls (x_run ls0)) t C'); [apply x_run_reach|exact Hc|].
    apply run_crun_wf; [|exact G1|exact Hq|apply crun_wf_refl]. apply (inv_run ls0 p2_init inv_init G0).
  Qed.
End Run.

(* C01, value level, on the executable instance (Model/P2Inst.v over Model/P2Pure.v):
   what the commit of a proposal shows.  Pure part: for every Go-map order, [commit_merge] stores a map whose live
   leaves hold every update of the change and nothing at or beneath a deleted path of the change - under the
   well-formedness that is an invariant of reachable worlds (Proofs/P2PureReach*.v: unique proper keys, no live value
   beneath a tombstone in the loaded view, the change is a wf_change, idx_compat) - NO freshness hypothesis on the
   stored indexes: a stored value store() skips because it carries the change's index says the same (idx_compat).
   World part: the complete commit step of proposal (t, i) of a Change moves Committed.Index to i and the live view of
   the target then shows the change.  Built on the lookup tables of Proofs/P2PureApplySem.v / P2PureApplySound.v
   (section Apply, instantiated with the view as mutated by AddDeleteChildren), nothing re-proved. *)
From stdpp Require Import gmap.
From RecordUpdate Require Import RecordUpdate.
From Coq Require Import NArith Lia Permutation.
From OC Require Import Base.Bytes Model.P2Pure Model.Proto2 Model.P2Inst Proofs.P2Base Proofs.P2Phases Proofs.P2_Cursor
     Proofs.P2_Converge Proofs.P2_ConvergeEx.
From OC Require Import Proofs.P2PureApplyDefs Proofs.P2PureApplyBase Proofs.P2PureApplySem Proofs.P2PureApplySound
     Proofs.P2PureApplyStatus Proofs.P2PureApplyInst Proofs.P2PureReachPure Proofs.P2PureReachInv Proofs.P2PureReachEff
     Proofs.P2PureReachDyn Proofs.P2PureReachRun.
Open Scope N_scope.

(** * Pure part *)
Section CommitShows.
  Context (ord i : N) (m vw ch : cmap).
  Context (Hm : WF m) (Hvw : WF vw) (Hsub : forall k e, plookup k m = Some e -> plookup k vw = Some e)
          (Hnlb : no_live_below vw = true) (Hch : WFC ch) (Hic : idx_compat m ch = true).

  Let upd' := fst (add_delete_children i (permute ord ch) vw).
  Let l := permute (rest_code (length ch) ord) upd'.
  Let st := markmap i (permute ord ch) vw.

  Lemma cs_spec : upd_spec i ch vw upd'.
  Proof. apply upd_spec_permuted. exact Hch. Qed.
  Lemma cs_perm : Permutation l upd'.
  Proof. apply permute_perm. Qed.
  Lemma cs_st_WF : WF st.
  Proof. apply cm_st_WF. exact Hvw. Qed.

  Lemma cs_WF : WF (overlay [] (commit_merge ord i m vw ch)).
  Proof. rewrite commit_merge_eq. apply (stored_WF i m st vw ch upd' l cs_st_WF Hm Hch cs_spec cs_perm). Qed.

  (* the live leaves of what is stored are the live leaves of the merged view *)
  Lemma cs_lvp p x : lvp (overlay [] (commit_merge ord i m vw ch)) p x <-> lvp (act_fold l st) p x.
  Proof.
    rewrite commit_merge_eq.
    apply (store_side i m st vw ch upd' l cs_st_WF Hm (cm_st_nlb ord i vw ch Hvw Hnlb Hch) (cm_vam ord i m vw ch Hvw Hsub Hch)
                      Hch Hic cs_spec cs_perm).
  Qed.

  Theorem commit_shows_updates p v :
    In (p, v) ch -> pv_deleted v = false -> In (p, pv_val v) (live (overlay [] (commit_merge ord i m vw ch))).
  Proof.
    intros Hin Hd. apply (live_in _ _ _ cs_WF). apply cs_lvp.
    destruct (ch_live_Xc i st vw ch upd' l cs_st_WF Hch cs_spec cs_perm p v Hin Hd) as [Ha Hb].
    exists v. auto.
  Qed.

  Theorem commit_hides_deletes d cv k x :
    In (d, cv) ch -> pv_deleted cv = true -> In (k, x) (live (overlay [] (commit_merge ord i m vw ch))) ->
    k <> d /\ ~ Below k d.
  Proof.
    intros Hin Hd Hl. apply (live_in _ _ _ cs_WF) in Hl. apply cs_lvp in Hl.
    apply (dev_side_sound i st vw ch upd' upd' l cs_st_WF (cm_st_nlb ord i vw ch Hvw Hnlb Hch) Hch cs_spec cs_spec cs_perm) in Hl.
    destruct (ui_del _ _ _ _ _ cs_spec d cv Hin Hd) as (tv & Htv & Htd & Htp).
    pose proof (upd_WF _ _ _ _ Hch cs_spec) as Hwu.
    destruct (proj2 (proj1 Hch) _ _ Hin) as [_ Hpd].
    destruct Hl as [(v & H1 & H2 & H3 & H4)|(Hva & Hnd & Hnu)].
    - pose proof (upd_live _ _ _ _ _ _ cs_spec H1 H2) as Hink. split.
      + intros ->.
        pose proof (in_lookup _ _ _ (proj1 (proj1 Hch)) Hink) as E1. pose proof (in_lookup _ _ _ (proj1 (proj1 Hch)) Hin) as E2.
        rewrite E1 in E2. injection E2 as ->. congruence.
      + intros Hb. exact (proj2 Hch _ _ _ _ Hink H2 Hin Hd Hb).
    - assert (Htop : exists t e, plookup t upd' = Some e /\ pv_deleted e = true /\ covered upd' t = false /\ (t = d \/ Below d t)).
      { destruct (covered upd' d) eqn:Ec.
        - destruct (covered_top upd' (proj2 Hwu) (length d) d (le_n _) Ec) as (t & e & Ht & Hde & Hb & Hct).
          exists t, e. split; [apply in_lookup; [apply Hwu|exact Ht]|]. split; [exact Hde|]. split; [exact Hct|]. right.
          apply (below_spec _ _ (proj2 (proj2 Hwu _ _ Ht))). exact Hb.
        - exists d, tv. auto. }
      destruct Htop as (t & e & Ht & Hde & Hct & Hrel). destruct (Hnd t e Ht Hde Hct) as [Hne Hnb].
      assert (Hpt : proper t = true) by (apply (proj2 (proj2 Hwu _ _ (lookup_in _ _ _ Ht)))).
      split.
      + intros ->. destruct Hrel as [->|Hb]; [congruence|]. apply (below_spec _ _ Hpt) in Hb. congruence.
      + intros Hb. destruct Hrel as [->|Hb2].
        * apply (below_spec _ _ Hpd) in Hb. congruence.
        * pose proof (Below_trans _ _ _ Hb Hb2) as Hb3. apply (below_spec _ _ Hpt) in Hb3. congruence.
  Qed.
End CommitShows.

(** * World part *)
Local Opaque restore record_applied commit_merge touched overlay rollback_of candidate candidate_rb payload resync_payload stamp doc_ok.

Section World.
  Context (Lf : N -> str -> Prop).

  (* the effects of a commit on top of the predecessor *)
  Lemma commit_effects (o : oracle) (w : Wd) t i (P : Prop2) (C : Cfg) :
    props w !! (t, i) = Some P -> cfgs w !! t = Some C ->
    p_commit P = Some Doing -> p_apply P = None -> p_abort P = None -> c_committed C = p_prev P ->
    fst (p2_reconcile o w (CtlProp (t, i))) =
    [EPutValues t (commit_merge (o_order o) i (c_values C) (view overlay C) (rb_change [] P));
     EPutCfg t (C <| c_index := match p_details P with PChange _ => i | PRollback _ => p_rbindex P end |>
                  <| c_committed := i |> <| c_inline := [] |> <| c_ainline := aview overlay C |>);
     EPutProp (t, i) (P <| p_commit := Some Done |>)].
  Proof.
    intros HP HC Ec Ea Eb Hcm. unfold p2_reconcile. cbn [Proto2.reconcile]. unfold Proto2.rec_prop. cbv beta iota zeta.
    unfold dstate in *.
    match goal with |- context [match ?x with Some _ => _ | None => ([], RDone) end] => replace x with (Some P) by (symmetry; exact HP) end.
    rewrite Ea, Eb, Ec, HC, Hcm, N.eqb_refl. reflexivity.
  Qed.

  (* ... and the configuration entry after at least the two configuration writes *)
  Lemma commit_cfg (o : oracle) (w : Wd) t i n (P : Prop2) (C C' : Cfg) :
    props w !! (t, i) = Some P -> cfgs w !! t = Some C ->
    p_commit P = Some Doing -> p_apply P = None -> p_abort P = None -> c_committed C = p_prev P -> (2 <= n)%nat ->
    cfgs (p2_step w (LRec (CtlProp (t, i)) n o)) !! t = Some C' ->
    C' = C <| c_index := match p_details P with PChange _ => i | PRollback _ => p_rbindex P end |>
           <| c_committed := i |> <| c_inline := [] |> <| c_ainline := aview overlay C |>
           <| c_values := commit_merge (o_order o) i (c_values C) (view overlay C) (rb_change [] P) |>
           <| c_avalues := c_avalues C |>.
  Proof.
    intros HP HC Ec Ea Eb Hcm Hn HC'. unfold p2_step in HC'. cbn [Proto2.step] in HC'.
    change (Proto2.reconcile candidate candidate_rb rollback_of overlay commit_merge payload record_applied touched restore
              resync_payload doc_ok stamp [] [] [] o w (CtlProp (t, i))) with (p2_reconcile o w (CtlProp (t, i))) in HC'.
    rewrite (commit_effects o w t i P C HP HC Ec Ea Eb Hcm) in HC'.
    rewrite (cfg_fold dev_apply [] _ t w C HC) in HC'. injection HC' as <-.
    destruct n as [|[|[|n]]]; try lia; cbn [firstn]; rewrite ?firstn_nil; cbn [fold_left cfg_on]; rewrite !N.eqb_refl; reflexivity.
  Qed.

  Theorem commit_contains_change (w : Wd) t i n (o : oracle) (P : Prop2) (C C' : Cfg) c :
    Inv Lf w -> props w !! (t, i) = Some P -> p_details P = PChange c -> cfgs w !! t = Some C ->
    p_commit P = Some Doing -> p_apply P = None -> p_abort P = None -> c_committed C = p_prev P -> (2 <= n)%nat ->
    cfgs (p2_step w (LRec (CtlProp (t, i)) n o)) !! t = Some C' ->
    c_committed C' = i /\
    (forall p u, In (p, u) c -> pv_deleted u = false -> In (p, pv_val u) (live (view overlay C'))) /\
    (forall d u, In (d, u) c -> pv_deleted u = true ->
       forall k x, In (k, x) (live (view overlay C')) -> k <> d /\ ~ Below k d).
  Proof.
    intros [HS HD] HP Hdt HC Ec Ea Eb Hcm Hn HC'.
    rewrite (commit_cfg o w t i n P C C' HP HC Ec Ea Eb Hcm Hn HC'). cbn [c_committed set]. split; [reflexivity|].
    unfold view. cbn [c_inline c_values set]. rewrite (rbc_change P c Hdt).
    pose proof (HD t C HC) as Hd. destruct (dc_wf Lf w HS t C HC) as (H1 & H2 & H3 & H4).
    destruct (rb_change_ok Lf w t i P HS HP) as [R1 R2]. rewrite (rbc_change P c Hdt) in R1, R2.
    assert (Hvw : WF (Proto2.view overlay C)) by (apply WF_overlay; assumption).
    assert (Hsub : forall k e, plookup k (c_values C) = Some e -> plookup k (Proto2.view overlay C) = Some e).
    { intros k e H. rewrite (dc_view_lookup Lf w HS t C HC Hd). exact H. }
    pose proof (dc_view_nlb Lf w HS t C HC Hd) as Hnlb.
    assert (Hic : idx_compat (c_values C) c = true).
    { apply (cgood_idx_compat Lf w t); [exact HS| |exact R1]. apply (si_cfg Lf w HS t C HC). }
    split.
    - intros p u Hin Hlv. apply (commit_shows_updates (o_order o) i _ _ c H1 Hvw Hsub Hnlb R2 Hic p u Hin Hlv).
    - intros d u Hin Hdl k x Hl. apply (commit_hides_deletes (o_order o) i _ _ c H1 Hvw Hsub Hnlb R2 Hic d u k x Hin Hdl Hl).
  Qed.
End World.

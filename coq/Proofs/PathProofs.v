(* Proofs about the path codec model (property C16), part 1: findUnescaped (fast track = loop),
   parseKey / parseElement on rendered text, the tokenizer on rendered text, SplitPath on rendered
   paths. *)
From Coq Require Import List NArith Bool Lia Permutation.
From OC Require Import Base.Bytes Model.Path.
Import ListNotations.
Open Scope N_scope.

(* ------------------------------------------------------------ small facts -- *)
Lemma has_false c s : has c s = false <-> ~ In c s.
Proof.
  unfold has. induction s as [|x s IH]; cbn; [tauto|].
  rewrite orb_false_iff, IH, N.eqb_neq. intuition congruence.
Qed.

Lemma has_cons c x s : has c (x :: s) = (x =? c) || has c s.
Proof. reflexivity. Qed.

Lemma has_app c a b : has c (a ++ b) = has c a || has c b.
Proof. unfold has. apply existsb_app. Qed.

Lemma forallb_has (P : N -> bool) c s : forallb P s = true -> P c = false -> has c s = false.
Proof.
  intros HF HP. apply has_false. intros HIn.
  rewrite forallb_forall in HF. specialize (HF _ HIn). congruence.
Qed.

Lemma is_empty_false s : is_empty s = false <-> s <> [].
Proof. destruct s; cbn; split; congruence. Qed.

Lemma ltb_str_asym a b : ltb_str a b = true -> ltb_str b a = false.
Proof.
  intros H. destruct (ltb_str b a) eqn:E; [|reflexivity].
  pose proof (ltb_str_trans _ _ _ H E) as T. rewrite ltb_str_irrefl in T. discriminate.
Qed.

Lemma ltb_str_neq a b : ltb_str a b = true -> eqb_str b a = false.
Proof.
  intros H. apply eqb_str_neq. intros ->. rewrite ltb_str_irrefl in H. discriminate.
Qed.

(* --------------------------------- findUnescaped: fast track = the loop -- *)
Lemma find_fast_slow c s : has c_bslash s = false -> find_slow c s = find_fast c s.
Proof.
  induction s as [|ch s IH]; intros H; [reflexivity|].
  rewrite has_cons in H. apply orb_false_iff in H as [H1 H2].
  cbn [find_slow find_fast]. destruct (ch =? c); [reflexivity|].
  rewrite H1, (IH H2). reflexivity.
Qed.

Lemma find_unescaped_slow c s : find_unescaped c s = find_slow c s.
Proof.
  unfold find_unescaped. destruct (has c_bslash s) eqn:E; [reflexivity|].
  symmetry. apply find_fast_slow. exact E.
Qed.

(* the loop on text produced by writeSafeString: the escaped text is read back verbatim *)
Lemma find_slow_safe c e s r :
  c <> c_bslash -> (c = e \/ has c s = false) ->
  find_slow c (safe e s ++ r) = (s ++ fst (find_slow c r), snd (find_slow c r)).
Proof.
  intros Hc. induction s as [|x s IH]; intros Hs.
  - cbn. destruct (find_slow c r); reflexivity.
  - assert (Hs' : c = e \/ has c s = false).
    { destruct Hs as [Hs|Hs]; [left; exact Hs|right]. rewrite has_cons in Hs. apply orb_false_iff in Hs. tauto. }
    specialize (IH Hs').
    cbn [safe]. destruct ((x =? e) || (x =? c_bslash)) eqn:E.
    + cbn [app find_slow].
      assert (Hb : c_bslash =? c = false) by (apply N.eqb_neq; congruence).
      rewrite Hb, N.eqb_refl. rewrite IH. reflexivity.
    + apply orb_false_iff in E as [E1 E2].
      cbn [app find_slow].
      assert (Hx : x =? c = false).
      { destruct Hs as [->|Hs]; [exact E1|]. rewrite has_cons in Hs. apply orb_false_iff in Hs. tauto. }
      rewrite Hx, E2, IH. reflexivity.
Qed.

(* the loop on raw text without the searched byte and without backslash *)
Lemma find_slow_plain c k r :
  has c k = false -> has c_bslash k = false -> find_slow c (k ++ c :: r) = (k, Some r).
Proof.
  induction k as [|x k IH]; intros H1 H2.
  - cbn. rewrite N.eqb_refl. reflexivity.
  - rewrite has_cons in H1, H2. apply orb_false_iff in H1 as [H1 H1'], H2 as [H2 H2'].
    cbn [app find_slow]. rewrite H1, H2, (IH H1' H2'). reflexivity.
Qed.

(* ------------------------------------------------- parseKey on a rendered key -- *)
Lemma key_ok_parts k v :
  key_ok (k, v) = true ->
  k <> [] /\ has c_eq k = false /\ has c_bslash k = false /\ v <> [] /\ key_unsplit k v = true.
Proof.
  unfold key_ok; cbn [fst snd]. rewrite !andb_true_iff, !negb_true_iff, !is_empty_false. tauto.
Qed.

Lemma parse_key_render k v next :
  key_ok (k, v) = true -> parse_key (render_key (k, v) ++ next) = ROk (k, v, next).
Proof.
  intros H. apply key_ok_parts in H as (Hk & Heq & Hbs & Hv & _).
  unfold render_key; cbn [fst snd].
  replace ((c_lbr :: k ++ c_eq :: safe c_rbr v ++ [c_rbr]) ++ next)
    with (c_lbr :: k ++ c_eq :: (safe c_rbr v ++ c_rbr :: next))
    by (cbn; f_equal; rewrite <- !app_assoc; cbn; rewrite <- app_assoc; reflexivity).
  unfold parse_key. rewrite N.eqb_refl. cbn [negb].
  rewrite find_unescaped_slow, (find_slow_plain _ _ _ Heq Hbs).
  destruct k as [|k0 k']; [congruence|]. cbn [is_empty].
  rewrite find_unescaped_slow, find_slow_safe by (try discriminate; left; reflexivity).
  cbn [find_slow]. rewrite N.eqb_refl. cbn [fst snd]. rewrite app_nil_r.
  destruct v as [|v0 v']; [congruence|]. reflexivity.
Qed.

(* ------------------------------------- the key loop on a rendered key list -- *)
Definition put_all (ks acc : kmap) : kmap := fold_left (fun m kv => map_put (fst kv) (snd kv) m) ks acc.

Lemma render_key_length kv : (1 <= List.length (render_key kv))%nat.
Proof. unfold render_key. cbn. lia. Qed.

Lemma parse_keys_render ks : forall acc fuel,
  forallb key_ok ks = true ->
  (List.length (concat (map render_key ks)) <= fuel)%nat ->
  parse_keys fuel (concat (map render_key ks)) acc = ROk (put_all ks acc).
Proof.
  induction ks as [|[k v] ks IH]; intros acc fuel Hok Hfuel.
  - cbn. destruct fuel; reflexivity.
  - cbn [forallb] in Hok. apply andb_true_iff in Hok as [Hkv Hok].
    cbn [map concat] in *. rewrite app_length in Hfuel.
    pose proof (render_key_length (k, v)) as Hlen.
    destruct fuel as [|f]; [lia|].
    assert (Hpk := parse_key_render k v (concat (map render_key ks)) Hkv).
    remember (render_key (k, v) ++ concat (map render_key ks)) as txt eqn:Etxt.
    destruct txt as [|t0 txt'].
    { unfold render_key in Etxt. cbn in Etxt. discriminate. }
    cbn [parse_keys]. rewrite Hpk. cbn [put_all fold_left fst snd].
    apply IH; [exact Hok|lia].
Qed.

(* inserting strictly ascending keys appends them *)
Lemma map_put_last k v m :
  (forall kv, In kv m -> ltb_str (fst kv) k = true) -> map_put k v m = m ++ [(k, v)].
Proof.
  induction m as [|[k' v'] m IH]; intros H; [reflexivity|].
  cbn [map_put]. assert (Hk : ltb_str k' k = true) by (apply (H (k', v')); left; reflexivity).
  rewrite (ltb_str_neq _ _ Hk), (ltb_str_asym _ _ Hk). cbn. f_equal.
  apply IH. intros kv Hin. apply H. right; exact Hin.
Qed.

Lemma keys_sorted_cons kv ks :
  keys_sorted (kv :: ks) = true ->
  keys_sorted ks = true /\ forall kv', In kv' ks -> ltb_str (fst kv) (fst kv') = true.
Proof.
  revert kv. induction ks as [|kv2 ks IH]; intros kv H.
  - split; [reflexivity|intros ? []].
  - cbn [keys_sorted] in H. apply andb_true_iff in H as [H1 H2].
    split; [exact H2|]. intros kv' [<-|Hin]; [exact H1|].
    destruct (IH _ H2) as [_ H3]. eapply ltb_str_trans; [exact H1|apply H3; exact Hin].
Qed.

Lemma put_all_sorted ks : forall acc,
  keys_sorted ks = true ->
  (forall a b, In a acc -> In b ks -> ltb_str (fst a) (fst b) = true) ->
  put_all ks acc = acc ++ ks.
Proof.
  induction ks as [|[k v] ks IH]; intros acc Hs Hlt.
  - cbn. rewrite app_nil_r. reflexivity.
  - cbn [put_all fold_left fst snd]. destruct (keys_sorted_cons _ _ Hs) as [Hs' Hk].
    rewrite map_put_last by (intros kv Hin; apply (Hlt kv (k, v)); [exact Hin|left; reflexivity]).
    change (fold_left _ ks (acc ++ [(k, v)])) with (put_all ks (acc ++ [(k, v)])).
    rewrite IH; [rewrite <- app_assoc; reflexivity|exact Hs'|].
    intros a b Ha Hb. apply in_app_or in Ha as [Ha|[<-|[]]].
    + apply Hlt; [exact Ha|right; exact Hb].
    + apply Hk. exact Hb.
Qed.

(* sort.Strings on already ascending key names changes nothing *)
Lemma isort_sorted ks : keys_sorted ks = true -> isort key_leb ks = ks.
Proof.
  induction ks as [|a ks IH]; intros H; [reflexivity|].
  destruct (keys_sorted_cons _ _ H) as [Hs Hk].
  cbn [isort]. rewrite (IH Hs).
  destruct ks as [|b t]; [reflexivity|].
  cbn [insert_sorted]. unfold key_leb, leb_str.
  rewrite (ltb_str_asym _ _ (Hk b (or_introl eq_refl))). reflexivity.
Qed.

Lemma render_keys_sorted ks : keys_sorted ks = true -> render_keys ks = concat (map render_key ks).
Proof. intros H. unfold render_keys. rewrite (isort_sorted _ H). reflexivity. Qed.

(* --------------------------------------- parseElement on a rendered element -- *)
Lemma elem_ok_parts last e :
  elem_ok last e = true ->
  has c_lbr (e_name e) = false /\ forallb key_ok (e_keys e) = true /\ keys_sorted (e_keys e) = true /\
  (e_name e <> [] \/ (last = false /\ e_keys e = [])).
Proof.
  unfold elem_ok. rewrite !andb_true_iff, orb_true_iff, !negb_true_iff, andb_true_iff, negb_true_iff, is_empty_false.
  intros [[[H1 H2] H3] H4]. repeat split; try assumption.
  destruct H4 as [H4|[H4 H5]]; [left; exact H4|right]. split; [exact H4|].
  unfold no_keys in H5. destruct (e_keys e); [reflexivity|discriminate].
Qed.

Lemma elem_ok_weaken e : elem_ok true e = true -> elem_ok false e = true.
Proof.
  unfold elem_ok. rewrite !andb_true_iff, !orb_true_iff. cbn [negb andb].
  intros [H1 [H2|H2]]; [split; [exact H1|left; exact H2]|discriminate].
Qed.

Lemma parse_element_render last e : elem_ok last e = true -> parse_element (render e) = ROk e.
Proof.
  intros H. apply elem_ok_parts in H as (Hn & Hk & Hs & Hne).
  destruct e as [name ks]; cbn [e_name e_keys] in *.
  unfold parse_element, render; cbn [e_name e_keys].
  rewrite find_unescaped_slow, find_slow_safe by (try discriminate; right; exact Hn).
  rewrite (render_keys_sorted _ Hs).
  destruct ks as [|[k v] ks].
  - cbn. rewrite app_nil_r. reflexivity.
  - assert (Hname : name <> []) by (destruct Hne as [Hne|[_ Hne]]; [exact Hne|discriminate]).
    cbn [map concat]. unfold render_key at 1. cbn [fst snd app find_slow].
    rewrite N.eqb_refl. cbn [fst snd]. rewrite app_nil_r.
    destruct name as [|n0 name']; [congruence|]. cbn [is_empty].
    set (rest := (k ++ c_eq :: safe c_rbr v ++ [c_rbr]) ++ concat (map render_key ks)).
    assert (Etxt : c_lbr :: rest = concat (map render_key ((k, v) :: ks))) by reflexivity.
    rewrite Etxt, parse_keys_render; [|exact Hk|lia].
    rewrite put_all_sorted; [reflexivity|exact Hs|intros ? ? []].
Qed.

Lemma parse_gnmi_elements_render p :
  Forall (fun e => elem_ok false e = true) p -> parse_gnmi_elements (map render p) = ROk p.
Proof.
  induction 1 as [|e p He _ IH]; [reflexivity|].
  cbn [map parse_gnmi_elements]. rewrite (parse_element_render _ _ He), IH. reflexivity.
Qed.

(* ----------------------------------------------- the tokenizer on rendered text -- *)
Fixpoint run (st : bool * bool) (s : str) : option (bool * bool) :=
  match s with
  | [] => Some st
  | c :: s' => match tok_step (fst st) (snd st) c with None => None | Some st' => run st' s' end
  end.

Lemma run_app st a b : run st (a ++ b) = match run st a with Some st' => run st' b | None => None end.
Proof.
  revert st. induction a as [|c a IH]; intros st; [reflexivity|].
  cbn [app run]. destruct (tok_step (fst st) (snd st) c); [apply IH|reflexivity].
Qed.

Lemma next_token_run s : forall inb esc st' r,
  run (inb, esc) s = Some st' ->
  next_token inb esc (s ++ r) = (s ++ fst (next_token (fst st') (snd st') r), snd (next_token (fst st') (snd st') r)).
Proof.
  induction s as [|c s IH]; intros inb esc st' r H.
  - cbn in H. injection H as <-. cbn. destruct (next_token inb esc r); reflexivity.
  - cbn [run fst snd] in H. cbn [app next_token].
    destruct (tok_step inb esc c) as [[inb' esc']|]; [|discriminate].
    rewrite (IH _ _ _ r H). reflexivity.
Qed.

(* element names: '/' and '\' are written escaped, '[' must not occur *)
Lemma run_safe_name name :
  has c_lbr name = false -> run (false, false) (safe c_slash name) = Some (false, false).
Proof.
  induction name as [|x name IH]; intros H; [reflexivity|].
  rewrite has_cons in H. apply orb_false_iff in H as [Hx H]. specialize (IH H).
  cbn [safe]. destruct (x =? c_slash) eqn:E1.
  - apply N.eqb_eq in E1; subst x. cbn. exact IH.
  - destruct (x =? c_bslash) eqn:E2.
    + apply N.eqb_eq in E2; subst x. cbn. exact IH.
    + cbn [orb run fst snd]. unfold tok_step. rewrite Hx, E2, E1.
      destruct (x =? c_rbr); exact IH.
Qed.

(* key names (raw, no backslash) and key values (']' and '\' escaped): the bracket state is scan_open's *)
Lemma run_scan_key k : forall inb b,
  has c_bslash k = false -> scan_open true inb k = Some b -> run (inb, false) k = Some (b, false).
Proof.
  induction k as [|x k IH]; intros inb b Hb Hs.
  - cbn in *. congruence.
  - rewrite has_cons in Hb. apply orb_false_iff in Hb as [Hx Hb].
    cbn [scan_open] in Hs. cbn [run fst snd]. unfold tok_step. rewrite Hx.
    destruct (x =? c_lbr); [apply IH; assumption|].
    destruct (x =? c_rbr); [apply IH; assumption|].
    destruct (x =? c_slash); [|apply IH; assumption].
    destruct inb; [cbn; apply IH; assumption|discriminate].
Qed.

Lemma run_scan_val v : forall inb b,
  scan_open false inb v = Some b -> run (inb, false) (safe c_rbr v) = Some (b, false).
Proof.
  induction v as [|x v IH]; intros inb b Hs.
  - cbn in *. congruence.
  - cbn [scan_open] in Hs. cbn [safe].
    destruct (x =? c_rbr) eqn:E1.
    + apply N.eqb_eq in E1; subst x. cbn in Hs. cbn. apply IH. exact Hs.
    + destruct (x =? c_bslash) eqn:E2.
      * apply N.eqb_eq in E2; subst x. cbn in Hs. cbn. apply IH. exact Hs.
      * cbn [orb run fst snd]. unfold tok_step. rewrite E1, E2.
        destruct (x =? c_lbr); [apply IH; assumption|].
        destruct (x =? c_slash); [|apply IH; assumption].
        destruct inb; [cbn; apply IH; assumption|discriminate].
Qed.

(* C04, concrete pure layer: basic facts about the association lists, paths, Go-map orders and sorting of
   Model/P2Pure.v, for ALL values.  Stdlib only. *)
From Coq Require Import List PeanoNat NArith Bool Lia Permutation Sorted.
From OC Require Import Base.Bytes Model.P2Pure Proofs.P2PureApplyDefs.
Import ListNotations.
Open Scope N_scope.

Ltac deq a b :=
  let E := fresh "E" in
  destruct (eqb_str a b) eqn:E; [apply eqb_str_eq in E | apply eqb_str_neq in E].

(** * Association lists *)
Definition ND (m : cmap) : Prop := NoDup (map fst m).

Lemma nodup_keys_ND m : nodup_keys m = true <-> ND m.
Proof.
  unfold ND. induction m as [|[k v] m IH]; cbn.
  - split; [constructor|reflexivity].
  - rewrite andb_true_iff, negb_true_iff, IH. split.
    + intros [H1 H2]. constructor; [|exact H2]. intros Hin. apply in_map_iff in Hin. destruct Hin as ([k' v'] & Hk & Hin).
      cbn in Hk. subst k'. assert (existsb (fun kv => eqb_str k (fst kv)) m = true) as Hx.
      { apply existsb_exists. exists (k, v'). split; [exact Hin|apply eqb_str_refl]. }
      congruence.
    + intros Hn. inversion Hn as [|? ? Hnot Hnd]; subst. split; [|exact Hnd].
      destruct (existsb (fun kv => eqb_str k (fst kv)) m) eqn:E; [|reflexivity]. exfalso. apply Hnot.
      apply existsb_exists in E. destruct E as ([k' v'] & Hin & He). cbn in He. apply eqb_str_eq in He. subst k'.
      apply in_map_iff. exists (k, v'). auto.
Qed.

Lemma lookup_in k v m : lookup k m = Some v -> In (k, v) m.
Proof.
  induction m as [|[k0 v0] m IH]; cbn; [discriminate|]. deq k k0.
  - intros [= ->]. left. subst. reflexivity.
  - intros H. right. auto.
Qed.

Lemma lookup_none k m : lookup k m = None <-> ~ In k (map fst m).
Proof.
  induction m as [|[k0 v0] m IH]; cbn; [tauto|]. deq k k0.
  - split; [discriminate|]. intros H. exfalso. apply H. left. auto.
  - rewrite IH. split; [intros H [H1|H1]; [congruence|auto]|tauto].
Qed.

Lemma lookup_some_key k v m : lookup k m = Some v -> In k (map fst m).
Proof. intros H. apply lookup_in in H. apply in_map_iff. exists (k, v). auto. Qed.

Lemma in_lookup k v m : ND m -> In (k, v) m -> lookup k m = Some v.
Proof.
  unfold ND. induction m as [|[k0 v0] m IH]; cbn; [tauto|]. intros Hn. inversion Hn as [|? ? Hnot Hnd]; subst.
  intros [[= -> ->]|Hin].
  - rewrite eqb_str_refl. reflexivity.
  - deq k k0; [|auto]. exfalso. subst. apply Hnot. apply in_map_iff. exists (k0, v). auto.
Qed.

Lemma key_lookup k m : In k (map fst m) -> exists v, lookup k m = Some v.
Proof. intros H. destruct (lookup k m) eqn:E; [eauto|]. apply lookup_none in E. contradiction. Qed.

Lemma lookup_map_repl k' k (v : pv) (m : cmap) :
  lookup k' (map (fun kv => if eqb_str k (fst kv) then (k, v) else kv) m) =
  if eqb_str k' k then match lookup k m with Some _ => Some v | None => None end else lookup k' m.
Proof.
  induction m as [|[k0 v0] m IH]; cbn; [destruct (eqb_str k' k); reflexivity|].
  deq k k0; cbn.
  - subst k0. rewrite IH. destruct (eqb_str k' k); reflexivity.
  - rewrite IH. deq k' k0; [|reflexivity]. subst k0. deq k' k; [congruence|reflexivity].
Qed.

Lemma lookup_app k m1 m2 : lookup k (m1 ++ m2) = match lookup k m1 with Some v => Some v | None => lookup k m2 end.
Proof. induction m1 as [|[k0 v0] m1 IH]; cbn; [reflexivity|]. destruct (eqb_str k k0); auto. Qed.

Lemma lookup_insert k' k v m : lookup k' (insert k v m) = if eqb_str k' k then Some v else lookup k' m.
Proof.
  unfold insert. destruct (lookup k m) eqn:E.
  - rewrite lookup_map_repl, E. reflexivity.
  - rewrite lookup_app. cbn. deq k' k.
    + subst. rewrite E. reflexivity.
    + destruct (lookup k' m); reflexivity.
Qed.

Lemma keys_map_repl k (v : pv) (m : cmap) : map fst (map (fun kv => if eqb_str k (fst kv) then (k, v) else kv) m) = map fst m.
Proof.
  induction m as [|[k0 v0] m IH]; cbn; [reflexivity|]. rewrite IH. deq k k0; cbn; congruence.
Qed.

Lemma keys_insert k v m x : In x (map fst (insert k v m)) <-> x = k \/ In x (map fst m).
Proof.
  unfold insert. destruct (lookup k m) eqn:E.
  - rewrite keys_map_repl. split; [auto|]. intros [->|H]; [eapply lookup_some_key; eauto|exact H].
  - rewrite map_app, in_app_iff. cbn. split; [intros [H|[H|[]]]; auto|intros [H|H]; auto].
Qed.

Lemma ND_insert k v m : ND m -> ND (insert k v m).
Proof.
  unfold ND, insert. intros Hn. destruct (lookup k m) eqn:E.
  - rewrite keys_map_repl. exact Hn.
  - rewrite map_app. cbn. apply lookup_none in E.
    apply (Permutation_NoDup (l := k :: map fst m)); [apply Permutation_cons_append|]. constructor; assumption.
Qed.

Lemma In_insert x k v m : In x (insert k v m) -> x = (k, v) \/ In x m.
Proof.
  unfold insert. destruct (lookup k m).
  - intros H. apply in_map_iff in H. destruct H as (y & <- & Hy). destruct (eqb_str k (fst y)); auto.
  - intros H. apply in_app_iff in H. destruct H as [H|[H|[]]]; auto.
Qed.

Lemma lookup_remove_ne k' k m : k' <> k -> lookup k' (remove k m) = lookup k' m.
Proof.
  intros Hne. induction m as [|[k0 v0] m IH]; cbn; [reflexivity|]. deq k k0; cbn.
  - subst k0. deq k' k; [contradiction|reflexivity].
  - rewrite IH. reflexivity.
Qed.

Lemma In_remove x k m : In x (remove k m) -> In x m.
Proof.
  induction m as [|[k0 v0] m IH]; cbn; [tauto|]. deq k k0; cbn; [auto|]. intros [H|H]; auto.
Qed.

Lemma keys_remove x k m : In x (map fst (remove k m)) -> In x (map fst m).
Proof.
  intros H. apply in_map_iff in H. destruct H as (y & <- & Hy). apply in_map. eapply In_remove; eauto.
Qed.

Lemma ND_remove k m : ND m -> ND (remove k m).
Proof.
  unfold ND. induction m as [|[k0 v0] m IH]; cbn; [auto|]. intros Hn. inversion Hn as [|? ? Hnot Hnd]; subst.
  deq k k0; cbn; [exact Hnd|]. constructor; [|auto]. intros H. apply Hnot. eapply keys_remove; eauto.
Qed.

Lemma lookup_remove_eq k m : ND m -> lookup k (remove k m) = None.
Proof.
  unfold ND. induction m as [|[k0 v0] m IH]; cbn; [reflexivity|]. intros Hn. inversion Hn as [|? ? Hnot Hnd]; subst.
  deq k k0; cbn.
  - subst k0. apply lookup_none. exact Hnot.
  - deq k k0; [contradiction|auto].
Qed.

Lemma lookup_remove k' k m : ND m -> lookup k' (remove k m) = if eqb_str k' k then None else lookup k' m.
Proof.
  intros Hn. deq k' k; [subst; apply lookup_remove_eq; exact Hn|apply lookup_remove_ne; exact E].
Qed.

(* key = path, proper *)
Definition KO (m : cmap) : Prop := forall k v, In (k, v) m -> k = pv_path v /\ proper k = true.

Lemma keys_ok_KO m : keys_ok m = true <-> KO m.
Proof.
  unfold keys_ok, KO. rewrite forallb_forall. split.
  - intros H k v Hin. specialize (H _ Hin). cbn in H. apply andb_true_iff in H. destruct H as [H1 H2].
    apply eqb_str_eq in H1. auto.
  - intros H [k v] Hin. destruct (H _ _ Hin) as [H1 H2]. cbn. rewrite H2, <- H1, eqb_str_refl. reflexivity.
Qed.

Definition WF (m : cmap) : Prop := ND m /\ KO m.
Lemma wfk_WF m : wfk m = true <-> WF m.
Proof. unfold wfk, WF. rewrite andb_true_iff, nodup_keys_ND, keys_ok_KO. tauto. Qed.

Lemma KO_lookup m k v : KO m -> lookup k m = Some v -> pv_path v = k /\ proper k = true.
Proof. intros H E. apply lookup_in in E. destruct (H _ _ E). split; congruence. Qed.

Lemma KO_insert k v m : KO m -> k = pv_path v -> proper k = true -> KO (insert k v m).
Proof. intros H E P k' v' Hin. apply In_insert in Hin. destruct Hin as [[= -> ->]|Hin]; [auto|apply H; exact Hin]. Qed.

Lemma KO_remove k m : KO m -> KO (remove k m).
Proof. intros H k' v' Hin. apply H. eapply In_remove; eauto. Qed.

Lemma WF_nil : WF [].
Proof. split; [constructor|intros k v []]. Qed.

(** * Paths *)
Definition bnd (c : N) : bool := (c =? c_slash) || (c =? c_lbr).
(* [p] lies strictly beneath [a], at an element boundary *)
Definition Below (p a : str) : Prop := exists c r, bnd c = true /\ p = a ++ c :: r.

Lemma proper_ne a : proper a = true -> a <> [] /\ a <> [c_slash].
Proof.
  unfold proper. rewrite andb_true_iff, !negb_true_iff, !eqb_str_neq. tauto.
Qed.

Lemma below_spec p a : proper a = true -> (is_path_below p a = true <-> Below p a).
Proof.
  intros Hp. destruct (proper_ne _ Hp) as [H1 H2]. unfold is_path_below.
  apply eqb_str_neq in H1. apply eqb_str_neq in H2. rewrite H1, H2. cbn [orb]. split.
  - intros H. apply andb_true_iff in H. destruct H as [H Hc]. apply andb_true_iff in H. destruct H as [Hl Hpre].
    apply prefixb_spec in Hpre. destruct Hpre as [s ->].
    rewrite nth_error_app2 in Hc by lia. rewrite Nat.sub_diag in Hc. destruct s as [|c r]; [discriminate Hc|].
    exists c, r. split; [exact Hc|reflexivity].
  - intros (c & r & Hc & ->). rewrite prefixb_app, nth_error_app2 by lia. rewrite Nat.sub_diag. cbn [nth_error].
    unfold bnd in Hc. rewrite Hc, andb_true_r, andb_true_r. apply N.ltb_lt. rewrite app_length. cbn. lia.
Qed.

Lemma Below_trans p a b : Below p a -> Below a b -> Below p b.
Proof.
  intros (c & r & Hc & ->) (c' & r' & Hc' & ->). exists c', (r' ++ c :: r). split; [exact Hc'|].
  rewrite <- app_assoc. reflexivity.
Qed.

Lemma Below_len p a : Below p a -> (length a < length p)%nat.
Proof. intros (c & r & _ & ->). rewrite app_length. cbn. lia. Qed.

Lemma Below_irrefl a : ~ Below a a.
Proof. intros H. apply Below_len in H. lia. Qed.

Lemma Below_cmp p a b : Below p a -> Below p b -> a = b \/ Below a b \/ Below b a.
Proof.
  intros (c & r & Hc & ->) (c' & r' & Hc' & E). apply app_eq_app in E. destruct E as (l & [[E1 E2]|[E1 E2]]).
  - destruct l as [|x l]; [left; rewrite app_nil_r in E1; exact E1|]. right. left.
    cbn in E2. injection E2 as E2 _. subst x. exists c', l. auto.
  - destruct l as [|x l]; [left; rewrite app_nil_r in E1; auto|]. right. right.
    cbn in E2. injection E2 as E2 _. subst x. exists c, l. auto.
Qed.

Lemma Below_proper p a : Below p a -> a <> [] -> proper p = true.
Proof.
  intros (c & r & _ & ->) Hne. unfold proper. rewrite andb_true_iff, !negb_true_iff, !eqb_str_neq.
  destruct a as [|x a]; [contradiction|]. split; [discriminate|]. destruct a; discriminate.
Qed.

Lemma bp_S i p : boundary_prefixes (S i) p =
  match i with
  | O => []
  | _ => match nth_error p i with
         | Some c => if bnd c then firstn i p :: boundary_prefixes i p else boundary_prefixes i p
         | None => boundary_prefixes i p
         end
  end.
Proof. reflexivity. Qed.

Lemma bp_in n p a :
  In a (boundary_prefixes n p) <->
  exists i c, (1 <= i < n)%nat /\ nth_error p i = Some c /\ bnd c = true /\ a = firstn i p.
Proof.
  induction n as [|i IH].
  - cbn. split; [intros []|intros (i & c & H & _); lia].
  - rewrite bp_S. destruct i as [|i'].
    + split; [intros []|intros (i & c & H & _); lia].
    + remember (S i') as i eqn:Ei.
      assert (Hstep : (exists j c, (1 <= j < S i)%nat /\ nth_error p j = Some c /\ bnd c = true /\ a = firstn j p) <->
                      (exists c, nth_error p i = Some c /\ bnd c = true /\ a = firstn i p) \/
                      (exists j c, (1 <= j < i)%nat /\ nth_error p j = Some c /\ bnd c = true /\ a = firstn j p)).
      { split.
        - intros (j & c & Hj & H). destruct (Nat.eq_dec j i) as [->|Hne]; [left; exists c; exact H|].
          right. exists j, c. split; [lia|exact H].
        - intros [(c & H)|(j & c & Hj & H)]; [exists i, c; split; [lia|exact H]|exists j, c; split; [lia|exact H]]. }
      rewrite Hstep, <- IH. clear Hstep IH.
      destruct (nth_error p i) as [c|] eqn:E.
      * destruct (bnd c) eqn:Eb.
        -- cbn [In]. split.
           ++ intros [<-|H]; [left; exists c; auto|right; exact H].
           ++ intros [(c0 & [= <-] & _ & ->)|H]; [left; reflexivity|right; exact H].
        -- split; [auto|]. intros [(c0 & [= <-] & Hb & _)|H]; [congruence|exact H].
      * split; [auto|]. intros [(c0 & Hc & _)|H]; [discriminate|exact H].
Qed.

Lemma ancestors_spec p a : In a (ancestors p) <-> a <> [] /\ Below p a.
Proof.
  unfold ancestors. rewrite bp_in. split.
  - intros (i & c & Hi & Hn & Hb & ->). apply nth_error_split in Hn. destruct Hn as (l1 & l2 & -> & Hl).
    rewrite firstn_app, Hl, Nat.sub_diag. cbn [firstn]. rewrite app_nil_r. rewrite <- Hl, firstn_all. split.
    + destruct l1; [cbn in Hl; lia|discriminate].
    + exists c, l2. auto.
  - intros (Hne & c & r & Hb & ->). exists (length a), c. split.
    + rewrite app_length. cbn. destruct a; [contradiction|cbn; lia].
    + split; [rewrite nth_error_app2, Nat.sub_diag by lia; reflexivity|]. split; [exact Hb|].
      rewrite firstn_app, Nat.sub_diag, firstn_all. cbn. rewrite app_nil_r. reflexivity.
Qed.

Lemma ancestors_below p a : proper a = true -> (In a (ancestors p) <-> is_path_below p a = true).
Proof.
  intros Hp. rewrite ancestors_spec, (below_spec _ _ Hp). destruct (proper_ne _ Hp). tauto.
Qed.

Lemma below_deleted_spec p dels :
  (forall d, In d dels -> proper d = true) -> below_deleted p dels = existsb (fun d => is_path_below p d) dels.
Proof.
  intros H. unfold below_deleted.
  assert (E1 : existsb (fun d => eqb_str d [c_slash] || eqb_str d []) dels = false).
  { destruct (existsb _ dels) eqn:E; [|reflexivity]. apply existsb_exists in E. destruct E as (d & Hd & E).
    destruct (proper_ne _ (H _ Hd)) as [H1 H2]. apply eqb_str_neq in H1. apply eqb_str_neq in H2. rewrite H1, H2 in E. discriminate. }
  rewrite E1, andb_false_r. cbn [orb]. clear E1. induction dels as [|d dels IH]; cbn; [reflexivity|].
  rewrite IH by (intros; apply H; right; assumption). f_equal.
  destruct (proper_ne _ (H d (or_introl eq_refl))) as [H1 H2]. apply eqb_str_neq in H1. apply eqb_str_neq in H2.
  rewrite H1, H2. reflexivity.
Qed.

(** * Go map orders: [permute] is a permutation *)
Lemma take_nth_perm {A} (n : nat) (l : list A) x r : take_nth n l = Some (x, r) -> Permutation l (x :: r).
Proof.
  revert n x r. induction l as [|y l IH]; intros n x r; [destruct n; discriminate|]. destruct n as [|n]; cbn.
  - intros [= -> ->]. reflexivity.
  - destruct (take_nth n l) as [[z r']|] eqn:E; [|discriminate]. intros [= -> <-].
    rewrite (IH _ _ _ E). apply perm_swap.
Qed.

Lemma permute_fuel_perm {A} (f : nat) : forall (n : N) (l : list A), Permutation (permute_fuel f n l) l.
Proof.
  induction f as [|f IH]; intros n l; cbn; [reflexivity|]. destruct l as [|y l]; [reflexivity|].
  destruct (take_nth _ (y :: l)) as [[x r]|] eqn:E; [|reflexivity].
  apply take_nth_perm in E. apply Permutation_sym in E. eapply perm_trans; [|exact E]. constructor. apply IH.
Qed.

Lemma permute_perm {A} (n : N) (l : list A) : Permutation (permute n l) l.
Proof. apply permute_fuel_perm. Qed.

(** * Sorting by a string key *)
Section KSort.
  Context {A : Type} (key : A -> str).
  Fixpoint gins (x : A) (l : list A) : list A :=
    match l with [] => [x] | y :: l' => if ltb_str (key x) (key y) then x :: l else y :: gins x l' end.
  Definition gsort (l : list A) : list A := fold_right gins [] l.
  Definition klt (a b : A) : Prop := ltb_str (key a) (key b) = true.

  Lemma gins_perm x l : Permutation (gins x l) (x :: l).
  Proof.
    induction l as [|y l IH]; cbn; [reflexivity|]. destruct (ltb_str (key x) (key y)); [reflexivity|].
    rewrite IH. apply perm_swap.
  Qed.
  Lemma gsort_perm l : Permutation (gsort l) l.
  Proof. induction l as [|x l IH]; cbn; [reflexivity|]. rewrite gins_perm. constructor. exact IH. Qed.

  Lemma gins_sorted x l :
    StronglySorted klt l -> (forall y, In y l -> key y <> key x) -> StronglySorted klt (gins x l).
  Proof.
    induction l as [|y l IH]; intros Hs Hne; cbn; [constructor; constructor|].
    inversion Hs as [|? ? Hs' Hf]; subst. destruct (ltb_str (key x) (key y)) eqn:E.
    - constructor; [exact Hs|]. constructor; [exact E|]. rewrite Forall_forall in *. intros z Hz.
      unfold klt. eapply ltb_str_trans; [exact E|apply Hf; exact Hz].
    - constructor; [apply IH; [exact Hs'|intros; apply Hne; right; assumption]|].
      rewrite Forall_forall in *. intros z Hz. apply (Permutation_in _ (gins_perm x l)) in Hz. destruct Hz as [<-|Hz]; [|auto].
      unfold klt. destruct (ltb_str (key y) (key x)) eqn:E2; [reflexivity|]. exfalso.
      apply (Hne y (or_introl eq_refl)). symmetry. apply ltb_str_total; assumption.
  Qed.

  Lemma gsort_sorted l : NoDup (map key l) -> StronglySorted klt (gsort l).
  Proof.
    induction l as [|x l IH]; cbn; intros Hn; [constructor|]. inversion Hn as [|? ? Hnot Hnd]; subst.
    apply gins_sorted; [auto|]. intros y Hy E. apply Hnot. rewrite <- E. apply in_map.
    apply (Permutation_in _ (gsort_perm l)). exact Hy.
  Qed.

  Lemma klt_irrefl a : ~ klt a a.
  Proof. unfold klt. rewrite ltb_str_irrefl. discriminate. Qed.

  Lemma ksorted_ext l1 : forall l2,
    StronglySorted klt l1 -> StronglySorted klt l2 -> (forall x, In x l1 <-> In x l2) -> l1 = l2.
  Proof.
    induction l1 as [|a l1 IH]; intros l2 S1 S2 H.
    - destruct l2 as [|b l2]; [reflexivity|]. exfalso. apply (H b). left. reflexivity.
    - destruct l2 as [|b l2]; [exfalso; apply (H a); left; reflexivity|].
      inversion S1 as [|? ? S1' F1]; subst. inversion S2 as [|? ? S2' F2]; subst. rewrite Forall_forall in F1, F2.
      assert (Hab : a = b).
      { destruct (proj1 (H a) (or_introl eq_refl)) as [Hx|Hx]; [auto|].
        destruct (proj2 (H b) (or_introl eq_refl)) as [Hy|Hy]; [auto|].
        exfalso. apply (klt_irrefl a). unfold klt. eapply ltb_str_trans; [apply F1; exact Hy|apply F2; exact Hx]. }
      subst b. f_equal. apply IH; [assumption..|]. intros x. split; intros Hx.
      + destruct (proj1 (H x) (or_intror Hx)) as [<-|Hy]; [|exact Hy]. exfalso. apply (klt_irrefl a). apply F1. exact Hx.
      + destruct (proj2 (H x) (or_intror Hx)) as [<-|Hy]; [|exact Hy]. exfalso. apply (klt_irrefl a). apply F2. exact Hx.
  Qed.

  Lemma ksorted_filter f l : StronglySorted klt l -> StronglySorted klt (filter f l).
  Proof.
    induction l as [|x l IH]; cbn; intros Hs; [constructor|]. inversion Hs as [|? ? Hs' Hf]; subst.
    destruct (f x); [|auto]. constructor; [auto|]. rewrite Forall_forall in *. intros y Hy. apply Hf.
    apply filter_In in Hy. tauto.
  Qed.
End KSort.

Lemma ksorted_map {A B} (ka : A -> str) (kb : B -> str) (g : A -> B) l :
  (forall a, kb (g a) = ka a) -> StronglySorted (klt ka) l -> StronglySorted (klt kb) (map g l).
Proof.
  intros Hk. induction l as [|x l IH]; cbn; intros Hs; [constructor|]. inversion Hs as [|? ? Hs' Hf]; subst.
  constructor; [auto|]. rewrite Forall_forall in *. intros y Hy. apply in_map_iff in Hy. destruct Hy as (z & <- & Hz).
  unfold klt. rewrite !Hk. apply Hf. exact Hz.
Qed.

Lemma ins_gins x s : P2Pure.insert_sorted x s = gins pv_path x s.
Proof. induction s as [|y s IHs]; cbn; [reflexivity|]. rewrite IHs. reflexivity. Qed.
Lemma sort_pvs_gsort l : sort_pvs l = gsort pv_path l.
Proof. induction l as [|x l IH]; [reflexivity|]. unfold sort_pvs in *. cbn. rewrite IH. apply ins_gins. Qed.

Lemma inskv_gins x s : ins_kv x s = gins fst x s.
Proof. induction s as [|y s IHs]; cbn; [reflexivity|]. rewrite IHs. reflexivity. Qed.
Lemma abs_dev_gsort d : abs_dev d = gsort fst d.
Proof. induction d as [|x l IH]; [reflexivity|]. unfold abs_dev in *. cbn. rewrite IH. apply inskv_gins. Qed.

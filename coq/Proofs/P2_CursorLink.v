(* Transactions initialise in index order (towards the chain invariant of C02):
     - what ONE step can do to a transaction record ([tx_step], [rec_tx_puttx]),
     - the invariant [T_inv]: indexes are dense, a transaction is past its Initialize phase only after its predecessor,
       a proposal exists only for a transaction that started initialising after its predecessor finished and that did not
       fail its Initialize phase, an aborting transaction is past Initialize,
     - hence [open_is_last]: of two proposals of one target, the one with the smaller index is INITIALIZED - at most one
       proposal per target is linking itself into the chain, and it is the last one. *)
From stdpp Require Import gmap.
From RecordUpdate Require Import RecordUpdate.
From Coq Require Import NArith Lia.
From OC Require Import Model.Proto2 Proofs.P2Base Proofs.P2Phases Proofs.P2_Order Proofs.P2_Cursor Proofs.P2_CursorInv.
Open Scope N_scope.

Section Link.
  Context {V Ch Req D : Type}.
  Context (candidate : V -> Ch -> V) (candidate_rb : V -> Ch -> V) (rollback_of : V -> Ch -> Ch)
          (overlay : V -> V -> V) (commit_merge : N -> N -> V -> V -> Ch -> V)
          (payload : N -> V -> Ch -> option Req) (record_applied : N -> N -> V -> V -> V -> Ch -> V)
          (touched : N -> V -> Ch -> V) (restore : V -> V -> V)
          (resync_payload : V -> list (option Req)) (doc_ok : V -> bool)
          (dev_apply : D -> Req -> D) (stamp : N -> Ch -> Ch) (v_empty : V) (d_empty : D) (ch_empty : Ch).

  Notation world := (@world V Ch Req D).
  Notation eff := (@eff V Ch Req).
  Notation txn := (@txn Ch).
  Notation prop := (@prop Ch).
  Notation config := (@config V).
  Notation devev := (@devev Req).
  Notation apply_eff := (@apply_eff V Ch Req D dev_apply d_empty).
  Notation rec_tx := (@rec_tx V Ch Req D stamp).
  Notation rec_prop := (@rec_prop V Ch Req D candidate candidate_rb rollback_of overlay commit_merge payload record_applied
                                  touched restore doc_ok v_empty d_empty ch_empty).
  Notation rec_cfg := (@rec_cfg V Ch Req D overlay restore resync_payload v_empty d_empty).
  Notation rec_master := (@rec_master V Ch Req D overlay restore v_empty).
  Notation rec_conn := (@rec_conn V Ch Req D).
  Notation reconcile := (@reconcile V Ch Req D candidate candidate_rb rollback_of overlay commit_merge payload record_applied
                                    touched restore resync_payload doc_ok stamp v_empty d_empty ch_empty).
  Notation step := (@step V Ch Req D candidate candidate_rb rollback_of overlay commit_merge payload record_applied
                          touched restore resync_payload doc_ok dev_apply stamp v_empty d_empty ch_empty).
  Notation reach := (@reach V Ch Req D candidate candidate_rb rollback_of overlay commit_merge payload record_applied
                            touched restore resync_payload doc_ok dev_apply stamp v_empty d_empty ch_empty).
  Notation view := (@view V overlay).
  Notation aview := (@aview V overlay).
  Notation dev_answer := (@dev_answer V Ch Req D d_empty).
  Notation rb_change := (@rb_change Ch ch_empty).


  Notation Kord := (@P2_Order.K V Ch Req D).

  Ltac in_cases H :=
    cbn [fst app In] in H;
    repeat match type of H with
           | _ \/ _ => destruct H as [H|H]; [try discriminate H|]
           | False => destruct H
           end.

  Definition past_init (T : txn) : Prop := t_init T = Some Done \/ t_init T = Some Failed.

  (** * One step, seen from one transaction *)
  Lemma tx_apply_eff_lookup (w : world) (e : eff) i T' :
    txs (apply_eff w e) !! i = Some T' -> txs w !! i = Some T' \/ e = EPutTx i T'.
  Proof.
    rewrite txs_apply_eff. destruct e as [i0 T0| | | | | | | | |]; try (intros H; left; exact H).
    destruct (decide (i0 = i)) as [->|Hne].
    - rewrite lookup_insert. intros [= <-]. right. reflexivity.
    - rewrite lookup_insert_ne by exact Hne. intros H; left; exact H.
  Qed.

  Lemma tx_prefix (es : list eff) : forall (w : world) (n : nat) i T',
    txs (fold_left apply_eff (firstn n es) w) !! i = Some T' -> txs w !! i = Some T' \/ In (EPutTx i T') es.
  Proof.
    induction es as [|e r IH]; intros w n i T' H.
    - rewrite firstn_nil in H. left. exact H.
    - destruct n as [|n]; [left; exact H|]. cbn [firstn fold_left] in H.
      destruct (IH _ _ _ _ H) as [H1|Hin]; [|right; right; exact Hin].
      destruct (tx_apply_eff_lookup _ _ _ _ H1) as [H0| ->]; [left; exact H0|right; left; reflexivity].
  Qed.

  Lemma tx_keep_prefix (es : list eff) : forall (w : world) (n : nat) i,
    is_Some (txs w !! i) -> is_Some (txs (fold_left apply_eff (firstn n es) w) !! i).
  Proof.
    induction es as [|e r IH]; intros w n i H.
    - rewrite firstn_nil. exact H.
    - destruct n as [|n]; [exact H|]. cbn [firstn fold_left]. apply IH. rewrite txs_apply_eff.
      destruct e as [i0 T0| | | | | | | | |]; try exact H.
      destruct (decide (i0 = i)) as [->|Hne]; [rewrite lookup_insert; eexists; reflexivity|rewrite lookup_insert_ne by exact Hne; exact H].
  Qed.

  Lemma next_index_prefix (es : list eff) : forall (w : world) (n : nat),
    next_index (fold_left apply_eff (firstn n es) w) = next_index w.
  Proof.
    induction es as [|e r IH]; intros w n.
    - rewrite firstn_nil. reflexivity.
    - destruct n as [|n]; [reflexivity|]. cbn [firstn fold_left]. rewrite IH. apply next_index_apply_eff.
  Qed.

  Lemma rec_prop_no_puttx (o : oracle) (w : world) kk i T' : In (EPutTx i T') (fst (rec_prop o w kk)) -> False.
  Proof.
    unfold Proto2.rec_prop, Proto2.vfail, Proto2.upd_status. destruct kk as [t j].
    destruct (props w !! (t, j)) as [P|] eqn:HP; [|intros []].
    destruct_matches; intros H;
      try (match goal with E : _ = Some ?e |- _ => is_var e;
             repeat match type of E with context [match ?x with _ => _ end] => destruct x eqn:? end;
             try discriminate E; injection E as <- end);
      in_cases H.
  Qed.

  (** * Transaction writes of the transaction reconciler *)
  Definition tx_upd (w : world) (i : N) (T T' : txn) : Prop :=
    ((t_init T' = t_init T) \/ (t_init T = None /\ t_init T' = Some Doing) \/
     (t_init T = Some Doing /\ past_init T' /\ (forall Pv, txs w !! (i - 1) = Some Pv -> past_init Pv) /\
      (t_init T' = Some Failed ->
       (forall t, props w !! (t, i) = None) /\ (forall k (P : prop), ~ In (ECreateProp k P) (fst (rec_tx w i)))))) /\
    (t_abort T' = t_abort T \/ past_init T' \/ is_Some (t_abort T)).

  Lemma phase_scan_puttx (w : world) i (T : txn) tg get start stop on_failed on_all_done j T' :
    In (EPutTx j T') (fst (phase_scan w i T tg get start stop on_failed on_all_done)) ->
    j = i /\ ((exists p, T' = on_failed p) \/ T' = on_all_done).
  Proof.
    unfold phase_scan. destruct_matches; cbn; intros H; in_cases H; injection H as <- <-; split; eauto.
  Qed.

  Lemma gate_puttx (w : world) i (T : txn) tg need next r j T' :
    In (EPutTx j T') (fst (gate w i T tg need next r)) -> j = i /\ T' = next.
  Proof.
    unfold gate. destruct_matches; cbn; intros H; in_cases H. injection H as <- <-. auto.
  Qed.

  Lemma tx_wf_validate (T : txn) : tx_wf T -> is_Some (t_validate T) -> t_init T = Some Done.
  Proof.
    unfold tx_wf, wfb, imp, some, is_ph. intros H [v Hv]. rewrite Hv in H.
    destruct (t_init T) as [[]|]; cbn in H; try discriminate; reflexivity.
  Qed.

  (* a transaction that fails its Initialize phase creates no proposal in that invocation *)
  Lemma fail_init_no_create (w : world) i (T : txn) ri k (P : prop) :
    txs w !! i = Some T -> t_details T = TRollback ri ->
    (txs w !! ri = None \/ exists R rj, txs w !! ri = Some R /\ t_details R = TRollback rj) ->
    In (ECreateProp k P) (fst (rec_tx w i)) -> False.
  Proof.
    intros HT Hd Hri. unfold Proto2.rec_tx, fail_init. rewrite HT. rewrite Hd.
    destruct Hri as [Hn|(R & rj & HR & HdR)]; [rewrite Hn|rewrite HR, HdR];
      destruct_matches; intros H; try (in_cases H; fail);
      try (apply phase_scan_no_create in H; exact H);
      try (apply gate_only_tx in H; destruct H as (? & H); discriminate H).
  Qed.

  Ltac same_upd := split; [left; reflexivity|left; reflexivity].

  Lemma rec_tx_puttx (w : world) i j T' :
    reach w -> In (EPutTx j T') (fst (rec_tx w i)) ->
    j = i /\ exists T, txs w !! i = Some T /\ tx_upd w i T T'.
  Proof.
    intros Hr.
    pose proof (P2_Order.K_reach candidate candidate_rb rollback_of overlay commit_merge payload record_applied touched restore
                  resync_payload doc_ok dev_apply stamp v_empty d_empty ch_empty _ Hr) as HK.
    pose proof (P2_Order.k_J _ HK) as HJ.
    unfold Proto2.rec_tx, fail_init. destruct (txs w !! i) as [T|] eqn:HT; [|intros []].
    pose proof (j_tx _ HJ _ _ HT) as Hwf.
    destruct (t_apply T) as [a|] eqn:Ea.
    { destruct a; try (cbn; intros []; fail).
      destruct (scan_props w i (default [] (t_props T)) _) as [[u|[t1 p1]]|] eqn:Hscan.
      - cbn. intros [].
      - cbn. intros [H|[]]. discriminate H.
      - intros H. apply phase_scan_puttx in H. destruct H as (-> & [(p & ->)| ->]);
          (split; [reflexivity|]); exists T; (split; [reflexivity|]); same_upd. }
    destruct (t_abort T) as [ab|] eqn:Eb.
    { destruct ab; try (cbn; intros []; fail). intros H. apply phase_scan_puttx in H. destruct H as (-> & [(p & ->)| ->]);
        (split; [reflexivity|]); exists T; (split; [reflexivity|]); [same_upd|].
      split; [left; reflexivity|]. right. right. rewrite Eb. eexists; reflexivity. }
    destruct (t_commit T) as [c|] eqn:Ec.
    { destruct c; try (cbn; intros []; fail).
      - intros H. apply phase_scan_puttx in H. destruct H as (-> & [(p & ->)| ->]);
          (split; [reflexivity|]); exists T; (split; [reflexivity|]); same_upd.
      - intros H. apply gate_puttx in H. destruct H as (-> & ->). split; [reflexivity|]. exists T. split; [reflexivity|]. same_upd. }
    destruct (t_validate T) as [v|] eqn:Ev.
    { assert (Hi : t_init T = Some Done) by (apply tx_wf_validate; [exact Hwf|rewrite Ev; eexists; reflexivity]).
      destruct v; try (cbn; intros []; fail).
      - intros H. apply phase_scan_puttx in H. destruct H as (-> & [(p & ->)| ->]);
          (split; [reflexivity|]); exists T; (split; [reflexivity|]); [|same_upd].
        split; [left; reflexivity|]. right. left. left. cbn. exact Hi.
      - intros H. apply gate_puttx in H. destruct H as (-> & ->). split; [reflexivity|]. exists T. split; [reflexivity|]. same_upd. }
    destruct (t_init T) as [ini|] eqn:Ei.
    2:{ cbn. intros [H|[]]. injection H as <- <-. split; [reflexivity|]. exists T. split; [reflexivity|].
        split; [right; left; split; [exact Ei|reflexivity]|left; reflexivity]. }
    destruct ini; try (cbn; intros []; fail).
    2:{ intros H. apply gate_puttx in H. destruct H as (-> & ->). split; [reflexivity|]. exists T. split; [reflexivity|]. same_upd. }
    destruct (match txs w !! (i - 1) with Some P => _ | None => false end) eqn:Hprev; [cbn; intros []|].
    assert (Hpv : forall Pv, txs w !! (i - 1) = Some Pv -> past_init Pv).
    { intros Pv HPv. rewrite HPv in Hprev. unfold past_init. destruct (t_init Pv) as [[]|]; cbn in Hprev; try discriminate; auto. }
    clear Hprev.
    assert (Hnoprops : forall ri, t_details T = TRollback ri ->
              (txs w !! ri = None \/ exists R rj, txs w !! ri = Some R /\ t_details R = TRollback rj) ->
              forall t, props w !! (t, i) = None).
    { intros ri Hd Hri t. destruct (props w !! (t, i)) as [P|] eqn:HP; [|reflexivity]. exfalso.
      destruct (P2_Order.k_exist _ HK _ _ _ HP) as (T0 & HT0 & Hin). rewrite HT in HT0. injection HT0 as <-.
      unfold tgts_of in Hin. rewrite Hd in Hin. destruct Hri as [Hn|(R & rj & HR & HdR)].
      - rewrite Hn in Hin. destruct Hin.
      - rewrite HR, HdR in Hin. destruct Hin. }
    destruct (t_props T) as [tg'|] eqn:Ep.
    { destruct (all_props w i tg' _) as [[|]|]; try (cbn; intros []; fail).
      cbn. intros [H|[]]. injection H as <- <-. split; [reflexivity|]. exists T. split; [reflexivity|].
      split; [|left; reflexivity]. right. right. split; [exact Ei|]. split; [left; reflexivity|]. split; [exact Hpv|]. cbn. discriminate. }
    destruct (t_details T) as [chs|ri] eqn:Ed.
    { cbn [fst]. intros H. apply in_app_or in H. destruct H as [H|H].
      - apply create_props_in in H. destruct H as (? & _ & H). discriminate H.
      - in_cases H. injection H as <- <-. split; [reflexivity|]. exists T. split; [reflexivity|]. same_upd. }
    destruct (txs w !! ri) as [R|] eqn:HR.
    2:{ cbn. intros [H|[]]. injection H as <- <-. split; [reflexivity|]. exists T. split; [reflexivity|].
        split; [|right; left; right; reflexivity]. right. right. split; [exact Ei|]. split; [right; reflexivity|]. split; [exact Hpv|].
        intros _. split; [apply (Hnoprops ri eq_refl); left; exact HR|]. intros k P Hin. eapply (fail_init_no_create w i T ri); eauto. }
    destruct (t_details R) as [chs|rj] eqn:EdR.
    { cbn [fst]. intros H. apply in_app_or in H. destruct H as [H|H].
      - apply create_props_in in H. destruct H as (? & _ & H). discriminate H.
      - in_cases H. injection H as <- <-. split; [reflexivity|]. exists T. split; [reflexivity|]. same_upd. }
    cbn. intros [H|[]]. injection H as <- <-. split; [reflexivity|]. exists T. split; [reflexivity|].
    split; [|right; left; right; reflexivity]. right. right. split; [exact Ei|]. split; [right; reflexivity|]. split; [exact Hpv|].
    intros _. split; [apply (Hnoprops ri eq_refl); right; exists R, rj; auto|]. intros k P Hin. eapply (fail_init_no_create w i T ri); eauto 6.
  Qed.
  (** * One step, seen from one transaction *)
  Lemma tx_step (w : world) l i T' :
    reach w -> txs (step w l) !! i = Some T' ->
    txs w !! i = Some T' \/
    (txs w !! i = None /\ i = next_index w /\ t_init T' = None /\ t_abort T' = None /\ next_index (step w l) = next_index w + 1) \/
    (exists n o T, l = LRec (CtlTx i) n o /\ txs w !! i = Some T /\ tx_upd w i T T').
  Proof.
    intros Hr.
    pose proof (P2_Order.K_reach candidate candidate_rb rollback_of overlay commit_merge payload record_applied touched restore
                  resync_payload doc_ok dev_apply stamp v_empty d_empty ch_empty _ Hr) as HK.
    pose proof (j_fresh _ (P2_Order.k_J _ HK)) as Hfresh.
    destruct l as [chs sy se|ri|c n o|c t0|c|c t0|t0 p|t0|t0]; cbn [Proto2.step]; try (intros H; left; exact H).
    - cbn. destruct (decide (next_index w = i)) as [<-|Hne].
      + rewrite lookup_insert. intros [= <-]. right. left. rewrite Hfresh by lia. repeat split; reflexivity.
      + rewrite lookup_insert_ne by exact Hne. intros H. left. exact H.
    - cbn. destruct (decide (next_index w = i)) as [<-|Hne].
      + rewrite lookup_insert. intros [= <-]. right. left. rewrite Hfresh by lia. repeat split; reflexivity.
      + rewrite lookup_insert_ne by exact Hne. intros H. left. exact H.
    - intros H. apply tx_prefix in H. destruct H as [H|H]; [left; exact H|]. right. right.
      destruct c as [j|kk|t0|t0|c0]; cbn [Proto2.reconcile] in H.
      + apply (rec_tx_puttx _ _ _ _ Hr) in H. destruct H as (-> & T & HT & Hu). exists n, o, T. auto.
      + destruct (rec_prop_no_puttx _ _ _ _ _ H).
      + apply rec_cfg_kinds in H. destruct H.
      + apply rec_master_only_putcfg in H. destruct H.
      + apply rec_conn_only_rel in H. destruct H.
    - destruct (conns w !! c); intros H; left; exact H.
    - destruct (rels w !! c); intros H; left; exact H.
  Qed.

  Lemma tx_step_keep (w : world) l i : is_Some (txs w !! i) -> is_Some (txs (step w l) !! i).
  Proof.
    intros H. destruct l as [chs sy se|ri|c n o|c t0|c|c t0|t0 p|t0|t0]; cbn [Proto2.step]; try exact H.
    - cbn. destruct (decide (next_index w = i)) as [<-|Hne]; [rewrite lookup_insert; eexists; reflexivity|rewrite lookup_insert_ne by exact Hne; exact H].
    - cbn. destruct (decide (next_index w = i)) as [<-|Hne]; [rewrite lookup_insert; eexists; reflexivity|rewrite lookup_insert_ne by exact Hne; exact H].
    - apply tx_keep_prefix. exact H.
    - destruct (conns w !! c); exact H.
    - destruct (rels w !! c); exact H.
  Qed.

  Lemma next_index_step (w : world) l :
    next_index (step w l) = next_index w \/
    (next_index (step w l) = next_index w + 1 /\ is_Some (txs (step w l) !! next_index w)).
  Proof.
    destruct l as [chs sy se|ri|c n o|c t0|c|c t0|t0 p|t0|t0]; cbn [Proto2.step]; try (left; reflexivity).
    - right. cbn. rewrite lookup_insert. split; [reflexivity|eexists; reflexivity].
    - right. cbn. rewrite lookup_insert. split; [reflexivity|eexists; reflexivity].
    - left. apply next_index_prefix.
    - left. destruct (conns w !! c); reflexivity.
    - left. destruct (rels w !! c); reflexivity.
  Qed.

  Lemma past_stable (w : world) i (T T' : txn) : tx_upd w i T T' -> past_init T -> past_init T'.
  Proof.
    intros [[He|[[Hn _]|(Hd & Hp & _)]] _] Hp0; unfold past_init in *.
    - rewrite He. exact Hp0.
    - rewrite Hn in Hp0. destruct Hp0; discriminate.
    - exact Hp.
  Qed.

  (** * Transactions initialise in index order *)
  Record T_inv (w : world) : Prop := {
    ti_zero : txs w !! 0 = None;
    ti_next : 1 <= next_index w;
    ti_dense : forall j, 1 <= j -> j < next_index w -> is_Some (txs w !! j);
    ti_order : forall i T Pv, txs w !! i = Some T -> past_init T -> txs w !! (i - 1) = Some Pv -> past_init Pv;
    ti_created : forall t i (P : prop), props w !! (t, i) = Some P ->
                 exists T, txs w !! i = Some T /\ t_init T <> None /\ t_init T <> Some Failed /\
                           (forall Pv, txs w !! (i - 1) = Some Pv -> past_init Pv);
    ti_abort : forall i T, txs w !! i = Some T -> is_Some (t_abort T) -> past_init T }.

  Lemma T_inv_init : T_inv (@init V Ch Req D).
  Proof.
    split; cbn; try (intros; rewrite lookup_empty in *; discriminate); try reflexivity; try lia.
    all: intros; try lia; try (rewrite lookup_empty in *; discriminate).
  Qed.

  (* what a step does to the transaction with index i: it stays, or is updated by its own reconciler *)
  Lemma tx_post (w : world) l i T' :
    reach w -> txs (step w l) !! i = Some T' ->
    (txs w !! i = None /\ i = next_index w /\ t_init T' = None /\ t_abort T' = None) \/
    exists T, txs w !! i = Some T /\ (T' = T \/ tx_upd w i T T').
  Proof.
    intros Hr H. apply (tx_step _ _ _ _ Hr) in H. destruct H as [H|[(Hn & Hi & H1 & H2 & _)|(n & o & T & _ & HT & Hu)]].
    - right. exists T'. auto.
    - left. auto.
    - right. exists T. auto.
  Qed.

  Lemma T_inv_step (w : world) l : reach w -> T_inv w -> T_inv (step w l).
  Proof.
    intros Hr [Hz Hn Hd Ho Hc Ha].
    pose proof (P2_Order.K_reach candidate candidate_rb rollback_of overlay commit_merge payload record_applied touched restore
                  resync_payload doc_ok dev_apply stamp v_empty d_empty ch_empty _ Hr) as HK.
    pose proof (j_fresh _ (P2_Order.k_J _ HK)) as Hfresh.
    assert (Hpast : forall i T T', txs w !! i = Some T -> (T' = T \/ tx_upd w i T T') -> past_init T -> past_init T').
    { intros i T T' _ [->|Hu] Hp; [exact Hp|eapply past_stable; eassumption]. }
    split.
    - destruct (txs (step w l) !! 0) as [T'|] eqn:H; [|reflexivity]. exfalso.
      apply (tx_post _ _ _ _ Hr) in H. destruct H as [(_ & Hi & _)|(T & HT & _)]; [lia|congruence].
    - destruct (next_index_step w l) as [->|[-> _]]; lia.
    - intros j H1 H2. destruct (next_index_step w l) as [He|[He Hs]].
      + rewrite He in H2. apply tx_step_keep. apply Hd; assumption.
      + rewrite He in H2. destruct (decide (j = next_index w)) as [->|Hne]; [exact Hs|]. apply tx_step_keep. apply Hd; [assumption|lia].
    - intros i T' Pv' HT' Hp HPv'.
      apply (tx_post _ _ _ _ Hr) in HT'. destruct HT' as [(_ & _ & Hi & _)|(T & HT & Hu)].
      { unfold past_init in Hp. rewrite Hi in Hp. destruct Hp; discriminate. }
      assert (Hold : forall Pv, txs w !! (i - 1) = Some Pv -> past_init Pv).
      { destruct Hu as [->|[[He|[[_ Hdo]|(_ & _ & Hg & _)]] _]].
        - intros Pv HPv. eapply Ho; [exact HT|exact Hp|exact HPv].
        - intros Pv HPv. eapply Ho; [exact HT| |exact HPv]. unfold past_init in *. rewrite <- He. exact Hp.
        - unfold past_init in Hp. rewrite Hdo in Hp. destruct Hp; discriminate.
        - exact Hg. }
      apply (tx_post _ _ _ _ Hr) in HPv'. destruct HPv' as [(Hnone & Hi & _)|(Pv & HPv & Hu')].
      { assert (i = next_index w + 1) by lia. subst i. rewrite Hfresh in HT by lia. discriminate. }
      eapply Hpast; [exact HPv|exact Hu'|]. apply Hold. exact HPv.
    - intros t i P' HP'.
      assert (Hex : exists T, txs w !! i = Some T /\ t_init T <> None /\ t_init T <> Some Failed /\
                              (forall Pv, txs w !! (i - 1) = Some Pv -> past_init Pv) /\
                              (props w !! (t, i) = None -> exists n o, l = LRec (CtlTx i) n o /\
                                  In (ECreateProp (t, i) P') (fst (rec_tx w i)))).
      { apply prop_step in HP'. destruct HP' as [H|(ctl & n & o & -> & [H|[H Hnone]])].
        - destruct (Hc _ _ _ H) as (T & HT & H1 & H2 & H3). exists T. repeat split; auto. intros Hx. congruence.
        - apply reconcile_putprop in H. destruct H as (P & HP & _). destruct (Hc _ _ _ HP) as (T & HT & H1 & H2 & H3).
          exists T. repeat split; auto. intros Hx. congruence.
        - pose proof H as Hin. apply reconcile_createprop in H. cbn in H.
          destruct H as (T & -> & HT & _ & _ & _ & _ & Hi & _ & Hg & _). exists T. split; [exact HT|].
          split; [congruence|]. split; [congruence|]. split; [exact Hg|]. intros _. exists n, o. split; [reflexivity|exact Hin]. }
      destruct Hex as (T & HT & H1 & H2 & Hg & Hcr).
      destruct (tx_step_keep w l i) as [T' HT']; [rewrite HT; eexists; reflexivity|].
      exists T'. split; [exact HT'|].
      pose proof HT' as Hpost. apply (tx_step _ _ _ _ Hr) in Hpost.
      destruct Hpost as [Hsame|[(Hnone & _)|(n & o & T0 & Hl & HT0 & Hu)]]; [| congruence |].
      + rewrite HT in Hsame. injection Hsame as <-. split; [exact H1|]. split; [exact H2|].
        intros Pv' HPv'. apply (tx_post _ _ _ _ Hr) in HPv'. destruct HPv' as [(Hnone & Hi & _)|(Pv & HPv & Hu')].
        { assert (i = next_index w + 1) by lia. subst i. rewrite Hfresh in HT by lia. discriminate. }
        eapply Hpast; [exact HPv|exact Hu'|]. apply Hg. exact HPv.
      + rewrite HT in HT0. injection HT0 as <-.
        assert (Hinit : t_init T' <> None /\ t_init T' <> Some Failed).
        { destruct Hu as [[He|[[Hn0 _]|(_ & Hp & _ & Hf)]] _].
          - rewrite He. auto.
          - congruence.
          - split; [destruct Hp as [Hp|Hp]; rewrite Hp; discriminate|].
            intros Hfail. destruct (Hf Hfail) as [Hnp Hnc].
            destruct (Hcr (Hnp t)) as (n' & o' & _ & Hin). exact (Hnc _ _ Hin). }
        split; [exact (proj1 Hinit)|]. split; [exact (proj2 Hinit)|].
        intros Pv' HPv'. apply (tx_post _ _ _ _ Hr) in HPv'. destruct HPv' as [(Hnone & Hi & _)|(Pv & HPv & Hu')].
        { assert (i = next_index w + 1) by lia. subst i. rewrite Hfresh in HT by lia. discriminate. }
        eapply Hpast; [exact HPv|exact Hu'|]. apply Hg. exact HPv.
    - intros i T' HT' Hab. apply (tx_post _ _ _ _ Hr) in HT'. destruct HT' as [(_ & _ & _ & Hi)|(T & HT & [->|Hu])].
      + rewrite Hi in Hab. destruct Hab; discriminate.
      + eapply Ha; eassumption.
      + pose proof Hu as [_ [He|[Hp|Hs]]].
        * eapply past_stable; [exact Hu|]. eapply Ha; [exact HT|]. rewrite <- He. exact Hab.
        * exact Hp.
        * eapply past_stable; [exact Hu|]. eapply Ha; eassumption.
  Qed.

  Theorem T_inv_reach (w : world) : reach w -> T_inv w.
  Proof.
    apply (reach_ind candidate candidate_rb rollback_of overlay commit_merge payload record_applied touched restore
                     resync_payload doc_ok dev_apply stamp v_empty d_empty ch_empty T_inv).
    - exact T_inv_init.
    - intros w0 l Hr Hi. apply T_inv_step; assumption.
  Qed.
  (* every transaction older than one whose predecessor is past Initialize is itself past Initialize *)
  Lemma older_past (w : world) j : reach w -> is_Some (txs w !! j) ->
    (forall Pv, txs w !! (j - 1) = Some Pv -> past_init Pv) ->
    forall (d : nat) i, 1 <= i -> i + N.of_nat d + 1 = j -> exists T, txs w !! i = Some T /\ past_init T.
  Proof.
    intros Hr Hj Hg.
    pose proof (T_inv_reach _ Hr) as HT.
    pose proof (P2_Order.K_reach candidate candidate_rb rollback_of overlay commit_merge payload record_applied touched restore
                  resync_payload doc_ok dev_apply stamp v_empty d_empty ch_empty _ Hr) as HK.
    pose proof (j_fresh _ (P2_Order.k_J _ HK)) as Hfresh.
    assert (Hjn : j < next_index w).
    { destruct (N.lt_ge_cases j (next_index w)) as [H|H]; [exact H|]. rewrite (Hfresh _ H) in Hj. destruct Hj; discriminate. }
    induction d as [|d IH]; intros i Hi Hd.
    - assert (i = j - 1) by lia. subst i. destruct (ti_dense _ HT (j - 1)) as [Pv HPv]; [lia|lia|]. exists Pv. split; [exact HPv|]. apply Hg. exact HPv.
    - destruct (IH (i + 1)) as (T1 & HT1 & Hp1); [lia|lia|].
      destruct (ti_dense _ HT i) as [Pv HPv]; [lia|lia|]. exists Pv. split; [exact HPv|].
      eapply (ti_order _ HT (i + 1)); [exact HT1|exact Hp1|]. replace (i + 1 - 1) with i by lia. exact HPv.
  Qed.

  (* of two proposals of one target, the one with the smaller index is INITIALIZED: at most one proposal per target
     is linking itself into the chain, and it is the last one *)
  Theorem open_is_last (w : world) t i j (P Q : prop) :
    reach w -> props w !! (t, i) = Some P -> props w !! (t, j) = Some Q -> i < j -> p_init P = Some Done.
  Proof.
    intros Hr HP HQ Hlt.
    pose proof (T_inv_reach _ Hr) as HT.
    pose proof (P2_Order.K_reach candidate candidate_rb rollback_of overlay commit_merge payload record_applied touched restore
                  resync_payload doc_ok dev_apply stamp v_empty d_empty ch_empty _ Hr) as HK.
    destruct (ti_created _ HT _ _ _ HQ) as (Tj & HTj & _ & _ & Hg).
    destruct (ti_created _ HT _ _ _ HP) as (Ti & HTi & Hn & Hf & _).
    assert (Hi : 1 <= i).
    { destruct (N.eq_dec i 0) as [->|]; [|lia]. rewrite (ti_zero _ HT) in HTi. discriminate. }
    destruct (older_past w j Hr) with (d := N.to_nat (j - i - 1)) (i := i) as (Ti' & HTi' & Hp); [rewrite HTj; eexists; reflexivity|exact Hg|exact Hi|lia|].
    rewrite HTi in HTi'. injection HTi' as <-.
    assert (Hd : t_init Ti = Some Done) by (destruct Hp as [Hp|Hp]; [exact Hp|congruence]).
    pose proof (j_tx _ (P2_Order.k_J _ HK) _ _ HTi) as Hwf.
    destruct (t_props Ti) as [tg|] eqn:Htg.
    2:{ exfalso. revert Hwf. unfold tx_wf, wfb, imp, some, is_ph. rewrite Hd, Htg. cbn.
        destruct (t_validate Ti) as [[]|], (t_commit Ti) as [[]|], (t_apply Ti) as [[]|], (t_abort Ti) as [[]|]; cbn; discriminate. }
    destruct (P2_Order.k_exist _ HK _ _ _ HP) as (T0 & HT0 & Hin). rewrite HTi in HT0. injection HT0 as <-.
    destruct (P2_Order.k_tp _ HK _ _ _ HTi Htg) as [-> _].
    destruct (P2_Order.k_agree _ HK _ _ _ _ HTi Htg Hin) as (P0 & HP0 & Hag & _). rewrite HP in HP0. injection HP0 as <-.
    apply Hag. exact Hd.
  Qed.
End Link.

(* Witnesses for C18: a non-trivial well-formed set, and the inputs on which the faithful model of
   BuildTree splits one list entry in two (both observed on the real code, see corpus/c18.tsv). *)
From Coq Require Import List NArith ZArith Bool String.
From OC Require Import Base.Bytes Model.Tree Model.TreeSpec.
Import ListNotations.
Open Scope N_scope.

Definition sval (v : string) : tv := {| tv_type := 1; tv_bytes := B v; tv_opts := [] |}.
Definition live (p v : string) : pv := {| pv_path := B p; pv_del := false; pv_val := sval v |}.
Definition tomb (p : string) : pv := {| pv_path := B p; pv_del := true; pv_val := {| tv_type := 0; tv_bytes := []; tv_opts := [] |} |}.
Definition int8 (p : string) (n : N) : pv :=
  {| pv_path := B p; pv_del := false; pv_val := {| tv_type := 2; tv_bytes := [n]; tv_opts := [8%Z; 0%Z] |} |}.
Definition bytes (p v : string) : pv :=
  {| pv_path := B p; pv_del := false; pv_val := {| tv_type := 7; tv_bytes := B v; tv_opts := [2%Z] |} |}.

(* nested and multi-key lists, numeric keys 1/10 with an explicit numeric key leaf, sibling names sharing
   prefixes, a tombstone on a list entry and one on a leaf *)
Definition wf_example : list pv :=
  [ live "/a/l[k=10]/x" "1"; int8 "/a/l[k=10]/k" 10; live "/a/l[k=1]/x" "2"; live "/a/b" "3"; live "/a-b" "4";
    live "/ab/c" "5"; live "/m[a=1][b=2]/w" "w"; live "/m[a=1][b=3]/v/z[id=true]/q" "v"; tomb "/a/l[k=1]";
    live "/m[a=1][b=3]/v/z[id=false]/q" "u"; tomb "/ab/d"; live "/ab/d/e" "gone"; live "/lx[k=a/b]/y" "6" ].

Example wf_example_ok : wf_set true wf_example = true /\ wf_set false wf_example = true.
Proof. vm_compute. split; reflexivity. Qed.

(* entries of a list that answer to a key map in full (every key present and equal under convertBasicType) *)
Definition matches (K : list (str * str)) (e : node) : bool :=
  match e with
  | NMap em => forallb (fun kv => match mget (fst kv) em with Some x => eqb_str (conv x) (snd kv) | None => false end) K
  | _ => false
  end.

Definition count_matching (K : list (str * str)) (l : list node) : nat := List.length (filter (matches K) l).

(* keys written in two different orders: entry (a=1, b=2) appears twice *)
Definition noncanonical_witness : list pv :=
  [ live "/m[a=1][b=2]/w" "w"; live "/m[a=1][b=3]/v" "v"; live "/m[b=2][a=1]/v" "v2" ].

Lemma noncanonical_split :
  exists l, build_tree true noncanonical_witness = Ok (NMap [(B "m", NArr l)]) /\
            count_matching [(B "a", B "1"); (B "b", B "2")] l = 2%nat /\
            wf_set true noncanonical_witness = false.
Proof. eexists. vm_compute. repeat split; reflexivity. Qed.

(* an explicit key leaf whose JSON value is not a string, number or boolean (here: bytes): the entry is split *)
Definition nonbasic_key_witness : list pv := [ bytes "/l[k=QUI=]/k" "AB"; live "/l[k=QUI=]/z" "z" ].

Lemma nonbasic_key_split :
  exists l, build_tree true nonbasic_key_witness = Ok (NMap [(B "l", NArr l)]) /\
            List.length l = 2%nat /\ wf_set true nonbasic_key_witness = false.
Proof. eexists. vm_compute. repeat split; reflexivity. Qed.

(* mixed key names in one list: /l[a=1][b=2]/v is merged into the entry of /l[b=2] *)
Definition mixed_keys_witness : list pv := [ live "/l[a=1]/x" "x"; live "/l[b=2]/y" "y"; live "/l[a=1][b=2]/v" "v" ].

Lemma mixed_keys_merge :
  exists l, build_tree true mixed_keys_witness = Ok (NMap [(B "l", NArr l)]) /\
            List.length l = 2%nat /\ wf_set true mixed_keys_witness = false.
Proof. eexists. vm_compute. repeat split; reflexivity. Qed.

(* Proto3OrderCfgAC: the two Applied-cursor writes that complete an apply (change apply, rollback apply) preserve the
   frontier invariant and append an ORDERED event to the history. *)
From Coq Require Import List NArith Bool Arith Lia.
From OC Require Import Model.Proto3 Spec.Tla3 Proofs.Proto3Proofs Proofs.Proto3OrderBase.
Import ListNotations.
Open Scope N_scope.

Ltac prj := cbn [k_index k_ordinal k_revision k_target k_change] in *.
Ltac cfg_sinv HS g extra := sinv_by prj HS g extra.

(* applyChange IN_PROGRESS, accepted by the device: index, revision := i, ordinal := Change.Ordinal;
   event (change, apply, i, COMPLETE) *)
Lemma cfg_AC4 g n cm ap h i t :
  IA g n cm ap h -> g i = Some t ->
  cc t = 2 -> ca t = 1 -> ~ (k_ordinal ap = t_cord t /\ k_revision ap = i) ->
  IA g n cm {| k_index := i; k_ordinal := t_cord t; k_revision := i; k_target := k_target ap; k_change := k_change ap |}
     (h ++ [ev PhChange StApply i Complete]).
Proof.
  intros [HS HH] Hi G1 G2 G3. split;
    [cfg_sinv HS g ltac:(for_each_tx g ltac:(fun j t0 Hg => pf (later_applies_pending g n cm ap i t j t0 HS Hi G2 G3 Hg))) |].
  assert (L : k_ordinal ap + 1 = t_cord t) by (pose proof (a1 _ _ _ _ HS i t Hi G2); lia).
  destruct HH as [X1 X2 X3 X4]. constructor; prj.
  - intros e He Hb. apply in_app_or in He. destruct He as [He|He]; [eauto|].
    destruct He as [<-|[]]. discriminate Hb.
  - intros j u Hj Hc. apply in_or_app. left. eauto.
  - intros e He Hb. apply in_app_or in He. destruct He as [He|He].
    + destruct (X3 e He Hb) as [t0 [Ht0 [Hc Ho]]]. exists t0. split; [exact Ht0 | split; [exact Hc | lia]].
    + destruct He as [<-|[]]. exists t. cbn. split; [exact Hi | split; [exact G1 | lia]].
  - apply order_app_ca; [exact X4|]. intros x Hx Hb.
    destruct (X3 x Hx Hb) as [t0 [Ht0 [Hc Ho]]].
    destruct (N.lt_trichotomy (e_index x) i) as [Hlt | [Heq | Hgt]]; [exact Hlt | exfalso | exfalso].
    + rewrite Heq in Ht0. rewrite Hi in Ht0. inversion Ht0; subst t0. lia.
    + pose proof (o1b _ _ _ _ HS i t (e_index x) t0 Hi Ht0 G1 Hc Hgt). lia.
Qed.

(* applyRollback IN_PROGRESS, accepted by the device: index := i, ordinal := Rollback.Ordinal, revision := Rollback.Index;
   event (rollback, apply, i, COMPLETE) *)
Lemma cfg_AR4 g n cm ap h i t :
  IA g n cm ap h -> g i = Some t ->
  rc t = 2 -> ra t = 1 ->
  IA g n cm {| k_index := i; k_ordinal := t_rord t; k_revision := t_ridx t; k_target := k_target ap; k_change := k_change ap |}
     (h ++ [ev PhRollback StApply i Complete]).
Proof.
  intros [HS HH] Hi G1 G2. split;
    [cfg_sinv HS g ltac:(for_each_tx g ltac:(fun j t0 Hg => pf (no_change_apply_during_rollback_apply g n cm ap i t j t0 HS Hi G1 G2 Hg))) |].
  pose proof (b1 _ _ _ _ HS i t Hi G2) as B1.
  pose proof (s5 _ _ _ _ HS i t Hi) as S5. pose proof (s1 _ _ _ _ HS) as S1.
  destruct HH as [X1 X2 X3 X4]. constructor; prj.
  - intros e He Hb. apply in_app_or in He. destruct He as [He|He]; [eauto|].
    destruct He as [<-|[]]. discriminate Hb.
  - intros j u Hj Hc. apply in_or_app. left. eauto.
  - intros e He Hb. apply in_app_or in He. destruct He as [He|He].
    + destruct (X3 e He Hb) as [t0 [Ht0 [Hc Ho]]]. exists t0. split; [exact Ht0 | split; [exact Hc | lia]].
    + destruct He as [<-|[]]. discriminate Hb.
  - apply order_app_ra; [exact X4 | apply (X2 i t Hi); lia |].
    intros x Hx Hb. destruct (X3 x Hx Hb) as [t0 [Ht0 [Hc Ho]]].
    pose proof (s3a _ _ _ _ HS _ _ Ht0). pose proof (s3b _ _ _ _ HS _ _ Ht0).
    destruct (N.le_gt_cases (e_index x) i) as [Hle|Hgt]; [exact Hle|exfalso].
    destruct (N.eq_dec (e_index x) (k_change cm + 1)); lia.
Qed.

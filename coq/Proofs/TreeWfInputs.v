(* C18: wf_set from hypotheses on the INPUT.  wf_set is stated on the trie folded from the live paths; here every one of
   its conjuncts is derived from boolean conditions on the live paths themselves:
     normal_textb   (grammar)  every path text is "/" e1 "/" e2 ... with elements the tokenizer returns whole
     pfreeb         (schema)   no path's elements are a prefix of another's (no duplicates, no leaf above a leaf)
     grammarb       (grammar)  an element containing '=' parses into a list name and a non-empty key map with distinct names
     schema_keysb   (schema)   every use of a list (by schema path) carries the same key names, in the same order
     key_namesb     (schema)   a container or list inside a list entry is not named like one of the entry's keys
     key_leavesb    (values)   no leaf value makes handleLeafValue panic; an explicit key leaf says what the path says
     siblingsb      (schema)   two different elements under the same parent answer to the same member name only as two
                               entries of one list with different key maps (a name is not both a leaf/container and a list)
   The contiguity part comes from TreeContiguous*.v. *)
From Coq Require Import List Arith NArith Bool Lia Sorted Permutation.
From OC Require Import Base.Bytes Model.Tree Model.TreeSpec Proofs.TreeProofs Proofs.TreeBuildProofs Proofs.TreeFlattenProofs
     Proofs.TreeContiguous Proofs.TreeContiguousSets.
Import ListNotations.
Open Scope N_scope.

Definition is_nil {A} (l : list A) : bool := match l with [] => true | _ => false end.

(* ------------------------------------------------------------------ one path, walked the way wf_trie walks the trie *)
Definition leaf_check (rfc : bool) (K0 : list (str * str)) (e : str) (v : tv) : bool :=
  match leaf_of rfc v with
  | LPanic => false
  | LNone => true
  | LVal g => match kget e K0 with Some kv => eqb_str (conv_gov g) kv | None => true end
  end.

Fixpoint walk (rfc : bool) (ks : list str -> list str) (sp : list str) (K0 : list (str * str)) (elems : list str) (v : tv) : bool :=
  match elems with
  | [] => false
  | e :: rest =>
    match rest with
    | [] => leaf_check rfc K0 e v
    | _ :: _ =>
      match classify e with
      | EPlain => negb (mem e (map fst K0)) && walk rfc ks (sp ++ [e]) [] rest v
      | EKeyed n K =>
        negb (mem n (map fst K0)) && negb (is_nil K) && nodupb (map fst K) &&
        list_eqb (map fst K) (ks (sp ++ [n])) && walk rfc ks (sp ++ [n]) K rest v
      | EBad => false
      end
    end
  end.

(* the same, one concern at a time *)
Fixpoint grammar_walk (elems : list str) : bool :=
  match elems with
  | [] => false
  | e :: rest =>
    match rest with
    | [] => true
    | _ :: _ =>
      match classify e with
      | EPlain => grammar_walk rest
      | EKeyed n K => negb (is_nil K) && nodupb (map fst K) && grammar_walk rest
      | EBad => false
      end
    end
  end.

Fixpoint schema_keys_walk (ks : list str -> list str) (sp : list str) (elems : list str) : bool :=
  match elems with
  | [] => true
  | e :: rest =>
    match rest with
    | [] => true
    | _ :: _ =>
      match classify e with
      | EPlain => schema_keys_walk ks (sp ++ [e]) rest
      | EKeyed n K => list_eqb (map fst K) (ks (sp ++ [n])) && schema_keys_walk ks (sp ++ [n]) rest
      | EBad => true
      end
    end
  end.

Fixpoint key_names_walk (K0 : list (str * str)) (elems : list str) : bool :=
  match elems with
  | [] => true
  | e :: rest =>
    match rest with
    | [] => true
    | _ :: _ =>
      match classify e with
      | EPlain => negb (mem e (map fst K0)) && key_names_walk [] rest
      | EKeyed n K => negb (mem n (map fst K0)) && key_names_walk K rest
      | EBad => true
      end
    end
  end.

Fixpoint leaf_walk (rfc : bool) (K0 : list (str * str)) (elems : list str) (v : tv) : bool :=
  match elems with
  | [] => true
  | e :: rest =>
    match rest with
    | [] => leaf_check rfc K0 e v
    | _ :: _ =>
      match classify e with
      | EPlain => leaf_walk rfc [] rest v
      | EKeyed n K => leaf_walk rfc K rest v
      | EBad => true
      end
    end
  end.

Lemma walk_split rfc ks elems v : forall sp K0,
  grammar_walk elems = true -> schema_keys_walk ks sp elems = true -> key_names_walk K0 elems = true ->
  leaf_walk rfc K0 elems v = true -> walk rfc ks sp K0 elems v = true.
Proof.
  induction elems as [|e rest IH]; intros sp K0 G S N L; [discriminate|].
  destruct rest as [|e2 rest2]; [exact L|].
  cbn [walk grammar_walk schema_keys_walk key_names_walk leaf_walk] in *.
  destruct (classify e) as [|n K|]; [| |discriminate].
  - apply andb_true_iff in N. destruct N as [N1 N2]. rewrite N1. cbn [andb]. apply IH; assumption.
  - apply andb_true_iff in G. destruct G as [G12 G3]. apply andb_true_iff in G12. destruct G12 as [G1 G2].
    apply andb_true_iff in S. destruct S as [S1 S2]. apply andb_true_iff in N. destruct N as [N1 N2].
    rewrite N1, G1, G2, S1. cbn [andb]. apply IH; assumption.
Qed.

(* ------------------------------------------------------------------ two paths: where they part *)
Definition nm (e : str) (rest : list str) : str :=
  match rest with
  | [] => e
  | _ :: _ => match classify e with EKeyed n _ => n | _ => e end
  end.

Fixpoint sib (p q : list str) : bool :=
  match p, q with
  | e1 :: r1, e2 :: r2 =>
    if eqb_str e1 e2 then sib r1 r2
    else if eqb_str (nm e1 r1) (nm e2 r2) then
      match r1, r2 with
      | _ :: _, _ :: _ =>
        match classify e1, classify e2 with
        | EKeyed _ Ka, EKeyed _ Kb => negb (kv_eqb Ka Kb)
        | _, _ => false
        end
      | _, _ => false
      end
    else true
  | _, _ => true
  end.

Definition sibP (x y : list str * tv) : Prop := sib (fst x) (fst y) = true.

(* ------------------------------------------------------------------ the conditions on the live paths *)
Definition grammarb (lp : list (list str * tv)) : bool := forallb (fun p => grammar_walk (fst p)) lp.
Definition schema_keysb (lp : list (list str * tv)) : bool := forallb (fun p => schema_keys_walk (schema_of lp) [] (fst p)) lp.
Definition key_namesb (lp : list (list str * tv)) : bool := forallb (fun p => key_names_walk [] (fst p)) lp.
Definition key_leavesb (rfc : bool) (lp : list (list str * tv)) : bool := forallb (fun p => leaf_walk rfc [] (fst p) (snd p)) lp.
Definition siblingsb (lp : list (list str * tv)) : bool := pairwise (fun p q => sib (fst p) (fst q)) lp.

Definition inputs_okb (rfc : bool) (pvs : list pv) : bool :=
  forallb (fun x => normal_textb (pv_path x)) pvs &&
  (let lp := live_paths pvs in
   pfreeb lp && grammarb lp && schema_keysb lp && key_namesb lp && key_leavesb rfc lp && siblingsb lp).

(* ------------------------------------------------------------------ ordered pairs *)
Lemma pairwise_fop {A} (f : A -> A -> bool) l : pairwise f l = true -> ForallOrdPairs (fun x y => f x y = true) l.
Proof.
  induction l as [|x l IH]; intros H; [constructor|]. cbn [pairwise] in H. apply andb_true_iff in H. destruct H as [H1 H2].
  constructor; [apply Forall_forall; rewrite forallb_forall in H1; exact H1 | apply IH; exact H2].
Qed.

Lemma fop_app {A} (R : A -> A -> Prop) (a b : list A) : ForallOrdPairs R (a ++ b) ->
  ForallOrdPairs R a /\ ForallOrdPairs R b /\ (forall x y, In x a -> In y b -> R x y).
Proof.
  induction a as [|x a IH]; cbn [app]; intros H; [repeat split; [constructor | exact H | intros x y []]|].
  inversion H as [|? ? F H']; subst. destruct (IH H') as [A1 [A2 A3]]. rewrite Forall_forall in F. repeat split.
  - constructor; [apply Forall_forall; intros y Hy; apply F; apply in_or_app; left; exact Hy | exact A1].
  - exact A2.
  - intros x0 y [<-|Hx] Hy; [apply F; apply in_or_app; right; exact Hy | apply A3; assumption].
Qed.

Lemma fop_map {A C} (R : C -> C -> Prop) (S : A -> A -> Prop) (f : A -> C) l :
  (forall x y, R (f x) (f y) -> S x y) -> ForallOrdPairs R (map f l) -> ForallOrdPairs S l.
Proof.
  intros HRS. induction l as [|x l IH]; intros H; [constructor|]. cbn [map] in H. inversion H as [|? ? F H']; subst.
  constructor; [|apply IH; exact H']. rewrite Forall_forall in *. intros y Hy. apply HRS. apply F. apply in_map. exact Hy.
Qed.

(* ------------------------------------------------------------------ tries *)
Lemma dfs_app a b : dfs (TNode (a ++ b)) = dfs (TNode a) ++ dfs (TNode b).
Proof. cbn [dfs]. apply flat_map_app. Qed.

Lemma dfs_block cs1 e c cs2 :
  dfs (TNode (cs1 ++ (e, c) :: cs2)) = dfs (TNode cs1) ++ map (pre1 e) (dfs c) ++ dfs (TNode cs2).
Proof. rewrite dfs_app, dfs_cons. reflexivity. Qed.

Lemma leaf_or_node_paths c q : In q (dfs c) ->
  match c with TLeaf _ => fst q = [] | TNode _ => fst q <> [] end.
Proof.
  destruct c as [v|cs]; intros H.
  - cbn in H. destruct H as [<-|[]]. reflexivity.
  - apply (dfs_node_paths_nonempty cs q H).
Qed.

Lemma nm_child_name e c q : In q (dfs c) -> nm e (fst q) = child_name (e, c).
Proof.
  intros H. pose proof (leaf_or_node_paths c q H) as L. unfold nm, child_name. cbn [fst snd].
  destruct c as [v|cs]; [rewrite L; reflexivity|]. destruct (fst q); [congruence | reflexivity].
Qed.

(* two children with different elements whose paths satisfy sib are compatible *)
Lemma sib_compat e1 c1 e2 c2 q1 q2 : e1 <> e2 -> In q1 (dfs c1) -> In q2 (dfs c2) ->
  sib (e1 :: fst q1) (e2 :: fst q2) = true -> compat (e1, c1) (e2, c2) = true.
Proof.
  intros NE H1 H2 S. cbn [sib] in S. apply eqb_str_neq in NE. rewrite NE in S.
  rewrite (nm_child_name e1 c1 q1 H1), (nm_child_name e2 c2 q2 H2) in S. unfold compat.
  destruct (eqb_str (child_name (e1, c1)) (child_name (e2, c2))); [|reflexivity].
  pose proof (leaf_or_node_paths c1 q1 H1) as L1. pose proof (leaf_or_node_paths c2 q2 H2) as L2. cbn [fst snd].
  destruct c1 as [v1|cs1]; [rewrite L1 in S; discriminate|].
  destruct (fst q1) as [|x1 r1]; [congruence|].
  destruct c2 as [v2|cs2]; [rewrite L2 in S; discriminate|].
  destruct (fst q2) as [|x2 r2]; [congruence|]. exact S.
Qed.

Lemma children_compat cs : Forall (fun et => good (snd et)) cs -> NoDup (map fst cs) ->
  ForallOrdPairs sibP (dfs (TNode cs)) -> pairwise compat cs = true.
Proof.
  induction cs as [|[e c] cs IH]; intros G ND F; [reflexivity|].
  inversion G as [|? ? Gc G']; subst. cbn [map fst] in ND. inversion ND as [|? ? Hn ND']; subst. cbn [snd] in Gc.
  rewrite dfs_cons in F. destruct (fop_app _ _ _ F) as [_ [F2 F3]].
  cbn [pairwise]. apply andb_true_iff. split; [|apply IH; assumption].
  apply forallb_forall. intros [e2 c2] H2.
  assert (G2 : good c2) by (rewrite Forall_forall in G'; apply (G' (e2, c2) H2)).
  destruct (dfs c) as [|q1 l1] eqn:D1; [exfalso; apply (good_dfs_nonempty c Gc D1)|].
  destruct (dfs c2) as [|q2 l2] eqn:D2; [exfalso; apply (good_dfs_nonempty c2 G2 D2)|].
  apply (sib_compat e c e2 c2 q1 q2).
  - intros ->. apply Hn. apply (in_map fst) in H2. exact H2.
  - rewrite D1. left. reflexivity.
  - rewrite D2. left. reflexivity.
  - apply (F3 (pre1 e q1) (pre1 e2 q2)); [left; reflexivity|].
    apply in_split in H2. destruct H2 as [a [b ->]]. rewrite dfs_block, D2. apply in_or_app. right. left. reflexivity.
Qed.

(* ------------------------------------------------------------------ the trie is well formed when its paths are *)
Theorem wf_from_paths rfc ks t : good t -> forall cs, t = TNode cs -> forall sp K0,
  (forall p, In p (dfs t) -> walk rfc ks sp K0 (fst p) (snd p) = true) ->
  ForallOrdPairs sibP (dfs t) -> wf_trie rfc ks sp K0 t = true.
Proof.
  induction t as [v|cs0 IH] using trie_ind2; intros G cs E sp K0 W F; [discriminate|]. clear cs E.
  apply good_node in G. destruct G as [NE [ND GC]].
  cbn [wf_trie]. apply andb_true_iff. split; [apply andb_true_iff; split|].
  - destruct cs0; [congruence | reflexivity].
  - apply children_compat; assumption.
  - apply forallb_forall. intros [e c] Hin. cbn [fst snd].
    pose proof Hin as Hs. apply in_split in Hs. destruct Hs as [c1 [c2 Ecs]].
    assert (Gc : good c) by (rewrite Forall_forall in GC; apply (GC (e, c) Hin)).
    assert (Wc : forall q, In q (dfs c) -> walk rfc ks sp K0 (e :: fst q) (snd q) = true).
    { intros q Hq. apply (W (pre1 e q)). rewrite Ecs, dfs_block. apply in_or_app. right. apply in_or_app. left.
      apply in_map. exact Hq. }
    destruct c as [v|cs2].
    + specialize (Wc ([], v) (or_introl eq_refl)). exact Wc.
    + assert (Fc : ForallOrdPairs sibP (dfs (TNode cs2))).
      { rewrite Ecs, dfs_block in F. destruct (fop_app _ _ _ F) as [_ [F2 _]]. destruct (fop_app _ _ _ F2) as [F3 _].
        apply (fop_map sibP sibP (pre1 e)); [|exact F3].
        intros x y. unfold sibP, pre1. cbn [fst sib]. rewrite eqb_str_refl. auto. }
      assert (IHc : forall sp' K', (forall q, In q (dfs (TNode cs2)) -> walk rfc ks sp' K' (fst q) (snd q) = true) ->
                                   wf_trie rfc ks sp' K' (TNode cs2) = true).
      { intros sp' K' Wq. rewrite Forall_forall in IH. apply (IH (e, TNode cs2) Hin Gc cs2 eq_refl sp' K' Wq Fc). }
      destruct (dfs (TNode cs2)) as [|q0 l0] eqn:D; [exfalso; apply (good_dfs_nonempty _ Gc D)|].
      assert (NQ : forall q, In q (q0 :: l0) -> fst q <> []).
      { intros q Hq. rewrite <- D in Hq. apply (dfs_node_paths_nonempty cs2 q Hq). }
      pose proof (Wc q0 (or_introl eq_refl)) as W0.
      destruct (fst q0) as [|x0 r0] eqn:E0; [exfalso; apply (NQ q0 (or_introl eq_refl) E0)|].
      cbn [walk] in W0. destruct (classify e) as [|n K|] eqn:CL; [| |discriminate].
      * apply andb_true_iff in W0. destruct W0 as [W1 _]. rewrite W1. cbn [andb]. apply IHc.
        intros q Hq. specialize (Wc q Hq). destruct (fst q) as [|x r] eqn:Eq; [exfalso; apply (NQ q Hq Eq)|].
        cbn [walk] in Wc. rewrite CL in Wc. apply andb_true_iff in Wc. apply Wc.
      * rewrite !andb_true_iff in W0. destruct W0 as [[[[W1 W2] W3] W4] _].
        unfold is_nil in W2. rewrite W1, W3, W4. destruct K as [|kv K']; [discriminate|]. cbn [andb negb]. apply IHc.
        intros q Hq. specialize (Wc q Hq). destruct (fst q) as [|x r] eqn:Eq; [exfalso; apply (NQ q Hq Eq)|].
        cbn [walk] in Wc. rewrite CL in Wc. rewrite !andb_true_iff in Wc. apply Wc.
Qed.

(* ------------------------------------------------------------------ re-splitting the rest of a normal path *)
Lemma join_ptext rest : rest <> [] -> c_slash :: join [c_slash] rest = ptext rest.
Proof.
  induction rest as [|x rest IH]; intros NE; [congruence|]. destruct rest as [|y rest].
  - cbn. rewrite app_nil_r. reflexivity.
  - rewrite ptext_cons. rewrite <- IH by discriminate. reflexivity.
Qed.

Lemma normalb_of_elems es : Forall elem_ok es -> normalb es = true.
Proof.
  induction es as [|e rest IH]; intros F; [reflexivity|]. inversion F as [|? ? Fe Fr]; subst.
  cbn [normalb]. rewrite (IH Fr), andb_true_r. apply andb_true_iff. split.
  - apply negb_true_iff. apply eqb_str_neq. unfold elem_ok, elem_okb in Fe. destruct e; [discriminate | discriminate].
  - destruct rest as [|y rest]; [reflexivity|]. unfold resplit. rewrite join_ptext by discriminate.
    rewrite split_ptext; [apply list_eqb_refl | discriminate | exact Fr].
Qed.

(* ------------------------------------------------------------------ wf_set from the inputs *)
Theorem wf_set_from_inputs rfc pvs : inputs_okb rfc pvs = true -> wf_set rfc pvs = true.
Proof.
  unfold inputs_okb. rewrite !andb_true_iff. intros [NT [[[[[PF GR] SK] KN] KL] SB]].
  rewrite forallb_forall in NT.
  destruct (sorted_live_paths pvs NT (pfreeb_ok _ PF)) as [cs [ND [GC [DF [TO PE]]]]].
  unfold wf_set. destruct (live_paths pvs) as [|p0 lp0] eqn:Elp; [reflexivity|]. rewrite <- Elp in *.
  assert (NEcs : cs <> []) by (intros ->; cbn in DF; rewrite Elp in DF; discriminate).
  assert (Gt : good (TNode cs)) by (apply good_node; auto).
  apply andb_true_iff. split; [apply andb_true_iff; split|].
  - apply forallb_forall. intros p Hp. apply normalb_of_elems.
    assert (IN : forall x, In x (prune false pvs) -> In x pvs).
    { assert (NEp : forall x, In x pvs -> pv_path x <> []).
      { intros x Hx E. specialize (NT x Hx). rewrite E in NT. vm_compute in NT. discriminate. }
      destruct (prune_exact false pvs NEp) as [HP _]. intros x Hx. eapply Permutation_in in Hx; [|exact HP].
      apply filter_In in Hx. apply Hx. }
    unfold live_paths in Hp. apply in_map_iff in Hp. destruct Hp as [x [<- Hx]]. cbn [fst].
    apply (normal_text_parts _ (NT x (IN x Hx))).
  - exact PE.
  - rewrite TO. apply (wf_from_paths rfc (schema_of (live_paths pvs)) (TNode cs) Gt cs eq_refl [] []).
    + rewrite DF. intros p Hp. unfold grammarb, schema_keysb, key_namesb, key_leavesb in *.
      rewrite forallb_forall in GR, SK, KN, KL. apply walk_split; auto.
    + rewrite DF. apply pairwise_fop in SB. exact SB.
Qed.

(* the two main theorems over the input-level hypotheses *)
Corollary build_render_from_inputs rfc pvs : inputs_okb rfc pvs = true ->
  build_tree rfc pvs = Ok (render rfc (trie_of (live_paths pvs))).
Proof. intros H. apply build_tree_render, wf_set_from_inputs, H. Qed.

Corollary flatten_build_from_inputs rfc pvs : inputs_okb rfc pvs = true ->
  exists t, build_tree rfc pvs = Ok t /\
            Permutation (flatten (schema_of (live_paths pvs)) [] t)
                        (explicit_leaves rfc (live_paths pvs) ++ key_leaves rfc (trie_of (live_paths pvs)) []).
Proof. intros H. apply flatten_build, wf_set_from_inputs, H. Qed.

(* C04, the run theorem of the instance from the INITIAL world: no start condition left.
   Along any run from init made of well-formed labels (labels_wfb) and complete reconcile invocations, in which the device
   of [t] is never restarted and [t] is never declared persistent, whenever the configuration of [t] is reported
   SYNCHRONIZED in its current term the device holds exactly the live leaves of the applied values.
   (Before the configuration of [t] exists nothing is sent to its device; when it is created everything is empty.) *)
From stdpp Require Import gmap.
From RecordUpdate Require Import RecordUpdate.
From Coq Require Import NArith Lia.
From OC Require Import Base.Bytes Model.P2Pure Model.Proto2 Model.P2Inst Proofs.P2Base Proofs.P2Phases Proofs.P2_Cursor Proofs.P2_Converge
     Proofs.P2_ConvergeEx.
From OC Require Import Proofs.P2PureApplyDefs Proofs.P2PureApplyBase Proofs.P2PureApplySem Proofs.P2PureApplySound
     Proofs.P2PureApplyStatus Proofs.P2PureApplyInst Proofs.P2PureReachPure Proofs.P2PureReachInv Proofs.P2PureReachEff
     Proofs.P2PureReachDyn Proofs.P2PureReachRun Proofs.P2PureReachLabels.
Open Scope N_scope.

Notation i_allowed := (allowed candidate candidate_rb rollback_of overlay commit_merge payload record_applied touched restore
                               resync_payload doc_ok dev_apply stamp nil nil nil abs_dev_i abs_app_i).
Notation i_ok_reqs := (@ok_reqs cmap cmap req).

Section FromInit.
  Context (Lf : N -> str -> Prop) (Lf_free : forall t p q, Lf t p -> Lf t q -> ~ Below p q) (t : N).

  (* the configuration of [t] does not exist yet and its device is empty, or the start condition of the run theorem holds *)
  Definition pre (w : Wd) : Prop :=
    Inv Lf w /\ i_reach w /\ targets w !! t <> Some true /\
    ((cfgs w !! t = None /\ i_dstate_of w t = []) \/ i_conv w t).

  Lemma pre_init : pre p2_init.
  Proof.
    split; [apply inv_init|]. split; [exists []; reflexivity|]. split; [cbn; rewrite lookup_empty; discriminate|].
    left. split; [cbn; apply lookup_empty|]. reflexivity.
  Qed.

  Lemma conv_of_empty (w : Wd) (C0 : Cfg) :
    cfgs w !! t = Some C0 -> empty4 C0 -> targets w !! t <> Some true -> i_dstate_of w t = [] -> i_conv w t.
  Proof.
    intros HC (E1 & E2 & E3 & E4) HT Hd.
    assert (Ha : abs_app_i (aview overlay C0) = abs_dev_i []) by (unfold Proto2.aview; rewrite E2, E4; reflexivity).
    exists C0. split; [exact HC|]. split; [exact HT|]. split; [intros _; exact Ha|]. left. exists C0. split; [exact HC|].
    rewrite Hd, Ha. reflexivity.
  Qed.

  Lemma pre_step (w : Wd) (l : Label) :
    pre w -> label_ok Lf l -> i_complete w l -> l <> LDevRestart t -> l <> LTarget t true -> pre (p2_step w l).
  Proof.
    intros (HI & Hr & HT & Hmode) Hl Hc Hnr Hnp.
    assert (HI' : Inv Lf (p2_step w l)) by (apply inv_step; assumption).
    assert (Hr' : i_reach (p2_step w l)).
    { apply (reach_step candidate candidate_rb rollback_of overlay commit_merge payload record_applied touched restore
               resync_payload doc_ok dev_apply stamp nil nil nil). exact Hr. }
    assert (HT' : targets (p2_step w l) !! t <> Some true).
    { unfold p2_step. destruct l as [chs sy se|ri|c k o|c t0|c|c t0|t0 p|t0|t0]; cbn [Proto2.step]; try exact HT.
      - rewrite (targets_fold dev_apply nil). exact HT.
      - destruct (conns w !! c); exact HT.
      - destruct (rels w !! c); exact HT.
      - cbn. destruct (decide (t0 = t)) as [->|Hne]; [|rewrite lookup_insert_ne by exact Hne; exact HT].
        rewrite fin_maps.lookup_insert. intros [= ->]. apply Hnp. reflexivity.
      - cbn. destruct (decide (t0 = t)) as [->|Hne]; [rewrite lookup_delete; discriminate|rewrite lookup_delete_ne by exact Hne; exact HT]. }
    split; [exact HI'|]. split; [exact Hr'|]. split; [exact HT'|].
    destruct Hmode as [[Hn Hd]|Hcv].
    - (* the configuration does not exist yet *)
      assert (Hd' : i_dstate_of (p2_step w l) t = []).
      { unfold p2_step. destruct l as [chs sy se|ri|c k o|c t0|c|c t0|t0 p|t0|t0]; try (cbn [Proto2.step]; exact Hd).
        - rewrite (device_state_after_invocation candidate candidate_rb rollback_of overlay commit_merge payload record_applied touched
                     restore resync_payload doc_ok dev_apply stamp nil nil nil).
          assert (Hq : i_ok_reqs t (fst (p2_reconcile o w c)) = []).
          { destruct (i_ok_reqs t (fst (p2_reconcile o w c))) as [|r0 rest] eqn:E; [reflexivity|]. exfalso.
            assert (Hne : i_ok_reqs t (fst (p2_reconcile o w c)) <> []) by (rewrite E; discriminate).
            destruct (not_quiet_cases candidate candidate_rb rollback_of overlay commit_merge payload record_applied touched restore
                        resync_payload doc_ok stamp nil nil nil o w c t Hne) as [(i & m & term & r & _ & Hs)|(m & term & r & _ & Hs)].
            - destruct Hs as (C & P & HC & _). assert (Hx : Some C = None) by (rewrite <- HC; exact Hn). discriminate Hx.
            - destruct Hs as (C & HC & _). assert (Hx : Some C = None) by (rewrite <- HC; exact Hn). discriminate Hx. }
          pose proof (ok_reqs_firstn_nil t _ k Hq) as Hq'.
          match goal with |- fold_left _ ?l _ = _ => replace l with (@nil req) by (symmetry; exact Hq') end. exact Hd.
        - cbn [Proto2.step]. destruct (conns w !! c); exact Hd.
        - cbn [Proto2.step]. destruct (rels w !! c); exact Hd.
        - cbn [Proto2.step]. unfold dstate_of, Proto2.dev_of in *. cbn. rewrite lookup_insert_ne; [exact Hd|]. intros ->. apply Hnr. reflexivity. }
      assert (Hcases : cfgs (p2_step w l) !! t = None \/ exists C0 : Cfg, cfgs (p2_step w l) !! t = Some C0 /\ empty4 C0).
      { unfold p2_step. destruct l as [chs sy se|ri|c k o|c t0|c|c t0|t0 p|t0|t0]; cbn [Proto2.step]; try (left; exact Hn).
        - cbn [complete] in Hc. rewrite firstn_all2 by exact Hc.
          apply (fold_nocfg t (fst (p2_reconcile o w c)) w (or_introl Hn)). apply (reconcile_nocfg Lf o w c t Hn).
          apply (reconcile_ok Lf Lf_free); apply HI.
        - destruct (conns w !! c); left; exact Hn.
        - destruct (rels w !! c); left; exact Hn. }
      destruct Hcases as [Hn'|(C0 & HC0 & He)]; [left; auto|]. right. apply (conv_of_empty _ C0); assumption.
    - right.
      apply (conv_step candidate candidate_rb rollback_of overlay commit_merge payload record_applied touched restore
               resync_payload doc_ok dev_apply stamp nil nil nil abs_dev_i abs_app_i w l t Hr Hcv).
      split; [exact Hc|]. split; [exact Hnr|]. split; [exact Hnp|]. apply pure_ok_inst. apply (inv_wf_step Lf). exact HI.
  Qed.

  Lemma pre_run (ls : list Label) : forall w, pre w -> run_good Lf w ls -> quiet_env t ls -> pre (fold_left p2_step ls w).
  Proof.
    induction ls as [|l ls IH]; intros w Hp Hg Hq; [exact Hp|]. destruct Hg as (H1 & H2 & H3). inversion Hq as [|? ? [Q1 Q2] Qr]; subst.
    cbn [fold_left]. apply IH; [apply pre_step; assumption|exact H3|exact Qr].
  Qed.

  Theorem converged_from_init_Lf (ls : list Label) (C' : Cfg) :
    run_good Lf p2_init ls -> quiet_env t ls ->
    cfgs (x_run ls) !! t = Some C' -> c_state C' = CSynchronized -> c_aterm C' = c_term C' -> i_agrees (x_run ls) t.
  Proof.
    intros Hg Hq HC' Hst Hat. destruct (pre_run ls p2_init pre_init Hg Hq) as (_ & _ & _ & [[Hn _]|Hcv]).
    - unfold x_run in HC'. assert (Hx : Some C' = None) by (rewrite <- HC'; exact Hn). discriminate Hx.
    - destruct Hcv as (C & HC & _ & _ & [Hag|(_ & Hu)]); [exact Hag|].
      unfold x_run in HC'. assert (Hx : Some C' = Some C) by (rewrite <- HC'; exact HC). injection Hx as ->.
      destruct Hu as [Hlt|Hs]; [lia|congruence].
  Qed.
End FromInit.

Theorem converged_from_init (ls : list Label) t (C' : Cfg) :
  labels_wfb ls = true -> completes p2_init ls -> quiet_env t ls ->
  cfgs (x_run ls) !! t = Some C' -> c_state C' = CSynchronized -> c_aterm C' = c_term C' -> i_agrees (x_run ls) t.
Proof.
  intros Hw Hc. apply (converged_from_init_Lf (Lf_of ls) (Lf_of_free ls Hw)). apply run_good_labels; assumption.
Qed.

(* Proofs about the pruning half of Model/Tree.v (PrunePathValues, isBelowDeletedPath, utils.IsPathBelow). *)
From Coq Require Import List Arith NArith Bool Lia Permutation Sorted.
From OC Require Import Base.Bytes Model.Tree.
Import ListNotations.
Open Scope N_scope.

(* ------------------------------------------------------------------ order *)

Lemma ltb_str_tricho a b : ltb_str a b = true \/ a = b \/ ltb_str b a = true.
Proof.
  destruct (ltb_str a b) eqn:E1; [left; reflexivity|].
  destruct (ltb_str b a) eqn:E2; [right; right; reflexivity|].
  right; left. apply ltb_str_total; assumption.
Qed.

Lemma leb_str_trans a b c : leb_str a b = true -> leb_str b c = true -> leb_str a c = true.
Proof.
  unfold leb_str. rewrite !negb_true_iff. intros Hba Hcb.
  destruct (ltb_str c a) eqn:Hca; [|reflexivity].
  destruct (ltb_str_tricho a b) as [Hab | [Heq | Hba']].
  - rewrite (ltb_str_trans _ _ _ Hca Hab) in Hcb. discriminate.
  - subst b. congruence.
  - congruence.
Qed.

Definition pv_le (a b : pv) : Prop := pv_leb a b = true.

Lemma pv_le_trans a b c : pv_le a b -> pv_le b c -> pv_le a c.
Proof. unfold pv_le, pv_leb. apply leb_str_trans. Qed.

Lemma pv_le_total a b : pv_le a b \/ pv_le b a.
Proof. unfold pv_le, pv_leb. apply leb_str_total. Qed.

Lemma insert_sorted_forall {A} (P : A -> Prop) leb (x : A) l :
  P x -> Forall P l -> Forall P (insert_sorted leb x l).
Proof.
  intros Hx Hl. induction Hl as [|y l Hy Hl IH]; cbn.
  - constructor; [exact Hx | constructor].
  - destruct (leb x y); constructor; auto.
Qed.

Lemma insert_sorted_ssorted x l :
  StronglySorted pv_le l -> StronglySorted pv_le (insert_sorted pv_leb x l).
Proof.
  induction l as [|y l IH]; intros Hs; cbn.
  - constructor; [constructor | constructor].
  - inversion Hs as [|? ? Hs' Hall]; subst.
    destruct (pv_leb x y) eqn:E.
    + constructor; [exact Hs|].
      constructor; [exact E|].
      eapply Forall_impl; [|exact Hall]. intros z Hz. eapply pv_le_trans; [exact E | exact Hz].
    + constructor; [apply IH; exact Hs'|].
      apply insert_sorted_forall; [|exact Hall].
      destruct (pv_le_total x y) as [H|H]; [unfold pv_le in H; congruence | exact H].
Qed.

Lemma isort_ssorted l : StronglySorted pv_le (isort pv_leb l).
Proof.
  induction l as [|x l IH]; cbn; [constructor|]. apply insert_sorted_ssorted. exact IH.
Qed.

Lemma filter_ssorted {A} (R : A -> A -> Prop) f l : StronglySorted R l -> StronglySorted R (filter f l).
Proof.
  induction 1 as [|x l Hs IH Hall]; cbn; [constructor|].
  destruct (f x); [|exact IH].
  constructor; [exact IH|].
  apply Forall_forall. intros y Hy. apply filter_In in Hy. destruct Hy as [Hy _].
  eapply Forall_forall in Hall; eauto.
Qed.

Lemma perm_filter {A} (f : A -> bool) l l' : Permutation l l' -> Permutation (filter f l) (filter f l').
Proof.
  induction 1 as [| x l l' HP IH | x y l | l l' l'' HP1 IH1 HP2 IH2]; cbn.
  - constructor.
  - destruct (f x); [constructor|]; exact IH.
  - destruct (f x), (f y); try reflexivity. apply perm_swap.
  - etransitivity; eauto.
Qed.

Lemma existsb_perm {A} (f : A -> bool) l l' : Permutation l l' -> existsb f l = existsb f l'.
Proof.
  intros HP. destruct (existsb f l) eqn:E1; symmetry.
  - apply existsb_exists in E1. destruct E1 as [x [Hx Hf]]. apply existsb_exists. exists x. split; [|exact Hf].
    eapply Permutation_in; eauto.
  - destruct (existsb f l') eqn:E2; [|reflexivity].
    apply existsb_exists in E2. destruct E2 as [x [Hx Hf]].
    assert (existsb f l = true); [|congruence].
    apply existsb_exists. exists x. split; [|exact Hf]. eapply Permutation_in; [symmetry|]; eauto.
Qed.

(* ------------------------------------------------------------------ IsPathBelow *)

Lemma mem_In x l : mem x l = true <-> In x l.
Proof.
  unfold mem. rewrite existsb_exists. split.
  - intros [y [Hy E]]. apply eqb_str_eq in E. subst. exact Hy.
  - intros H. exists x. split; [exact H | apply eqb_str_refl].
Qed.

Lemma nth_error_app_len {A} (a r : list A) : nth_error (a ++ r) (List.length a) = hd_error r.
Proof. induction a as [|x a IH]; cbn; [destruct r; reflexivity | exact IH]. Qed.

(* a non-root ancestor: strictly longer, same text up to the ancestor's end, then '/' or '[' *)
Lemma is_path_below_spec p a :
  is_root a = false ->
  (is_path_below p a = true <-> exists c r, p = a ++ c :: r /\ boundary c = true).
Proof.
  intros Hr. unfold is_path_below. rewrite Hr. split.
  - rewrite !andb_true_iff. intros [[Hlen Hpre] Hb].
    apply prefixb_spec in Hpre. destruct Hpre as [r ->].
    rewrite nth_error_app_len in Hb. destruct r as [|c r]; [discriminate|]. cbn in Hb.
    exists c, r. split; [reflexivity | exact Hb].
  - intros [c [r [-> Hb]]]. rewrite !andb_true_iff. repeat split.
    + apply Nat.ltb_lt. rewrite app_length. cbn. lia.
    + apply prefixb_app.
    + rewrite nth_error_app_len. cbn. exact Hb.
Qed.

(* everything except the root itself lies below the root *)
Lemma is_path_below_root p a :
  is_root a = true -> p <> [] -> is_path_below p a = negb (eqb_str p [c_slash]).
Proof.
  intros Hr Hp. unfold is_path_below. rewrite Hr.
  unfold is_root in *. apply orb_true_iff in Hr.
  destruct p as [|x p]; [contradiction|].
  change (eqb_str (x :: p) []) with false.
  destruct Hr as [Hr|Hr]; apply eqb_str_eq in Hr; subst a.
  - change (eqb_str (x :: p) []) with false. cbn [negb andb orb]. reflexivity.
  - cbn [orb]. destruct (eqb_str (x :: p) [c_slash]); reflexivity.
Qed.

(* ------------------------------------------------------------------ isBelowDeletedPath *)

Lemma below_scan_spec dels rest : forall pre,
  below_scan dels pre rest = true <->
  exists s c r, rest = s ++ c :: r /\ boundary c = true /\ In (pre ++ s) dels.
Proof.
  induction rest as [|x rest IH]; intros pre; cbn.
  - split; [discriminate|]. intros [s [c [r [H _]]]]. destruct s; discriminate.
  - rewrite orb_true_iff, andb_true_iff, mem_In, IH. split.
    + intros [[Hb Hm] | [s [c [r [-> [Hb Hi]]]]]].
      * exists [], x, rest. rewrite app_nil_r. auto.
      * exists (x :: s), c, r. rewrite <- app_assoc in Hi. cbn in Hi. auto.
    + intros [s [c [r [He [Hb Hi]]]]]. destruct s as [|y s].
      * cbn in He. injection He as -> ->. rewrite app_nil_r in Hi. left. auto.
      * cbn in He. injection He as -> ->. right. exists s, c, r. rewrite <- app_assoc. cbn. auto.
Qed.

(* tree.go's own loop agrees with utils.IsPathBelow on every path except the empty one *)
Lemma below_deleted_spec p dels :
  p <> [] ->
  (below_deleted p dels = true <-> exists d, In d dels /\ is_path_below p d = true).
Proof.
  intros Hp. unfold below_deleted.
  destruct dels as [|d0 dels0] eqn:Ed.
  { split; [discriminate | intros [d [[] _]]]. }
  rewrite <- Ed. clear Ed d0 dels0.
  destruct p as [|x p]; [contradiction|].
  rewrite orb_true_iff, andb_true_iff, orb_true_iff, !mem_In, below_scan_spec, negb_true_iff.
  split.
  - intros [[Hne [Hin|Hin]] | [s [c [r [-> [Hb Hi]]]]]].
    + exists [c_slash]. split; [exact Hin|]. rewrite is_path_below_root; [rewrite Hne; reflexivity | reflexivity | discriminate].
    + exists []. split; [exact Hin|]. rewrite is_path_below_root; [rewrite Hne; reflexivity | reflexivity | discriminate].
    + exists ([x] ++ s). split; [exact Hi|].
      destruct (is_root ([x] ++ s)) eqn:Hr.
      * rewrite is_path_below_root; [|exact Hr|discriminate].
        apply negb_true_iff. apply eqb_str_neq. cbn. destruct s; discriminate.
      * apply is_path_below_spec; [exact Hr|]. exists c, r. split; [|exact Hb]. cbn. reflexivity.
  - intros [d [Hin Hb]]. destruct (is_root d) eqn:Hr.
    + rewrite is_path_below_root in Hb; [|exact Hr|discriminate]. apply negb_true_iff in Hb.
      left. split; [exact Hb|]. unfold is_root in Hr. apply orb_true_iff in Hr.
      destruct Hr as [Hr|Hr]; apply eqb_str_eq in Hr; subst d; auto.
    + apply is_path_below_spec in Hb; [|exact Hr]. destruct Hb as [c [r [He Hb]]].
      destruct d as [|y d]; [discriminate Hr|]. cbn in He. injection He as -> ->.
      right. exists d, c, r. auto.
Qed.

Lemma below_deleted_existsb p dels :
  p <> [] -> below_deleted p dels = existsb (is_path_below p) dels.
Proof.
  intros Hp. destruct (below_deleted p dels) eqn:E; symmetry.
  - apply below_deleted_spec in E; [|exact Hp]. apply existsb_exists. exact E.
  - destruct (existsb (is_path_below p) dels) eqn:E2; [|reflexivity].
    apply existsb_exists in E2. apply below_deleted_spec in E2; [congruence | exact Hp].
Qed.

(* the one path on which the two differ: the empty path counts as lying below a deleted root *)
Example below_deleted_empty_path :
  below_deleted [] [[c_slash]] = true /\ is_path_below [] [c_slash] = false.
Proof. split; reflexivity. Qed.

(* ------------------------------------------------------------------ PrunePathValues *)

(* the specification: x survives iff no tombstone of the input lies strictly above it at an element
   boundary and it is not itself a tombstone (unless top tombstones are to be left behind) *)
Definition keep_spec (leave : bool) (pvs : list pv) (x : pv) : bool :=
  negb (existsb (fun d => pv_del d && is_path_below (pv_path x) (pv_path d)) pvs) &&
  (negb (pv_del x) || leave).

Lemma existsb_dels (f : str -> bool) l :
  existsb f (map pv_path (filter pv_del l)) = existsb (fun d => pv_del d && f (pv_path d)) l.
Proof.
  induction l as [|d l IH]; cbn; [reflexivity|].
  destruct (pv_del d); cbn; rewrite IH; reflexivity.
Qed.

Theorem prune_exact leave pvs :
  (forall x, In x pvs -> pv_path x <> []) ->
  Permutation (prune leave pvs) (filter (keep_spec leave pvs) pvs) /\
  StronglySorted pv_le (prune leave pvs).
Proof.
  intros Hne. unfold prune. split.
  - set (sorted := isort pv_leb pvs).
    assert (HP : Permutation pvs sorted) by apply isort_perm.
    rewrite (filter_ext_in _ (keep_spec leave pvs)).
    + apply perm_filter. symmetry. exact HP.
    + intros x Hx. unfold keep_spec. f_equal. f_equal.
      rewrite below_deleted_existsb.
      * rewrite existsb_dels. apply existsb_perm. symmetry. exact HP.
      * apply Hne. eapply Permutation_in; [symmetry; exact HP | exact Hx].
  - apply filter_ssorted. apply isort_ssorted.
Qed.

(* membership form *)
Corollary prune_In leave pvs x :
  (forall y, In y pvs -> pv_path y <> []) ->
  (In x (prune leave pvs) <->
   In x pvs /\
   (forall d, In d pvs -> pv_del d = true -> is_path_below (pv_path x) (pv_path d) = false) /\
   (pv_del x = true -> leave = true)).
Proof.
  intros Hne. destruct (prune_exact leave pvs Hne) as [HP _].
  split.
  - intros Hx. eapply Permutation_in in Hx; [|exact HP]. apply filter_In in Hx. destruct Hx as [Hin Hk].
    unfold keep_spec in Hk. apply andb_true_iff in Hk. destruct Hk as [Hk1 Hk2]. apply negb_true_iff in Hk1.
    split; [exact Hin|]. split.
    + intros d Hd Hdel. destruct (is_path_below (pv_path x) (pv_path d)) eqn:E; [|reflexivity].
      assert (existsb (fun d0 => pv_del d0 && is_path_below (pv_path x) (pv_path d0)) pvs = true); [|congruence].
      apply existsb_exists. exists d. rewrite Hdel, E. auto.
    + intros Hdel. rewrite Hdel in Hk2. cbn in Hk2. exact Hk2.
  - intros [Hin [Hno Hl]]. eapply Permutation_in; [symmetry; exact HP|]. apply filter_In. split; [exact Hin|].
    unfold keep_spec. apply andb_true_iff. split.
    + apply negb_true_iff. destruct (existsb _ pvs) eqn:E; [|reflexivity].
      apply existsb_exists in E. destruct E as [d [Hd Hb]]. apply andb_true_iff in Hb. destruct Hb as [Hb1 Hb2].
      rewrite (Hno d Hd Hb1) in Hb2. discriminate.
    + destruct (pv_del x); cbn; [apply Hl; reflexivity | reflexivity].
Qed.

(* the order of the input does not matter when paths are distinct (PrunePathMap ranges over a Go map) *)
Lemma ssorted_perm_unique (l l' : list pv) :
  NoDup (map pv_path l) -> Permutation l l' ->
  StronglySorted pv_le l -> StronglySorted pv_le l' -> l = l'.
Proof.
  revert l'. induction l as [|x l IH]; intros l' Hnd HP Hs Hs'.
  - apply Permutation_nil in HP. subst. reflexivity.
  - destruct l' as [|y l']; [apply Permutation_sym, Permutation_nil in HP; discriminate|].
    inversion Hs as [|? ? Hsl Hall]; subst. inversion Hs' as [|? ? Hsl' Hall']; subst.
    assert (x = y) as ->.
    { assert (Hy : In y (x :: l)) by (eapply Permutation_in; [symmetry; exact HP | left; reflexivity]).
      assert (Hx : In x (y :: l')) by (eapply Permutation_in; [exact HP | left; reflexivity]).
      destruct Hy as [Hy|Hy]; [exact Hy|]. destruct Hx as [Hx|Hx]; [symmetry; exact Hx|].
      rewrite Forall_forall in Hall, Hall'.
      pose proof (Hall y Hy) as H1. pose proof (Hall' x Hx) as H2.
      unfold pv_le, pv_leb, leb_str in H1, H2. apply negb_true_iff in H1, H2.
      pose proof (ltb_str_total _ _ H2 H1) as Heq.
      cbn in Hnd. inversion Hnd as [|? ? Hni _]; subst. exfalso. apply Hni. rewrite Heq. apply in_map. exact Hy. }
    f_equal. apply IH; auto.
    + cbn in Hnd. inversion Hnd; assumption.
    + eapply Permutation_cons_inv; exact HP.
Qed.

Theorem prune_order_independent leave m m' :
  NoDup (map pv_path m) -> Permutation m m' -> prune_map leave m = prune_map leave m'.
Proof.
  intros Hnd HP. unfold prune_map, prune.
  assert (Hs : isort pv_leb m = isort pv_leb m').
  { apply ssorted_perm_unique.
    - eapply Permutation_NoDup; [|exact Hnd]. apply Permutation_map. apply isort_perm.
    - etransitivity; [symmetry; apply isort_perm|]. etransitivity; [exact HP | apply isort_perm].
    - apply isort_ssorted.
    - apply isort_ssorted. }
  rewrite Hs. reflexivity.
Qed.

(* siblings that merely share a textual prefix are not below one another; '-' sorts between a path and its
   children and does not end the pruning *)
Definition pvs_example : list pv :=
  let s := {| tv_type := 1; tv_bytes := B "v"; tv_opts := [] |} in
  [ {| pv_path := B "/a/x"; pv_del := false; pv_val := s |};
    {| pv_path := B "/a-b"; pv_del := false; pv_val := s |};
    {| pv_path := B "/a"; pv_del := true; pv_val := s |};
    {| pv_path := B "/a/b/c"; pv_del := false; pv_val := s |};
    {| pv_path := B "/a[k=1]/y"; pv_del := false; pv_val := s |};
    {| pv_path := B "/ab"; pv_del := false; pv_val := s |};
    {| pv_path := B "/c/b"; pv_del := true; pv_val := s |};
    {| pv_path := B "/c/bc"; pv_del := false; pv_val := s |};
    {| pv_path := B "/c/b/d"; pv_del := true; pv_val := s |} ].

Example prune_siblings_true :
  map pv_path (prune true pvs_example) = [B "/a"; B "/a-b"; B "/ab"; B "/c/b"; B "/c/bc"].
Proof. vm_compute. reflexivity. Qed.

Example prune_siblings_false :
  map pv_path (prune false pvs_example) = [B "/a-b"; B "/ab"; B "/c/bc"].
Proof. vm_compute. reflexivity. Qed.

Example below_examples :
  is_path_below (B "/a/bc") (B "/a/b") = false /\ is_path_below (B "/a/b/c") (B "/a/b") = true /\
  is_path_below (B "/a/b[k=1]/c") (B "/a/b") = true /\ is_path_below (B "/a-b") (B "/a") = false /\
  is_path_below (B "/a/b") (B "/a/b") = false /\ is_path_below (B "/a") (B "/") = true.
Proof. vm_compute. repeat split. Qed.

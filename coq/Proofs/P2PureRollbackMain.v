(* C06, value level (Prop-level core): committing the rollback values recorded at validation undoes the commit of the
   change, for every iteration order of every loop; the rollback's candidate shows the restored configuration. *)
From Coq Require Import List Arith NArith Bool Lia Permutation.
From OC Require Import Base.Bytes Model.P2Pure Proofs.P2PureRollbackBase Proofs.P2PureRollbackPrune
  Proofs.P2PureRollbackApply Proofs.P2PureRollbackAdc Proofs.P2PureRollbackStore Proofs.P2PureRollbackCommit
  Proofs.P2PureRollbackRb.
Import ListNotations.
Open Scope N_scope.

(** * what a commit shows (gNMI Set semantics) *)
Lemma cascb_down c p k : wf c -> cascb c p = true -> below k p -> cascb c k = true.
Proof.
  intros (Nc & Kc & Pc) H Hk. apply cascb_spec in H. apply cascb_spec. destruct H as (kd & cv & H1 & H2 & H3).
  exists kd, cv. split; [exact H1|]. split; [exact H2|].
  eapply below_trans; [|exact Hk | exact H3]. rewrite (Kc _ _ H1). eapply Pc; eauto.
Qed.

Section Commit.
  Context (idx : N) (M V c st' m' : cmap) (H : commit_hyp idx M V c) (O : commit_out idx V c st' m').

  Lemma co_some k e : lookup k m' = Some e -> lookup k st' = Some e /\ ~ hidden st' k.
  Proof.
    intros E. destruct (co_store _ _ _ _ _ O k) as (S1 & S2).
    assert (~ hidden st' k) as Nh by (intros Hh; rewrite (S1 Hh) in E; discriminate).
    split; [rewrite <- (S2 Nh); exact E | exact Nh].
  Qed.

  Lemma co_hidden k : hidden m' k -> hidden st' k.
  Proof.
    intros (t & (e & H1 & H2) & H3). exists t. split; [|exact H3]. exists e. split; [apply co_some; exact H1 | exact H2].
  Qed.

  Lemma co_vis k val : vis m' k val <-> vis st' k val.
  Proof.
    split.
    - intros (e & H1 & H2 & H3 & H4). apply co_some in H1. destruct H1 as (H1 & Nh). exists e. auto.
    - intros (e & H1 & H2 & H3 & H4). exists e. destruct (co_store _ _ _ _ _ O k) as (_ & S2).
      rewrite (S2 H4). repeat split; auto. intros Hh. apply H4. apply co_hidden. exact Hh.
  Qed.

  (* nothing is stored beneath a tombstone *)
  Lemma co_clean : clean m'.
  Proof.
    intros k e H1 _ Hh. apply co_some in H1. destruct H1 as (_ & Nh). apply Nh. apply co_hidden. exact Hh.
  Qed.

  Lemma st_tomb t e : lookup t st' = Some e -> pv_deleted e = true ->
    (exists u, lookup t c = Some u /\ pv_deleted u = true) \/
    (cascb c t = true /\ lookup t V <> None) \/
    (lookup t c = None /\ lookup t V = Some e /\ live_below c t = false).
  Proof.
    intros E D. destruct (lookup t c) as [u|] eqn:Ec.
    - destruct (pv_deleted u) eqn:Du; [left; eauto|].
      rewrite (co_upd _ _ _ _ _ O t u Ec Du) in E. injection E as <-. congruence.
    - destruct (cascb c t) eqn:Ecas; [destruct (lookup t V) eqn:EV|].
      + right. left. split; [reflexivity | congruence].
      + rewrite (co_rest _ _ _ _ _ O t Ec (or_intror EV)), EV in E. destruct (_ && _); discriminate.
      + right. right. rewrite (co_rest _ _ _ _ _ O t Ec (or_introl Ecas)) in E.
        destruct (is_tombb V t && live_below c t) eqn:X; [discriminate|]. split; [reflexivity|]. split; [exact E|].
        unfold is_tombb in X. rewrite E, D in X. exact X.
  Qed.

  (* where a value of the merged view comes from *)
  Lemma st_origin k e : (forall k u, lookup k c = Some u -> pv_index u = idx) ->
    lookup k st' = Some e -> pv_index e = idx \/ lookup k V = Some e.
  Proof.
    intros St E. destruct (lookup k c) as [u|] eqn:Ec.
    - destruct (pv_deleted u) eqn:Du.
      + destruct (co_del _ _ _ _ _ O k u Ec Du) as (e' & E1 & _ & [->|E3]); rewrite E in E1; injection E1 as <-; eauto.
      + rewrite (co_upd _ _ _ _ _ O k u Ec Du) in E. injection E as <-. eauto.
    - destruct (cascb c k) eqn:Ecas; [destruct (lookup k V) as [x|] eqn:EV|].
      + destruct (co_casc _ _ _ _ _ O k x EV Ecas) as (e' & E1 & _ & [E2|E3]); rewrite E in E1; injection E1 as <-; [congruence | auto].
      + rewrite (co_rest _ _ _ _ _ O k Ec (or_intror EV)), EV in E. destruct (_ && _); discriminate.
      + rewrite (co_rest _ _ _ _ _ O k Ec (or_introl Ecas)) in E. destruct (_ && _); [discriminate | auto].
  Qed.

  Lemma st_not_hidden_upd k u : lookup k c = Some u -> pv_deleted u = false -> ~ hidden st' k.
  Proof.
    intros Ec Du (t & (e & H1 & H2) & H3). destruct H as [_ _ _ Wc _ F14 _ _].
    pose proof (F14 k u Ec Du) as Nc.
    assert (proper t) as Pt by (eapply pk_lookup; [apply (co_wf_st _ _ _ _ _ O) | exact H1]).
    destruct (st_tomb t e H1 H2) as [(ut & E1 & E2)|[(E1 & _)|(E1 & E2 & E3)]].
    - assert (cascb c k = true) as X; [|congruence]. apply cascb_spec. exists t, ut.
      split; [apply lookup_in; exact E1|]. split; [exact E2|]. rewrite (kp_lookup c t ut (proj1 (proj2 Wc)) E1). exact H3.
    - rewrite (cascb_down c t k Wc E1 H3) in Nc. discriminate.
    - assert (live_below c t = true) as X; [|congruence]. apply live_below_spec. exists k, u.
      split; [apply lookup_in; exact Ec | auto].
  Qed.

  Lemma st_not_hidden_rest k : cascb c k = false -> ~ hidden V k -> ~ hidden st' k.
  Proof.
    intros Nc Nh (t & (e & H1 & H2) & H3). destruct H as [_ _ _ Wc _ F14 _ _].
    destruct (st_tomb t e H1 H2) as [(ut & E1 & E2)|[(E1 & _)|(E1 & E2 & E3)]].
    - assert (cascb c k = true) as X; [|congruence]. apply cascb_spec. exists t, ut.
      split; [apply lookup_in; exact E1|]. split; [exact E2|]. rewrite (kp_lookup c t ut (proj1 (proj2 Wc)) E1). exact H3.
    - rewrite (cascb_down c t k Wc E1 H3) in Nc. discriminate.
    - apply Nh. exists t. split; [exists e; auto | exact H3].
  Qed.

  Theorem commit_shows k val :
    vis st' k val <->
    (exists u, lookup k c = Some u /\ pv_deleted u = false /\ pv_val u = val) \/
    (lookup k c = None /\ cascb c k = false /\ vis V k val).
  Proof.
    split.
    - intros (e & H1 & H2 & H3 & H4). destruct (lookup k c) as [u|] eqn:Ec.
      + destruct (pv_deleted u) eqn:Du.
        * destruct (co_del _ _ _ _ _ O k u Ec Du) as (e' & E1 & E2 & _). congruence.
        * rewrite (co_upd _ _ _ _ _ O k u Ec Du) in H1. injection H1 as <-. left. eauto.
      + right. split; [reflexivity|]. destruct (cascb c k) eqn:Ecas; [destruct (lookup k V) as [x|] eqn:EV|].
        * destruct (co_casc _ _ _ _ _ O k x EV Ecas) as (e' & E1 & E2 & _). congruence.
        * rewrite (co_rest _ _ _ _ _ O k Ec (or_intror EV)), EV in H1. destruct (_ && _); discriminate.
        * split; [reflexivity|]. rewrite (co_rest _ _ _ _ _ O k Ec (or_introl Ecas)) in H1.
          destruct (_ && _); [discriminate|]. exists e. repeat split; auto. apply (ch_clean _ _ _ _ H k e H1 H2).
    - intros [(u & E1 & E2 & E3)|(E1 & E2 & (e & E3 & E4 & E5 & E6))].
      + exists u. split; [apply (co_upd _ _ _ _ _ O); assumption|]. repeat split; auto. eapply st_not_hidden_upd; eauto.
      + exists e. rewrite (co_rest _ _ _ _ _ O k E1 (or_introl E2)). unfold is_tombb. rewrite E3, E4. cbn.
        repeat split; auto. apply st_not_hidden_rest; assumption.
  Qed.
End Commit.

(** * the rollback *)
(* an updated path has no live value beneath it (values live at leaves) *)
Definition updates_are_leaves (V c : cmap) : Prop :=
  forall k u p x, lookup k c = Some u -> pv_deleted u = false -> lookup p V = Some x -> pv_deleted x = false -> ~ below p k.
Record rollback_hyp (i j : N) (M V c : cmap) : Prop := {
  rh_M : nd M; rh_same : same V M; rh_V : wf V; rh_c : wf c;
  rh_clean : clean V;
  rh_f14 : no_delete_above_update c;
  rh_leaves : updates_are_leaves V c;
  rh_stamped : forall k u, lookup k c = Some u -> pv_index u = i;
  rh_older : forall k e, lookup k M = Some e -> pv_index e < i;
  rh_pos : 0 < i; rh_lt : i < j }.

Lemma rollback_commit_hyp i j M V c : rollback_hyp i j M V c -> commit_hyp i M V c.
Proof.
  intros [NM S WV Wc CL F L St Ol P Lt]. constructor; auto.
  - intros k u e H1 H2 H3. pose proof (St _ _ H1). pose proof (Ol _ _ H2). lia.
  - intros k e H1. pose proof (Ol _ _ H1). lia.
Qed.

Section Rollback.
  Context (i j ord1 ord2 : N) (M V c V1 : cmap) (RH : rollback_hyp i j M V c).
  Let rb := rollback_of V c.
  Let m1 := commit_merge ord1 i M V c.
  Context (NV1 : nd V1) (SV1 : same V1 m1).
  Let m2 := commit_merge ord2 j m1 V1 rb.

  Lemma rb_facts : rb_out V c rb.
  Proof. apply rollback_of_spec; apply RH. Qed.

  (* a tombstone of the rollback values does not cover a live value of the old view *)
  Lemma rb_tomb_not_above k e d rd :
    lookup k V = Some e -> pv_deleted e = false -> lookup d rb = Some rd -> pv_deleted rd = true -> ~ below k d.
  Proof.
    intros H1 H2 H3 H4 Hb. destruct (ro_from _ _ _ rb_facts d rd H3) as [E|(E1 & E2 & u & E3 & E4)].
    - apply (rh_clean _ _ _ _ _ RH k e H1 H2). exists d. split; [exists rd; auto | exact Hb].
    - apply (rh_leaves _ _ _ _ _ RH d u k e E3 E4 H1 H2 Hb).
  Qed.

  Lemma rb_not_cascaded k e : lookup k V = Some e -> pv_deleted e = false -> cascb rb k = false.
  Proof.
    intros H1 H2. destruct (cascb rb k) eqn:X; [|reflexivity]. exfalso. apply cascb_spec in X.
    destruct X as (d & rd & X1 & X2 & X3). pose proof (ro_wf _ _ _ rb_facts) as (Nr & Kr & Pr).
    rewrite (Kr _ _ X1) in X3. apply (rb_tomb_not_above k e d rd H1 H2); [apply in_lookup; assumption | exact X2 | exact X3].
  Qed.

  Lemma rb_live k r : lookup k rb = Some r -> pv_deleted r = false -> lookup k V = Some r.
  Proof.
    intros H1 H2. destruct (ro_from _ _ _ rb_facts k r H1) as [E|(_ & -> & _)]; [exact E | discriminate].
  Qed.

  Section WithFirst.
    Context (st1 : cmap) (O1 : commit_out i V c st1 m1).
    Let H1 := rollback_commit_hyp i j M V c RH.

    Lemma m1_origin k e : lookup k m1 = Some e -> pv_index e = i \/ lookup k V = Some e.
    Proof.
      intros E. apply (co_some _ _ _ _ _ O1) in E. destruct E as (E & _).
      eapply (st_origin i V c st1 m1 O1); [apply RH | exact E].
    Qed.

    Lemma second_hyp : commit_hyp j m1 V1 rb.
    Proof.
      pose proof (co_wf _ _ _ _ _ O1) as (N1 & K1 & P1).
      assert (wf V1) as WV1.
      { split; [exact NV1|]. split; [eapply (same_kp m1) | eapply (same_pk m1)]; eauto using same_sym. }
      constructor.
      - exact N1.
      - exact SV1.
      - exact WV1.
      - apply rb_facts.
      - intros k e E1 E2 Hh. rewrite SV1 in E1. apply (co_clean _ _ _ _ _ O1 k e E1 E2).
        eapply same_hidden; eauto.
      - intros k r E1 E2. eapply rb_not_cascaded; eauto using rb_live.
      - intros k r e E1 E2 E3. destruct (ro_from _ _ _ rb_facts k r E1) as [E|(E4 & -> & _)].
        + destruct (m1_origin k e E2) as [Ei|Ev]; [|congruence].
          rewrite (rh_same _ _ _ _ _ RH) in E. pose proof (rh_older _ _ _ _ _ RH _ _ E). lia.
        + destruct (m1_origin k e E2) as [Ei|Ev]; [|congruence]. cbn in E3. pose proof (rh_pos _ _ _ _ _ RH). lia.
      - intros k e E. pose proof (rh_lt _ _ _ _ _ RH). destruct (m1_origin k e E) as [Ei|Ev]; [lia|].
        rewrite (rh_same _ _ _ _ _ RH) in Ev. pose proof (rh_older _ _ _ _ _ RH _ _ Ev). lia.
    Qed.

    Lemma first_shows k val :
      vis V1 k val <->
      (exists u, lookup k c = Some u /\ pv_deleted u = false /\ pv_val u = val) \/
      (lookup k c = None /\ cascb c k = false /\ vis V k val).
    Proof.
      rewrite <- (commit_shows i M V c st1 m1 H1 O1 k val), <- (co_vis _ _ _ _ _ O1 k val).
      split; apply same_vis; [exact SV1 | apply same_sym; exact SV1].
    Qed.

    (* a live value of the old view that the rollback values do not name was not touched by the change *)
    Lemma untouched k e : lookup k V = Some e -> pv_deleted e = false -> lookup k rb = None ->
      lookup k c = None /\ cascb c k = false.
    Proof.
      intros E1 E2 E3. apply lookup_none in E3. split.
      - destruct (lookup k c) as [u|] eqn:Ec; [|reflexivity]. exfalso. apply E3.
        apply (ro_change _ _ _ rb_facts k u Ec). right. congruence.
      - destruct (cascb c k) eqn:Ecas; [|reflexivity]. exfalso. apply E3. eapply (ro_kids _ _ _ rb_facts); eauto.
    Qed.

    Section WithSecond.
      Context (st2 : cmap) (O2 : commit_out j V1 rb st2 m2).

      Theorem rollback_restores_vis k val : vis m2 k val <-> vis V k val.
      Proof.
        rewrite (co_vis _ _ _ _ _ O2 k val), (commit_shows j m1 V1 rb st2 m2 second_hyp O2 k val). split.
        - intros [(r & E1 & E2 & E3)|(E1 & E2 & E3)].
          + pose proof (rb_live k r E1 E2) as Ev. exists r. repeat split; auto. apply (rh_clean _ _ _ _ _ RH k r Ev E2).
          + apply first_shows in E3. destruct E3 as [(u & F1 & F2 & _)|(_ & _ & F3)]; [|exact F3].
            exfalso. apply lookup_none in E1. apply E1. apply (ro_change _ _ _ rb_facts k u F1). auto.
        - intros (e & E1 & E2 & E3 & E4). destruct (lookup k rb) as [r|] eqn:Er.
          + left. destruct (ro_from _ _ _ rb_facts k r Er) as [E|(E & _)]; [|congruence].
            assert (r = e) as -> by congruence. eauto.
          + right. split; [reflexivity|]. split; [eapply rb_not_cascaded; eauto|]. apply first_shows. right.
            destruct (untouched k e E1 E2 Er) as (U1 & U2). split; [exact U1|]. split; [exact U2|]. exists e. auto.
      Qed.

      Theorem rollback_restores_live V2 : nd V2 -> same V2 m2 -> live V2 = live V.
      Proof.
        intros N2 S2. pose proof (co_wf _ _ _ _ _ O2) as W2.
        rewrite <- (live_same m2 V2 W2 N2 (same_sym _ _ S2)).
        apply live_ext; [exact W2 | apply RH|]. apply rollback_restores_vis.
      Qed.
    End WithSecond.

    (** * the candidate the plugin validates for the rollback (repaired by 3342112, finding F-24): the rollback values
        are applied to the loaded view with applyChangeToConfig, in any order [rb'] of the Go map *)
    Section Candidate.
      Context (rb' : cmap) (R : rb_out V c rb').

      Lemma rb'_tomb_not_above k e d rd :
        lookup k V = Some e -> pv_deleted e = false -> lookup d rb' = Some rd -> pv_deleted rd = true -> ~ below k d.
      Proof.
        intros E1 E2 E3 E4 Hb. destruct (ro_from _ _ _ R d rd E3) as [E|(F1 & F2 & u & F3 & F4)].
        - apply (rh_clean _ _ _ _ _ RH k e E1 E2). exists d. split; [exists rd; auto | exact Hb].
        - apply (rh_leaves _ _ _ _ _ RH d u k e F3 F4 E1 E2 Hb).
      Qed.

      Lemma rb'_live k r : lookup k rb' = Some r -> pv_deleted r = false -> lookup k V = Some r.
      Proof. intros E1 E2. destruct (ro_from _ _ _ R k r E1) as [E|(_ & -> & _)]; [exact E | discriminate]. Qed.

      Lemma untouched' k e : lookup k V = Some e -> pv_deleted e = false -> lookup k rb' = None ->
        lookup k c = None /\ cascb c k = false.
      Proof.
        intros E1 E2 E3. apply lookup_none in E3. split.
        - destruct (lookup k c) as [u|] eqn:Ec; [|reflexivity]. exfalso. apply E3.
          apply (ro_change _ _ _ R k u Ec). right. congruence.
        - destruct (cascb c k) eqn:Ecas; [|reflexivity]. exfalso. apply E3. eapply (ro_kids _ _ _ R); eauto.
      Qed.

      Lemma wf_V1 : wf V1.
      Proof.
        pose proof (co_wf _ _ _ _ _ O1) as (N1 & K1 & P1).
        split; [exact NV1|]. split; [eapply (same_kp m1) | eapply (same_pk m1)]; eauto using same_sym.
      Qed.

      Lemma candidate_spec :
        wf (candidate_rb V1 rb') /\
        forall k, lookup k (candidate_rb V1 rb') =
                  match lookup k rb' with
                  | Some u => Some u
                  | None => if is_tombb V1 k && live_below rb' k then None else lookup k V1
                  end.
      Proof.
        change (candidate_rb V1 rb') with (apply_loop rb' V1). apply apply_loop_spec; [apply R | exact wf_V1|].
        intros p u t e I1 D1 I2 D2. pose proof (ro_wf _ _ _ R) as (Nr & _).
        apply (in_lookup _ _ _ Nr) in I1. apply (in_lookup _ _ _ Nr) in I2.
        apply (rb'_tomb_not_above p u t e (rb'_live p u I1 D1) D1 I2 D2).
      Qed.

      Theorem candidate_shows k val : vis (candidate_rb V1 rb') k val <-> vis V k val.
      Proof.
        destruct candidate_spec as (_ & L). split.
        - intros (e & E1 & E2 & E3 & E4). rewrite L in E1. destruct (lookup k rb') as [r|] eqn:Er.
          + injection E1 as ->. pose proof (rb'_live k e Er E2) as Ev. exists e. repeat split; auto.
            apply (rh_clean _ _ _ _ _ RH k e Ev E2).
          + destruct (is_tombb V1 k && live_below rb' k); [discriminate|].
            assert (vis V1 k val) as X.
            { exists e. repeat split; auto. intros Hh. rewrite SV1 in E1. apply (co_clean _ _ _ _ _ O1 k e E1 E2).
              eapply same_hidden; eauto. }
            apply first_shows in X. destruct X as [(u & F1 & F2 & _)|(_ & _ & F3)]; [|exact F3].
            exfalso. apply lookup_none in Er. apply Er. apply (ro_change _ _ _ R k u F1). auto.
        - intros (e & E1 & E2 & E3 & E4).
          assert (exists e', lookup k (candidate_rb V1 rb') = Some e' /\ pv_deleted e' = false /\ pv_val e' = val)
            as (e' & C1 & C2 & C3).
          { rewrite L. destruct (lookup k rb') as [r|] eqn:Er.
            - destruct (ro_from _ _ _ R k r Er) as [E|(E & _)]; [|congruence]. exists r.
              assert (r = e) as -> by congruence. auto.
            - destruct (untouched' k e E1 E2 Er) as (U1 & U2).
              assert (vis V1 k val) as (e' & X1 & X2 & X3 & _).
              { apply first_shows. right. split; [exact U1|]. split; [exact U2|]. exists e. auto. }
              exists e'. unfold is_tombb. rewrite X1, X2. cbn. auto. }
          exists e'. repeat split; auto.
          intros (t & (et & T1 & T2) & T3). rewrite L in T1. destruct (lookup t rb') as [rt|] eqn:Ert.
          + injection T1 as ->. apply (rb'_tomb_not_above k e t et E1 E2 Ert T2 T3).
          + destruct (is_tombb V1 t && live_below rb' t) eqn:Dr; [discriminate|].
            assert (live_below rb' t = false) as LB.
            { unfold is_tombb in Dr. rewrite T1, T2 in Dr. exact Dr. }
            rewrite SV1 in T1. apply (co_some _ _ _ _ _ O1) in T1. destruct T1 as (T1 & Nh).
            destruct (st_tomb i V c st1 m1 O1 t et T1 T2) as [(ut & F1 & F2)|[(F1 & F2)|(F1 & F2 & F3)]].
            * (* a delete of the change at [t]: the restored value beneath it is a live rollback value, which drops it *)
              assert (cascb c k = true) as Ck.
              { apply cascb_spec. exists t, ut. split; [apply lookup_in; exact F1|]. split; [exact F2|].
                rewrite (kp_lookup c t ut (proj1 (proj2 (rh_c _ _ _ _ _ RH))) F1). exact T3. }
              pose proof (ro_kids _ _ _ R k e E1 E2 Ck) as Hk. apply in_key_lookup in Hk. destruct Hk as (r & Er).
              destruct (ro_from _ _ _ R k r Er) as [E|(E & _)]; [|congruence].
              assert (r = e) as -> by congruence.
              assert (live_below rb' t = true) as X; [|congruence].
              apply live_below_spec. exists k, e. split; [apply lookup_in; exact Er | auto].
            * apply Nh. apply cascb_spec in F1. destruct F1 as (d & cv & G1 & G2 & G3).
              pose proof (rh_c _ _ _ _ _ RH) as (Nc & Kc & Pc). rewrite (Kc _ _ G1) in G3.
              destruct (co_del _ _ _ _ _ O1 d cv (in_lookup _ _ _ Nc G1) G2) as (ed & D1 & D2 & _).
              exists d. split; [exists ed; auto | exact G3].
            * apply E4. exists t. split; [exists et; auto | exact T3].
      Qed.
    End Candidate.
  End WithFirst.
End Rollback.

(** * assembled *)
Theorem rollback_restores i j ord1 ord2 M V c V1 V2 :
  rollback_hyp i j M V c ->
  let rb := rollback_of V c in
  let m1 := commit_merge ord1 i M V c in
  nd V1 -> same V1 m1 ->
  let m2 := commit_merge ord2 j m1 V1 rb in
  nd V2 -> same V2 m2 ->
  live V2 = live V.
Proof.
  intros RH rb m1 N1 S1 m2 N2 S2.
  destruct (commit_spec ord1 i M V c (rollback_commit_hyp i j M V c RH)) as (st1 & O1).
  destruct (commit_spec ord2 j m1 V1 rb (second_hyp i j ord1 M V c V1 RH N1 S1 st1 O1)) as (st2 & O2).
  exact (rollback_restores_live i j ord1 ord2 M V c V1 RH N1 S1 st1 O1 st2 O2 V2 N2 S2).
Qed.

(* the first commit re-establishes what the second one needs: the stored map is well formed, holds nothing beneath a
   tombstone, and its indexes are at most i *)
Theorem commit_preserves i j ord M V c :
  rollback_hyp i j M V c ->
  let m1 := commit_merge ord i M V c in
  wf m1 /\ clean m1 /\ (forall k t, tomb m1 t -> below k t -> lookup k m1 = None) /\
  forall k e, lookup k m1 = Some e -> pv_index e <= i.
Proof.
  intros RH m1. destruct (commit_spec ord i M V c (rollback_commit_hyp i j M V c RH)) as (st1 & O1). fold m1 in O1.
  split; [apply O1|]. split; [eapply co_clean; eauto|]. split.
  - intros k t Ht Hb. destruct (lookup k m1) as [e|] eqn:E; [|reflexivity]. exfalso.
    apply (co_some _ _ _ _ _ O1) in E. destruct E as (_ & Nh). apply Nh. apply (co_hidden _ _ _ _ _ O1).
    exists t. auto.
  - intros k e E. apply (co_some _ _ _ _ _ O1) in E. destruct E as (E & _).
    destruct (st_origin i V c st1 m1 O1 k e (rh_stamped _ _ _ _ _ RH) E) as [Ei|Ev]; [lia|].
    rewrite (rh_same _ _ _ _ _ RH) in Ev. pose proof (rh_older _ _ _ _ _ RH _ _ Ev). lia.
Qed.

(* any other iteration order of the same rollback values *)
Lemma rb_out_same V c rb rb' : rb_out V c rb -> nd rb' -> same rb' rb -> rb_out V c rb'.
Proof.
  intros [(Nr & Kr & Pr) R2 R3 R4] N S. constructor.
  - split; [exact N|]. split; [eapply (same_kp rb) | eapply (same_pk rb)]; eauto using same_sym.
  - intros k r E. rewrite S in E. auto.
  - intros k u E1 E2. destruct (in_key_lookup _ _ (R3 k u E1 E2)) as (r & Er). rewrite <- S in Er. eapply lookup_some_key; eauto.
  - intros k x E1 E2 E3. destruct (in_key_lookup _ _ (R4 k x E1 E2 E3)) as (r & Er). rewrite <- S in Er. eapply lookup_some_key; eauto.
Qed.

(* the candidate validated for the rollback shows exactly the old view: the verdict is taken on the configuration the
   rollback restores *)
Theorem rollback_candidate i j ord1 M V c V1 rb' :
  rollback_hyp i j M V c ->
  let rb := rollback_of V c in
  let m1 := commit_merge ord1 i M V c in
  nd V1 -> same V1 m1 -> nd rb' -> same rb' rb ->
  live (candidate_rb V1 rb') = live V.
Proof.
  intros RH rb m1 N1 S1 Nr Sr.
  destruct (commit_spec ord1 i M V c (rollback_commit_hyp i j M V c RH)) as (st1 & O1).
  assert (rb_out V c rb') as R.
  { eapply rb_out_same; [apply rollback_of_spec; apply RH | exact Nr | exact Sr]. }
  apply live_ext; [apply (candidate_spec i j ord1 M V c V1 RH N1 S1 st1 O1 rb' R) | apply RH|].
  apply (candidate_shows i j ord1 M V c V1 RH N1 S1 st1 O1 rb' R).
Qed.

(* the stored map after the rollback's commit is well formed again *)
Theorem rollback_second_wf i j ord1 ord2 M V c V1 :
  rollback_hyp i j M V c ->
  let rb := rollback_of V c in
  let m1 := commit_merge ord1 i M V c in
  nd V1 -> same V1 m1 ->
  wf (commit_merge ord2 j m1 V1 rb) /\ clean (commit_merge ord2 j m1 V1 rb).
Proof.
  intros RH rb m1 N1 S1.
  destruct (commit_spec ord1 i M V c (rollback_commit_hyp i j M V c RH)) as (st1 & O1).
  pose proof (second_hyp i j ord1 M V c V1 RH N1 S1 st1 O1) as H2.
  destruct (commit_spec ord2 j m1 V1 rb H2) as (st2 & O2).
  split; [apply O2 | eapply co_clean; eauto].
Qed.

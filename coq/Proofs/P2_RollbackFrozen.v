(* C06: the rollback values and the rollback index recorded with the verdict of a validation, and the details of the
   proposal, never change once the proposal is validated - in ANY step from ANY world (all labels, oracles, crash
   prefixes, every pure layer).  The commit of a rollback therefore replays exactly what was recorded when the change it
   rolls back was validated (C06_change_records_rollback_values / C06_rollback_uses_recorded_values give the recording
   steps). *)
From stdpp Require Import gmap.
From RecordUpdate Require Import RecordUpdate.
From Coq Require Import NArith Lia.
From OC Require Import Model.Proto2 Proofs.P2Base Proofs.P2Phases Proofs.P2_Order Proofs.P2_OrderStep Proofs.P2_Cursor.
Open Scope N_scope.

Section Frozen.
  Context {V Ch Req D : Type}.
  Context (candidate : V -> Ch -> V) (candidate_rb : V -> Ch -> V) (rollback_of : V -> Ch -> Ch)
          (overlay : V -> V -> V) (commit_merge : N -> N -> V -> V -> Ch -> V)
          (payload : N -> V -> Ch -> option Req) (record_applied : N -> N -> V -> V -> V -> Ch -> V)
          (touched : N -> V -> Ch -> V) (restore : V -> V -> V)
          (resync_payload : V -> list (option Req)) (doc_ok : V -> bool)
          (dev_apply : D -> Req -> D) (stamp : N -> Ch -> Ch) (v_empty : V) (d_empty : D) (ch_empty : Ch).

  Notation world := (@world V Ch Req D).
  Notation eff := (@eff V Ch Req).
  Notation txn := (@txn Ch).
  Notation prop := (@prop Ch).
  Notation config := (@config V).
  Notation apply_eff := (@apply_eff V Ch Req D dev_apply d_empty).
  Notation rec_tx := (@rec_tx V Ch Req D stamp).
  Notation rec_prop := (@rec_prop V Ch Req D candidate candidate_rb rollback_of overlay commit_merge payload record_applied
                                  touched restore doc_ok v_empty d_empty ch_empty).
  Notation rec_cfg := (@rec_cfg V Ch Req D overlay restore resync_payload v_empty d_empty).
  Notation rec_master := (@rec_master V Ch Req D overlay restore v_empty).
  Notation rec_conn := (@rec_conn V Ch Req D).
  Notation reconcile := (@reconcile V Ch Req D candidate candidate_rb rollback_of overlay commit_merge payload record_applied
                                    touched restore resync_payload doc_ok stamp v_empty d_empty ch_empty).
  Notation step := (@step V Ch Req D candidate candidate_rb rollback_of overlay commit_merge payload record_applied
                          touched restore resync_payload doc_ok dev_apply stamp v_empty d_empty ch_empty).
  Notation reach := (@reach V Ch Req D candidate candidate_rb rollback_of overlay commit_merge payload record_applied
                            touched restore resync_payload doc_ok dev_apply stamp v_empty d_empty ch_empty).
  Notation view := (@view V overlay).
  Notation aview := (@aview V overlay).
  Notation pcase := (@pcase V Ch Req D candidate candidate_rb rollback_of overlay commit_merge doc_ok v_empty ch_empty).
  Notation pwrite := (@pwrite V Ch Req D candidate candidate_rb rollback_of overlay doc_ok ch_empty).
  Notation vdoc := (@vdoc V Ch Req D candidate candidate_rb rollback_of overlay ch_empty).
  Notation rec_prop_pcase := (@rec_prop_pcase V Ch Req D candidate candidate_rb rollback_of overlay commit_merge payload
                                              record_applied touched restore doc_ok v_empty d_empty ch_empty).
  Notation K_reach := (@K_reach V Ch Req D candidate candidate_rb rollback_of overlay commit_merge payload record_applied
                                touched restore resync_payload doc_ok dev_apply stamp v_empty d_empty ch_empty).


  Lemma In_take_l {A} (x : A) n l : In x (take n l) -> In x l.
  Proof. revert n. induction l as [|y l IH]; intros [|n]; cbn; try tauto. intros [->|H]; [auto|right; eauto]. Qed.

  (** * What was recorded at validation never changes *)
  Theorem recorded_frozen (w : world) l k (P P' : prop) :
    props w !! k = Some P -> props (step w l) !! k = Some P' -> p_validate P = Some Done ->
    p_details P' = p_details P /\ p_rbvalues P' = p_rbvalues P /\ p_rbindex P' = p_rbindex P.
  Proof.
    intros HP HP' Hd.
    destruct l as [chs sy se|ri|c n o|c t0|c|c t0|t0 p|t0|t0]; cbn [Proto2.step] in HP'.
    1,2,5,7,8,9: cbn in HP'; assert (P' = P) as -> by congruence; auto.
    2: destruct (conns w !! c); cbn in HP'; assert (P' = P) as -> by congruence; auto.
    2: destruct (rels w !! c); cbn in HP'; assert (P' = P) as -> by congruence; auto.
    destruct (props_fold dev_apply d_empty _ _ _ _ _ HP HP') as [->|Hin]; [auto|]. apply In_take_l in Hin.
    assert (Hnc : forall effs : list eff, Forall calm effs -> In (EPutProp k P') effs -> False).
    { intros effs Hf Hi. rewrite List.Forall_forall in Hf. exact (Hf _ Hi). }
    destruct c as [i|k0|t0|t0|cc]; cbn [Proto2.reconcile] in Hin.
    - pose proof (rec_tx_txeff stamp w i) as Hf. rewrite List.Forall_forall in Hf. specialize (Hf _ Hin). cbn in Hf.
      destruct Hf as (p & Hp & Hor). rewrite HP in Hp. injection Hp as <-.
      destruct Hor as [-> | [-> | [-> | ->]]]; cbn; auto.
    - pose proof (rec_prop_pcase o w k0) as Hpc. remember (fst (rec_prop o w k0)) as effs eqn:Heff. clear Heff.
      destruct Hpc as [effs Hf | pre post k' P0 P0' Hf Hf2 HP0 Hpw Hk | P0 C0 ci HP0 HC0 Hc Ha Hab Hcm Hci].
      + exfalso. eauto.
      + apply in_app_or in Hin. destruct Hin as [Hin|[Heq|Hin]]; [exfalso; eauto| |exfalso; eauto]. injection Heq as -> ->.
        rewrite HP in HP0. injection HP0 as <-.
        destruct Hk as [-> | [m ->]]; [|cbn; auto].
        destruct Hpw; cbn; auto; congruence.
      + destruct Hin as [Heq|[Heq|[Heq|[]]]]; try discriminate Heq. injection Heq as -> <-.
        rewrite HP in HP0. injection HP0 as <-. cbn. auto.
    - exfalso. exact (Hnc _ (rec_cfg_calm overlay restore resync_payload v_empty d_empty o w t0) Hin).
    - exfalso. exact (Hnc _ (rec_master_calm overlay restore v_empty o w t0) Hin).
    - exfalso. exact (Hnc _ (rec_conn_calm w cc) Hin).
  Qed.

  Lemma prop_fold_none (effs : list eff) : forall (w : world) k, props (fold_left apply_eff effs w) !! k = None -> props w !! k = None.
  Proof.
    induction effs as [|e r IH]; intros w k H; [exact H|]. cbn [fold_left] in H.
    apply IH in H. exact (prop_apply_eff_none dev_apply d_empty w e k H).
  Qed.

  Lemma prop_step_none_back (w : world) l k : props (step w l) !! k = None -> props w !! k = None.
  Proof.
    destruct l as [chs sy se|ri|c n o|c t0|c|c t0|t0 p|t0|t0]; cbn [Proto2.step]; try (intros H; exact H).
    - apply prop_fold_none.
    - destruct (conns w !! c); intros H; exact H.
    - destruct (rels w !! c); intros H; exact H.
  Qed.

  (* ... along any list of steps in whose worlds the proposal is (still) validated *)
  Fixpoint stays_validated (k : N * N) (w : world) (ls : list (@label Ch)) : Prop :=
    match ls with
    | [] => True
    | l :: r => (forall P1 : prop, props (step w l) !! k = Some P1 -> p_validate P1 = Some Done) /\ stays_validated k (step w l) r
    end.

  Theorem recorded_frozen_run (ls : list (@label Ch)) : forall (w : world) k (P P' : prop),
    props w !! k = Some P -> props (fold_left step ls w) !! k = Some P' -> p_validate P = Some Done ->
    stays_validated k w ls ->
    p_details P' = p_details P /\ p_rbvalues P' = p_rbvalues P /\ p_rbindex P' = p_rbindex P.
  Proof.
    induction ls as [|l ls IH]; intros w k P P' HP HP' Hd Hstay; cbn [fold_left] in HP'.
    - assert (P' = P) as -> by congruence. auto.
    - destruct Hstay as [Hs1 Hs2]. destruct (props (step w l) !! k) as [P1|] eqn:H1.
      + destruct (recorded_frozen w l k P P1 HP H1 Hd) as (E1 & E2 & E3).
        destruct (IH (step w l) k P1 P' H1 HP' (Hs1 P1 eq_refl) Hs2) as (F1 & F2 & F3).
        repeat split; congruence.
      + exfalso. apply prop_step_none_back in H1. congruence.
  Qed.
End Frozen.

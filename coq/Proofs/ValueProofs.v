(* Proofs about Model/Value.v, part 1: integer encodings and the PROTO round trip of scalars *)
From Coq Require Import List NArith ZArith Bool Lia.
From OC Require Import Base.Bytes Model.Value.
Import ListNotations.
Open Scope Z_scope.

Definition int64_range (v : Z) : Prop := -9223372036854775808 <= v < 9223372036854775808.
Definition uint64_range (v : Z) : Prop := 0 <= v < 18446744073709551616.
Definition int64_rangeb (v : Z) : bool := (-9223372036854775808 <=? v) && (v <? 9223372036854775808).
Definition uint64_rangeb (v : Z) : bool := (0 <=? v) && (v <? 18446744073709551616).

Lemma int64_rangeb_spec v : int64_rangeb v = true <-> int64_range v.
Proof. unfold int64_rangeb, int64_range. rewrite andb_true_iff, Z.leb_le, Z.ltb_lt. tauto. Qed.
Lemma uint64_rangeb_spec v : uint64_rangeb v = true <-> uint64_range v.
Proof. unfold uint64_rangeb, uint64_range. rewrite andb_true_iff, Z.leb_le, Z.ltb_lt. tauto. Qed.

(* ------------------------------------------------------------ wrap-around *)
Lemma wrap64_id z : int64_range z -> wrap64 z = z.
Proof. unfold int64_range, wrap64. intros H. rewrite Z.mod_small by lia. lia. Qed.

Lemma u64_id z : uint64_range z -> u64 z = z.
Proof. unfold uint64_range, u64. intros H. apply Z.mod_small. lia. Qed.

Lemma wrap64_two63 : wrap64 9223372036854775808 = -9223372036854775808.
Proof. reflexivity. Qed.

(* ------------------------------------------------------------ big-endian magnitude *)
Lemma from_le_le_bytes fuel : forall n, (n < 256 ^ N.of_nat fuel)%N -> from_le (le_bytes fuel n) = n.
Proof.
  induction fuel as [|f IH]; intros n Hn.
  - cbn in Hn. assert (n = 0%N) by lia. subst. reflexivity.
  - cbn [le_bytes]. destruct (n =? 0)%N eqn:E.
    + apply N.eqb_eq in E. subst. reflexivity.
    + cbn [from_le]. rewrite IH.
      * pose proof (N.div_mod n 256). lia.
      * rewrite Nat2N.inj_succ, N.pow_succ_r' in Hn.
        apply N.div_lt_upper_bound; lia.
Qed.

Lemma from_be_be_bytes n : (n < 18446744073709551616)%N -> from_be (be_bytes n) = n.
Proof.
  intros H. unfold from_be, be_bytes. rewrite rev_involutive. apply from_le_le_bytes. exact H.
Qed.

Lemma abs_N_bound v : int64_range v -> (Z.abs_N v < 18446744073709551616)%N.
Proof. unfold int64_range. intros H. lia. Qed.

Lemma to_N_bound v : uint64_range v -> (Z.to_N v < 18446744073709551616)%N.
Proof. unfold uint64_range. intros H. lia. Qed.

(* the sign option and the magnitude give the value back, including -2^63 *)
Lemma int64_of_mag_abs v : int64_range v -> int64_of_mag (Z.abs_N v) (v <? 0) = v.
Proof.
  intros H. unfold int64_of_mag. rewrite N2Z.inj_abs_N.
  destruct (v <? 0) eqn:E.
  - apply Z.ltb_lt in E. rewrite Z.abs_neq by lia.
    destruct (Z.eq_dec v (-9223372036854775808)) as [->|Hne]; [reflexivity|].
    unfold int64_range in H.
    rewrite (wrap64_id (- v)) by (unfold int64_range; lia).
    rewrite Z.opp_involutive. apply wrap64_id. exact H.
  - apply Z.ltb_ge in E. rewrite Z.abs_eq by lia. apply wrap64_id. exact H.
Qed.

Lemma neg_opt_eqb v : (neg_opt v =? 1) = (v <? 0).
Proof. unfold neg_opt. destruct (v <? 0); reflexivity. Qed.
Lemma neg_opt_nonzero v : negb (neg_opt v =? 0) = (v <? 0).
Proof. unfold neg_opt. destruct (v <? 0); reflexivity. Qed.

(* ------------------------------------------------------------ scalars *)
Lemma tv_int_new_int v w : int64_range v -> tv_int (new_int v w) = v.
Proof.
  intros H. unfold tv_int, new_int. cbn [tv_bytes tv_opts].
  rewrite from_be_be_bytes by (apply abs_N_bound; exact H).
  rewrite neg_opt_eqb. apply int64_of_mag_abs. exact H.
Qed.

Lemma tv_uint_new_uint v w : uint64_range v -> tv_uint (new_uint v w) = v.
Proof.
  intros H. unfold tv_uint, new_uint, uint64_of_mag. cbn [tv_bytes].
  rewrite from_be_be_bytes by (apply to_N_bound; exact H).
  unfold uint64_range in H. rewrite Z2N.id by lia. apply u64_id. exact H.
Qed.

Lemma tv_decimal_new_decimal d p : int64_range d -> 0 <= p < 256 -> tv_decimal (new_decimal d p) = (d, p).
Proof.
  intros Hd Hp. unfold tv_decimal, new_decimal. cbn [tv_bytes tv_opts].
  rewrite from_be_be_bytes by (apply abs_N_bound; exact Hd).
  rewrite neg_opt_eqb. f_equal; [|unfold u8; apply Z.mod_small; lia].
  unfold int64_of_mag. rewrite N2Z.inj_abs_N.
  destruct (d <? 0) eqn:E.
  - apply Z.ltb_lt in E. rewrite Z.abs_neq by lia.
    destruct (Z.eq_dec d (-9223372036854775808)) as [->|Hne]; [reflexivity|].
    unfold int64_range in Hd.
    rewrite (wrap64_id (- d)) by (unfold int64_range; lia).
    replace (- d * -1) with d by lia. apply wrap64_id. exact Hd.
  - apply Z.ltb_ge in E. rewrite Z.abs_eq by lia.
    rewrite (wrap64_id d) by exact Hd. rewrite Z.mul_1_r. apply wrap64_id. exact Hd.
Qed.

Definition f32_range (b : N) : Prop := (b < 4294967296)%N.

Lemma take_be4_be4 b r : f32_range b -> take_be4 (be4 b ++ r) = Some (b, r).
Proof.
  unfold f32_range. intros H. unfold be4. cbn [app take_be4]. f_equal. f_equal.
  rewrite !N.shiftr_div_pow2.
  change (2 ^ 24)%N with 16777216%N. change (2 ^ 16)%N with 65536%N. change (2 ^ 8)%N with 256%N.
  pose proof (N.div_mod b 256). pose proof (N.div_mod b 65536). pose proof (N.div_mod b 16777216).
  pose proof (N.mod_lt b 256). pose proof (N.mod_lt b 65536). pose proof (N.mod_lt b 16777216).
  assert (b / 16777216 < 256)%N by (apply N.div_lt_upper_bound; lia).
  rewrite (N.mod_small (b / 16777216) 256) by lia.
  assert (E1 : (b / 65536 = 256 * (b / 16777216) + (b / 65536) mod 256)%N).
  { replace (b / 16777216)%N with (b / 65536 / 256)%N by (rewrite N.div_div by lia; reflexivity).
    apply N.div_mod. lia. }
  assert (E2 : (b / 256 = 256 * (b / 65536) + (b / 256) mod 256)%N).
  { replace (b / 65536)%N with (b / 256 / 256)%N by (rewrite N.div_div by lia; reflexivity).
    apply N.div_mod. lia. }
  lia.
Qed.

Lemma f32_trip_not_nan b : f32_is_nan b = false -> f32_trip b = b.
Proof. unfold f32_trip. intros ->. reflexivity. Qed.

Lemma tv_float_new_float b : f32_range b -> f32_is_nan b = false -> tv_float (new_float b) = b.
Proof.
  intros Hr Hn. unfold tv_float, new_float. cbn [tv_bytes].
  rewrite (f32_trip_not_nan b Hn).
  rewrite <- (app_nil_r (be4 b)). rewrite take_be4_be4 by exact Hr. apply f32_trip_not_nan. exact Hn.
Qed.

(* --- the journey of the scalar kinds --- *)
Lemma rt_string fx s o : journey fx (GString s) o = Ok (GString s).
Proof. reflexivity. Qed.
Lemma rt_ascii fx s o : journey fx (GAscii s) o = Ok (GString s).
Proof. reflexivity. Qed.

Lemma rt_int fx v o : int64_range v -> journey fx (GInt v) o = Ok (GInt v).
Proof.
  intros H. unfold journey, to_native. rewrite (wrap64_id v H). cbn [bind].
  unfold to_gnmi. cbn [tv_type new_int]. rewrite tv_int_new_int by exact H. reflexivity.
Qed.

Lemma rt_uint fx v o : uint64_range v -> journey fx (GUint v) o = Ok (GUint v).
Proof.
  intros H. unfold journey, to_native. rewrite (u64_id v H). cbn [bind].
  unfold to_gnmi. cbn [tv_type new_uint]. rewrite tv_uint_new_uint by exact H. reflexivity.
Qed.

Lemma rt_bool fx b o : journey fx (GBool b) o = Ok (GBool b).
Proof. destruct b; reflexivity. Qed.

Lemma rt_bytes fx b o : journey fx (GBytes b) o = Ok (GBytes b).
Proof. reflexivity. Qed.

Lemma rt_decimal fx d p o :
  int64_range d -> 0 <= p < 256 -> prec_ok fx p = true -> journey fx (GDecimal d p) o = Ok (GDecimal d p).
Proof.
  intros Hd Hp Hok. unfold journey, to_native. rewrite Hok. rewrite (wrap64_id d Hd).
  assert (Hu : u8 p = p) by (unfold u8; apply Z.mod_small; lia). rewrite Hu. cbn [bind].
  unfold to_gnmi. cbn [tv_type new_decimal]. rewrite tv_decimal_new_decimal by assumption. reflexivity.
Qed.

Lemma rt_float fx b o : f32_range b -> f32_is_nan b = false -> journey fx (GFloat b) o = Ok (GFloat b).
Proof.
  intros Hr Hn. unfold journey, to_native. rewrite Hn. cbn [bind].
  unfold to_gnmi. cbn [tv_type new_float]. rewrite tv_float_new_float by assumption. reflexivity.
Qed.

(* a NaN is refused, not altered *)
Lemma nan_refused fx b o : f32_is_nan b = true -> to_native fx (GFloat b) o = Err.
Proof. intros H. unfold to_native. rewrite H. reflexivity. Qed.

(* refutation: the unrepaired conversion keeps only 8 bits of a decimal precision *)
Lemma decimal_precision_refuted :
  exists d p o, int64_range d /\ journey false (GDecimal d p) o <> Ok (GDecimal d p).
Proof. exists 5, 256, None. split; [unfold int64_range; lia | vm_compute; discriminate]. Qed.

(* the repaired conversion refuses what it cannot keep *)
Lemma decimal_precision_refused d p o : 18 < p -> to_native true (GDecimal d p) o = Err.
Proof.
  intros H. unfold to_native, prec_ok. cbn [negb orb].
  destruct (p <=? 18) eqn:E; [apply Z.leb_le in E; lia | reflexivity].
Qed.

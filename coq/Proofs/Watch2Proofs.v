(* Facts about the delivery model Watch2.v *)
From Coq Require Import List Arith Bool Lia.
From OC Require Import Model.Watch2.
Import ListNotations.

Section PerTransaction.
  Context {A : Type}.

  Lemma delivered_incl (h : list A) j k x : In x (delivered h j k) -> In x h.
  Proof.
    unfold delivered. intros Hin.
    assert (Hs : forall y, In y (skipn j h) -> In y h).
    { intros y Hy. rewrite <- (firstn_skipn j h). apply in_or_app. right. exact Hy. }
    destruct k as [|k']; [apply Hs; exact Hin|].
    destruct (nth_error h k') as [y|] eqn:E; [|apply Hs; exact Hin].
    destruct Hin as [<- | Hin]; [eapply nth_error_In; exact E | apply Hs; exact Hin].
  Qed.

  Lemma last_skipn (h : list A) j d : j < length h -> last (skipn j h) d = last h d.
  Proof.
    revert j. induction h as [|a h IH]; intros j Hj; cbn in Hj; [lia|].
    destruct j as [|j]; [reflexivity|].
    cbn [skipn]. rewrite IH by lia.
    destruct h as [|b h]; [cbn in Hj; lia | reflexivity].
  Qed.

  Lemma nth_error_last (h : list A) d : h <> [] -> nth_error h (length h - 1) = Some (last h d).
  Proof.
    induction h as [|a h IH]; intros Hne; [congruence|].
    destruct h as [|b h]; [reflexivity|].
    cbn [length]. replace (S (S (length h)) - 1) with (S (length (b :: h) - 1)) by (cbn; lia).
    cbn [nth_error]. rewrite IH by discriminate. reflexivity.
  Qed.

  Lemma delivered_nonempty (h : list A) j k : placement_ok h j k = true -> delivered h j k <> [].
  Proof.
    unfold placement_ok, delivered. rewrite !andb_true_iff, !Nat.leb_le. intros [[H1 H2] H3].
    destruct k as [|k']; [lia|].
    destruct (nth_error h k') eqn:E; [discriminate|].
    apply nth_error_None in E. lia.
  Qed.

  (* the latest record always reaches the watcher: by the replay or by a live event *)
  Lemma delivered_last (h : list A) j k d :
    placement_ok h j k = true -> last (delivered h j k) d = last h d.
  Proof.
    unfold placement_ok, delivered. rewrite !andb_true_iff, !Nat.leb_le. intros [[H1 H2] H3].
    destruct k as [|k']; [lia|].
    destruct (nth_error h k') as [x|] eqn:E; [|apply nth_error_None in E; lia].
    destruct (Nat.lt_ge_cases j (length h)) as [Hlt|Hge].
    - assert (Hne : skipn j h <> []).
      { intros Hnil. apply (f_equal (@length A)) in Hnil. rewrite skipn_length in Hnil. cbn in Hnil. lia. }
      destruct (skipn j h) as [|y r] eqn:Es; [congruence|].
      change (last (x :: y :: r) d) with (last (y :: r) d). rewrite <- Es. apply last_skipn. exact Hlt.
    - assert (j = length h) by lia. assert (k' = length h - 1) by lia. subst j k'.
      rewrite skipn_all. cbn.
      assert (Hne : h <> []) by (destruct h; [cbn in H2; lia | discriminate]).
      rewrite (nth_error_last h d Hne) in E. congruence.
  Qed.
End PerTransaction.

Section WholeLog.
  Context {I A : Type} (id_eqb : I -> I -> bool).

  Lemma project_app tid (a b : list (I * A)) :
    project id_eqb tid (a ++ b) = project id_eqb tid a ++ project id_eqb tid b.
  Proof. unfold project. rewrite filter_app, map_app. reflexivity. Qed.

  Lemma last_opt_nil {X} (l : list X) : last_opt l = None -> l = [].
  Proof.
    unfold last_opt. destruct (rev l) eqn:E; [|discriminate]. intros _.
    apply (f_equal (@rev X)) in E. rewrite rev_involutive in E. exact E.
  Qed.

  Lemma last_opt_some {X} (l : list X) x : last_opt l = Some x -> exists l', l = l' ++ [x].
  Proof.
    unfold last_opt. destruct (rev l) as [|y r] eqn:E; [discriminate|]. intros [= ->].
    exists (rev r). apply (f_equal (@rev X)) in E. rewrite rev_involutive in E. exact E.
  Qed.

  Lemma skipn_length_app {X} (a b : list X) : skipn (length a) (a ++ b) = b.
  Proof. induction a; cbn; auto. Qed.

  (* the watcher of one transaction sees exactly what the per-transaction model says, with the two
     positions counted in that transaction's own history; the order j <= k carries over *)
  Lemma log_delivered_project (log : list (I * A)) tid j k :
    log_delivered id_eqb log tid j k =
    delivered (project id_eqb tid log)
              (length (project id_eqb tid (firstn j log)))
              (length (project id_eqb tid (firstn k log))).
  Proof.
    unfold log_delivered.
    assert (Hj : skipn (length (project id_eqb tid (firstn j log))) (project id_eqb tid log)
                 = project id_eqb tid (skipn j log)).
    { rewrite <- (firstn_skipn j log) at 2. rewrite project_app. apply skipn_length_app. }
    unfold delivered. rewrite Hj.
    destruct (last_opt (project id_eqb tid (firstn k log))) as [x|] eqn:E.
    - apply last_opt_some in E. destruct E as [l' El'].
      rewrite El'. rewrite app_length. cbn [length]. replace (length l' + 1) with (S (length l')) by lia.
      rewrite <- (firstn_skipn k log) at 2. rewrite project_app, El'.
      rewrite <- app_assoc. cbn [app].
      rewrite nth_error_app2 by lia. rewrite Nat.sub_diag. cbn. reflexivity.
    - apply last_opt_nil in E. rewrite E. reflexivity.
  Qed.

  Lemma project_firstn_mono (log : list (I * A)) tid j k :
    j <= k -> length (project id_eqb tid (firstn j log)) <= length (project id_eqb tid (firstn k log)).
  Proof.
    intros Hjk.
    replace (firstn j log) with (firstn j (firstn k log)).
    - rewrite <- (firstn_skipn j (firstn k log)) at 2. rewrite project_app, app_length. lia.
    - rewrite firstn_firstn. f_equal. lia.
  Qed.
End WholeLog.

(* Facts about the delivery model Watch2.v *)
From Coq Require Import List Arith Bool Lia.
From OC Require Import Model.Watch2.
Import ListNotations.

Section PerTransaction.
  Context {A : Type}.

  Lemma delivered_incl (h : list A) j k x : In x (delivered h j k) -> In x h.
  Proof.
    unfold delivered. intros Hin.
    assert (Hs : forall y, In y (skipn j h) -> In y h).
    { intros y Hy. rewrite <- (firstn_skipn j h). apply in_or_app. right. exact Hy. }
    destruct k as [|k']; [apply Hs; exact Hin|].
    destruct (nth_error h k') as [y|] eqn:E; [|apply Hs; exact Hin].
    destruct Hin as [<- | Hin]; [eapply nth_error_In; exact E | apply Hs; exact Hin].
  Qed.

  Lemma last_skipn (h : list A) j d : j < length h -> last (skipn j h) d = last h d.
  Proof.
    revert j. induction h as [|a h IH]; intros j Hj; cbn in Hj; [lia|].
    destruct j as [|j]; [reflexivity|].
    cbn [skipn]. rewrite IH by lia.
    destruct h as [|b h]; [cbn in Hj; lia | reflexivity].
  Qed.

  Lemma nth_error_last (h : list A) d : h <> [] -> nth_error h (length h - 1) = Some (last h d).
  Proof.
    induction h as [|a h IH]; intros Hne; [congruence|].
    destruct h as [|b h]; [reflexivity|].
    cbn [length]. replace (S (S (length h)) - 1) with (S (length (b :: h) - 1)) by (cbn; lia).
    cbn [nth_error]. rewrite IH by discriminate. reflexivity.
  Qed.

  Lemma delivered_nonempty (h : list A) j k : placement_ok h j k = true -> delivered h j k <> [].
  Proof.
    unfold placement_ok, delivered. rewrite !andb_true_iff, !Nat.leb_le. intros [[H1 H2] H3].
    destruct k as [|k']; [lia|].
    destruct (nth_error h k') eqn:E; [discriminate|].
    apply nth_error_None in E. lia.
  Qed.

  (* the latest record always reaches the watcher: by the replay or by a live event *)
  Lemma delivered_last (h : list A) j k d :
    placement_ok h j k = true -> last (delivered h j k) d = last h d.
  Proof.
    unfold placement_ok, delivered. rewrite !andb_true_iff, !Nat.leb_le. intros [[H1 H2] H3].
    destruct k as [|k']; [lia|].
    destruct (nth_error h k') as [x|] eqn:E; [|apply nth_error_None in E; lia].
    destruct (Nat.lt_ge_cases j (length h)) as [Hlt|Hge].
    - assert (Hne : skipn j h <> []).
      { intros Hnil. apply (f_equal (@length A)) in Hnil. rewrite skipn_length in Hnil. cbn in Hnil. lia. }
      destruct (skipn j h) as [|y r] eqn:Es; [congruence|].
      change (last (x :: y :: r) d) with (last (y :: r) d). rewrite <- Es. apply last_skipn. exact Hlt.
    - assert (j = length h) by lia. assert (k' = length h - 1) by lia. subst j k'.
      rewrite skipn_all. cbn.
      assert (Hne : h <> []) by (destruct h; [cbn in H2; lia | discriminate]).
      rewrite (nth_error_last h d Hne) in E. congruence.
  Qed.
End PerTransaction.

Section WholeLog.
  Context {I A : Type} (id_eqb : I -> I -> bool).

  Lemma project_app tid (a b : list (I * A)) :
    project id_eqb tid (a ++ b) = project id_eqb tid a ++ project id_eqb tid b.
  Proof. unfold project. rewrite filter_app, map_app. reflexivity. Qed.

  Lemma last_opt_nil {X} (l : list X) : last_opt l = None -> l = [].
  Proof.
    unfold last_opt. destruct (rev l) eqn:E; [|discriminate]. intros _.
    apply (f_equal (@rev X)) in E. rewrite rev_involutive in E. exact E.
  Qed.

  Lemma last_opt_some {X} (l : list X) x : last_opt l = Some x -> exists l', l = l' ++ [x].
  Proof.
    unfold last_opt. destruct (rev l) as [|y r] eqn:E; [discriminate|]. intros [= ->].
    exists (rev r). apply (f_equal (@rev X)) in E. rewrite rev_involutive in E. exact E.
  Qed.

  Lemma skipn_length_app {X} (a b : list X) : skipn (length a) (a ++ b) = b.
  Proof. induction a; cbn; auto. Qed.

  (* the watcher of one transaction sees exactly what the per-transaction model says, with the two
     positions counted in that transaction's own history; the order j <= k carries over *)
  Lemma log_delivered_project (log : list (I * A)) tid j k :
    log_delivered id_eqb log tid j k =
    delivered (project id_eqb tid log)
              (length (project id_eqb tid (firstn j log)))
              (length (project id_eqb tid (firstn k log))).
  Proof.
    unfold log_delivered.
    assert (Hj : skipn (length (project id_eqb tid (firstn j log))) (project id_eqb tid log)
                 = project id_eqb tid (skipn j log)).
    { rewrite <- (firstn_skipn j log) at 2. rewrite project_app. apply skipn_length_app. }
    unfold delivered. rewrite Hj.
    destruct (last_opt (project id_eqb tid (firstn k log))) as [x|] eqn:E.
    - apply last_opt_some in E. destruct E as [l' El'].
      rewrite El'. rewrite app_length. cbn [length]. replace (length l' + 1) with (S (length l')) by lia.
      rewrite <- (firstn_skipn k log) at 2. rewrite project_app, El'.
      rewrite <- app_assoc. cbn [app].
      rewrite nth_error_app2 by lia. rewrite Nat.sub_diag. cbn. reflexivity.
    - apply last_opt_nil in E. rewrite E. reflexivity.
  Qed.

  Lemma project_firstn_mono (log : list (I * A)) tid j k :
    j <= k -> length (project id_eqb tid (firstn j log)) <= length (project id_eqb tid (firstn k log)).
  Proof.
    intros Hjk.
    replace (firstn j log) with (firstn j (firstn k log)).
    - rewrite <- (firstn_skipn j (firstn k log)) at 2. rewrite project_app, app_length. lia.
    - rewrite firstn_firstn. f_equal. lia.
  Qed.
End WholeLog.

Section Registry.
  Context {I W : Type} (id_eqb : I -> I -> bool) (w_eqb : W -> W -> bool).
  Context (id_eqb_spec : forall a b, id_eqb a b = true <-> a = b).
  Context (w_eqb_spec : forall a b, w_eqb a b = true <-> a = b).

  Lemma id_eqb_false a b : id_eqb a b = false <-> a <> b.
  Proof.
    split; intros H.
    - intros E. apply id_eqb_spec in E. congruence.
    - destruct (id_eqb a b) eqn:E; [apply id_eqb_spec in E; contradiction | reflexivity].
  Qed.

  Lemma reg_get_set (r : list (I * list W)) t ws t' :
    reg_get id_eqb (reg_set id_eqb r t ws) t' = if id_eqb t t' then Some ws else reg_get id_eqb r t'.
  Proof.
    induction r as [|[k v] r IH]; cbn.
    - destruct (id_eqb t t'); reflexivity.
    - destruct (id_eqb k t) eqn:Ekt; cbn.
      + apply id_eqb_spec in Ekt. subst k. destruct (id_eqb t t'); reflexivity.
      + destruct (id_eqb k t') eqn:Ekt'; [|exact IH].
        apply id_eqb_spec in Ekt'. subst k. rewrite (proj2 (id_eqb_false t t')); [reflexivity|].
        apply id_eqb_false in Ekt. congruence.
  Qed.

  Lemma reg_get_del (r : list (I * list W)) t t' :
    reg_get id_eqb (reg_del id_eqb r t) t' = if id_eqb t t' then None else reg_get id_eqb r t'.
  Proof.
    induction r as [|[k v] r IH]; cbn.
    - destruct (id_eqb t t'); reflexivity.
    - destruct (id_eqb k t) eqn:Ekt; cbn.
      + apply id_eqb_spec in Ekt. subst k. rewrite IH. destruct (id_eqb t t'); reflexivity.
      + destruct (id_eqb k t') eqn:Ekt'; [|exact IH].
        apply id_eqb_spec in Ekt'. subst k. rewrite (proj2 (id_eqb_false t t')); [reflexivity|].
        apply id_eqb_false in Ekt. congruence.
  Qed.

  Lemma in_remove_watcher w ws x : In x (remove_watcher w_eqb w ws) <-> In x ws /\ x <> w.
  Proof.
    unfold remove_watcher. rewrite filter_In, negb_true_iff. split; intros [H1 H2]; split; try exact H1.
    - intros E. apply w_eqb_spec in E. congruence.
    - destruct (w_eqb x w) eqn:E; [apply w_eqb_spec in E; contradiction | reflexivity].
  Qed.

  (* a watcher that leaves takes only itself out: every other watcher, of the same transaction or of
     another one, stays registered (and nobody gets registered by it) *)
  Theorem unregister_others_unaffected (r : list (I * list W)) t2 w2 t1 w1 :
    w1 <> w2 ->
    (In w1 (watchers_of id_eqb (unregister id_eqb w_eqb r t2 w2) t1) <-> In w1 (watchers_of id_eqb r t1)).
  Proof.
    intros Hne. unfold unregister, watchers_of.
    destruct (reg_get id_eqb r t2) as [ws|] eqn:Eg; [|reflexivity].
    destruct (remove_watcher w_eqb w2 ws) as [|y ws'] eqn:Er.
    - rewrite reg_get_del. destruct (id_eqb t2 t1) eqn:E; [|reflexivity].
      apply id_eqb_spec in E. subst t1. rewrite Eg. split; [intros []|].
      intros Hin. assert (H : In w1 (remove_watcher w_eqb w2 ws)) by (apply in_remove_watcher; split; assumption).
      rewrite Er in H. exact H.
    - rewrite reg_get_set. destruct (id_eqb t2 t1) eqn:E; [|reflexivity].
      apply id_eqb_spec in E. subst t1. rewrite Eg, <- Er. rewrite in_remove_watcher. tauto.
  Qed.

  Theorem unregister_removes (r : list (I * list W)) t w : ~ In w (watchers_of id_eqb (unregister id_eqb w_eqb r t w) t).
  Proof.
    unfold unregister, watchers_of.
    destruct (reg_get id_eqb r t) as [ws|] eqn:Eg; [|rewrite Eg; intros []].
    destruct (remove_watcher w_eqb w ws) as [|y ws'] eqn:Er.
    - rewrite reg_get_del, (proj2 (id_eqb_spec t t) eq_refl). intros [].
    - rewrite reg_get_set, (proj2 (id_eqb_spec t t) eq_refl), <- Er. rewrite in_remove_watcher. tauto.
  Qed.

  Theorem register_adds (r : list (I * list W)) t w t' w' :
    In w' (watchers_of id_eqb (register id_eqb r t w) t') <->
    (t = t' /\ w' = w) \/ In w' (watchers_of id_eqb r t').
  Proof.
    unfold register, watchers_of at 1. rewrite reg_get_set.
    destruct (id_eqb t t') eqn:E.
    - apply id_eqb_spec in E. subst t'. cbn. split.
      + intros [<- | H]; [left; split; reflexivity | right; exact H].
      + intros [[_ ->] | H]; [left; reflexivity | right; exact H].
    - apply id_eqb_false in E. split; [intros H; right; exact H | intros [[H _] | H]; [contradiction | exact H]].
  Qed.
End Registry.

(* Proto3OrderStep: every Reconcile call of Model/Proto3.v, stopped after any number of its store writes, keeps the
   frontier invariant: each effect it issues is one of the write kinds of Proto3OrderTx/TxA/Cfg/CfgC/CfgA/CfgAC, with the
   kind's guards holding in the state the effect is applied to. *)
From Coq Require Import List NArith Bool Arith Lia.
From OC Require Import Model.Proto3 Spec.Tla3 Proofs.Proto3Proofs Proofs.Proto3OrderBase Proofs.Proto3OrderStepBase
  Proofs.Proto3OrderTx Proofs.Proto3OrderTxA Proofs.Proto3OrderCfg Proofs.Proto3OrderCfgC Proofs.Proto3OrderCfgA Proofs.Proto3OrderCfgA2
  Proofs.Proto3OrderCfgAC.
Import ListNotations.
Open Scope N_scope.

(* the reconciled transaction and the configuration record along a chain of effects *)
Record ST (w : world) (i : N) (t : txn) (c : config) : Prop :=
  { st_inv : Inv w; st_tx : get_tx w i = Some t; st_cfg : w_cfg w = Some c }.

Lemma ST_IA w i t c : ST w i t c -> IA (get_tx w) (nlen w) (c_cm c) (c_ap c) (w_hist w).
Proof. intros [H1 H2 H3]. apply Inv_cfg; assumption. Qed.

Definition stored (c' : config) (cv : vals) : config :=
  {| c_state := c_state c'; c_master := c_master c'; c_mterm := c_mterm c'; c_cm := c_cm c';
     c_inline := cv; c_ap := c_ap c'; c_apterm := c_apterm c' |}.

Lemma chain_cfg o w i t c c' cv av evs r :
  ST w i t c ->
  IA (get_tx w) (nlen w) (c_cm c') (c_ap c') (w_hist w ++ evs) ->
  (ST (apply_eff o w (EPutCfg c' cv av evs)) i t (stored c' cv) -> okchain o (apply_eff o w (EPutCfg c' cv av evs)) r) ->
  okchain o w (EPutCfg c' cv av evs :: r).
Proof.
  intros [H1 H2 H3] HA K. cbn [okchain].
  assert (HI : Inv (apply_eff o w (EPutCfg c' cv av evs))) by (apply put_cfg_inv; exact HA).
  split; [exact HI|]. apply K. constructor; [exact HI | exact H2 | reflexivity].
Qed.

Lemma chain_tx o w i t c t' evs r :
  ST w i t c ->
  IA (updf (get_tx w) i t') (nlen w) (c_cm c) (c_ap c) (w_hist w ++ evs) ->
  (ST (apply_eff o w (EPutTx i t' evs)) i t' c -> okchain o (apply_eff o w (EPutTx i t' evs)) r) ->
  okchain o w (EPutTx i t' evs :: r).
Proof.
  intros [H1 H2 H3] HA K. cbn [okchain].
  assert (HI : Inv (apply_eff o w (EPutTx i t' evs))).
  { apply (put_tx_inv o w i t t' evs H2). unfold cmc, apc. rewrite H3. exact HA. }
  split; [exact HI|]. apply K. constructor; [exact HI | apply (get_tx_put_tx_same o w i t t' evs H2) | exact H3].
Qed.

Lemma chain_dev o w i t c el req code r :
  ST w i t c ->
  (ST (apply_eff o w (EDev el req code)) i t c -> okchain o (apply_eff o w (EDev el req code)) r) ->
  okchain o w (EDev el req code :: r).
Proof.
  intros [H1 H2 H3] K. cbn [okchain].
  assert (HI : Inv (apply_eff o w (EDev el req code))) by (apply dev_inv; exact H1).
  split; [exact HI|]. apply K. constructor; [exact HI | rewrite get_tx_dev; exact H2 | rewrite cfg_dev; exact H3].
Qed.

Lemma chain_panic o w : Inv w -> okchain o w [EPanic].
Proof. intros H. cbn [okchain]. split; [apply (panic_inv o w H) | exact I]. Qed.

(* the history of a world is only read through IA; after a device request it is the same *)
Lemma ST_IA_dev o w i t c el req code : ST (apply_eff o w (EDev el req code)) i t c ->
  IA (get_tx (apply_eff o w (EDev el req code))) (nlen (apply_eff o w (EDev el req code))) (c_cm c) (c_ap c)
     (w_hist (apply_eff o w (EDev el req code))).
Proof. apply ST_IA. Qed.

(* status equations in code form *)
Ltac codes :=
  repeat match goal with
         | E : t_cc _ = _ |- _ => apply (f_equal st_code) in E; cbn [st_code] in E
         | E : t_ca _ = _ |- _ => apply (f_equal st_code) in E; cbn [st_code] in E
         | E : t_rc _ = _ |- _ => apply (f_equal oc) in E; cbn [oc st_code] in E
         | E : t_ra _ = _ |- _ => apply (f_equal oc) in E; cbn [oc st_code] in E
         end.

Ltac prjs :=
  unfold stored, cfg_cm, cfg_ap, cfg_with, cur_with, set_cc, set_ca, set_rc, set_ra, tx_set_change, tx_set_rollback, flds;
  cbn [c_cm c_ap k_index k_ordinal k_revision k_target k_change
       t_rb t_cc t_ca t_cord t_rc t_ra t_rord t_ridx st_code oc].
Ltac prjs_in H :=
  unfold stored, cfg_cm, cfg_ap, cfg_with, cur_with, set_cc, set_ca, set_rc, set_ra, tx_set_change, tx_set_rollback in H;
  cbn [c_cm c_ap k_index k_ordinal k_revision k_target k_change
       t_rb t_cc t_ca t_cord t_rc t_ra t_rord t_ridx st_code oc] in H.
Ltac side := prjs; first [ eassumption | reflexivity | lia | (intros; lia) ].

(* the conjuncts of the invariant at the reconciled transaction, as plain hypotheses for lia *)
Ltac fact H := let X := fresh "F" in pose proof H as X; prjs_in X.
(* a conjunct whose status premise is known: keep its conclusion only *)
Ltac known := first [ assumption | reflexivity | (left; first [assumption | reflexivity]) | (right; first [assumption | reflexivity]) ].
Ltac fact_if H :=
  let X := fresh "F" in pose proof H as X; prjs_in X;
  first [ specialize (X ltac:(known)) | clear X ].
Ltac facts S t :=
  let HS := fresh "HS" in
  pose proof (proj1 (ST_IA _ _ _ _ S)) as HS;
  fact (s1 _ _ _ _ HS);
  fact (s3c _ _ _ _ HS _ t (st_tx _ _ _ _ S));
  fact_if (s5 _ _ _ _ HS _ t (st_tx _ _ _ _ S)); fact_if (a1 _ _ _ _ HS _ t (st_tx _ _ _ _ S));
  fact_if (a2 _ _ _ _ HS _ t (st_tx _ _ _ _ S)); fact_if (b1 _ _ _ _ HS _ t (st_tx _ _ _ _ S));
  fact (s4 _ _ _ _ HS _ t (st_tx _ _ _ _ S));
  clear HS.

Ltac done_chain := first [ exact I | cbn [okchain]; exact I ].

(* one configuration write / one transaction write: the kind is read off the event the write carries *)
Ltac use_cfg L S tx := eapply L with (t := tx); [apply (ST_IA _ _ _ _ S) | apply (st_tx _ _ _ _ S) | side .. ].
Ltac cfg_kind S t :=
  lazymatch goal with
  | |- IA _ _ _ _ (_ ++ [ev PhChange StCommit _ InProgress]) => use_cfg cfg_C1 S t
  | |- IA _ _ _ _ (_ ++ [ev PhChange StCommit _ Complete]) => use_cfg cfg_C4 S t
  | |- IA _ _ _ _ (_ ++ [ev PhRollback StCommit _ InProgress]) => use_cfg cfg_R1 S t
  | |- IA _ _ _ _ (_ ++ [ev PhRollback StCommit _ Complete]) => use_cfg cfg_R2 S t
  | |- IA _ _ _ _ (_ ++ [ev PhChange StApply _ InProgress]) => use_cfg cfg_AC1 S t
  | |- IA _ _ _ _ (_ ++ [ev PhChange StApply _ Complete]) => use_cfg cfg_AC4 S t
  | |- IA _ _ _ _ (_ ++ [ev PhRollback StApply _ InProgress]) => use_cfg cfg_AR1 S t
  | |- IA _ _ _ _ (_ ++ [ev PhRollback StApply _ Complete]) => use_cfg cfg_AR4 S t
  | |- IA _ _ _ _ (_ ++ []) => first [ use_cfg cfg_C5 S t | use_cfg cfg_bump S t | use_cfg cfg_AR3 S t ]
  end.

Ltac use_tx L S tx := eapply L with (t := tx); [apply (ST_IA _ _ _ _ S) | apply (st_tx _ _ _ _ S) | side .. ].
Ltac use_done S tx := eapply tx_AR_done with (t := tx); [apply (ST_IA _ _ _ _ S) | apply (st_tx _ _ _ _ S) | side | side | repeat constructor | side ].
(* t' is the written record as the model builds it *)
Ltac tx_kind S tx t' :=
  lazymatch t' with
  | tx_set_rollback (set_cc _ InProgress) _ _ _ _ _ _ => use_tx tx_C1' S tx
  | tx_set_change _ Complete _ _ _ _ => use_tx tx_C2 S tx
  | tx_set_change _ Failed Canceled _ _ _ => use_tx tx_C3 S tx
  | set_rc _ InProgress _ => use_tx tx_R1' S tx
  | set_rc _ Complete _ => use_tx tx_R3 S tx
  | set_ca _ InProgress _ => use_tx tx_AC1' S tx
  | set_ca _ Aborted _ => use_tx tx_abort S tx
  | set_ca _ Complete _ => use_tx tx_AC2 S tx
  | set_ca _ Failed _ => use_tx tx_AC3 S tx
  | set_ra _ InProgress _ => use_tx tx_AR1' S tx
  | set_ra _ Complete _ => use_tx tx_AR2 S tx
  | set_ra _ Failed _ => use_tx tx_AR3 S tx
  end.

(* walk the chain *)
Ltac walk S t :=
  lazymatch goal with
  | |- okchain _ _ [] => exact I
  | |- okchain _ _ [EPanic] => apply chain_panic; apply (st_inv _ _ _ _ S)
  | |- okchain _ _ (EDev _ _ _ :: _) =>
      eapply chain_dev; [exact S|]; let S' := fresh "S" in intros S'; facts S' t; walk S' t
  | |- okchain _ _ (EPutCfg _ _ _ _ :: _) =>
      eapply chain_cfg; [exact S | prjs; cfg_kind S t |]; let S' := fresh "S" in intros S'; facts S' t; walk S' t
  | |- okchain _ _ (EPutTx _ ?t' _ :: _) =>
      eapply chain_tx; [exact S | prjs; tx_kind S t t' |]; let S' := fresh "S" in intros S'; facts S' t'; walk S' t'
  end.

Lemma commit_change_inv o w i t c r : ST w i t c ->
  commit_change o w i t c = Some r -> okchain o w (fst r).
Proof.
  intros S H.
  unfold commit_change in H. destruct (t_cc t) eqn:Ecc; try discriminate;
    revert H; break_match; intros H; inversion H; subst; clear H; cbn [fst]; unfold put_cfg; b2p; codes.
  all: try (pose proof (gate_commit_change_go _ _ ltac:(eassumption)) as Gt).
  all: facts S t; walk S t.
Qed.

Lemma commit_rollback_inv o w i t c r : ST w i t c ->
  commit_rollback o w i t c = Some r -> okchain o w (fst r).
Proof.
  intros S H.
  unfold commit_rollback in H. destruct (t_rc t) as [rcs|] eqn:Erc; [|discriminate].
  destruct rcs; try discriminate;
    revert H; break_match; intros H; inversion H; subst; clear H; cbn [fst]; unfold put_cfg; b2p; codes.
  all: try (match goal with G : gate_commit_rollback _ _ _ = GGo |- _ =>
              pose proof (gate_commit_rollback_go _ _ _ _ G (st_tx _ _ _ _ S) ltac:(lia)) as Gt end).
  all: facts S t; walk S t.
Qed.

Lemma apply_change_inv o w i t c r : ST w i t c ->
  apply_change o w i t c = Some r -> okchain o w (fst r).
Proof.
  intros S H.
  unfold apply_change in H. destruct (st_eqb (t_cc t) Complete) eqn:Ecc; cbn [negb] in H; [|discriminate].
  destruct (t_ca t) eqn:Eca; try discriminate;
    revert H; break_match; intros H; inversion H; subst; clear H; cbn [fst]; unfold put_cfg; b2p; codes.
  all: try (match goal with G : gate_apply_change _ _ = GGo |- _ => pose proof (gate_apply_change_go _ _ G) as Gt end).
  all: facts S t; walk S t.
Qed.

Lemma apply_rollback_inv o w i t c r : ST w i t c ->
  apply_rollback o w i t c = Some r -> okchain o w (fst r).
Proof.
  intros S H.
  unfold apply_rollback in H. destruct (t_rc t) as [rcs|] eqn:Erc; [|discriminate].
  destruct rcs; try discriminate.
  destruct (t_ra t) as [ras|] eqn:Era; [|discriminate].
  destruct ras; try discriminate;
    revert H; break_match; intros H; inversion H; subst; clear H; cbn [fst]; unfold put_cfg; b2p; codes.
  all: try (match goal with G : gate_abort _ _ = GGo |- _ => pose proof (gate_abort_go _ _ G) as Gt end).
  all: facts S t; walk S t.
Qed.

Lemma rec_tx_inv o w i : Inv w -> okchain o w (fst (rec_tx o w i)).
Proof.
  intros HI. unfold rec_tx.
  destruct (get_tx w i) as [t|] eqn:Et; [|exact I].
  destruct (w_cfg w) as [c|] eqn:Ec; [|exact I].
  assert (S : ST w i t c) by (constructor; assumption).
  destruct (t_rb t); unfold orelse.
  - destruct (commit_rollback o w i t c) as [r|] eqn:E1; [eapply commit_rollback_inv; eauto|].
    destruct (apply_rollback o w i t c) as [r|] eqn:E2; [eapply apply_rollback_inv; eauto | exact I].
  - destruct (commit_change o w i t c) as [r|] eqn:E1; [eapply commit_change_inv; eauto|].
    destruct (apply_change o w i t c) as [r|] eqn:E2; [eapply apply_change_inv; eauto | exact I].
Qed.

(* the configuration and mastership reconcilers: device requests and configuration writes that leave both cursors alone *)
Definition neutral (cm ap : cursor) (e : eff) : Prop :=
  match e with
  | EDev _ _ _ => True
  | EPutCfg c' _ _ [] => c_cm c' = cm /\ c_ap c' = ap
  | _ => False
  end.

Lemma neutral_chain o effs : forall w, Forall (neutral (cmc w) (apc w)) effs -> Inv w -> okchain o w effs.
Proof.
  induction effs as [|e r IH]; intros w F HI; [exact I|].
  inversion F as [|? ? He Fr]; subst. cbn [okchain].
  destruct e as [i t evs | c' cv av evs | el req code | ]; cbn in He; try contradiction.
  - destruct evs; [|contradiction]. destruct He as [E1 E2].
    assert (HI' : Inv (apply_eff o w (EPutCfg c' cv av []))).
    { apply put_cfg_inv. rewrite E1, E2, app_nil_r. exact HI. }
    split; [exact HI'|]. apply IH; [|exact HI'].
    replace (cmc (apply_eff o w (EPutCfg c' cv av []))) with (cmc w) by (symmetry; exact E1).
    replace (apc (apply_eff o w (EPutCfg c' cv av []))) with (apc w) by (symmetry; exact E2).
    exact Fr.
  - assert (HI' : Inv (apply_eff o w (EDev el req code))) by (apply dev_inv; exact HI).
    split; [exact HI'|]. apply IH; [|exact HI'].
    unfold cmc, apc. rewrite cfg_dev. exact Fr.
Qed.

Ltac neutrals := repeat (first [apply Forall_nil | apply Forall_cons]); unfold neutral, put_cfg, cfg_with; cbn [c_cm c_ap]; try exact I; try (split; reflexivity).

Lemma rec_cfg_neutral o w c : w_cfg w = Some c -> Forall (neutral (c_cm c) (c_ap c)) (fst (rec_cfg o w)).
Proof.
  intros Hc. unfold rec_cfg. rewrite Hc. break_match; cbn [fst]; neutrals.
  all: try (apply Forall_app; split; [apply Forall_forall; intros e He; apply in_map_iff in He; destruct He as [g0 [<- _]]; exact I | neutrals]).
Qed.

Lemma rec_master_neutral o w c : w_cfg w = Some c -> Forall (neutral (c_cm c) (c_ap c)) (fst (rec_master o w)).
Proof. intros Hc. unfold rec_master. rewrite Hc. break_match; cbn [fst]; neutrals. Qed.

Lemma rec_cfg_inv o w : Inv w -> okchain o w (fst (rec_cfg o w)).
Proof.
  intros HI. destruct (w_cfg w) as [c|] eqn:Hc.
  - apply neutral_chain; [|exact HI]. unfold cmc, apc. rewrite Hc. apply rec_cfg_neutral; exact Hc.
  - unfold rec_cfg. rewrite Hc. exact I.
Qed.

Lemma rec_master_inv o w : Inv w -> okchain o w (fst (rec_master o w)).
Proof.
  intros HI. destruct (w_cfg w) as [c|] eqn:Hc.
  - apply neutral_chain; [|exact HI]. unfold cmc, apc. rewrite Hc. apply rec_master_neutral; exact Hc.
  - unfold rec_master. rewrite Hc. exact I.
Qed.

(* ------------------------------------------------------------------ every label *)
Lemma get_tx_w0 j : get_tx w0 j = None.
Proof. unfold get_tx. cbn. destruct (j =? 0); [reflexivity | destruct (N.to_nat (j - 1)); reflexivity]. Qed.

Lemma Inv_w0 : Inv w0.
Proof.
  unfold Inv, IA. split.
  - constructor; intros;
      repeat match goal with H : get_tx w0 _ = Some _ |- _ => rewrite get_tx_w0 in H; discriminate H end;
      cbn in *; lia.
  - constructor; intros;
      repeat match goal with H : get_tx w0 _ = Some _ |- _ => rewrite get_tx_w0 in H; discriminate H end;
      cbn in *; try contradiction; reflexivity.
Qed.

Lemma step_inv w l : Inv w -> Inv (step w l).
Proof.
  intros HI. unfold step. destruct (w_panicked w); [exact HI|].
  destruct l.
  - (* create configuration *)
    destruct (w_cfg w) eqn:Hc; [exact HI|].
    unfold Inv, cmc, apc in *. rewrite Hc in HI. cbn. exact HI.
  - (* append *)
    change (upd w (w_txs w ++ [new_txn vs]) (w_cfg w) (w_pmap w) (w_target w) (w_rels w) (w_conns w) (w_dev w) (w_elect w))
      with (with_txs w (w_txs w ++ [new_txn vs]) (w_hist w)).
    unfold Inv.
    replace (nlen (with_txs w (w_txs w ++ [new_txn vs]) (w_hist w))) with (nlen w + 1)
      by (unfold nlen; cbn; rewrite app_length; cbn; lia).
    eapply IA_ext; [intros j; symmetry; apply get_tx_app|].
    apply tx_append; [exact HI | reflexivity].
  - (* rollback request *)
    destruct (get_tx w i) as [t|] eqn:Et; [|exact HI].
    match goal with |- Inv (upd w (set_nth ?n ?t' (w_txs w)) _ _ _ _ _ _ _) =>
      change (Inv (with_txs w (set_nth n t' (w_txs w)) (w_hist w))); set (tn := t') end.
    unfold Inv.
    replace (nlen (with_txs w (set_nth (N.to_nat (i - 1)) tn (w_txs w)) (w_hist w))) with (nlen w)
      by (unfold nlen; cbn; rewrite set_nth_length; reflexivity).
    eapply IA_ext; [intros j; symmetry; apply get_tx_set with (t := t); exact Et|].
    eapply tx_Rb with (t := t); [exact HI | exact Et | reflexivity].
  - apply run_effs_chain; [exact HI | apply rec_tx_inv; exact HI].
  - apply run_effs_chain; [exact HI | apply rec_cfg_inv; exact HI].
  - apply run_effs_chain; [exact HI | apply rec_master_inv; exact HI].
  - exact HI.
  - exact HI.
  - exact HI.
  - exact HI.
Qed.

(* THE FRONTIER INVARIANT holds in every reachable world *)
Theorem Inv_reach : forall w, reach w -> Inv w.
Proof. apply (reach_ind_inv Inv); [exact Inv_w0 | intros w l; apply step_inv]. Qed.

Theorem order_reach : forall w, reach w -> order_ok (w_hist w) = true.
Proof. intros w H. exact (h_ord _ _ _ _ (proj2 (Inv_reach w H))). Qed.

(* Proto3OrderStep: every Reconcile call of Model/Proto3.v, stopped after any number of its store writes, keeps the
   frontier invariant: each effect it issues is one of the write kinds of Proto3OrderTx/TxA/Cfg/CfgC/CfgA/CfgAC, with the
   kind's guards holding in the state the effect is applied to. *)
From Coq Require Import List NArith Bool Arith Lia.
From OC Require Import Model.Proto3 Spec.Tla3 Proofs.Proto3Proofs Proofs.Proto3OrderBase Proofs.Proto3OrderStepBase
  Proofs.Proto3OrderTx Proofs.Proto3OrderTxA Proofs.Proto3OrderCfg Proofs.Proto3OrderCfgC Proofs.Proto3OrderCfgA Proofs.Proto3OrderCfgA2
  Proofs.Proto3OrderCfgAC.
Import ListNotations.
Open Scope N_scope.

(* the reconciled transaction and the configuration record along a chain of effects *)
Record ST (w : world) (i : N) (t : txn) (c : config) : Prop :=
  { st_inv : Inv w; st_tx : get_tx w i = Some t; st_cfg : w_cfg w = Some c }.

Lemma ST_IA w i t c : ST w i t c -> IA (get_tx w) (nlen w) (c_cm c) (c_ap c) (w_hist w).
Proof. intros [H1 H2 H3]. apply Inv_cfg; assumption. Qed.

Definition stored (c' : config) (cv : vals) : config :=
  {| c_state := c_state c'; c_master := c_master c'; c_mterm := c_mterm c'; c_cm := c_cm c';
     c_inline := cv; c_ap := c_ap c'; c_apterm := c_apterm c' |}.

Lemma chain_cfg o w i t c c' cv av evs r :
  ST w i t c ->
  IA (get_tx w) (nlen w) (c_cm c') (c_ap c') (w_hist w ++ evs) ->
  (ST (apply_eff o w (EPutCfg c' cv av evs)) i t (stored c' cv) -> okchain o (apply_eff o w (EPutCfg c' cv av evs)) r) ->
  okchain o w (EPutCfg c' cv av evs :: r).
Proof.
  intros [H1 H2 H3] HA K. cbn [okchain].
  assert (HI : Inv (apply_eff o w (EPutCfg c' cv av evs))) by (apply put_cfg_inv; exact HA).
  split; [exact HI|]. apply K. constructor; [exact HI | exact H2 | reflexivity].
Qed.

Lemma chain_tx o w i t c t' evs r :
  ST w i t c ->
  IA (updf (get_tx w) i t') (nlen w) (c_cm c) (c_ap c) (w_hist w ++ evs) ->
  (ST (apply_eff o w (EPutTx i t' evs)) i t' c -> okchain o (apply_eff o w (EPutTx i t' evs)) r) ->
  okchain o w (EPutTx i t' evs :: r).
Proof.
  intros [H1 H2 H3] HA K. cbn [okchain].
  assert (HI : Inv (apply_eff o w (EPutTx i t' evs))).
  { apply (put_tx_inv o w i t t' evs H2). unfold cmc, apc. rewrite H3. exact HA. }
  split; [exact HI|]. apply K. constructor; [exact HI | apply (get_tx_put_tx_same o w i t t' evs H2) | exact H3].
Qed.

Lemma chain_dev o w i t c el req code r :
  ST w i t c ->
  (ST (apply_eff o w (EDev el req code)) i t c -> okchain o (apply_eff o w (EDev el req code)) r) ->
  okchain o w (EDev el req code :: r).
Proof.
  intros [H1 H2 H3] K. cbn [okchain].
  assert (HI : Inv (apply_eff o w (EDev el req code))) by (apply dev_inv; exact H1).
  split; [exact HI|]. apply K. constructor; [exact HI | rewrite get_tx_dev; exact H2 | rewrite cfg_dev; exact H3].
Qed.

Lemma chain_panic o w : Inv w -> okchain o w [EPanic].
Proof. intros H. cbn [okchain]. split; [apply (panic_inv o w H) | exact I]. Qed.

(* the history of a world is only read through IA; after a device request it is the same *)
Lemma ST_IA_dev o w i t c el req code : ST (apply_eff o w (EDev el req code)) i t c ->
  IA (get_tx (apply_eff o w (EDev el req code))) (nlen (apply_eff o w (EDev el req code))) (c_cm c) (c_ap c)
     (w_hist (apply_eff o w (EDev el req code))).
Proof. apply ST_IA. Qed.

(* status equations in code form *)
Ltac codes :=
  repeat match goal with
         | E : t_cc _ = _ |- _ => apply (f_equal st_code) in E; cbn [st_code] in E
         | E : t_ca _ = _ |- _ => apply (f_equal st_code) in E; cbn [st_code] in E
         | E : t_rc _ = _ |- _ => apply (f_equal oc) in E; cbn [oc st_code] in E
         | E : t_ra _ = _ |- _ => apply (f_equal oc) in E; cbn [oc st_code] in E
         end.

Ltac prjs :=
  unfold stored, cfg_cm, cfg_ap, cfg_with, cur_with, set_cc, set_ca, set_rc, set_ra, tx_set_change, tx_set_rollback, flds;
  cbn [c_cm c_ap k_index k_ordinal k_revision k_target k_change
       t_rb t_cc t_ca t_cord t_rc t_ra t_rord t_ridx st_code oc].
Ltac prjs_in H :=
  unfold stored, cfg_cm, cfg_ap, cfg_with, cur_with, set_cc, set_ca, set_rc, set_ra, tx_set_change, tx_set_rollback in H;
  cbn [c_cm c_ap k_index k_ordinal k_revision k_target k_change
       t_rb t_cc t_ca t_cord t_rc t_ra t_rord t_ridx st_code oc] in H.
Ltac side := prjs; first [ eassumption | reflexivity | lia | (intros; lia) ].

(* the conjuncts of the invariant at the reconciled transaction, as plain hypotheses for lia *)
Ltac fact H := let X := fresh "F" in pose proof H as X; prjs_in X.
Ltac facts S t :=
  let HS := fresh "HS" in
  pose proof (proj1 (ST_IA _ _ _ _ S)) as HS;
  fact (s3c _ _ _ _ HS _ t (st_tx _ _ _ _ S)); fact (s4 _ _ _ _ HS _ t (st_tx _ _ _ _ S));
  fact (s5 _ _ _ _ HS _ t (st_tx _ _ _ _ S)); fact (a1 _ _ _ _ HS _ t (st_tx _ _ _ _ S));
  fact (a2 _ _ _ _ HS _ t (st_tx _ _ _ _ S)); fact (b1 _ _ _ _ HS _ t (st_tx _ _ _ _ S));
  fact (s1 _ _ _ _ HS);
  clear HS.

Ltac done_chain := first [ exact I | cbn [okchain]; exact I ].

(* one configuration write / one transaction write: the kind is read off the event the write carries *)
Ltac use_cfg L S t := eapply L with (t := t); [apply (ST_IA _ _ _ _ S) | apply (st_tx _ _ _ _ S) | side .. ].
Ltac cfg_kind S t :=
  lazymatch goal with
  | |- IA _ _ _ _ (_ ++ [ev PhChange StCommit _ InProgress]) => use_cfg cfg_C1 S t
  | |- IA _ _ _ _ (_ ++ [ev PhChange StCommit _ Complete]) => use_cfg cfg_C4 S t
  | |- IA _ _ _ _ (_ ++ [ev PhRollback StCommit _ InProgress]) => use_cfg cfg_R1 S t
  | |- IA _ _ _ _ (_ ++ [ev PhRollback StCommit _ Complete]) => use_cfg cfg_R2 S t
  | |- IA _ _ _ _ (_ ++ [ev PhChange StApply _ InProgress]) => use_cfg cfg_AC1 S t
  | |- IA _ _ _ _ (_ ++ [ev PhChange StApply _ Complete]) => use_cfg cfg_AC4 S t
  | |- IA _ _ _ _ (_ ++ [ev PhRollback StApply _ InProgress]) => use_cfg cfg_AR1 S t
  | |- IA _ _ _ _ (_ ++ [ev PhRollback StApply _ Complete]) => use_cfg cfg_AR4 S t
  | |- IA _ _ _ _ (_ ++ []) => first [ use_cfg cfg_C5 S t | use_cfg cfg_bump S t | use_cfg cfg_AR3 S t ]
  end.

Ltac use_tx L S t := eapply L with (t := t); [apply (ST_IA _ _ _ _ S) | apply (st_tx _ _ _ _ S) | side .. ].
Ltac tx_kind S t :=
  lazymatch goal with
  | |- IA _ _ _ _ (_ ++ [ev PhChange StCommit _ Failed]) => use_tx tx_C3 S t
  | |- IA _ _ _ _ (_ ++ [ev PhChange StApply _ Aborted]) => use_tx tx_abort S t
  | |- IA _ _ _ _ (_ ++ [ev PhChange StApply _ Failed]) => use_tx tx_AC3 S t
  | |- IA _ _ _ _ (_ ++ [ev PhRollback StApply _ Failed]) =>
      eapply tx_AR_done with (t := t); [apply (ST_IA _ _ _ _ S) | apply (st_tx _ _ _ _ S) | side | side | repeat constructor | side ]
  | |- IA (updf _ _ ?t') _ _ _ (_ ++ []) =>
      first [ use_tx tx_C1' S t | use_tx tx_C2 S t | use_tx tx_R1' S t | use_tx tx_R3 S t
            | use_tx tx_AC1' S t | use_tx tx_AC2 S t | use_tx tx_AR1' S t
            | eapply tx_AR_done with (t := t); [apply (ST_IA _ _ _ _ S) | apply (st_tx _ _ _ _ S) | side | side | constructor | side ] ]
  end.

(* walk the chain *)
Ltac walk S t :=
  lazymatch goal with
  | |- okchain _ _ [] => exact I
  | |- okchain _ _ [EPanic] => apply chain_panic; apply (st_inv _ _ _ _ S)
  | |- okchain _ _ (EDev _ _ _ :: _) =>
      eapply chain_dev; [exact S|]; let S' := fresh "S" in intros S'; facts S' t; walk S' t
  | |- okchain _ _ (EPutCfg _ _ _ _ :: _) =>
      eapply chain_cfg; [exact S | prjs; cfg_kind S t |]; let S' := fresh "S" in intros S'; facts S' t; walk S' t
  | |- okchain _ _ (EPutTx _ ?t' _ :: _) =>
      eapply chain_tx; [exact S | prjs; tx_kind S t |]; let S' := fresh "S" in intros S'; facts S' t'; walk S' t'
  end.

Lemma commit_change_inv o w i t c r : ST w i t c ->
  commit_change o w i t c = Some r -> okchain o w (fst r).
Proof.
  intros S H.
  unfold commit_change in H. destruct (t_cc t) eqn:Ecc; try discriminate;
    revert H; break_match; intros H; inversion H; subst; clear H; cbn [fst]; unfold put_cfg; b2p; codes.
  all: try (pose proof (gate_commit_change_go _ _ ltac:(eassumption)) as Gt).
  all: first [ (facts S t; walk S t) | idtac "FAILED" ].
  Show.
Qed.

(* C04: the well-formedness premises of Proofs/P2PureApplyInst.v are satisfiable along non-trivial runs of the
   executable instance: a boolean checker for "every step of the run is allowed and well-formed" (sound for crun_wf),
   evaluated on (1) the lagging-delete scenario of finding F-23 in every Go map order, (2) a run with a cascading
   delete, a re-creation beneath the tombstones, a rollback of the last change, a connection loss and the re-push in
   a new term.  The agreement at the end of each run then follows from the THEOREM converged_inst (not from
   computing the final world). *)
From stdpp Require Import gmap.
From RecordUpdate Require Import RecordUpdate.
From Coq Require Import NArith Lia.
From OC Require Import Base.Bytes Model.P2Pure Model.Proto2 Model.P2Inst Proofs.P2Base Proofs.P2_Cursor Proofs.P2_Converge
     Proofs.P2_ConvergeEx.
From OC Require Import Proofs.P2PureApplyDefs Proofs.P2PureApplyInst.
Open Scope N_scope.

Definition wf_step_b (w : Wd) (t : N) (l : Label) : bool :=
  match cfgs w !! t with
  | None => true
  | Some C =>
    wfk (c_ainline C) && wfk (c_avalues C) &&
    match l with
    | LRec (CtlProp (t', i)) _ _ =>
      if t' =? t then match props w !! (t, i) with
                      | Some P => wf_apply (c_ainline C) (c_avalues C) (rb_change nil P)
                      | None => true
                      end
      else true
    | LRec (CtlCfg t') _ _ => if t' =? t then no_live_below (aview overlay C) else true
    | _ => true
    end
  end.

Lemma wf_step_b_sound (w : Wd) t (l : Label) : wf_step_b w t l = true -> wf_step w t l.
Proof.
  unfold wf_step_b, wf_step. intros H C HC. rewrite HC in H. apply andb_true_iff in H. destruct H as [H H3].
  apply andb_true_iff in H. destruct H as [H1 H2]. split; [exact H1|]. split; [exact H2|].
  destruct l as [| |[|[t' i]|t'| |] k o| | | | | |]; try exact I.
  - intros ->. rewrite N.eqb_refl in H3. intros C0 P HC0 HP. rewrite HC in HC0. injection HC0 as <-.
    match type of H3 with context [match ?x with _ => _ end] =>
      destruct x as [P0|] eqn:E; [|exfalso; match type of HP with ?y = _ => change y with x in HP end; congruence] end.
    match type of HP with ?y = _ => match type of E with ?x = _ => change y with x in HP end end.
    rewrite E in HP. injection HP as <-. exact H3.
  - intros ->. rewrite N.eqb_refl in H3. exact H3.
Qed.

Definition allowed_b (t : N) (w : Wd) (l : Label) : bool :=
  match l with LRec c k o => Nat.leb (length (fst (p2_reconcile o w c))) k | _ => true end &&
  match l with LDevRestart t' => negb (t' =? t) | LTarget t' p => negb ((t' =? t) && p) | _ => true end &&
  wf_step_b w t l.

Lemma allowed_b_sound t (w : Wd) (l : Label) : allowed_b t w l = true -> allowed_wf t w l.
Proof.
  unfold allowed_b, allowed_wf. intros H. apply andb_true_iff in H. destruct H as [H H3].
  apply andb_true_iff in H. destruct H as [H1 H2]. split; [|split; [|split]].
  - destruct l; try exact I. cbn [complete]. apply Nat.leb_le. exact H1.
  - intros ->. rewrite N.eqb_refl in H2. discriminate.
  - intros ->. rewrite N.eqb_refl in H2. discriminate.
  - apply wf_step_b_sound. exact H3.
Qed.

Fixpoint run_ok (t : N) (ls : list Label) (w : Wd) : bool :=
  match ls with [] => true | l :: r => allowed_b t w l && run_ok t r (p2_step w l) end.

Lemma run_ok_crun_wf t (ls : list Label) : forall w0 w : Wd,
  crun_wf t w0 w -> run_ok t ls w = true -> crun_wf t w0 (fold_left p2_step ls w).
Proof.
  induction ls as [|l ls IH]; intros w0 w Hrun H; cbn [fold_left]; [exact Hrun|].
  cbn [run_ok] in H. apply andb_true_iff in H. destruct H as [H1 H2]. apply IH; [|exact H2].
  apply (crun_wf_step t w0 w l Hrun). apply allowed_b_sound. exact H1.
Qed.

(* from a converged start, a checked run ends in a world where SYNCHRONIZED in the current term means agreement *)
Theorem checked_run_agrees t (ls0 ls : list Label) (C' : Cfg) :
  i_conv (x_run ls0) t -> run_ok t ls (x_run ls0) = true ->
  cfgs (x_run (ls0 ++ ls)) !! t = Some C' -> c_state C' = CSynchronized -> c_aterm C' = c_term C' ->
  i_agrees (x_run (ls0 ++ ls)) t.
Proof.
  intros Hc Hok. unfold x_run at 1 2. rewrite fold_left_app. fold (x_run ls0).
  apply (converged_inst (x_run ls0) (fold_left p2_step ls (x_run ls0)) t C'); [apply x_run_reach|exact Hc|].
  apply run_ok_crun_wf; [apply crun_wf_refl|exact Hok].
Qed.

(** * (1) the lagging delete (finding F-23, repaired), every Go map order of the recording *)
(* the first 23 labels (target, connection, the first change, four rounds with the OK oracle) create the configuration *)
Definition lag_start : list Label := firstn 23 (l_lag_c (x_oracle_ord 0)).
Definition lag_rest (o : oracle) : list Label := skipn 23 (l_lag_c o).

Example lag_split : Forall (fun ord => l_lag_c (x_oracle_ord ord) = lag_start ++ lag_rest (x_oracle_ord ord)) ords6.
Proof. repeat (apply List.Forall_cons; [vm_compute; reflexivity|]). apply List.Forall_nil. Qed.

Example lag_start_conv : i_conv (x_run lag_start) 1.
Proof.
  eexists. split; [vm_compute; reflexivity|]. split; [vm_compute; discriminate|]. split; [intros _; vm_compute; reflexivity|].
  left. eexists. split; vm_compute; reflexivity.
Qed.

Example lag_run_wf : Forall (fun ord => run_ok 1 (lag_rest (x_oracle_ord ord)) (x_run lag_start) = true) ords6.
Proof. repeat (apply List.Forall_cons; [vm_compute; reflexivity|]). apply List.Forall_nil. Qed.

(** * (2) cascade, re-creation beneath tombstones, rollback, new term *)
(* /a/b = 1, /a/c = 2 | delete /a | /a/b/d = 3 (beneath the tombstones of /a and /a/b) | rollback of the last change |
   connection lost and replaced: re-push in term 2 *)
Definition big_start : list Label :=
  [LTarget 1 false; LConnUp 10 1; LChange [(1, x_ch "/a/b" "1" ++ x_ch "/a/c" "2")] true false] ++ x_rounds 4 (x_oracle COk) 10 1 [1].
Definition big_rest (o : oracle) : list Label :=
  x_rounds 10 o 10 1 [1]
  ++ [LChange [(1, x_del "/a")] true false] ++ x_rounds 12 o 10 1 [1; 2]
  ++ [LChange [(1, x_ch "/a/b/d" "3")] true false] ++ x_rounds 12 o 10 1 [1; 2; 3]
  ++ [LRollback 3] ++ x_rounds 20 o 10 1 [1; 2; 3; 4]
  ++ [LConnDown 10; LRec (CtlConn 10) 9 (x_oracle COk); LRec (CtlMaster 1) 9 (x_oracle COk); LConnUp 11 1]
  ++ x_rounds 4 (x_oracle COk) 11 1 [].

Example big_start_conv : i_conv (x_run big_start) 1.
Proof.
  eexists. split; [vm_compute; reflexivity|]. split; [vm_compute; discriminate|]. split; [intros _; vm_compute; reflexivity|].
  left. eexists. split; vm_compute; reflexivity.
Qed.

Example big_run_wf : Forall (fun ord => run_ok 1 (big_rest (x_oracle_ord ord)) (x_run big_start) = true) [0; 1; 2; 5].
Proof. repeat (apply List.Forall_cons; [vm_compute; reflexivity|]). apply List.Forall_nil. Qed.

(* what the run ends in (order 1): every transaction APPLIED, SYNCHRONIZED in term 2, nothing left on the device *)
Example big_run_end :
  lag_summary (x_run (big_start ++ big_rest (x_oracle_ord 1))) =
    ([(1, TApplied); (3, TApplied); (2, TApplied); (4, TApplied)], [(4, 4, CSynchronized, 2, 2, [], [])], [[]]).
Proof. vm_compute. reflexivity. Qed.

(* ... and, by the theorem, the device agrees with the applied values there *)
Example big_run_agrees : i_agrees (x_run (big_start ++ big_rest (x_oracle_ord 1))) 1.
Proof.
  eapply (checked_run_agrees 1 big_start (big_rest (x_oracle_ord 1))).
  - exact big_start_conv.
  - vm_compute. reflexivity.
  - vm_compute. reflexivity.
  - vm_compute. reflexivity.
  - vm_compute. reflexivity.
Qed.

(** * Each hypothesis of wf_apply is needed: witnesses outside the domain (vm_compute) *)
(* a live value beneath a tombstone in the applied values (only after an invocation cut between the map write and the
   entry write, see Properties/C04.v (1)): re-creating a sibling drops the tombstone and the hidden value re-appears in
   the record, not on the device *)
Definition nlb_m : cmap := [pvd "/a" 1; pvl "/a/c" "2" 2].
Definition nlb_ch : cmap := [pvl "/a/b" "0" 3].
Example apply_sound_live_below_refuted :
  wf_pair [] nlb_m = false /\ wfk nlb_m = true /\ P2PureApplyDefs.wf_change nlb_ch = true /\ idx_compat nlb_m nlb_ch = true /\
  abs_dev_i [] = abs_app_i (overlay [] nlb_m) /\
  payload 3 [] nlb_ch = Some (mkReq [] [(B "/a/b", B "0")]) /\
  abs_dev_i (dev_apply [] (mkReq [] [(B "/a/b", B "0")])) = [(B "/a/b", B "0")] /\
  abs_app_i (loaded overlay nil (record_applied 0 3 nlb_m (overlay [] nlb_m) [] nlb_ch)) = [(B "/a/b", B "0"); (B "/a/c", B "2")].
Proof. repeat split; vm_compute; reflexivity. Qed.

(* a change value carrying the index of the stored value with another content: store() skips the write *)
Definition idx_m : cmap := [pvl "/a" "1" 5].
Definition idx_ch : cmap := [pvl "/a" "2" 5].
Example apply_sound_same_index_refuted :
  wf_pair [] idx_m = true /\ P2PureApplyDefs.wf_change idx_ch = true /\ idx_compat idx_m idx_ch = false /\
  abs_dev_i [(B "/a", B "1")] = abs_app_i (overlay [] idx_m) /\
  payload 5 [] idx_ch = Some (mkReq [] [(B "/a", B "2")]) /\
  abs_dev_i (dev_apply [(B "/a", B "1")] (mkReq [] [(B "/a", B "2")])) = [(B "/a", B "2")] /\
  abs_app_i (loaded overlay nil (record_applied 0 5 idx_m (overlay [] idx_m) [] idx_ch)) = [(B "/a", B "1")].
Proof. repeat split; vm_compute; reflexivity. Qed.

(* the re-push needs no_live_below even inside one group: deletes go first, then the updates *)
Example resync_live_below_refuted : exists r,
  resync_payload nlb_m = [Some (mkReq [B "/a"] []); Some r] /\ wfk nlb_m = true /\ no_live_below nlb_m = false /\
  abs_app_i nlb_m = [] /\ abs_dev_i (fold_left dev_apply [mkReq [B "/a"] []; r] []) = [(B "/a/c", B "2")].
Proof. eexists. repeat split; vm_compute; reflexivity. Qed.

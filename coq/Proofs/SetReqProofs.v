(* Proofs about Model/SetReq.v: what an accepted gNMI Set has checked, and what it logs. *)
From Coq Require Import List NArith ZArith Bool Lia.
From OC Require Import Base.Bytes Model.PathModel Model.SetReq.
Import ListNotations.
Open Scope N_scope.

(* ---------------------------------------------------------------- small tools *)

Lemma bind_ok {A B} (x : outcome A) (f : A -> outcome B) b :
  bind x f = Ok b -> exists a, x = Ok a /\ f a = Ok b.
Proof. destruct x as [a| |]; cbn; intros H; try discriminate. exists a; auto. Qed.

Lemma eqb_str_false_neq a b : eqb_str a b = false -> a <> b.
Proof. apply eqb_str_neq. Qed.

Lemma aget_aset_same {V} (m : list (str * V)) k v : aget (aset m k v) k = Some v.
Proof.
  induction m as [|[k' v'] m IH]; cbn.
  - rewrite eqb_str_refl. reflexivity.
  - destruct (eqb_str k' k) eqn:E; cbn; rewrite E; [reflexivity | exact IH].
Qed.

Lemma aget_aset_other {V} (m : list (str * V)) k v k2 : k <> k2 -> aget (aset m k v) k2 = aget m k2.
Proof.
  intros NE. induction m as [|[k' v'] m IH]; cbn.
  - destruct (eqb_str k k2) eqn:E; [apply eqb_str_eq in E; contradiction | reflexivity].
  - destruct (eqb_str k' k) eqn:E; cbn.
    + apply eqb_str_eq in E. subst k'.
      destruct (eqb_str k k2) eqn:E2; [apply eqb_str_eq in E2; contradiction | reflexivity].
    + destruct (eqb_str k' k2); [reflexivity | exact IH].
Qed.

Lemma aget_aset {V} (m : list (str * V)) k v k2 :
  aget (aset m k v) k2 = if eqb_str k k2 then Some v else aget m k2.
Proof.
  destruct (eqb_str k k2) eqn:E.
  - apply eqb_str_eq in E. subst. apply aget_aset_same.
  - apply aget_aset_other. apply eqb_str_neq. exact E.
Qed.

Lemma aset_length {V} (m : list (str * V)) k v : (List.length (aset m k v) <= S (List.length m))%nat.
Proof.
  induction m as [|[k' v'] m IH]; cbn; [lia|].
  destruct (eqb_str k' k); cbn; lia.
Qed.

Lemma run_ops_app cfg orc prefix s l1 l2 :
  run_ops cfg orc prefix s (l1 ++ l2) = bind (run_ops cfg orc prefix s l1) (fun s' => run_ops cfg orc prefix s' l2).
Proof.
  revert s; induction l1 as [|o l1 IH]; intros s; cbn; [reflexivity|].
  destruct (step_op cfg orc prefix s o) as [s'| |]; cbn; [apply IH | reflexivity | reflexivity].
Qed.

(* ---------------------------------------------------------------- the request as one operation list *)

Definition ops_of (req : request) : list rop :=
  map RDel (r_delete req) ++ map RUpd (r_replace req) ++ map RUpd (r_update req).

(* the effective target of an operation: the prefix target when there is one *)
Definition etgt (prefix : gpath) (o : rop) : str := effective_target (rop_target o) (p_target prefix).

Lemma prefix_target_overrides prefix o : p_target prefix <> [] -> etgt prefix o = p_target prefix.
Proof. unfold etgt, effective_target. destruct (p_target prefix); [contradiction | reflexivity]. Qed.

Lemma no_prefix_target prefix o : p_target prefix = [] -> etgt prefix o = rop_target o.
Proof. unfold etgt, effective_target. intros ->. reflexivity. Qed.

Lemma effective_path_with_prefix prefix p :
  str_path prefix <> [c_slash] -> effective_path prefix p = str_path prefix ++ str_path p.
Proof.
  unfold effective_path. intros NE. destruct (eqb_str (str_path prefix) [c_slash]) eqn:E; [|reflexivity].
  apply eqb_str_eq in E. contradiction.
Qed.

Lemma effective_path_without_prefix prefix p :
  str_path prefix = [c_slash] -> effective_path prefix p = str_path p.
Proof. unfold effective_path. intros ->. reflexivity. Qed.

(* ---------------------------------------------------------------- specification of one request *)

Section Spec.
  Context (cfg : server_cfg) (orc : pv_oracle) (prefix : gpath) (over0 : list (str * (str * str))).

  (* target resolution as documented: the topo entity must exist and be Configurable; its type/version come
     from the request's overrides when it names the target, else from the aspect; the model plugin of that
     type/version must be registered *)
  Definition resolve_target (id : str) : outcome plugin :=
    match topo_get (sc_topo cfg) id with
    | None => Err CNotFound
    | Some e =>
      match te_cfg e with
      | None => Err CInternal
      | Some cv =>
        let tv := match aget over0 id with Some tv => tv | None => cv end in
        match get_plugin (sc_plugins cfg) (fst tv) (snd tv) with
        | None => Err CNotFound
        | Some pl => Ok pl
        end
      end
    end.

  (* where a delete lands: the effective path, or the list entry when a key leaf of it is named *)
  Definition del_landing (pl : plugin) (p : gpath) : outcome str := delete_landing (pl_rw pl) prefix p.

  (* what a single (non-JSON) update must satisfy *)
  Definition upd_checked (pl : plugin) (u : update) : outcome (str * tval) :=
    let path := effective_path prefix (u_path u) in
    match find_path_from_model path (pl_rw pl) true with
    | FoundExact e =>
      match to_native (u_val u) with
      | None => Err CInternal
      | Some tv => if check_key_value path e (tv_str tv) then Ok (path, tv) else Err CInvalid
      end
    | NotInModel => Err CInvalid
    | _ => Err CInternal
    end.

  Inductive fop := FDel (p : str) | FUpd (p : str) (v : tval).

  (* the flat operations one request operation stands for *)
  Definition flat_op (pl : plugin) (o : rop) : outcome (list fop) :=
    match o with
    | RDel p => bind (del_landing pl p) (fun q => Ok [FDel q])
    | RUpd u =>
      match u_val u with
      | VJson doc =>
        match orc pl (json_base_path (effective_path prefix (u_path u))) doc with
        | None => Err CInternal
        | Some pvs => Ok (map (fun pv => FUpd (fst pv) (snd pv)) pvs)
        end
      | _ => bind (upd_checked pl u) (fun pv => Ok [FUpd (fst pv) (snd pv)])
      end
    end.

  (* the operation passes: its target resolves and its path/value pass the model checks *)
  Definition op_passes (o : rop) : Prop :=
    exists pl fl, resolve_target (etgt prefix o) = Ok pl /\ flat_op pl o = Ok fl.

  (* flat operations addressed to target id, in request order *)
  Definition flat_for (id : str) (l : list rop) : list fop :=
    flat_map (fun o => if eqb_str (etgt prefix o) id
                       then match resolve_target id with
                            | Ok pl => match flat_op pl o with Ok fl => fl | _ => [] end
                            | _ => []
                            end
                       else []) l.

  Definition dels_of (l : list fop) : list str :=
    flat_map (fun f => match f with FDel p => [p] | _ => [] end) l.

  Definition last_upd (l : list fop) (p : str) : option tval :=
    fold_left (fun acc f => match f with FUpd q v => if eqb_str q p then Some v else acc | _ => acc end) l None.

  (* last-writer rules of one request: a delete of the path wins over every update of that path (wherever
     it stands in the request); among updates (replace list first, then update list) the last one wins *)
  Definition last_writer (l : list fop) (p : str) : option change :=
    if existsb (eqb_str p) (dels_of l) then Some (if is_path_valid p then CDel else CNil)
    else option_map CUpd (last_upd l p).

  (* ------------------------------------------------------------ invariants of the resolution loop *)

  Definition over_inv (s : rstate) : Prop :=
    forall id, aget (s_over s) id = aget over0 id \/
               (aget over0 id = None /\ exists e cv, topo_get (sc_topo cfg) id = Some e /\ te_cfg e = Some cv /\
                                                   aget (s_over s) id = Some cv).

  Definition inv (h : list rop) (s : rstate) : Prop :=
    over_inv s /\
    (forall id, aget (s_targets s) id = None <-> (forall o, In o h -> etgt prefix o <> id)) /\
    (forall id ti, aget (s_targets s) id = Some ti ->
       resolve_target id = Ok (ti_plugin ti) /\
       ti_removes ti = dels_of (flat_for id h) /\
       (forall p, aget (ti_updates ti) p = last_upd (flat_for id h) p)) /\
    (forall o, In o h -> op_passes o).

  Lemma inv_init : inv [] (mkSt [] over0).
  Proof.
    repeat split; cbn; auto; try discriminate; try contradiction.
    intros id. left. reflexivity.
  Qed.

  Lemma flat_for_app id h l : flat_for id (h ++ l) = flat_for id h ++ flat_for id l.
  Proof. unfold flat_for. apply flat_map_app. Qed.

  Lemma flat_for_other id h o : etgt prefix o <> id -> flat_for id (h ++ [o]) = flat_for id h.
  Proof.
    intros NE. rewrite flat_for_app. cbn.
    destruct (eqb_str (etgt prefix o) id) eqn:E; [apply eqb_str_eq in E; contradiction|].
    cbn. rewrite app_nil_r. reflexivity.
  Qed.

  Lemma flat_for_same h o pl fl :
    resolve_target (etgt prefix o) = Ok pl -> flat_op pl o = Ok fl ->
    flat_for (etgt prefix o) (h ++ [o]) = flat_for (etgt prefix o) h ++ fl.
  Proof.
    intros R F. rewrite flat_for_app. cbn. rewrite eqb_str_refl, R, F, app_nil_r. reflexivity.
  Qed.

  Lemma flat_for_none id h : (forall o, In o h -> etgt prefix o <> id) -> flat_for id h = [].
  Proof.
    induction h as [|o h IH]; intros H; cbn; [reflexivity|].
    destruct (eqb_str (etgt prefix o) id) eqn:E.
    - apply eqb_str_eq in E. exfalso. apply (H o); [left; reflexivity | exact E].
    - cbn. apply IH. intros o' Ho'. apply H. right. exact Ho'.
  Qed.

  Lemma dels_of_app a b : dels_of (a ++ b) = dels_of a ++ dels_of b.
  Proof. unfold dels_of. apply flat_map_app. Qed.

  Lemma last_upd_app a b p :
    last_upd (a ++ b) p =
    fold_left (fun acc f => match f with FUpd q v => if eqb_str q p then Some v else acc | _ => acc end) b (last_upd a p).
  Proof. unfold last_upd. apply fold_left_app. Qed.

  Lemma dels_of_upds pvs : dels_of (map (fun pv : str * tval => FUpd (fst pv) (snd pv)) pvs) = [].
  Proof. induction pvs as [|pv pvs IH]; cbn; [reflexivity | exact IH]. Qed.

  Lemma fold_aset_upds pvs : forall (m : list (str * tval)) acc p,
    aget m p = acc ->
    aget (fold_left (fun m pv => aset m (fst pv) (snd pv)) pvs m) p =
    fold_left (fun acc f => match f with FUpd q v => if eqb_str q p then Some v else acc | _ => acc end)
              (map (fun pv : str * tval => FUpd (fst pv) (snd pv)) pvs) acc.
  Proof.
    induction pvs as [|[q v] pvs IH]; intros m acc p H; cbn; [exact H|].
    apply IH. rewrite aget_aset. cbn. destruct (eqb_str q p); [reflexivity | exact H].
  Qed.

  (* getTargetInfo: a cached target is returned as it is; a new one is resolved as documented *)
  Lemma get_target_info_spec h s ot pt id s1 :
    inv h s -> get_target_info cfg s ot pt = Ok (id, s1) ->
    id = effective_target ot pt /\ over_inv s1 /\
    exists ti, aget (s_targets s1) id = Some ti /\ resolve_target id = Ok (ti_plugin ti) /\
               (forall id', id' <> id -> aget (s_targets s1) id' = aget (s_targets s) id') /\
               (aget (s_targets s) id = Some ti \/
                (aget (s_targets s) id = None /\ ti_updates ti = [] /\ ti_removes ti = [])).
  Proof.
    intros (OI & DOM & TI & ADM) G. unfold get_target_info in G.
    set (i := effective_target ot pt) in *.
    destruct (aget (s_targets s) i) as [ti|] eqn:Ecache.
    - injection G as <- <-. split; [reflexivity|]. split; [exact OI|].
      exists ti. split; [exact Ecache|]. split; [apply (TI i ti Ecache)|]. split; [reflexivity|]. left. exact Ecache.
    - destruct (topo_get (sc_topo cfg) i) as [e|] eqn:Et; [|discriminate].
      destruct (te_cfg e) as [[cty cver]|] eqn:Ec; [|discriminate].
      assert (RT : forall pl tv, (tv = match aget over0 i with Some tv => tv | None => (cty, cver) end) ->
                                 get_plugin (sc_plugins cfg) (fst tv) (snd tv) = Some pl -> resolve_target i = Ok pl).
      { intros pl tv -> GP. unfold resolve_target. rewrite Et, Ec, GP. reflexivity. }
      destruct (OI i) as [Same | (None0 & e' & cv' & Et' & Ec' & Pushed)].
      + destruct (aget (s_over s) i) as [[oty over]|] eqn:Eo.
        * destruct (get_plugin (sc_plugins cfg) oty over) as [pl|] eqn:GP; [|discriminate].
          injection G as <- <-. split; [reflexivity|]. split; [exact OI|].
          exists (mkTi pl [] []). cbn. rewrite aget_aset_same. split; [reflexivity|].
          split; [apply (RT pl (oty, over)); [rewrite <- Same; reflexivity | exact GP]|].
          split; [intros id' NE; apply aget_aset_other; congruence|]. right. auto.
        * destruct (get_plugin (sc_plugins cfg) cty cver) as [pl|] eqn:GP; [|discriminate].
          injection G as <- <-. split; [reflexivity|]. split.
          { intros id'. cbn. rewrite aget_aset. destruct (eqb_str i id') eqn:E.
            - apply eqb_str_eq in E. subst id'. right. split; [congruence|]. exists e, (cty, cver). auto.
            - apply OI. }
          exists (mkTi pl [] []). cbn. rewrite aget_aset_same. split; [reflexivity|].
          split; [apply (RT pl (cty, cver)); [rewrite <- Same; reflexivity | exact GP]|].
          split; [intros id' NE; apply aget_aset_other; congruence|]. right. auto.
      + rewrite Pushed in G. rewrite Et in Et'. injection Et' as <-. rewrite Ec in Ec'. injection Ec' as <-.
        destruct (get_plugin (sc_plugins cfg) cty cver) as [pl|] eqn:GP; [|discriminate].
        injection G as <- <-. split; [reflexivity|]. split; [exact OI|].
        exists (mkTi pl [] []). cbn. rewrite aget_aset_same. split; [reflexivity|].
        split; [apply (RT pl (cty, cver)); [rewrite None0; reflexivity | exact GP]|].
        split; [intros id' NE; apply aget_aset_other; congruence|]. right. auto.
  Qed.

  (* doDelete / doUpdateOrReplace against the per-operation specification *)
  Lemma do_delete_spec p ti ti' :
    do_delete prefix p ti = Ok ti' ->
    exists q, del_landing (ti_plugin ti) p = Ok q /\
              ti' = mkTi (ti_plugin ti) (ti_updates ti) (ti_removes ti ++ [q]).
  Proof.
    unfold do_delete, del_landing. intros H. apply bind_ok in H. destruct H as (q & L & H).
    injection H as <-. exists q. auto.
  Qed.

  Lemma do_update_spec u ti ti' :
    do_update orc prefix u ti = Ok ti' ->
    exists fl, flat_op (ti_plugin ti) (RUpd u) = Ok fl /\ dels_of fl = [] /\
               ti_plugin ti' = ti_plugin ti /\ ti_removes ti' = ti_removes ti /\
               forall acc p, aget (ti_updates ti) p = acc ->
                 aget (ti_updates ti') p =
                 fold_left (fun acc f => match f with FUpd q v => if eqb_str q p then Some v else acc | _ => acc end) fl acc.
  Proof.
    unfold do_update, flat_op, upd_checked.
    set (path := effective_path prefix (u_path u)).
    destruct (u_val u) eqn:EV;
      try (destruct (find_path_from_model path (pl_rw (ti_plugin ti)) true) as [e| | |]; try discriminate;
           cbn [to_native];
           match goal with |- context [check_key_value path e ?s] => destruct (check_key_value path e s) eqn:CK end; try discriminate;
           intros [= <-]; eexists; split; [reflexivity|]; cbn; repeat split;
           intros acc p H; rewrite aget_aset; destruct (eqb_str path p); [reflexivity | exact H]).
    - (* JSON *)
      destruct (orc (ti_plugin ti) (json_base_path path) doc) as [pvs|]; [|discriminate].
      intros [= <-]. eexists. split; [reflexivity|]. split; [apply dels_of_upds|]. cbn. repeat split.
      intros acc p H. apply fold_aset_upds. exact H.
    - (* VBad *)
      destruct (find_path_from_model path (pl_rw (ti_plugin ti)) true); discriminate.
  Qed.

  (* one iteration preserves the invariant *)
  Lemma step_inv h s o s' : inv h s -> step_op cfg orc prefix s o = Ok s' -> inv (h ++ [o]) s'.
  Proof.
    intros I S. unfold step_op in S.
    apply bind_ok in S. destruct S as ([id s1] & G & S).
    destruct (get_target_info_spec _ _ _ _ _ _ I G) as (Eid & OI1 & ti & Eti & RT & Others & Fresh).
    destruct I as (OI & DOM & TI & ADM).
    rewrite Eti in S. apply bind_ok in S. destruct S as (ti' & D & S). injection S as <-.
    fold (etgt prefix o) in Eid.
    (* what the cached info says about the history, whether the target is new or not *)
    assert (Hist : ti_removes ti = dels_of (flat_for id h) /\ forall p, aget (ti_updates ti) p = last_upd (flat_for id h) p).
    { destruct Fresh as [Old | (New & U0 & R0)].
      - destruct (TI id ti Old) as (_ & HR & HU). auto.
      - rewrite (flat_for_none id h); [|apply DOM; exact New]. rewrite U0, R0. cbn. auto. }
    destruct Hist as (HR & HU).
    (* the step's own contribution *)
    assert (Step : exists fl, flat_op (ti_plugin ti) o = Ok fl /\ ti_plugin ti' = ti_plugin ti /\
                              ti_removes ti' = ti_removes ti ++ dels_of fl /\
                              forall p, aget (ti_updates ti') p =
                                fold_left (fun acc f => match f with FUpd q v => if eqb_str q p then Some v else acc | _ => acc end) fl (aget (ti_updates ti) p)).
    { destruct o as [p|u].
      - destruct (do_delete_spec _ _ _ D) as (q & L & ->). exists [FDel q]. cbn. rewrite L. cbn. auto.
      - destruct (do_update_spec _ _ _ D) as (fl & F & ND & P & R & U). exists fl. rewrite ND, app_nil_r. repeat split; auto. }
    destruct Step as (fl & F & P' & R' & U').
    subst id.
    repeat split.
    - exact OI1.
    - (* domain, -> *)
      intros N o' Ho'. cbn in N. rewrite aget_aset in N.
      destruct (eqb_str (etgt prefix o) id) eqn:E; [discriminate|].
      apply in_app_or in Ho'. destruct Ho' as [Ho'|[<-|[]]].
      + rewrite Others in N; [|intros ->; rewrite eqb_str_refl in E; discriminate]. apply (proj1 (DOM id) N). exact Ho'.
      + apply eqb_str_neq. exact E.
    - (* domain, <- *)
      intros N. cbn. rewrite aget_aset.
      destruct (eqb_str (etgt prefix o) id) eqn:E.
      + apply eqb_str_eq in E. exfalso. apply (N o); [apply in_or_app; right; left; reflexivity | exact E].
      + rewrite Others; [|intros ->; rewrite eqb_str_refl in E; discriminate].
        apply DOM. intros o' Ho'. apply N. apply in_or_app. left. exact Ho'.
    - (* plugin *)
      cbn in H. rewrite aget_aset in H. destruct (eqb_str (etgt prefix o) id) eqn:E.
      + apply eqb_str_eq in E. subst id. injection H as <-. rewrite P'. exact RT.
      + rewrite Others in H; [|intros ->; rewrite eqb_str_refl in E; discriminate]. apply (TI id ti0 H).
    - (* removes *)
      cbn in H. rewrite aget_aset in H. destruct (eqb_str (etgt prefix o) id) eqn:E.
      + apply eqb_str_eq in E. subst id. injection H as <-.
        rewrite (flat_for_same h o _ fl RT F), dels_of_app, R', HR. reflexivity.
      + rewrite Others in H; [|intros ->; rewrite eqb_str_refl in E; discriminate].
        rewrite flat_for_other; [|apply eqb_str_neq; exact E]. apply (TI id ti0 H).
    - (* updates *)
      intros p. cbn in H. rewrite aget_aset in H. destruct (eqb_str (etgt prefix o) id) eqn:E.
      + apply eqb_str_eq in E. subst id. injection H as <-.
        rewrite (flat_for_same h o _ fl RT F), last_upd_app, U', HU. reflexivity.
      + rewrite Others in H; [|intros ->; rewrite eqb_str_refl in E; discriminate].
        rewrite flat_for_other; [|apply eqb_str_neq; exact E]. apply (TI id ti0 H).
    - (* every operation so far passed the checks *)
      intros o' Ho'. apply in_app_or in Ho'. destruct Ho' as [Ho'|[<-|[]]]; [apply ADM; exact Ho'|].
      exists (ti_plugin ti), fl. auto.
  Qed.

  Lemma run_inv l : forall h s s', inv h s -> run_ops cfg orc prefix s l = Ok s' -> inv (h ++ l) s'.
  Proof.
    induction l as [|o l IH]; intros h s s' I R; cbn in R.
    - injection R as <-. rewrite app_nil_r. exact I.
    - apply bind_ok in R. destruct R as (s1 & S & R).
      replace (h ++ o :: l) with ((h ++ [o]) ++ l) by (rewrite <- app_assoc; reflexivity).
      eapply IH; [|exact R]. eapply step_inv; eauto.
  Qed.

End Spec.

(* ---------------------------------------------------------------- computeChange(s) *)

Definition del_change (p : str) : change := if is_path_valid p then CDel else CNil.

Lemma fold_removes rs : forall (m : list (str * change)) p,
  aget (fold_left (fun m p => aset m p (del_change p)) rs m) p =
  if existsb (eqb_str p) rs then Some (del_change p) else aget m p.
Proof.
  induction rs as [|r rs IH]; intros m p; cbn; [reflexivity|].
  rewrite IH, aget_aset. rewrite (eqb_str_sym p r).
  destruct (eqb_str r p) eqn:E; cbn.
  - apply eqb_str_eq in E. subst r. destruct (existsb (eqb_str p) rs); reflexivity.
  - reflexivity.
Qed.

Lemma aget_map_upd (us : list (str * tval)) p :
  aget (map (fun pv => (fst pv, CUpd (snd pv))) us) p = option_map CUpd (aget us p).
Proof.
  induction us as [|[q v] us IH]; cbn; [reflexivity|].
  destruct (eqb_str q p); [reflexivity | exact IH].
Qed.

Lemma compute_change_spec strict ti ch :
  compute_change strict ti = Ok ch ->
  forall p, aget ch p = if existsb (eqb_str p) (ti_removes ti) then Some (del_change p)
                        else option_map CUpd (aget (ti_updates ti) p).
Proof.
  unfold compute_change. destruct (forallb _ (ti_updates ti)); [|discriminate].
  destruct (strict && _); [discriminate|]. intros [= <-] p.
  change (fun m p0 => aset m p0 (if is_path_valid p0 then CDel else CNil)) with (fun m p0 => aset m p0 (del_change p0)).
  rewrite fold_removes, aget_map_upd. reflexivity.
Qed.

Lemma compute_change_strict ti ch :
  compute_change true ti = Ok ch -> forallb is_path_valid (ti_removes ti) = true.
Proof.
  unfold compute_change. destruct (forallb _ (ti_updates ti)); [|discriminate].
  cbn. destruct (forallb is_path_valid (ti_removes ti)); [reflexivity | discriminate].
Qed.

Lemma fold_removes_length rs : forall (m : list (str * change)),
  (List.length (fold_left (fun m p => aset m p (if is_path_valid p then CDel else CNil)) rs m) <= List.length m + List.length rs)%nat.
Proof.
  induction rs as [|r rs IH]; intros m; cbn; [lia|].
  specialize (IH (aset m r (if is_path_valid r then CDel else CNil))).
  pose proof (aset_length m r (if is_path_valid r then CDel else CNil)). lia.
Qed.

Lemma compute_change_length strict ti ch :
  compute_change strict ti = Ok ch ->
  (List.length ch <= List.length (ti_updates ti) + List.length (ti_removes ti))%nat.
Proof.
  unfold compute_change. destruct (forallb _ (ti_updates ti)); [|discriminate].
  destruct (strict && _); [discriminate|]. intros [= <-].
  pose proof (fold_removes_length (ti_removes ti) (map (fun pv : str * tval => (fst pv, CUpd (snd pv))) (ti_updates ti))) as L.
  rewrite map_length in L. exact L.
Qed.

Lemma compute_changes_spec strict ts : forall chs,
  compute_changes strict ts = Ok chs ->
  (forall id, aget chs id = None <-> aget ts id = None) /\
  (forall id ch, aget chs id = Some ch -> exists ti, aget ts id = Some ti /\ compute_change strict ti = Ok ch) /\
  List.length chs = List.length ts.
Proof.
  induction ts as [|[k ti] ts IH]; intros chs H; cbn in H.
  - injection H as <-. repeat split; auto. intros id ch; discriminate.
  - apply bind_ok in H. destruct H as (ch & C & H). apply bind_ok in H. destruct H as (rest & R & H).
    injection H as <-. destruct (IH rest R) as (N & S & L). repeat split.
    + cbn. destruct (eqb_str k id); [discriminate | apply N].
    + cbn. destruct (eqb_str k id); [discriminate | apply N].
    + intros id ch0. cbn. destruct (eqb_str k id).
      * intros [= <-]. exists ti. auto.
      * apply S.
    + cbn. rewrite L. reflexivity.
Qed.

(* ---------------------------------------------------------------- Set as a whole *)

(* decomposition of a successful resolution *)
Lemma set_resolve_ok strict cfg orc req t :
  set_resolve strict cfg orc req = Ok t ->
  exists over0 s,
    get_overrides (r_ext req) = Ok over0 /\
    get_strategy (r_ext req) = Ok tt /\
    (1 <= List.length (ops_of req))%nat /\
    run_ops cfg orc (r_prefix req) (mkSt [] over0) (ops_of req) = Ok s /\
    limit_ok (sc_limit cfg) (s_targets s) = true /\
    compute_changes strict (s_targets s) = Ok (tx_changes t) /\
    tx_over t = s_over s.
Proof.
  unfold set_resolve. intros H.
  apply bind_ok in H. destruct H as (over0 & O & H).
  apply bind_ok in H. destruct H as ([] & S & H).
  destruct (Nat.ltb _ 1) eqn:N; [discriminate|]. apply PeanoNat.Nat.ltb_ge in N.
  apply bind_ok in H. destruct H as (s1 & R1 & H).
  apply bind_ok in H. destruct H as (s2 & R2 & H).
  apply bind_ok in H. destruct H as (s3 & R3 & H).
  destruct (limit_ok (sc_limit cfg) (s_targets s3)) eqn:L; [|discriminate].
  apply bind_ok in H. destruct H as (chs & C & H). injection H as <-.
  exists over0, s3. repeat split; auto.
  - unfold ops_of. rewrite !app_length, !map_length. lia.
  - unfold ops_of. rewrite run_ops_app, R1. cbn. rewrite run_ops_app, R2. cbn. exact R3.
Qed.

(* (1) everything an accepted Set contains was checked: every operation's effective target resolves and every
   path/value passed the model checks, whatever the position of the operation in the request *)
Theorem accepted_all_checked strict cfg orc req t :
  set_resolve strict cfg orc req = Ok t ->
  exists over0, get_overrides (r_ext req) = Ok over0 /\
    forall o, In o (ops_of req) -> op_passes cfg orc (r_prefix req) over0 o.
Proof.
  intros H. destruct (set_resolve_ok _ _ _ _ _ H) as (over0 & s & O & _ & _ & R & _).
  exists over0. split; [exact O|].
  pose proof (run_inv cfg orc (r_prefix req) over0 (ops_of req) [] _ _ (inv_init cfg orc (r_prefix req) over0) R) as (_ & _ & _ & A).
  exact A.
Qed.

(* refusal causes, each stated for a request that may contain any number of other, valid operations *)

Corollary refused_unresolvable_target strict cfg orc req over0 o :
  get_overrides (r_ext req) = Ok over0 -> In o (ops_of req) ->
  (forall pl, resolve_target cfg over0 (etgt (r_prefix req) o) <> Ok pl) ->
  forall t, set_resolve strict cfg orc req <> Ok t.
Proof.
  intros O I N t H. destruct (accepted_all_checked _ _ _ _ _ H) as (ov & O' & A).
  rewrite O in O'. injection O' as <-. destruct (A o I) as (pl & fl & R & _). exact (N pl R).
Qed.

Corollary refused_unknown_entity strict cfg orc req over0 o :
  get_overrides (r_ext req) = Ok over0 -> In o (ops_of req) ->
  topo_get (sc_topo cfg) (etgt (r_prefix req) o) = None ->
  forall t, set_resolve strict cfg orc req <> Ok t.
Proof.
  intros O I N. eapply refused_unresolvable_target; eauto.
  intros pl. unfold resolve_target. rewrite N. discriminate.
Qed.

Corollary refused_not_configurable strict cfg orc req over0 o e :
  get_overrides (r_ext req) = Ok over0 -> In o (ops_of req) ->
  topo_get (sc_topo cfg) (etgt (r_prefix req) o) = Some e -> te_cfg e = None ->
  forall t, set_resolve strict cfg orc req <> Ok t.
Proof.
  intros O I E N. eapply refused_unresolvable_target; eauto.
  intros pl. unfold resolve_target. rewrite E, N. discriminate.
Qed.

Corollary refused_unknown_model strict cfg orc req over0 o e cv :
  get_overrides (r_ext req) = Ok over0 -> In o (ops_of req) ->
  topo_get (sc_topo cfg) (etgt (r_prefix req) o) = Some e -> te_cfg e = Some cv ->
  (let tv := match aget over0 (etgt (r_prefix req) o) with Some tv => tv | None => cv end in
   get_plugin (sc_plugins cfg) (fst tv) (snd tv) = None) ->
  forall t, set_resolve strict cfg orc req <> Ok t.
Proof.
  intros O I E C N. eapply refused_unresolvable_target; eauto.
  intros pl. unfold resolve_target. rewrite E, C. cbn in N. rewrite N. discriminate.
Qed.

(* an update (not JSON) whose effective path, list keys anonymised, is not a read-write path of the target's model *)
Corollary refused_update_not_writable strict cfg orc req over0 u pl :
  get_overrides (r_ext req) = Ok over0 -> In (RUpd u) (ops_of req) ->
  (forall d, u_val u <> VJson d) ->
  resolve_target cfg over0 (etgt (r_prefix req) (RUpd u)) = Ok pl ->
  rw_lookup (pl_rw pl) (anonymize_path_indices (effective_path (r_prefix req) (u_path u))) = None ->
  forall t, set_resolve strict cfg orc req <> Ok t.
Proof.
  intros O I NJ R NW t H. destruct (accepted_all_checked _ _ _ _ _ H) as (ov & O' & A).
  rewrite O in O'. injection O' as <-. destruct (A _ I) as (pl' & fl & R' & F).
  rewrite R in R'. injection R' as <-. cbn in F.
  destruct (u_val u) eqn:EV; try (exfalso; eapply NJ; reflexivity);
    unfold upd_checked, find_path_from_model in F; rewrite NW in F; cbn in F; discriminate.
Qed.

(* a delete whose effective path is neither a model path nor a leading part of one *)
Corollary refused_delete_not_in_model strict cfg orc req over0 p pl :
  get_overrides (r_ext req) = Ok over0 -> In (RDel p) (ops_of req) ->
  resolve_target cfg over0 (etgt (r_prefix req) (RDel p)) = Ok pl ->
  find_path_from_model (effective_path (r_prefix req) p) (pl_rw pl) false = NotInModel ->
  forall t, set_resolve strict cfg orc req <> Ok t.
Proof.
  intros O I R NW t H. destruct (accepted_all_checked _ _ _ _ _ H) as (ov & O' & A).
  rewrite O in O'. injection O' as <-. destruct (A _ I) as (pl' & fl & R' & F).
  rewrite R in R'. injection R' as <-. cbn in F. unfold del_landing, delete_landing in F. rewrite NW in F. discriminate.
Qed.

(* a delete of a subtree (not an exact model path) with an index value outside [a-zA-Z0-9*._-] (fix a2a122e) *)
Corollary refused_delete_bad_index_value strict cfg orc req over0 p pl n v :
  get_overrides (r_ext req) = Ok over0 -> In (RDel p) (ops_of req) ->
  resolve_target cfg over0 (etgt (r_prefix req) (RDel p)) = Ok pl ->
  find_path_from_model (effective_path (r_prefix req) p) (pl_rw pl) false = FoundPrefix ->
  In (n, v) (extract_index_names (effective_path (r_prefix req) p)) -> index_value_ok v = false ->
  forall t, set_resolve strict cfg orc req <> Ok t.
Proof.
  intros O I R FP IN BAD t H. destruct (accepted_all_checked _ _ _ _ _ H) as (ov & O' & A).
  rewrite O in O'. injection O' as <-. destruct (A _ I) as (pl' & fl & R' & F).
  rewrite R in R'. injection R' as <-. cbn in F. unfold del_landing, delete_landing in F. rewrite FP in F. cbn [bind] in F.
  assert (FA : forallb (fun nv => index_value_ok (snd nv)) (extract_index_names (effective_path (r_prefix req) p)) = false).
  { destruct (forallb _ _) eqn:FA; [|reflexivity].
    rewrite forallb_forall in FA. specialize (FA _ IN). cbn in FA. congruence. }
  rewrite FA in F. discriminate.
Qed.

(* the non-exact search accepts only the index-free text of a model path or of an ancestor of one by whole
   elements (fix 2e764cc; /sys/su is no ancestor of /sys/sub) *)
Lemma found_prefix_whole_elements path rw :
  find_path_from_model path rw false = FoundPrefix ->
  exists e, In e rw /\
    (remove_path_indices (rw_path e) = delete_search_key path \/
     exists r, remove_path_indices (rw_path e) = trim_slash (delete_search_key path) ++ [c_slash] ++ r).
Proof.
  unfold find_path_from_model. destruct (rw_lookup rw (anonymize_path_indices path)); [discriminate|].
  destruct (existsb _ rw) eqn:E; [|discriminate]. intros _.
  apply existsb_exists in E. destruct E as (e & IN & A). exists e. split; [exact IN|].
  unfold ancestor_or_self in A. apply orb_true_iff in A. destruct A as [A|A].
  - left. apply eqb_str_eq. exact A.
  - right. apply prefixb_spec in A. destruct A as (r & ->). exists r. rewrite <- app_assoc. reflexivity.
Qed.

(* every delete of an accepted Set names a model path of its target (list keys anonymised) or an ancestor of
   one by whole elements *)
Theorem accepted_delete_in_model strict cfg orc req t over0 p pl :
  set_resolve strict cfg orc req = Ok t -> get_overrides (r_ext req) = Ok over0 -> In (RDel p) (ops_of req) ->
  resolve_target cfg over0 (etgt (r_prefix req) (RDel p)) = Ok pl ->
  let path := effective_path (r_prefix req) p in
  (exists e, rw_lookup (pl_rw pl) (anonymize_path_indices path) = Some e) \/
  (exists e, In e (pl_rw pl) /\
     (remove_path_indices (rw_path e) = delete_search_key path \/
      exists r, remove_path_indices (rw_path e) = trim_slash (delete_search_key path) ++ [c_slash] ++ r)).
Proof.
  intros H O I R path. destruct (accepted_all_checked _ _ _ _ _ H) as (ov & O' & A).
  rewrite O in O'. injection O' as <-. destruct (A _ I) as (pl' & fl & R' & F).
  rewrite R in R'. injection R' as <-. cbn in F. unfold del_landing, delete_landing in F. fold path in F.
  destruct (find_path_from_model path (pl_rw pl) false) as [e| | |] eqn:FP; try discriminate.
  - left. unfold find_path_from_model in FP. destruct (rw_lookup (pl_rw pl) (anonymize_path_indices path)) as [e'|]; [exists e'; reflexivity|].
    destruct (existsb _ _); discriminate.
  - right. apply found_prefix_whole_elements. exact FP.
Qed.

(* a list-key leaf whose value is not the value of that key in the path of its own list entry *)
Corollary refused_key_contradiction strict cfg orc req over0 u pl e tv :
  get_overrides (r_ext req) = Ok over0 -> In (RUpd u) (ops_of req) ->
  resolve_target cfg over0 (etgt (r_prefix req) (RUpd u)) = Ok pl ->
  let path := effective_path (r_prefix req) (u_path u) in
  rw_lookup (pl_rw pl) (anonymize_path_indices path) = Some e -> rw_is_key e = true ->
  to_native (u_val u) = Some tv ->
  extract_index_names path <> [] ->
  (forall n v, In (n, v) (extract_index_names (after_last_slash (get_parent_path path))) -> n = rw_attr e -> v <> tv_str tv) ->
  forall t, set_resolve strict cfg orc req <> Ok t.
Proof.
  intros O I R path L K TN NE C t H. destruct (accepted_all_checked _ _ _ _ _ H) as (ov & O' & A).
  rewrite O in O'. injection O' as <-. destruct (A _ I) as (pl' & fl & R' & F).
  rewrite R in R'. injection R' as <-. cbn in F. subst path.
  assert (CK : check_key_value (effective_path (r_prefix req) (u_path u)) e (tv_str tv) = false).
  { unfold check_key_value. destruct (extract_index_names (effective_path (r_prefix req) (u_path u))) eqn:EI; [contradiction|].
    destruct (negb (forallb _ (p :: l))); [reflexivity|]. rewrite K. cbn [negb].
    destruct (existsb _ _) eqn:EX; [|reflexivity].
    apply existsb_exists in EX. destruct EX as ([n v] & IN & EQ). cbn in EQ.
    apply andb_true_iff in EQ. destruct EQ as (E1 & E2). apply eqb_str_eq in E1. apply eqb_str_eq in E2.
    exfalso. eapply C; eauto. }
  destruct (u_val u) eqn:EV; try discriminate TN;
    unfold upd_checked, find_path_from_model in F; rewrite L, EV, TN in F; rewrite CK in F; cbn in F; discriminate.
Qed.

(* an index value with a character outside [a-zA-Z0-9*._-] in the path of a (non-JSON) update *)
Corollary refused_bad_index_value strict cfg orc req over0 u pl n v :
  get_overrides (r_ext req) = Ok over0 -> In (RUpd u) (ops_of req) ->
  (forall d, u_val u <> VJson d) ->
  resolve_target cfg over0 (etgt (r_prefix req) (RUpd u)) = Ok pl ->
  In (n, v) (extract_index_names (effective_path (r_prefix req) (u_path u))) -> index_value_ok v = false ->
  forall t, set_resolve strict cfg orc req <> Ok t.
Proof.
  intros O I NJ R IN BAD t H. destruct (accepted_all_checked _ _ _ _ _ H) as (ov & O' & A).
  rewrite O in O'. injection O' as <-. destruct (A _ I) as (pl' & fl & R' & F).
  rewrite R in R'. injection R' as <-. cbn in F.
  assert (CK : forall e s, check_key_value (effective_path (r_prefix req) (u_path u)) e s = false).
  { intros e s. unfold check_key_value. destruct (extract_index_names (effective_path (r_prefix req) (u_path u))) eqn:EI; [destruct IN|].
    assert (FA : forallb (fun nv => index_value_ok (snd nv)) (p :: l) = false).
    { destruct (forallb _ (p :: l)) eqn:FA; [|reflexivity].
      rewrite forallb_forall in FA. specialize (FA _ IN). cbn in FA. congruence. }
    rewrite FA. reflexivity. }
  destruct (u_val u) eqn:EV; try (exfalso; eapply NJ; reflexivity);
    unfold upd_checked in F;
    destruct (find_path_from_model (effective_path (r_prefix req) (u_path u)) (pl_rw pl) true); try discriminate;
    rewrite EV in F; cbn [to_native] in F; rewrite ?CK in F; discriminate.
Qed.

Theorem refused_malformed_overrides strict cfg orc req ov :
  first_overrides (r_ext req) = Some (false, ov) -> set_resolve strict cfg orc req = Err CInvalid.
Proof. intros H. unfold set_resolve, get_overrides. rewrite H. reflexivity. Qed.

Theorem refused_malformed_strategy strict cfg orc req :
  first_strategy (r_ext req) = Some false -> forall t, set_resolve strict cfg orc req <> Ok t.
Proof.
  intros H t. unfold set_resolve. destruct (get_overrides (r_ext req)); cbn; try discriminate.
  unfold get_strategy. rewrite H. discriminate.
Qed.

Theorem refused_no_operations strict cfg orc req :
  r_delete req = [] -> r_replace req = [] -> r_update req = [] -> forall t, set_resolve strict cfg orc req <> Ok t.
Proof.
  intros D R U t H. destruct (set_resolve_ok _ _ _ _ _ H) as (_ & _ & _ & _ & N & _).
  unfold ops_of in N. rewrite D, R, U in N. cbn in N. lia.
Qed.

(* (2) what is logged: exactly the named targets, and per target exactly the last-writer result of the
   flat operations addressed to it *)
Theorem lands_exactly strict cfg orc req t :
  set_resolve strict cfg orc req = Ok t ->
  exists over0, get_overrides (r_ext req) = Ok over0 /\
    (forall id, aget (tx_changes t) id = None <-> (forall o, In o (ops_of req) -> etgt (r_prefix req) o <> id)) /\
    (forall id ch, aget (tx_changes t) id = Some ch ->
       forall p, aget ch p = last_writer (flat_for cfg orc (r_prefix req) over0 id (ops_of req)) p).
Proof.
  intros H. destruct (set_resolve_ok _ _ _ _ _ H) as (over0 & s & O & _ & _ & R & _ & C & _).
  exists over0. split; [exact O|].
  pose proof (run_inv cfg orc (r_prefix req) over0 (ops_of req) [] _ _ (inv_init cfg orc (r_prefix req) over0) R) as (_ & DOM & TI & _).
  cbn [app] in *.
  destruct (compute_changes_spec _ _ _ C) as (N & S & _). split.
  - intros id. rewrite N. apply DOM.
  - intros id ch G p. destruct (S id ch G) as (ti & Eti & CC).
    destruct (TI id ti Eti) as (_ & HR & HU).
    rewrite (compute_change_spec _ _ _ CC p). unfold last_writer. rewrite <- HR, <- HU. reflexivity.
Qed.

(* no nil change is ever logged by the repaired computeChange *)
Theorem repaired_no_nil_change cfg orc req t :
  set_resolve true cfg orc req = Ok t ->
  forall id ch p, aget (tx_changes t) id = Some ch -> aget ch p <> Some CNil.
Proof.
  intros H id ch p G. destruct (set_resolve_ok _ _ _ _ _ H) as (over0 & s & _ & _ & _ & _ & _ & C & _).
  destruct (compute_changes_spec _ _ _ C) as (_ & S & _). destruct (S id ch G) as (ti & _ & CC).
  rewrite (compute_change_spec _ _ _ CC p). pose proof (compute_change_strict _ _ CC) as V.
  destruct (existsb (eqb_str p) (ti_removes ti)) eqn:E.
  - apply existsb_exists in E. destruct E as (q & IN & EQ). apply eqb_str_eq in EQ. subst q.
    rewrite forallb_forall in V. unfold del_change. rewrite (V p IN). discriminate.
  - destruct (aget (ti_updates ti) p); cbn; discriminate.
Qed.

(* the code as it is: the same under the explicit guard that every delete lands on a valid path text *)
Theorem unrepaired_no_nil_change_partial cfg orc req t over0 :
  set_resolve false cfg orc req = Ok t -> get_overrides (r_ext req) = Ok over0 ->
  (forall id q, In q (dels_of (flat_for cfg orc (r_prefix req) over0 id (ops_of req))) -> is_path_valid q = true) ->
  forall id ch p, aget (tx_changes t) id = Some ch -> aget ch p <> Some CNil.
Proof.
  intros H O V id ch p G. destruct (lands_exactly _ _ _ _ _ H) as (ov & O' & _ & L).
  rewrite O in O'. injection O' as <-. rewrite (L id ch G p). unfold last_writer.
  destruct (existsb (eqb_str p) _) eqn:E.
  - apply existsb_exists in E. destruct E as (q & IN & EQ). apply eqb_str_eq in EQ. subst q.
    rewrite (V id p IN). discriminate.
  - destruct (last_upd _ p); cbn; discriminate.
Qed.

(* (3) size limit, for any limit: a positive limit allows one target and at most `limit` logged changes *)
Theorem limit_respected strict cfg orc req t :
  set_resolve strict cfg orc req = Ok t -> (0 < sc_limit cfg)%Z ->
  exists id ch, tx_changes t = [(id, ch)] /\ (Z.of_nat (List.length ch) <= sc_limit cfg)%Z.
Proof.
  intros H P. destruct (set_resolve_ok _ _ _ _ _ H) as (over0 & s & _ & _ & _ & _ & L & C & _).
  unfold limit_ok in L. apply Z.ltb_lt in P. rewrite P in L.
  destruct (s_targets s) as [|[id ti] [|x ts]] eqn:ET; try discriminate.
  cbn in C. apply bind_ok in C. destruct C as (ch & CC & C). cbn in C. injection C as C.
  exists id, ch. split; [symmetry; exact C|].
  apply Z.leb_le in L. pose proof (compute_change_length _ _ _ CC). lia.
Qed.

Corollary refused_two_targets_under_limit strict cfg orc req o1 o2 :
  (0 < sc_limit cfg)%Z -> In o1 (ops_of req) -> In o2 (ops_of req) ->
  etgt (r_prefix req) o1 <> etgt (r_prefix req) o2 ->
  forall t, set_resolve strict cfg orc req <> Ok t.
Proof.
  intros P I1 I2 NE t H. destruct (limit_respected _ _ _ _ _ H P) as (id & ch & E & _).
  destruct (lands_exactly _ _ _ _ _ H) as (ov & _ & DOM & _).
  assert (A : forall o, In o (ops_of req) -> etgt (r_prefix req) o = id).
  { intros o I. destruct (str_eq_dec (etgt (r_prefix req) o) id) as [|NEQ]; [assumption|].
    exfalso. assert (N : aget (tx_changes t) (etgt (r_prefix req) o) = None).
    { rewrite E. cbn. destruct (eqb_str id (etgt (r_prefix req) o)) eqn:X; [apply eqb_str_eq in X; congruence | reflexivity]. }
    exact (proj1 (DOM _) N o I eq_refl). }
  rewrite (A o1 I1), (A o2 I2) in NE. contradiction.
Qed.

(* (4) refused => no store effect *)
Theorem refused_no_effect strict cfg orc req :
  (forall t, set_resolve strict cfg orc req <> Ok t) -> set_effects strict cfg orc req = [].
Proof.
  unfold set_effects. intros H. destruct (set_resolve strict cfg orc req) as [t| |]; [exfalso; exact (H t eq_refl) | reflexivity | reflexivity].
Qed.

Theorem effect_iff_resolved strict cfg orc req t :
  In (Create t) (set_effects strict cfg orc req) <-> set_resolve strict cfg orc req = Ok t.
Proof.
  unfold set_effects. destruct (set_resolve strict cfg orc req) as [t'| |]; cbn; split; intros H; try contradiction; try discriminate.
  - destruct H as [[= ->]|[]]. reflexivity.
  - injection H as ->. left. reflexivity.
Qed.

(* Cursors of a target's configuration in the v2 protocol model (Model/Proto2.v), all schedules, all crash prefixes:
     - what ONE step can do to a configuration entry ([cfg_write]: the complete list of entry writes, each with the
       guard under which the real reconciler issues it) and to the device log ([reconcile_dev]),
     - single-step theorems for C02 (who moves Committed / Applied, from where to where; who sends to the device),
     - record-local invariants (PrevIndex < index < NextIndex, applied term <= term) and cursor monotonicity.
   The chain / phase-order invariants needed for "never sent before merged" are in P2_CursorChain.v;
   the mastership theorems (C10) are in P2_Term.v. *)
From stdpp Require Import gmap.
From RecordUpdate Require Import RecordUpdate.
From Coq Require Import NArith Lia.
From OC Require Import Model.Proto2 Proofs.P2Base Proofs.P2Phases.
Open Scope N_scope.

(* turn the boolean guards collected by [destruct_matches] into propositions *)
Ltac bool_hyps :=
  repeat match goal with
         | H : _ && _ = true |- _ => apply andb_prop in H; destruct H
         | H : _ && _ = false |- _ => apply andb_false_iff in H; destruct H as [H|H]
         | H : negb _ = true |- _ => apply negb_true_iff in H
         | H : negb _ = false |- _ => apply negb_false_iff in H
         | H : (_ =? _) = true |- _ => apply N.eqb_eq in H
         | H : (_ =? _) = false |- _ => apply N.eqb_neq in H
         | H : (_ <? _) = true |- _ => apply N.ltb_lt in H
         | H : (_ <? _) = false |- _ => apply N.ltb_ge in H
         | H : (_ <=? _) = true |- _ => apply N.leb_le in H
         | H : (_ <=? _) = false |- _ => apply N.leb_gt in H
         | H : bool_decide _ = true |- _ => apply bool_decide_eq_true in H
         | H : bool_decide _ = false |- _ => apply bool_decide_eq_false in H
         | H : is_none ?x = true |- _ => destruct x; [discriminate H|clear H]
         | H : is_none ?x = false |- _ => destruct x; [clear H|discriminate H]
         end.

Section Cursor.
  Context {V Ch Req D : Type}.
  Context (candidate : V -> Ch -> V) (candidate_rb : V -> Ch -> V) (rollback_of : V -> Ch -> Ch)
          (overlay : V -> V -> V) (commit_merge : N -> N -> V -> V -> Ch -> V)
          (payload : N -> V -> Ch -> option Req) (record_applied : N -> V -> V -> V -> Ch -> V)
          (touched : N -> V -> Ch -> V) (restore : V -> V -> V)
          (resync_payload : V -> list (option Req)) (doc_ok : V -> bool)
          (dev_apply : D -> Req -> D) (stamp : N -> Ch -> Ch) (v_empty : V) (d_empty : D) (ch_empty : Ch).

  Notation world := (@world V Ch Req D).
  Notation eff := (@eff V Ch Req).
  Notation txn := (@txn Ch).
  Notation prop := (@prop Ch).
  Notation config := (@config V).
  Notation devev := (@devev Req).
  Notation apply_eff := (@apply_eff V Ch Req D dev_apply d_empty).
  Notation rec_tx := (@rec_tx V Ch Req D stamp).
  Notation rec_prop := (@rec_prop V Ch Req D candidate candidate_rb rollback_of overlay commit_merge payload record_applied
                                  touched restore doc_ok v_empty d_empty ch_empty).
  Notation rec_cfg := (@rec_cfg V Ch Req D overlay restore resync_payload v_empty d_empty).
  Notation rec_master := (@rec_master V Ch Req D overlay restore v_empty).
  Notation rec_conn := (@rec_conn V Ch Req D).
  Notation reconcile := (@reconcile V Ch Req D candidate candidate_rb rollback_of overlay commit_merge payload record_applied
                                    touched restore resync_payload doc_ok stamp v_empty d_empty ch_empty).
  Notation step := (@step V Ch Req D candidate candidate_rb rollback_of overlay commit_merge payload record_applied
                          touched restore resync_payload doc_ok dev_apply stamp v_empty d_empty ch_empty).
  Notation reach := (@reach V Ch Req D candidate candidate_rb rollback_of overlay commit_merge payload record_applied
                            touched restore resync_payload doc_ok dev_apply stamp v_empty d_empty ch_empty).
  Notation view := (@view V overlay).
  Notation aview := (@aview V overlay).
  Notation dev_answer := (@dev_answer V Ch Req D d_empty).
  Notation rb_change := (@rb_change Ch ch_empty).

  (** * The status part of a configuration entry (everything but the four value maps) *)
  Definition core (C : config) :=
    (c_index C, c_proposed C, c_committed C, c_applied C, c_state C, c_master C, c_term C, c_amaster C, c_aterm C).
  Definition sim (C C' : config) : Prop := core C = core C'.

  Lemma sim_refl C : sim C C. Proof. reflexivity. Qed.
  Lemma sim_trans A B C : sim A B -> sim B C -> sim A C. Proof. unfold sim. congruence. Qed.

  Lemma sim_fields (C C' : config) : sim C C' ->
    c_index C = c_index C' /\ c_proposed C = c_proposed C' /\ c_committed C = c_committed C' /\ c_applied C = c_applied C' /\
    c_state C = c_state C' /\ c_master C = c_master C' /\ c_term C = c_term C' /\ c_amaster C = c_amaster C' /\ c_aterm C = c_aterm C'.
  Proof. unfold sim, core. intros [= -> -> -> -> -> -> -> -> ->]. repeat split. Qed.

  (** * One effect, seen from one configuration *)
  Lemma cfg_apply_eff_lookup (w : world) (e : eff) t C1 :
    cfgs (apply_eff w e) !! t = Some C1 ->
    (exists C, cfgs w !! t = Some C /\ sim C C1) \/
    (exists c, e = EPutCfg t c /\ sim c C1) \/
    (exists c, e = ECreateCfg t c /\ cfgs w !! t = None /\ C1 = c).
  Proof.
    rewrite cfgs_apply_eff. destruct e as [| | |t0 c|t0 c|t0 v|t0 v| | |]; try (intros H; left; exists C1; split; [exact H|reflexivity]).
    - destruct (cfgs w !! t0) eqn:E0; [intros H; left; exists C1; split; [exact H|reflexivity]|].
      destruct (decide (t0 = t)) as [->|Hne].
      + rewrite lookup_insert. intros [= <-]. right. right. exists c. auto.
      + rewrite lookup_insert_ne by exact Hne. intros H; left; exists C1; split; [exact H|reflexivity].
    - destruct (cfgs w !! t0) eqn:E0; [|intros H; left; exists C1; split; [exact H|reflexivity]].
      destruct (decide (t0 = t)) as [->|Hne].
      + rewrite lookup_insert. intros [= <-]. right. left. exists c. split; reflexivity.
      + rewrite lookup_insert_ne by exact Hne. intros H; left; exists C1; split; [exact H|reflexivity].
    - destruct (cfgs w !! t0) eqn:E0; [|intros H; left; exists C1; split; [exact H|reflexivity]].
      destruct (decide (t0 = t)) as [->|Hne].
      + rewrite lookup_insert. intros [= <-]. left. eexists. split; [exact E0|reflexivity].
      + rewrite lookup_insert_ne by exact Hne. intros H; left; exists C1; split; [exact H|reflexivity].
    - destruct (cfgs w !! t0) eqn:E0; [|intros H; left; exists C1; split; [exact H|reflexivity]].
      destruct (decide (t0 = t)) as [->|Hne].
      + rewrite lookup_insert. intros [= <-]. left. eexists. split; [exact E0|reflexivity].
      + rewrite lookup_insert_ne by exact Hne. intros H; left; exists C1; split; [exact H|reflexivity].
  Qed.

  Lemma cfg_apply_eff_none (w : world) (e : eff) t : cfgs (apply_eff w e) !! t = None -> cfgs w !! t = None.
  Proof.
    rewrite cfgs_apply_eff. destruct e as [| | |t0 c|t0 c|t0 v|t0 v| | |]; try (intros H; exact H);
      destruct (cfgs w !! t0) eqn:E0; try (intros H; exact H);
      (destruct (decide (t0 = t)) as [->|Hne]; [rewrite lookup_insert; discriminate|rewrite lookup_insert_ne by exact Hne; auto]).
  Qed.

  (* every prefix of an effect list, seen from one configuration *)
  Lemma cfg_prefix (es : list eff) : forall (w : world) (k : nat) t C',
    cfgs (fold_left apply_eff (firstn k es) w) !! t = Some C' ->
    (exists C, cfgs w !! t = Some C /\ sim C C') \/
    (exists c, In (EPutCfg t c) es /\ sim c C') \/
    (exists c, In (ECreateCfg t c) es /\ cfgs w !! t = None /\ sim c C').
  Proof.
    induction es as [|e r IH]; intros w k t C' H.
    - rewrite firstn_nil in H. left. exists C'. split; [exact H|reflexivity].
    - destruct k as [|k]; [left; exists C'; split; [exact H|reflexivity]|]. cbn [firstn fold_left] in H.
      destruct (IH _ _ _ _ H) as [(C1 & H1 & S1)|[(c & Hin & S)|(c & Hin & Hn & S)]].
      + destruct (cfg_apply_eff_lookup _ _ _ _ H1) as [(C & HC & S0)|[(c & -> & S0)|(c & -> & Hn & ->)]].
        * left. exists C. split; [exact HC|]. eapply sim_trans; eassumption.
        * right. left. exists c. split; [left; reflexivity|]. eapply sim_trans; eassumption.
        * right. right. exists c. split; [left; reflexivity|]. split; [exact Hn|exact S1].
      + right. left. exists c. split; [right; exact Hin|exact S].
      + right. right. exists c. split; [right; exact Hin|]. split; [|exact S]. eapply cfg_apply_eff_none. exact Hn.
  Qed.

  (* every prefix of an effect list, seen from the device log *)
  Lemma devlog_prefix (es : list eff) : forall (w : world) (k : nat),
    exists evs, devlog (fold_left apply_eff (firstn k es) w) = devlog w ++ evs /\ forall ev, In ev evs -> In (EDev ev) es.
  Proof.
    induction es as [|e r IH]; intros w k.
    - rewrite firstn_nil. exists []. split; [symmetry; apply app_nil_r|intros ev []].
    - destruct k as [|k]; [exists []; split; [symmetry; apply app_nil_r|intros ev []]|]. cbn [firstn fold_left].
      destruct (IH (apply_eff w e) k) as (evs & Hd & Hin). rewrite Hd, devlog_apply_eff.
      destruct e as [| | | | | | | | |ev0]; try (exists evs; split; [reflexivity|intros ev Hev; right; auto]).
      exists (ev0 :: evs). split; [rewrite <- app_assoc; reflexivity|].
      intros ev [->|Hev]; [left; reflexivity|right; auto].
  Qed.

  (** * The complete list of configuration entry writes, with their guards *)
  Inductive cfg_write (w : world) : ctrl -> N -> config -> config -> Prop :=
  | CW_resign t C : c_master C <> None -> my_rels w t = [] ->
      cfg_write w (CtlMaster t) t C (C <| c_master := None |>)
  | CW_elect t C m : rels w !! m = Some (t, true) ->
      (forall m0, c_master C = Some m0 -> rels w !! m0 <> Some (t, true)) ->
      cfg_write w (CtlMaster t) t C (C <| c_term := c_term C + 1 |> <| c_master := Some m |>)
  | CW_persist t C : targets w !! t = Some true ->
      cfg_write w (CtlCfg t) t C (C <| c_state := CPersisted |> <| c_amaster := c_master C |> <| c_aterm := c_term C |>)
  | CW_desync t C : targets w !! t = Some false -> c_state C <> CSynchronizing -> c_aterm C < c_term C ->
      cfg_write w (CtlCfg t) t C (C <| c_state := CSynchronizing |>)
  | CW_synced t C m : targets w !! t = Some false -> c_state C = CSynchronizing -> c_master C = Some m ->
      cfg_write w (CtlCfg t) t C (C <| c_state := CSynchronized |> <| c_amaster := c_master C |> <| c_aterm := c_term C |>)
  | CW_propose t i C P : props w !! (t, i) = Some P ->
      p_apply P = None -> p_abort P = None -> p_commit P = None -> p_validate P = None -> p_init P = Some Doing ->
      c_proposed C < i ->
      (c_proposed C = 0 \/ props w !! (t, c_proposed C) = None \/
       exists Q, props w !! (t, c_proposed C) = Some Q /\ p_next Q <> 0 /\ p_prev P <> 0) ->
      cfg_write w (CtlProp (t, i)) t C (C <| c_proposed := i |>)
  | CW_commit t i C P ix : props w !! (t, i) = Some P ->
      p_apply P = None -> p_abort P = None -> p_commit P = Some Doing -> c_committed C = p_prev P ->
      cfg_write w (CtlProp (t, i)) t C (C <| c_index := ix |> <| c_committed := i |>)
  | CW_abort_both t i C P : props w !! (t, i) = Some P ->
      p_apply P = None -> p_abort P = Some Doing -> c_committed C = p_prev P -> c_applied C = p_prev P ->
      cfg_write w (CtlProp (t, i)) t C (C <| c_committed := i |> <| c_applied := i |>)
  | CW_abort_committed t i C P : props w !! (t, i) = Some P ->
      p_apply P = None -> p_abort P = Some Doing -> c_committed C = p_prev P -> c_applied C <> p_prev P ->
      cfg_write w (CtlProp (t, i)) t C (C <| c_committed := i |>)
  | CW_abort_applied t i C P : props w !! (t, i) = Some P ->
      p_apply P = None -> p_abort P = Some Doing -> c_committed C <> p_prev P -> c_applied C = p_prev P -> i <= c_committed C ->
      cfg_write w (CtlProp (t, i)) t C (C <| c_applied := i |>)
  | CW_apply t i C P m : props w !! (t, i) = Some P ->
      p_apply P = Some Doing -> c_applied C < i -> (p_prev P = 0 \/ c_applied C = p_prev P) ->
      c_state C <> CSynchronizing -> c_term C <= c_aterm C -> c_master C = Some m ->
      cfg_write w (CtlProp (t, i)) t C (C <| c_applied := i |>).

  (** * Effects of the transaction and connection reconcilers never touch configurations or the device *)
  Definition tp_only (e : eff) : Prop :=
    match e with EPutTx _ _ | ECreateProp _ _ | EPutProp _ _ => True | _ => False end.

  Lemma phase_scan_tp (w : world) i (T : txn) tg get start stop on_failed on_all_done :
    Forall tp_only (fst (phase_scan w i T tg get start stop on_failed on_all_done)).
  Proof.
    unfold phase_scan. destruct_matches; cbn [fst]; repeat first [apply List.Forall_nil | apply List.Forall_cons; [exact I|]].
  Qed.

  Lemma gate_tp (w : world) i (T : txn) tg need next r : Forall tp_only (fst (gate w i T tg need next r)).
  Proof.
    unfold gate. destruct_matches; cbn [fst]; repeat first [apply List.Forall_nil | apply List.Forall_cons; [exact I|]].
  Qed.

  Lemma create_props_tp (w : world) i l : Forall tp_only (create_props w i l).
  Proof.
    induction l as [|[t p] l IH]; cbn; [apply List.Forall_nil|].
    destruct (props w !! (t, i)); cbn; [exact IH|apply List.Forall_cons; [exact I|exact IH]].
  Qed.

  Lemma rec_tx_tp (w : world) i : Forall tp_only (fst (rec_tx w i)).
  Proof.
    unfold Proto2.rec_tx, fail_init.
    repeat match goal with
           | |- Forall _ (fst (phase_scan _ _ _ _ _ _ _ _ _)) => apply phase_scan_tp
           | |- Forall _ (fst (gate _ _ _ _ _ _ _)) => apply gate_tp
           | |- Forall _ (fst (_ ++ _, _)) => cbn [fst]; apply Forall_app_2; [apply create_props_tp|]
           | |- Forall _ (fst ([], _)) => apply List.Forall_nil
           | |- Forall _ (fst ([_], _)) => cbn [fst]; apply List.Forall_cons; [exact I|apply List.Forall_nil]
           | |- Forall _ [_] => apply List.Forall_cons; [exact I|apply List.Forall_nil]
           | |- context [match ?x with _ => _ end] => destruct x
           end.
  Qed.

  Lemma tp_only_not_cfg (es : list eff) t c : Forall tp_only es -> In (EPutCfg t c) es -> False.
  Proof. intros Hf Hin. rewrite List.Forall_forall in Hf. exact (Hf _ Hin). Qed.
  Lemma tp_only_not_create (es : list eff) t c : Forall tp_only es -> In (ECreateCfg t c) es -> False.
  Proof. intros Hf Hin. rewrite List.Forall_forall in Hf. exact (Hf _ Hin). Qed.
  Lemma tp_only_not_dev (es : list eff) ev : Forall tp_only es -> In (EDev ev) es -> False.
  Proof. intros Hf Hin. rewrite List.Forall_forall in Hf. exact (Hf _ Hin). Qed.

  (** * Entry writes of the proposal reconciler *)
  Ltac in_cases H :=
    cbn [fst app In] in H;
    repeat match type of H with
           | _ \/ _ => destruct H as [H|H]; [try discriminate H|]
           | False => destruct H
           end.

  Ltac close_sim := unfold sim, core; cbn; reflexivity.

  Lemma rec_prop_putcfg (o : oracle) (w : world) t i t' c :
    In (EPutCfg t' c) (fst (rec_prop o w (t, i))) ->
    exists C c0, cfgs w !! t' = Some C /\ cfg_write w (CtlProp (t, i)) t' C c0 /\ sim c0 c.
  Proof.
    unfold Proto2.rec_prop, Proto2.vfail, Proto2.upd_status.
    destruct (props w !! (t, i)) as [P|] eqn:HP; [|intros []].
    destruct_matches; intros H;
      try (match goal with E : _ = Some ?e |- _ => is_var e;
             repeat match type of E with context [match ?x with _ => _ end] => destruct x eqn:? end;
             try discriminate E; injection E as <- end);
      in_cases H; injection H as <- <-; bool_hyps; eexists _, _; (split; [eassumption|]).
    all: first
      [ split; [eapply CW_apply; eauto; lia | close_sim]
      | split; [eapply CW_abort_both; eauto; lia | close_sim]
      | split; [eapply CW_abort_committed; eauto; lia | close_sim]
      | split; [eapply CW_abort_applied; eauto; lia | close_sim]
      | split; [eapply CW_commit; eauto; lia | close_sim]
      | split; [eapply CW_propose; eauto; lia | close_sim]
      | idtac ].
    split; [eapply CW_propose; eauto|close_sim].
    match goal with H : _ = None |- _ =>
      repeat match type of H with context [match ?x with _ => _ end] => destruct x eqn:? end; try discriminate H end;
      bool_hyps.
    - right. right. eexists. split; [reflexivity|]. split; assumption.
    - right. left. reflexivity.
    - left. lia.
    Unshelve. all: exact 0.
  Qed.
End Cursor.

(* Cursors of a target's configuration in the v2 protocol model (Model/Proto2.v), all schedules, all crash prefixes:
     - what ONE step can do to a configuration entry ([cfg_write]: the complete list of entry writes, each with the
       guard under which the real reconciler issues it) and to the device log ([reconcile_dev]),
     - single-step theorems for C02 (who moves Committed / Applied, from where to where; who sends to the device),
     - record-local invariants (PrevIndex < index < NextIndex, applied term <= term) and cursor monotonicity.
   The chain / phase-order invariants needed for "never sent before merged" are in P2_CursorChain.v;
   the mastership theorems (C10) are in P2_Term.v. *)
From stdpp Require Import gmap.
From RecordUpdate Require Import RecordUpdate.
From Coq Require Import NArith Lia.
From OC Require Import Model.Proto2 Proofs.P2Base Proofs.P2Phases.
Open Scope N_scope.

(* turn the boolean guards collected by [destruct_matches] into propositions *)
Ltac bool_hyps :=
  repeat match goal with
         | H : _ && _ = true |- _ => apply andb_prop in H; destruct H
         | H : _ && _ = false |- _ => apply andb_false_iff in H; destruct H as [H|H]
         | H : negb _ = true |- _ => apply negb_true_iff in H
         | H : negb _ = false |- _ => apply negb_false_iff in H
         | H : (_ =? _) = true |- _ => apply N.eqb_eq in H
         | H : (_ =? _) = false |- _ => apply N.eqb_neq in H
         | H : (_ <? _) = true |- _ => apply N.ltb_lt in H
         | H : (_ <? _) = false |- _ => apply N.ltb_ge in H
         | H : (_ <=? _) = true |- _ => apply N.leb_le in H
         | H : (_ <=? _) = false |- _ => apply N.leb_gt in H
         | H : bool_decide _ = true |- _ => apply bool_decide_eq_true in H
         | H : bool_decide _ = false |- _ => apply bool_decide_eq_false in H
         | H : is_none ?x = true |- _ => destruct x eqn:?; [discriminate H|clear H]
         | H : is_none ?x = false |- _ => destruct x eqn:?; [clear H|discriminate H]
         end.

Section Cursor.
  Context {V Ch Req D : Type}.
  Context (candidate : V -> Ch -> V) (candidate_rb : V -> Ch -> V) (rollback_of : V -> Ch -> Ch)
          (overlay : V -> V -> V) (commit_merge : N -> N -> V -> V -> Ch -> V)
          (payload : N -> V -> Ch -> option Req) (record_applied : N -> N -> V -> V -> V -> Ch -> V)
          (touched : N -> V -> Ch -> V) (restore : V -> V -> V)
          (resync_payload : V -> list (option Req)) (doc_ok : V -> bool)
          (dev_apply : D -> Req -> D) (stamp : N -> Ch -> Ch) (v_empty : V) (d_empty : D) (ch_empty : Ch).

  Notation world := (@world V Ch Req D).
  Notation eff := (@eff V Ch Req).
  Notation txn := (@txn Ch).
  Notation prop := (@prop Ch).
  Notation config := (@config V).
  Notation devev := (@devev Req).
  Notation apply_eff := (@apply_eff V Ch Req D dev_apply d_empty).
  Notation rec_tx := (@rec_tx V Ch Req D stamp).
  Notation rec_prop := (@rec_prop V Ch Req D candidate candidate_rb rollback_of overlay commit_merge payload record_applied
                                  touched restore doc_ok v_empty d_empty ch_empty).
  Notation rec_cfg := (@rec_cfg V Ch Req D overlay restore resync_payload v_empty d_empty).
  Notation rec_master := (@rec_master V Ch Req D overlay restore v_empty).
  Notation rec_conn := (@rec_conn V Ch Req D).
  Notation reconcile := (@reconcile V Ch Req D candidate candidate_rb rollback_of overlay commit_merge payload record_applied
                                    touched restore resync_payload doc_ok stamp v_empty d_empty ch_empty).
  Notation step := (@step V Ch Req D candidate candidate_rb rollback_of overlay commit_merge payload record_applied
                          touched restore resync_payload doc_ok dev_apply stamp v_empty d_empty ch_empty).
  Notation reach := (@reach V Ch Req D candidate candidate_rb rollback_of overlay commit_merge payload record_applied
                            touched restore resync_payload doc_ok dev_apply stamp v_empty d_empty ch_empty).
  Notation view := (@view V overlay).
  Notation aview := (@aview V overlay).
  Notation dev_answer := (@dev_answer V Ch Req D d_empty).
  Notation rb_change := (@rb_change Ch ch_empty).

  (** * The status part of a configuration entry (everything but the four value maps) *)
  Definition core (C : config) :=
    (c_index C, c_proposed C, c_committed C, c_applied C, c_state C, c_master C, c_term C, c_amaster C, c_aterm C).
  Definition sim (C C' : config) : Prop := core C = core C'.

  Lemma sim_refl C : sim C C. Proof. reflexivity. Qed.
  Lemma sim_trans A B C : sim A B -> sim B C -> sim A C. Proof. unfold sim. congruence. Qed.

  Lemma sim_fields (C C' : config) : sim C C' ->
    c_index C = c_index C' /\ c_proposed C = c_proposed C' /\ c_committed C = c_committed C' /\ c_applied C = c_applied C' /\
    c_state C = c_state C' /\ c_master C = c_master C' /\ c_term C = c_term C' /\ c_amaster C = c_amaster C' /\ c_aterm C = c_aterm C'.
  Proof. unfold sim, core. intros [= -> -> -> -> -> -> -> -> ->]. repeat split. Qed.

  (** * One effect, seen from one configuration *)
  Lemma cfg_apply_eff_lookup (w : world) (e : eff) t C1 :
    cfgs (apply_eff w e) !! t = Some C1 ->
    (exists C, cfgs w !! t = Some C /\ sim C C1) \/
    (exists c, e = EPutCfg t c /\ sim c C1) \/
    (exists c, e = ECreateCfg t c /\ cfgs w !! t = None /\ C1 = c).
  Proof.
    rewrite cfgs_apply_eff. destruct e as [| | |t0 c|t0 c|t0 v|t0 v| | |]; try (intros H; left; exists C1; split; [exact H|reflexivity]).
    - destruct (cfgs w !! t0) eqn:E0; [intros H; left; exists C1; split; [exact H|reflexivity]|].
      destruct (decide (t0 = t)) as [->|Hne].
      + rewrite lookup_insert. intros [= <-]. right. right. exists c. auto.
      + rewrite lookup_insert_ne by exact Hne. intros H; left; exists C1; split; [exact H|reflexivity].
    - destruct (cfgs w !! t0) eqn:E0; [|intros H; left; exists C1; split; [exact H|reflexivity]].
      destruct (decide (t0 = t)) as [->|Hne].
      + rewrite lookup_insert. intros [= <-]. right. left. exists c. split; reflexivity.
      + rewrite lookup_insert_ne by exact Hne. intros H; left; exists C1; split; [exact H|reflexivity].
    - destruct (cfgs w !! t0) eqn:E0; [|intros H; left; exists C1; split; [exact H|reflexivity]].
      destruct (decide (t0 = t)) as [->|Hne].
      + rewrite lookup_insert. intros [= <-]. left. eexists. split; [exact E0|reflexivity].
      + rewrite lookup_insert_ne by exact Hne. intros H; left; exists C1; split; [exact H|reflexivity].
    - destruct (cfgs w !! t0) eqn:E0; [|intros H; left; exists C1; split; [exact H|reflexivity]].
      destruct (decide (t0 = t)) as [->|Hne].
      + rewrite lookup_insert. intros [= <-]. left. eexists. split; [exact E0|reflexivity].
      + rewrite lookup_insert_ne by exact Hne. intros H; left; exists C1; split; [exact H|reflexivity].
  Qed.

  Lemma cfg_apply_eff_none (w : world) (e : eff) t : cfgs (apply_eff w e) !! t = None -> cfgs w !! t = None.
  Proof.
    rewrite cfgs_apply_eff. destruct e as [| | |t0 c|t0 c|t0 v|t0 v| | |]; try (intros H; exact H);
      destruct (cfgs w !! t0) eqn:E0; try (intros H; exact H);
      (destruct (decide (t0 = t)) as [->|Hne]; [rewrite lookup_insert; discriminate|rewrite lookup_insert_ne by exact Hne; auto]).
  Qed.

  (* every prefix of an effect list, seen from one configuration *)
  Lemma cfg_prefix (es : list eff) : forall (w : world) (k : nat) t C',
    cfgs (fold_left apply_eff (firstn k es) w) !! t = Some C' ->
    (exists C, cfgs w !! t = Some C /\ sim C C') \/
    (exists c, In (EPutCfg t c) es /\ sim c C') \/
    (exists c, In (ECreateCfg t c) es /\ cfgs w !! t = None /\ sim c C').
  Proof.
    induction es as [|e r IH]; intros w k t C' H.
    - rewrite firstn_nil in H. left. exists C'. split; [exact H|reflexivity].
    - destruct k as [|k]; [left; exists C'; split; [exact H|reflexivity]|]. cbn [firstn fold_left] in H.
      destruct (IH _ _ _ _ H) as [(C1 & H1 & S1)|[(c & Hin & S)|(c & Hin & Hn & S)]].
      + destruct (cfg_apply_eff_lookup _ _ _ _ H1) as [(C & HC & S0)|[(c & -> & S0)|(c & -> & Hn & ->)]].
        * left. exists C. split; [exact HC|]. eapply sim_trans; eassumption.
        * right. left. exists c. split; [left; reflexivity|]. eapply sim_trans; eassumption.
        * right. right. exists c. split; [left; reflexivity|]. split; [exact Hn|exact S1].
      + right. left. exists c. split; [right; exact Hin|exact S].
      + right. right. exists c. split; [right; exact Hin|]. split; [|exact S]. eapply cfg_apply_eff_none. exact Hn.
  Qed.

  (* every prefix of an effect list, seen from the device log *)
  Lemma devlog_prefix (es : list eff) : forall (w : world) (k : nat),
    exists evs, devlog (fold_left apply_eff (firstn k es) w) = devlog w ++ evs /\ forall ev, In ev evs -> In (EDev ev) es.
  Proof.
    induction es as [|e r IH]; intros w k.
    - rewrite firstn_nil. exists []. split; [symmetry; apply app_nil_r|intros ev []].
    - destruct k as [|k]; [exists []; split; [symmetry; apply app_nil_r|intros ev []]|]. cbn [firstn fold_left].
      destruct (IH (apply_eff w e) k) as (evs & Hd & Hin). rewrite Hd, devlog_apply_eff.
      destruct e as [| | | | | | | | |ev0]; try (exists evs; split; [reflexivity|intros ev Hev; right; auto]).
      exists (ev0 :: evs). split; [rewrite <- app_assoc; reflexivity|].
      intros ev [->|Hev]; [left; reflexivity|right; auto].
  Qed.

  (** * The complete list of configuration entry writes, with their guards *)
  Inductive cfg_write (w : world) : ctrl -> N -> config -> config -> Prop :=
  | CW_resign t C : c_master C <> None -> my_rels w t = [] ->
      cfg_write w (CtlMaster t) t C (C <| c_master := None |>)
  | CW_elect t C m : rels w !! m = Some (t, true) ->
      (forall m0, c_master C = Some m0 -> rels w !! m0 <> Some (t, true)) ->
      cfg_write w (CtlMaster t) t C (C <| c_term := c_term C + 1 |> <| c_master := Some m |>)
  | CW_persist t C : targets w !! t = Some true ->
      cfg_write w (CtlCfg t) t C (C <| c_state := CPersisted |> <| c_amaster := c_master C |> <| c_aterm := c_term C |>)
  | CW_desync t C : targets w !! t = Some false -> c_state C <> CSynchronizing -> c_aterm C < c_term C ->
      cfg_write w (CtlCfg t) t C (C <| c_state := CSynchronizing |>)
  | CW_synced t C m : targets w !! t = Some false -> c_state C = CSynchronizing -> c_master C = Some m ->
      cfg_write w (CtlCfg t) t C (C <| c_state := CSynchronized |> <| c_amaster := c_master C |> <| c_aterm := c_term C |>)
  | CW_propose t i C P : props w !! (t, i) = Some P ->
      p_apply P = None -> p_abort P = None -> p_commit P = None -> p_validate P = None -> p_init P = Some Doing ->
      c_proposed C < i ->
      (c_proposed C = 0 \/ props w !! (t, c_proposed C) = None \/
       exists Q, props w !! (t, c_proposed C) = Some Q /\ p_next Q <> 0 /\ p_prev P <> 0) ->
      cfg_write w (CtlProp (t, i)) t C (C <| c_proposed := i |>)
  | CW_commit t i C P ix : props w !! (t, i) = Some P ->
      p_apply P = None -> p_abort P = None -> p_commit P = Some Doing -> c_committed C = p_prev P ->
      cfg_write w (CtlProp (t, i)) t C (C <| c_index := ix |> <| c_committed := i |>)
  | CW_abort_both t i C P : props w !! (t, i) = Some P ->
      p_apply P = None -> p_abort P = Some Doing -> c_committed C = p_prev P -> c_applied C = p_prev P ->
      cfg_write w (CtlProp (t, i)) t C (C <| c_committed := i |> <| c_applied := i |>)
  | CW_abort_committed t i C P : props w !! (t, i) = Some P ->
      p_apply P = None -> p_abort P = Some Doing -> c_committed C = p_prev P -> c_applied C <> p_prev P ->
      cfg_write w (CtlProp (t, i)) t C (C <| c_committed := i |>)
  | CW_abort_applied t i C P : props w !! (t, i) = Some P ->
      p_apply P = None -> p_abort P = Some Doing -> c_committed C <> p_prev P -> c_applied C = p_prev P -> i <= c_committed C ->
      cfg_write w (CtlProp (t, i)) t C (C <| c_applied := i |>)
  | CW_apply t i C P m : props w !! (t, i) = Some P ->
      p_apply P = Some Doing -> c_applied C < i -> (p_prev P = 0 \/ c_applied C = p_prev P) ->
      c_state C <> CSynchronizing -> c_term C <= c_aterm C -> c_master C = Some m ->
      cfg_write w (CtlProp (t, i)) t C (C <| c_applied := i |>)
  (* passFailedProposal: the applied index moves past a proposal whose Apply phase has failed *)
  | CW_pass_failed t i C P : props w !! (t, i) = Some P ->
      p_apply P = Some Failed -> c_applied C < i ->
      cfg_write w (CtlProp (t, i)) t C (C <| c_applied := i |>).

  (** * Effects of the transaction and connection reconcilers never touch configurations or the device *)
  Definition tp_only (e : eff) : Prop :=
    match e with EPutTx _ _ | ECreateProp _ _ | EPutProp _ _ => True | _ => False end.

  Lemma phase_scan_tp (w : world) i (T : txn) tg get start stop on_failed on_all_done :
    Forall tp_only (fst (phase_scan w i T tg get start stop on_failed on_all_done)).
  Proof.
    unfold phase_scan. destruct_matches; cbn [fst]; repeat first [apply List.Forall_nil | apply List.Forall_cons; [exact I|]].
  Qed.

  Lemma gate_tp (w : world) i (T : txn) tg need next r : Forall tp_only (fst (gate w i T tg need next r)).
  Proof.
    unfold gate. destruct_matches; cbn [fst]; repeat first [apply List.Forall_nil | apply List.Forall_cons; [exact I|]].
  Qed.

  Lemma create_props_tp (w : world) i l : Forall tp_only (create_props w i l).
  Proof.
    induction l as [|[t p] l IH]; cbn; [apply List.Forall_nil|].
    destruct (props w !! (t, i)); cbn; [exact IH|apply List.Forall_cons; [exact I|exact IH]].
  Qed.

  Lemma rec_tx_tp (w : world) i : Forall tp_only (fst (rec_tx w i)).
  Proof.
    unfold Proto2.rec_tx, fail_init.
    repeat match goal with
           | |- Forall _ (fst (phase_scan _ _ _ _ _ _ _ _ _)) => apply phase_scan_tp
           | |- Forall _ (fst (gate _ _ _ _ _ _ _)) => apply gate_tp
           | |- Forall _ (fst (_ ++ _, _)) => cbn [fst]; apply Forall_app_2; [apply create_props_tp|]
           | |- Forall _ (fst ([], _)) => apply List.Forall_nil
           | |- Forall _ (fst ([_], _)) => cbn [fst]; apply List.Forall_cons; [exact I|apply List.Forall_nil]
           | |- Forall _ [_] => apply List.Forall_cons; [exact I|apply List.Forall_nil]
           | |- context [match ?x with _ => _ end] => destruct x
           end.
  Qed.

  Lemma tp_only_not_cfg (es : list eff) t c : Forall tp_only es -> In (EPutCfg t c) es -> False.
  Proof. intros Hf Hin. rewrite List.Forall_forall in Hf. exact (Hf _ Hin). Qed.
  Lemma tp_only_not_create (es : list eff) t c : Forall tp_only es -> In (ECreateCfg t c) es -> False.
  Proof. intros Hf Hin. rewrite List.Forall_forall in Hf. exact (Hf _ Hin). Qed.
  Lemma tp_only_not_dev (es : list eff) ev : Forall tp_only es -> In (EDev ev) es -> False.
  Proof. intros Hf Hin. rewrite List.Forall_forall in Hf. exact (Hf _ Hin). Qed.

  (** * Entry writes of the proposal reconciler *)
  Ltac in_cases H :=
    cbn [fst app In] in H;
    repeat match type of H with
           | _ \/ _ => destruct H as [H|H]; [try discriminate H|]
           | False => destruct H
           end.

  Ltac close_sim := unfold sim, core; cbn; first [reflexivity | congruence].

  Lemma rec_prop_putcfg (o : oracle) (w : world) t i t' c :
    In (EPutCfg t' c) (fst (rec_prop o w (t, i))) ->
    exists C c0, cfgs w !! t' = Some C /\ cfg_write w (CtlProp (t, i)) t' C c0 /\ sim c0 c.
  Proof.
    unfold Proto2.rec_prop, Proto2.vfail, Proto2.upd_status.
    destruct (props w !! (t, i)) as [P|] eqn:HP; [|intros []].
    destruct_matches; intros H;
      try (match goal with E : _ = Some ?e |- _ => is_var e;
             repeat match type of E with context [match ?x with _ => _ end] => destruct x eqn:? end;
             try discriminate E; injection E as <- end);
      in_cases H; injection H as <- <-; bool_hyps; eexists _, _; (split; [eassumption|]).
    all: first
      [ split; [eapply CW_apply; eauto; lia | close_sim]
      | split; [eapply CW_pass_failed; eauto; lia | close_sim]
      | split; [eapply CW_abort_both; eauto; lia | close_sim]
      | split; [eapply CW_abort_committed; eauto; lia | close_sim]
      | split; [eapply CW_abort_applied; eauto; lia | close_sim]
      | split; [eapply CW_commit; eauto; lia | close_sim]
      | split; [eapply CW_propose; eauto; lia | close_sim]
      | idtac ].
    split; [eapply CW_propose; eauto|close_sim].
    match goal with H : _ = None |- _ =>
      repeat match type of H with context [match ?x with _ => _ end] => destruct x eqn:? end; try discriminate H end;
      bool_hyps.
    - right. right. eexists. split; [reflexivity|]. split; assumption.
    - right. left. reflexivity.
    - left. lia.
    Unshelve. all: exact 0.
  Qed.
  Lemma rec_prop_createcfg (o : oracle) (w : world) t i t' c :
    In (ECreateCfg t' c) (fst (rec_prop o w (t, i))) ->
    t' = t /\ cfgs w !! t = None /\ is_Some (props w !! (t, i)) /\ core c = (0, i, 0, 0, CUnknown, None, 0, None, 0).
  Proof.
    unfold Proto2.rec_prop, Proto2.vfail, Proto2.upd_status.
    destruct (props w !! (t, i)) as [P|] eqn:HP; [|intros []].
    destruct_matches; intros H;
      try (match goal with E : _ = Some ?e |- _ => is_var e;
             repeat match type of E with context [match ?x with _ => _ end] => destruct x eqn:? end;
             try discriminate E; injection E as <- end);
      in_cases H; injection H as <- <-. repeat split; eauto.
  Qed.

  (** * Device requests of the proposal reconciler *)
  (* the guard under which reconcileApply sends the change of proposal (t, i) *)
  Definition sent_by_apply (w : world) (o : oracle) (t i m term : N) (r : Req) (a : code) : Prop :=
    exists C P, cfgs w !! t = Some C /\ props w !! (t, i) = Some P /\
      term = c_term C /\ c_master C = Some m /\ (exists tt, rels w !! m = Some (tt, true)) /\ is_Some (conns w !! m) /\
      a = dev_answer w t (c_term C) o /\
      p_apply P = Some Doing /\ c_applied C < i /\ (p_prev P = 0 \/ c_applied C = p_prev P) /\
      c_state C <> CSynchronizing /\ c_term C <= c_aterm C /\ is_Some (targets w !! t) /\
      payload i (view C) (rb_change P) = Some r.

  Lemma rec_prop_dev (o : oracle) (w : world) t i t' m term og r a :
    In (EDev (DevSet t' m term og r a)) (fst (rec_prop o w (t, i))) ->
    t' = t /\ og = Some i /\ sent_by_apply w o t i m term r a.
  Proof.
    unfold Proto2.rec_prop, Proto2.vfail, Proto2.upd_status.
    destruct (props w !! (t, i)) as [P|] eqn:HP; [|intros []].
    destruct_matches; intros H;
      try (match goal with E : _ = Some ?e |- _ => is_var e;
             repeat match type of E with context [match ?x with _ => _ end] => destruct x eqn:? end;
             try discriminate E; injection E as <- end);
      in_cases H; injection H as <- <- <- <- <- <-; bool_hyps;
      (split; [reflexivity|]); (split; [reflexivity|]); eexists _, _;
      repeat match goal with |- _ /\ _ => split end; eauto; try lia.
    all: match goal with H : targets _ !! _ = Some _ |- _ => rewrite H; eexists; reflexivity end.
  Qed.

  (** * The configuration reconciler *)
  Lemma resync_effs_in t m term a reqs e :
    In e (fst (@resync_effs V Ch Req t m term a reqs)) -> exists r, e = EDev (DevSet t m term None r a) /\ In (Some r) reqs.
  Proof.
    induction reqs as [|[r|] rest IH]; cbn; try (intros []).
    destruct a; cbn;
      try (intros [<-|[]]; exists r; split; [reflexivity|left; reflexivity]).
    destruct (resync_effs t m term COk rest) as [es res] eqn:E. cbn in *.
    intros [<-|Hin]; [exists r; split; [reflexivity|left; reflexivity]|].
    destruct (IH Hin) as (r' & -> & Hr). exists r'. split; [reflexivity|right; exact Hr].
  Qed.

  (* the re-push loop falls through only when every request was sent and answered OK *)
  Lemma resync_effs_complete t m term a reqs :
    snd (@resync_effs V Ch Req t m term a reqs) = None ->
    exists rs, reqs = map Some rs /\
               fst (@resync_effs V Ch Req t m term a reqs) = map (fun r => EDev (DevSet t m term None r COk)) rs.
  Proof.
    induction reqs as [|[r|] rest IH]; cbn.
    - intros _. exists []. split; reflexivity.
    - destruct a; cbn; try discriminate.
      destruct (resync_effs t m term COk rest) as [es res] eqn:E. cbn in *. intros ->.
      destruct (IH eq_refl) as (rs & -> & ->). exists (r :: rs). split; reflexivity.
    - discriminate.
  Qed.

  Definition sent_by_resync (w : world) (o : oracle) (t m term : N) (r : Req) (a : code) : Prop :=
    exists C, cfgs w !! t = Some C /\ targets w !! t = Some false /\
      term = c_term C /\ c_master C = Some m /\ (exists tt, rels w !! m = Some (tt, true)) /\ is_Some (conns w !! m) /\
      a = dev_answer w t (c_term C) o /\
      c_state C = CSynchronizing /\ c_applied C <> 0 /\ In (Some r) (resync_payload (aview C)).

  Lemma rec_cfg_dev (o : oracle) (w : world) t t' m term og r a :
    In (EDev (DevSet t' m term og r a)) (fst (rec_cfg o w t)) ->
    t' = t /\ og = None /\ sent_by_resync w o t m term r a.
  Proof.
    unfold Proto2.rec_cfg, Proto2.upd_status.
    destruct_matches; intros H; cbn [fst] in H;
      try (apply in_app_or in H; destruct H as [H|H]); in_cases H.
    all: match goal with E : resync_effs ?t0 ?m0 ?te0 ?a0 ?rq0 = (?es, _), H : In _ ?es |- _ =>
           let Hx := fresh in
           pose proof (resync_effs_in t0 m0 te0 a0 rq0) as Hx;
           rewrite E in Hx; cbn [fst] in Hx; destruct (Hx _ H) as (r' & Heq & Hr); injection Heq as -> -> -> -> -> -> end.
    all: bool_hyps; (split; [reflexivity|]); (split; [reflexivity|]); eexists;
      repeat match goal with |- _ /\ _ => split end; eauto; try (eexists; reflexivity).
  Qed.

  Lemma rec_cfg_putcfg (o : oracle) (w : world) t t' c :
    In (EPutCfg t' c) (fst (rec_cfg o w t)) ->
    exists C c0, cfgs w !! t' = Some C /\ cfg_write w (CtlCfg t) t' C c0 /\ sim c0 c.
  Proof.
    unfold Proto2.rec_cfg, Proto2.upd_status.
    destruct_matches; intros H; cbn [fst] in H;
      try (apply in_app_or in H; destruct H as [H|H]);
      try (match goal with E : resync_effs ?t0 ?m0 ?te0 ?a0 ?rq0 = (?es, _), H : In _ ?es |- _ =>
           let Hx := fresh in
           pose proof (resync_effs_in t0 m0 te0 a0 rq0) as Hx;
           rewrite E in Hx; cbn [fst] in Hx; destruct (Hx _ H) as (r' & Heq & Hr); discriminate Heq end);
      in_cases H; injection H as <- <-; bool_hyps; eexists _, _; (split; [eassumption|]).
    all: first
      [ split; [eapply CW_persist; eauto | close_sim]
      | split; [eapply CW_desync; eauto; lia | close_sim]
      | split; [eapply CW_synced; eauto | close_sim] ].
  Qed.

  Lemma rec_cfg_createcfg (o : oracle) (w : world) t t' c : In (ECreateCfg t' c) (fst (rec_cfg o w t)) -> False.
  Proof.
    unfold Proto2.rec_cfg, Proto2.upd_status.
    destruct_matches; intros H; cbn [fst] in H;
      try (apply in_app_or in H; destruct H as [H|H]);
      try (match goal with E : resync_effs ?t0 ?m0 ?te0 ?a0 ?rq0 = (?es, _), H : In _ ?es |- _ =>
           let Hx := fresh in
           pose proof (resync_effs_in t0 m0 te0 a0 rq0) as Hx;
           rewrite E in Hx; cbn [fst] in Hx; destruct (Hx _ H) as (r' & Heq & Hr); discriminate Heq end);
      in_cases H.
  Qed.

  (** * The mastership reconciler *)
  Lemma my_rels_spec (w : world) t m : In m (my_rels w t) -> rels w !! m = Some (t, true).
  Proof.
    unfold my_rels. intros H. apply in_map_iff in H. destruct H as ([m' [t' b]] & <- & H). cbn.
    apply elem_of_list_In in H. apply elem_of_list_filter in H. destruct H as [Hb H].
    apply elem_of_map_to_list in H. cbn in Hb. apply bool_decide_unpack in Hb. rewrite H. f_equal. exact Hb.
  Qed.

  Lemma rec_master_putcfg (o : oracle) (w : world) t t' c :
    In (EPutCfg t' c) (fst (rec_master o w t)) ->
    exists C c0, cfgs w !! t' = Some C /\ cfg_write w (CtlMaster t) t' C c0 /\ sim c0 c.
  Proof.
    unfold Proto2.rec_master, Proto2.upd_status.
    destruct_matches; intros H; in_cases H; injection H as <- <-; bool_hyps; eexists _, _; (split; [eassumption|]).
    all: first
      [ split; [eapply CW_resign; eauto; congruence | close_sim]
      | split; [eapply CW_elect | close_sim] ].
    all: try (apply my_rels_spec; match goal with E : my_rels _ _ = _ |- _ => rewrite E end;
              eapply elem_of_list_In, elem_of_list_lookup_2; eassumption).
    all: intros m0 Hm0; match goal with E : match _ with _ => _ end = false |- _ => rewrite Hm0 in E end; bool_hyps; assumption.
  Qed.

  Lemma rec_master_only_putcfg (o : oracle) (w : world) t e :
    In e (fst (rec_master o w t)) -> match e with EPutCfg _ _ | EPutAValues _ _ => True | _ => False end.
  Proof.
    unfold Proto2.rec_master, Proto2.upd_status.
    destruct_matches; intros H; in_cases H; subst e; exact I.
  Qed.

  Lemma rec_conn_only_rel (w : world) c e :
    In e (fst (rec_conn w c)) -> match e with ERelCreate _ _ | ERelDelete _ => True | _ => False end.
  Proof.
    unfold Proto2.rec_conn. destruct_matches; intros H; in_cases H; subst e; exact I.
  Qed.

  (** * All reconcilers *)
  Lemma reconcile_putcfg (o : oracle) (w : world) ctl t c :
    In (EPutCfg t c) (fst (reconcile o w ctl)) ->
    exists C c0, cfgs w !! t = Some C /\ cfg_write w ctl t C c0 /\ sim c0 c.
  Proof.
    destruct ctl as [i|[t0 i]|t0|t0|c0]; cbn [Proto2.reconcile]; intros H.
    - destruct (tp_only_not_cfg _ _ _ (rec_tx_tp w i) H).
    - eapply rec_prop_putcfg; eassumption.
    - eapply rec_cfg_putcfg; eassumption.
    - eapply rec_master_putcfg; eassumption.
    - apply rec_conn_only_rel in H. destruct H.
  Qed.

  Lemma reconcile_createcfg (o : oracle) (w : world) ctl t c :
    In (ECreateCfg t c) (fst (reconcile o w ctl)) ->
    exists i, ctl = CtlProp (t, i) /\ cfgs w !! t = None /\ is_Some (props w !! (t, i)) /\
              core c = (0, i, 0, 0, CUnknown, None, 0, None, 0).
  Proof.
    destruct ctl as [i|[t0 i]|t0|t0|c0]; cbn [Proto2.reconcile]; intros H.
    - destruct (tp_only_not_create _ _ _ (rec_tx_tp w i) H).
    - apply rec_prop_createcfg in H. destruct H as (-> & H1 & H2 & H3). exists i. auto.
    - destruct (rec_cfg_createcfg _ _ _ _ _ H).
    - apply rec_master_only_putcfg in H. destruct H.
    - apply rec_conn_only_rel in H. destruct H.
  Qed.

  Lemma reconcile_dev (o : oracle) (w : world) ctl t m term og r a :
    In (EDev (DevSet t m term og r a)) (fst (reconcile o w ctl)) ->
    (exists i, ctl = CtlProp (t, i) /\ og = Some i /\ sent_by_apply w o t i m term r a) \/
    (ctl = CtlCfg t /\ og = None /\ sent_by_resync w o t m term r a).
  Proof.
    destruct ctl as [i|[t0 i]|t0|t0|c0]; cbn [Proto2.reconcile]; intros H.
    - destruct (tp_only_not_dev _ _ (rec_tx_tp w i) H).
    - apply rec_prop_dev in H. destruct H as (-> & -> & H). left. exists i. auto.
    - apply rec_cfg_dev in H. destruct H as (-> & -> & H). right. auto.
    - apply rec_master_only_putcfg in H. destruct H.
    - apply rec_conn_only_rel in H. destruct H.
  Qed.
  (** * One step, seen from one configuration / from the device log *)
  Lemma cfg_step_none (w : world) l t : cfgs (step w l) !! t = None -> cfgs w !! t = None.
  Proof.
    destruct l as [chs sy se|ri|c k o|c t0|c|c t0|t0 p|t0|t0]; cbn [Proto2.step]; try (intros H; exact H).
    - generalize (fst (reconcile o w c)). intros es. revert w k. induction es as [|e r IH]; intros w k H.
      + rewrite firstn_nil in H. exact H.
      + destruct k as [|k]; [exact H|]. cbn [firstn fold_left] in H. eapply cfg_apply_eff_none. eapply IH. exact H.
    - destruct (conns w !! c); intros H; exact H.
    - destruct (rels w !! c); intros H; exact H.
  Qed.

  Lemma cfg_step (w : world) l t C' :
    cfgs (step w l) !! t = Some C' ->
    (exists C, cfgs w !! t = Some C /\
       (sim C C' \/ exists ctl k o c0, l = LRec ctl k o /\ cfg_write w ctl t C c0 /\ sim c0 C')) \/
    (cfgs w !! t = None /\ exists i k o, l = LRec (CtlProp (t, i)) k o /\ is_Some (props w !! (t, i)) /\
                                        core C' = (0, i, 0, 0, CUnknown, None, 0, None, 0)).
  Proof.
    destruct l as [chs sy se|ri|c k o|c t0|c|c t0|t0 p|t0|t0]; cbn [Proto2.step];
      try (intros H; left; exists C'; split; [exact H|left; reflexivity]).
    - intros H. apply cfg_prefix in H. destruct H as [(C & HC & S)|[(c0 & Hin & S)|(c0 & Hin & Hn & S)]].
      + left. exists C. split; [exact HC|left; exact S].
      + apply reconcile_putcfg in Hin. destruct Hin as (C & c1 & HC & Hw & S1). left. exists C. split; [exact HC|].
        right. exists c, k, o, c1. split; [reflexivity|]. split; [exact Hw|]. eapply sim_trans; eassumption.
      + apply reconcile_createcfg in Hin. destruct Hin as (i & -> & _ & Hp & Hc). right. split; [exact Hn|].
        exists i, k, o. split; [reflexivity|]. split; [exact Hp|]. rewrite <- Hc. symmetry. exact S.
    - destruct (conns w !! c); intros H; left; exists C'; (split; [exact H|left; reflexivity]).
    - destruct (rels w !! c); intros H; left; exists C'; (split; [exact H|left; reflexivity]).
  Qed.

  Lemma devlog_step (w : world) l :
    exists evs, devlog (step w l) = devlog w ++ evs /\
      forall ev, In ev evs -> exists ctl k o, l = LRec ctl k o /\ In (EDev ev) (fst (reconcile o w ctl)).
  Proof.
    destruct l as [chs sy se|ri|c k o|c t0|c|c t0|t0 p|t0|t0]; cbn [Proto2.step];
      try (exists []; split; [symmetry; apply app_nil_r|intros ev []]).
    - destruct (devlog_prefix (fst (reconcile o w c)) w k) as (evs & Hd & Hin). exists evs. split; [exact Hd|].
      intros ev Hev. exists c, k, o. split; [reflexivity|]. apply Hin. exact Hev.
    - destruct (conns w !! c); exists []; (split; [symmetry; apply app_nil_r|intros ev []]).
    - destruct (rels w !! c); exists []; (split; [symmetry; apply app_nil_r|intros ev []]).
  Qed.

  (* what a step appends to the device log *)
  Lemma devlog_step_in (w : world) l evs t m term og r a :
    devlog (step w l) = devlog w ++ evs -> In (DevSet t m term og r a) evs ->
    exists ctl k o, l = LRec ctl k o /\
      ((exists i, ctl = CtlProp (t, i) /\ og = Some i /\ sent_by_apply w o t i m term r a) \/
       (ctl = CtlCfg t /\ og = None /\ sent_by_resync w o t m term r a)).
  Proof.
    intros Hd Hin. destruct (devlog_step w l) as (evs' & Hd' & Hin'). rewrite Hd in Hd'. apply app_inv_head in Hd'. subst evs'.
    destruct (Hin' _ Hin) as (ctl & k & o & -> & He). exists ctl, k, o. split; [reflexivity|]. apply reconcile_dev. exact He.
  Qed.

  (** * C02, single step: who moves the cursors *)
  Definition committed_of (w : world) (t : N) : N := match cfgs w !! t with Some C => c_committed C | None => 0 end.
  Definition applied_of (w : world) (t : N) : N := match cfgs w !! t with Some C => c_applied C | None => 0 end.

  Ltac sim_cbn S := apply sim_fields in S; cbn in S; destruct S as (S1 & S2 & S3 & S4 & S5 & S6 & S7 & S8 & S9).

  Theorem committed_moves_by_successor (w : world) l t :
    committed_of (step w l) t <> committed_of w t ->
    exists i k o P, l = LRec (CtlProp (t, i)) k o /\ props w !! (t, i) = Some P /\
      committed_of (step w l) t = i /\ committed_of w t = p_prev P /\
      p_apply P = None /\ ((p_abort P = None /\ p_commit P = Some Doing) \/ p_abort P = Some Doing).
  Proof.
    unfold committed_of. destruct (cfgs (step w l) !! t) as [C'|] eqn:H'.
    - apply cfg_step in H'. destruct H' as [(C & HC & [S|(ctl & k & o & c0 & -> & Hw & S)])|(Hn & i & k & o & -> & _ & Hc)].
      + rewrite HC. sim_cbn S. intros Hne. congruence.
      + rewrite HC. intros Hne. inversion Hw; subst; sim_cbn S; try congruence.
        all: exists i, k, o, P; repeat split; auto; congruence.
      + rewrite Hn. unfold core in Hc. injection Hc as _ _ -> _ _ _ _ _ _. intros Hne. congruence.
    - rewrite (cfg_step_none _ _ _ H'). intros Hne. congruence.
  Qed.

  Theorem applied_moves_by_successor (w : world) l t :
    applied_of (step w l) t <> applied_of w t ->
    exists i k o P, l = LRec (CtlProp (t, i)) k o /\ props w !! (t, i) = Some P /\
      applied_of (step w l) t = i /\
      ((p_apply P = Some Doing /\ applied_of w t < i /\ (p_prev P = 0 \/ applied_of w t = p_prev P)) \/
       (p_apply P = Some Failed /\ applied_of w t < i) \/
       (p_apply P = None /\ p_abort P = Some Doing /\ applied_of w t = p_prev P)).
  Proof.
    unfold applied_of. destruct (cfgs (step w l) !! t) as [C'|] eqn:H'.
    - apply cfg_step in H'. destruct H' as [(C & HC & [S|(ctl & k & o & c0 & -> & Hw & S)])|(Hn & i & k & o & -> & _ & Hc)].
      + rewrite HC. sim_cbn S. intros Hne. congruence.
      + rewrite HC. intros Hne. inversion Hw; subst; sim_cbn S; try congruence.
        all: exists i, k, o, P; (split; [reflexivity|]); (split; [assumption|]); (split; [congruence|]); auto 8.
      + rewrite Hn. unfold core in Hc. injection Hc as _ _ _ -> _ _ _ _ _. intros Hne. congruence.
    - rewrite (cfg_step_none _ _ _ H'). intros Hne. congruence.
  Qed.

  (* C02: every request sent for proposal (t, i) comes from that proposal's reconcileApply, in its Apply phase,
     when Applied.Index is its PrevIndex, outside SYNCHRONIZING and with the applied term up to date *)
  Theorem sent_in_order (w : world) l evs t m term i r a :
    devlog (step w l) = devlog w ++ evs -> In (DevSet t m term (Some i) r a) evs ->
    exists k o, l = LRec (CtlProp (t, i)) k o /\ sent_by_apply w o t i m term r a.
  Proof.
    intros Hd Hin. destruct (devlog_step_in _ _ _ _ _ _ _ _ _ Hd Hin) as (ctl & k & o & -> & [(i' & -> & [= <-] & Hs)|(_ & Hx & _)]).
    - exists k, o. auto.
    - discriminate Hx.
  Qed.
  (** * One step, seen from one proposal *)
  Lemma prop_apply_eff_lookup (w : world) (e : eff) k P' :
    props (apply_eff w e) !! k = Some P' ->
    props w !! k = Some P' \/ e = EPutProp k P' \/ (e = ECreateProp k P' /\ props w !! k = None).
  Proof.
    rewrite props_apply_eff. destruct e as [|k0 p|k0 p| | | | | | |]; try (intros H; left; exact H).
    - destruct (props w !! k0) eqn:E0; [intros H; left; exact H|].
      destruct (decide (k0 = k)) as [->|Hne].
      + rewrite lookup_insert. intros [= <-]. right. right. auto.
      + rewrite lookup_insert_ne by exact Hne. intros H; left; exact H.
    - destruct (decide (k0 = k)) as [->|Hne].
      + rewrite lookup_insert. intros [= <-]. right. left. reflexivity.
      + rewrite lookup_insert_ne by exact Hne. intros H; left; exact H.
  Qed.

  Lemma prop_apply_eff_none (w : world) (e : eff) k : props (apply_eff w e) !! k = None -> props w !! k = None.
  Proof.
    rewrite props_apply_eff. destruct e as [|k0 p|k0 p| | | | | | |]; try (intros H; exact H).
    - destruct (props w !! k0) eqn:E0; [intros H; exact H|].
      destruct (decide (k0 = k)) as [->|Hne]; [rewrite lookup_insert; discriminate|rewrite lookup_insert_ne by exact Hne; auto].
    - destruct (decide (k0 = k)) as [->|Hne]; [rewrite lookup_insert; discriminate|rewrite lookup_insert_ne by exact Hne; auto].
  Qed.

  Lemma prop_prefix (es : list eff) : forall (w : world) (n : nat) k P',
    props (fold_left apply_eff (firstn n es) w) !! k = Some P' ->
    props w !! k = Some P' \/ In (EPutProp k P') es \/ (In (ECreateProp k P') es /\ props w !! k = None).
  Proof.
    induction es as [|e r IH]; intros w n k P' H.
    - rewrite firstn_nil in H. left. exact H.
    - destruct n as [|n]; [left; exact H|]. cbn [firstn fold_left] in H.
      destruct (IH _ _ _ _ H) as [H1|[Hin|[Hin Hn]]].
      + destruct (prop_apply_eff_lookup _ _ _ _ H1) as [H0|[->|[-> Hn]]].
        * left. exact H0.
        * right. left. left. reflexivity.
        * right. right. split; [left; reflexivity|exact Hn].
      + right. left. right. exact Hin.
      + right. right. split; [right; exact Hin|]. eapply prop_apply_eff_none. exact Hn.
  Qed.

  Lemma prop_step (w : world) l k P' :
    props (step w l) !! k = Some P' ->
    props w !! k = Some P' \/
    exists ctl n o, l = LRec ctl n o /\
      (In (EPutProp k P') (fst (reconcile o w ctl)) \/ (In (ECreateProp k P') (fst (reconcile o w ctl)) /\ props w !! k = None)).
  Proof.
    destruct l as [chs sy se|ri|c n o|c t0|c|c t0|t0 p|t0|t0]; cbn [Proto2.step]; try (intros H; left; exact H).
    - intros H. apply prop_prefix in H. destruct H as [H|H]; [left; exact H|]. right. exists c, n, o. split; [reflexivity|exact H].
    - destruct (conns w !! c); intros H; left; exact H.
    - destruct (rels w !! c); intros H; left; exact H.
  Qed.

  (** * Proposal writes of the transaction reconciler *)
  Lemma scan_props_inr_in (w : world) i tg f t p :
    scan_props w i tg f = Some (inr (t, p)) -> props w !! (t, i) = Some p /\ f p = true /\ In t tg.
  Proof.
    induction tg as [|t0 ts IH]; cbn; [discriminate|].
    destruct (props w !! (t0, i)) as [p0|] eqn:Hp; [|discriminate].
    destruct (f p0) eqn:Hf.
    - intros [= <- <-]. auto.
    - intros H. destruct (IH H) as (H1 & H2 & H3). auto.
  Qed.

  Lemma phase_scan_putprop (w : world) i (T : txn) tg get start stop on_failed on_all_done k P' :
    In (EPutProp k P') (fst (phase_scan w i T tg get start stop on_failed on_all_done)) ->
    exists t p, k = (t, i) /\ props w !! (t, i) = Some p /\ P' = start p /\ In t tg /\ get p = None.
  Proof.
    unfold phase_scan. destruct (scan_props w i tg _) as [[u|[t p]]|] eqn:Hscan.
    - intros [].
    - apply scan_props_inr_in in Hscan. destruct Hscan as (Hp & Hf & Hin).
      destruct (is_none (get p)) eqn:Hn; cbn; intros [H|[]]; [|discriminate H].
      injection H as <- <-. exists t, p. repeat split; auto. destruct (get p); [discriminate|reflexivity].
    - destruct (default false _); cbn; [intros [H|[]]; discriminate H|intros []].
  Qed.

  Lemma phase_scan_no_create (w : world) i (T : txn) tg get start stop on_failed on_all_done k P' :
    In (ECreateProp k P') (fst (phase_scan w i T tg get start stop on_failed on_all_done)) -> False.
  Proof.
    unfold phase_scan. destruct_matches; cbn; intros H; in_cases H.
  Qed.

  Lemma gate_only_tx (w : world) i (T : txn) tg need next r e :
    In e (fst (gate w i T tg need next r)) -> exists T', e = EPutTx i T'.
  Proof.
    unfold gate. destruct_matches; cbn; intros H; in_cases H. subst e. eexists. reflexivity.
  Qed.

  Lemma create_props_in (w : world) i l e :
    In e (create_props w i l) -> exists tp, In tp l /\ e = ECreateProp (tp.1, i) tp.2.
  Proof.
    induction l as [|[t p] l IH]; cbn; [intros []|].
    destruct (props w !! (t, i)); cbn.
    - intros H. destruct (IH H) as (tp & Hin & ->). exists tp. auto.
    - intros [<-|H]; [exists (t, p); auto|]. destruct (IH H) as (tp & Hin & ->). exists tp. auto.
  Qed.

  (* the four ways the transaction reconciler starts a phase on one of its proposals *)
  Definition tx_starts (T : txn) (p P' : prop) : Prop :=
    (t_apply T = Some Doing /\ p_apply p = None /\ P' = p <| p_apply := Some Doing |>) \/
    (t_apply T = None /\ t_abort T = Some Doing /\ p_abort p = None /\ P' = p <| p_abort := Some Doing |>) \/
    (t_apply T = None /\ t_abort T = None /\ t_commit T = Some Doing /\ p_commit p = None /\ P' = p <| p_commit := Some Doing |>) \/
    (t_apply T = None /\ t_abort T = None /\ t_commit T = None /\ t_validate T = Some Doing /\ p_validate p = None /\
     P' = p <| p_validate := Some Doing |>).

  Ltac no_prop_eff :=
    cbn [fst]; intros H;
    try (apply in_app_or in H; destruct H as [H|H];
         [apply create_props_in in H; destruct H as (? & _ & H); discriminate H|]);
    in_cases H.

  Lemma rec_tx_putprop (w : world) i k P' :
    In (EPutProp k P') (fst (rec_tx w i)) ->
    exists t p T, k = (t, i) /\ txs w !! i = Some T /\ In t (default [] (t_props T)) /\ props w !! k = Some p /\ tx_starts T p P'.
  Proof.
    unfold Proto2.rec_tx, fail_init. destruct (txs w !! i) as [T|] eqn:HT; [|intros []].
    destruct (t_apply T) as [a|] eqn:Ea.
    { destruct a; try (cbn; intros []).
      destruct (scan_props w i (default [] (t_props T)) _) as [[u|[t1 p1]]|] eqn:Hscan.
      - cbn. intros [].
      - cbn. intros [H|[]]. injection H as <- <-. apply scan_props_inr_in in Hscan. destruct Hscan as (Hp & Hf & Hin).
        exists t1, p1, T. repeat split; auto. left. repeat split; auto. destruct (p_apply p1); [discriminate Hf|reflexivity].
      - intros H. apply phase_scan_putprop in H.
        destruct H as (t & p & -> & Hp & -> & Hin & Hg). exists t, p, T. repeat split; auto. left. auto. }
    destruct (t_abort T) as [ab|] eqn:Eb.
    { destruct ab; try (cbn; intros []). intros H. apply phase_scan_putprop in H.
      destruct H as (t & p & -> & Hp & -> & Hin & Hg). exists t, p, T. repeat split; auto. right. left. auto. }
    destruct (t_commit T) as [c|] eqn:Ec.
    { destruct c; try (cbn; intros []).
      - intros H. apply phase_scan_putprop in H.
        destruct H as (t & p & -> & Hp & -> & Hin & Hg). exists t, p, T. repeat split; auto. right. right. left. auto.
      - intros H. apply gate_only_tx in H. destruct H as (? & H). discriminate H. }
    destruct (t_validate T) as [v|] eqn:Ev.
    { destruct v; try (cbn; intros []).
      - intros H. apply phase_scan_putprop in H.
        destruct H as (t & p & -> & Hp & -> & Hin & Hg). exists t, p, T. repeat split; auto. right. right. right. repeat split; auto.
      - intros H. apply gate_only_tx in H. destruct H as (? & H). discriminate H. }
    destruct (t_init T) as [ini|] eqn:Ei; [|no_prop_eff].
    destruct ini; try (cbn; intros []).
    - destruct_matches; no_prop_eff.
    - intros H. apply gate_only_tx in H. destruct H as (? & H). discriminate H.
  Qed.

  (* proposals are created by the Initialize phase of their transaction, once the previous transaction is past it *)
  Lemma rec_tx_createprop (w : world) i k P' :
    In (ECreateProp k P') (fst (rec_tx w i)) ->
    exists t T, k = (t, i) /\ txs w !! i = Some T /\
      t_apply T = None /\ t_abort T = None /\ t_commit T = None /\ t_validate T = None /\ t_init T = Some Doing /\ t_props T = None /\
      (forall Pv, txs w !! (i - 1) = Some Pv -> t_init Pv = Some Done \/ t_init Pv = Some Failed) /\
      ((exists c, P' = new_change_prop c) \/ (exists ri, P' = new_rollback_prop ri)).
  Proof.
    unfold Proto2.rec_tx, fail_init. destruct (txs w !! i) as [T|] eqn:HT; [|intros []].
    destruct (t_apply T) as [a|] eqn:Ea.
    { destruct a; try (cbn; intros []).
      destruct (scan_props w i (default [] (t_props T)) _) as [[u|[t1 p1]]|] eqn:Hscan.
      - cbn. intros [].
      - cbn. intros [H|[]]. discriminate H.
      - intros H. destruct (phase_scan_no_create _ _ _ _ _ _ _ _ _ _ _ H). }
    destruct (t_abort T) as [ab|] eqn:Eb.
    { destruct ab; try (cbn; intros []). intros H. destruct (phase_scan_no_create _ _ _ _ _ _ _ _ _ _ _ H). }
    destruct (t_commit T) as [c|] eqn:Ec.
    { destruct c; try (cbn; intros []).
      - intros H. destruct (phase_scan_no_create _ _ _ _ _ _ _ _ _ _ _ H).
      - intros H. apply gate_only_tx in H. destruct H as (? & H). discriminate H. }
    destruct (t_validate T) as [v|] eqn:Ev.
    { destruct v; try (cbn; intros []).
      - intros H. destruct (phase_scan_no_create _ _ _ _ _ _ _ _ _ _ _ H).
      - intros H. apply gate_only_tx in H. destruct H as (? & H). discriminate H. }
    destruct (t_init T) as [ini|] eqn:Ei; [|cbn; intros [H|[]]; discriminate H].
    destruct ini; try (cbn; intros []).
    2:{ intros H. apply gate_only_tx in H. destruct H as (? & H). discriminate H. }
    destruct (match txs w !! (i - 1) with Some P => _ | None => false end) eqn:Hprev; [cbn; intros []|].
    assert (Hpv : forall Pv, txs w !! (i - 1) = Some Pv -> t_init Pv = Some Done \/ t_init Pv = Some Failed).
    { intros Pv HPv. rewrite HPv in Hprev. destruct (t_init Pv) as [[]|]; cbn in Hprev; try discriminate; auto. }
    clear Hprev.
    destruct (t_props T) eqn:Ep; [destruct_matches; cbn; intros H; in_cases H|].
    destruct_matches; cbn [fst]; intros H; try (in_cases H; fail);
      (apply in_app_or in H; destruct H as [H|H]; [|in_cases H]);
      apply create_props_in in H; destruct H as ([tt pp] & Hin & H); cbn in H; injection H as -> ->;
      apply in_map_iff in Hin; destruct Hin as (tc & Heq & _); injection Heq as <- <-;
      eexists _, T; repeat split; eauto.
  Qed.
End Cursor.

(* C09 - the cross-record wait (a) of the token invariant, proved for every reachable queued world:
   a transaction i that is INITIALIZING and enabled is pending, or its predecessor i-1 is INITIALIZED and has not started
   its validation yet (it is parked at, or about to pass, the validate gate - and the write that passes the gate returns
   Requeue{i}).  Uses the invariants proved for every reachable world of Model/Proto2.v (J, K, T_inv), lifted along
   "queued runs are runs". *)
From stdpp Require Import gmap.
From RecordUpdate Require Import RecordUpdate.
From Coq Require Import NArith Lia.
From OC Require Import Model.Proto2 Model.Proto2Queue Proofs.P2Base Proofs.P2Phases Proofs.P2_Order Proofs.P2_Cursor
     Proofs.P2_CursorInv Proofs.P2_CursorLink Proofs.P2_Queue.
Open Scope N_scope.

Section WaitA.
  Context {V Ch Req D : Type}.
  Context (candidate : V -> Ch -> V) (candidate_rb : V -> Ch -> V) (rollback_of : V -> Ch -> Ch)
          (overlay : V -> V -> V) (commit_merge : N -> N -> V -> V -> Ch -> V)
          (payload : N -> V -> Ch -> option Req) (record_applied : N -> N -> V -> V -> V -> Ch -> V)
          (touched : N -> V -> Ch -> V) (restore : V -> V -> V)
          (resync_payload : V -> list (option Req)) (doc_ok : V -> bool)
          (dev_apply : D -> Req -> D) (stamp : N -> Ch -> Ch) (v_empty : V) (d_empty : D) (ch_empty : Ch).

  Notation world := (@world V Ch Req D).
  Notation eff := (@eff V Ch Req).
  Notation txn := (@txn Ch).
  Notation prop := (@prop Ch).
  Notation qworld := (@qworld V Ch Req D).
  Notation apply_eff := (@apply_eff V Ch Req D dev_apply d_empty).
  Notation rec_tx := (@rec_tx V Ch Req D stamp).
  Notation reconcile := (@reconcile V Ch Req D candidate candidate_rb rollback_of overlay commit_merge payload record_applied
                                    touched restore resync_payload doc_ok stamp v_empty d_empty ch_empty).
  Notation step := (@step V Ch Req D candidate candidate_rb rollback_of overlay commit_merge payload record_applied
                          touched restore resync_payload doc_ok dev_apply stamp v_empty d_empty ch_empty).
  Notation reach := (@reach V Ch Req D candidate candidate_rb rollback_of overlay commit_merge payload record_applied
                            touched restore resync_payload doc_ok dev_apply stamp v_empty d_empty ch_empty).
  Notation qstep := (@qstep V Ch Req D candidate candidate_rb rollback_of overlay commit_merge payload record_applied
                            touched restore resync_payload doc_ok dev_apply stamp v_empty d_empty ch_empty).
  Notation qreach := (@qreach V Ch Req D candidate candidate_rb rollback_of overlay commit_merge payload record_applied
                              touched restore resync_payload doc_ok dev_apply stamp v_empty d_empty ch_empty).
  Notation apply_effs := (@apply_effs V Ch Req D dev_apply d_empty).
  Notation K_reach := (P2_Order.K_reach candidate candidate_rb rollback_of overlay commit_merge payload record_applied touched restore
                                        resync_payload doc_ok dev_apply stamp v_empty d_empty ch_empty).
  Notation T_reach := (T_inv_reach candidate candidate_rb rollback_of overlay commit_merge payload record_applied touched restore
                                   resync_payload doc_ok dev_apply stamp v_empty d_empty ch_empty).
  Notation q_reach := (qreach_reach candidate candidate_rb rollback_of overlay commit_merge payload record_applied touched restore
                                    resync_payload doc_ok dev_apply stamp v_empty d_empty ch_empty).

  (** * The statement *)
  Definition others_none (T : txn) : Prop :=
    t_validate T = None /\ t_commit T = None /\ t_apply T = None /\ t_abort T = None.
  (* INITIALIZED, validation not started *)
  Definition at_init_gate (T : txn) : Prop := t_init T = Some Done /\ others_none T.
  Definition tx_enabled (w : world) (i : N) : Prop := fst (rec_tx w i) <> [].

  Definition wait_a (s : qworld) : Prop :=
    forall i T, txs (qw s) !! i = Some T -> t_init T = Some Doing -> tx_enabled (qw s) i ->
                In (CtlTx i) (queue s) \/ exists P, txs (qw s) !! (i - 1) = Some P /\ at_init_gate P.

  (** * What the INITIALIZING branch of the transaction reconciler depends on *)
  Definition blocks (w : world) (i : N) : bool :=
    match txs w !! (i - 1) with
    | Some P => is_none (t_init P) || bool_decide (t_init P = Some Doing)
    | None => false
    end.
  Definition ready (w : world) (i : N) (T : txn) : bool :=
    match t_props T with
    | None => true
    | Some tg => match all_props w i tg (fun p => negb (is_none (p_init p) || bool_decide (p_init p = Some Doing))) with
                 | Some true => true
                 | _ => false
                 end
    end.

  Lemma early_others_none (w : world) i (T : txn) :
    reach w -> txs w !! i = Some T -> t_init T = None \/ t_init T = Some Doing -> others_none T.
  Proof.
    intros Hr HT Hi. pose proof (K_reach _ Hr) as HK. pose proof (T_reach _ Hr) as HTI.
    pose proof (j_tx _ (P2_Order.k_J _ HK) _ _ HT) as Hwf. unfold tx_wf, wfb, imp, P2Phases.some, P2Phases.is_ph in Hwf.
    assert (Hab : t_abort T = None).
    { destruct (t_abort T) as [ab|] eqn:E; [|reflexivity].
      assert (Hp : past_init T) by (apply (ti_abort _ HTI _ _ HT); rewrite E; eexists; reflexivity).
      destruct Hp as [Hp|Hp]; destruct Hi as [Hi|Hi]; congruence. }
    unfold others_none. rewrite Hab.
    destruct Hi as [Hi|Hi]; rewrite Hi in Hwf;
      destruct (t_validate T) as [[]|], (t_commit T) as [[]|], (t_apply T) as [[]|]; cbn in Hwf; try discriminate; auto.
  Qed.

  Ltac open_tx HT Hi Ho :=
    unfold Proto2.rec_tx; rewrite HT;
    let Hv := fresh "Hv" in let Hc := fresh "Hc" in let Ha := fresh "Ha" in let Hab := fresh "Hab" in
    destruct Ho as (Hv & Hc & Ha & Hab); rewrite Ha, Hab, Hc, Hv, Hi; cbv zeta.

  Lemma app_one_nonnil {A} (l : list A) (x : A) : l ++ [x] <> [].
  Proof. intros H. apply app_eq_nil in H. destruct H as [_ H]. discriminate. Qed.

  (* enabled <-> not blocked by the predecessor and ready *)
  Lemma init_enabled (w : world) i (T : txn) :
    txs w !! i = Some T -> t_init T = Some Doing -> others_none T ->
    (tx_enabled w i <-> blocks w i = false /\ ready w i T = true).
  Proof.
    intros HT Hi Ho. unfold tx_enabled, blocks, ready. open_tx HT Hi Ho.
    destruct (match txs w !! (i - 1) with Some P => _ | None => false end) eqn:Eb.
    - cbn. split; [intros H; destruct (H eq_refl)|intros [H _]; discriminate].
    - destruct (t_props T) as [tg|] eqn:Ep.
      + destruct (all_props w i tg _) as [[|]|]; cbn; split; try (intros H; destruct (H eq_refl)); try (intros [_ H]; discriminate);
          intros _; try (split; reflexivity); discriminate.
      + split; [intros _; split; reflexivity|intros _].
        destruct (t_details T) as [chs|ri].
        * cbn [fst]. apply app_one_nonnil.
        * destruct (txs w !! ri) as [R|]; [destruct (t_details R)|]; cbn [fst]; unfold fail_init; try apply app_one_nonnil; discriminate.
  Qed.

  (* an enabled INITIALIZING transaction writes its own record *)
  Lemma init_enabled_writes (w : world) i (T : txn) :
    txs w !! i = Some T -> t_init T = Some Doing -> others_none T -> tx_enabled w i ->
    exists T', In (EPutTx i T') (fst (rec_tx w i)).
  Proof.
    intros HT Hi Ho. unfold tx_enabled. open_tx HT Hi Ho.
    destruct (match txs w !! (i - 1) with Some P => _ | None => false end); [intros H; destruct (H eq_refl)|].
    destruct (t_props T) as [tg|].
    - destruct (all_props w i tg _) as [[|]|]; cbn; intros H; try destruct (H eq_refl). eexists. left. reflexivity.
    - intros _. destruct (t_details T) as [chs|ri].
      + cbn [fst]. eexists. apply in_or_app. right. left. reflexivity.
      + destruct (txs w !! ri) as [R|]; [destruct (t_details R)|]; cbn [fst]; unfold fail_init;
          eexists; try (apply in_or_app; right); left; reflexivity.
  Qed.

  (* what a not yet initialised / INITIALIZING transaction writes to its record, and what it returns *)
  Lemma init_writes (w : world) j (P : txn) j' (P' : txn) :
    txs w !! j = Some P -> t_init P = None \/ t_init P = Some Doing -> others_none P ->
    In (EPutTx j' P') (fst (rec_tx w j)) ->
    t_init P' = Some Doing \/ (t_init P' = Some Failed /\ snd (rec_tx w j) = RRequeueTx (j + 1)) \/ at_init_gate P'.
  Proof.
    intros HP Hi Ho. destruct Hi as [Hi|Hi].
    - open_tx HP Hi Ho. cbn. intros [[= <- <-]|[]]. left. reflexivity.
    - pose proof Ho as Ho'. open_tx HP Hi Ho.
      destruct (match txs w !! (j - 1) with Some P0 => _ | None => false end); [cbn; intros []|].
      destruct (t_props P) as [tg|] eqn:Ep.
      + destruct (all_props w j tg _) as [[|]|]; cbn; [|intros []|intros []]. intros [[= <- <-]|[]].
        right. right. split; [reflexivity|]. exact Ho'.
      + assert (Hcp : forall l (e : eff), In (EPutTx j' P') (create_props w j l ++ [e]) -> e = EPutTx j' P').
        { intros l e Hin. apply in_app_or in Hin. destruct Hin as [Hin|[<-|[]]]; [|reflexivity].
          unfold create_props in Hin. apply in_flat_map in Hin. destruct Hin as (x & _ & Hx).
          destruct (props w !! (x.1, j)); [destruct Hx|destruct Hx as [Hx|[]]; discriminate]. }
        destruct (t_details P) as [chs|ri].
        * cbn [fst]. intros Hin. apply Hcp in Hin. injection Hin as <- <-. left. exact Hi.
        * destruct (txs w !! ri) as [R|]; [destruct (t_details R)|]; cbn [fst snd]; unfold fail_init.
          -- intros Hin. apply Hcp in Hin. injection Hin as <- <-. left. exact Hi.
          -- intros [[= <- <-]|[]]. right. left. split; reflexivity.
          -- intros [[= <- <-]|[]]. right. left. split; reflexivity.
  Qed.

  (* an INITIALIZED transaction that has not started validating: passing the gate returns Requeue{index+1} *)
  Lemma gate_requeues (w : world) j (P : txn) :
    txs w !! j = Some P -> at_init_gate P -> fst (rec_tx w j) = [] \/ snd (rec_tx w j) = RRequeueTx (j + 1).
  Proof.
    intros HP [Hi Ho]. open_tx HP Hi Ho. unfold gate.
    destruct (all_props w j _ _); [|left; reflexivity].
    destruct (blocked_by_prev w j _ 1); [left; reflexivity|right; reflexivity].
  Qed.

  (** * Frames: what a list of effects leaves alone *)
  Lemma txs_fold (es : list eff) : forall (w : world) j (T' : txn),
    txs (fold_left apply_eff es w) !! j = Some T' -> txs w !! j = Some T' \/ In (EPutTx j T') es.
  Proof.
    induction es as [|e r IH]; intros w j T' H; [left; exact H|]. cbn [fold_left] in H.
    destruct (IH _ _ _ H) as [H1|H1]; [|right; right; exact H1].
    rewrite txs_apply_eff in H1. destruct e; try (left; exact H1).
    destruct (decide (i = j)) as [->|Hne].
    - rewrite lookup_insert in H1. injection H1 as ->. right. left. reflexivity.
    - rewrite lookup_insert_ne in H1 by exact Hne. left. exact H1.
  Qed.

  Definition touches_prop (k : N * N) (e : eff) : bool :=
    match e with
    | EPutProp k' _ | ECreateProp k' _ => (fst k' =? fst k) && (snd k' =? snd k)
    | _ => false
    end.

  Lemma props_fold_same (es : list eff) k : forall (w : world),
    forallb (fun e => negb (touches_prop k e)) es = true -> props (fold_left apply_eff es w) !! k = props w !! k.
  Proof.
    induction es as [|e r IH]; intros w H; [reflexivity|]. cbn in H. apply andb_prop in H. destruct H as [He Hr].
    cbn [fold_left]. rewrite (IH _ Hr). rewrite props_apply_eff.
    assert (Hk : forall k', (fst k' =? fst k) && (snd k' =? snd k) = false -> k' <> k).
    { intros k' Hf ->. rewrite !N.eqb_refl in Hf. discriminate. }
    destruct e; try reflexivity; cbn in He; apply negb_true_iff in He; apply Hk in He.
    - destruct (props w !! k0); [reflexivity|]. rewrite lookup_insert_ne by exact He. reflexivity.
    - rewrite lookup_insert_ne by exact He. reflexivity.
  Qed.

  Lemma all_props_ext (w w' : world) i tg f :
    (forall t, props w' !! (t, i) = props w !! (t, i)) -> all_props w' i tg f = all_props w i tg f.
  Proof. intros H. unfold all_props. induction tg as [|t tg IH]; cbn; [reflexivity|]. rewrite IH, H. reflexivity. Qed.

  Lemma ready_ext (w w' : world) i T :
    (forall t, props w' !! (t, i) = props w !! (t, i)) -> ready w' i T = ready w i T.
  Proof. intros H. unfold ready. destruct (t_props T); [|reflexivity]. rewrite (all_props_ext _ _ _ _ _ H). reflexivity. Qed.

  (** * Who writes a transaction record / creates a proposal *)
  Lemma puttx_writer (o : oracle) (w : world) c j T' :
    reach w -> In (EPutTx j T') (fst (reconcile o w c)) -> c = CtlTx j.
  Proof.
    intros Hr. destruct c as [i|kk|t0|t0|c0]; cbn [Proto2.reconcile]; intros H.
    - destruct (rec_tx_puttx candidate candidate_rb rollback_of overlay commit_merge payload record_applied touched restore
                  resync_payload doc_ok dev_apply stamp v_empty d_empty ch_empty w i j T' Hr H) as [-> _]. reflexivity.
    - destruct (rec_prop_no_puttx _ _ _ _ _ _ _ _ _ _ _ _ _ _ _ _ _ H).
    - apply rec_cfg_kinds in H. destruct H.
    - apply rec_master_only_putcfg in H. destruct H.
    - apply rec_conn_only_rel in H. destruct H.
  Qed.

  (** * The queue after a delivery *)
  Lemma remove_nth_keeps {A} (l : list A) : forall n c x, nth_error l n = Some c -> In x l -> x <> c -> In x (remove_nth n l).
  Proof.
    induction l as [|a l IH]; intros n c x Hn Hin Hne; [destruct Hin|].
    destruct n as [|n]; cbn in *.
    - injection Hn as ->. destruct Hin as [->|Hin]; [destruct (Hne eq_refl)|exact Hin].
    - destruct Hin as [->|Hin]; [left; reflexivity|right; eapply IH; eassumption].
  Qed.
End WaitA.

(* C09 - the cross-record wait (a) of the token invariant, proved for every reachable queued world:
   a transaction i that is INITIALIZING and enabled is pending, or its predecessor i-1 is INITIALIZED and has not started
   its validation yet (it is parked at, or about to pass, the validate gate - and the write that passes the gate returns
   Requeue{i}).  Uses the invariants proved for every reachable world of Model/Proto2.v (J, K, T_inv), lifted along
   "queued runs are runs". *)
From stdpp Require Import gmap.
From RecordUpdate Require Import RecordUpdate.
From Coq Require Import NArith Lia.
From OC Require Import Model.Proto2 Model.Proto2Queue Proofs.P2Base Proofs.P2Phases Proofs.P2_Order Proofs.P2_Cursor
     Proofs.P2_CursorInv Proofs.P2_CursorLink Proofs.P2_CursorChainInv Proofs.P2_Queue.
Open Scope N_scope.

Section WaitA.
  Context {V Ch Req D : Type}.
  Context (candidate : V -> Ch -> V) (candidate_rb : V -> Ch -> V) (rollback_of : V -> Ch -> Ch)
          (overlay : V -> V -> V) (commit_merge : N -> N -> V -> V -> Ch -> V)
          (payload : N -> V -> Ch -> option Req) (record_applied : N -> N -> V -> V -> V -> Ch -> V)
          (touched : N -> V -> Ch -> V) (restore : V -> V -> V)
          (resync_payload : V -> list (option Req)) (doc_ok : V -> bool)
          (dev_apply : D -> Req -> D) (stamp : N -> Ch -> Ch) (v_empty : V) (d_empty : D) (ch_empty : Ch).

  Notation world := (@world V Ch Req D).
  Notation eff := (@eff V Ch Req).
  Notation txn := (@txn Ch).
  Notation prop := (@prop Ch).
  Notation qworld := (@qworld V Ch Req D).
  Notation apply_eff := (@apply_eff V Ch Req D dev_apply d_empty).
  Notation rec_tx := (@rec_tx V Ch Req D stamp).
  Notation reconcile := (@reconcile V Ch Req D candidate candidate_rb rollback_of overlay commit_merge payload record_applied
                                    touched restore resync_payload doc_ok stamp v_empty d_empty ch_empty).
  Notation step := (@step V Ch Req D candidate candidate_rb rollback_of overlay commit_merge payload record_applied
                          touched restore resync_payload doc_ok dev_apply stamp v_empty d_empty ch_empty).
  Notation reach := (@reach V Ch Req D candidate candidate_rb rollback_of overlay commit_merge payload record_applied
                            touched restore resync_payload doc_ok dev_apply stamp v_empty d_empty ch_empty).
  Notation qstep := (@qstep V Ch Req D candidate candidate_rb rollback_of overlay commit_merge payload record_applied
                            touched restore resync_payload doc_ok dev_apply stamp v_empty d_empty ch_empty).
  Notation qreach := (@qreach V Ch Req D candidate candidate_rb rollback_of overlay commit_merge payload record_applied
                              touched restore resync_payload doc_ok dev_apply stamp v_empty d_empty ch_empty).
  Notation apply_effs := (@apply_effs V Ch Req D dev_apply d_empty).
  Notation K_reach := (P2_Order.K_reach candidate candidate_rb rollback_of overlay commit_merge payload record_applied touched restore
                                        resync_payload doc_ok dev_apply stamp v_empty d_empty ch_empty).
  Notation T_reach := (T_inv_reach candidate candidate_rb rollback_of overlay commit_merge payload record_applied touched restore
                                   resync_payload doc_ok dev_apply stamp v_empty d_empty ch_empty).
  Notation C_reach := (C_inv_reach candidate candidate_rb rollback_of overlay commit_merge payload record_applied touched restore
                                   resync_payload doc_ok dev_apply stamp v_empty d_empty ch_empty).
  Notation q_reach := (qreach_reach candidate candidate_rb rollback_of overlay commit_merge payload record_applied touched restore
                                    resync_payload doc_ok dev_apply stamp v_empty d_empty ch_empty).

  (** * The statement *)
  Definition others_none (T : txn) : Prop :=
    t_validate T = None /\ t_commit T = None /\ t_apply T = None /\ t_abort T = None.
  (* INITIALIZED, validation not started *)
  Definition at_init_gate (T : txn) : Prop := t_init T = Some Done /\ others_none T.
  Definition tx_enabled (w : world) (i : N) : Prop := fst (rec_tx w i) <> [].

  Definition wait_a (s : qworld) : Prop :=
    forall i T, txs (qw s) !! i = Some T -> t_init T = Some Doing -> tx_enabled (qw s) i ->
                In (CtlTx i) (queue s) \/ exists P, txs (qw s) !! (i - 1) = Some P /\ at_init_gate P.

  (** * What the INITIALIZING branch of the transaction reconciler depends on *)
  Definition blocks (w : world) (i : N) : bool :=
    match txs w !! (i - 1) with
    | Some P => is_none (t_init P) || bool_decide (t_init P = Some Doing)
    | None => false
    end.
  Definition ready (w : world) (i : N) (T : txn) : bool :=
    match t_props T with
    | None => true
    | Some tg => match all_props w i tg (fun p => negb (is_none (p_init p) || bool_decide (p_init p = Some Doing))) with
                 | Some true => true
                 | _ => false
                 end
    end.

  Lemma early_others_none (w : world) i (T : txn) :
    reach w -> txs w !! i = Some T -> t_init T = None \/ t_init T = Some Doing -> others_none T.
  Proof.
    intros Hr HT Hi. pose proof (K_reach _ Hr) as HK. pose proof (T_reach _ Hr) as HTI.
    pose proof (j_tx _ (P2_Order.k_J _ HK) _ _ HT) as Hwf. unfold tx_wf, wfb, imp, P2Phases.some, P2Phases.is_ph in Hwf.
    assert (Hab : t_abort T = None).
    { destruct (t_abort T) as [ab|] eqn:E; [|reflexivity].
      assert (Hp : past_init T) by (apply (ti_abort _ HTI _ _ HT); rewrite E; eexists; reflexivity).
      destruct Hp as [Hp|Hp]; destruct Hi as [Hi|Hi]; congruence. }
    unfold others_none. rewrite Hab.
    destruct Hi as [Hi|Hi]; rewrite Hi in Hwf;
      destruct (t_validate T) as [[]|], (t_commit T) as [[]|], (t_apply T) as [[]|]; cbn in Hwf; try discriminate; auto.
  Qed.

  Ltac open_tx HT Hi Ho :=
    unfold Proto2.rec_tx; rewrite HT;
    let Hv := fresh "Hv" in let Hc := fresh "Hc" in let Ha := fresh "Ha" in let Hab := fresh "Hab" in
    destruct Ho as (Hv & Hc & Ha & Hab); rewrite Ha, Hab, Hc, Hv, Hi; cbv zeta.

  Lemma app_one_nonnil {A} (l : list A) (x : A) : l ++ [x] <> [].
  Proof. intros H. apply app_eq_nil in H. destruct H as [_ H]. discriminate. Qed.

  (* enabled <-> not blocked by the predecessor and ready *)
  Lemma init_enabled (w : world) i (T : txn) :
    txs w !! i = Some T -> t_init T = Some Doing -> others_none T ->
    (tx_enabled w i <-> blocks w i = false /\ ready w i T = true).
  Proof.
    intros HT Hi Ho. unfold tx_enabled, blocks, ready. open_tx HT Hi Ho.
    destruct (match txs w !! (i - 1) with Some P => _ | None => false end) eqn:Eb.
    - cbn. split; [intros H; destruct (H eq_refl)|intros [H _]; discriminate].
    - destruct (t_props T) as [tg|] eqn:Ep.
      + destruct (all_props w i tg _) as [[|]|]; cbn; split; try (intros H; destruct (H eq_refl)); try (intros [_ H]; discriminate);
          intros _; try (split; reflexivity); discriminate.
      + split; [intros _; split; reflexivity|intros _].
        destruct (t_details T) as [chs|ri].
        * cbn [fst]. apply app_one_nonnil.
        * destruct (txs w !! ri) as [R|]; [destruct (t_details R)|]; cbn [fst]; unfold fail_init; try apply app_one_nonnil; discriminate.
  Qed.

  (* an enabled INITIALIZING transaction writes its own record *)
  Lemma init_enabled_writes (w : world) i (T : txn) :
    txs w !! i = Some T -> t_init T = Some Doing -> others_none T -> tx_enabled w i ->
    exists T', In (EPutTx i T') (fst (rec_tx w i)).
  Proof.
    intros HT Hi Ho. unfold tx_enabled. open_tx HT Hi Ho.
    destruct (match txs w !! (i - 1) with Some P => _ | None => false end); [intros H; destruct (H eq_refl)|].
    destruct (t_props T) as [tg|].
    - destruct (all_props w i tg _) as [[|]|]; cbn; intros H; try destruct (H eq_refl). eexists. left. reflexivity.
    - intros _. destruct (t_details T) as [chs|ri].
      + cbn [fst]. eexists. apply in_or_app. right. left. reflexivity.
      + destruct (txs w !! ri) as [R|]; [destruct (t_details R)|]; cbn [fst]; unfold fail_init;
          eexists; try (apply in_or_app; right); left; reflexivity.
  Qed.

  (* what a not yet initialised / INITIALIZING transaction writes to its record, and what it returns *)
  Lemma init_writes (w : world) j (P : txn) j' (P' : txn) :
    txs w !! j = Some P -> t_init P = None \/ t_init P = Some Doing -> others_none P ->
    In (EPutTx j' P') (fst (rec_tx w j)) ->
    t_init P' = Some Doing \/ (t_init P' = Some Failed /\ snd (rec_tx w j) = RRequeueTx (j + 1)) \/ at_init_gate P'.
  Proof.
    intros HP Hi Ho. destruct Hi as [Hi|Hi].
    - open_tx HP Hi Ho. cbn. intros [[= <- <-]|[]]. left. reflexivity.
    - pose proof Ho as Ho'. open_tx HP Hi Ho.
      destruct (match txs w !! (j - 1) with Some P0 => _ | None => false end); [cbn; intros []|].
      destruct (t_props P) as [tg|] eqn:Ep.
      + destruct (all_props w j tg _) as [[|]|]; cbn; [|intros []|intros []]. intros [[= <- <-]|[]].
        right. right. split; [reflexivity|]. exact Ho'.
      + assert (Hcp : forall l (e : eff), In (EPutTx j' P') (create_props w j l ++ [e]) -> e = EPutTx j' P').
        { intros l e Hin. apply in_app_or in Hin. destruct Hin as [Hin|[<-|[]]]; [|reflexivity].
          unfold create_props in Hin. apply in_flat_map in Hin. destruct Hin as (x & _ & Hx).
          destruct (props w !! (x.1, j)); [destruct Hx|destruct Hx as [Hx|[]]; discriminate]. }
        destruct (t_details P) as [chs|ri].
        * cbn [fst]. intros Hin. apply Hcp in Hin. injection Hin as <- <-. left. exact Hi.
        * destruct (txs w !! ri) as [R|]; [destruct (t_details R)|]; cbn [fst snd]; unfold fail_init.
          -- intros Hin. apply Hcp in Hin. injection Hin as <- <-. left. exact Hi.
          -- intros [[= <- <-]|[]]. right. left. split; reflexivity.
          -- intros [[= <- <-]|[]]. right. left. split; reflexivity.
  Qed.

  (* an INITIALIZED transaction that has not started validating: passing the gate returns Requeue{index+1} *)
  Lemma gate_requeues (w : world) j (P : txn) :
    txs w !! j = Some P -> at_init_gate P -> fst (rec_tx w j) = [] \/ snd (rec_tx w j) = RRequeueTx (j + 1).
  Proof.
    intros HP [Hi Ho]. open_tx HP Hi Ho. unfold gate.
    destruct (all_props w j _ _); [|left; reflexivity].
    destruct (blocked_by_prev w j _ 1); [left; reflexivity|right; reflexivity].
  Qed.

  (** * Frames: what a list of effects leaves alone *)
  Lemma txs_fold (es : list eff) : forall (w : world) j (T' : txn),
    txs (fold_left apply_eff es w) !! j = Some T' -> txs w !! j = Some T' \/ In (EPutTx j T') es.
  Proof.
    induction es as [|e r IH]; intros w j T' H; [left; exact H|]. cbn [fold_left] in H.
    destruct (IH _ _ _ H) as [H1|H1]; [|right; right; exact H1].
    rewrite txs_apply_eff in H1. destruct e; try (left; exact H1).
    destruct (decide (i = j)) as [->|Hne].
    - rewrite lookup_insert in H1. injection H1 as ->. right. left. reflexivity.
    - rewrite lookup_insert_ne in H1 by exact Hne. left. exact H1.
  Qed.

  Definition touches_prop (k : N * N) (e : eff) : bool :=
    match e with
    | EPutProp k' _ | ECreateProp k' _ => (fst k' =? fst k) && (snd k' =? snd k)
    | _ => false
    end.

  Lemma props_fold_same (es : list eff) k : forall (w : world),
    forallb (fun e => negb (touches_prop k e)) es = true -> props (fold_left apply_eff es w) !! k = props w !! k.
  Proof.
    induction es as [|e r IH]; intros w H; [reflexivity|]. cbn in H. apply andb_prop in H. destruct H as [He Hr].
    cbn [fold_left]. rewrite (IH _ Hr). rewrite props_apply_eff.
    assert (Hk : forall k', (fst k' =? fst k) && (snd k' =? snd k) = false -> k' <> k).
    { intros k' Hf ->. rewrite !N.eqb_refl in Hf. discriminate. }
    destruct e; try reflexivity; cbn in He; apply negb_true_iff in He; apply Hk in He.
    - destruct (props w !! k0); [reflexivity|]. rewrite lookup_insert_ne by exact He. reflexivity.
    - rewrite lookup_insert_ne by exact He. reflexivity.
  Qed.

  Lemma all_props_ext (w w' : world) i tg f :
    (forall t, props w' !! (t, i) = props w !! (t, i)) -> all_props w' i tg f = all_props w i tg f.
  Proof. intros H. unfold all_props. induction tg as [|t tg IH]; cbn; [reflexivity|]. rewrite IH, H. reflexivity. Qed.

  Lemma ready_ext (w w' : world) i T :
    (forall t, props w' !! (t, i) = props w !! (t, i)) -> ready w' i T = ready w i T.
  Proof. intros H. unfold ready. destruct (t_props T); [|reflexivity]. rewrite (all_props_ext _ _ _ _ _ H). reflexivity. Qed.

  (** * Who writes a transaction record / creates a proposal *)
  Lemma puttx_writer (o : oracle) (w : world) c j T' :
    reach w -> In (EPutTx j T') (fst (reconcile o w c)) -> c = CtlTx j.
  Proof.
    intros Hr. destruct c as [i|kk|t0|t0|c0]; cbn [Proto2.reconcile]; intros H.
    - destruct (rec_tx_puttx candidate candidate_rb rollback_of overlay commit_merge payload record_applied touched restore
                  resync_payload doc_ok dev_apply stamp v_empty d_empty ch_empty w i j T' Hr H) as [-> _]. reflexivity.
    - eapply rec_prop_no_puttx in H. destruct H.
    - apply rec_cfg_kinds in H. destruct H.
    - apply rec_master_only_putcfg in H. destruct H.
    - apply rec_conn_only_rel in H. destruct H.
  Qed.

  (** * The queue after a delivery *)
  Lemma remove_nth_keeps {A} (l : list A) : forall n c x, nth_error l n = Some c -> In x l -> x <> c -> In x (remove_nth n l).
  Proof.
    induction l as [|a l IH]; intros n c x Hn Hin Hne; [destruct Hin|].
    destruct n as [|n]; cbn in *.
    - injection Hn as ->. destruct Hin as [->|Hin]; [destruct (Hne eq_refl)|exact Hin].
    - destruct Hin as [->|Hin]; [left; reflexivity|right; eapply IH; eassumption].
  Qed.

  Lemma ctrl_tx_dec (c : ctrl) (i : N) : {c = CtlTx i} + {c <> CtlTx i}.
  Proof.
    destruct c as [j|k|t|t|cc]; try (right; discriminate).
    destruct (N.eq_dec j i) as [->|Hne]; [left; reflexivity|right; intros [= H]; exact (Hne H)].
  Qed.

  Lemma forallb_false_ex {A} (f : A -> bool) (l : list A) : forallb f l = false -> exists x, In x l /\ f x = false.
  Proof.
    induction l as [|a l IH]; cbn; [discriminate|]. destruct (f a) eqn:E; cbn.
    - intros H. destruct (IH H) as (x & Hx & Hf). exists x. split; [right; exact Hx|exact Hf].
    - intros _. exists a. split; [left; reflexivity|exact E].
  Qed.

  Lemma txs_fold_keep (es : list eff) : forall (w : world) j, is_Some (txs w !! j) -> is_Some (txs (fold_left apply_eff es w) !! j).
  Proof.
    induction es as [|e r IH]; intros w j H; [exact H|]. cbn [fold_left]. apply IH. rewrite txs_apply_eff.
    destruct e; try exact H. destruct (decide (i = j)) as [->|Hne]; [rewrite lookup_insert; eexists; reflexivity|].
    rewrite lookup_insert_ne by exact Hne. exact H.
  Qed.

  Lemma qreach_step (s : qworld) l : qreach s -> qreach (qstep s l).
  Proof. intros [ls ->]. exists (ls ++ [l]). unfold Proto2Queue.qrun. rewrite fold_left_app. reflexivity. Qed.

  (* the shape of the queued world after the delivery of the n-th pending id *)
  Lemma deliver_shape (s : qworld) n o c :
    nth_error (queue s) n = Some c ->
    qw (qstep s (QDeliver n o)) = fold_left apply_eff (fst (reconcile o (qw s) c)) (qw s) /\
    (forall x, In x (queue s) -> x <> c -> In x (queue (qstep s (QDeliver n o)))) /\
    (forall x, In x (requeue c (snd (reconcile o (qw s) c))) -> In x (queue (qstep s (QDeliver n o)))).
  Proof.
    intros Hn. cbn [Proto2Queue.qstep]. rewrite Hn.
    destruct (reconcile o (qw s) c) as [es r] eqn:Er.
    pose proof (apply_effs_world dev_apply d_empty es (qw s)) as Hw.
    destruct (Proto2Queue.apply_effs dev_apply d_empty (qw s) es) as [w' q]. cbn in *.
    split; [exact Hw|]. split.
    - intros x Hx Hne. apply in_or_app. left. eapply remove_nth_keeps; eassumption.
    - intros x Hx. apply in_or_app. right. apply in_or_app. right. exact Hx.
  Qed.

  (* the effects that touch a proposal of transaction i *)
  Definition touches_tx (i : N) (e : eff) : bool :=
    match e with EPutProp k _ | ECreateProp k _ => snd k =? i | _ => false end.

  Lemma touches_weaker (i t : N) (es : list eff) :
    forallb (fun e => negb (touches_tx i e)) es = true -> forallb (fun e => negb (touches_prop (t, i) e)) es = true.
  Proof.
    intros H. rewrite forallb_forall in *. intros e He. specialize (H e He).
    destruct e; cbn in *; try reflexivity; destruct (snd k =? i); try discriminate; rewrite andb_false_r; reflexivity.
  Qed.

  (** * The invariant is preserved by every delivery *)
  Lemma wait_a_deliver (s : qworld) n o c :
    qreach s -> wait_a s -> nth_error (queue s) n = Some c -> wait_a (qstep s (QDeliver n o)).
  Proof.
    intros Hq IH Hn. pose proof (q_reach _ Hq) as Hr.
    destruct (deliver_shape s n o c Hn) as (Hw & Hkeep & Hrq).
    pose proof (delivery_wakes_owners candidate candidate_rb rollback_of overlay commit_merge payload record_applied touched restore
                  resync_payload doc_ok dev_apply stamp v_empty d_empty ch_empty s n o c) as Hown.
    assert (Hr' : reach (qw (qstep s (QDeliver n o)))) by (apply q_reach; apply qreach_step; exact Hq).
    pose proof (T_reach _ Hr) as HTI.
    intros i T' HT' Hi Hen.
    assert (HT'' := HT'). rewrite Hw in HT''. apply txs_fold in HT''. destruct HT'' as [HT|Hin].
    2:{ left. eapply Hown; [exact Hn|exact Hin|exact I|left; reflexivity]. }
    pose proof (early_others_none _ _ _ Hr HT (or_intror Hi)) as Ho.
    destruct (ctrl_tx_dec c i) as [->|Hc].
    { (* the transaction itself was delivered *)
      cbn [Proto2.reconcile] in Hw, Hown.
      assert (Hen0 : tx_enabled (qw s) i).
      { intros Hnil. apply Hen. rewrite Hw, Hnil. cbn. exact Hnil. }
      destruct (init_enabled_writes _ _ _ HT Hi Ho Hen0) as (T'' & Hin).
      left. eapply Hown; [exact Hn|exact Hin|exact I|left; reflexivity]. }
    destruct (forallb (fun e => negb (touches_tx i e)) (fst (reconcile o (qw s) c))) eqn:Etouch.
    2:{ (* a proposal of transaction i was written: the transaction is woken *)
      apply forallb_false_ex in Etouch. destruct Etouch as (e & He & Hf). apply negb_false_iff in Hf.
      destruct e as [| k P'| k P'| | | | | | |]; cbn in Hf; try discriminate; apply N.eqb_eq in Hf.
      - exfalso. apply reconcile_createprop in He. destruct He as (T0 & -> & _). apply Hc. rewrite Hf. reflexivity.
      - left. eapply Hown; [exact Hn|exact He|exact I|]. left. rewrite Hf. reflexivity. }
    assert (Hprops : forall t, props (qw (qstep s (QDeliver n o))) !! (t, i) = props (qw s) !! (t, i)).
    { intros t. rewrite Hw. apply props_fold_same. apply touches_weaker. exact Etouch. }
    destruct (proj1 (init_enabled _ _ _ HT' Hi Ho) Hen) as [Hb' Hrd'].
    rewrite (ready_ext _ _ _ _ Hprops) in Hrd'.
    assert (Hi1 : is_Some (txs (qw s) !! (i - 1)) -> i - 1 + 1 = i).
    { intros Hs. destruct (N.eq_dec i 0) as [->|]; [|lia]. cbn in Hs. rewrite (ti_zero _ HTI) in Hs. destruct Hs; discriminate. }
    destruct (blocks (qw s) i) eqn:Eb.
    - (* the predecessor was still initialising: it has just left that state *)
      unfold blocks in Eb, Hb'. destruct (txs (qw s) !! (i - 1)) as [P|] eqn:HP; [|discriminate].
      destruct (txs_fold_keep (fst (reconcile o (qw s) c)) (qw s) (i - 1)) as [P' HP']; [rewrite HP; eexists; reflexivity|].
      rewrite <- Hw in HP'. rewrite HP' in Hb'.
      assert (HP'' := HP'). rewrite Hw in HP''. apply txs_fold in HP''. destruct HP'' as [HPs|Hin].
      { rewrite HP in HPs. injection HPs as <-. rewrite Eb in Hb'. discriminate. }
      pose proof (puttx_writer _ _ _ _ _ Hr Hin) as ->. cbn [Proto2.reconcile] in Hin, Hrq.
      assert (HiP : t_init P = None \/ t_init P = Some Doing).
      { destruct (t_init P) as [[]|]; cbn in Eb; try discriminate; auto. }
      destruct (init_writes _ _ _ _ _ HP HiP (early_others_none _ _ _ Hr HP HiP) Hin) as [Hd|[[_ Hrr]|Hg]].
      + rewrite Hd in Hb'. cbn in Hb'. discriminate.
      + left. apply Hrq. rewrite Hrr. cbn. left. rewrite Hi1 by (try rewrite HP; eexists; reflexivity). reflexivity.
      + right. exists P'. split; [exact HP'|exact Hg].
    - (* the transaction was enabled before *)
      assert (Hen0 : tx_enabled (qw s) i) by (apply (init_enabled _ _ _ HT Hi Ho); split; assumption).
      destruct (IH i T' HT Hi Hen0) as [Hpend|(P & HP & Hg)].
      + left. apply Hkeep; [exact Hpend|]. intros E. apply Hc. symmetry. exact E.
      + destruct (txs_fold_keep (fst (reconcile o (qw s) c)) (qw s) (i - 1)) as [P' HP']; [rewrite HP; eexists; reflexivity|].
        assert (HP'' := HP'). apply txs_fold in HP''. destruct HP'' as [HPs|Hin].
        * rewrite HP in HPs. injection HPs as <-. right. exists P. split; [rewrite Hw; exact HP'|exact Hg].
        * pose proof (puttx_writer _ _ _ _ _ Hr Hin) as ->. cbn [Proto2.reconcile] in Hin, Hrq.
          destruct (gate_requeues _ _ _ HP Hg) as [Hnil|Hrr]; [rewrite Hnil in Hin; destruct Hin|].
          left. apply Hrq. rewrite Hrr. cbn. left. rewrite Hi1 by (try rewrite HP; eexists; reflexivity). reflexivity.
  Qed.

  (** * ... and by every environment step *)
  Lemma env_frame (w : world) (l : @label Ch) :
    (match l with LRec _ _ _ => False | _ => True end) ->
    props (step w l) = props w /\
    (forall j, j <> next_index w -> txs (step w l) !! j = txs w !! j) /\
    (forall T', txs (step w l) !! (next_index w) = Some T' -> t_init T' = None \/ txs w !! (next_index w) = Some T').
  Proof.
    destruct l as [chs sy se|ri|c n o|c t0|c|c t0|t0 p|t0|t0]; cbn [Proto2.step]; intros Hl; try destruct Hl.
    - cbn. split; [reflexivity|]. split; [intros j Hj; rewrite lookup_insert_ne by (intros E; apply Hj; symmetry; exact E); reflexivity|].
      intros T'. rewrite lookup_insert. intros [= <-]. left. reflexivity.
    - cbn. split; [reflexivity|]. split; [intros j Hj; rewrite lookup_insert_ne by (intros E; apply Hj; symmetry; exact E); reflexivity|].
      intros T'. rewrite lookup_insert. intros [= <-]. left. reflexivity.
    - destruct (conns w !! c); cbn; split; try reflexivity; split; try reflexivity; intros T' H; right; exact H.
    - cbn. split; [reflexivity|]. split; [reflexivity|]. intros T' H. right. exact H.
    - destruct (rels w !! c); cbn; split; try reflexivity; split; try reflexivity; intros T' H; right; exact H.
    - cbn. split; [reflexivity|]. split; [reflexivity|]. intros T' H. right. exact H.
    - cbn. split; [reflexivity|]. split; [reflexivity|]. intros T' H. right. exact H.
    - cbn. split; [reflexivity|]. split; [reflexivity|]. intros T' H. right. exact H.
  Qed.

  Lemma wait_a_env (s : qworld) (l : @label Ch) : qreach s -> wait_a s -> wait_a (qstep s (QEnv l)).
  Proof.
    intros Hq IH. pose proof (q_reach _ Hq) as Hr. pose proof (K_reach _ Hr) as HK.
    pose proof (j_fresh _ (P2_Order.k_J _ HK)) as Hfresh.
    assert (Hl : (match l with LRec _ _ _ => False | _ => True end) \/ exists c n o, l = LRec c n o).
    { destruct l; try (left; exact I). right. eauto. }
    destruct Hl as [Hl|(c & n & o & ->)]; [|exact IH].
    assert (Hs : qstep s (QEnv l) = mkQW (step (qw s) l) (queue s ++ env_wakes (qw s) l)) by (destruct l; try reflexivity; destruct Hl).
    rewrite Hs. clear Hs. destruct (env_frame (qw s) l Hl) as (Hp & Htx & Hnew). unfold wait_a. cbn [qw queue].
    intros i T' HT' Hi Hen.
    assert (Hne : i <> next_index (qw s)).
    { intros ->. destruct (Hnew _ HT') as [Hn|Hold]; [congruence|]. rewrite Hfresh in Hold by lia. discriminate. }
    assert (HT : txs (qw s) !! i = Some T') by (rewrite <- Htx by exact Hne; exact HT').
    assert (Hprev : txs (step (qw s) l) !! (i - 1) = txs (qw s) !! (i - 1)).
    { apply Htx. intros E. rewrite Hfresh in HT by lia. discriminate. }
    pose proof (early_others_none _ _ _ Hr HT (or_intror Hi)) as Ho.
    destruct (proj1 (init_enabled (step (qw s) l) i T' HT' Hi Ho) Hen) as [Hb Hrd].
    assert (Hbeq : blocks (step (qw s) l) i = blocks (qw s) i) by (unfold blocks; rewrite Hprev; reflexivity).
    rewrite Hbeq in Hb.
    rewrite (ready_ext (qw s) (step (qw s) l) i T') in Hrd by (intros t; rewrite Hp; reflexivity).
    assert (Hen0 : tx_enabled (qw s) i) by (apply (init_enabled _ _ _ HT Hi Ho); split; assumption).
    destruct (IH i T' HT Hi Hen0) as [Hpend|(P & HP & Hg)].
    - left. apply in_or_app. left. exact Hpend.
    - right. exists P. split; [rewrite Hprev; exact HP|exact Hg].
  Qed.

  (** * Wait (a) has a token in every reachable queued world *)
  Theorem wait_a_reach (s : qworld) : qreach s -> wait_a s.
  Proof.
    intros [ls ->]. induction ls as [|l ls IH] using rev_ind.
    - intros i T H. cbn in H. rewrite lookup_empty in H. discriminate.
    - unfold Proto2Queue.qrun in *. rewrite fold_left_app. cbn [fold_left].
      assert (Hq : qreach (fold_left qstep ls qinit)) by (exists ls; reflexivity).
      destruct l as [n o|l].
      + destruct (nth_error (queue (fold_left qstep ls qinit)) n) as [c|] eqn:Hn.
        * apply wait_a_deliver with (c := c); assumption.
        * cbn [Proto2Queue.qstep]. rewrite Hn. exact IH.
      + apply wait_a_env; assumption.
  Qed.

  (** * Wait (b): a transaction at a gate *)
  (* INITIALIZED / VALIDATED / COMMITTED with the next phase not started: the three gates of the transaction reconciler *)
  Definition gate_state (T : txn) : Prop :=
    t_apply T = None /\ t_abort T = None /\
    ((exists c, t_commit T = Some c /\ c = Done) \/
     (t_commit T = None /\ t_validate T = Some Done) \/
     (t_commit T = None /\ t_validate T = None /\ t_init T = Some Done)).
  Definition gate_need (T : txn) : N :=
    match t_commit T, t_validate T with Some _, _ => 3 | None, Some _ => 2 | None, None => 1 end.
  Definition gate_open (w : world) (j : N) (T : txn) : Prop :=
    all_props w j (default [] (t_props T)) (fun _ => true) <> None /\
    blocked_by_prev w j (default [] (t_props T)) (gate_need T) = false.

  Definition wait_b (s : qworld) : Prop :=
    forall j T, txs (qw s) !! j = Some T -> gate_state T -> tx_enabled (qw s) j -> In (CtlTx j) (queue s).

  Lemma gate_enabled (w : world) j (T : txn) :
    txs w !! j = Some T -> gate_state T ->
    (tx_enabled w j <-> gate_open w j T) /\ (tx_enabled w j -> exists T', In (EPutTx j T') (fst (rec_tx w j))).
  Proof.
    intros HT (Ha & Hab & Hg). unfold tx_enabled, gate_open, gate_need. unfold Proto2.rec_tx. rewrite HT, Ha, Hab.
    destruct Hg as [(c & Hc & ->)|[(Hc & Hv)|(Hc & Hv & Hi)]]; rewrite Hc; try rewrite Hv; try rewrite Hi; unfold gate;
      (destruct (all_props w j _ _) as [b|]; [|split; [split; [intros H; destruct (H eq_refl)|intros [H _]; destruct (H eq_refl)]|intros H; destruct (H eq_refl)]]);
      (destruct (blocked_by_prev w j _ _); cbn;
       [split; [split; [intros H; destruct (H eq_refl)|intros [_ H]; discriminate]|intros H; destruct (H eq_refl)]
       |split; [split; [intros _; split; [discriminate|reflexivity]|intros _; discriminate]|intros _; eexists; left; reflexivity]]).
  Qed.

  Lemma blocked_ext (w w' : world) j tg need :
    (forall t, props w' !! (t, j) = props w !! (t, j)) ->
    (forall t p, props w !! (t, j) = Some p -> txs w' !! (p_prev p) = txs w !! (p_prev p)) ->
    blocked_by_prev w' j tg need = blocked_by_prev w j tg need.
  Proof.
    intros Hp Ht. unfold blocked_by_prev. induction tg as [|t tg IH]; [reflexivity|]. cbn. rewrite IH, Hp.
    destruct (props w !! (t, j)) as [p|] eqn:E; [|reflexivity]. rewrite (Ht _ _ E). reflexivity.
  Qed.

  (** ** What a write of the transaction reconciler to its record keeps *)
  Definition is_putprop (e : eff) : bool := match e with EPutProp _ _ => true | _ => false end.
  Definition keeps (T T' : txn) : Prop :=
    t_serializable T' = t_serializable T /\ (t_props T = None \/ t_props T' = t_props T) /\
    (t_state T' = t_state T \/ is_Some (t_validate T) \/ t_init T' = Some Failed).
  Definition wr_ok (T : txn) (es : list eff) : Prop :=
    forall m' T', In (EPutTx m' T') es -> forallb (fun e => negb (is_putprop e)) es = true /\ keeps T T'.

  Lemma wr_nil T : wr_ok T []. Proof. intros m' T' []. Qed.
  Lemma wr_one T i T' : keeps T T' -> wr_ok T [EPutTx i T'].
  Proof. intros Hk m' T0 [[= <- <-]|[]]. split; [reflexivity|exact Hk]. Qed.
  Lemma wr_putprop T k P : wr_ok T [EPutProp k P].
  Proof. intros m' T0 [H|[]]. discriminate. Qed.

  Lemma phase_scan_wr (w : world) i (T : txn) tg get start stop on_failed on_all_done :
    (forall p, keeps T (on_failed p)) -> keeps T on_all_done ->
    wr_ok T (fst (phase_scan w i T tg get start stop on_failed on_all_done)).
  Proof.
    intros Hf Hd. unfold phase_scan. destruct (scan_props w i tg _) as [[u|[t p]]|].
    - apply wr_nil.
    - destruct (is_none (get p)); [apply wr_putprop|apply wr_one; apply Hf].
    - destruct (default false _); [apply wr_one; exact Hd|apply wr_nil].
  Qed.

  Lemma gate_wr (w : world) i (T : txn) tg need next r : keeps T next -> wr_ok T (fst (gate w i T tg need next r)).
  Proof.
    intros Hk. unfold gate. destruct (all_props w i tg _); [|apply wr_nil].
    destruct (blocked_by_prev w i tg need); [apply wr_nil|apply wr_one; exact Hk].
  Qed.

  Lemma create_wr (w0 : world) i l (T T' : txn) : keeps T T' -> wr_ok T (create_props w0 i l ++ [EPutTx i T']).
  Proof.
    intros Hk m' T0 Hin. split.
    - rewrite forallb_app. apply andb_true_intro. split; [|reflexivity].
      rewrite forallb_forall. intros e He. unfold create_props in He. apply in_flat_map in He. destruct He as (x & _ & Hx).
      destruct (props w0 !! (x.1, i)); [destruct Hx|destruct Hx as [<-|[]]; reflexivity].
    - apply in_app_or in Hin. destruct Hin as [Hin|[[= <- <-]|[]]]; [|exact Hk].
      unfold create_props in Hin. apply in_flat_map in Hin. destruct Hin as (x & _ & Hx).
      destruct (props w0 !! (x.1, i)); [destruct Hx|destruct Hx as [Hx|[]]; discriminate].
  Qed.

  Ltac keeps_tac :=
    unfold keeps; cbn [t_serializable t_props t_state t_init t_validate t_commit t_apply t_abort t_details t_failure set];
    repeat split; auto.

  Lemma rec_tx_wr (w : world) i (T : txn) :
    txs w !! i = Some T -> tx_wf T -> wr_ok T (fst (rec_tx w i)).
  Proof.
    intros HT Hwf. unfold Proto2.rec_tx. rewrite HT.
    assert (Hval : is_Some (t_apply T) \/ is_Some (t_commit T) \/ is_Some (t_validate T) -> is_Some (t_validate T)).
    { unfold tx_wf, wfb, imp, P2Phases.some, P2Phases.is_ph in Hwf.
      destruct (t_validate T) as [v|]; [intros _; eexists; reflexivity|].
      destruct (t_commit T) as [[]|], (t_apply T) as [[]|]; cbn in Hwf; rewrite ?andb_false_r in Hwf; try discriminate;
        intros [[? H]|[[? H]|[? H]]]; discriminate. }
    destruct (t_apply T) as [a|] eqn:Ea.
    { destruct a; try apply wr_nil.
      destruct (scan_props w i _ (fun p => is_none (p_apply p))) as [[u|[t p]]|]; [apply wr_nil|apply wr_putprop|].
      apply phase_scan_wr; [intros p|]; keeps_tac; right; left; apply Hval; left; eexists; reflexivity. }
    destruct (t_abort T) as [ab|] eqn:Eb.
    { destruct ab; try apply wr_nil. apply phase_scan_wr; [intros p|]; keeps_tac. }
    destruct (t_commit T) as [c|] eqn:Ec.
    { destruct c; try apply wr_nil.
      - apply phase_scan_wr; [intros p|]; keeps_tac. right. left. apply Hval. right. left. eexists; reflexivity.
      - apply gate_wr. keeps_tac. }
    destruct (t_validate T) as [v|] eqn:Ev.
    { destruct v; try apply wr_nil.
      - apply phase_scan_wr; [intros p|]; keeps_tac; right; left; eexists; reflexivity.
      - apply gate_wr. keeps_tac. }
    destruct (t_init T) as [ini|] eqn:Ei.
    2:{ apply wr_one. keeps_tac. }
    destruct ini; try apply wr_nil.
    - destruct (match txs w !! (i - 1) with Some P => _ | None => false end); [apply wr_nil|].
      destruct (t_props T) as [tg'|] eqn:Ep.
      + destruct (all_props w i tg' _) as [[|]|]; try apply wr_nil. apply wr_one. keeps_tac.
      + destruct (t_details T) as [chs|ri] eqn:Ed.
        * cbn [fst]. apply create_wr. keeps_tac.
        * destruct (txs w !! ri) as [R|] eqn:HR.
          -- destruct (t_details R) as [chs|rj]; cbn [fst]; [apply create_wr; keeps_tac|].
             unfold fail_init. apply wr_one. keeps_tac.
          -- unfold fail_init. cbn [fst]. apply wr_one. keeps_tac.
    - apply gate_wr. keeps_tac.
  Qed.

  (** ** The transaction event wakes the successors *)
  Lemma apply_effs_tx_succ (es : list eff) : forall (w : world) m (Tm' : txn) t (Q : prop),
    In (EPutTx m Tm') es -> In t (default [] (t_props Tm')) -> props w !! (t, m) = Some Q -> p_next Q <> 0 ->
    forallb (fun e => negb (is_putprop e)) es = true ->
    In (CtlTx (p_next Q)) (snd (apply_effs w es)).
  Proof.
    induction es as [|e0 r IH]; intros w m Tm' t Q Hin Ht HQ Hn Hnp; [destruct Hin|].
    cbn in Hnp. apply andb_prop in Hnp. destruct Hnp as [Hnp0 Hnp].
    cbn. destruct (apply_effs (apply_eff w e0) r) as [w' q] eqn:E. cbn. apply in_or_app.
    destruct Hin as [->|Hin].
    - left. cbn [Proto2Queue.wakes]. unfold tx_wakes. right. apply in_flat_map. exists t. split; [exact Ht|].
      rewrite HQ. destruct (p_next Q =? 0) eqn:Ez; [apply N.eqb_eq in Ez; destruct (Hn Ez)|left; reflexivity].
    - right. assert (HQ' : props (apply_eff w e0) !! (t, m) = Some Q).
      { rewrite props_apply_eff. destruct e0; try exact HQ; try discriminate.
        destruct (props w !! k) eqn:Ek; [exact HQ|].
        rewrite lookup_insert_ne; [exact HQ|]. intros ->. rewrite HQ in Ek. discriminate. }
      specialize (IH (apply_eff w e0) m Tm' t Q Hin Ht HQ' Hn Hnp). rewrite E in IH. exact IH.
  Qed.

  Lemma deliver_wakes (s : qworld) n o c x :
    nth_error (queue s) n = Some c -> In x (snd (apply_effs (qw s) (fst (reconcile o (qw s) c)))) -> In x (queue (qstep s (QDeliver n o))).
  Proof.
    intros Hn. cbn [Proto2Queue.qstep]. rewrite Hn. destruct (reconcile o (qw s) c) as [es r] eqn:Er. cbn [fst].
    destruct (apply_effs (qw s) es) as [w' q]. cbn. intros Hx. apply in_or_app. right. apply in_or_app. left. exact Hx.
  Qed.

  Lemma existsb_false_in {A} (f : A -> bool) l x : existsb f l = false -> In x l -> f x = false.
  Proof. intros H Hin. destruct (f x) eqn:E; [|reflexivity]. rewrite <- H. symmetry. apply existsb_exists. eauto. Qed.

  Lemma props_fold_keep (es : list eff) : forall (w : world) k, is_Some (props w !! k) -> is_Some (props (fold_left apply_eff es w) !! k).
  Proof.
    induction es as [|e r IH]; intros w k H; [exact H|]. cbn [fold_left]. apply IH. rewrite props_apply_eff.
    destruct e; try exact H.
    - destruct (props w !! k0) eqn:E; [exact H|]. destruct (decide (k0 = k)) as [->|Hne]; [rewrite lookup_insert; eexists; reflexivity|].
      rewrite lookup_insert_ne by exact Hne. exact H.
    - destruct (decide (k0 = k)) as [->|Hne]; [rewrite lookup_insert; eexists; reflexivity|]. rewrite lookup_insert_ne by exact Hne. exact H.
  Qed.

  Lemma wf_validate_props (T : txn) : tx_wf T -> is_Some (t_validate T) -> is_Some (t_props T).
  Proof.
    unfold tx_wf, wfb, imp, P2Phases.some, P2Phases.is_ph. intros Hwf [v Hv]. rewrite Hv in Hwf.
    destruct (t_props T); [eexists; reflexivity|]. cbn in Hwf.
    destruct (t_init T) as [[]|]; cbn in Hwf; rewrite ?andb_false_r in Hwf; discriminate.
  Qed.

  Lemma wait_b_deliver (s : qworld) n o c :
    qreach s -> wait_b s -> nth_error (queue s) n = Some c -> wait_b (qstep s (QDeliver n o)).
  Proof.
    intros Hq IH Hn. pose proof (q_reach _ Hq) as Hr.
    destruct (deliver_shape s n o c Hn) as (Hw & Hkeep & Hrq).
    pose proof (delivery_wakes_owners candidate candidate_rb rollback_of overlay commit_merge payload record_applied touched restore
                  resync_payload doc_ok dev_apply stamp v_empty d_empty ch_empty s n o c) as Hown.
    assert (Hr' : reach (qw (qstep s (QDeliver n o)))) by (apply q_reach; apply qreach_step; exact Hq).
    pose proof (K_reach _ Hr) as HK. pose proof (C_reach _ Hr) as HC. pose proof (T_reach _ Hr') as HTI'.
    intros j T' HT' Hg Hen.
    assert (HT'' := HT'). rewrite Hw in HT''. apply txs_fold in HT''. destruct HT'' as [HT|Hin].
    2:{ eapply Hown; [exact Hn|exact Hin|exact I|left; reflexivity]. }
    destruct (ctrl_tx_dec c j) as [->|Hc].
    { cbn [Proto2.reconcile] in Hw, Hown.
      assert (Hen0 : tx_enabled (qw s) j).
      { intros Hnil. apply Hen. rewrite Hw, Hnil. cbn. exact Hnil. }
      destruct (proj2 (gate_enabled _ _ _ HT Hg) Hen0) as (T'' & Hin).
      eapply Hown; [exact Hn|exact Hin|exact I|left; reflexivity]. }
    destruct (forallb (fun e => negb (touches_tx j e)) (fst (reconcile o (qw s) c))) eqn:Etouch.
    2:{ apply forallb_false_ex in Etouch. destruct Etouch as (e & He & Hf). apply negb_false_iff in Hf.
      destruct e as [| k P'| k P'| | | | | | |]; cbn in Hf; try discriminate; apply N.eqb_eq in Hf.
      - exfalso. apply reconcile_createprop in He. destruct He as (T0 & -> & _). apply Hc. rewrite Hf. reflexivity.
      - eapply Hown; [exact Hn|exact He|exact I|]. left. rewrite Hf. reflexivity. }
    assert (Hprops : forall t, props (qw (qstep s (QDeliver n o))) !! (t, j) = props (qw s) !! (t, j)).
    { intros t. rewrite Hw. apply props_fold_same. apply touches_weaker. exact Etouch. }
    destruct (proj1 (proj1 (gate_enabled _ _ _ HT' Hg)) Hen) as [Hall' Hb'].
    rewrite (all_props_ext _ _ _ _ _ Hprops) in Hall'.
    destruct (blocked_by_prev (qw s) j (default [] (t_props T')) (gate_need T')) eqn:Eb.
    2:{ assert (Hen0 : tx_enabled (qw s) j) by (apply (proj1 (gate_enabled _ _ _ HT Hg)); split; assumption).
        apply Hkeep; [exact (IH j T' HT Hg Hen0)|]. intros E. apply Hc. symmetry. exact E. }
    (* the gate has just opened: a SERIALIZABLE predecessor moved on, and its transaction event names this transaction *)
    unfold blocked_by_prev in Eb, Hb'. apply existsb_exists in Eb. destruct Eb as (t & Ht & Hft).
    pose proof (existsb_false_in _ _ _ Hb' Ht) as Hft'. cbn beta in Hft'. rewrite Hprops in Hft'.
    destruct (props (qw s) !! (t, j)) as [p|] eqn:Hp; [|discriminate].
    apply andb_prop in Hft. destruct Hft as [Hpos Hft]. rewrite Hpos in Hft'. cbn [andb] in Hft'.
    destruct (txs (qw s) !! (p_prev p)) as [pt|] eqn:Hpt; [|discriminate].
    destruct (txs_fold_keep (fst (reconcile o (qw s) c)) (qw s) (p_prev p)) as [pt' Hpt']; [rewrite Hpt; eexists; reflexivity|].
    rewrite <- Hw in Hpt'. rewrite Hpt' in Hft'.
    assert (Hpt'' := Hpt'). rewrite Hw in Hpt''. apply txs_fold in Hpt''. destruct Hpt'' as [Hs|Hin].
    { rewrite Hpt in Hs. injection Hs as <-. rewrite Hft in Hft'. discriminate. }
    pose proof (puttx_writer _ _ _ _ _ Hr Hin) as ->. cbn [Proto2.reconcile] in Hin.
    destruct (rec_tx_wr _ _ _ Hpt (j_tx _ (P2_Order.k_J _ HK) _ _ Hpt) _ _ Hin) as (Hnp & Hser & Hpr & Hst).
    apply N.ltb_lt in Hpos.
    destruct (ci_prev _ HC _ _ _ Hp) as (Q & HQ & HnQ); [lia|].
    apply andb_prop in Hft. destruct Hft as [Hs1 Hrk]. rewrite Hser, Hs1 in Hft'. cbn [andb] in Hft'.
    assert (Htin : In t (default [] (t_props pt'))).
    { destruct Hst as [Hst|[Hv|Hfl]].
      - rewrite Hst, Hrk in Hft'. discriminate.
      - destruct (wf_validate_props _ (j_tx _ (P2_Order.k_J _ HK) _ _ Hpt) Hv) as [tg0 Htg0].
        destruct Hpr as [Hpr|Hpr]; [congruence|]. rewrite Hpr, Htg0. cbn.
        eapply (listed _ _ _ _ _ _ HK HQ Hpt Htg0).
      - exfalso. assert (HQ' : is_Some (props (qw (qstep s (QDeliver n o))) !! (t, p_prev p))).
        { rewrite Hw. apply props_fold_keep. rewrite HQ. eexists; reflexivity. }
        destruct HQ' as [Q' HQ'']. destruct (ti_created _ HTI' _ _ _ HQ'') as (T0 & HT0 & _ & Hnf & _).
        rewrite Hpt' in HT0. injection HT0 as <-. exact (Hnf Hfl). }
    apply (deliver_wakes s n o (CtlTx (p_prev p)) (CtlTx j) Hn). cbn [Proto2.reconcile]. rewrite <- HnQ.
    eapply apply_effs_tx_succ; [exact Hin|exact Htin|exact HQ| |exact Hnp].
    rewrite HnQ. intros ->. rewrite (ti_zero _ (T_reach _ Hr)) in HT. discriminate.
  Qed.

  Lemma wait_b_env (s : qworld) (l : @label Ch) : qreach s -> wait_b s -> wait_b (qstep s (QEnv l)).
  Proof.
    intros Hq IH. pose proof (q_reach _ Hq) as Hr. pose proof (K_reach _ Hr) as HK. pose proof (C_reach _ Hr) as HC.
    pose proof (T_reach _ Hr) as HTI. pose proof (j_fresh _ (P2_Order.k_J _ HK)) as Hfresh.
    assert (Hl : (match l with LRec _ _ _ => False | _ => True end) \/ exists c n o, l = LRec c n o).
    { destruct l; try (left; exact I). right. eauto. }
    destruct Hl as [Hl|(c & n & o & ->)]; [|exact IH].
    assert (Hs : qstep s (QEnv l) = mkQW (step (qw s) l) (queue s ++ env_wakes (qw s) l)) by (destruct l; try reflexivity; destruct Hl).
    rewrite Hs. clear Hs. destruct (env_frame (qw s) l Hl) as (Hp & Htx & Hnew). unfold wait_b. cbn [qw queue].
    intros j T' HT' Hg Hen.
    assert (Hne : j <> next_index (qw s)).
    { intros ->. destruct (Hnew _ HT') as [Hn|Hold]; [|rewrite Hfresh in Hold by lia; discriminate].
      destruct Hg as (_ & _ & [(c & Hc & _)|[(_ & Hv)|(_ & _ & Hi)]]).
      - pose proof (early_others_none _ _ _ (reach_step candidate candidate_rb rollback_of overlay commit_merge payload record_applied touched
                      restore resync_payload doc_ok dev_apply stamp v_empty d_empty ch_empty (qw s) l Hr) HT' (or_introl Hn)) as (_ & Hc0 & _).
        congruence.
      - pose proof (early_others_none _ _ _ (reach_step candidate candidate_rb rollback_of overlay commit_merge payload record_applied touched
                      restore resync_payload doc_ok dev_apply stamp v_empty d_empty ch_empty (qw s) l Hr) HT' (or_introl Hn)) as (Hv0 & _).
        congruence.
      - congruence. }
    assert (HT : txs (qw s) !! j = Some T') by (rewrite <- Htx by exact Hne; exact HT').
    apply in_or_app. left. apply (IH j T' HT Hg).
    apply (proj1 (gate_enabled _ _ _ HT Hg)).
    destruct (proj1 (proj1 (gate_enabled (step (qw s) l) j T' HT' Hg)) Hen) as [Hall Hb]. split.
    - rewrite <- (all_props_ext (qw s) (step (qw s) l)); [exact Hall|]. intros t. rewrite Hp. reflexivity.
    - rewrite <- Hb. symmetry. apply blocked_ext; [intros t; rewrite Hp; reflexivity|].
      intros t p Hpp. apply Htx. intros E.
      destruct (N.eq_dec (p_prev p) 0) as [Hz|Hnz].
      + pose proof (ti_next _ HTI). lia.
      + destruct (ci_prev _ HC _ _ _ Hpp Hnz) as (Q & HQ & _).
        destruct (k_exist _ HK _ _ _ HQ) as (T0 & HT0 & _). rewrite Hfresh in HT0 by lia. discriminate.
  Qed.

  (** * Wait (b) has a token in every reachable queued world: an enabled transaction at a gate is pending *)
  Theorem wait_b_reach (s : qworld) : qreach s -> wait_b s.
  Proof.
    intros [ls ->]. induction ls as [|l ls IH] using rev_ind.
    - intros i T H. cbn in H. rewrite lookup_empty in H. discriminate.
    - unfold Proto2Queue.qrun in *. rewrite fold_left_app. cbn [fold_left].
      assert (Hq : qreach (fold_left qstep ls qinit)) by (exists ls; reflexivity).
      destruct l as [n o|l].
      + destruct (nth_error (queue (fold_left qstep ls qinit)) n) as [c|] eqn:Hn.
        * apply wait_b_deliver with (c := c); assumption.
        * cbn [Proto2Queue.qstep]. rewrite Hn. exact IH.
      + apply wait_b_env; assumption.
  Qed.

  (** * The fixed-point theorem with the token hypothesis only for the remaining cases *)
  Notation tokens_covered := (@covered V Ch Req D candidate candidate_rb rollback_of overlay commit_merge payload record_applied
                                       touched restore resync_payload doc_ok stamp v_empty d_empty ch_empty).
  (* the token invariant is assumed for every enabled id EXCEPT the transactions that are INITIALIZING or at a gate
     (waits (a) and (b), proved above) *)
  Definition tokens_rest (s : qworld) : Prop :=
    forall c o, fst (reconcile o (qw s) c) <> [] ->
      tokens_covered s c \/ exists i T, c = CtlTx i /\ txs (qw s) !! i = Some T /\ (t_init T = Some Doing \/ gate_state T).
  (* what is left of wait (a) at an idle world: an INITIALIZING transaction whose predecessor is INITIALIZED and parked at
     the validate gate, closed (behind a SERIALIZABLE transaction that is not VALIDATED yet) *)
  Definition parked_behind_gate (w : world) (c : ctrl) : Prop :=
    exists i T P, c = CtlTx i /\ txs w !! i = Some T /\ t_init T = Some Doing /\
                  txs w !! (i - 1) = Some P /\ at_init_gate P /\ ~ tx_enabled w (i - 1).

  Theorem fixpoint_of_tokens_rest (s : qworld) :
    qreach s -> tokens_rest s -> idle s = true ->
    forall c o, fst (reconcile o (qw s) c) = [] \/ parked_behind_gate (qw s) c.
  Proof.
    intros Hq Htok Hidle c o.
    assert (Hempty : queue s = []) by (unfold idle in Hidle; destruct (queue s); [reflexivity|discriminate]).
    destruct (fst (reconcile o (qw s) c)) as [|e r] eqn:E; [left; reflexivity|right].
    destruct (Htok c o) as [(c0 & Hin & _)|(i & T & -> & HT & Hst)]; [rewrite E; discriminate|rewrite Hempty in Hin; destruct Hin|].
    assert (Hen : tx_enabled (qw s) i) by (unfold tx_enabled; cbn [Proto2.reconcile] in E; rewrite E; discriminate).
    destruct Hst as [Hi|Hg].
    - destruct (wait_a_reach s Hq i T HT Hi Hen) as [Hp|(P & HP & Hgate)]; [rewrite Hempty in Hp; destruct Hp|].
      exists i, T, P. split; [reflexivity|]. split; [exact HT|]. split; [exact Hi|]. split; [exact HP|]. split; [exact Hgate|].
      intros Hen'. assert (Hgs : gate_state P).
      { destruct Hgate as (Hd & Hv & Hc & Ha & Hab). split; [exact Ha|]. split; [exact Hab|]. right. right. auto. }
      pose proof (wait_b_reach s Hq (i - 1) P HP Hgs Hen') as Hp. rewrite Hempty in Hp. destruct Hp.
    - pose proof (wait_b_reach s Hq i T HT Hg Hen) as Hp. rewrite Hempty in Hp. destruct Hp.
  Qed.
End WaitA.

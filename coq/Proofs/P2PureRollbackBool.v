(* C06, value level: the well-formedness hypotheses as boolean predicates, their reflection, and the theorems of
   Proofs/P2PureRollbackMain.v stated on them for the functions of Model/P2Pure.v. *)
From Coq Require Import List Arith NArith Bool Lia Permutation.
From OC Require Import Base.Bytes Model.P2Pure Proofs.P2PureRollbackBase Proofs.P2PureRollbackPrune
  Proofs.P2PureRollbackApply Proofs.P2PureRollbackAdc Proofs.P2PureRollbackStore Proofs.P2PureRollbackCommit
  Proofs.P2PureRollbackRb Proofs.P2PureRollbackMain.
Import ListNotations.
Open Scope N_scope.

(** * boolean predicates *)
(* neither "" nor "/" (the two spellings of the root) *)
Definition properb (k : str) : bool := negb (eqb_str k []) && negb (eqb_str k [c_slash]).
(* Go map: keys unique *)
Fixpoint nodupb (m : cmap) : bool :=
  match m with [] => true | (k, _) :: r => negb (existsb (fun kv => eqb_str k (fst kv)) r) && nodupb r end.
(* ... key = path of the value, a proper path *)
Definition wfb (m : cmap) : bool := nodupb m && forallb (fun '(k, v) => eqb_str (pv_path v) k && properb k) m.
Definition eqb_pv (a b : pv) : bool :=
  eqb_str (pv_path a) (pv_path b) && eqb_str (pv_val a) (pv_val b) && Bool.eqb (pv_deleted a) (pv_deleted b) &&
  (pv_index a =? pv_index b).
(* the same Go map (the list order, i.e. the iteration order, may differ) *)
Definition sameb (a b : cmap) : bool :=
  forallb (fun '(k, v) => match lookup k b with Some v' => eqb_pv v v' | None => false end) a &&
  forallb (fun '(k, _) => match lookup k a with Some _ => true | None => false end) b.
(* the path lies beneath a tombstone of the map *)
Definition hiddenb (V : cmap) (k : str) : bool := existsb (fun '(t, d) => pv_deleted d && is_path_below k t) V.
(* no live value beneath a tombstone *)
Definition cleanb (V : cmap) : bool := forallb (fun '(k, e) => pv_deleted e || negb (hiddenb V k)) V.
(* nothing at all beneath a tombstone (what store() leaves behind) *)
Definition prunedb (V : cmap) : bool := forallb (fun '(k, _) => negb (hiddenb V k)) V.
(* no update of the change lies beneath a delete of the same change (finding F-14 is what happens otherwise) *)
Definition no_delete_above_updateb (c : cmap) : bool := forallb (fun '(k, u) => pv_deleted u || negb (cascb c k)) c.
(* values live at leaves: an updated path has no live value beneath it *)
Definition updates_are_leavesb (V c : cmap) : bool :=
  forallb (fun '(k, u) => pv_deleted u || forallb (fun '(p, x) => pv_deleted x || negb (is_path_below p k)) V) c.
(* the change carries its transaction index; the stored values are older *)
Definition stampedb (i : N) (c : cmap) : bool := forallb (fun '(_, u) => pv_index u =? i) c.
Definition olderb (i : N) (M : cmap) : bool := forallb (fun '(_, e) => pv_index e <? i) M.
(* all hypotheses of the rollback theorem: [m] the stored map, [vw] the loaded view, [ch] the change of transaction
   [i], [j] the transaction index of the rollback *)
Definition rollback_wf (i j : N) (m vw ch : cmap) : bool :=
  nodupb m && wfb vw && sameb vw m && cleanb vw && wfb ch && no_delete_above_updateb ch &&
  updates_are_leavesb vw ch && stampedb i ch && olderb i m && (0 <? i) && (i <? j).

(** * reflection *)
Lemma properb_spec k : properb k = true <-> proper k.
Proof.
  unfold properb, proper. rewrite andb_true_iff, !negb_true_iff, !eqb_str_neq. tauto.
Qed.

Lemma nodupb_spec m : nodupb m = true <-> nd m.
Proof.
  unfold nd. induction m as [|[k v] m IH]; cbn.
  - split; [constructor | reflexivity].
  - rewrite andb_true_iff, negb_true_iff, IH. split.
    + intros (H1 & H2). constructor; [|exact H2]. intros Hi. apply in_map_iff in Hi. destruct Hi as ([k' v'] & E & Hi).
      cbn in E. subst k'. assert (existsb (fun kv => eqb_str k (fst kv)) m = true) as X; [|congruence].
      apply existsb_exists. exists (k, v'). split; [exact Hi | apply eqb_str_refl].
    + intros Hn. inversion Hn as [|? ? N1 N2]; subst. split; [|exact N2].
      destruct (existsb _ m) eqn:X; [|reflexivity]. exfalso. apply existsb_exists in X. destruct X as ([k' v'] & Hi & E).
      apply eqb_str_eq in E. cbn in E. subst k'. apply N1. change k with (fst (k, v')). apply in_map. exact Hi.
Qed.

Lemma forallb_lookup (f : str -> pv -> bool) m : nd m ->
  (forallb (fun '(k, v) => f k v) m = true <-> forall k v, lookup k m = Some v -> f k v = true).
Proof.
  intros N. rewrite forallb_forall. split.
  - intros H k v E. apply (H (k, v)). apply lookup_in. exact E.
  - intros H [k v] Hi. apply H. apply in_lookup; assumption.
Qed.

Lemma existsb_lookup (f : str -> pv -> bool) m : nd m ->
  (existsb (fun '(k, v) => f k v) m = true <-> exists k v, lookup k m = Some v /\ f k v = true).
Proof.
  intros N. rewrite existsb_exists. split.
  - intros ([k v] & Hi & E). exists k, v. split; [apply in_lookup; assumption | exact E].
  - intros (k & v & E1 & E2). exists (k, v). split; [apply lookup_in; exact E1 | exact E2].
Qed.

Lemma wfb_spec m : wfb m = true <-> wf m.
Proof.
  unfold wfb, wf. rewrite andb_true_iff, nodupb_spec. split.
  - intros (N & H). pose proof (proj1 (forallb_lookup (fun k v => eqb_str (pv_path v) k && properb k) m N) H) as X.
    split; [exact N|]. split; intros k v Hi; apply (in_lookup _ _ _ N) in Hi; apply X in Hi; apply andb_true_iff in Hi.
    + apply eqb_str_eq. tauto.
    + apply properb_spec. tauto.
  - intros (N & K & P). split; [exact N|].
    apply (forallb_lookup (fun k v => eqb_str (pv_path v) k && properb k) m N). intros k v E.
    apply andb_true_iff. split; [apply eqb_str_eq; eapply kp_lookup; eauto | apply properb_spec; eapply pk_lookup; eauto].
Qed.

Lemma eqb_pv_spec a b : eqb_pv a b = true <-> a = b.
Proof.
  unfold eqb_pv. rewrite !andb_true_iff, !eqb_str_eq, eqb_true_iff, N.eqb_eq. destruct a, b; cbn. split.
  - intros (((-> & ->) & ->) & ->). reflexivity.
  - intros [= -> -> -> ->]. auto.
Qed.

Lemma sameb_same a b : sameb a b = true -> same a b.
Proof.
  unfold sameb. rewrite andb_true_iff, !forallb_forall. intros (H1 & H2) k.
  destruct (lookup k a) as [v|] eqn:Ea.
  - specialize (H1 (k, v) (lookup_in _ _ _ Ea)). cbn in H1. destruct (lookup k b) as [v'|]; [|discriminate].
    apply eqb_pv_spec in H1. congruence.
  - destruct (lookup k b) as [v'|] eqn:Eb; [|reflexivity].
    specialize (H2 (k, v') (lookup_in _ _ _ Eb)). cbn in H2. rewrite Ea in H2. discriminate.
Qed.

Lemma same_sameb a b : nd a -> nd b -> same a b -> sameb a b = true.
Proof.
  intros Na Nb S. unfold sameb. rewrite andb_true_iff, !forallb_forall. split.
  - intros [k v] Hi. rewrite <- S, (in_lookup _ _ _ Na Hi). apply eqb_pv_spec. reflexivity.
  - intros [k v] Hi. rewrite S, (in_lookup _ _ _ Nb Hi). reflexivity.
Qed.

Lemma hiddenb_spec V k : nd V -> (hiddenb V k = true <-> hidden V k).
Proof.
  intros N. unfold hiddenb, hidden, tomb.
  rewrite (existsb_lookup (fun t d => pv_deleted d && is_path_below k t) V N). split.
  - intros (t & d & E1 & E2). apply andb_true_iff in E2. exists t. split; [exists d; tauto | apply E2].
  - intros (t & (d & E1 & E2) & E3). exists t, d. split; [exact E1 | apply andb_true_iff; auto].
Qed.

Lemma cleanb_spec V : nd V -> (cleanb V = true <-> clean V).
Proof.
  intros N. unfold cleanb, clean.
  rewrite (forallb_lookup (fun k e => pv_deleted e || negb (hiddenb V k)) V N). split.
  - intros H k e E D Hh. specialize (H k e E). rewrite D in H. cbn in H. apply negb_true_iff in H.
    apply (hiddenb_spec V k N) in Hh. congruence.
  - intros H k e E. destruct (pv_deleted e) eqn:D; [reflexivity|]. cbn. apply negb_true_iff.
    destruct (hiddenb V k) eqn:X; [|reflexivity]. exfalso. apply (H k e E D). apply hiddenb_spec; assumption.
Qed.

Lemma prunedb_intro V : nd V -> (forall k t, tomb V t -> below k t -> lookup k V = None) -> prunedb V = true.
Proof.
  intros N H. unfold prunedb. apply (forallb_lookup (fun k _ => negb (hiddenb V k)) V N). intros k v E.
  apply negb_true_iff. destruct (hiddenb V k) eqn:X; [|reflexivity]. exfalso.
  apply (hiddenb_spec V k N) in X. destruct X as (t & T1 & T2). rewrite (H k t T1 T2) in E. discriminate.
Qed.

Lemma no_delete_above_updateb_spec c : nd c -> no_delete_above_updateb c = true -> no_delete_above_update c.
Proof.
  intros N H k u E D. unfold no_delete_above_updateb in H.
  pose proof (proj1 (forallb_lookup (fun k u => pv_deleted u || negb (cascb c k)) c N) H k u E) as X.
  cbv beta in X. rewrite D in X. cbn in X. apply negb_true_iff in X. exact X.
Qed.

Lemma updates_are_leavesb_spec V c : nd V -> nd c -> updates_are_leavesb V c = true -> updates_are_leaves V c.
Proof.
  intros NV Nc H k u p x E1 D1 E2 D2 Hb. unfold updates_are_leavesb in H.
  pose proof (proj1 (forallb_lookup (fun k u => pv_deleted u || forallb (fun '(p, x) => pv_deleted x || negb (is_path_below p k)) V) c Nc) H k u E1) as X.
  cbv beta in X. rewrite D1 in X. cbn [orb] in X.
  pose proof (proj1 (forallb_lookup (fun p x => pv_deleted x || negb (is_path_below p k)) V NV) X p x E2) as Y.
  cbv beta in Y. rewrite D2 in Y. cbn in Y. apply negb_true_iff in Y. unfold below in Hb. congruence.
Qed.

Lemma rollback_wf_hyp i j m vw ch : rollback_wf i j m vw ch = true -> rollback_hyp i j m vw ch.
Proof.
  unfold rollback_wf. rewrite !andb_true_iff.
  intros ((((((((((H1 & H2) & H3) & H4) & H5) & H6) & H7) & H8) & H9) & H10) & H11).
  apply nodupb_spec in H1. apply wfb_spec in H2. apply sameb_same in H3. apply wfb_spec in H5.
  pose proof (proj1 H2) as NV. pose proof (proj1 H5) as Nc.
  constructor; auto.
  - apply cleanb_spec; assumption.
  - apply no_delete_above_updateb_spec; assumption.
  - apply updates_are_leavesb_spec; assumption.
  - intros k u E. unfold stampedb in H8. apply N.eqb_eq.
    exact (proj1 (forallb_lookup (fun _ u => pv_index u =? i) ch Nc) H8 k u E).
  - intros k e E. unfold olderb in H9. apply N.ltb_lt.
    exact (proj1 (forallb_lookup (fun _ e => pv_index e <? i) m H1) H9 k e E).
  - apply N.ltb_lt. exact H10.
  - apply N.ltb_lt. exact H11.
Qed.

(** * the theorems on the functions of Model/P2Pure.v *)
(* for every loaded view of the stored maps (same map, any list order; the store's Get gives overlay inline map) *)
Theorem restores_values_any_view ord1 ord2 i j m vw ch vw1 vw2 :
  rollback_wf i j m vw ch = true ->
  let rb := rollback_of vw ch in
  let m1 := commit_merge ord1 i m vw ch in
  nodupb vw1 = true -> sameb vw1 m1 = true ->
  let m2 := commit_merge ord2 j m1 vw1 rb in
  nodupb vw2 = true -> sameb vw2 m2 = true ->
  live vw2 = live vw.
Proof.
  intros H rb m1 N1 S1 m2 N2 S2. apply rollback_wf_hyp in H.
  apply nodupb_spec in N1. apply nodupb_spec in N2. apply sameb_same in S1. apply sameb_same in S2.
  exact (rollback_restores i j ord1 ord2 m vw ch vw1 vw2 H N1 S1 N2 S2).
Qed.

(* as reconcileCommit leaves things: the entry's inline copy is emptied by the commit *)
Theorem restores_values ord1 ord2 i j m vw ch :
  rollback_wf i j m vw ch = true ->
  let rb := rollback_of vw ch in
  let m1 := commit_merge ord1 i m vw ch in
  let vw1 := overlay [] m1 in
  let m2 := commit_merge ord2 j m1 vw1 rb in
  live (overlay [] m2) = live vw /\ live m2 = live vw.
Proof.
  intros H rb m1 vw1 m2. apply rollback_wf_hyp in H.
  destruct (commit_preserves i j ord1 m vw ch H) as (W1 & _). fold m1 in W1.
  assert (nd vw1) as N1 by (apply nd_overlay; constructor).
  assert (same vw1 m1) as S1 by (apply overlay_nil_same; apply W1).
  destruct (rollback_second_wf i j ord1 ord2 m vw ch vw1 H N1 S1) as (W2 & _). fold rb m1 m2 in W2.
  split.
  - apply (rollback_restores i j ord1 ord2 m vw ch vw1 (overlay [] m2) H N1 S1).
    + apply nd_overlay. constructor.
    + apply overlay_nil_same. apply W2.
  - apply (rollback_restores i j ord1 ord2 m vw ch vw1 m2 H N1 S1); [apply W2 | apply same_refl].
Qed.

(* the hypotheses are re-established by the commit (for the next transaction index) *)
Theorem commit_preserves_wf ord i j m vw ch :
  rollback_wf i j m vw ch = true ->
  let m1 := commit_merge ord i m vw ch in
  wfb m1 = true /\ cleanb m1 = true /\ prunedb m1 = true /\ olderb j m1 = true /\
  sameb (overlay [] m1) m1 = true /\ wfb (overlay [] m1) = true /\ cleanb (overlay [] m1) = true.
Proof.
  intros H m1. pose proof H as Hb. apply rollback_wf_hyp in H.
  destruct (commit_preserves i j ord m vw ch H) as (W1 & C1 & P1 & I1). fold m1 in W1, C1, P1, I1.
  pose proof (proj1 W1) as N1.
  assert (nd (overlay [] m1)) as No by (apply nd_overlay; constructor).
  pose proof (overlay_nil_same m1 N1) as So.
  assert (wf (overlay [] m1)) as Wo.
  { split; [exact No|]. split; [eapply (same_kp m1) | eapply (same_pk m1)]; eauto using same_sym; apply W1. }
  split; [apply wfb_spec; exact W1|]. split; [apply cleanb_spec; assumption|]. split; [apply prunedb_intro; assumption|].
  split; [|split; [apply same_sameb; assumption | split; [apply wfb_spec; exact Wo|]]].
  - unfold olderb. apply (forallb_lookup (fun _ e => pv_index e <? j) m1 N1). intros k e E. apply N.ltb_lt.
    pose proof (I1 k e E). pose proof (rh_lt _ _ _ _ _ H). lia.
  - apply cleanb_spec; [exact No|]. intros k e E D Hh. rewrite So in E. apply (C1 k e E D). eapply same_hidden; eauto.
Qed.

(* the same for the rollback's commit *)
Theorem rollback_commit_preserves_wf ord1 ord2 i j m vw ch :
  rollback_wf i j m vw ch = true ->
  let rb := rollback_of vw ch in
  let m1 := commit_merge ord1 i m vw ch in
  let m2 := commit_merge ord2 j m1 (overlay [] m1) rb in
  wfb m2 = true /\ cleanb m2 = true.
Proof.
  intros H rb m1 m2. apply rollback_wf_hyp in H.
  destruct (commit_preserves i j ord1 m vw ch H) as (W1 & _). fold m1 in W1.
  assert (nd (overlay [] m1)) as N1 by (apply nd_overlay; constructor).
  assert (same (overlay [] m1) m1) as S1 by (apply overlay_nil_same; apply W1).
  destruct (rollback_second_wf i j ord1 ord2 m vw ch (overlay [] m1) H N1 S1) as (W2 & C2). fold rb m1 m2 in W2, C2.
  split; [apply wfb_spec; exact W2 | apply cleanb_spec; [apply W2 | exact C2]].
Qed.

(* the candidate the model plugin validates for the rollback (the loaded view with the rollback values applied by
   applyChangeToConfig in the Go map order [ord]) shows exactly the old view *)
Theorem candidate_restored ord1 ord i j m vw ch :
  rollback_wf i j m vw ch = true ->
  let rb := rollback_of vw ch in
  let m1 := commit_merge ord1 i m vw ch in
  live (candidate_rb (overlay [] m1) (permute ord rb)) = live vw.
Proof.
  intros H rb m1. apply rollback_wf_hyp in H.
  destruct (commit_preserves i j ord1 m vw ch H) as (W1 & _). fold m1 in W1.
  assert (wf rb) as Wr by (apply rollback_of_spec; apply H).
  apply (rollback_candidate i j ord1 m vw ch (overlay [] m1) (permute ord rb) H).
  - apply nd_overlay. constructor.
  - apply overlay_nil_same. apply W1.
  - apply (permute_wf ord rb Wr).
  - apply permute_same. apply Wr.
Qed.

(* ... for any loaded view of the stored map and any list order of the rollback values *)
Theorem candidate_restored_any_view ord1 i j m vw ch vw1 rb' :
  rollback_wf i j m vw ch = true ->
  let rb := rollback_of vw ch in
  let m1 := commit_merge ord1 i m vw ch in
  nodupb vw1 = true -> sameb vw1 m1 = true -> nodupb rb' = true -> sameb rb' rb = true ->
  live (candidate_rb vw1 rb') = live vw.
Proof.
  intros H rb m1 N1 S1 Nr Sr. apply rollback_wf_hyp in H.
  apply nodupb_spec in N1. apply nodupb_spec in Nr. apply sameb_same in S1. apply sameb_same in Sr.
  exact (rollback_candidate i j ord1 m vw ch vw1 rb' H N1 S1 Nr Sr).
Qed.

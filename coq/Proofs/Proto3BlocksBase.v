(* Proto3BlocksBase: the second layer of the frontier invariant of the v3 protocol, for the sentence "a change whose apply
   FAILED or was ABORTED keeps later changes from being applied until it is rolled back".  FInv is proved on top of SInv
   (Proto3OrderBase): it adds what the abort gate of applyChange (Applied.Revision < Rollback.Index) relies on - the
   rollback index of a committing change is at least every committed index below it, the applied revision stays below a
   change whose apply failed (until a rollback apply completes), Applied.Target / Applied.Revision / Committed.Revision
   name committed changes - and the blocking rule itself (fb). *)
From Coq Require Import List NArith Bool Arith Lia.
From OC Require Import Model.Proto3 Spec.Tla3 Proofs.Proto3Proofs Proofs.Proto3OrderBase.
Import ListNotations.
Open Scope N_scope.

Record FInv (g : N -> option txn) (cm ap : cursor) : Prop := {
  b2  : forall j t, g j = Some t -> ra t = 2 \/ ra t = 5 -> rc t = 2;
  s5c : forall j t, g j = Some t -> rc t = 2 -> k_revision cm = k_target cm;
  s8u : forall a u, g a = Some u -> a = k_revision cm -> cc u = 2 \/ (cc u = 1 /\ k_change cm = a);
  s9u : forall j t a u, g j = Some t -> g a = Some u -> cc t <> 0 -> a = t_ridx t -> cc u = 2;
  f8  : k_revision ap <= k_change cm;
  f9b : k_target ap <= k_change cm;
  f6u : forall a t, g a = Some t -> a = k_revision ap -> cc t = 2;
  f9u : forall a t, g a = Some t -> a = k_target ap -> cc t = 2;
  f4  : forall a t, g a = Some t -> cc t = 2 -> a <= k_revision cm \/ (a = k_index cm /\ k_target cm < k_index cm);
  f1  : forall a t u tu, g a = Some t -> g u = Some tu -> cc t = 2 -> cc tu <> 0 -> a < u -> a <= t_ridx tu;
  f5  : forall a t, g a = Some t -> cc t = 2 -> k_ordinal ap < t_cord t -> k_revision ap < a;
  f3  : forall a t, g a = Some t -> cc t = 2 -> ca t = 3 \/ ca t = 5 ->
          k_revision ap < a \/ (k_target cm < k_index cm /\ k_revision cm = k_target cm /\ k_ordinal ap = k_ordinal cm);
  a5  : forall u tu, g u = Some tu -> cc tu = 2 -> ca tu = 0 -> k_target ap = u /\ k_ordinal ap + 1 = t_cord tu ->
          t_ridx tu <= k_revision ap;
  fb  : forall a t u tu, g a = Some t -> g u = Some tu -> ca t = 3 \/ ca t = 5 -> ra t <> 2 -> ra t <> 5 -> a < u ->
          ca tu <> 1 /\ ca tu <> 2
}.

Lemma FInv_ext g g' cm ap : (forall j, g j = g' j) -> FInv g cm ap -> FInv g' cm ap.
Proof.
  intros E [].
  constructor; intros; repeat match goal with H : g' _ = Some _ |- _ => rewrite <- E in H end; eauto.
Qed.

Ltac instF0 HF := pf (f8 _ _ _ HF); pf (f9b _ _ _ HF).

Ltac instF HF g :=
  instF0 HF;
  for_each_tx g ltac:(fun j t Hg =>
      pf (b2 _ _ _ HF j t Hg); pf (s5c _ _ _ HF j t Hg); pf (s8u _ _ _ HF j t Hg);
      pf (f6u _ _ _ HF j t Hg); pf (f9u _ _ _ HF j t Hg); pf (f4 _ _ _ HF j t Hg);
      pf (f5 _ _ _ HF j t Hg); pf (f3 _ _ _ HF j t Hg); pf (a5 _ _ _ HF j t Hg);
      pf (st_code_le (t_cc t)); pf (st_code_le (t_ca t)));
  for_each_pair g ltac:(fun j t Hg k u Hk =>
      pf (s9u _ _ _ HF j t k u Hg Hk); pf (f1 _ _ _ HF j t k u Hg Hk); pf (fb _ _ _ HF j t k u Hg Hk)).

Ltac frame_eautoF :=
  solve [eauto using b2, s5c, s8u, s9u, f8, f9b, f6u, f9u, f4, f1, f5, f3, a5, fb].

Ltac conjF prep HS HF g extra :=
  intros; prep;
  first [ frame_eautoF | solve [intros; lia]
        | (splits; refute; norm_ctx; instA HS g; instF HF g; extra; finish) ].

Ltac finv_by prep HS HF g extra :=
  constructor;
  [ conjF prep HS HF g extra | conjF prep HS HF g extra | conjF prep HS HF g extra | conjF prep HS HF g extra
  | conjF prep HS HF g extra | conjF prep HS HF g extra | conjF prep HS HF g extra | conjF prep HS HF g extra
  | conjF prep HS HF g extra | conjF prep HS HF g extra | conjF prep HS HF g extra | conjF prep HS HF g extra
  | conjF prep HS HF g extra | conjF prep HS HF g extra ].

Ltac prj := cbn [k_index k_ordinal k_revision k_target k_change] in *.

(* a consequence used as a hint: no apply is in progress or complete above a failed / aborted one *)
Lemma failed_blocks g n cm ap a t0 i t :
  SInv g n cm ap -> FInv g cm ap -> g a = Some t0 -> g i = Some t ->
  ca t0 = 3 \/ ca t0 = 5 -> ca t = 1 \/ ca t = 2 -> a < i -> False.
Proof.
  intros HS HF Ha Hi F P L.
  assert (D : (ra t0 = 2 \/ ra t0 = 5) \/ (ra t0 <> 2 /\ ra t0 <> 5)) by lia.
  destruct D as [D | [D1 D2]].
  - pose proof (b2 _ _ _ HF a t0 Ha D) as B.
    pose proof (s5 _ _ _ _ HS a t0 Ha (or_intror B)) as S5.
    pose proof (s1 _ _ _ _ HS) as S1.
    assert (C : cc t = 2) by (apply (a0 _ _ _ _ HS i t Hi); lia).
    pose proof (s3a _ _ _ _ HS i t Hi) as X1. pose proof (s3b _ _ _ _ HS i t Hi) as X2.
    destruct (N.eq_dec i (k_change cm + 1)) as [E|E]; lia.
  - pose proof (fb _ _ _ HF a t0 i t Ha Hi F D1 D2 L). lia.
Qed.

(* Proto3BlocksTx: the transaction-record writes of commitChange / commitRollback, RollbackChange and AppendChange preserve FInv (second layer of the frontier invariant, Proto3BlocksBase). *)
From Coq Require Import List NArith Bool Arith Lia.
From OC Require Import Model.Proto3 Spec.Tla3 Proofs.Proto3Proofs Proofs.Proto3OrderBase Proofs.Proto3BlocksBase.
Import ListNotations.
Open Scope N_scope.

Lemma F_tx_C1' g n cm ap i t t' :
  SInv g n cm ap -> FInv g cm ap -> g i = Some t ->
  cc t = 0 ->
  k_change cm + 1 = i ->
  k_target cm = i ->
  flds t' = (t_rb t, InProgress, t_ca t, t_cord t, t_rc t, t_ra t, t_rord t, k_revision cm) ->
  FInv (updf g i t') cm ap.
Proof.
  intros HS HF Hi G1 G2 G3 F. getflds F.
  finv_by ltac:(split_upd; rwt t') HS HF g idtac.
Qed.

Lemma F_tx_C2 g n cm ap i t t' :
  SInv g n cm ap -> FInv g cm ap -> g i = Some t ->
  cc t = 1 ->
  k_change cm = i ->
  flds t' = (t_rb t, Complete, t_ca t, k_ordinal cm, t_rc t, t_ra t, t_rord t, t_ridx t) ->
  FInv (updf g i t') cm ap.
Proof.
  intros HS HF Hi G1 G2 F. getflds F.
  finv_by ltac:(split_upd; rwt t') HS HF g idtac.
Qed.

Lemma F_tx_C3 g n cm ap i t t' :
  SInv g n cm ap -> FInv g cm ap -> g i = Some t ->
  cc t = 1 ->
  k_change cm <> i ->
  flds t' = (t_rb t, Failed, Canceled, t_cord t, t_rc t, t_ra t, t_rord t, t_ridx t) ->
  FInv (updf g i t') cm ap.
Proof.
  intros HS HF Hi G1 G2 F. getflds F.
  finv_by ltac:(split_upd; rwt t') HS HF g idtac.
Qed.

Lemma F_tx_R1' g n cm ap i t t' :
  SInv g n cm ap -> FInv g cm ap -> g i = Some t ->
  rc t = 0 ->
  k_revision cm = i ->
  k_target cm = t_ridx t ->
  flds t' = (t_rb t, t_cc t, t_ca t, t_cord t, Some InProgress, t_ra t, t_rord t, t_ridx t) ->
  FInv (updf g i t') cm ap.
Proof.
  intros HS HF Hi G1 G2 G3 F. getflds F.
  finv_by ltac:(split_upd; rwt t') HS HF g idtac.
Qed.

Lemma F_tx_R3 g n cm ap i t t' :
  SInv g n cm ap -> FInv g cm ap -> g i = Some t ->
  rc t = 1 ->
  k_revision cm <> i ->
  flds t' = (t_rb t, t_cc t, t_ca t, t_cord t, Some Complete, t_ra t, k_ordinal cm, t_ridx t) ->
  FInv (updf g i t') cm ap.
Proof.
  intros HS HF Hi G1 G2 F. getflds F.
  finv_by ltac:(split_upd; rwt t') HS HF g idtac.
Qed.

Lemma F_tx_Rb g n cm ap i t t' :
  SInv g n cm ap -> FInv g cm ap -> g i = Some t ->
  flds t' = (true, t_cc t, t_ca t, t_cord t, Some Pending, Some Pending, t_rord t, t_ridx t) ->
  FInv (updf g i t') cm ap.
Proof.
  intros HS HF Hi  F. getflds F.
  finv_by ltac:(split_upd; rwt t') HS HF g ltac:(assert (D : (ra t = 2 \/ ra t = 5) \/ (ra t <> 2 /\ ra t <> 5)) by lia; destruct D as [D|[D1 D2]]).
Qed.

Lemma F_tx_append g n cm ap t' :
  SInv g n cm ap -> FInv g cm ap ->
  flds t' = (false, Pending, Pending, 0, None, None, 0, 0) ->
  FInv (fun j => if j =? n + 1 then Some t' else g j) cm ap.
Proof.
  intros HS HF F. getflds F. change (fun j => if j =? n + 1 then Some t' else g j) with (updf g (n + 1) t').
  finv_by ltac:(split_upd; rwt t') HS HF g idtac.
Qed.

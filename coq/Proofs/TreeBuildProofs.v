(* Proofs about the building half of Model/Tree.v: addPathToTree's list-entry lookup (with its foundkeys
   counter) produces exactly the document Model/TreeSpec.render describes whenever the paths arrive as the
   depth-first enumeration of a well-formed trie. *)
From Coq Require Import List Arith NArith ZArith Bool Lia Permutation.
From OC Require Import Base.Bytes Model.Tree Model.TreeSpec.
Import ListNotations.
Open Scope N_scope.

(* ------------------------------------------------------------------ maps *)

Lemma mget_mset_same k v m : mget k (mset k v m) = Some v.
Proof.
  induction m as [|[k' v'] m IH]; cbn.
  - rewrite eqb_str_refl. reflexivity.
  - destruct (eqb_str k k') eqn:E; cbn; rewrite ?eqb_str_refl, ?E; auto.
Qed.

Lemma mget_mset_other k k' v m : k <> k' -> mget k (mset k' v m) = mget k m.
Proof.
  intros Hne. induction m as [|[k2 v2] m IH]; cbn.
  - apply eqb_str_neq in Hne. rewrite Hne. reflexivity.
  - destruct (eqb_str k' k2) eqn:E; cbn.
    + apply eqb_str_eq in E. subst k2. apply eqb_str_neq in Hne. rewrite Hne. reflexivity.
    + destruct (eqb_str k k2); auto.
Qed.

Lemma mset_mset k v v' m : mset k v (mset k v' m) = mset k v m.
Proof.
  induction m as [|[k2 v2] m IH]; cbn.
  - rewrite eqb_str_refl. reflexivity.
  - destruct (eqb_str k k2) eqn:E; cbn; rewrite ?eqb_str_refl, ?E; [reflexivity | f_equal; exact IH].
Qed.

Lemma list_eqb_eq a b : list_eqb a b = true -> a = b.
Proof.
  revert b; induction a as [|x a IH]; intros [|y b]; cbn; try congruence.
  rewrite andb_true_iff. intros [H1 H2]. apply eqb_str_eq in H1. subst. f_equal. auto.
Qed.

Lemma mem_false_notin x l : mem x l = false -> ~ In x l.
Proof.
  intros H Hin. unfold mem in H. assert (existsb (eqb_str x) l = true); [|congruence].
  apply existsb_exists. exists x. split; [exact Hin | apply eqb_str_refl].
Qed.

(* ------------------------------------------------------------------ one step of addPathToTree *)

Fixpoint add_all_e (rfc : bool) (ps : list (list str * tv)) (m : amap) : outcome amap :=
  match ps with
  | [] => Ok m
  | p :: ps' => bind (add_elems rfc (fst p) (snd p) false m) (add_all_e rfc ps')
  end.

Lemma add_all_live rfc pvs m :
  add_all rfc pvs m = add_all_e rfc (map (fun p => (split_path (pv_path p), pv_val p)) pvs) m.
Proof.
  revert m; induction pvs as [|p pvs IH]; intros m; [reflexivity|].
  cbn [add_all map add_all_e fst snd]. unfold add_path.
  destruct (add_elems rfc (split_path (pv_path p)) (pv_val p) false m) as [a| |]; cbn [bind]; [apply IH | reflexivity | reflexivity].
Qed.

Lemma add_all_e_app rfc ps qs m :
  add_all_e rfc (ps ++ qs) m = bind (add_all_e rfc ps m) (add_all_e rfc qs).
Proof.
  revert m; induction ps as [|p ps IH]; intros m; [reflexivity|].
  cbn [app add_all_e].
  destruct (add_elems rfc (fst p) (snd p) false m) as [a| |]; cbn [bind]; [apply IH | reflexivity | reflexivity].
Qed.

Lemma add_leaf rfc e v m :
  add_elems rfc [e] v false m =
  match leaf_of rfc v with LNone => Ok m | LPanic => Panic | LVal g => Ok (mset e (NLeaf g) m) end.
Proof. reflexivity. Qed.

(* the rest of a well-formed path: not empty, re-splitting is the identity, re-joined it is not empty *)
Definition rest_ok (rest : list str) : Prop :=
  rest <> [] /\ resplit rest = rest /\ join [c_slash] rest <> [].

Lemma normalb_rest e rest : normalb (e :: rest) = true -> rest <> [] -> rest_ok rest /\ normalb rest = true.
Proof.
  cbn. rewrite !andb_true_iff. intros [[_ H2] H3] Hne. split; [|exact H3].
  destruct rest as [|r rest]; [contradiction|]. split; [discriminate|]. split.
  - apply list_eqb_eq. exact H2.
  - cbn in H3. rewrite !andb_true_iff in H3. destruct H3 as [[H3 _] _].
    apply negb_true_iff, eqb_str_neq in H3. destruct rest as [|r2 rest]; cbn; [exact H3|].
    destruct r; [contradiction H3; reflexivity | discriminate].
Qed.

Lemma add_plain rfc e rest v m :
  contains e [c_eq] = false -> rest_ok rest ->
  add_elems rfc (e :: rest) v false m =
  match mget e m with
  | None => bind (add_elems rfc rest v false []) (fun c => Ok (mset e (NMap c) m))
  | Some (NMap c) => bind (add_elems rfc rest v false c) (fun c' => Ok (mset e (NMap c') m))
  | Some _ => Err
  end.
Proof.
  intros He [Hne [Hrs Hj]]. unfold add_elems at 1. cbn [List.length add_fuel]. unfold add_level.
  destruct rest as [|r rest]; [contradiction|]. rewrite He.
  destruct (join [c_slash] (r :: rest)) eqn:Ej; [contradiction|]. rewrite Hrs.
  unfold add_elems. destruct (mget e m) as [[g|c|l]|]; reflexivity.
Qed.

Lemma add_keyed rfc e n K rest v m :
  contains e [c_eq] = true -> parse_elem e = Ok (n, K) -> rest_ok rest ->
  add_elems rfc (e :: rest) v false m =
  let cont (m1 : amap) (l : list node) :=
    bind (search K l O O None) (fun r =>
      if (fst r <? List.length K)%nat then
        bind (add_elems rfc rest v false (keymap_node K)) (fun en => Ok (mset n (NArr (l ++ [NMap en])) m1))
      else
        match snd r with
        | Some i =>
          match nth_error l i with
          | Some (NMap em) => bind (add_elems rfc rest v false em) (fun en => Ok (mset n (NArr (replace_nth i (NMap en) l)) m1))
          | _ => Panic
          end
        | None => bind (add_elems rfc rest v true []) (fun _ => Ok m1)
        end) in
  match mget n m with
  | None => cont (mset n (NArr []) m) []
  | Some (NArr l) => cont m l
  | Some _ => Err
  end.
Proof.
  intros He Hp [Hne [Hrs Hj]]. unfold add_elems at 1. cbn [List.length add_fuel]. unfold add_level.
  destruct rest as [|r rest]; [contradiction|]. rewrite He.
  destruct (join [c_slash] (r :: rest)) eqn:Ej; [contradiction|]. rewrite Hp. cbn [bind fst snd]. rewrite Hrs.
  unfold add_elems. reflexivity.
Qed.

(* ------------------------------------------------------------------ the entry lookup *)

Definition is_map (x : node) : Prop := match x with NMap _ => True | _ => False end.

(* every key of K is a member of em and reads (convertBasicType) as K says *)
Definition full_match (K : list (str * str)) (em : amap) : Prop :=
  forall k v, In (k, v) K -> exists x, mget k em = Some x /\ conv x = v.

(* every key of K is a member of em and at least one reads differently *)
Definition all_present (K : list (str * str)) (em : amap) : Prop :=
  forall k v, In (k, v) K -> exists x, mget k em = Some x.

Definition some_differs (K : list (str * str)) (em : amap) : Prop :=
  exists k v x, In (k, v) K /\ mget k em = Some x /\ conv x <> v.

Lemma scan_full K em i : forall cnt last,
  full_match K em -> K <> [] -> scan_entry K em i cnt last = ((cnt + List.length K)%nat, Some i).
Proof.
  induction K as [|[k v] K IH]; intros cnt last Hf Hne; [contradiction|].
  cbn. destruct (Hf k v (or_introl eq_refl)) as [x [Hx Hc]]. rewrite Hx, Hc, eqb_str_refl.
  destruct K as [|kv K].
  - cbn. f_equal. lia.
  - rewrite IH; [f_equal; cbn; lia | | discriminate].
    intros k' v' Hin. apply Hf. right. exact Hin.
Qed.

Lemma scan_differs K em i : forall cnt last,
  all_present K em -> some_differs K em -> fst (scan_entry K em i cnt last) = O.
Proof.
  induction K as [|[k v] K IH]; intros cnt last Hp [k0 [v0 [x0 [Hin [Hx Hd]]]]]; [destruct Hin|].
  cbn. destruct (Hp k v (or_introl eq_refl)) as [x Hxk]. rewrite Hxk.
  destruct (eqb_str (conv x) v) eqn:E; [|reflexivity].
  apply IH.
  - intros k' v' H'. apply (Hp k' v'). right. exact H'.
  - destruct Hin as [Hin|Hin].
    + injection Hin as <- <-. rewrite Hx in Hxk. injection Hxk as ->. apply eqb_str_eq in E. contradiction.
    + exists k0, v0, x0. auto.
Qed.

Lemma search_app K l x : forall i cnt last,
  search K (l ++ [x]) i cnt last =
  bind (search K l i cnt last) (fun r => search K [x] (i + List.length l)%nat (fst r) (snd r)).
Proof.
  induction l as [|y l IH]; intros i cnt last; cbn [app search List.length].
  - cbn. rewrite Nat.add_0_r. reflexivity.
  - destruct y as [g|em|l0]; [reflexivity| |reflexivity].
    rewrite IH. replace (S i + List.length l)%nat with (i + S (List.length l))%nat by lia. reflexivity.
Qed.

Lemma search_maps K l : forall i cnt last,
  Forall is_map l -> exists r, search K l i cnt last = Ok r.
Proof.
  induction l as [|y l IH]; intros i cnt last Hm; cbn; [eexists; reflexivity|].
  inversion Hm as [|? ? Hy Hl]; subst. destruct y; try contradiction. apply IH. exact Hl.
Qed.

(* only the last entry decides: it is found when it matches in full ... *)
Lemma search_found K l em :
  Forall is_map l -> full_match K em -> K <> [] ->
  exists c, search K (l ++ [NMap em]) O O None = Ok (c, Some (List.length l)) /\ (List.length K <= c)%nat.
Proof.
  intros Hm Hf Hne. rewrite search_app.
  destruct (search_maps K l O O None Hm) as [r Hr]. rewrite Hr. cbn [bind search].
  rewrite scan_full; auto. cbn. eexists. split; [reflexivity | lia].
Qed.

(* ... and not found when it has all the keys and one of them differs *)
Lemma search_notfound K l em :
  Forall is_map l -> all_present K em -> some_differs K em ->
  exists r, search K (l ++ [NMap em]) O O None = Ok r /\ fst r = O.
Proof.
  intros Hm Hp Hd. rewrite search_app.
  destruct (search_maps K l O O None Hm) as [r Hr]. rewrite Hr. cbn [bind search].
  eexists. split; [reflexivity|]. apply scan_differs; auto.
Qed.

Lemma nth_error_last {A} (l : list A) x : nth_error (l ++ [x]) (List.length l) = Some x.
Proof. induction l; cbn; auto. Qed.

Lemma replace_nth_last {A} (l : list A) x y : replace_nth (List.length l) y (l ++ [x]) = l ++ [y].
Proof. induction l as [|z l IH]; cbn; [reflexivity | f_equal; exact IH]. Qed.

(* ------------------------------------------------------------------ a run of paths sharing their first element *)

Lemma bind_ok {A C} (x : outcome A) (f : A -> outcome C) r :
  bind x f = Ok r -> exists a, x = Ok a /\ f a = Ok r.
Proof. destruct x; cbn; intros H; try discriminate. eexists; eauto. Qed.

Definition under (e : str) (ps : list (list str * tv)) : list (list str * tv) :=
  map (fun p => (e :: fst p, snd p)) ps.

Lemma mset_get_same k v m : mget k m = Some v -> mset k v m = m.
Proof.
  induction m as [|[k' v'] m IH]; cbn; [discriminate|].
  destruct (eqb_str k k') eqn:E.
  - apply eqb_str_eq in E. subst. intros [= ->]. reflexivity.
  - intros H. f_equal. auto.
Qed.

Lemma group_plain rfc e ps :
  contains e [c_eq] = false ->
  Forall (fun p => rest_ok (fst p)) ps ->
  forall c0 m c',
    (mget e m = None /\ c0 = [] \/ mget e m = Some (NMap c0)) ->
    ps <> [] ->
    add_all_e rfc ps c0 = Ok c' ->
    add_all_e rfc (under e ps) m = Ok (mset e (NMap c') m).
Proof.
  intros He Hok. induction Hok as [|p ps Hp Hps IH]; intros c0 m c' Hst Hne Hadd; [contradiction|].
  cbn [add_all_e] in Hadd. apply bind_ok in Hadd. destruct Hadd as [c1 [H1 H2]].
  cbn [under map add_all_e fst snd]. rewrite add_plain; [|exact He|exact Hp].
  assert (Hm1 : match mget e m with
                | None => bind (add_elems rfc (fst p) (snd p) false []) (fun c => Ok (mset e (NMap c) m))
                | Some (NMap c) => bind (add_elems rfc (fst p) (snd p) false c) (fun c'0 => Ok (mset e (NMap c'0) m))
                | Some _ => Err
                end = Ok (mset e (NMap c1) m)).
  { destruct Hst as [[Hg ->] | Hg]; rewrite Hg, H1; reflexivity. }
  rewrite Hm1. cbn [bind].
  destruct ps as [|p2 ps].
  - cbn in H2. injection H2 as <-. reflexivity.
  - fold (under e (p2 :: ps)). erewrite IH; [rewrite mset_mset; reflexivity | | discriminate | exact H2].
    right. apply mget_mset_same.
Qed.

(* the state of a list before a new entry is appended: no entry yet, or the last entry has all the keys
   and differs in one of them *)
Definition last_differs (K : list (str * str)) (l : list node) : Prop :=
  l = [] \/ exists l' em, l = l' ++ [NMap em] /\ Forall is_map l' /\ all_present K em /\ some_differs K em.

Lemma last_differs_maps K l : last_differs K l -> Forall is_map l.
Proof.
  intros [-> | [l' [em [-> [Hm _]]]]]; [constructor|].
  apply Forall_app. split; [exact Hm | constructor; [exact I | constructor]].
Qed.

Lemma group_keyed_rest rfc e n K l ps :
  contains e [c_eq] = true -> parse_elem e = Ok (n, K) -> K <> [] ->
  Forall is_map l ->
  Forall (fun p => rest_ok (fst p) /\
                   forall em em', full_match K em -> add_elems rfc (fst p) (snd p) false em = Ok em' -> full_match K em') ps ->
  forall m c1 c',
    mget n m = Some (NArr (l ++ [NMap c1])) -> full_match K c1 ->
    add_all_e rfc ps c1 = Ok c' ->
    add_all_e rfc (under e ps) m = Ok (mset n (NArr (l ++ [NMap c'])) m).
Proof.
  intros He Hpe HK Hl Hok. induction Hok as [|p ps [Hp Hpres] Hps IH]; intros m c1 c' Hg Hf Hadd.
  - cbn in Hadd. injection Hadd as <-. cbn. rewrite mset_get_same; auto.
  - cbn [add_all_e] in Hadd. apply bind_ok in Hadd. destruct Hadd as [c2 [H1 H2]].
    cbn [under map add_all_e fst snd]. rewrite (add_keyed rfc e n K); [|exact He|exact Hpe|exact Hp].
    cbn zeta. rewrite Hg.
    destruct (search_found K l c1 Hl Hf HK) as [c [Hs Hc]]. rewrite Hs. cbn [bind fst snd].
    assert (Hlt : (c <? List.length K)%nat = false) by (apply Nat.ltb_ge; exact Hc).
    rewrite Hlt, nth_error_last, H1. cbn [bind]. rewrite replace_nth_last.
    fold (under e ps). erewrite IH; [rewrite mset_mset; reflexivity | apply mget_mset_same | | exact H2].
    eapply Hpres; eauto.
Qed.

Lemma group_keyed rfc e n K ps :
  contains e [c_eq] = true -> parse_elem e = Ok (n, K) -> K <> [] ->
  Forall (fun p => rest_ok (fst p) /\
                   forall em em', full_match K em -> add_elems rfc (fst p) (snd p) false em = Ok em' -> full_match K em') ps ->
  full_match K (keymap_node K) ->
  forall m l c',
    (mget n m = None /\ l = [] \/ mget n m = Some (NArr l)) -> last_differs K l ->
    ps <> [] ->
    add_all_e rfc ps (keymap_node K) = Ok c' ->
    add_all_e rfc (under e ps) m = Ok (mset n (NArr (l ++ [NMap c'])) m).
Proof.
  intros He Hpe HK Hok Hf0 m l c' Hst Hld Hne Hadd.
  destruct ps as [|p ps]; [contradiction|].
  inversion Hok as [|? ? [Hp Hpres] Hps]; subst.
  cbn [add_all_e] in Hadd. apply bind_ok in Hadd. destruct Hadd as [c1 [H1 H2]].
  cbn [under map add_all_e fst snd]. rewrite (add_keyed rfc e n K); [|exact He|exact Hpe|exact Hp].
  cbn zeta.
  assert (HK0 : (0 <? List.length K)%nat = true) by (apply Nat.ltb_lt; destruct K; [contradiction | cbn; lia]).
  assert (Hmaps : Forall is_map l) by (apply last_differs_maps with (K := K); exact Hld).
  assert (Hf1 : full_match K c1) by (eapply Hpres; eauto).
  assert (Htail : forall m1, mget n m1 = Some (NArr (l ++ [NMap c1])) ->
                             add_all_e rfc (under e ps) m1 = Ok (mset n (NArr (l ++ [NMap c'])) m1)).
  { intros m1 Hm1. eapply group_keyed_rest; eauto. }
  destruct Hst as [[Hg ->] | Hg]; rewrite Hg.
  - cbn [search bind fst]. rewrite HK0, H1. cbn [bind]. rewrite mset_mset.
    fold (under e ps). rewrite Htail; [rewrite mset_mset; reflexivity | apply mget_mset_same].
  - destruct Hld as [-> | [l' [em [-> [Hm [Hap Hsd]]]]]].
    + cbn [search bind fst]. rewrite HK0, H1. cbn [bind].
      fold (under e ps). rewrite Htail; [rewrite mset_mset; reflexivity | apply mget_mset_same].
    + destruct (search_notfound K l' em Hm Hap Hsd) as [r [Hs Hr]]. rewrite Hs. cbn [bind]. rewrite Hr, HK0, H1. cbn [bind].
      fold (under e ps). rewrite Htail; [rewrite mset_mset; reflexivity | apply mget_mset_same].
Qed.

(* ------------------------------------------------------------------ what one path touches *)

Lemma classify_plain e : classify e = EPlain -> contains e [c_eq] = false.
Proof. unfold classify. destruct (contains e [c_eq]); [|reflexivity]. destruct (parse_elem e); discriminate. Qed.

Lemma classify_keyed e n K : classify e = EKeyed n K -> contains e [c_eq] = true /\ parse_elem e = Ok (n, K).
Proof.
  unfold classify. destruct (contains e [c_eq]); [|discriminate].
  destruct (parse_elem e) as [[n' K']| |]; try discriminate. cbn. intros [= -> ->]. auto.
Qed.

Lemma touch_plain rfc e rest v m m' :
  contains e [c_eq] = false -> rest_ok rest ->
  add_elems rfc (e :: rest) v false m = Ok m' -> forall k, k <> e -> mget k m' = mget k m.
Proof.
  intros He Hr H k Hk. rewrite add_plain in H; auto.
  destruct (mget e m) as [[g|c|l]|]; try discriminate;
    apply bind_ok in H; destruct H as [c1 [_ H]]; injection H as <-; apply mget_mset_other; exact Hk.
Qed.

Lemma touch_keyed rfc e n K rest v m m' :
  contains e [c_eq] = true -> parse_elem e = Ok (n, K) -> rest_ok rest ->
  add_elems rfc (e :: rest) v false m = Ok m' -> forall k, k <> n -> mget k m' = mget k m.
Proof.
  intros He Hp Hr H k Hk. rewrite (add_keyed rfc e n K) in H; auto. cbn zeta in H.
  assert (Hgen : forall m1 l,
    mget k m1 = mget k m ->
    bind (search K l 0 0 None) (fun r =>
      if (fst r <? List.length K)%nat
      then bind (add_elems rfc rest v false (keymap_node K)) (fun en => Ok (mset n (NArr (l ++ [NMap en])) m1))
      else match snd r with
           | Some i => match nth_error l i with
                       | Some (NMap em) => bind (add_elems rfc rest v false em) (fun en => Ok (mset n (NArr (replace_nth i (NMap en) l)) m1))
                       | _ => Panic
                       end
           | None => bind (add_elems rfc rest v true []) (fun _ => Ok m1)
           end) = Ok m' -> mget k m' = mget k m).
  { intros m1 l Hm1 Hb. apply bind_ok in Hb. destruct Hb as [r [_ Hb]].
    destruct (fst r <? List.length K)%nat.
    - apply bind_ok in Hb. destruct Hb as [en [_ Hb]]. injection Hb as <-. rewrite mget_mset_other; auto.
    - destruct (snd r) as [i|].
      + destruct (nth_error l i) as [[g|em|l0]|]; try discriminate.
        apply bind_ok in Hb. destruct Hb as [en [_ Hb]]. injection Hb as <-. rewrite mget_mset_other; auto.
      + apply bind_ok in Hb. destruct Hb as [en [_ Hb]]. injection Hb as <-. exact Hm1. }
  destruct (mget n m) as [[g|c|l]|]; try discriminate.
  - eapply Hgen; [|exact H]. reflexivity.
  - eapply Hgen; [|exact H]. apply mget_mset_other. exact Hk.
Qed.

(* ------------------------------------------------------------------ facts read off wf_trie *)

Lemma nodupb_NoDup l : nodupb l = true -> NoDup l.
Proof.
  induction l as [|x l IH]; cbn; [constructor|]. rewrite andb_true_iff, negb_true_iff.
  intros [H1 H2]. constructor; [apply mem_false_notin; exact H1 | auto].
Qed.

Lemma kget_In k v K : NoDup (map fst K) -> In (k, v) K -> kget k K = Some v.
Proof.
  unfold kget. induction K as [|[k' v'] K IH]; cbn; intros Hnd Hin; [destruct Hin|].
  inversion Hnd as [|? ? Hni Hnd']; subst. destruct Hin as [Hin|Hin].
  - injection Hin as -> ->. rewrite eqb_str_refl. reflexivity.
  - destruct (eqb_str k' k) eqn:E.
    + apply eqb_str_eq in E. subst k'. exfalso. apply Hni. apply (in_map fst) in Hin. exact Hin.
    + apply IH; auto.
Qed.

Lemma mget_keymap K k v : NoDup (map fst K) -> In (k, v) K -> mget k (keymap_node K) = Some (NLeaf (GStr v)).
Proof.
  induction K as [|[k' v'] K IH]; cbn; intros Hnd Hin; [destruct Hin|].
  inversion Hnd as [|? ? Hni Hnd']; subst. destruct Hin as [Hin|Hin].
  - injection Hin as -> ->. rewrite eqb_str_refl. reflexivity.
  - destruct (eqb_str k k') eqn:E.
    + apply eqb_str_eq in E. subst k'. exfalso. apply Hni. apply (in_map fst) in Hin. exact Hin.
    + apply IH; auto.
Qed.

Lemma mget_keymap_none K k : ~ In k (map fst K) -> mget k (keymap_node K) = None.
Proof.
  induction K as [|[k' v'] K IH]; cbn; intros Hni; [reflexivity|].
  destruct (eqb_str k k') eqn:E.
  - apply eqb_str_eq in E. subst. exfalso. apply Hni. left. reflexivity.
  - apply IH. intros H. apply Hni. right. exact H.
Qed.

Lemma full_match_keymap K : NoDup (map fst K) -> full_match K (keymap_node K).
Proof. intros Hnd k v Hin. eexists. split; [apply mget_keymap; eauto | reflexivity]. Qed.

(* the conditions wf_trie puts on one child, given the key map K0 of the enclosing entry *)
Definition child_ok (rfc : bool) (ks : list str -> list str) (sp : list str) (K0 : list (str * str)) (et : str * trie) : Prop :=
  match snd et with
  | TLeaf v =>
    match leaf_of rfc v with
    | LPanic => False
    | LNone => True
    | LVal g => forall kv, kget (fst et) K0 = Some kv -> conv_gov g = kv
    end
  | TNode _ =>
    match classify (fst et) with
    | EPlain => ~ In (fst et) (map fst K0) /\ wf_trie rfc ks (sp ++ [fst et]) [] (snd et) = true
    | EKeyed n K =>
      ~ In n (map fst K0) /\ K <> [] /\ NoDup (map fst K) /\ map fst K = ks (sp ++ [n]) /\
      wf_trie rfc ks (sp ++ [n]) K (snd et) = true
    | EBad => False
    end
  end.

Lemma wf_trie_node rfc ks sp K0 cs :
  wf_trie rfc ks sp K0 (TNode cs) = true ->
  cs <> [] /\ pairwise compat cs = true /\ Forall (child_ok rfc ks sp K0) cs.
Proof.
  cbn [wf_trie]. rewrite !andb_true_iff, negb_true_iff. intros [[H1 H2] H3].
  split; [destruct cs; [discriminate | discriminate]|]. split; [exact H2|].
  rewrite forallb_forall in H3. apply Forall_forall. intros et Hin. specialize (H3 et Hin).
  unfold child_ok. destruct (snd et) as [v|cs'].
  - destruct (leaf_of rfc v) as [|g|]; [exact I | | discriminate].
    intros kv Hk. rewrite Hk in H3. apply eqb_str_eq. exact H3.
  - destruct (classify (fst et)) as [|n K|]; [| |discriminate].
    + rewrite andb_true_iff, negb_true_iff in H3. destruct H3 as [H3 H4]. split; [apply mem_false_notin; exact H3 | exact H4].
    + rewrite !andb_true_iff, !negb_true_iff in H3. destruct H3 as [[[[H3 H4] H5] H6] H7].
      repeat split; auto.
      * apply mem_false_notin. exact H3.
      * destruct K; [discriminate | discriminate].
      * apply nodupb_NoDup. exact H5.
      * apply list_eqb_eq. exact H6.
Qed.

Lemma dfs_node_in cs p :
  In p (dfs (TNode cs)) -> exists e c q, In (e, c) cs /\ In q (dfs c) /\ p = (e :: fst q, snd q).
Proof.
  cbn [dfs]. rewrite in_flat_map. intros [[e c] [Hin Hp]]. apply in_map_iff in Hp.
  destruct Hp as [q [<- Hq]]. exists e, c, q. auto.
Qed.

Lemma dfs_node_paths_nonempty cs p : In p (dfs (TNode cs)) -> fst p <> [].
Proof. intros H. apply dfs_node_in in H. destruct H as [e [c [q [_ [_ ->]]]]]. discriminate. Qed.

Fixpoint tdepth (t : trie) : nat :=
  match t with
  | TLeaf _ => O
  | TNode cs => S (fold_right (fun et acc => Nat.max (tdepth (snd et)) acc) O cs)
  end.

Lemma tdepth_child e c cs : In (e, c) cs -> (tdepth c < tdepth (TNode cs))%nat.
Proof.
  cbn [tdepth]. induction cs as [|[e' c'] cs IH]; intros Hin; [destruct Hin|].
  cbn [fold_right snd]. destruct Hin as [Hin|Hin].
  - injection Hin as -> ->. lia.
  - specialize (IH Hin). lia.
Qed.

Lemma wf_dfs_nonempty rfc ks : forall n t sp K0,
  (tdepth t <= n)%nat -> wf_trie rfc ks sp K0 t = true -> dfs t <> [].
Proof.
  induction n as [|n IH]; intros t sp K0 Hd Hwf.
  - destruct t as [v|cs]; [discriminate | cbn in Hd; lia].
  - destruct t as [v|cs]; [discriminate|].
    apply wf_trie_node in Hwf. destruct Hwf as [Hne [_ Hall]].
    destruct cs as [|[e c] cs]; [contradiction|].
    inversion Hall as [|? ? Hc _]; subst. cbn [dfs flat_map fst snd].
    assert (Hdc : (tdepth c <= n)%nat) by (pose proof (tdepth_child e c ((e, c) :: cs) (or_introl eq_refl)); lia).
    unfold child_ok in Hc. cbn [fst snd] in Hc. destruct c as [v|cs'].
    + cbn. discriminate.
    + destruct (classify e) as [|n' K|]; [| |contradiction].
      * destruct Hc as [_ Hc]. specialize (IH _ _ _ Hdc Hc). destruct (dfs (TNode cs')); [contradiction | discriminate].
      * destruct Hc as [_ [_ [_ [_ Hc]]]]. specialize (IH _ _ _ Hdc Hc). destruct (dfs (TNode cs')); [contradiction | discriminate].
Qed.

(* ------------------------------------------------------------------ an entry keeps answering to its keys *)

Lemma full_match_mset_other K em k x :
  ~ In k (map fst K) -> full_match K em -> full_match K (mset k x em).
Proof.
  intros Hni Hf k' v Hin. destruct (Hf k' v Hin) as [y [Hy Hc]]. exists y. split; [|exact Hc].
  rewrite mget_mset_other; [exact Hy|]. intros ->. apply Hni. apply (in_map fst) in Hin. exact Hin.
Qed.

Lemma full_match_other K em em' name :
  ~ In name (map fst K) -> (forall k, k <> name -> mget k em' = mget k em) -> full_match K em -> full_match K em'.
Proof.
  intros Hni Hsame Hf k v Hin. destruct (Hf k v Hin) as [y [Hy Hc]]. exists y. split; [|exact Hc].
  rewrite Hsame; [exact Hy|]. intros ->. apply Hni. apply (in_map fst) in Hin. exact Hin.
Qed.

Lemma full_match_leaf K em e g :
  NoDup (map fst K) -> (forall kv, kget e K = Some kv -> conv_gov g = kv) ->
  full_match K em -> full_match K (mset e (NLeaf g) em).
Proof.
  intros Hnd Hag Hf k v Hin. destruct (str_eq_dec k e) as [->|Hne].
  - exists (NLeaf g). split; [apply mget_mset_same|]. cbn. apply Hag. apply kget_In; auto.
  - destruct (Hf k v Hin) as [y [Hy Hc]]. exists y. split; [|exact Hc]. rewrite mget_mset_other; auto.
Qed.

(* adding any path of a well-formed sub-trie to an entry leaves its key members as they read *)
Lemma fm_preserved rfc ks sp K cs p em em' :
  NoDup (map fst K) -> Forall (child_ok rfc ks sp K) cs ->
  In p (dfs (TNode cs)) -> normalb (fst p) = true ->
  full_match K em -> add_elems rfc (fst p) (snd p) false em = Ok em' -> full_match K em'.
Proof.
  intros Hnd Hall Hin Hnorm Hf Hadd.
  apply dfs_node_in in Hin. destruct Hin as [e [c [q [Hec [Hq ->]]]]]. cbn [fst snd] in *.
  rewrite Forall_forall in Hall. specialize (Hall _ Hec). unfold child_ok in Hall. cbn [fst snd] in Hall.
  destruct c as [v|cs'].
  - cbn in Hq. destruct Hq as [<-|[]]. cbn [fst snd] in *. rewrite add_leaf in Hadd.
    destruct (leaf_of rfc v) as [|g|]; [injection Hadd as <-; exact Hf | | discriminate].
    injection Hadd as <-. apply full_match_leaf; auto.
  - assert (Hqne : fst q <> []) by (eapply dfs_node_paths_nonempty; eauto).
    destruct (normalb_rest _ _ Hnorm Hqne) as [Hrest _].
    destruct (classify e) as [|n K'|] eqn:Ecl; [| |contradiction].
    + destruct Hall as [Hni _]. apply classify_plain in Ecl.
      eapply full_match_other; [exact Hni | | exact Hf]. intros k Hk. eapply touch_plain; eauto.
    + destruct Hall as [Hni _]. apply classify_keyed in Ecl. destruct Ecl as [He Hp].
      eapply full_match_other; [exact Hni | | exact Hf]. intros k Hk. eapply touch_keyed; eauto.
Qed.

(* ------------------------------------------------------------------ the rendered document, child by child *)

Definition put_child (rfc : bool) (et : str * trie) (m : amap) : amap :=
  match snd et with
  | TLeaf v => leaf_put rfc (fst et) v m
  | TNode _ =>
    match classify (fst et) with
    | EPlain => mset (fst et) (NMap (render_cs rfc (snd et) [])) m
    | EKeyed n K => arr_append n (NMap (render_cs rfc (snd et) (keymap_node K))) m
    | EBad => m
    end
  end.

Lemma render_cs_node rfc cs m : render_cs rfc (TNode cs) m = fold_left (fun m et => put_child rfc et m) cs m.
Proof. reflexivity. Qed.

Lemma mget_arr_append_other k n x m : k <> n -> mget k (arr_append n x m) = mget k m.
Proof. intros H. unfold arr_append. destruct (mget n m) as [[g|c|l]|]; apply mget_mset_other; exact H. Qed.

Lemma put_child_other rfc et m k : k <> child_name et -> mget k (put_child rfc et m) = mget k m.
Proof.
  unfold put_child, child_name. destruct (snd et) as [v|cs].
  - intros H. unfold leaf_put. destruct (leaf_of rfc v); [reflexivity | apply mget_mset_other; exact H | reflexivity].
  - destruct (classify (fst et)) as [|n K|]; intros H; [apply mget_mset_other; exact H | apply mget_arr_append_other; exact H | reflexivity].
Qed.

Lemma put_child_full_match rfc ks sp K et m :
  NoDup (map fst K) -> child_ok rfc ks sp K et -> full_match K m -> full_match K (put_child rfc et m).
Proof.
  intros Hnd Hok Hf. unfold child_ok in Hok. unfold put_child. destruct (snd et) as [v|cs].
  - unfold leaf_put. destruct (leaf_of rfc v) as [|g|]; [exact Hf | | exact Hf]. apply full_match_leaf; auto.
  - destruct (classify (fst et)) as [|n K'|]; [| |exact Hf].
    + destruct Hok as [Hni _]. apply full_match_mset_other; auto.
    + destruct Hok as [Hni _]. eapply full_match_other; [exact Hni | | exact Hf].
      intros k Hk. apply mget_arr_append_other. exact Hk.
Qed.

Lemma render_full_match rfc ks sp K cs :
  NoDup (map fst K) -> Forall (child_ok rfc ks sp K) cs ->
  full_match K (render_cs rfc (TNode cs) (keymap_node K)).
Proof.
  intros Hnd Hall. rewrite render_cs_node.
  assert (Hgen : forall m, full_match K m -> full_match K (fold_left (fun m et => put_child rfc et m) cs m)).
  { induction Hall as [|et cs Het Hcs IH]; intros m Hm; cbn; [exact Hm|].
    apply IH. eapply put_child_full_match; eauto. }
  apply Hgen. apply full_match_keymap. exact Hnd.
Qed.

(* ------------------------------------------------------------------ two different key maps over the same key names *)

Lemma kv_differs Ka : forall Kb,
  map fst Ka = map fst Kb -> kv_eqb Ka Kb = false ->
  exists k va vb, In (k, va) Ka /\ In (k, vb) Kb /\ va <> vb.
Proof.
  induction Ka as [|[k va] Ka IH]; intros [|[k' vb] Kb]; cbn; try discriminate.
  intros [= -> Hn] He. destruct (eqb_str va vb) eqn:Ev.
  - rewrite eqb_str_refl in He. cbn in He. destruct (IH Kb Hn He) as [k0 [a [b [H1 [H2 H3]]]]].
    exists k0, a, b. auto.
  - exists k', va, vb. apply eqb_str_neq in Ev. auto.
Qed.

Lemma In_fst_ex {A C} (k : A) (K : list (A * C)) : In k (map fst K) -> exists v, In (k, v) K.
Proof. intros H. apply in_map_iff in H. destruct H as [[k' v] [<- Hin]]. exists v. exact Hin. Qed.

Lemma differs_after Ka Kb em :
  map fst Ka = map fst Kb -> kv_eqb Ka Kb = false -> full_match Ka em ->
  all_present Kb em /\ some_differs Kb em.
Proof.
  intros Hn He Hf. split.
  - intros k v Hin. apply (in_map fst) in Hin. cbn in Hin. rewrite <- Hn in Hin.
    apply In_fst_ex in Hin. destruct Hin as [v' Hin]. destruct (Hf k v' Hin) as [x [Hx _]]. exists x. exact Hx.
  - destruct (kv_differs Ka Kb Hn He) as [k [va [vb [H1 [H2 H3]]]]].
    destruct (Hf k va H1) as [x [Hx Hc]]. exists k, vb, x. repeat split; auto. congruence.
Qed.

(* ------------------------------------------------------------------ the main induction *)

(* what the member map must look like just before a child is rendered into it *)
Definition ready (m : amap) (et : str * trie) : Prop :=
  match snd et with
  | TLeaf _ => True
  | TNode _ =>
    match classify (fst et) with
    | EPlain => mget (fst et) m = None
    | EKeyed n K => exists l, (mget n m = None /\ l = [] \/ mget n m = Some (NArr l)) /\ last_differs K l
    | EBad => False
    end
  end.

Lemma mget_arr_append n x m l :
  (mget n m = None /\ l = [] \/ mget n m = Some (NArr l)) ->
  arr_append n x m = mset n (NArr (l ++ [x])) m.
Proof. unfold arr_append. intros [[-> ->] | ->]; reflexivity. Qed.

Lemma ready_after rfc ks sp K0 et et' m :
  child_ok rfc ks sp K0 et -> child_ok rfc ks sp K0 et' -> compat et et' = true ->
  ready m et -> ready m et' -> ready (put_child rfc et m) et'.
Proof.
  intros Hok Hok' Hc Hr Hr'. unfold compat in Hc.
  destruct (eqb_str (child_name et) (child_name et')) eqn:En.
  - apply eqb_str_eq in En. unfold ready, child_ok, child_name, put_child in *.
    destruct (snd et) as [v|cs]; [destruct (snd et'); discriminate|].
    destruct (snd et') as [v'|cs']; [discriminate|].
    destruct (classify (fst et)) as [|n K|] eqn:E1; try discriminate.
    destruct (classify (fst et')) as [|n' K'|] eqn:E2; try discriminate.
    subst n'. apply negb_true_iff in Hc.
    destruct Hr as [l [Hst Hld]].
    destruct Hok as [_ [_ [Hnd [Hks Hwf]]]]. destruct Hok' as [_ [_ [_ [Hks' _]]]].
    apply wf_trie_node in Hwf. destruct Hwf as [_ [_ Hall]].
    pose proof (render_full_match rfc ks (sp ++ [n]) K cs Hnd Hall) as Hfm.
    exists (l ++ [NMap (render_cs rfc (TNode cs) (keymap_node K))]). split.
    + right. rewrite (mget_arr_append n _ m l Hst). apply mget_mset_same.
    + right. eexists l, _. split; [reflexivity|]. split; [eapply last_differs_maps; eauto|].
      apply (differs_after K K'); auto. congruence.
  - apply eqb_str_neq in En.
    assert (Hsame : mget (child_name et') (put_child rfc et m) = mget (child_name et') m)
      by (apply put_child_other; congruence).
    unfold ready, child_name in *. destruct (snd et') as [v'|cs']; [exact I|].
    destruct (classify (fst et')) as [|n' K'|]; [congruence | | exact Hr'].
    destruct Hr' as [l Hl]. exists l. rewrite Hsame. exact Hl.
Qed.

Lemma normal_under e ps :
  Forall (fun p => normalb (fst p) = true) (under e ps) ->
  Forall (fun p => fst p <> []) ps ->
  Forall (fun p => rest_ok (fst p)) ps /\ Forall (fun p => normalb (fst p) = true) ps.
Proof.
  intros H Hne. induction ps as [|p ps IH]; [split; constructor|].
  cbn in H. inversion H as [|? ? H1 H2]; subst. inversion Hne as [|? ? H3 H4]; subst.
  cbn [fst] in H1. destruct (normalb_rest _ _ H1 H3) as [Ha Hb].
  destruct (IH H2 H4) as [Hc Hd]. split; constructor; auto.
Qed.

Section Main.
  Context (rfc : bool) (ks : list str -> list str).

  Definition build_ok (n : nat) : Prop :=
    forall t sp K0,
      (tdepth t <= n)%nat -> wf_trie rfc ks sp K0 t = true -> NoDup (map fst K0) ->
      Forall (fun p => normalb (fst p) = true) (dfs t) ->
      add_all_e rfc (dfs t) (keymap_node K0) = Ok (render_cs rfc t (keymap_node K0)).

  Lemma child_step n sp K0 e c m :
    build_ok n -> (tdepth c <= n)%nat ->
    child_ok rfc ks sp K0 (e, c) -> ready m (e, c) ->
    Forall (fun p => normalb (fst p) = true) (under e (dfs c)) ->
    add_all_e rfc (under e (dfs c)) m = Ok (put_child rfc (e, c) m).
  Proof.
    intros IH Hd Hok Hr Hnorm. unfold child_ok, ready, put_child in *. cbn [fst snd] in *.
    destruct c as [v|cs].
    - cbn [dfs under map add_all_e fst snd]. rewrite add_leaf. unfold leaf_put.
      destruct (leaf_of rfc v); [reflexivity | reflexivity | contradiction].
    - assert (Hne : Forall (fun p => fst p <> []) (dfs (TNode cs))).
      { apply Forall_forall. intros p Hp. eapply dfs_node_paths_nonempty; eauto. }
      destruct (normal_under _ _ Hnorm Hne) as [Hrest Hnorm'].
      destruct (classify e) as [|nm K|] eqn:Ecl; [| |contradiction].
      + destruct Hok as [_ Hwf]. apply classify_plain in Ecl.
        pose proof (IH (TNode cs) (sp ++ [e]) [] Hd Hwf (NoDup_nil _) Hnorm') as Hsub. cbn [keymap_node map] in Hsub.
        eapply group_plain; eauto.
        eapply wf_dfs_nonempty; eauto.
      + destruct Hok as [_ [HK [Hnd [_ Hwf]]]]. apply classify_keyed in Ecl. destruct Ecl as [He Hp].
        pose proof (IH (TNode cs) (sp ++ [nm]) K Hd Hwf Hnd Hnorm') as Hsub.
        destruct Hr as [l [Hst Hld]].
        rewrite (mget_arr_append nm _ m l Hst).
        eapply group_keyed; eauto.
        * pose proof Hwf as Hwf'. apply wf_trie_node in Hwf'. destruct Hwf' as [_ [_ Hall]].
          apply Forall_forall. intros p Hpin. split.
          -- rewrite Forall_forall in Hrest. apply Hrest. exact Hpin.
          -- intros em em' Hfm Hadd. eapply fm_preserved; eauto.
             rewrite Forall_forall in Hnorm'. apply Hnorm'. exact Hpin.
        * apply full_match_keymap. exact Hnd.
        * eapply wf_dfs_nonempty; eauto.
  Qed.

  Lemma children_step n sp K0 cs :
    build_ok n -> (forall e c, In (e, c) cs -> (tdepth c <= n)%nat) ->
    Forall (child_ok rfc ks sp K0) cs -> pairwise compat cs = true ->
    forall m, Forall (ready m) cs ->
    Forall (fun p => normalb (fst p) = true) (dfs (TNode cs)) ->
    add_all_e rfc (dfs (TNode cs)) m = Ok (fold_left (fun m et => put_child rfc et m) cs m).
  Proof.
    intros IH Hd Hall. induction Hall as [|[e c] cs Hok Hcs IHcs]; intros Hpw m Hr Hnorm; [reflexivity|].
    cbn [pairwise] in Hpw. apply andb_true_iff in Hpw. destruct Hpw as [Hc1 Hpw].
    inversion Hr as [|? ? Hr1 Hr2]; subst.
    change (dfs (TNode ((e, c) :: cs))) with (under e (dfs c) ++ dfs (TNode cs)) in *.
    apply Forall_app in Hnorm. destruct Hnorm as [Hn1 Hn2].
    rewrite add_all_e_app.
    rewrite (child_step n sp K0 e c m IH); auto; [|apply (Hd e c); left; reflexivity].
    cbn [bind fold_left]. apply IHcs; auto.
    - intros e' c' Hin. apply (Hd e' c'). right. exact Hin.
    - rewrite forallb_forall in Hc1. apply Forall_forall. intros et' Hin'.
      rewrite Forall_forall in Hcs, Hr2.
      eapply ready_after; eauto.
  Qed.

  Lemma ready_initial sp K0 et :
    child_ok rfc ks sp K0 et -> ready (keymap_node K0) et.
  Proof.
    unfold child_ok, ready. destruct (snd et) as [v|cs]; [auto|].
    destruct (classify (fst et)) as [|n K|]; [| |auto].
    - intros [Hni _]. apply mget_keymap_none. exact Hni.
    - intros [Hni _]. exists []. split; [left; split; [apply mget_keymap_none; exact Hni | reflexivity] | left; reflexivity].
  Qed.

  Lemma build_ok_all : forall n, build_ok n.
  Proof.
    induction n as [|n IH]; intros t sp K0 Hd Hwf Hnd Hnorm.
    - destruct t as [v|cs]; [discriminate | cbn in Hd; lia].
    - destruct t as [v|cs]; [discriminate|].
      pose proof Hwf as Hwf'. apply wf_trie_node in Hwf'. destruct Hwf' as [_ [Hpw Hall]].
      rewrite render_cs_node. eapply children_step; eauto.
      + intros e c Hin. pose proof (tdepth_child e c cs Hin). lia.
      + apply Forall_forall. intros et Hin. eapply ready_initial. rewrite Forall_forall in Hall. apply Hall. exact Hin.
  Qed.
End Main.

(* BuildTree on the depth-first enumeration of a well-formed trie yields the rendered document *)
Theorem build_render rfc ks t :
  wf_trie rfc ks [] [] t = true ->
  Forall (fun p => normalb (fst p) = true) (dfs t) ->
  add_all_e rfc (dfs t) [] = Ok (render_cs rfc t []).
Proof.
  intros Hwf Hnorm.
  apply (build_ok_all rfc ks (tdepth t) t [] [] (le_n _) Hwf (NoDup_nil _) Hnorm).
Qed.

(* ------------------------------------------------------------------ from path/value sets (strings) *)

Lemma tv_eqb_eq a b : tv_eqb a b = true -> a = b.
Proof.
  destruct a as [ta ba oa], b as [tb bb ob]. unfold tv_eqb. cbn [tv_type tv_bytes tv_opts].
  rewrite !andb_true_iff. intros [[H1 H2] H3]. apply N.eqb_eq in H1. apply eqb_str_eq in H2. subst.
  f_equal. revert ob H3. induction oa as [|x oa IH]; intros [|y ob]; try discriminate; [reflexivity|].
  rewrite andb_true_iff. intros [H4 H5]. apply Z.eqb_eq in H4. subst. f_equal. apply IH. exact H5.
Qed.

Lemma paths_eqb_eq a b : paths_eqb a b = true -> a = b.
Proof.
  revert b. induction a as [|[pa va] a IH]; intros [|[pb vb] b]; cbn; try discriminate; [reflexivity|].
  rewrite !andb_true_iff. intros [[H1 H2] H3]. apply list_eqb_eq in H1. apply tv_eqb_eq in H2. subst.
  f_equal. apply IH. exact H3.
Qed.

Theorem build_tree_render rfc pvs :
  wf_set rfc pvs = true ->
  build_tree rfc pvs = Ok (render rfc (trie_of (live_paths pvs))).
Proof.
  unfold wf_set. destruct (live_paths pvs) as [|p0 lp0] eqn:Elp.
  { intros _. unfold build_tree. rewrite add_all_live. fold (live_paths pvs). rewrite Elp. reflexivity. }
  rewrite <- Elp. clear Elp p0 lp0.
  rewrite !andb_true_iff. intros [[Hnorm Hdfs] Hwf].
  apply paths_eqb_eq in Hdfs.
  unfold build_tree. rewrite add_all_live. fold (live_paths pvs). rewrite <- Hdfs at 1.
  rewrite (build_render rfc (schema_of (live_paths pvs))); [reflexivity | exact Hwf|].
  rewrite Hdfs. apply Forall_forall. rewrite forallb_forall in Hnorm. exact Hnorm.
Qed.

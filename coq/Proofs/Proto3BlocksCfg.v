(* Proto3BlocksCfg: the Committed-cursor writes of commitChange that do not complete a commit preserve FInv (second layer of the frontier invariant, Proto3BlocksBase). *)
From Coq Require Import List NArith Bool Arith Lia.
From OC Require Import Model.Proto3 Spec.Tla3 Proofs.Proto3Proofs Proofs.Proto3OrderBase Proofs.Proto3BlocksBase.
Import ListNotations.
Open Scope N_scope.

Lemma F_cfg_C1 g n cm ap i t :
  SInv g n cm ap -> FInv g cm ap -> g i = Some t ->
  cc t = 0 ->
  k_change cm + 1 = i ->
  k_target cm <> i ->
  k_index cm = k_target cm ->
  (forall j p, g j = Some p -> j = k_index cm /\ k_target cm = k_index cm -> 2 <= cc p) ->
  FInv g 
    {| k_index := k_index cm; k_ordinal := k_ordinal cm; k_revision := k_revision cm; k_target := i; k_change := k_change cm |} ap.
Proof.
  intros HS HF Hi G1 G2 G3 G4 G5.
  finv_by prj HS HF g ltac:(inst_gate G5 g).
Qed.

Lemma F_cfg_C5 g n cm ap i t :
  SInv g n cm ap -> FInv g cm ap -> g i = Some t ->
  cc t = 5 ->
  k_change cm < i ->
  FInv g 
    {| k_index := i; k_ordinal := k_ordinal cm; k_revision := k_revision cm; k_target := k_target cm; k_change := i |} ap.
Proof.
  intros HS HF Hi G1 G2.
  finv_by prj HS HF g idtac.
Qed.


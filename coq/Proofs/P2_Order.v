(* Order and agreement invariants of the v2 protocol model (all schedules, all crash prefixes):
     - the phases of a proposal are ordered (Commit needs Validate done, Apply needs Commit done, Abort excludes
       Commit and Apply), a phase that is done on a transaction is done on every proposal it lists, every listed
       proposal exists, every existing proposal is listed, a failed validation is recorded on the transaction
       together with the Abort phase;
     - monotonicity of every step: the proposal list of a transaction, once set, never changes, the details of a
       proposal never change, the targets of a transaction never change, phases only move forward;
     - what one invocation of the proposal reconciler can write ([pcase] / [pwrite]: one pass over its branches,
       reused by every step theorem);
   and the theorems of C01 / C05 that follow.  Pattern of Proofs/P2Phases.v: invariant record, per-effect lemmas,
   [chain] over every prefix of an invocation's effects. *)
From stdpp Require Import gmap.
From RecordUpdate Require Import RecordUpdate.
From Coq Require Import NArith Lia.
From OC Require Import Model.Proto2 Proofs.P2Base Proofs.P2Phases.
Open Scope N_scope.

Section Order.
  Context {V Ch Req D : Type}.
  Context (candidate : V -> Ch -> V) (candidate_rb : V -> Ch -> V) (rollback_of : V -> Ch -> Ch)
          (overlay : V -> V -> V) (commit_merge : N -> N -> V -> V -> Ch -> V)
          (payload : N -> V -> Ch -> option Req) (record_applied : N -> N -> V -> V -> V -> Ch -> V)
          (touched : N -> V -> Ch -> V) (restore : V -> V -> V)
          (resync_payload : V -> list (option Req)) (doc_ok : V -> bool)
          (dev_apply : D -> Req -> D) (stamp : N -> Ch -> Ch) (v_empty : V) (d_empty : D) (ch_empty : Ch).

  Notation world := (@world V Ch Req D).
  Notation eff := (@eff V Ch Req).
  Notation txn := (@txn Ch).
  Notation prop := (@prop Ch).
  Notation config := (@config V).
  Notation apply_eff := (@apply_eff V Ch Req D dev_apply d_empty).
  Notation rec_tx := (@rec_tx V Ch Req D stamp).
  Notation rec_prop := (@rec_prop V Ch Req D candidate candidate_rb rollback_of overlay commit_merge payload record_applied
                                  touched restore doc_ok v_empty d_empty ch_empty).
  Notation rec_cfg := (@rec_cfg V Ch Req D overlay restore resync_payload v_empty d_empty).
  Notation rec_master := (@rec_master V Ch Req D overlay restore v_empty).
  Notation rec_conn := (@rec_conn V Ch Req D).
  Notation reconcile := (@reconcile V Ch Req D candidate candidate_rb rollback_of overlay commit_merge payload record_applied
                                    touched restore resync_payload doc_ok stamp v_empty d_empty ch_empty).
  Notation step := (@step V Ch Req D candidate candidate_rb rollback_of overlay commit_merge payload record_applied
                          touched restore resync_payload doc_ok dev_apply stamp v_empty d_empty ch_empty).
  Notation reach := (@reach V Ch Req D candidate candidate_rb rollback_of overlay commit_merge payload record_applied
                            touched restore resync_payload doc_ok dev_apply stamp v_empty d_empty ch_empty).
  Notation chain := (@chain V Ch Req D dev_apply d_empty).
  Notation view := (@view V overlay).
  Notation aview := (@aview V overlay).

  (** * Forward order on phases *)
  Definition ph_le (a b : option ph) : bool :=
    match a, b with
    | None, _ => true
    | Some Doing, Some _ => true
    | Some Done, Some Done => true
    | Some Failed, Some Failed => true
    | _, _ => false
    end.

  Lemma ph_le_refl a : ph_le a a = true.
  Proof. destruct a as [[]|]; reflexivity. Qed.
  Lemma ph_le_trans a b c : ph_le a b = true -> ph_le b c = true -> ph_le a c = true.
  Proof. destruct a as [[]|], b as [[]|], c as [[]|]; cbn; intros; congruence. Qed.
  Lemma ph_le_done b : ph_le (Some Done) b = true -> b = Some Done.
  Proof. destruct b as [[]|]; cbn; intros; congruence. Qed.
  Lemma ph_le_failed b : ph_le (Some Failed) b = true -> b = Some Failed.
  Proof. destruct b as [[]|]; cbn; intros; congruence. Qed.
  Lemma ph_le_none a : ph_le a None = true -> a = None.
  Proof. destruct a as [[]|]; cbn; intros; congruence. Qed.

  (* a proposal record moved forward: details kept, every phase forward, a recorded validation failure kept *)
  Definition p_le (P P' : prop) : Prop :=
    p_details P' = p_details P /\
    ph_le (p_init P) (p_init P') = true /\ ph_le (p_validate P) (p_validate P') = true /\
    ph_le (p_commit P) (p_commit P') = true /\ ph_le (p_apply P) (p_apply P') = true /\
    ph_le (p_abort P) (p_abort P') = true /\
    (p_validate P = Some Failed -> p_vfail P' = p_vfail P).

  Lemma p_le_refl P : p_le P P.
  Proof. unfold p_le. rewrite !ph_le_refl. auto 10. Qed.
  Lemma p_le_trans P Q R : p_le P Q -> p_le Q R -> p_le P R.
  Proof.
    intros (A0 & A1 & A2 & A3 & A4 & A5 & A6) (B0 & B1 & B2 & B3 & B4 & B5 & B6).
    repeat split; try (eapply ph_le_trans; eassumption); [congruence|].
    intros Hf. rewrite B6, A6; auto. rewrite Hf in A2. apply ph_le_failed in A2. exact A2.
  Qed.

  (* the targets of a transaction: same change targets / same rollback index *)
  Definition tdet_same (a b : @tdetails Ch) : Prop :=
    match a, b with
    | TChange x, TChange y => map fst x = map fst y
    | TRollback x, TRollback y => x = y
    | _, _ => False
    end.
  Lemma tdet_same_refl a : tdet_same a a.
  Proof. destruct a; reflexivity. Qed.
  Lemma tdet_same_trans a b c : tdet_same a b -> tdet_same b c -> tdet_same a c.
  Proof. destruct a, b, c; cbn; intros; try contradiction; congruence. Qed.

  Definition t_le (T T' : txn) : Prop :=
    tdet_same (t_details T) (t_details T') /\
    (forall tg, t_props T = Some tg -> t_props T' = Some tg) /\
    ph_le (t_init T) (t_init T') = true /\ ph_le (t_validate T) (t_validate T') = true /\
    ph_le (t_commit T) (t_commit T') = true /\ ph_le (t_apply T) (t_apply T') = true /\
    ph_le (t_abort T) (t_abort T') = true.
  Lemma t_le_refl T : t_le T T.
  Proof. unfold t_le. rewrite !ph_le_refl. split; [apply tdet_same_refl|]. auto 10. Qed.
  Lemma t_le_trans P Q R : t_le P Q -> t_le Q R -> t_le P R.
  Proof.
    intros (A0 & A1 & A2 & A3 & A4 & A5 & A6) (B0 & B1 & B2 & B3 & B4 & B5 & B6).
    repeat split; try (eapply ph_le_trans; eassumption); [eapply tdet_same_trans; eassumption|auto].
  Qed.

  Definition mono (w w' : world) : Prop :=
    (forall i T, txs w !! i = Some T -> exists T', txs w' !! i = Some T' /\ t_le T T') /\
    (forall k P, props w !! k = Some P -> exists P', props w' !! k = Some P' /\ p_le P P') /\
    (forall t, is_Some (cfgs w !! t) -> is_Some (cfgs w' !! t)).
  Lemma mono_refl w : mono w w.
  Proof. repeat split; eauto using t_le_refl, p_le_refl. Qed.
  Lemma mono_trans a b c : mono a b -> mono b c -> mono a c.
  Proof.
    intros (A1 & A2 & A3) (B1 & B2 & B3). repeat split.
    - intros i T HT. destruct (A1 _ _ HT) as (T' & HT' & L1). destruct (B1 _ _ HT') as (T'' & HT'' & L2).
      eauto using t_le_trans.
    - intros k P HP. destruct (A2 _ _ HP) as (P' & HP' & L1). destruct (B2 _ _ HP') as (P'' & HP'' & L2).
      eauto using p_le_trans.
    - auto.
  Qed.

  Lemma cfgs_keep (w : world) (e : eff) t : is_Some (cfgs w !! t) -> is_Some (cfgs (apply_eff w e) !! t).
  Proof.
    intros Hs. rewrite cfgs_apply_eff.
    assert (Hins : forall x (c : config), is_Some (<[x := c]> (cfgs w) !! t)).
    { intros x c. destruct (decide (x = t)) as [->|Hne]; [rewrite lookup_insert; eauto|rewrite lookup_insert_ne by exact Hne; exact Hs]. }
    destruct e as [| | |t0 c0|t0 c0|t0 v0|t0 v0| | |]; try exact Hs; destruct (cfgs w !! t0); try exact Hs; apply Hins.
  Qed.

  (* one effect moves the world forward when it overwrites records by later ones *)
  Definition eff_fwd (w : world) (e : eff) : Prop :=
    match e with
    | EPutTx i T' => exists T, txs w !! i = Some T /\ t_le T T'
    | EPutProp k P' => exists P, props w !! k = Some P /\ p_le P P'
    | _ => True
    end.
  Lemma mono_eff (w : world) e : eff_fwd w e -> mono w (apply_eff w e).
  Proof.
    intros Hf. repeat split.
    - intros i T HT. rewrite txs_apply_eff. destruct e; eauto using t_le_refl.
      destruct Hf as (T0 & HT0 & Hle). destruct (decide (i0 = i)) as [->|Hne].
      + rewrite lookup_insert. rewrite HT in HT0. injection HT0 as <-. eauto.
      + rewrite lookup_insert_ne by exact Hne. eauto using t_le_refl.
    - intros k P HP. rewrite props_apply_eff. destruct e; eauto using p_le_refl.
      + destruct (props w !! k0) eqn:Ek; [eauto using p_le_refl|].
        destruct (decide (k0 = k)) as [->|Hne]; [congruence|]. rewrite lookup_insert_ne by exact Hne. eauto using p_le_refl.
      + destruct Hf as (P0 & HP0 & Hle). destruct (decide (k0 = k)) as [->|Hne].
        * rewrite lookup_insert. rewrite HP in HP0. injection HP0 as <-. eauto.
        * rewrite lookup_insert_ne by exact Hne. eauto using p_le_refl.
    - intros t. apply cfgs_keep.
  Qed.

  (** * The invariant *)
  (* phase order of a proposal *)
  Definition pordb (i v c a ab : option ph) (vf : bool) : bool :=
    imp (some v) (is_ph i Done) && imp (some c) (is_ph v Done) && imp (some a) (is_ph c Done) &&
    imp (some ab) (is_none c && is_none a) &&
    negb (is_ph i Failed) && negb (is_ph c Failed) && negb (is_ph ab Failed) && imp (is_ph v Failed) vf.
  Definition p_ord (P : prop) : Prop :=
    pordb (p_init P) (p_validate P) (p_commit P) (p_apply P) (p_abort P) (some (p_vfail P)) = true.

  (* more about a transaction: Commit and Abort never fail; a failed Validate means FAILED and aborting *)
  Definition twf2b (v c ab : option ph) (failed : bool) : bool :=
    negb (is_ph c Failed) && negb (is_ph ab Failed) && imp (is_ph v Failed) (failed && some ab).
  Definition tx_wf2 (T : txn) : Prop :=
    twf2b (t_validate T) (t_commit T) (t_abort T) (bool_decide (t_state T = TFailed)) = true.

  (* a phase that is done on the transaction is done on the proposal *)
  Definition agree (T : txn) (P : prop) : Prop :=
    (t_init T = Some Done -> p_init P = Some Done) /\
    (t_validate T = Some Done -> p_validate P = Some Done) /\
    (t_commit T = Some Done -> p_commit P = Some Done) /\
    (t_apply T = Some Done -> p_apply P = Some Done) /\
    (t_abort T = Some Done -> p_abort P = Some Done).

  (* the targets a transaction creates proposals for *)
  Definition tgts_of (tm : gmap N txn) (T : txn) : list N :=
    match t_details T with
    | TChange chs => map fst chs
    | TRollback ri => match tm !! ri with
                      | Some R => match t_details R with TChange chs => map fst chs | TRollback _ => [] end
                      | None => []
                      end
    end.

  Record K (w : world) : Prop := {
    k_J : J w;
    k_tx2 : forall i T, txs w !! i = Some T -> tx_wf2 T;
    k_pord : forall k P, props w !! k = Some P -> p_ord P;
    k_agree : forall i T tg t, txs w !! i = Some T -> t_props T = Some tg -> In t tg ->
              exists P, props w !! (t, i) = Some P /\ agree T P;
    k_exist : forall t i P, props w !! (t, i) = Some P ->
              exists T, txs w !! i = Some T /\ In t (tgts_of (txs w) T);
    k_tp : forall i T tg, txs w !! i = Some T -> t_props T = Some tg ->
           tg = tgts_of (txs w) T /\ (forall ri, t_details T = TRollback ri -> is_Some (txs w !! ri));
    k_vfail : forall i T, txs w !! i = Some T -> t_validate T = Some Failed ->
              exists t P, props w !! (t, i) = Some P /\ p_validate P = Some Failed /\ t_failure T = p_vfail P;
    k_cfg : forall t i P, props w !! (t, i) = Some P -> p_init P = Some Done -> is_Some (cfgs w !! t) }.

  Lemma tgts_same_det tm (T T' : txn) : tdet_same (t_details T) (t_details T') -> tgts_of tm T' = tgts_of tm T.
  Proof.
    unfold tgts_of, tdet_same. destruct (t_details T), (t_details T'); intros H; try contradiction.
    - symmetry. exact H.
    - subst. reflexivity.
  Qed.

  Lemma tgts_insert (tm : gmap N txn) i (T T' X : txn) :
    tm !! i = Some T -> tdet_same (t_details T) (t_details T') -> tgts_of (<[i := T']> tm) X = tgts_of tm X.
  Proof.
    intros HT Hd. unfold tgts_of. destruct (t_details X) as [chs|ri]; [reflexivity|].
    destruct (decide (i = ri)) as [->|Hne].
    - rewrite lookup_insert, HT. unfold tdet_same in Hd.
      destruct (t_details T), (t_details T'); try contradiction; [symmetry; exact Hd|reflexivity].
    - rewrite lookup_insert_ne by exact Hne. reflexivity.
  Qed.

  Lemma insert_keeps_some {A} (tm : gmap N A) i x r : is_Some (tm !! r) -> is_Some (<[i := x]> tm !! r).
  Proof. intros H. destruct (decide (i = r)) as [->|Hne]; [rewrite lookup_insert; eauto|rewrite lookup_insert_ne by exact Hne; exact H]. Qed.

  (** * Per-effect preservation *)
  Lemma K_put_tx (w : world) i (T T' : txn) :
    K w -> txs w !! i = Some T -> tx_wf T' -> tx_grows T T' -> tx_wf2 T' ->
    tdet_same (t_details T) (t_details T') ->
    (forall tg, t_props T' = Some tg ->
       (tg = tgts_of (txs w) T /\ (forall ri, t_details T = TRollback ri -> is_Some (txs w !! ri))) /\
       forall t, In t tg -> exists P, props w !! (t, i) = Some P /\ agree T' P) ->
    (t_validate T' = Some Failed ->
       exists t P, props w !! (t, i) = Some P /\ p_validate P = Some Failed /\ t_failure T' = p_vfail P) ->
    K (apply_eff w (EPutTx i T')).
  Proof.
    intros HK HT Hwf Hg Hwf2 Hd Hp Hv. destruct HK as [HJ H2 Ho Ha He Htp Hvf Hc]. split; cbn.
    - apply (J_put_tx dev_apply d_empty w i T T'); assumption.
    - intros j T0. destruct (decide (i = j)) as [->|Hne].
      + rewrite lookup_insert. intros [= <-]. exact Hwf2.
      + rewrite lookup_insert_ne by exact Hne. apply H2.
    - exact Ho.
    - intros j T0 tg t. destruct (decide (i = j)) as [->|Hne].
      + rewrite lookup_insert. intros [= <-] Htg Hin. destruct (Hp _ Htg) as [_ Hx]. apply Hx. exact Hin.
      + rewrite lookup_insert_ne by exact Hne. apply Ha.
    - intros t j P HP. destruct (He _ _ _ HP) as (T0 & HT0 & Hin). destruct (decide (i = j)) as [->|Hne].
      + exists T'. rewrite lookup_insert. split; [reflexivity|]. rewrite HT in HT0. injection HT0 as <-.
        rewrite (tgts_insert _ _ T T') by assumption. rewrite (tgts_same_det _ T T') by assumption. exact Hin.
      + exists T0. rewrite lookup_insert_ne by exact Hne. split; [exact HT0|].
        rewrite (tgts_insert _ _ T T') by assumption. exact Hin.
    - intros j T0 tg. destruct (decide (i = j)) as [->|Hne].
      + rewrite lookup_insert. intros [= <-] Htg. destruct (Hp _ Htg) as [[Heq Hrb] _]. split.
        * rewrite (tgts_insert _ _ T T') by assumption. rewrite (tgts_same_det _ T T') by assumption. exact Heq.
        * intros ri Hri. apply insert_keeps_some. apply Hrb. unfold tdet_same in Hd. rewrite Hri in Hd.
          destruct (t_details T); [contradiction|]. subst. reflexivity.
      + rewrite lookup_insert_ne by exact Hne. intros HT0 Htg. destruct (Htp _ _ _ HT0 Htg) as [Heq Hrb]. split.
        * rewrite (tgts_insert _ _ T T') by assumption. exact Heq.
        * intros ri Hri. apply insert_keeps_some. apply Hrb. exact Hri.
    - intros j T0. destruct (decide (i = j)) as [->|Hne].
      + rewrite lookup_insert. intros [= <-]. exact Hv.
      + rewrite lookup_insert_ne by exact Hne. apply Hvf.
    - exact Hc.
  Qed.

  Lemma agree_le (T : txn) (P P' : prop) : agree T P -> p_le P P' -> agree T P'.
  Proof.
    intros (A1 & A2 & A3 & A4 & A5) (B0 & B1 & B2 & B3 & B4 & B5 & B6).
    repeat split; intros Hd.
    - rewrite (A1 Hd) in B1. apply ph_le_done in B1. exact B1.
    - rewrite (A2 Hd) in B2. apply ph_le_done in B2. exact B2.
    - rewrite (A3 Hd) in B3. apply ph_le_done in B3. exact B3.
    - rewrite (A4 Hd) in B4. apply ph_le_done in B4. exact B4.
    - rewrite (A5 Hd) in B5. apply ph_le_done in B5. exact B5.
  Qed.

  Lemma K_put_prop (w : world) k (P P' : prop) :
    K w -> props w !! k = Some P -> p_le P P' -> p_ord P' -> backed (txs w) k P' ->
    (p_init P' = Some Done -> is_Some (cfgs w !! k.1)) ->
    K (apply_eff w (EPutProp k P')).
  Proof.
    intros HK HP Hle Hord Hb Hcf. destruct HK as [HJ H2 Ho Ha He Htp Hvf Hc]. split; cbn.
    - apply (J_put_prop dev_apply d_empty w k P'); assumption.
    - exact H2.
    - intros k0 P0. destruct (decide (k = k0)) as [->|Hne].
      + rewrite lookup_insert. intros [= <-]. exact Hord.
      + rewrite lookup_insert_ne by exact Hne. apply Ho.
    - intros j T0 tg t HT0 Htg Hin. destruct (Ha _ _ _ _ HT0 Htg Hin) as (P0 & HP0 & Hag).
      destruct (decide (k = (t, j))) as [->|Hne].
      + exists P'. rewrite lookup_insert. split; [reflexivity|]. rewrite HP in HP0. injection HP0 as <-.
        eapply agree_le; eassumption.
      + exists P0. rewrite lookup_insert_ne by exact Hne. auto.
    - intros t j P0. destruct (decide (k = (t, j))) as [->|Hne].
      + intros _. eapply He. exact HP.
      + rewrite lookup_insert_ne by exact Hne. apply He.
    - exact Htp.
    - intros j T0 HT0 Hf. destruct (Hvf _ _ HT0 Hf) as (t & P0 & HP0 & Hpf & Hfl).
      destruct (decide (k = (t, j))) as [->|Hne].
      + exists t, P'. rewrite lookup_insert. rewrite HP in HP0. injection HP0 as <-.
        destruct Hle as (B0 & B1 & B2 & B3 & B4 & B5 & B6). rewrite Hpf in B2. apply ph_le_failed in B2.
        repeat split; [exact B2|]. rewrite (B6 Hpf). exact Hfl.
      + exists t, P0. rewrite lookup_insert_ne by exact Hne. auto.
    - intros t j P0. destruct (decide (k = (t, j))) as [->|Hne].
      + rewrite lookup_insert. intros [= <-]. exact Hcf.
      + rewrite lookup_insert_ne by exact Hne. apply Hc.
  Qed.

  Lemma K_create_prop (w : world) t i (T : txn) (P' : prop) :
    K w -> txs w !! i = Some T -> In t (tgts_of (txs w) T) ->
    p_init P' = None -> p_validate P' = None -> p_commit P' = None -> p_abort P' = None -> p_apply P' = None ->
    K (apply_eff w (ECreateProp (t, i) P')).
  Proof.
    intros HK HT Hin H0 H1 H2 H3 H4.
    assert (HJ' := J_create_prop dev_apply d_empty w (t, i) P' (k_J _ HK) H1 H2 H3 H4).
    cbn in *. destruct (props w !! (t, i)) eqn:Hk; [exact HK|].
    destruct HK as [HJ Hx Ho Ha He Htp Hvf Hc]. split; cbn.
    - exact HJ'.
    - exact Hx.
    - intros k0 P0. destruct (decide ((t, i) = k0)) as [<-|Hne].
      + rewrite lookup_insert. intros [= <-]. unfold p_ord. rewrite H0, H1, H2, H3, H4. reflexivity.
      + rewrite lookup_insert_ne by exact Hne. apply Ho.
    - intros j T0 tg t0 HT0 Htg Hin0. destruct (Ha _ _ _ _ HT0 Htg Hin0) as (P0 & HP0 & Hag).
      exists P0. rewrite lookup_insert_ne by congruence. auto.
    - intros t0 j P0. destruct (decide ((t, i) = (t0, j))) as [[= <- <-]|Hne].
      + intros _. eauto.
      + rewrite lookup_insert_ne by exact Hne. apply He.
    - exact Htp.
    - intros j T0 HT0 Hf. destruct (Hvf _ _ HT0 Hf) as (t0 & P0 & HP0 & Hr). exists t0, P0.
      rewrite lookup_insert_ne by congruence. auto.
    - intros t0 j P0. destruct (decide ((t, i) = (t0, j))) as [[= <- <-]|Hne].
      + rewrite lookup_insert. intros [= <-]. congruence.
      + rewrite lookup_insert_ne by exact Hne. apply Hc.
  Qed.

  Lemma K_neutral (w : world) e : tp_neutral e -> K w -> K (apply_eff w e).
  Proof.
    intros Hn HK.
    assert (Ht : txs (apply_eff w e) = txs w) by (rewrite txs_apply_eff; destruct e; try reflexivity; destruct Hn).
    assert (Hp : props (apply_eff w e) = props w) by (rewrite props_apply_eff; destruct e; try reflexivity; destruct Hn).
    assert (HJ' := J_neutral dev_apply d_empty w e Hn (k_J _ HK)).
    destruct HK as [HJ Hx Ho Ha He Htp Hvf Hc]. split; rewrite ?Ht, ?Hp; try assumption.
    intros t i P HP Hd. apply cfgs_keep. eapply Hc; eassumption.
  Qed.

  (** * What one invocation of the proposal reconciler writes *)
  (* the candidate whose document the plugin judges, and the rollback data recorded with the verdict *)
  Definition vdoc (w : world) (t : N) (C : config) (P : prop) (cand : V) (rbi : N) (rbv : option Ch) : Prop :=
    match p_details P with
    | PChange ch => cand = candidate (view C) ch /\ rbi = c_index C /\ rbv = Some (rollback_of (view C) ch)
    | PRollback ri =>
      negb (c_index C =? ri) = false /\
      exists (Q : prop) ch0, props w !! (t, ri) = Some Q /\ p_details Q = PChange ch0 /\
        cand = candidate_rb (view C) (default ch_empty (p_rbvalues Q)) /\ rbi = p_rbindex Q /\ rbv = p_rbvalues Q
    end.

  Inductive pwrite (o : oracle) (w : world) : N * N -> prop -> prop -> Prop :=
  | pw_init0 k (P : prop) :
      p_init P = None -> p_validate P = None -> p_commit P = None -> p_apply P = None -> p_abort P = None ->
      pwrite o w k P (P <| p_init := Some Doing |>)
  | pw_initD k (P : prop) (C : config) :
      p_init P = Some Doing -> p_validate P = None -> p_commit P = None -> p_apply P = None -> p_abort P = None ->
      cfgs w !! k.1 = Some C -> pwrite o w k P (P <| p_init := Some Done |>)
  | pw_prev k (P : prop) n : pwrite o w k P (P <| p_prev := n |>)
  | pw_next k (P : prop) n : pwrite o w k P (P <| p_next := n |>)
  | pw_valD k (P : prop) (C : config) cand rbi rbv :
      p_validate P = Some Doing -> p_commit P = None -> p_apply P = None -> p_abort P = None ->
      cfgs w !! k.1 = Some C -> negb (p_prev P =? 0) && negb (c_committed C =? p_prev P) = false ->
      negb (o_plugin o) = false -> o_verdict o = true -> negb (doc_ok cand) = false -> vdoc w k.1 C P cand rbi rbv ->
      pwrite o w k P (P <| p_rbindex := rbi |> <| p_rbvalues := rbv |> <| p_validate := Some Done |>)
  | pw_valF k (P : prop) f :
      p_validate P = Some Doing -> p_commit P = None -> p_apply P = None -> p_abort P = None ->
      pwrite o w k P (P <| p_validate := Some Failed |> <| p_vfail := Some f |>)
  | pw_comD k (P : prop) :
      p_commit P = Some Doing -> p_apply P = None -> p_abort P = None ->
      pwrite o w k P (P <| p_commit := Some Done |>)
  | pw_abD k (P : prop) :
      p_abort P = Some Doing -> p_apply P = None -> pwrite o w k P (P <| p_abort := Some Done |>)
  | pw_apD k (P : prop) n :
      p_apply P = Some Doing -> pwrite o w k P (P <| p_apply := Some Done |> <| p_term := n |>)
  | pw_apF k (P : prop) f n :
      p_apply P = Some Doing -> pwrite o w k P (P <| p_apply := Some Failed |> <| p_afail := Some f |> <| p_term := n |>).

  (* effects that write no transaction, no proposal and no committed path-value map *)
  Definition calm (e : eff) : Prop :=
    match e with EPutTx _ _ | ECreateProp _ _ | EPutProp _ _ | EPutValues _ _ => False | _ => True end.
  Lemma calm_neutral e : calm e -> tp_neutral e.
  Proof. destruct e; cbn; auto. Qed.

  Inductive pcase (o : oracle) (w : world) (k : N * N) : list eff -> Prop :=
  | pc_calm effs : Forall calm effs -> pcase o w k effs
  | pc_put pre post k' (P P' : prop) :
      Forall calm pre -> Forall calm post -> props w !! k' = Some P -> pwrite o w k' P P' ->
      (k' = k \/ exists n, P' = P <| p_next := n |>) ->     (* only the link to the successor is written elsewhere *)
      pcase o w k (pre ++ EPutProp k' P' :: post)
  | pc_commit (P : prop) (C : config) ci :
      props w !! k = Some P -> cfgs w !! k.1 = Some C ->
      p_commit P = Some Doing -> p_apply P = None -> p_abort P = None -> (c_committed C =? p_prev P) = true ->
      ci = match p_details P with PChange _ => k.2 | PRollback _ => p_rbindex P end ->
      pcase o w k [EPutValues k.1 (commit_merge (o_order o) k.2 (c_values C) (view C) (rb_change ch_empty P));
                   EPutCfg k.1 (C <| c_index := ci |>
                                  <| c_committed := k.2 |> <| c_inline := v_empty |> <| c_ainline := aview C |>);
                   EPutProp k (P <| p_commit := Some Done |>)].

  Lemma pc_put1 o w k k' (P P' : prop) :
    props w !! k' = Some P -> pwrite o w k' P P' -> (k' = k \/ exists n, P' = P <| p_next := n |>) ->
    pcase o w k [EPutProp k' P'].
  Proof. intros. apply (pc_put o w k [] [] k' P P'); auto. Qed.
  Lemma pc_put3 o w k e1 e2 k' (P P' : prop) :
    calm e1 -> calm e2 -> props w !! k' = Some P -> pwrite o w k' P P' -> (k' = k \/ exists n, P' = P <| p_next := n |>) ->
    pcase o w k [e1; e2; EPutProp k' P'].
  Proof. intros. apply (pc_put o w k [e1; e2] [] k' P P'); auto. Qed.
  Lemma pc_put4 o w k e1 e2 e3 k' (P P' : prop) :
    calm e1 -> calm e2 -> calm e3 -> props w !! k' = Some P -> pwrite o w k' P P' ->
    (k' = k \/ exists n, P' = P <| p_next := n |>) -> pcase o w k [e1; e2; e3; EPutProp k' P'].
  Proof. intros. apply (pc_put o w k [e1; e2; e3] [] k' P P'); auto. Qed.
  Lemma pc_put_mid o w k e1 e3 e4 k' (P P' : prop) :
    calm e1 -> calm e3 -> calm e4 -> props w !! k' = Some P -> pwrite o w k' P P' ->
    (k' = k \/ exists n, P' = P <| p_next := n |>) -> pcase o w k [e1; EPutProp k' P'; e3; e4].
  Proof. intros. apply (pc_put o w k [e1] [e3; e4] k' P P'); auto. Qed.

  Ltac pwrite_tac :=
    first [ eapply pw_init0; eassumption
          | eapply pw_initD; eassumption
          | eapply pw_prev
          | eapply pw_next
          | eapply pw_valF; eassumption
          | eapply pw_comD; eassumption
          | eapply pw_abD; eassumption
          | eapply pw_apD; eassumption
          | eapply pw_apF; eassumption
          | eapply pw_valD; [eassumption..|];
            unfold vdoc;
            match goal with H : p_details _ = _ |- _ => rewrite H end;
            first [ repeat split; reflexivity
                  | split; [eassumption|]; eexists _, _; repeat split; eassumption ] ].

  Ltac key_tac := first [left; reflexivity | right; eexists; reflexivity].
  Ltac pcase_tac :=
    first [ solve [apply pc_calm; repeat first [apply List.Forall_nil | apply List.Forall_cons; [exact I|]]]
          | solve [eapply pc_put1; [eassumption|pwrite_tac|key_tac]]
          | solve [eapply pc_put3; [exact I|exact I|eassumption|pwrite_tac|key_tac]]
          | solve [eapply pc_put4; [exact I|exact I|exact I|eassumption|pwrite_tac|key_tac]]
          | solve [eapply pc_put_mid; [exact I|exact I|exact I|eassumption|pwrite_tac|key_tac]]
          | solve [eapply (pc_commit _ _ (_, _)); [eassumption..|]; match goal with H : p_details _ = _ |- _ => rewrite H end; reflexivity] ].

  Lemma rec_prop_pcase (o : oracle) (w : world) k : pcase o w k (fst (rec_prop o w k)).
  Proof.
    unfold Proto2.rec_prop, Proto2.vfail, Proto2.upd_status. destruct k as [t i]. cbv zeta.
    destruct (props w !! (t, i)) as [P|] eqn:HP; [|apply pc_calm; apply List.Forall_nil].
    destruct_matches; cbn [fst app]; try pcase_tac.
    (* the linking step: the effect is chosen by a nested match *)
    all: match goal with H : _ = Some ?e |- pcase _ _ _ [?e] =>
      repeat match type of H with context [match ?x with _ => _ end] => destruct x eqn:? end;
      try discriminate H; injection H as <-; pcase_tac
    end.
  Qed.

  (** * Consequences of [pwrite] *)
  Ltac pfield f P := first [ match goal with H : f P = _ |- _ => rewrite H in * end | destruct (f P) as [[]|] ].

  Lemma pwrite_le o (w : world) k (P P' : prop) : pwrite o w k P P' -> p_le P P'.
  Proof.
    intros Hpw. destruct Hpw; unfold p_le; cbn;
      repeat match goal with H : _ = _ |- _ => rewrite H end; cbn; rewrite ?ph_le_refl;
      repeat split; try reflexivity; try (intros; congruence).
  Qed.

  Lemma pwrite_ord o (w : world) k (P P' : prop) : pwrite o w k P P' -> p_ord P -> p_ord P'.
  Proof.
    intros Hpw. destruct Hpw; unfold p_ord; cbn; intros Ho; try exact Ho;
      pfield (@p_init Ch) P; pfield (@p_validate Ch) P; pfield (@p_commit Ch) P; pfield (@p_apply Ch) P; pfield (@p_abort Ch) P;
      destruct (p_vfail P); cbn in *; try reflexivity; try discriminate.
  Qed.

  Lemma backed_keep (tm : gmap N txn) k (P P' : prop) :
    backed tm k P ->
    (is_Some (p_validate P') -> is_Some (p_validate P)) ->
    (is_Some (p_commit P') -> is_Some (p_commit P)) ->
    (is_Some (p_abort P') -> is_Some (p_abort P)) ->
    (is_Some (p_apply P') -> is_Some (p_apply P)) ->
    backed tm k P'.
  Proof.
    clear. intros Hb H1 H2 H3 H4 Hs.
    assert (Hs0 : is_Some (p_validate P) \/ is_Some (p_commit P) \/ is_Some (p_abort P) \/ is_Some (p_apply P)).
    { destruct Hs as [Hs|[Hs|[Hs|Hs]]]; auto. }
    destruct (Hb Hs0) as (T & HT & G1 & G2 & G3 & G4). exists T. repeat split; auto.
  Qed.

  Lemma pwrite_backed o (w : world) k (P P' : prop) tm : pwrite o w k P P' -> backed tm k P -> backed tm k P'.
  Proof.
    intros Hpw Hb. destruct Hpw; apply (backed_keep tm k P _ Hb); cbn; intros Hs; try exact Hs;
      repeat match goal with H : _ = Some _ |- _ => rewrite H end; eauto.
  Qed.

  Lemma pwrite_cfg o (w : world) k (P P' : prop) :
    pwrite o w k P P' -> p_init P' = Some Done -> p_init P = Some Done \/ is_Some (cfgs w !! k.1).
  Proof. intros Hpw. destruct Hpw; cbn; intros Hd; try (left; exact Hd); try congruence. right. eauto. Qed.

  Lemma K_pwrite o (ws w : world) k (P P' : prop) :
    K w -> props w !! k = Some P -> pwrite o ws k P P' ->
    (forall t, is_Some (cfgs ws !! t) -> is_Some (cfgs w !! t)) ->
    K (apply_eff w (EPutProp k P')).
  Proof.
    intros HK HP Hpw Hc. apply (K_put_prop w k P P'); auto.
    - eapply pwrite_le; eauto.
    - eapply pwrite_ord; eauto. eapply k_pord; eauto.
    - eapply pwrite_backed; eauto. eapply (j_back _ (k_J _ HK)); eauto.
    - intros Hd. destruct (pwrite_cfg _ _ _ _ _ Hpw Hd) as [Hd0|Hs]; [|apply Hc; exact Hs].
      destruct k as [t i]. eapply k_cfg; eauto.
  Qed.

  (** * Invariant and monotonicity together, over every prefix of an invocation *)
  Definition KM (w0 w : world) : Prop := K w /\ mono w0 w.

  Lemma KM_eff (w0 w : world) e : KM w0 w -> K (apply_eff w e) -> eff_fwd w e -> KM w0 (apply_eff w e).
  Proof. intros [HK Hm] HK' Hf. split; [exact HK'|]. eapply mono_trans; [exact Hm|]. apply mono_eff. exact Hf. Qed.

  Lemma KM_neutral (w0 w : world) e : tp_neutral e -> KM w0 w -> KM w0 (apply_eff w e).
  Proof.
    intros Hn HKM. apply KM_eff; [exact HKM|apply K_neutral; [exact Hn|apply HKM]|].
    destruct e; try exact I; destruct Hn.
  Qed.

  Lemma chain_one (I : world -> Prop) (w : world) e : I (apply_eff w e) -> chain I w [e].
  Proof. intros H. split; [exact H|exact Logic.I]. Qed.

  Lemma chain_neutral (w0 : world) pre : forall (w : world) tail, KM w0 w -> Forall tp_neutral pre ->
    (forall w' : world, KM w0 w' -> txs w' = txs w -> props w' = props w ->
                (forall t, is_Some (cfgs w !! t) -> is_Some (cfgs w' !! t)) -> chain (KM w0) w' tail) ->
    chain (KM w0) w (pre ++ tail).
  Proof.
    induction pre as [|e r IH]; intros w tail HKM Hf Ht.
    - cbn. apply Ht; auto.
    - inversion Hf as [|? ? He Hr]; subst. cbn.
      assert (HKM' : KM w0 (apply_eff w e)) by (apply KM_neutral; assumption).
      split; [exact HKM'|]. apply IH; [exact HKM'|exact Hr|].
      intros w' HK' Htx Hpr Hcf. apply Ht; auto.
      + rewrite Htx, txs_apply_eff. destruct e; try reflexivity; destruct He.
      + rewrite Hpr, props_apply_eff. destruct e; try reflexivity; destruct He.
      + intros t Hs. apply Hcf. apply cfgs_keep. exact Hs.
  Qed.

  Lemma calm_chain (w0 w : world) effs : KM w0 w -> Forall calm effs -> chain (KM w0) w effs.
  Proof.
    intros HKM Hf. rewrite <- (app_nil_r effs). apply chain_neutral; [exact HKM| |intros; exact I].
    eapply Forall_impl; [exact Hf|]. intros e. apply calm_neutral.
  Qed.

  Lemma pcase_KM o (w0 w : world) k effs : KM w0 w -> pcase o w k effs -> chain (KM w0) w effs.
  Proof.
    intros HKM Hpc. destruct Hpc as [effs Hf | pre post k' P P' Hf Hf2 HP Hpw Hk | P C ci HP HC Hc Ha Hab Hcm Hci].
    - apply calm_chain; assumption.
    - apply chain_neutral; [exact HKM|eapply Forall_impl; [exact Hf|intros e; apply calm_neutral]|].
      intros w' HK' Htx Hpr Hcf.
      assert (HKM' : KM w0 (apply_eff w' (EPutProp k' P'))).
      { apply KM_eff; [exact HK'| |].
        + eapply K_pwrite; eauto; [apply HK'|rewrite Hpr; exact HP].
        + cbn. exists P. rewrite Hpr. split; [exact HP|]. eapply pwrite_le; eauto. }
      split; [exact HKM'|]. apply calm_chain; assumption.
    - apply (chain_neutral w0 [_; _] w [_]); [exact HKM|repeat constructor|].
      intros w' HK' Htx Hpr Hcf. apply chain_one.
      assert (Hpw : pwrite o w k P (P <| p_commit := Some Done |>)) by (apply pw_comD; assumption).
      apply KM_eff; [exact HK'| |].
      + eapply K_pwrite; eauto; [apply HK'|rewrite Hpr; exact HP].
      + cbn. exists P. rewrite Hpr. split; [exact HP|]. eapply pwrite_le; eauto.
  Qed.

  Lemma rec_prop_KM o (w0 w : world) k : KM w0 w -> chain (KM w0) w (fst (rec_prop o w k)).
  Proof. intros HKM. eapply pcase_KM; [exact HKM|apply rec_prop_pcase]. Qed.

  (** * Configuration, mastership and connection reconcilers: calm *)
  Lemma resync_effs_calm t m term a reqs : Forall calm (fst (@resync_effs V Ch Req t m term a reqs)).
  Proof.
    induction reqs as [|[r|] rest IH]; cbn; try apply List.Forall_nil.
    destruct a; cbn; try (apply List.Forall_cons; [exact I|apply List.Forall_nil]).
    destruct (resync_effs t m term COk rest) as [es res] eqn:E. cbn in *. apply List.Forall_cons; [exact I|exact IH].
  Qed.

  Lemma rec_cfg_calm (o : oracle) (w : world) t : Forall calm (fst (rec_cfg o w t)).
  Proof.
    unfold Proto2.rec_cfg, Proto2.upd_status.
    destruct_matches; cbn [fst app]; repeat first [apply List.Forall_nil | apply List.Forall_cons; [exact I|]].
    all: match goal with E : resync_effs _ _ _ _ _ = (?es, _) |- _ =>
           pose proof (resync_effs_calm t n (c_term c) (dev_answer d_empty w t (c_term c) o) (resync_payload (aview c))) as Hn;
           rewrite E in Hn; cbn in Hn end.
    all: first [ exact Hn
               | apply Forall_app_2; [exact Hn|]; repeat first [apply List.Forall_nil | apply List.Forall_cons; [exact I|]] ].
  Qed.

  Lemma rec_master_calm (o : oracle) (w : world) t : Forall calm (fst (rec_master o w t)).
  Proof.
    unfold Proto2.rec_master, Proto2.upd_status.
    destruct_matches; cbn [fst app]; repeat first [apply List.Forall_nil | apply List.Forall_cons; [exact I|]].
  Qed.

  Lemma rec_conn_calm (w : world) c : Forall calm (fst (rec_conn w c)).
  Proof.
    unfold Proto2.rec_conn. destruct_matches; cbn [fst]; repeat first [apply List.Forall_nil | apply List.Forall_cons; [exact I|]].
  Qed.

  (** * The transaction reconciler *)
  Ltac fin := cbn in *; try discriminate; try reflexivity; try congruence; try (split; reflexivity); try (intros ?; vm_compute in *; discriminate); try (vm_compute in *; discriminate).
  Lemma wfb_spec i v c a ab np : wfb i v c a ab np = true ->
    (is_Some v -> i = Some Done) /\ (is_Some c -> v = Some Done) /\ (is_Some a -> c = Some Done) /\
    (is_Some ab -> c = None /\ a = None) /\ (np = true -> i <> Some Done).
  Proof.
    unfold wfb, imp, some, is_ph. intros H. repeat (apply andb_prop in H; destruct H as [H ?]).
    split; [|split; [|split; [|split]]].
    - intros [x ->]. destruct i as [[]|]; fin.
    - intros [x ->]. destruct v as [[]|]; fin.
    - intros [x ->]. destruct c as [[]|]; fin.
    - intros [x ->]. destruct c as [[]|], a as [[]|]; fin.
    - intros ->. destruct i as [[]|]; fin.
  Qed.

  Lemma pordb_spec i v c a ab vf : pordb i v c a ab vf = true ->
    (is_Some v -> i = Some Done) /\ (is_Some c -> v = Some Done) /\ (is_Some a -> c = Some Done) /\
    (is_Some ab -> c = None /\ a = None) /\ i <> Some Failed /\ c <> Some Failed /\ ab <> Some Failed /\
    (v = Some Failed -> vf = true).
  Proof.
    unfold pordb, imp, some, is_ph. intros H. repeat (apply andb_prop in H; destruct H as [H ?]).
    split; [|split; [|split; [|split; [|split; [|split; [|split]]]]]].
    - intros [x ->]. destruct i as [[]|]; fin.
    - intros [x ->]. destruct v as [[]|]; fin.
    - intros [x ->]. destruct c as [[]|]; fin.
    - intros [x ->]. destruct c as [[]|], a as [[]|]; fin.
    - intros ->. fin.
    - intros ->. fin.
    - intros ->. fin.
    - intros ->. destruct vf; [reflexivity|]. fin.
  Qed.

  Lemma backed_imp (tm : gmap N txn) t i (T : txn) (p : prop) :
    backed tm (t, i) p -> tm !! i = Some T ->
    (is_Some (p_validate p) -> is_Some (t_validate T)) /\ (is_Some (p_commit p) -> is_Some (t_commit T)) /\
    (is_Some (p_abort p) -> is_Some (t_abort T)) /\ (is_Some (p_apply p) -> is_Some (t_apply T)).
  Proof.
    intros Hb HT.
    assert (Hx : is_Some (p_validate p) \/ is_Some (p_commit p) \/ is_Some (p_abort p) \/ is_Some (p_apply p) ->
                 (is_Some (p_validate p) -> is_Some (t_validate T)) /\ (is_Some (p_commit p) -> is_Some (t_commit T)) /\
                 (is_Some (p_abort p) -> is_Some (t_abort T)) /\ (is_Some (p_apply p) -> is_Some (t_apply T))).
    { intros Hs. destruct (Hb Hs) as (T0 & HT0 & Hr). cbn in HT0. rewrite HT in HT0. injection HT0 as <-. exact Hr. }
    repeat split; intros Hs; apply Hx; auto.
  Qed.

  Lemma scan_inr (w : world) i tg f t (p : prop) :
    scan_props w i tg f = Some (inr (t, p)) -> In t tg /\ props w !! (t, i) = Some p /\ f p = true.
  Proof.
    induction tg as [|t0 ts IH]; cbn; [discriminate|].
    destruct (props w !! (t0, i)) as [p0|] eqn:Hp; [|discriminate].
    destruct (f p0) eqn:Hf.
    - intros [= <- <-]. auto.
    - intros H. destruct (IH H) as (A & B & C). auto.
  Qed.

  Lemma scan_none (w : world) i tg f :
    scan_props w i tg f = None -> forall t, In t tg -> exists p : prop, props w !! (t, i) = Some p /\ f p = false.
  Proof.
    induction tg as [|t0 ts IH]; cbn; [intros _ t []|].
    destruct (props w !! (t0, i)) as [p0|] eqn:Hp; [|discriminate].
    destruct (f p0) eqn:Hf; [discriminate|].
    intros H t [<-|Hin]; eauto.
  Qed.

  Lemma all_props_true (w : world) i tg f :
    all_props w i tg f = Some true -> forall t, In t tg -> exists p : prop, props w !! (t, i) = Some p /\ f p = true.
  Proof.
    unfold all_props. induction tg as [|t0 ts IH]; cbn [foldr]; [intros _ t []|].
    destruct (foldr _ _ ts) as [b|] eqn:Ha; [|discriminate].
    destruct (props w !! (t0, i)) as [p0|] eqn:Hp; [|discriminate].
    intros [= Hb]. apply andb_prop in Hb. destruct Hb as [-> Hf].
    intros t [<-|Hin]; eauto.
  Qed.

  (* what makes the overwrite of transaction [i] by [T'] safe *)
  Definition tx_safe (w : world) i (T T' : txn) : Prop :=
    tx_wf T' /\ tx_grows T T' /\ tx_wf2 T' /\ t_le T T' /\
    (forall tg, t_props T' = Some tg ->
       (tg = tgts_of (txs w) T /\ (forall ri, t_details T = TRollback ri -> is_Some (txs w !! ri))) /\
       forall t, In t tg -> exists P, props w !! (t, i) = Some P /\ agree T' P) /\
    (t_validate T' = Some Failed ->
       exists t P, props w !! (t, i) = Some P /\ p_validate P = Some Failed /\ t_failure T' = p_vfail P).

  Lemma KM_put_tx (w0 w : world) i (T T' : txn) :
    KM w0 w -> txs w !! i = Some T -> tx_safe w i T T' -> KM w0 (apply_eff w (EPutTx i T')).
  Proof.
    intros HKM HT (H1 & H2 & H3 & H4 & H5 & H6). apply KM_eff; [exact HKM| |].
    - apply (K_put_tx w i T T'); auto; [apply HKM|apply H4].
    - cbn. eauto.
  Qed.

  Definition tokb (T T' : txn) : bool :=
    wfb (t_init T') (t_validate T') (t_commit T') (t_apply T') (t_abort T') (is_none (t_props T')) &&
    growsb (t_validate T) (t_commit T) (t_abort T) (t_apply T) (t_validate T') (t_commit T') (t_abort T') (t_apply T') &&
    twf2b (t_validate T') (t_commit T') (t_abort T') (bool_decide (t_state T' = TFailed)) &&
    ph_le (t_init T) (t_init T') && ph_le (t_validate T) (t_validate T') && ph_le (t_commit T) (t_commit T') &&
    ph_le (t_apply T) (t_apply T') && ph_le (t_abort T) (t_abort T').

  Lemma tokb_spec (T T' : txn) : tokb T T' = true ->
    tx_wf T' /\ tx_grows T T' /\ tx_wf2 T' /\
    ph_le (t_init T) (t_init T') = true /\ ph_le (t_validate T) (t_validate T') = true /\
    ph_le (t_commit T) (t_commit T') = true /\ ph_le (t_apply T) (t_apply T') = true /\
    ph_le (t_abort T) (t_abort T') = true.
  Proof.
    unfold tokb. intros Hb. do 7 (apply andb_prop in Hb; destruct Hb as [Hb ?]).
    unfold tx_wf, tx_grows, tx_wf2. repeat split; assumption.
  Qed.

  (* an overwrite that keeps details and proposal list *)
  Lemma tx_safe_phase (w : world) i (T T' : txn) :
    K w -> txs w !! i = Some T -> t_details T' = t_details T -> t_props T' = t_props T -> tokb T T' = true ->
    (forall t P, In t (default [] (t_props T)) -> props w !! (t, i) = Some P -> agree T P -> agree T' P) ->
    (t_validate T' = Some Failed ->
       (t_validate T = Some Failed /\ t_failure T' = t_failure T) \/
       exists t P, props w !! (t, i) = Some P /\ p_validate P = Some Failed /\ t_failure T' = p_vfail P) ->
    tx_safe w i T T'.
  Proof.
    intros HK HT Hd Hp Hb Hag Hvf.
    destruct (tokb_spec _ _ Hb) as (W1 & W2 & W3 & L1 & L2 & L3 & L4 & L5).
    split; [exact W1|]. split; [exact W2|]. split; [exact W3|]. split.
    { unfold t_le. rewrite Hd. split; [apply tdet_same_refl|]. split; [intros tg; rewrite Hp; auto|]. auto 10. }
    split.
    { intros tg Htg. rewrite Hp in Htg. split; [eapply (k_tp _ HK); eauto|].
      intros t Hin. destruct (k_agree _ HK _ _ _ _ HT Htg Hin) as (P & HP & Ha).
      exists P. split; [exact HP|]. eapply Hag; eauto. rewrite Htg. exact Hin. }
    intros Hf. destruct (Hvf Hf) as [[Hf0 He]|Hx]; [|exact Hx].
    destruct (k_vfail _ HK _ _ HT Hf0) as (t & P & HP & Hpf & Hfl). exists t, P. rewrite He. auto.
  Qed.

  Ltac case_field f T :=
    first [ match goal with H : f T = _ |- _ => rewrite H in * end
          | destruct (f T) as [[]|] ].
  Ltac solve_tok T :=
      (unfold tokb, tx_wf, tx_wf2 in *;
       cbn [t_init t_validate t_commit t_apply t_abort t_props t_state t_failure t_details set] in *;
       case_field (@t_init Ch) T; case_field (@t_validate Ch) T; case_field (@t_commit Ch) T;
       case_field (@t_apply Ch) T; case_field (@t_abort Ch) T;
       first [ match goal with H : t_props T = _ |- _ => rewrite H in * end | destruct (t_props T) ];
       try destruct (bool_decide (t_state T = TFailed));
       cbn in *; try reflexivity; try discriminate).
  (* agreement is kept when no phase becomes done *)
  Ltac agree_keep :=
    let A1 := fresh in let A2 := fresh in let A3 := fresh in let A4 := fresh in let A5 := fresh in
    intros ? ? _ _ (A1 & A2 & A3 & A4 & A5); repeat split; cbn; intros Hd; auto; try discriminate Hd.

  Lemma phase_scan_KM (w0 w : world) i (T : txn) get start stop on_failed on_all_done :
    KM w0 w -> txs w !! i = Some T ->
    (forall t p, In t (default [] (t_props T)) -> props w !! (t, i) = Some p -> get p = None ->
        p_le p (start p) /\ p_ord (start p) /\ backed (txs w) (t, i) (start p) /\ p_init (start p) = p_init p) ->
    (forall t p, In t (default [] (t_props T)) -> props w !! (t, i) = Some p -> stop = true -> get p = Some Failed ->
        tx_safe w i T (on_failed p)) ->
    ((forall t, In t (default [] (t_props T)) ->
        exists p, props w !! (t, i) = Some p /\ (get p = Some Done \/ (stop = false /\ get p = Some Failed))) ->
     tx_safe w i T on_all_done) ->
    chain (KM w0) w (fst (phase_scan w i T (default [] (t_props T)) get start stop on_failed on_all_done)).
  Proof.
    intros HKM HT Hstart Hfail Hdone. unfold phase_scan.
    destruct (scan_props w i _ _) as [[u|[t p]]|] eqn:Hscan.
    - exact I.
    - apply scan_inr in Hscan. destruct Hscan as (Hin & Hp & Hf).
      destruct (is_none (get p)) eqn:Hn.
      + apply chain_one. apply is_none_true in Hn. destruct (Hstart _ _ Hin Hp Hn) as (A & B & C & E).
        apply KM_eff; [exact HKM| |cbn; eauto].
        apply (K_put_prop w (t, i) p); auto; [apply HKM|].
        rewrite E. intros Hd. eapply (k_cfg _ (proj1 HKM)); eauto.
      + apply chain_one. cbn in Hf. apply andb_prop in Hf. destruct Hf as [Hs Hf]. apply bool_decide_eq_true in Hf.
        eapply KM_put_tx; eauto.
    - destruct (default false _) eqn:Hall.
      + apply chain_one. eapply KM_put_tx; eauto. apply Hdone. intros t Hin.
        destruct (all_props w i _ _) as [[|]|] eqn:Ha; try discriminate Hall.
        destruct (all_props_true _ _ _ _ Ha _ Hin) as (p & Hp & Hnd).
        destruct (scan_none _ _ _ _ Hscan _ Hin) as (p' & Hp' & Hnf). rewrite Hp in Hp'. injection Hp' as <-.
        exists p. split; [exact Hp|].
        apply negb_true_iff, bool_decide_eq_false in Hnd.
        apply orb_false_elim in Hnf. destruct Hnf as [Hnn Hnf].
        destruct (get p) as [[]|]; try discriminate Hnn; try congruence; auto.
        right. destruct stop; [|auto]. cbn in Hnf. apply bool_decide_eq_false in Hnf. congruence.
      + exact I.
  Qed.

  Lemma gate_KM (w0 w : world) i (T : txn) tg need next r :
    KM w0 w -> txs w !! i = Some T -> tx_safe w i T next -> chain (KM w0) w (fst (gate w i T tg need next r)).
  Proof.
    intros HKM HT Hs. unfold gate. destruct (all_props w i tg _); [|exact I].
    destruct (blocked_by_prev w i tg need); [exact I|]. apply chain_one. eapply KM_put_tx; eauto.
  Qed.

  (* the proposal creation loop followed by the write of the proposal list *)
  Lemma create_props_KM (w0 ws : world) i (T T' : txn) tgs (l : list (N * prop)) :
    (forall tp, In tp l -> p_init tp.2 = None /\ p_validate tp.2 = None /\ p_commit tp.2 = None /\ p_abort tp.2 = None /\ p_apply tp.2 = None) ->
    tokb T T' = true -> tdet_same (t_details T) (t_details T') -> t_props T = None -> t_props T' = Some tgs ->
    t_init T' = Some Doing -> t_validate T' = None -> t_commit T' = None -> t_apply T' = None -> t_abort T' = None ->
    forall (w : world) seen, KM w0 w -> txs w !! i = Some T -> tgts_of (txs w) T = tgs ->
      (forall ri, t_details T = TRollback ri -> is_Some (txs w !! ri)) ->
      (forall k, is_Some (props ws !! k) -> is_Some (props w !! k)) ->
      (forall t, In t seen -> is_Some (props w !! (t, i))) ->
      (forall t, In t tgs <-> In t (seen ++ map fst l)) ->
      chain (KM w0) w (create_props ws i l ++ [EPutTx i T']).
  Proof.
    intros Hl Hb Hd Hnp Hp' Hi Hv Hc Ha Hab. induction l as [|[t p] l IH]; intros w seen HKM HT Htg Hrb Hsub Hseen Hcov.
    - cbn [create_props flat_map app]. apply chain_one. eapply KM_put_tx; eauto.
      destruct (tokb_spec _ _ Hb) as (W1 & W2 & W3 & L1 & L2 & L3 & L4 & L5).
      split; [exact W1|]. split; [exact W2|]. split; [exact W3|]. split.
      { unfold t_le. split; [exact Hd|]. split; [intros tg; rewrite Hnp; discriminate|]. auto 10. }
      split.
      { intros tg Etg. rewrite Hp' in Etg. injection Etg as <-. split; [split; [symmetry; exact Htg|exact Hrb]|].
        intros t0 Hin. apply Hcov in Hin. cbn in Hin. rewrite app_nil_r in Hin.
        destruct (Hseen _ Hin) as [P HP]. exists P. split; [exact HP|].
        unfold agree. rewrite Hi, Hv, Hc, Ha, Hab. repeat split; intros Hx; discriminate Hx. }
      intros Hx. rewrite Hv in Hx. discriminate Hx.
    - cbn [create_props flat_map]. fold (create_props ws i l). cbn [fst].
      assert (Hl' : forall tp, In tp l -> p_init tp.2 = None /\ p_validate tp.2 = None /\ p_commit tp.2 = None /\ p_abort tp.2 = None /\ p_apply tp.2 = None).
      { intros tp Htp. apply Hl. right. exact Htp. }
      assert (Hcov' : forall t0, In t0 tgs <-> In t0 ((seen ++ [t]) ++ map fst l)).
      { intros t0. rewrite Hcov. cbn. rewrite <- app_assoc. reflexivity. }
      destruct (props ws !! (t, i)) eqn:Hex.
      + cbn [app]. apply (IH Hl' w (seen ++ [t])); auto.
        intros t0 Hin. apply in_app_or in Hin. destruct Hin as [Hin|[<-|[]]]; [auto|]. apply Hsub. rewrite Hex. eauto.
      + cbn [app]. destruct (Hl (t, p) (or_introl eq_refl)) as (G0 & G1 & G2 & G3 & G4). cbn in G0, G1, G2, G3, G4.
        assert (Hin : In t (tgts_of (txs w) T)).
        { rewrite Htg. apply Hcov. apply in_or_app. right. left. reflexivity. }
        assert (HKM' : KM w0 (apply_eff w (ECreateProp (t, i) p))).
        { apply KM_eff; [exact HKM| |exact I]. eapply K_create_prop; eauto. apply HKM. }
        assert (Hpr : forall k, is_Some (props w !! k) -> is_Some (props (apply_eff w (ECreateProp (t, i) p)) !! k)).
        { intros k Hs. rewrite props_apply_eff. destruct (props w !! (t, i)); [exact Hs|].
          destruct (decide ((t, i) = k)) as [<-|Hne]; [rewrite lookup_insert; eauto|rewrite lookup_insert_ne by exact Hne; exact Hs]. }
        split; [exact HKM'|]. apply (IH Hl' _ (seen ++ [t])); auto.
        * rewrite txs_apply_eff. exact HT.
        * rewrite txs_apply_eff. exact Htg.
        * intros ri Hri. rewrite txs_apply_eff. auto.
        * intros t0 Hin0. apply in_app_or in Hin0. destruct Hin0 as [Hin0|[<-|[]]]; [auto|].
          rewrite props_apply_eff. destruct (props w !! (t, i)) eqn:Hw; [rewrite Hw; eauto|rewrite lookup_insert; eauto].
  Qed.

  Lemma listed_facts (w : world) i (T : txn) t (p : prop) :
    K w -> txs w !! i = Some T -> In t (default [] (t_props T)) -> props w !! (t, i) = Some p ->
    p_ord p /\ agree T p /\
    (is_Some (p_validate p) -> is_Some (t_validate T)) /\ (is_Some (p_commit p) -> is_Some (t_commit T)) /\
    (is_Some (p_abort p) -> is_Some (t_abort T)) /\ (is_Some (p_apply p) -> is_Some (t_apply T)).
  Proof.
    intros HK HT Hin Hp. split; [eapply k_pord; eauto|]. split.
    - destruct (t_props T) as [tg|] eqn:Etg; [|destruct Hin]. cbn in Hin.
      destruct (k_agree _ HK _ _ _ _ HT Etg Hin) as (P & HP & Ha). rewrite Hp in HP. injection HP as <-. exact Ha.
    - apply (backed_imp (txs w) t i T p); [|exact HT]. eapply (j_back _ (k_J _ HK)); eauto.
  Qed.

  Ltac start_tac p :=
    split; [|split; [|reflexivity]];
    [ unfold p_le; cbn; repeat match goal with H : _ = _ |- _ => rewrite H end; rewrite ?ph_le_refl;
      repeat split; try reflexivity; try (intros; congruence)
    | unfold p_ord in *; cbn;
      pfield (@p_init Ch) p; pfield (@p_validate Ch) p; pfield (@p_commit Ch) p; pfield (@p_apply Ch) p; pfield (@p_abort Ch) p;
      destruct (p_vfail p); cbn in *; try reflexivity; try discriminate ].

  Lemma start_validate (p : prop) : p_ord p -> p_validate p = None -> p_init p = Some Done ->
    p_le p (p <| p_validate := Some Doing |>) /\ p_ord (p <| p_validate := Some Doing |>) /\
    p_init (p <| p_validate := Some Doing |>) = p_init p.
  Proof. intros Ho H1 H2. start_tac p. Qed.
  Lemma start_commit (p : prop) : p_ord p -> p_commit p = None -> p_validate p = Some Done -> p_abort p = None ->
    p_le p (p <| p_commit := Some Doing |>) /\ p_ord (p <| p_commit := Some Doing |>) /\
    p_init (p <| p_commit := Some Doing |>) = p_init p.
  Proof. intros Ho H1 H2 H3. start_tac p. Qed.
  Lemma start_apply (p : prop) : p_ord p -> p_apply p = None -> p_commit p = Some Done ->
    p_le p (p <| p_apply := Some Doing |>) /\ p_ord (p <| p_apply := Some Doing |>) /\
    p_init (p <| p_apply := Some Doing |>) = p_init p.
  Proof. intros Ho H1 H2. start_tac p. Qed.
  Lemma start_abort (p : prop) : p_ord p -> p_abort p = None -> p_commit p = None -> p_apply p = None ->
    p_le p (p <| p_abort := Some Doing |>) /\ p_ord (p <| p_abort := Some Doing |>) /\
    p_init (p <| p_abort := Some Doing |>) = p_init p.
  Proof. intros Ho H1 H2 H3. start_tac p. Qed.

  Lemma not_some_none {A} (o : option A) : (is_Some o -> False) -> o = None.
  Proof. destruct o; [intros H; destruct H; eauto|reflexivity]. Qed.

  (* the closing argument of an all-done write: every listed proposal has the phase done *)
  Ltac vfail_tac := cbn; intros Hf; first [discriminate Hf | congruence | left; split; [exact Hf|reflexivity]].

  Lemma rec_tx_KM (w0 w : world) i : KM w0 w -> chain (KM w0) w (fst (rec_tx w i)).
  Proof.
    intros HKM. pose proof (proj1 HKM) as HK. pose proof (k_J _ HK) as HJ.
    unfold Proto2.rec_tx. destruct (txs w !! i) as [T|] eqn:HT; [|exact I].
    pose proof (j_tx _ HJ _ _ HT) as Hwf. pose proof (k_tx2 _ HK _ _ HT) as Hwf2.
    destruct (wfb_spec _ _ _ _ _ _ Hwf) as (S1 & S2 & S3 & S4 & S5).
    destruct (t_apply T) as [a|] eqn:Ea.
    { destruct a; try exact I.
      assert (Ec : t_commit T = Some Done) by (apply S3; eauto).
      assert (Ev : t_validate T = Some Done) by (apply S2; rewrite Ec; eauto).
      assert (Hstart : forall t (p : prop), In t (default [] (t_props T)) -> props w !! (t, i) = Some p -> p_apply p = None ->
                p_le p (p <| p_apply := Some Doing |>) /\ p_ord (p <| p_apply := Some Doing |>) /\
                backed (txs w) (t, i) (p <| p_apply := Some Doing |>) /\ p_init (p <| p_apply := Some Doing |>) = p_init p).
      { intros t p Hin Hp Hg. destruct (listed_facts w i T t p HK HT Hin Hp) as (Po & Ag & B1 & B2 & B3 & B4).
        destruct Ag as (A1 & A2 & A3 & A4 & A5).
        destruct (start_apply p Po Hg (A3 Ec)) as (L & O & Ie). split; [exact L|]. split; [exact O|]. split; [|exact Ie].
        eapply backed_start; eauto using (j_back _ HJ); cbn; intros Hs; auto; try (right; eexists; eassumption). }
      destruct (scan_props w i _ (fun p => is_none (p_apply p))) as [[u|[t p]]|] eqn:Hsc; [exact I| |].
      { apply scan_inr in Hsc. destruct Hsc as (Hin & Hp & Hf). apply is_none_true in Hf. apply chain_one.
        destruct (Hstart _ _ Hin Hp Hf) as (A & B & C & E).
        apply KM_eff; [exact HKM| |cbn; eauto].
        apply (K_put_prop w (t, i) p); auto. rewrite E. intros Hd. eapply (k_cfg _ HK); eauto. }
      apply phase_scan_KM; auto.
      - intros t p Hin Hp _ Hg. apply tx_safe_phase; [exact HK|exact HT|reflexivity|reflexivity|solve_tok T|agree_keep|vfail_tac].
      - intros Hall. apply tx_safe_phase; [exact HK|exact HT|reflexivity|reflexivity|solve_tok T| |vfail_tac].
        intros t P Hin HP (A1 & A2 & A3 & A4 & A5). destruct (Hall t Hin) as (p & Hp & [Hd|[Hst _]]); [|discriminate Hst].
        rewrite HP in Hp. injection Hp as <-. repeat split; cbn; intros Hx; auto. }
    destruct (t_abort T) as [ab|] eqn:Eb.
    { destruct ab; try exact I.
      destruct S4 as [Ec _]; [eauto|].
      apply phase_scan_KM; auto.
      - intros t p Hin Hp Hg. destruct (listed_facts w i T t p HK HT Hin Hp) as (Po & Ag & B1 & B2 & B3 & B4).
        assert (Hc : p_commit p = None) by (apply not_some_none; intros Hs; apply B2 in Hs; rewrite Ec in Hs; destruct Hs; discriminate).
        assert (Ha : p_apply p = None) by (apply not_some_none; intros Hs; apply B4 in Hs; rewrite Ea in Hs; destruct Hs; discriminate).
        destruct (start_abort p Po Hg Hc Ha) as (L & O & Ie). split; [exact L|]. split; [exact O|]. split; [|exact Ie].
        eapply backed_start; eauto using (j_back _ HJ); cbn; intros Hs; auto; try (right; eexists; eassumption).
      - intros t p Hin Hp Hst. discriminate Hst.
      - intros Hall. apply tx_safe_phase; [exact HK|exact HT|reflexivity|reflexivity|solve_tok T| |vfail_tac].
        intros t P Hin HP (A1 & A2 & A3 & A4 & A5). destruct (Hall t Hin) as (p & Hp & Hd).
        rewrite HP in Hp. injection Hp as <-.
        assert (Hd' : p_abort P = Some Done).
        { destruct Hd as [Hd|[_ Hd]]; [exact Hd|].
          destruct (listed_facts w i T t P HK HT Hin HP) as (Po & _). apply pordb_spec in Po.
          destruct Po as (_ & _ & _ & _ & _ & _ & Po & _). congruence. }
        repeat split; cbn; intros Hx; auto. }
    destruct (t_commit T) as [c|] eqn:Ec.
    { assert (Ev : t_validate T = Some Done) by (apply S2; eauto).
      destruct c; try exact I.
      - apply phase_scan_KM; auto.
        + intros t p Hin Hp Hg. destruct (listed_facts w i T t p HK HT Hin Hp) as (Po & Ag & B1 & B2 & B3 & B4).
          destruct Ag as (A1 & A2 & A3 & A4 & A5).
          assert (Hab : p_abort p = None) by (apply not_some_none; intros Hs; apply B3 in Hs; rewrite Eb in Hs; destruct Hs; discriminate).
          destruct (start_commit p Po Hg (A2 Ev) Hab) as (L & O & Ie). split; [exact L|]. split; [exact O|]. split; [|exact Ie].
          eapply backed_start; eauto using (j_back _ HJ); cbn; intros Hs; auto; try (right; eexists; eassumption).
        + intros t p Hin Hp Hst. discriminate Hst.
        + intros Hall. apply tx_safe_phase; [exact HK|exact HT|reflexivity|reflexivity|solve_tok T| |vfail_tac].
          intros t P Hin HP (A1 & A2 & A3 & A4 & A5). destruct (Hall t Hin) as (p & Hp & Hd).
          rewrite HP in Hp. injection Hp as <-.
          assert (Hd' : p_commit P = Some Done).
          { destruct Hd as [Hd|[_ Hd]]; [exact Hd|].
            destruct (listed_facts w i T t P HK HT Hin HP) as (Po & _). apply pordb_spec in Po.
            destruct Po as (_ & _ & _ & _ & _ & Po & _). congruence. }
          repeat split; cbn; intros Hx; auto.
      - apply gate_KM; auto. apply tx_safe_phase; [exact HK|exact HT|reflexivity|reflexivity|solve_tok T|agree_keep|vfail_tac]. }
    destruct (t_validate T) as [v|] eqn:Ev.
    { assert (Ei : t_init T = Some Done) by (apply S1; eauto).
      destruct v; try exact I.
      - apply phase_scan_KM; auto.
        + intros t p Hin Hp Hg. destruct (listed_facts w i T t p HK HT Hin Hp) as (Po & Ag & B1 & B2 & B3 & B4).
          destruct Ag as (A1 & A2 & A3 & A4 & A5).
          destruct (start_validate p Po Hg (A1 Ei)) as (L & O & Ie). split; [exact L|]. split; [exact O|]. split; [|exact Ie].
          eapply backed_start; eauto using (j_back _ HJ); cbn; intros Hs; auto; try (right; eexists; eassumption).
        + intros t p Hin Hp _ Hg. apply tx_safe_phase; [exact HK|exact HT|reflexivity|reflexivity|solve_tok T|agree_keep|].
          cbn. intros _. right. exists t, p. auto.
        + intros Hall. apply tx_safe_phase; [exact HK|exact HT|reflexivity|reflexivity|solve_tok T| |vfail_tac].
          intros t P Hin HP (A1 & A2 & A3 & A4 & A5). destruct (Hall t Hin) as (p & Hp & [Hd|[Hst _]]); [|discriminate Hst].
          rewrite HP in Hp. injection Hp as <-. repeat split; cbn; intros Hx; auto.
      - apply gate_KM; auto. apply tx_safe_phase; [exact HK|exact HT|reflexivity|reflexivity|solve_tok T|agree_keep|vfail_tac]. }
    destruct (t_init T) as [ini|] eqn:Ei.
    2:{ apply chain_one. eapply KM_put_tx; eauto. apply tx_safe_phase; [exact HK|exact HT|reflexivity|reflexivity|solve_tok T|agree_keep|vfail_tac]. }
    destruct ini; try exact I.
    - destruct (match txs w !! (i - 1) with Some P => _ | None => false end); [exact I|].
      destruct (t_props T) as [tg'|] eqn:Ep.
      + destruct (all_props w i tg' _) as [[|]|] eqn:Hall; try exact I.
        apply chain_one. eapply KM_put_tx; eauto. apply tx_safe_phase; [exact HK|exact HT|reflexivity|reflexivity|solve_tok T| |vfail_tac].
        rewrite Ep. cbn [default]. intros t P Hin HP (A1 & A2 & A3 & A4 & A5).
        destruct (all_props_true _ _ _ _ Hall _ Hin) as (p & Hp & Hnd). rewrite HP in Hp. injection Hp as <-.
        assert (Hd' : p_init P = Some Done).
        { pose proof (k_pord _ HK _ _ HP) as Po. apply pordb_spec in Po. destruct Po as (_ & _ & _ & _ & Po & _).
          destruct (p_init P) as [[]|]; cbn in Hnd; try discriminate Hnd; [reflexivity|congruence]. }
        repeat split; cbn; intros Hx; auto; try congruence.
      + destruct (t_details T) as [chs|ri] eqn:Ed.
        * cbn [fst].
          apply (create_props_KM w0 w i T _ (map fst chs) _) with (seen := []); auto.
          -- intros tp Htp. apply in_map_iff in Htp. destruct Htp as (tc & <- & _). cbn. auto 10.
          -- solve_tok T.
          -- cbn. rewrite Ed. cbn. rewrite map_map. apply map_ext. intros [t0 c0]. cbn. destruct (props w !! (t0, i)); reflexivity.
          -- unfold tgts_of. rewrite Ed. reflexivity.
          -- intros ri Hri. rewrite Ed in Hri. discriminate Hri.
          -- intros t [].
          -- intros t. cbn [app]. rewrite map_map. cbn. rewrite map_map.
             match goal with |- _ <-> In t (map ?f chs) => replace (map f chs) with (map fst chs); [reflexivity|] end.
             apply map_ext. intros [t0 c0]. cbn. destruct (props w !! (t0, i)); reflexivity.
        * destruct (txs w !! ri) as [R|] eqn:HR.
          -- destruct (t_details R) as [chs|rj] eqn:EdR.
             ++ cbn [fst].
                apply (create_props_KM w0 w i T _ (map fst chs) _) with (seen := []); auto.
                ** intros tp Htp. apply in_map_iff in Htp. destruct Htp as (tc & <- & _). cbn. auto 10.
                ** solve_tok T.
                ** cbn. apply tdet_same_refl.
                ** unfold tgts_of. rewrite Ed, HR, EdR. reflexivity.
                ** intros ri' Hri. rewrite Ed in Hri. injection Hri as <-. rewrite HR. eauto.
                ** intros t [].
                ** intros t. cbn [app]. rewrite map_map. cbn. reflexivity.
             ++ apply chain_one. eapply KM_put_tx; eauto. apply tx_safe_phase; [exact HK|exact HT|reflexivity|reflexivity|solve_tok T|agree_keep|vfail_tac].
          -- apply chain_one. eapply KM_put_tx; eauto. apply tx_safe_phase; [exact HK|exact HT|reflexivity|reflexivity|solve_tok T|agree_keep|vfail_tac].
    - apply gate_KM; auto. apply tx_safe_phase; [exact HK|exact HT|reflexivity|reflexivity|solve_tok T|agree_keep|vfail_tac].
  Qed.

  (** * Every step preserves K and moves the world forward; K holds in every reachable world *)
  Lemma tgts_fresh (tm : gmap N txn) n (T X : txn) t :
    tm !! n = None -> In t (tgts_of tm X) -> In t (tgts_of (<[n := T]> tm) X).
  Proof.
    unfold tgts_of. intros Hn. destruct (t_details X) as [chs|ri]; [auto|].
    destruct (decide (n = ri)) as [->|Hne]; [rewrite Hn; intros []|rewrite lookup_insert_ne by exact Hne; auto].
  Qed.

  Lemma tgts_fresh_eq (tm : gmap N txn) n (T X : txn) :
    tm !! n = None -> (forall ri, t_details X = TRollback ri -> is_Some (tm !! ri)) ->
    tgts_of (<[n := T]> tm) X = tgts_of tm X.
  Proof.
    unfold tgts_of. intros Hn Hrb. destruct (t_details X) as [chs|ri]; [reflexivity|].
    destruct (decide (n = ri)) as [->|Hne]; [|rewrite lookup_insert_ne by exact Hne; reflexivity].
    destruct (Hrb ri eq_refl) as [x Hx]. congruence.
  Qed.

  Lemma K_new_tx (w : world) (T : txn) :
    K w -> t_init T = None -> t_validate T = None -> t_commit T = None -> t_apply T = None -> t_abort T = None ->
    t_props T = None ->
    K (w <| txs := <[next_index w := T]> (txs w) |> <| next_index := next_index w + 1 |>).
  Proof.
    intros HK E1 E2 E3 E4 E5 E6. pose proof (j_fresh _ (k_J _ HK) (next_index w) (N.le_refl _)) as Hn.
    assert (Hwf : tx_wf T) by (unfold tx_wf; rewrite E1, E2, E3, E4, E5, E6; reflexivity).
    assert (HJ' := J_new_tx w T (k_J _ HK) Hwf).
    destruct HK as [HJ H2 Ho Ha He Htp Hvf Hc]. split; cbn.
    - exact HJ'.
    - intros j T0. destruct (decide (next_index w = j)) as [<-|Hne].
      + rewrite lookup_insert. intros [= <-]. unfold tx_wf2. rewrite E2, E3, E5. reflexivity.
      + rewrite lookup_insert_ne by exact Hne. apply H2.
    - exact Ho.
    - intros j T0 tg t. destruct (decide (next_index w = j)) as [<-|Hne].
      + rewrite lookup_insert. intros [= <-]. congruence.
      + rewrite lookup_insert_ne by exact Hne. apply Ha.
    - intros t j P HP. destruct (He _ _ _ HP) as (T0 & HT0 & Hin).
      assert (Hne : next_index w <> j) by congruence.
      exists T0. rewrite lookup_insert_ne by exact Hne. split; [exact HT0|]. apply tgts_fresh; assumption.
    - intros j T0 tg. destruct (decide (next_index w = j)) as [<-|Hne].
      + rewrite lookup_insert. intros [= <-]. congruence.
      + rewrite lookup_insert_ne by exact Hne. intros HT0 Htg. destruct (Htp _ _ _ HT0 Htg) as [Heq Hrb]. split.
        * rewrite tgts_fresh_eq; assumption.
        * intros ri Hri. apply insert_keeps_some. apply Hrb. exact Hri.
    - intros j T0. destruct (decide (next_index w = j)) as [<-|Hne].
      + rewrite lookup_insert. intros [= <-]. congruence.
      + rewrite lookup_insert_ne by exact Hne. apply Hvf.
    - exact Hc.
  Qed.

  Lemma mono_new_tx (w : world) (T : txn) :
    txs w !! next_index w = None ->
    mono w (w <| txs := <[next_index w := T]> (txs w) |> <| next_index := next_index w + 1 |>).
  Proof.
    intros Hn. repeat split; cbn.
    - intros i T0 HT0. exists T0. rewrite lookup_insert_ne by congruence. split; [exact HT0|apply t_le_refl].
    - intros k P HP. eauto using p_le_refl.
    - auto.
  Qed.

  Lemma K_env (w w' : world) :
    txs w' = txs w -> props w' = props w -> next_index w' = next_index w -> cfgs w' = cfgs w -> K w -> K w'.
  Proof.
    intros Ht Hp Hn Hc HK. assert (HJ' : J w') by (eapply J_env; [exact Ht|exact Hp|exact Hn|apply HK]).
    destruct HK as [HJ H2 Ho Ha He Htp Hvf Hcf]. split; rewrite ?Ht, ?Hp, ?Hc; assumption.
  Qed.

  Lemma mono_env (w w' : world) : txs w' = txs w -> props w' = props w -> cfgs w' = cfgs w -> mono w w'.
  Proof. intros Ht Hp Hc. unfold mono. rewrite Ht, Hp, Hc. apply mono_refl. Qed.

  Lemma step_KM (w : world) l : K w -> KM w (step w l).
  Proof.
    intros HK. destruct l as [chs sy se|ri|c k o|c t|c|c t|t p|t|t]; cbn [Proto2.step].
    - split; [apply K_new_tx; auto|apply mono_new_tx; apply (j_fresh _ (k_J _ HK)); lia].
    - split; [apply K_new_tx; auto|apply mono_new_tx; apply (j_fresh _ (k_J _ HK)); lia].
    - apply (chain_prefix dev_apply d_empty (KM w)); [split; [exact HK|apply mono_refl]|].
      assert (HKM : KM w w) by (split; [exact HK|apply mono_refl]).
      destruct c as [i|kk|t|t|cc]; cbn [Proto2.reconcile].
      + apply rec_tx_KM. exact HKM.
      + apply rec_prop_KM. exact HKM.
      + apply calm_chain; [exact HKM|apply rec_cfg_calm].
      + apply calm_chain; [exact HKM|apply rec_master_calm].
      + apply calm_chain; [exact HKM|apply rec_conn_calm].
    - destruct (conns w !! c); [split; [exact HK|apply mono_refl]|].
      split; [eapply K_env; [..|exact HK]; reflexivity|apply mono_env; reflexivity].
    - split; [eapply K_env; [..|exact HK]; reflexivity|apply mono_env; reflexivity].
    - destruct (rels w !! c); [split; [exact HK|apply mono_refl]|].
      split; [eapply K_env; [..|exact HK]; reflexivity|apply mono_env; reflexivity].
    - split; [eapply K_env; [..|exact HK]; reflexivity|apply mono_env; reflexivity].
    - split; [eapply K_env; [..|exact HK]; reflexivity|apply mono_env; reflexivity].
    - split; [eapply K_env; [..|exact HK]; reflexivity|apply mono_env; reflexivity].
  Qed.

  Lemma K_init : K (@init V Ch Req D).
  Proof.
    split; cbn; try (intros; match goal with H : ∅ !! _ = Some _ |- _ => rewrite lookup_empty in H; discriminate H end).
    apply (J_init (V := V) (Ch := Ch) (Req := Req) (D := D)).
  Qed.

  Theorem K_reach (w : world) : reach w -> K w.
  Proof.
    apply (reach_ind candidate candidate_rb rollback_of overlay commit_merge payload record_applied touched restore
                     resync_payload doc_ok dev_apply stamp v_empty d_empty ch_empty K).
    - exact K_init.
    - intros w0 l _ HK. apply step_KM. exact HK.
  Qed.

  (* monotonicity of every step and of every run from a reachable world *)
  Theorem step_mono (w : world) l : reach w -> mono w (step w l).
  Proof. intros Hr. apply step_KM. apply K_reach. exact Hr. Qed.

  Theorem run_mono (ls : list (@label Ch)) : forall w : world, reach w ->
    reach (fold_left step ls w) /\ mono w (fold_left step ls w).
  Proof.
    induction ls as [|l ls IH]; intros w Hr; cbn.
    - split; [exact Hr|apply mono_refl].
    - assert (Hr' : reach (step w l)).
      { apply (reach_step candidate candidate_rb rollback_of overlay commit_merge payload record_applied touched restore
                          resync_payload doc_ok dev_apply stamp v_empty d_empty ch_empty). exact Hr. }
      destruct (IH _ Hr') as [Hr'' Hm]. split; [exact Hr''|]. eapply mono_trans; [apply step_mono; exact Hr|exact Hm].
  Qed.

  (** * Theorems: phase order, agreement *)
  Theorem proposal_phase_order (w : world) k (P : prop) :
    reach w -> props w !! k = Some P ->
    (is_Some (p_validate P) -> p_init P = Some Done) /\
    (is_Some (p_commit P) -> p_validate P = Some Done) /\
    (is_Some (p_apply P) -> p_commit P = Some Done) /\
    (is_Some (p_abort P) -> p_commit P = None /\ p_apply P = None) /\
    p_commit P <> Some Failed /\ p_abort P <> Some Failed /\
    (p_validate P = Some Failed -> is_Some (p_vfail P)).
  Proof.
    intros Hr HP. pose proof (k_pord _ (K_reach _ Hr) _ _ HP) as Po. apply pordb_spec in Po.
    destruct Po as (O1 & O2 & O3 & O4 & O5 & O6 & O7 & O8).
    split; [exact O1|]. split; [exact O2|]. split; [exact O3|]. split; [exact O4|]. split; [exact O6|]. split; [exact O7|].
    intros Hf. apply some_is_Some. exact (O8 Hf).
  Qed.

  Theorem tx_prop_agreement (w : world) i (T : txn) tg t :
    reach w -> txs w !! i = Some T -> t_props T = Some tg -> In t tg ->
    exists P, props w !! (t, i) = Some P /\
      (t_init T = Some Done -> p_init P = Some Done) /\
      (t_validate T = Some Done -> p_validate P = Some Done) /\
      (t_commit T = Some Done -> p_commit P = Some Done) /\
      (t_apply T = Some Done -> p_apply P = Some Done) /\
      (t_abort T = Some Done -> p_abort P = Some Done).
  Proof. intros Hr HT Htg Hin. exact (k_agree _ (K_reach _ Hr) _ _ _ _ HT Htg Hin). Qed.

  (* every existing proposal is listed by its transaction once the list is set *)
  Lemma listed (w : world) t i (P : prop) (T : txn) tg :
    K w -> props w !! (t, i) = Some P -> txs w !! i = Some T -> t_props T = Some tg -> In t tg.
  Proof.
    intros HK HP HT Htg. destruct (k_exist _ HK _ _ _ HP) as (T0 & HT0 & Hin). rewrite HT in HT0. injection HT0 as <-.
    destruct (k_tp _ HK _ _ _ HT Htg) as [-> _]. exact Hin.
  Qed.

  (* a transaction with a proposal whose validation failed never enters Commit *)
  Lemma reject_static (w : world) t i (P : prop) :
    K w -> props w !! (t, i) = Some P -> p_validate P = Some Failed ->
    (forall T, txs w !! i = Some T -> t_commit T = None) /\
    (forall t' Q, props w !! (t', i) = Some Q -> p_commit Q = None).
  Proof.
    intros HK HP Hf.
    assert (HT : forall T, txs w !! i = Some T -> t_commit T = None).
    { intros T HT. apply not_some_none. intros Hs.
      pose proof (j_tx _ (k_J _ HK) _ _ HT) as Hwf. destruct (wfb_spec _ _ _ _ _ _ Hwf) as (S1 & S2 & S3 & S4 & S5).
      pose proof (S2 Hs) as Ev. assert (Ei : t_init T = Some Done) by (apply S1; rewrite Ev; eauto).
      destruct (t_props T) as [tg|] eqn:Etg; [|exfalso; apply S5; [reflexivity|exact Ei]].
      pose proof (listed w t i P T tg HK HP HT Etg) as Hin.
      destruct (k_agree _ HK _ _ _ _ HT Etg Hin) as (P0 & HP0 & A1 & A2 & _). rewrite HP in HP0. injection HP0 as <-.
      rewrite (A2 Ev) in Hf. discriminate Hf. }
    split; [exact HT|]. intros t' Q HQ. apply not_some_none. intros Hs.
    destruct (k_exist _ HK _ _ _ HQ) as (T & HT0 & _).
    destruct (backed_imp (txs w) t' i T Q (j_back _ (k_J _ HK) _ _ HQ) HT0) as (_ & B2 & _).
    apply B2 in Hs. rewrite (HT _ HT0) in Hs. destruct Hs; discriminate.
  Qed.

  Theorem reject_never_commits (w : world) t i (P : prop) (ls : list (@label Ch)) :
    reach w -> props w !! (t, i) = Some P -> p_validate P = Some Failed ->
    let w' := fold_left step ls w in
    (forall t' Q, props w' !! (t', i) = Some Q -> p_commit Q = None) /\
    (forall T, txs w' !! i = Some T ->
       t_commit T = None /\
       (t_validate T = Some Failed ->
          t_state T = TFailed /\ is_Some (t_abort T) /\
          exists t0 P0, props w' !! (t0, i) = Some P0 /\ p_validate P0 = Some Failed /\
                        t_failure T = p_vfail P0 /\ is_Some (p_vfail P0))).
  Proof.
    intros Hr HP Hf w'. destruct (run_mono ls w Hr) as [Hr' (_ & Hm & _)]. fold w' in Hr', Hm.
    destruct (Hm _ _ HP) as (P' & HP' & Hle). destruct Hle as (_ & _ & Hv & _). rewrite Hf in Hv. apply ph_le_failed in Hv.
    pose proof (K_reach _ Hr') as HK. destruct (reject_static w' t i P' HK HP' Hv) as [HT HQ].
    split; [exact HQ|]. intros T HT0. split; [apply HT; exact HT0|]. intros Hvf.
    pose proof (k_tx2 _ HK _ _ HT0) as H2. unfold tx_wf2, twf2b, imp in H2. rewrite Hvf in H2.
    repeat (apply andb_prop in H2; destruct H2 as [H2 ?]).
    match goal with H : negb (is_ph (Some Failed) Failed) || _ = true |- _ => cbn in H; apply andb_prop in H; destruct H as [Hst Hab] end.
    split; [apply bool_decide_eq_true in Hst; exact Hst|]. split; [apply some_is_Some; exact Hab|].
    destruct (k_vfail _ HK _ _ HT0 Hvf) as (t0 & P0 & HP0 & Hpf & Hfl). exists t0, P0. repeat split; auto.
    pose proof (k_pord _ HK _ _ HP0) as Po. apply pordb_spec in Po. destruct Po as (_ & _ & _ & _ & _ & _ & _ & O8).
    apply some_is_Some. exact (O8 Hpf).
  Qed.
End Order.

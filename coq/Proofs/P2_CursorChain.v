(* C02, "never sent before merged", first layer: a change is sent to the device only by a proposal whose Commit phase is
   done (phase-order invariant of Proofs/P2_Order.v), and IF the Commit guard holds in every reachable world
   ([commit_guard]: a proposal in Commit-Doing sees Committed.Index = its PrevIndex or its own index already merged) then
   "Commit done => merged" ([commit_merged_of_guard]: the merge effects precede the status write in the effect list, so
   the status write implies the merge) and Applied.Index <= Committed.Index ([applied_le_committed_of_guard]).
   The guard itself is discharged in Proofs/P2_CursorGuard.v from the chain invariant (P2_CursorLink.v,
   P2_CursorChainInv.v); the unconditional theorems are there. *)
From stdpp Require Import gmap.
From RecordUpdate Require Import RecordUpdate.
From Coq Require Import NArith Lia.
From OC Require Import Model.Proto2 Proofs.P2Base Proofs.P2Phases Proofs.P2_Order Proofs.P2_Cursor Proofs.P2_CursorInv.
Open Scope N_scope.

Section CursorChain.
  Context {V Ch Req D : Type}.
  Context (candidate : V -> Ch -> V) (candidate_rb : V -> Ch -> V) (rollback_of : V -> Ch -> Ch)
          (overlay : V -> V -> V) (commit_merge : N -> N -> V -> V -> Ch -> V)
          (payload : N -> V -> Ch -> option Req) (record_applied : N -> N -> V -> V -> V -> Ch -> V)
          (touched : N -> V -> Ch -> V) (restore : V -> V -> V)
          (resync_payload : V -> list (option Req)) (doc_ok : V -> bool)
          (dev_apply : D -> Req -> D) (stamp : N -> Ch -> Ch) (v_empty : V) (d_empty : D) (ch_empty : Ch).

  Notation world := (@world V Ch Req D).
  Notation eff := (@eff V Ch Req).
  Notation txn := (@txn Ch).
  Notation prop := (@prop Ch).
  Notation config := (@config V).
  Notation devev := (@devev Req).
  Notation apply_eff := (@apply_eff V Ch Req D dev_apply d_empty).
  Notation rec_tx := (@rec_tx V Ch Req D stamp).
  Notation rec_prop := (@rec_prop V Ch Req D candidate candidate_rb rollback_of overlay commit_merge payload record_applied
                                  touched restore doc_ok v_empty d_empty ch_empty).
  Notation rec_cfg := (@rec_cfg V Ch Req D overlay restore resync_payload v_empty d_empty).
  Notation rec_master := (@rec_master V Ch Req D overlay restore v_empty).
  Notation rec_conn := (@rec_conn V Ch Req D).
  Notation reconcile := (@reconcile V Ch Req D candidate candidate_rb rollback_of overlay commit_merge payload record_applied
                                    touched restore resync_payload doc_ok stamp v_empty d_empty ch_empty).
  Notation step := (@step V Ch Req D candidate candidate_rb rollback_of overlay commit_merge payload record_applied
                          touched restore resync_payload doc_ok dev_apply stamp v_empty d_empty ch_empty).
  Notation reach := (@reach V Ch Req D candidate candidate_rb rollback_of overlay commit_merge payload record_applied
                            touched restore resync_payload doc_ok dev_apply stamp v_empty d_empty ch_empty).
  Notation view := (@view V overlay).
  Notation aview := (@aview V overlay).
  Notation dev_answer := (@dev_answer V Ch Req D d_empty).
  Notation rb_change := (@rb_change Ch ch_empty).


  Notation sent_by_apply := (@sent_by_apply V Ch Req D overlay payload d_empty ch_empty).

  (* a proposal whose Commit phase is done has been merged into the stored configuration of its target *)
  Definition commit_merged (w : world) : Prop :=
    forall t i (P : prop) (C : config), props w !! (t, i) = Some P -> cfgs w !! t = Some C ->
      p_commit P = Some Done -> i <= c_committed C.

  (* first half, unconditional: only a proposal whose Commit phase is done sends to the device *)
  Theorem sent_only_after_commit_phase (w : world) l evs t m term i r a :
    reach w -> devlog (step w l) = devlog w ++ evs -> In (DevSet t m term (Some i) r a) evs ->
    exists (P : prop) (C : config), props w !! (t, i) = Some P /\ cfgs w !! t = Some C /\
      p_apply P = Some Doing /\ p_commit P = Some Done /\ p_abort P = None.
  Proof.
    intros Hr Hd Hin.
    destruct (sent_in_order candidate candidate_rb rollback_of overlay commit_merge payload record_applied touched restore
                resync_payload doc_ok dev_apply stamp v_empty d_empty ch_empty _ _ _ _ _ _ _ _ _ Hd Hin) as (k & o & -> & Hs).
    destruct Hs as (C & P & HC & HP & _ & _ & _ & _ & _ & Ha & _). exists P, C. split; [exact HP|]. split; [exact HC|].
    split; [exact Ha|].
    destruct (proposal_phase_order candidate candidate_rb rollback_of overlay commit_merge payload record_applied touched restore
                resync_payload doc_ok dev_apply stamp v_empty d_empty ch_empty _ _ _ Hr HP) as (_ & _ & O3 & O4 & _).
    assert (Hc : p_commit P = Some Done) by (apply O3; rewrite Ha; eexists; reflexivity).
    split; [exact Hc|].
    destruct (p_abort P) eqn:Hab; [|reflexivity].
    destruct O4 as [O4 _]; [eexists; reflexivity|]. congruence.
  Qed.

  Theorem never_sent_before_merged_partial (w : world) l evs t m term i r a :
    reach w -> commit_merged w ->
    devlog (step w l) = devlog w ++ evs -> In (DevSet t m term (Some i) r a) evs ->
    exists (P : prop) (C : config), props w !! (t, i) = Some P /\ cfgs w !! t = Some C /\
      p_commit P = Some Done /\ i <= c_committed C.
  Proof.
    intros Hr Hcm Hd Hin. destruct (sent_only_after_commit_phase _ _ _ _ _ _ _ _ _ Hr Hd Hin) as (P & C & HP & HC & _ & Hc & _).
    exists P, C. split; [exact HP|]. split; [exact HC|]. split; [exact Hc|]. eapply Hcm; eassumption.
  Qed.

  (* boolean form of [commit_merged], for concrete worlds *)
  Definition commit_mergedb (w : world) : bool :=
    forallb (fun kp : N * N * prop =>
               match cfgs w !! kp.1.1 with
               | Some C => negb (bool_decide (p_commit kp.2 = Some Done)) || (kp.1.2 <=? c_committed C)
               | None => true
               end) (map_to_list (props w)).

  Lemma commit_mergedb_spec (w : world) : commit_mergedb w = true -> commit_merged w.
  Proof.
    unfold commit_mergedb, commit_merged. intros Hb t i P C HP HC Hc.
    rewrite forallb_forall in Hb. specialize (Hb ((t, i), P)). cbn in Hb. rewrite HC in Hb.
    apply elem_of_map_to_list, elem_of_list_In in HP. specialize (Hb HP).
    rewrite bool_decide_eq_true_2 in Hb by exact Hc. cbn in Hb. apply N.leb_le. exact Hb.
  Qed.
  (** * From the Commit guard to [commit_merged] *)
  (* the second clause of the chain invariant: a proposal in Commit-Doing sees Committed.Index = its PrevIndex (it will
     merge) or its index already merged (a retry after a crash between the configuration write and its own status write) *)
  Definition commit_guard (w : world) : Prop :=
    forall t i (P : prop) (C : config), props w !! (t, i) = Some P -> cfgs w !! t = Some C ->
      p_commit P = Some Doing -> p_abort P = None -> p_apply P = None ->
      c_committed C = p_prev P \/ i <= c_committed C.

  Ltac in_cases H :=
    cbn [fst app In] in H;
    repeat match type of H with
           | _ \/ _ => destruct H as [H|H]; [try discriminate H|]
           | False => destruct H
           end.

  (* the only proposal write that completes a Commit phase is the one of reconcileCommit on its own proposal *)
  Lemma rec_prop_commit_write (o : oracle) (w : world) t i k (P P' : prop) :
    In (EPutProp k P') (fst (rec_prop o w (t, i))) -> props w !! k = Some P ->
    p_commit P = Some Doing -> p_commit P' = Some Done -> k = (t, i) /\ p_apply P = None /\ p_abort P = None.
  Proof.
    unfold Proto2.rec_prop, Proto2.vfail, Proto2.upd_status.
    destruct (props w !! (t, i)) as [P0|] eqn:HP0; [|intros []].
    destruct_matches; intros H HPk Hc Hd;
      try (match goal with E : _ = Some ?e |- _ => is_var e;
             repeat match type of E with context [match ?x with _ => _ end] => destruct x eqn:? end;
             try discriminate E; injection E as <- end);
      in_cases H; injection H as <- <-;
      repeat match goal with
             | H1 : props w !! ?kk = Some ?A, H2 : props w !! ?kk = Some ?B |- _ => rewrite H1 in H2; injection H2 as ->
             end;
      cbn in Hd; try congruence; repeat split; congruence.
  Qed.

  Lemma rec_prop_commit_effs (o : oracle) (w : world) t i (P : prop) (C : config) :
    props w !! (t, i) = Some P -> p_apply P = None -> p_abort P = None -> p_commit P = Some Doing -> cfgs w !! t = Some C ->
    exists v c', c_committed c' = i /\
      fst (rec_prop o w (t, i)) =
      (if c_committed C =? p_prev P then [EPutValues t v; EPutCfg t c'] else []) ++ [EPutProp (t, i) (P <| p_commit := Some Done |>)].
  Proof.
    intros HP Hap Hab Hc HC. unfold Proto2.rec_prop. rewrite HP, Hap, Hab, Hc, HC. cbn [fst].
    eexists _, _. split; [|reflexivity]. reflexivity.
  Qed.

  Lemma rec_prop_commit_nocfg (o : oracle) (w : world) t i (P : prop) :
    props w !! (t, i) = Some P -> p_apply P = None -> p_abort P = None -> p_commit P = Some Doing -> cfgs w !! t = None ->
    fst (rec_prop o w (t, i)) = [].
  Proof. intros HP Hap Hab Hc HC. unfold Proto2.rec_prop. rewrite HP, Hap, Hab, Hc, HC. reflexivity. Qed.

  (* the step that completes the Commit phase of (t, i): the merge (if any) was executed before the status write *)
  Lemma commit_done_step (w : world) l t i (P P' : prop) :
    props w !! (t, i) = Some P -> p_commit P = Some Doing ->
    props (step w l) !! (t, i) = Some P' -> p_commit P' = Some Done ->
    p_apply P = None /\ p_abort P = None /\
    exists C C' : config, cfgs w !! t = Some C /\ cfgs (step w l) !! t = Some C' /\
      ((c_committed C = p_prev P /\ c_committed C' = i) \/ (c_committed C <> p_prev P /\ c_committed C' = c_committed C)).
  Proof.
    intros HP Hc H' Hd. pose proof H' as H0. apply prop_step in H0.
    destruct H0 as [H0|(ctl & n & o & -> & [H0|[H0 Hn]])]; [congruence| |congruence].
    destruct ctl as [j|[t0 i0]|t0|t0|c0]; cbn [Proto2.reconcile] in H0.
    - apply rec_tx_putprop in H0. destruct H0 as (t1 & p & T & [= <- <-] & _ & _ & Hp & Hs). rewrite HP in Hp. injection Hp as <-.
      destruct Hs as [(_ & _ & ->)|[(_ & _ & _ & ->)|[(_ & _ & _ & _ & ->)|(_ & _ & _ & _ & _ & ->)]]]; cbn in Hd; congruence.
    - destruct (rec_prop_commit_write _ _ _ _ _ _ _ H0 HP Hc Hd) as ([= <- <-] & Hap & Hab). split; [exact Hap|]. split; [exact Hab|].
      cbn [Proto2.step Proto2.reconcile] in H' |- *.
      destruct (cfgs w !! t) as [C|] eqn:HC.
      2:{ rewrite (rec_prop_commit_nocfg o _ _ _ _ HP Hap Hab Hc HC) in H'. rewrite firstn_nil in H'. cbn in H'. congruence. }
      destruct (rec_prop_commit_effs o _ _ _ _ _ HP Hap Hab Hc HC) as (v & c' & Hci & Heff). rewrite Heff in H' |- *. clear Heff H0.
      exists C. destruct (c_committed C =? p_prev P) eqn:E; cbn [app] in H' |- *.
      + apply N.eqb_eq in E.
        destruct n as [|[|[|n]]]; cbn [firstn fold_left] in H' |- *;
          try (rewrite ?props_apply_eff in H'; cbn in H'; congruence).
        rewrite firstn_nil. cbn [fold_left].
        eexists. split; [reflexivity|]. split; [|left; split; [exact E|]].
        * rewrite !cfgs_apply_eff. rewrite HC. rewrite lookup_insert. rewrite lookup_insert. reflexivity.
        * cbn. exact Hci.
      + apply N.eqb_neq in E.
        destruct n as [|n]; cbn [firstn fold_left] in H' |- *; [congruence|].
        rewrite firstn_nil. cbn [fold_left]. exists C. split; [reflexivity|]. split; [rewrite cfgs_apply_eff; exact HC|]. right. auto.
    - apply rec_cfg_kinds in H0. destruct H0.
    - apply rec_master_only_putcfg in H0. destruct H0.
    - apply rec_conn_only_rel in H0. destruct H0.
  Qed.

  Definition merged_inv (w : world) : Prop :=
    forall t i (P : prop), props w !! (t, i) = Some P -> p_commit P = Some Done ->
      exists C : config, cfgs w !! t = Some C /\ i <= c_committed C.

  Lemma committed_of_some (w : world) t (C : config) : cfgs w !! t = Some C -> committed_of w t = c_committed C.
  Proof. unfold P2_Cursor.committed_of. intros ->. reflexivity. Qed.

  Lemma merged_inv_step (w : world) l : reach w -> commit_guard w -> merged_inv w -> merged_inv (step w l).
  Proof.
    intros Hr Hg Hm t i P' H' Hd.
    assert (Hkeep : forall P : prop, props w !! (t, i) = Some P -> p_commit P = Some Done ->
                    exists C' : config, cfgs (step w l) !! t = Some C' /\ i <= c_committed C').
    { intros P HP Hc. destruct (Hm _ _ _ HP Hc) as (C & HC & Hle).
      destruct (cfgs (step w l) !! t) as [C'|] eqn:HC'.
      - exists C'. split; [reflexivity|].
        destruct (cursors_monotone candidate candidate_rb rollback_of overlay commit_merge payload record_applied touched restore
                    resync_payload doc_ok dev_apply stamp v_empty d_empty ch_empty w l t Hr) as [Hmono _].
        rewrite (committed_of_some _ _ _ HC), (committed_of_some _ _ _ HC') in Hmono. lia.
      - apply cfg_step_none in HC'. congruence. }
    pose proof H' as H0. apply prop_step in H0.
    destruct H0 as [H0|(ctl & n & o & -> & [H0|[H0 Hn]])].
    - eapply Hkeep; eassumption.
    - apply reconcile_putprop in H0. destruct H0 as (P & HP & _ & Hu).
      destruct (decide (p_commit P = Some Done)) as [Hc|Hnc]; [eapply Hkeep; eassumption|].
      assert (Hc : p_commit P = Some Doing).
      { destruct Hu as [(i0 & _ & _ & [He|(Hc & _)] & _)|(T & _ & _ & _ & Hs)]; [congruence|exact Hc|].
        destruct Hs as [(_ & _ & ->)|[(_ & _ & _ & ->)|[(_ & _ & _ & _ & ->)|(_ & _ & _ & _ & _ & ->)]]]; cbn in Hd; congruence. }
      destruct (commit_done_step _ _ _ _ _ _ HP Hc H' Hd) as (Hap & Hab & C & C' & HC & HC' & Hcase).
      exists C'. split; [exact HC'|]. destruct Hcase as [[_ ->]|[Hne ->]]; [lia|].
      destruct (Hg _ _ _ _ HP HC Hc Hab Hap) as [He|Hle]; [congruence|exact Hle].
    - apply reconcile_createprop in H0. destruct H0 as (T & _ & _ & _ & _ & _ & _ & _ & _ & _ & [(c & ->)|(ri & ->)]); discriminate Hd.
  Qed.

  (* if the Commit guard holds in every reachable world, every proposal whose Commit phase is done has been merged *)
  Theorem commit_merged_of_guard :
    (forall w : world, reach w -> commit_guard w) -> forall w : world, reach w -> commit_merged w.
  Proof.
    intros Hg. assert (Hall : forall w : world, reach w -> merged_inv w).
    { apply (reach_ind candidate candidate_rb rollback_of overlay commit_merge payload record_applied touched restore
                       resync_payload doc_ok dev_apply stamp v_empty d_empty ch_empty merged_inv).
      - intros t i P H. cbn in H. rewrite lookup_empty in H. discriminate.
      - intros w l Hr Hm. apply merged_inv_step; auto. }
    intros w Hr t i P C HP HC Hc. destruct (Hall _ Hr _ _ _ HP Hc) as (C0 & HC0 & Hle). congruence.
  Qed.

  Theorem never_sent_before_merged_partial_guard (w : world) l evs t m term i r a :
    (forall w' : world, reach w' -> commit_guard w') -> reach w ->
    devlog (step w l) = devlog w ++ evs -> In (DevSet t m term (Some i) r a) evs ->
    exists (P : prop) (C : config), props w !! (t, i) = Some P /\ cfgs w !! t = Some C /\
      p_commit P = Some Done /\ i <= c_committed C.
  Proof.
    intros Hg Hr. apply never_sent_before_merged_partial; [exact Hr|]. apply commit_merged_of_guard; assumption.
  Qed.
  (** * Applied.Index <= Committed.Index, under the same guard *)
  Ltac sim_cbn S := apply sim_fields in S; cbn in S; destruct S as (S1 & S2 & S3 & S4 & S5 & S6 & S7 & S8 & S9).

  Definition applied_le_committed (w : world) : Prop :=
    forall t (C : config), cfgs w !! t = Some C -> c_applied C <= c_committed C.

  Lemma applied_le_committed_step (w : world) l :
    reach w -> commit_merged w -> applied_le_committed w -> applied_le_committed (step w l).
  Proof.
    intros Hr Hcm Hle t C' H'. apply cfg_step in H'.
    destruct H' as [(C & HC & [S|(ctl & n & o & c0 & -> & Hw & S)])|(Hn & i & n & o & -> & _ & Hcore)].
    - pose proof (Hle _ _ HC). sim_cbn S. lia.
    - pose proof (Hle _ _ HC). inversion Hw; subst; sim_cbn S; try lia.
      all: match goal with HP : props _ !! (_, _) = Some _ |- _ =>
             pose proof (links_ordered candidate candidate_rb rollback_of overlay commit_merge payload record_applied touched restore
                           resync_payload doc_ok dev_apply stamp v_empty d_empty ch_empty _ _ _ _ Hr HP) as [Hlk _] end; try lia.
      all: match goal with HP : props _ !! (_, _) = Some ?P, Ha : p_apply ?P = Some _ |- _ =>
        destruct (proposal_phase_order candidate candidate_rb rollback_of overlay commit_merge payload record_applied touched restore
                    resync_payload doc_ok dev_apply stamp v_empty d_empty ch_empty _ _ _ Hr HP) as (_ & _ & O3 & _);
        assert (Hc : p_commit P = Some Done) by (apply O3; rewrite Ha; eexists; reflexivity);
        pose proof (Hcm _ _ _ _ HP HC Hc) end; lia.
    - unfold core in Hcore. injection Hcore as _ _ -> -> _ _ _ _ _. lia.
  Qed.

  Theorem applied_le_committed_of_guard :
    (forall w : world, reach w -> commit_guard w) ->
    forall (w : world) t (C : config), reach w -> cfgs w !! t = Some C -> c_applied C <= c_committed C.
  Proof.
    intros Hg. assert (Hall : forall w : world, reach w -> applied_le_committed w).
    { apply (reach_ind candidate candidate_rb rollback_of overlay commit_merge payload record_applied touched restore
                       resync_payload doc_ok dev_apply stamp v_empty d_empty ch_empty applied_le_committed).
      - intros t C H. cbn in H. rewrite lookup_empty in H. discriminate.
      - intros w l Hr Hm. apply applied_le_committed_step; auto. apply commit_merged_of_guard; assumption. }
    intros w t C Hr HC. exact (Hall _ Hr _ _ HC).
  Qed.
  (* boolean form of [commit_guard], for concrete worlds *)
  Definition commit_guardb (w : world) : bool :=
    forallb (fun kp : N * N * prop =>
               match cfgs w !! kp.1.1 with
               | Some C => negb (bool_decide (p_commit kp.2 = Some Doing)) || (c_committed C =? p_prev kp.2) || (kp.1.2 <=? c_committed C)
               | None => true
               end) (map_to_list (props w)).

  Lemma commit_guardb_spec (w : world) : commit_guardb w = true -> commit_guard w.
  Proof.
    unfold commit_guardb, commit_guard. intros Hb t i P C HP HC Hc _ _.
    rewrite forallb_forall in Hb. specialize (Hb ((t, i), P)). cbn in Hb. rewrite HC in Hb.
    apply elem_of_map_to_list, elem_of_list_In in HP. specialize (Hb HP).
    rewrite bool_decide_eq_true_2 in Hb by exact Hc. cbn in Hb. apply orb_prop in Hb.
    destruct Hb as [Hb|Hb]; [left; apply N.eqb_eq; exact Hb|right; apply N.leb_le; exact Hb].
  Qed.
End CursorChain.

(* Proto3OrderCfgA2: the configuration-record writes of applyChange / applyRollback (the Applied cursor) that do not
   complete an apply preserve the frontier invariant. *)
From Coq Require Import List NArith Bool Arith Lia.
From OC Require Import Model.Proto3 Spec.Tla3 Proofs.Proto3Proofs Proofs.Proto3OrderBase.
Import ListNotations.
Open Scope N_scope.

Ltac prj := cbn [k_index k_ordinal k_revision k_target k_change] in *.
Ltac cfg_sinv HS g extra := sinv_by prj HS g extra.
Ltac hcfg cm ap := apply HInv_cfg with (cm := cm) (ap := ap); auto; try (cbn; lia); repeat constructor.

(* the Applied cursor skips a change whose apply FAILED or was ABORTED: index := i, ordinal := its ordinal, target := i *)
Lemma cfg_bump g n cm ap h i t ap' :
  IA g n cm ap h -> g i = Some t ->
  cc t = 2 -> ca t = 3 \/ ca t = 5 -> k_ordinal ap < t_cord t ->
  k_index ap' = i -> k_ordinal ap' = t_cord t -> k_revision ap' = k_revision ap -> k_target ap' = i ->
  IA g n cm ap' (h ++ []).
Proof.
  intros [HS HH] Hi G1 G2 G3 E1 E2 E3 E4. split.
  - sinv_by ltac:(rewrite ?E1, ?E2, ?E3, ?E4 in *) HS g idtac.
  - apply HInv_cfg with (cm := cm) (ap := ap); auto; try lia.
Qed.

(* applyRollback IN_PROGRESS, refused by the device: index := i, ordinal := Rollback.Ordinal *)
Lemma cfg_AR3 g n cm ap h i t :
  IA g n cm ap h -> g i = Some t ->
  rc t = 2 -> ra t = 1 ->
  IA g n cm {| k_index := i; k_ordinal := t_rord t; k_revision := k_revision ap; k_target := k_target ap; k_change := k_change ap |}
     (h ++ []).
Proof.
  intros [HS HH] Hi G1 G2. split.
  - cfg_sinv HS g ltac:(for_each_tx g ltac:(fun j t0 Hg => pf (no_change_apply_during_rollback_apply g n cm ap i t j t0 HS Hi G1 G2 Hg))).
  - pose proof (b1 _ _ _ _ HS i t Hi G2). hcfg cm ap.
Qed.

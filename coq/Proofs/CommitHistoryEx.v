(* Boolean forms of the history guards (sound), and a history that satisfies them: values are created, containers and
   whole lists deleted, values re-created beneath the deleted paths, a name sharing a textual prefix with a deleted leaf. *)
From Coq Require Import List NArith Bool String.
Local Open Scope string_scope.
From OC Require Import Base.Bytes Model.Merge Model.CfgStore
     Proofs.MergeProofs Proofs.TextPathProofs Proofs.MergeRefute Proofs.CommitProofs Proofs.CommitExample
     Proofs.CommitPreserve Proofs.CommitHistory.
Import ListNotations.
Open Scope N_scope.
Open Scope list_scope.

Definition stampedb (idx : N) (ch : cfgmap) : bool := forallb (fun kv => pv_index (snd kv) =? idx) ch.

Definition req_okb (ic : N * cfgmap) : bool :=
  keys_okb (snd ic) && nodupb (map fst (snd ic)) && proper_keysb (snd ic) && no_overlapb (snd ic) && stampedb (fst ic) (snd ic).

Fixpoint indexes_fromb (b : N) (h : list (N * cfgmap)) : bool :=
  match h with
  | [] => true
  | (i, _) :: h' => (b <=? i) && indexes_fromb (N.succ i) h'
  end.

Definition leaf_disciplineb (cs : list cfgmap) : bool :=
  forallb (fun c1 => forallb (fun pv => pv_deleted (snd pv)
                                        || forallb (fun c2 => forallb (fun kv => negb (is_path_below (fst kv) (fst pv))) c2) cs) c1) cs.

Definition history_okb (h : list (N * cfgmap)) : bool :=
  forallb req_okb h && indexes_fromb 0 h && leaf_disciplineb (map snd h).

Lemma stampedb_ok idx ch : stampedb idx ch = true -> stamped idx ch.
Proof.
  unfold stampedb, stamped. rewrite forallb_forall. intros H k c HI. specialize (H _ HI). cbn in H.
  apply N.eqb_eq in H. exact H.
Qed.

Lemma req_okb_ok ic : req_okb ic = true -> req_ok ic.
Proof.
  unfold req_okb, req_ok. rewrite !andb_true_iff. intros [[[[H1 H2] H3] H4] H5].
  split; [apply keys_okb_ok; exact H1|]. split; [apply nodupb_ok; exact H2|]. split; [apply proper_keysb_ok; exact H3|].
  split; [apply no_overlapb_ok; exact H4 | apply stampedb_ok; exact H5].
Qed.

Lemma indexes_fromb_ok h : forall b, indexes_fromb b h = true -> indexes_from b h.
Proof.
  induction h as [|[i ch] h IH]; intros b; cbn; [auto|].
  rewrite andb_true_iff. intros [H1 H2]. split; [apply N.leb_le; exact H1 | apply IH; exact H2].
Qed.

Lemma leaf_disciplineb_ok cs : leaf_disciplineb cs = true -> leaf_discipline cs.
Proof.
  unfold leaf_disciplineb, leaf_discipline. rewrite forallb_forall. intros H p q [c1 [v [H1 [Hv Dv]]]] [c2 [H2 Hq]].
  specialize (H _ H1). rewrite forallb_forall in H. specialize (H _ Hv). cbn in H. rewrite Dv in H. cbn in H.
  rewrite forallb_forall in H. specialize (H _ H2). rewrite forallb_forall in H.
  apply in_map_iff in Hq. destruct Hq as [[k w] [E Hq]]. cbn in E. subst k.
  specialize (H _ Hq). cbn in H. apply negb_true_iff in H. exact H.
Qed.

Lemma history_okb_ok h : history_okb h = true -> history_ok h.
Proof.
  unfold history_okb, history_ok. rewrite !andb_true_iff. intros [[H1 H2] H3].
  split; [|split; [apply indexes_fromb_ok; exact H2 | apply leaf_disciplineb_ok; exact H3]].
  apply Forall_forall. intros ic HI. apply req_okb_ok. rewrite forallb_forall in H1. apply H1. exact HI.
Qed.

Definition exH : list (N * cfgmap) :=
  [ (1, [upd "/a/b" "1" 1; upd "/a/c/d" "1" 1; upd "/l[k=1]/v" "1" 1; upd "/x" "1" 1]);
    (2, [del "/a" 2; del "/l" 2]);
    (3, [upd "/a/b" "2" 3; upd "/l[k=2]/v" "2" 3; del "/x" 3; upd "/xy" "2" 3]);
    (5, [del "/a/c" 5; upd "/m[k1=a][k2=b]/v" "9" 5]);
    (9, [upd "/a/c/d" "7" 9; del "/m[k1=a]" 9]) ].

Example history_example :
  history_ok exH /\
  live (run_history [] exH) (B "/a/b") = Some (B "2") /\
  live (run_history [] exH) (B "/a/c/d") = Some (B "7") /\
  live (run_history [] exH) (B "/l[k=1]/v") = None /\
  live (run_history [] exH) (B "/l[k=2]/v") = Some (B "2") /\
  live (run_history [] exH) (B "/x") = None /\
  live (run_history [] exH) (B "/xy") = Some (B "2") /\
  spec_history (fun _ => None) exH (B "/a/c/d") = Some (B "7") /\
  spec_history (fun _ => None) exH (B "/l[k=1]/v") = None.
Proof.
  split; [apply history_okb_ok; vm_compute; reflexivity|]. repeat split; vm_compute; reflexivity.
Qed.

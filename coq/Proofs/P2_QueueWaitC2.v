(* C09 - wait (c), Validate: towards the invariant over all reachable queued worlds.
   Statement [wait_c s] (STRONGER than asked: no enabledness premise - a delivery of the proposal at the open guard either
   writes its record or returns an error, which re-enters the same id):
     every stored proposal (t, i) in Validate IN_PROGRESS (no later phase started) with PrevIndex <> 0 and
     Committed.Index of t = PrevIndex is pending, or it is [guarded]: its predecessor (t, PrevIndex) is stored in
     Abort IN_PROGRESS (apply phase not started) and (Applied.Index of t <> the predecessor's PrevIndex - the abort cannot
     finish yet - or the predecessor itself is pending).
   PROVED here:
     wait_c_env          [wait_c] is preserved by every environment step;
     wait_c_deliver      [wait_c] is preserved by every delivery of a pending id c, GIVEN [guard_frame] for that delivery:
                         for every (t, j) <> c, guarded s t j -> guarded s' t j.  All other cases are proved: the proposal's
                         own record is written (delivery_wakes_owners), it is created (never in Validate), it is delivered
                         itself (validate_result: error re-queue or own write), Committed.Index reaches PrevIndex by this
                         delivery (committed_opens_wakes of P2_QueueWaitC), and the guardian itself is delivered
                         (own_delivery: requeue_next names (t, i), or nothing that the guard reads changes).
     wait_c_reach_cond   hence [wait_c] for every qreach state, CONDITIONAL on [guard_frame] for every delivery.
   MISSING: [guard_frame] itself, i.e. for a delivery of c <> CtlProp (t, j) with (t, j) in Abort IN_PROGRESS:
     (1) the record (t, j) is not written (needs the write shapes of the transaction controller on a proposal whose abort
         phase is IN_PROGRESS: rec_tx_putprop + J), and
     (2) if Applied.Index moves onto PrevIndex of (t, j), the mover (applied_moves_by_successor: the proposal
         (t, PrevIndex)) returns requeue_next, which names (t, j) by ci_prev - needs the result shape of the Apply
         IN_PROGRESS / Apply FAILED / Abort branches that write Applied.Index.
   Nothing here is exported to Properties/C09.v. *)
From stdpp Require Import gmap.
From RecordUpdate Require Import RecordUpdate.
From Coq Require Import NArith Lia.
From OC Require Import Model.Proto2 Model.Proto2Queue Proofs.P2Base Proofs.P2Phases Proofs.P2_Order Proofs.P2_Cursor
     Proofs.P2_CursorInv Proofs.P2_CursorLink Proofs.P2_CursorChainInv Proofs.P2_Queue Proofs.P2_QueueWaitA
     Proofs.P2_QueueWaitC.
Open Scope N_scope.

Section WaitC2.
  Context {V Ch Req D : Type}.
  Context (candidate : V -> Ch -> V) (candidate_rb : V -> Ch -> V) (rollback_of : V -> Ch -> Ch)
          (overlay : V -> V -> V) (commit_merge : N -> N -> V -> V -> Ch -> V)
          (payload : N -> V -> Ch -> option Req) (record_applied : N -> N -> V -> V -> V -> Ch -> V)
          (touched : N -> V -> Ch -> V) (restore : V -> V -> V)
          (resync_payload : V -> list (option Req)) (doc_ok : V -> bool)
          (dev_apply : D -> Req -> D) (stamp : N -> Ch -> Ch) (v_empty : V) (d_empty : D) (ch_empty : Ch).

  Notation world := (@world V Ch Req D).
  Notation eff := (@eff V Ch Req).
  Notation prop := (@prop Ch).
  Notation config := (@config V).
  Notation qworld := (@qworld V Ch Req D).
  Notation apply_eff := (@apply_eff V Ch Req D dev_apply d_empty).
  Notation rec_prop := (@rec_prop V Ch Req D candidate candidate_rb rollback_of overlay commit_merge payload record_applied
                                  touched restore doc_ok v_empty d_empty ch_empty).
  Notation reconcile := (@reconcile V Ch Req D candidate candidate_rb rollback_of overlay commit_merge payload record_applied
                                    touched restore resync_payload doc_ok stamp v_empty d_empty ch_empty).
  Notation step := (@step V Ch Req D candidate candidate_rb rollback_of overlay commit_merge payload record_applied
                          touched restore resync_payload doc_ok dev_apply stamp v_empty d_empty ch_empty).
  Notation qstep := (@qstep V Ch Req D candidate candidate_rb rollback_of overlay commit_merge payload record_applied
                            touched restore resync_payload doc_ok dev_apply stamp v_empty d_empty ch_empty).
  Notation qreach := (@qreach V Ch Req D candidate candidate_rb rollback_of overlay commit_merge payload record_applied
                              touched restore resync_payload doc_ok dev_apply stamp v_empty d_empty ch_empty).
  Notation T_reach := (T_inv_reach candidate candidate_rb rollback_of overlay commit_merge payload record_applied touched restore
                                   resync_payload doc_ok dev_apply stamp v_empty d_empty ch_empty).
  Notation C_reach := (C_inv_reach candidate candidate_rb rollback_of overlay commit_merge payload record_applied touched restore
                                   resync_payload doc_ok dev_apply stamp v_empty d_empty ch_empty).
  Notation q_reach := (qreach_reach candidate candidate_rb rollback_of overlay commit_merge payload record_applied touched restore
                                    resync_payload doc_ok dev_apply stamp v_empty d_empty ch_empty).
  Notation d_shape := (deliver_shape candidate candidate_rb rollback_of overlay commit_merge payload record_applied touched restore
                                     resync_payload doc_ok dev_apply stamp v_empty d_empty ch_empty).
  Notation d_step := (deliver_is_step candidate candidate_rb rollback_of overlay commit_merge payload record_applied touched restore
                                      resync_payload doc_ok dev_apply stamp v_empty d_empty ch_empty).
  Notation d_owners := (delivery_wakes_owners candidate candidate_rb rollback_of overlay commit_merge payload record_applied touched
                                              restore resync_payload doc_ok dev_apply stamp v_empty d_empty ch_empty).
  Notation committed_of := (@committed_of V Ch Req D).
  Notation applied_of := (@applied_of V Ch Req D).
  Notation requeue_next := (@requeue_next Ch).
  Notation upd_status := (@upd_status V Ch Req overlay restore v_empty).

  Definition validating (P : prop) : Prop :=
    p_apply P = None /\ p_abort P = None /\ p_commit P = None /\ p_validate P = Some Doing.
  Definition abort_doing (Q : prop) : Prop := p_apply Q = None /\ p_abort Q = Some Doing.
  Definition guarded (s : qworld) (t j : N) : Prop :=
    exists Q : prop, props (qw s) !! (t, j) = Some Q /\ abort_doing Q /\
      (applied_of (qw s) t <> p_prev Q \/ In (CtlProp (t, j)) (queue s)).
  Definition wait_c (s : qworld) : Prop :=
    forall t i (P : prop), props (qw s) !! (t, i) = Some P -> validating P -> p_prev P <> 0 ->
      committed_of (qw s) t = p_prev P ->
      In (CtlProp (t, i)) (queue s) \/ guarded s t (p_prev P).
  Definition guard_frame (s s' : qworld) (c : ctrl) : Prop :=
    forall t j, c <> CtlProp (t, j) -> guarded s t j -> guarded s' t j.

  Lemma ctrl_prop_dec (c : ctrl) (t i : N) : {c = CtlProp (t, i)} + {c <> CtlProp (t, i)}.
  Proof.
    destruct c as [j|[t0 i0]|t0|t0|cc]; try (right; discriminate).
    destruct (N.eq_dec t0 t) as [->|Hne]; [|right; intros [= H _]; exact (Hne H)].
    destruct (N.eq_dec i0 i) as [->|Hne]; [left; reflexivity|right; intros [= H]; exact (Hne H)].
  Qed.

  (* the proposal at the open validate guard: error re-queue, or a write of its own record *)
  Lemma validate_result (o : oracle) (w : world) t i (P : prop) (C : config) :
    props w !! (t, i) = Some P -> validating P -> cfgs w !! t = Some C -> c_committed C = p_prev P ->
    snd (rec_prop o w (t, i)) = RRetry \/ exists P'' : prop, In (EPutProp (t, i) P'') (fst (rec_prop o w (t, i))).
  Proof.
    intros HP (Hap & Hab & Hco & Hva) HC Hc. unfold Proto2.rec_prop, Proto2.vfail. rewrite HP, Hap, Hab, Hco, Hva, HC, Hc.
    rewrite N.eqb_refl. cbn [negb]. rewrite andb_false_r.
    repeat match goal with |- context [match ?x with _ => _ end] => destruct x eqn:? end; cbn [fst snd];
      first [left; reflexivity | right; eexists; left; reflexivity].
  Qed.

  (* the proposal in Abort IN_PROGRESS: requeue_next, or only Committed.Index moves, or nothing is written *)
  Lemma abort_result (o : oracle) (w : world) t j (Q : prop) (C : config) :
    props w !! (t, j) = Some Q -> abort_doing Q -> cfgs w !! t = Some C ->
    snd (rec_prop o w (t, j)) = requeue_next t Q \/
    (fst (rec_prop o w (t, j)) = upd_status t C (C <| c_committed := j |>) /\ c_applied C <> p_prev Q) \/
    (fst (rec_prop o w (t, j)) = [] /\ (c_applied C <> p_prev Q \/ c_committed C < j)).
  Proof.
    intros HP [Hap Hab] HC. unfold Proto2.rec_prop. rewrite HP, Hap, Hab, HC.
    destruct (c_committed C =? p_prev Q) eqn:E1; destruct (c_applied C =? p_prev Q) eqn:E2; cbn [andb].
    - left. reflexivity.
    - right. left. split; [reflexivity|]. apply N.eqb_neq in E2. exact E2.
    - destruct (j <=? c_committed C) eqn:E3; cbn [andb]; [left; reflexivity|]. right. right. split; [reflexivity|].
      right. apply N.leb_gt in E3. exact E3.
    - destruct ((j <=? c_committed C) && (j <=? c_applied C)); [left; reflexivity|]. right. right. split; [reflexivity|].
      left. apply N.eqb_neq in E2. exact E2.
  Qed.

  Lemma upd_status_frame (w : world) t (C C' : config) :
    cfgs w !! t = Some C ->
    props (fold_left apply_eff (upd_status t C C') w) = props w /\
    applied_of (fold_left apply_eff (upd_status t C C') w) t = c_applied C'.
  Proof.
    intros HC. unfold Proto2.upd_status. cbn [fold_left]. split.
    - rewrite !props_apply_eff. reflexivity.
    - unfold P2_Cursor.applied_of. rewrite cfgs_apply_eff. cbv iota. rewrite cfgs_apply_eff. cbv iota. rewrite HC.
      rewrite lookup_insert. rewrite lookup_insert. reflexivity.
  Qed.

  (* the guardian itself is delivered *)
  Lemma own_delivery (s : qworld) n o t j i (Q : prop) (C0 : config) :
    nth_error (queue s) n = Some (CtlProp (t, j)) ->
    props (qw s) !! (t, j) = Some Q -> abort_doing Q -> cfgs (qw s) !! t = Some C0 -> p_next Q = i -> i <> 0 ->
    (c_committed C0 = j \/ c_applied C0 <> p_prev Q) ->
    In (CtlProp (t, i)) (queue (qstep s (QDeliver n o))) \/
    (props (qw (qstep s (QDeliver n o))) !! (t, j) = Some Q /\ applied_of (qw (qstep s (QDeliver n o))) t <> p_prev Q).
  Proof.
    intros Hn HQ Hab HC0 Hnext Hi0 Halt.
    destruct (d_shape s n o _ Hn) as (Hw & _ & Hrq).
    destruct (abort_result o (qw s) t j Q C0 HQ Hab HC0) as [Hsnd|[[Hfst Hne]|[Hfst Hor]]].
    - left. apply Hrq. cbn [Proto2.reconcile]. rewrite Hsnd. unfold Proto2.requeue_next. rewrite Hnext.
      destruct (i =? 0) eqn:E; [apply N.eqb_eq in E; destruct (Hi0 E)|]. left. reflexivity.
    - right. rewrite Hw. cbn [Proto2.reconcile]. rewrite Hfst.
      destruct (upd_status_frame (qw s) t C0 (C0 <| c_committed := j |>) HC0) as [Hp Ha].
      rewrite Hp, Ha. split; [exact HQ|exact Hne].
    - right. rewrite Hw. cbn [Proto2.reconcile]. rewrite Hfst. cbn [fold_left]. split; [exact HQ|].
      unfold P2_Cursor.applied_of. rewrite HC0. destruct Hor as [H|H]; [exact H|].
      destruct Halt as [Hc|Hc]; [lia|exact Hc].
  Qed.

  Lemma committed_some (w : world) t x : x <> 0 -> committed_of w t = x -> exists C : config, cfgs w !! t = Some C /\ c_committed C = x.
  Proof.
    unfold P2_Cursor.committed_of. intros Hx. destruct (cfgs w !! t) as [C|]; intros H; [exists C; split; [reflexivity|exact H]|].
    destruct (Hx (eq_sym H)).
  Qed.

  (** * Deliveries *)
  Theorem wait_c_deliver (s : qworld) n o c :
    qreach s -> wait_c s -> nth_error (queue s) n = Some c ->
    guard_frame s (qstep s (QDeliver n o)) c -> wait_c (qstep s (QDeliver n o)).
  Proof.
    intros Hq IH Hn Hgf t i P' HP' Hval Hprev Hcom.
    pose proof (q_reach _ Hq) as Hr. pose proof (C_reach _ Hr) as HCI. pose proof (T_reach _ Hr) as HTI.
    destruct (d_shape s n o c Hn) as (_ & Hkeep & Hrq).
    pose proof (d_step s n o c Hn) as Hst.
    pose proof HP' as HP. rewrite Hst in HP.
    apply (prop_step candidate candidate_rb rollback_of overlay commit_merge payload record_applied touched restore
             resync_payload doc_ok dev_apply stamp v_empty d_empty ch_empty) in HP.
    destruct HP as [HP|(ctl & n0 & o0 & Hl & [Hput|[Hcr _]])].
    2:{ injection Hl as <- _ <-. left. apply (d_owners s n o c _ _ Hn Hput I). right. left. reflexivity. }
    2:{ exfalso. apply reconcile_createprop in Hcr. destruct Hcr as (T0 & _ & _ & _ & _ & _ & _ & _ & _ & _ & [(ch & ->)|(ri & ->)]);
          destruct Hval as (_ & _ & _ & Hv); cbn in Hv; discriminate. }
    assert (Hi0 : i <> 0).
    { intros ->. destruct (ti_created _ HTI _ _ _ HP) as (T & HTi & _). rewrite (ti_zero _ HTI) in HTi. discriminate. }
    destruct (ci_prev _ HCI _ _ _ HP Hprev) as (Q1 & HQ1 & Hnext1).
    destruct (N.eq_dec (committed_of (qw s) t) (p_prev P')) as [Heq|Hne].
    - destruct (committed_some _ _ _ Hprev Heq) as (C0 & HC0 & Hc0).
      destruct (IH t i P' HP Hval Hprev Heq) as [Hpend|(Q & HQ & Hab & Halt)].
      + destruct (ctrl_prop_dec c t i) as [->|Hc].
        * destruct (validate_result o (qw s) t i P' C0 HP Hval HC0 Hc0) as [Hsnd|(P'' & Hin)].
          -- left. apply Hrq. cbn [Proto2.reconcile]. rewrite Hsnd. left. reflexivity.
          -- left. apply (d_owners s n o _ _ _ Hn Hin I). right. left. reflexivity.
        * left. apply Hkeep; [exact Hpend|]. intros E. apply Hc. symmetry. exact E.
      + destruct (ctrl_prop_dec c t (p_prev P')) as [->|Hc].
        * assert (EQ : Some Q1 = Some Q) by (rewrite <- HQ1; exact HQ). injection EQ as ->.
          destruct (own_delivery s n o t (p_prev P') i Q C0 Hn HQ Hab HC0 Hnext1 Hi0 (or_introl Hc0)) as [Hp|[Hp Ha]].
          -- left. exact Hp.
          -- right. exists Q. split; [exact Hp|]. split; [exact Hab|]. left. exact Ha.
        * right. apply Hgf; [exact Hc|]. exists Q. split; [exact HQ|]. split; [exact Hab|exact Halt].
    - destruct (committed_opens_wakes candidate candidate_rb rollback_of overlay commit_merge payload record_applied touched restore
                  resync_payload doc_ok dev_apply stamp v_empty d_empty ch_empty s n o c t i P' Hq Hn HP Hprev Hne Hcom)
        as [Hp|(Q & HQ & -> & Hnext & Hap & Hab & Hcq & Haq)]; [left; exact Hp|].
      destruct (cfgs (qw s) !! t) as [C0|] eqn:HC0.
      2:{ exfalso. unfold P2_Cursor.committed_of, P2_Cursor.applied_of in Hcq, Haq. rewrite HC0 in Hcq, Haq. apply Haq. exact Hcq. }
      assert (Ha0 : c_applied C0 <> p_prev Q) by (unfold P2_Cursor.applied_of in Haq; rewrite HC0 in Haq; exact Haq).
      destruct (own_delivery s n o t (p_prev P') i Q C0 Hn HQ (conj Hap Hab) HC0 Hnext Hi0 (or_intror Ha0)) as [Hp|[Hp Ha]].
      + left. exact Hp.
      + right. exists Q. split; [exact Hp|]. split; [split; assumption|]. left. exact Ha.
  Qed.

  (** * Environment steps *)
  Lemma env_cursors (w : world) (l : @label Ch) t :
    (match l with LRec _ _ _ => False | _ => True end) ->
    committed_of (step w l) t = committed_of w t /\ applied_of (step w l) t = applied_of w t.
  Proof.
    intros Hl. split.
    - destruct (N.eq_dec (committed_of (step w l) t) (committed_of w t)) as [E|E]; [exact E|].
      apply (committed_moves_by_successor candidate candidate_rb rollback_of overlay commit_merge payload record_applied touched
               restore resync_payload doc_ok dev_apply stamp v_empty d_empty ch_empty) in E.
      destruct E as (i & k & o & P & -> & _). destruct Hl.
    - destruct (N.eq_dec (applied_of (step w l) t) (applied_of w t)) as [E|E]; [exact E|].
      apply (applied_moves_by_successor candidate candidate_rb rollback_of overlay commit_merge payload record_applied touched
               restore resync_payload doc_ok dev_apply stamp v_empty d_empty ch_empty) in E.
      destruct E as (i & k & o & P & -> & _). destruct Hl.
  Qed.

  Theorem wait_c_env (s : qworld) (l : @label Ch) : wait_c s -> wait_c (qstep s (QEnv l)).
  Proof.
    intros IH.
    assert (Hl : (match l with LRec _ _ _ => False | _ => True end) \/ exists c n o, l = LRec c n o).
    { destruct l; try (left; exact I). right. eauto. }
    destruct Hl as [Hl|(c & n & o & ->)]; [|exact IH].
    assert (Hs : qstep s (QEnv l) = mkQW (step (qw s) l) (queue s ++ env_wakes (qw s) l)) by (destruct l; try reflexivity; destruct Hl).
    rewrite Hs. clear Hs.
    destruct (env_frame candidate candidate_rb rollback_of overlay commit_merge payload record_applied touched restore
                resync_payload doc_ok dev_apply stamp v_empty d_empty ch_empty (qw s) l Hl) as (Hp & _ & _).
    intros t i P HP Hval Hprev Hcom. cbn [qw queue] in *.
    destruct (env_cursors (qw s) l t Hl) as [Hc Ha].
    rewrite Hp in HP. rewrite Hc in Hcom.
    destruct (IH t i P HP Hval Hprev Hcom) as [Hpend|(Q & HQ & Hab & Halt)].
    - left. apply in_or_app. left. exact Hpend.
    - right. exists Q. cbn [qw queue]. rewrite Hp, Ha. split; [exact HQ|]. split; [exact Hab|].
      destruct Halt as [H|H]; [left; exact H|right; apply in_or_app; left; exact H].
  Qed.

  (** * Every reachable queued world, conditional on the frame of the guardian *)
  Theorem wait_c_reach_cond :
    (forall (s : qworld) n o c, qreach s -> nth_error (queue s) n = Some c -> guard_frame s (qstep s (QDeliver n o)) c) ->
    forall s : qworld, qreach s -> wait_c s.
  Proof.
    intros Hgf s [ls ->]. induction ls as [|l ls IH] using rev_ind.
    - intros t i P H. cbn in H. rewrite lookup_empty in H. discriminate.
    - unfold Proto2Queue.qrun in *. rewrite fold_left_app. cbn [fold_left].
      assert (Hq : qreach (fold_left qstep ls qinit)) by (exists ls; reflexivity).
      destruct l as [n o|l].
      + destruct (nth_error (queue (fold_left qstep ls qinit)) n) as [c|] eqn:Hn.
        * apply wait_c_deliver with (c := c); try assumption. apply Hgf; assumption.
        * cbn [Proto2Queue.qstep]. rewrite Hn. exact IH.
      + apply wait_c_env. exact IH.
  Qed.
End WaitC2.

(* C07 - a crash between any two store writes loses nothing and repeats nothing (protocol part).
   A crash, a swallowed write conflict and an error returned between two persisted effects are all the same thing in
   Model/Proto2.v: the step [LRec c k o] executes the first k effects of the invocation.  Hence every invariant proved
   over [reach] holds at every crash point.  This file proves what the RE-RUN of an interrupted invocation does
   (commit, apply, abort of the proposal reconciler; the transaction reconciler), and exhibits the two interruption
   points after which the re-run does NOT complete the interrupted work with the same content. *)
From stdpp Require Import gmap.
From RecordUpdate Require Import RecordUpdate.
From Coq Require Import NArith Lia String.
From OC Require Import Base.Bytes Model.P2Pure Model.Proto2 Model.P2Inst Proofs.P2Base Proofs.P2Phases Proofs.P2_Failure.
Open Scope N_scope.

Section Crash.
  Context {V Ch Req D : Type}.
  Context (candidate : V -> Ch -> V) (candidate_rb : V -> Ch -> V) (rollback_of : V -> Ch -> Ch)
          (overlay : V -> V -> V) (commit_merge : N -> N -> V -> V -> Ch -> V)
          (payload : N -> V -> Ch -> option Req) (record_applied : N -> N -> V -> V -> V -> Ch -> V)
          (touched : N -> V -> Ch -> V) (restore : V -> V -> V)
          (resync_payload : V -> list (option Req)) (doc_ok : V -> bool)
          (dev_apply : D -> Req -> D) (stamp : N -> Ch -> Ch) (v_empty : V) (d_empty : D) (ch_empty : Ch).

  Notation world := (@world V Ch Req D).
  Notation eff := (@eff V Ch Req).
  Notation txn := (@txn Ch).
  Notation prop := (@prop Ch).
  Notation config := (@config V).
  Notation apply_eff := (@apply_eff V Ch Req D dev_apply d_empty).
  Notation rec_tx := (@rec_tx V Ch Req D stamp).
  Notation rec_prop := (@rec_prop V Ch Req D candidate candidate_rb rollback_of overlay commit_merge payload record_applied
                                  touched restore doc_ok v_empty d_empty ch_empty).
  Notation reconcile := (@reconcile V Ch Req D candidate candidate_rb rollback_of overlay commit_merge payload record_applied
                                    touched restore resync_payload doc_ok stamp v_empty d_empty ch_empty).
  Notation step := (@step V Ch Req D candidate candidate_rb rollback_of overlay commit_merge payload record_applied
                          touched restore resync_payload doc_ok dev_apply stamp v_empty d_empty ch_empty).
  Notation reach := (@reach V Ch Req D candidate candidate_rb rollback_of overlay commit_merge payload record_applied
                            touched restore resync_payload doc_ok dev_apply stamp v_empty d_empty ch_empty).
  Notation J := (@J V Ch Req D).
  Notation view := (@view V overlay).
  Notation aview := (@aview V overlay).
  Notation dev_answer := (@dev_answer V Ch Req D d_empty).
  Notation dev_of := (@dev_of V Ch Req D d_empty).
  Notation rb_change := (@rb_change Ch ch_empty).
  Notation upd_status := (@upd_status V Ch Req overlay restore v_empty).
  Notation sendable := (@sendable V Ch Req D overlay payload ch_empty).
  Notation after_answer := (@after_answer V Ch Req overlay record_applied touched restore v_empty ch_empty).

  (** * A crash point is a step; invariants survive it *)
  (* by definition of [step] *)
  Lemma prefix_is_step (w : world) c (k : nat) o :
    step w (LRec c k o) = fold_left apply_eff (firstn k (fst (reconcile o w c))) w.
  Proof. reflexivity. Qed.

  Lemma invariants_survive_crash (w : world) :
    reach w -> forall c (k : nat) o, J (step w (LRec c k o)) /\ reach (step w (LRec c k o)).
  Proof.
    intros Hr c k o. split.
    - apply (J_reach candidate candidate_rb rollback_of overlay commit_merge payload record_applied touched restore
                     resync_payload doc_ok dev_apply stamp v_empty d_empty ch_empty).
      apply reach_step. exact Hr.
    - apply reach_step. exact Hr.
  Qed.

  (* the general form: whatever is preserved by every step of the model holds after every crash point *)
  Lemma any_invariant_survives_crash (I : world -> Prop) :
    I init -> (forall w l, I w -> I (step w l)) ->
    forall w, reach w -> forall c (k : nat) o, I (step w (LRec c k o)).
  Proof.
    intros Hi Hs w Hr c k o. apply Hs.
    apply (reach_ind candidate candidate_rb rollback_of overlay commit_merge payload record_applied touched restore
                     resync_payload doc_ok dev_apply stamp v_empty d_empty ch_empty I); auto.
  Qed.

  (** * Commit *)
  Record committing (w : world) (t i : N) (P : prop) (C : config) : Prop := {
    cm_prop : props w !! (t, i) = Some P;
    cm_apply : p_apply P = None; cm_abort : p_abort P = None;
    cm_commit : p_commit P = Some Doing;
    cm_cfg : cfgs w !! t = Some C }.

  Definition commit_entry (i : N) (P : prop) (C : config) : config :=
    C <| c_index := match p_details P with PChange _ => i | PRollback _ => p_rbindex P end |>
      <| c_committed := i |> <| c_inline := v_empty |> <| c_ainline := aview C |>.

  Lemma commit_effects (o : oracle) (w : world) t i P C :
    committing w t i P C ->
    rec_prop o w (t, i) =
      ((if c_committed C =? p_prev P
        then [EPutValues t (commit_merge (o_order o) i (c_values C) (view C) (rb_change P)); EPutCfg t (commit_entry i P C)]
        else []) ++ [EPutProp (t, i) (P <| p_commit := Some Done |>)], requeue_next t P).
  Proof.
    intros [HP Ha Hb Hc HC]. unfold Proto2.rec_prop. rewrite HP, Ha, Hb, Hc, HC. reflexivity.
  Qed.

  (* the uninterrupted commit *)
  Lemma commit_effects_merge (o : oracle) (w : world) t i P C :
    committing w t i P C -> c_committed C = p_prev P ->
    rec_prop o w (t, i) =
      ([EPutValues t (commit_merge (o_order o) i (c_values C) (view C) (rb_change P)); EPutCfg t (commit_entry i P C);
        EPutProp (t, i) (P <| p_commit := Some Done |>)], requeue_next t P).
  Proof. intros Hc He. rewrite (commit_effects o w t i P C Hc), He, N.eqb_refl. reflexivity. Qed.

  (* crash after the entry write, before the proposal write: the committed index has moved past the predecessor,
     the re-run does not merge again and only writes the proposal *)
  Lemma commit_resume_after_entry (o o' : oracle) (w : world) t i P C :
    committing w t i P C -> c_committed C = p_prev P -> p_prev P <> i ->
    let w2 := step w (LRec (CtlProp (t, i)) 2 o) in
    rec_prop o' w2 (t, i) = ([EPutProp (t, i) (P <| p_commit := Some Done |>)], requeue_next t P) /\
    forall k', (1 <= k')%nat ->
      step w2 (LRec (CtlProp (t, i)) k' o') = step w (LRec (CtlProp (t, i)) 3 o).
  Proof.
    intros Hc He Hne w2.
    assert (Hc2 : committing w2 t i P
                    (commit_entry i P C <| c_values := commit_merge (o_order o) i (c_values C) (view C) (rb_change P) |>
                                        <| c_avalues := c_avalues C |>)).
    { subst w2. cbn [Proto2.step Proto2.reconcile]. rewrite (commit_effects_merge o w t i P C Hc He). cbn [fst firstn fold_left].
      destruct Hc as [HP Ha Hb Hcm HC]. split; try assumption.
      - rewrite !props_apply_eff. exact HP.
      - rewrite !cfgs_apply_eff. rewrite HC, lookup_insert. cbn. rewrite lookup_insert. reflexivity. }
    assert (Hr : rec_prop o' w2 (t, i) = ([EPutProp (t, i) (P <| p_commit := Some Done |>)], requeue_next t P)).
    { rewrite (commit_effects o' w2 t i P _ Hc2). cbn [c_committed commit_entry set].
      replace (i =? p_prev P) with false by (symmetry; apply N.eqb_neq; congruence). reflexivity. }
    split; [exact Hr|]. intros k' Hk'.
    cbn [Proto2.step Proto2.reconcile]. rewrite Hr. cbn [fst].
    destruct k' as [|k']; [lia|]. replace (firstn (S k') [_]) with [EPutProp (t, i) (P <| p_commit := Some Done |>) : eff] by (destruct k'; reflexivity).
    subst w2. cbn [Proto2.step Proto2.reconcile]. rewrite (commit_effects_merge o w t i P C Hc He). reflexivity.
  Qed.

  (* a committed proposal: its reconciler has no effect left *)
  Lemma committed_idle (o : oracle) (w : world) t i (P : prop) :
    props w !! (t, i) = Some P -> p_apply P = None -> p_abort P = None -> p_commit P = Some Done ->
    fst (rec_prop o w (t, i)) = [].
  Proof.
    intros HP Ha Hb Hc. unfold Proto2.rec_prop. rewrite HP, Ha, Hb, Hc. reflexivity.
  Qed.

  (* the configuration store's Update is ONE call of the controller but TWO persisted effects (path-value map, then the
     version-checked entry).  A cut is at a store-call boundary when it is not between those two. *)
  Definition store_boundary (k : nat) : Prop := k <> 1%nat.

  (* PARTIAL (cuts at store-call boundaries): wherever the commit invocation is cut, re-running it to its end gives
     exactly the world of ONE uninterrupted commit: nothing merged twice, nothing skipped *)
  Lemma commit_resume_boundary (o o' : oracle) (w : world) t i P C (k : nat) :
    committing w t i P C -> c_committed C = p_prev P -> p_prev P <> i -> store_boundary k ->
    step (step w (LRec (CtlProp (t, i)) k o)) (LRec (CtlProp (t, i)) 3 o') =
    step w (LRec (CtlProp (t, i)) 3 (if Nat.eqb k 0 then o' else o)).
  Proof.
    intros Hc He Hne Hk. destruct k as [|[|[|k]]].
    - reflexivity.
    - exfalso. apply Hk. reflexivity.
    - cbn [Nat.eqb]. destruct (commit_resume_after_entry o o' w t i P C Hc He Hne) as [_ H]. apply H. lia.
    - cbn [Nat.eqb].
      assert (Hfull : step w (LRec (CtlProp (t, i)) (S (S (S k))) o) = step w (LRec (CtlProp (t, i)) 3 o)).
      { cbn [Proto2.step Proto2.reconcile]. rewrite (commit_effects_merge o w t i P C Hc He). cbn [fst].
        rewrite firstn_all2 by (cbn; lia). reflexivity. }
      rewrite Hfull.
      set (w3 := step w (LRec (CtlProp (t, i)) 3 o)).
      assert (Hidle : fst (rec_prop o' w3 (t, i)) = []).
      { apply (committed_idle o' w3 t i (P <| p_commit := Some Done |>)).
        - subst w3. cbn [Proto2.step Proto2.reconcile]. rewrite (commit_effects_merge o w t i P C Hc He). cbn [fst firstn fold_left].
          rewrite !props_apply_eff. apply lookup_insert.
        - exact (cm_apply _ _ _ _ _ Hc).
        - exact (cm_abort _ _ _ _ _ Hc).
        - reflexivity. }
      cbn [Proto2.step Proto2.reconcile]. fold w3. rewrite Hidle. reflexivity.
  Qed.

  (* crash between the path-value write and the entry write: the committed index has not moved, the re-run merges
     again, now on top of the values already written *)
  Lemma commit_resume_after_values (o o' : oracle) (w : world) t i P C :
    committing w t i P C -> c_committed C = p_prev P ->
    let v1 := commit_merge (o_order o) i (c_values C) (view C) (rb_change P) in
    let w1 := step w (LRec (CtlProp (t, i)) 1 o) in
    let C1 := C <| c_values := v1 |> in
    cfgs w1 !! t = Some C1 /\
    rec_prop o' w1 (t, i) =
      ([EPutValues t (commit_merge (o_order o') i v1 (view C1) (rb_change P)); EPutCfg t (commit_entry i P C1);
        EPutProp (t, i) (P <| p_commit := Some Done |>)], requeue_next t P).
  Proof.
    intros Hc He v1 w1 C1.
    assert (Hc1 : committing w1 t i P C1).
    { subst w1. cbn [Proto2.step Proto2.reconcile]. rewrite (commit_effects_merge o w t i P C Hc He). cbn [fst firstn fold_left].
      destruct Hc as [HP Ha Hb Hcm HC]. split; try assumption.
      - rewrite !props_apply_eff. exact HP.
      - rewrite !cfgs_apply_eff. rewrite HC, lookup_insert. reflexivity. }
    split; [exact (cm_cfg _ _ _ _ _ Hc1)|].
    rewrite (commit_effects_merge o' w1 t i P C1 Hc1 He). reflexivity.
  Qed.

  (* the second merge changes nothing when the pure layer's merge is stable under repetition *)
  Definition merge_rerun_stable (ord ord' i : N) (C : config) (ch : Ch) : Prop :=
    let v1 := commit_merge ord i (c_values C) (view C) ch in
    commit_merge ord' i v1 (overlay (c_inline C) v1) ch = v1.

  Lemma commit_resume_after_values_same (o o' : oracle) (w : world) t i P C :
    committing w t i P C -> c_committed C = p_prev P ->
    merge_rerun_stable (o_order o) (o_order o') i C (rb_change P) ->
    cfgs (step (step w (LRec (CtlProp (t, i)) 1 o)) (LRec (CtlProp (t, i)) 3 o')) =
    cfgs (step w (LRec (CtlProp (t, i)) 3 o)) /\
    props (step (step w (LRec (CtlProp (t, i)) 1 o)) (LRec (CtlProp (t, i)) 3 o')) =
    props (step w (LRec (CtlProp (t, i)) 3 o)).
  Proof.
    intros Hc He Hst.
    destruct (commit_resume_after_values o o' w t i P C Hc He) as [HC1 Hr].
    cbn zeta in HC1, Hr.
    set (w1 := step w (LRec (CtlProp (t, i)) 1 o)) in *.
    cbn [Proto2.step Proto2.reconcile] in w1 |- *. fold w1. rewrite Hr. cbn [fst firstn fold_left].
    unfold merge_rerun_stable in Hst. cbn zeta in Hst. unfold Proto2.view in *. cbn [c_inline c_values set] in *. rewrite Hst.
    rewrite (commit_effects_merge o w t i P C Hc He). cbn [fst firstn fold_left].
    rewrite !props_apply_eff, !cfgs_apply_eff.
    assert (Hw1p : props w1 = props w).
    { subst w1. rewrite (commit_effects_merge o w t i P C Hc He). cbn [fst firstn fold_left]. rewrite props_apply_eff. reflexivity. }
    assert (Hw1c : cfgs w1 = <[t := C <| c_values := commit_merge (o_order o) i (c_values C) (overlay (c_inline C) (c_values C)) (rb_change P) |>]> (cfgs w)).
    { subst w1. rewrite (commit_effects_merge o w t i P C Hc He). cbn [fst firstn fold_left]. rewrite cfgs_apply_eff.
      rewrite (cm_cfg _ _ _ _ _ Hc). reflexivity. }
    rewrite Hw1p. split; [|reflexivity].
    rewrite Hw1c, (cm_cfg _ _ _ _ _ Hc). repeat (rewrite lookup_insert; cbv beta iota). rewrite !insert_insert.
    reflexivity.
  Qed.

  (** * Apply *)
  (* the applied index already covers the proposal: the re-run only records it *)
  Lemma apply_covered (o : oracle) (w : world) t i (P : prop) (C : config) :
    props w !! (t, i) = Some P -> p_apply P = Some Doing -> cfgs w !! t = Some C -> i <= c_applied C ->
    rec_prop o w (t, i) = ([EPutProp (t, i) (P <| p_apply := Some Done |> <| p_term := c_aterm C |>)], requeue_next t P).
  Proof.
    intros HP Ha HC Hle. unfold Proto2.rec_prop. rewrite HP, Ha, HC.
    replace (i <=? c_applied C) with true by (symmetry; apply N.leb_le; exact Hle). reflexivity.
  Qed.

  (* the device answered OK, so the election id was not below the highest the device had seen *)
  Lemma answered_ok_term (o : oracle) (w : world) t term :
    dev_answer w t term o = COk -> d_max (dev_of w t) <= term /\ o_answer o = COk.
  Proof.
    unfold Proto2.dev_answer. destruct (term <? d_max (dev_of w t)) eqn:E; [discriminate|].
    intros ->. apply N.ltb_ge in E. auto.
  Qed.

  (* crash after the device accepted the request, before anything was stored: the stores are as before, the re-run
     sends the SAME request again (the property text allows the re-send) and the device decides again *)
  Lemma apply_resume_after_send (o o' : oracle) (w : world) t i P C m req :
    sendable w t i P C m req -> dev_answer w t (c_term C) o = COk ->
    let w1 := step w (LRec (CtlProp (t, i)) 1 o) in
    sendable w1 t i P C m req /\
    dev_answer w1 t (c_term C) o' = o_answer o' /\
    rec_prop o' w1 (t, i) = after_answer (o_order o') t i P C m req (o_answer o').
  Proof.
    intros Hs Ha w1.
    assert (Hw1 : w1 = apply_eff w (EDev (DevSet t m (c_term C) (Some i) req COk))).
    { subst w1. cbn [Proto2.step Proto2.reconcile].
      rewrite (ok_effects candidate candidate_rb rollback_of overlay commit_merge payload record_applied touched restore
                          doc_ok v_empty d_empty ch_empty o w t i P C m req Hs Ha). reflexivity. }
    destruct (dev_event_stores dev_apply d_empty w (DevSet t m (c_term C) (Some i) req COk)) as (E1 & E2 & E3 & E4 & E5 & E6).
    assert (Hs1 : sendable w1 t i P C m req).
    { rewrite Hw1. eapply sendable_stores; [..|exact Hs]; assumption. }
    assert (Hd : dev_answer w1 t (c_term C) o' = o_answer o').
    { destruct (answered_ok_term o w t (c_term C) Ha) as [Hmax _].
      unfold Proto2.dev_answer, Proto2.dev_of. rewrite Hw1, (devs_apply_eff dev_apply d_empty). rewrite lookup_insert. cbn [default d_max].
      replace (c_term C <? _) with false; [reflexivity|]. symmetry. apply N.ltb_ge. unfold id. cbn [d_max]. lia. }
    split; [exact Hs1|]. split; [exact Hd|].
    rewrite (rec_prop_send candidate candidate_rb rollback_of overlay commit_merge payload record_applied touched restore
                           doc_ok v_empty d_empty ch_empty o' w1 t i P C m req Hs1), Hd. reflexivity.
  Qed.

  (* crash after the configuration entry was written, before the proposal write: the re-run only writes the proposal,
     with the term of the last synchronisation (equal to the mastership term whenever the request could be sent and
     applied terms never exceed mastership terms) *)
  Lemma apply_resume_after_entry (o o' : oracle) (w : world) t i P C m req :
    sendable w t i P C m req -> dev_answer w t (c_term C) o = COk ->
    let w3 := step w (LRec (CtlProp (t, i)) 3 o) in
    rec_prop o' w3 (t, i) = ([EPutProp (t, i) (P <| p_apply := Some Done |> <| p_term := c_aterm C |>)], requeue_next t P) /\
    (c_aterm C <= c_term C ->
     forall k', (1 <= k')%nat -> step w3 (LRec (CtlProp (t, i)) k' o') = step w (LRec (CtlProp (t, i)) 4 o)).
  Proof.
    intros Hs Ha w3.
    pose proof (ok_effects candidate candidate_rb rollback_of overlay commit_merge payload record_applied touched restore
                          doc_ok v_empty d_empty ch_empty o w t i P C m req Hs Ha) as He.
    assert (Hr : rec_prop o' w3 (t, i) = ([EPutProp (t, i) (P <| p_apply := Some Done |> <| p_term := c_aterm C |>)], requeue_next t P)).
    { subst w3. cbn [Proto2.step Proto2.reconcile]. rewrite He. cbn [fst firstn fold_left].
      erewrite apply_covered; cycle 1.
      - rewrite !props_apply_eff. exact (sd_prop _ _ _ _ _ _ _ _ _ _ Hs).
      - exact (sd_applying _ _ _ _ _ _ _ _ _ _ Hs).
      - rewrite !cfgs_apply_eff. rewrite (sd_cfg _ _ _ _ _ _ _ _ _ _ Hs), lookup_insert. cbn. rewrite lookup_insert. reflexivity.
      - cbn. lia.
      - reflexivity. }
    split; [exact Hr|]. intros Hterm k' Hk'.
    cbn [Proto2.step Proto2.reconcile]. rewrite Hr. cbn [fst].
    destruct k' as [|k']; [lia|].
    replace (firstn (S k') [_]) with [EPutProp (t, i) (P <| p_apply := Some Done |> <| p_term := c_aterm C |>) : eff] by (destruct k'; reflexivity).
    subst w3. cbn [Proto2.step Proto2.reconcile]. rewrite He. cbn [fst firstn fold_left].
    replace (c_aterm C) with (c_term C) by (pose proof (sd_term _ _ _ _ _ _ _ _ _ _ Hs); lia). reflexivity.
  Qed.

  (* a proposal whose apply FAILED: its reconciler never writes the proposal again (the failure is final); it only moves
     the applied index past the proposal if that has not happened yet (passFailedProposal) *)
  Lemma failed_pass (o : oracle) (w : world) t i (P : prop) (C : config) :
    props w !! (t, i) = Some P -> p_apply P = Some Failed -> cfgs w !! t = Some C ->
    rec_prop o w (t, i) =
      ((if c_applied C <? i
        then [EPutAValues t (restore (c_avalues C) (aview C));
              EPutCfg t (C <| c_applied := i |> <| c_inline := view C |> <| c_ainline := v_empty |>)]
        else []),
       requeue_next t P).
  Proof. intros HP Ha HC. unfold Proto2.rec_prop, Proto2.upd_status. rewrite HP, Ha, HC. reflexivity. Qed.

  (* REFUSED apply, interrupted.  The failure is written on the proposal BEFORE the applied index moves:
     - after the device event only (k = 1) nothing is stored, the proposal is sendable again (the request is re-sent);
     - after the proposal write (k = 2, 3) the proposal is FAILED with the class, and the re-run completes the move of
       the applied index (two configuration effects, no proposal write);
     - after all four effects the re-run has nothing left to do.
     In no case can the proposal be recorded APPLIED (finding F-17, repaired). *)
  Lemma refused_apply_resume_after_send (o o' : oracle) (w : world) t i P C m req f :
    sendable w t i P C m req ->
    dev_answer w t (c_term C) o <> COk ->
    classify (observed (dev_answer w t (c_term C) o)) = ClsFail f ->
    let w1 := step w (LRec (CtlProp (t, i)) 1 o) in
    sendable w1 t i P C m req /\ devs w1 = devs w /\
    rec_prop o' w1 (t, i) = after_answer (o_order o') t i P C m req (dev_answer w t (c_term C) o').
  Proof.
    intros Hs Hne Hc w1.
    pose proof (refusal_effects candidate candidate_rb rollback_of overlay commit_merge payload record_applied touched restore
                          doc_ok v_empty d_empty ch_empty o w t i P C m req f Hs Hne Hc) as He.
    assert (Hw1 : w1 = apply_eff w (EDev (DevSet t m (c_term C) (Some i) req (dev_answer w t (c_term C) o)))).
    { subst w1. cbn [Proto2.step Proto2.reconcile]. rewrite He. reflexivity. }
    destruct (dev_event_stores dev_apply d_empty w (DevSet t m (c_term C) (Some i) req (dev_answer w t (c_term C) o)))
      as (E1 & E2 & E3 & E4 & E5 & E6).
    assert (Hd : devs w1 = devs w) by (rewrite Hw1; apply refused_leaves_devices; exact Hne).
    assert (Hs1 : sendable w1 t i P C m req) by (rewrite Hw1; eapply sendable_stores; [..|exact Hs]; assumption).
    split; [exact Hs1|]. split; [exact Hd|].
    rewrite (rec_prop_send candidate candidate_rb rollback_of overlay commit_merge payload record_applied touched restore
                           doc_ok v_empty d_empty ch_empty o' w1 t i P C m req Hs1).
    unfold Proto2.dev_answer, Proto2.dev_of. rewrite Hd. reflexivity.
  Qed.

  Lemma refused_apply_resume (o o' : oracle) (w : world) t i P C m req f (k : nat) :
    sendable w t i P C m req ->
    dev_answer w t (c_term C) o <> COk ->
    classify (observed (dev_answer w t (c_term C) o)) = ClsFail f ->
    (2 <= k)%nat ->
    let wk := step w (LRec (CtlProp (t, i)) k o) in
    let P' := P <| p_apply := Some Failed |> <| p_afail := Some f |> <| p_term := c_term C |> in
    props wk !! (t, i) = Some P' /\ devs wk = devs w /\
    exists Ck, cfgs wk !! t = Some Ck /\
      (c_applied Ck = c_applied C \/ c_applied Ck = i) /\ c_committed Ck = c_committed C /\ c_values Ck = c_values C /\
      rec_prop o' wk (t, i) =
        ((if c_applied Ck <? i
          then [EPutAValues t (restore (c_avalues Ck) (aview Ck));
                EPutCfg t (Ck <| c_applied := i |> <| c_inline := view Ck |> <| c_ainline := v_empty |>)]
          else []),
         requeue_next t P) /\
      (* running the re-run to its end leaves the applied index at i *)
      (exists C', cfgs (step wk (LRec (CtlProp (t, i)) 2 o')) !! t = Some C' /\ c_applied C' = i /\
                  c_committed C' = c_committed C /\ c_values C' = c_values C) /\
      props (step wk (LRec (CtlProp (t, i)) 2 o')) !! (t, i) = Some P'.
  Proof.
    intros Hs Hne Hc Hk wk P'.
    pose proof (refusal_effects candidate candidate_rb rollback_of overlay commit_merge payload record_applied touched restore
                          doc_ok v_empty d_empty ch_empty o w t i P C m req f Hs Hne Hc) as He.
    pose proof (sd_prop _ _ _ _ _ _ _ _ _ _ Hs) as HP. pose proof (sd_cfg _ _ _ _ _ _ _ _ _ _ Hs) as HC.
    pose proof (sd_not_applied _ _ _ _ _ _ _ _ _ _ Hs) as Hlt.
    assert (Hdev : forall w0 : world, devs (apply_eff w0 (EDev (DevSet t m (c_term C) (Some i) req (dev_answer w t (c_term C) o)))) = devs w0).
    { intros w0. apply refused_leaves_devices. exact Hne. }
    assert (Hgen : forall Ck, cfgs wk !! t = Some Ck -> props wk !! (t, i) = Some P' ->
              rec_prop o' wk (t, i) =
              ((if c_applied Ck <? i
                then [EPutAValues t (restore (c_avalues Ck) (aview Ck));
                      EPutCfg t (Ck <| c_applied := i |> <| c_inline := view Ck |> <| c_ainline := v_empty |>)]
                else []),
               requeue_next t P)).
    { intros Ck HCk HPk. rewrite (failed_pass o' wk t i P' Ck HPk eq_refl HCk). reflexivity. }
    assert (Hfin : forall Ck, cfgs wk !! t = Some Ck -> props wk !! (t, i) = Some P' ->
              c_committed Ck = c_committed C -> c_values Ck = c_values C -> (c_applied Ck = c_applied C \/ c_applied Ck = i) ->
              (exists C', cfgs (step wk (LRec (CtlProp (t, i)) 2 o')) !! t = Some C' /\ c_applied C' = i /\
                          c_committed C' = c_committed C /\ c_values C' = c_values C) /\
              props (step wk (LRec (CtlProp (t, i)) 2 o')) !! (t, i) = Some P').
    { intros Ck HCk HPk Hcm Hv Hap. cbn [Proto2.step Proto2.reconcile]. rewrite (Hgen Ck HCk HPk). cbn [fst].
      destruct (c_applied Ck <? i) eqn:E.
      - cbn [firstn fold_left]. rewrite !cfgs_apply_eff, !props_apply_eff, HCk, lookup_insert. cbn. rewrite lookup_insert.
        split; [|exact HPk]. eexists. split; [reflexivity|]. cbn. repeat split; assumption.
      - cbn [firstn fold_left]. split; [|exact HPk]. exists Ck. split; [exact HCk|].
        apply N.ltb_ge in E. repeat split; try assumption. destruct Hap as [Hap|Hap]; [lia|exact Hap]. }
    subst wk. cbn [Proto2.step Proto2.reconcile] in *. rewrite He in *. cbn [fst] in *.
    destruct k as [|[|[|[|k]]]]; try lia.
    - (* k = 2 *)
      cbn [firstn fold_left] in *.
      assert (HPk : props (apply_eff (apply_eff w (EDev (DevSet t m (c_term C) (Some i) req (dev_answer w t (c_term C) o)))) (EPutProp (t, i) P')) !! (t, i) = Some P')
        by (rewrite !props_apply_eff; apply lookup_insert).
      assert (HCk : cfgs (apply_eff (apply_eff w (EDev (DevSet t m (c_term C) (Some i) req (dev_answer w t (c_term C) o)))) (EPutProp (t, i) P')) !! t = Some C)
        by (rewrite !cfgs_apply_eff; exact HC).
      split; [exact HPk|]. split; [rewrite !(devs_apply_eff dev_apply d_empty); destruct (dev_answer w t (c_term C) o) eqn:Eans; try reflexivity; exfalso; apply Hne; first [exact Eans|reflexivity]|].
      exists C. split; [exact HCk|]. split; [left; reflexivity|]. split; [reflexivity|]. split; [reflexivity|].
      split; [exact (Hgen _ HCk HPk)|]. eapply Hfin; [exact HCk|exact HPk|reflexivity|reflexivity|left; reflexivity].
    - (* k = 3 *)
      cbn [firstn fold_left] in *.
      match goal with |- props ?wk !! _ = _ /\ _ =>
        assert (HPk : props wk !! (t, i) = Some P') by (rewrite !props_apply_eff; apply lookup_insert);
        assert (HCk : cfgs wk !! t = Some (C <| c_avalues := restore (c_avalues C) (aview C) |>))
          by (rewrite !cfgs_apply_eff, HC; apply lookup_insert) end.
      split; [exact HPk|]. split; [rewrite !(devs_apply_eff dev_apply d_empty); destruct (dev_answer w t (c_term C) o) eqn:Eans; try reflexivity; exfalso; apply Hne; first [exact Eans|reflexivity]|].
      eexists. split; [exact HCk|]. split; [left; reflexivity|]. split; [reflexivity|]. split; [reflexivity|].
      split; [exact (Hgen _ HCk HPk)|]. eapply Hfin; [exact HCk|exact HPk|reflexivity|reflexivity|left; reflexivity].
    - (* k >= 4 *)
      rewrite firstn_all2 in * by (cbn; lia). cbn [fold_left] in *.
      match goal with |- props ?wk !! _ = _ /\ _ =>
        assert (HPk : props wk !! (t, i) = Some P') by (rewrite !props_apply_eff; apply lookup_insert);
        assert (HCk : cfgs wk !! t = Some (C <| c_applied := i |> <| c_inline := touched i (view C) (rb_change P) |> <| c_ainline := v_empty |>
                                             <| c_values := c_values C |> <| c_avalues := restore (c_avalues C) (aview C) |>))
          by (rewrite !cfgs_apply_eff, HC, lookup_insert; cbn; apply lookup_insert) end.
      split; [exact HPk|]. split; [rewrite !(devs_apply_eff dev_apply d_empty); destruct (dev_answer w t (c_term C) o) eqn:Eans; try reflexivity; exfalso; apply Hne; first [exact Eans|reflexivity]|].
      eexists. split; [exact HCk|]. split; [right; reflexivity|]. split; [reflexivity|]. split; [reflexivity|].
      split; [exact (Hgen _ HCk HPk)|]. eapply Hfin; [exact HCk|exact HPk|reflexivity|reflexivity|right; reflexivity].
  Qed.

  (** * Abort *)
  Record aborting (w : world) (t i : N) (P : prop) (C : config) : Prop := {
    ab_prop : props w !! (t, i) = Some P;
    ab_apply : p_apply P = None;
    ab_abort : p_abort P = Some Doing;
    ab_cfg : cfgs w !! t = Some C }.

  Lemma abort_effects (o : oracle) (w : world) t i P C :
    aborting w t i P C ->
    rec_prop o w (t, i) =
      if (c_committed C =? p_prev P) && (c_applied C =? p_prev P) then
        (upd_status t C (C <| c_committed := i |> <| c_applied := i |>) ++ [EPutProp (t, i) (P <| p_abort := Some Done |>)], requeue_next t P)
      else if c_committed C =? p_prev P then
        (upd_status t C (C <| c_committed := i |>), RDone)
      else if (c_applied C =? p_prev P) && (i <=? c_committed C) then
        (upd_status t C (C <| c_applied := i |>) ++ [EPutProp (t, i) (P <| p_abort := Some Done |>)], requeue_next t P)
      else if (i <=? c_committed C) && (i <=? c_applied C) then
        ([EPutProp (t, i) (P <| p_abort := Some Done |>)], requeue_next t P)
      else ([], if p_prev P =? 0 then RDone else RRequeueProp (t, p_prev P)).
  Proof.
    intros [HP Ha Hb HC]. unfold Proto2.rec_prop. rewrite HP, Ha, Hb, HC. reflexivity.
  Qed.

  (* the three branches, each with the configuration entry it writes *)
  Lemma abort_both (o : oracle) (w : world) t i P C :
    aborting w t i P C -> c_committed C = p_prev P -> c_applied C = p_prev P ->
    rec_prop o w (t, i) =
      ([EPutAValues t (restore (c_avalues C) (aview C));
        EPutCfg t (C <| c_committed := i |> <| c_applied := i |> <| c_inline := view C |> <| c_ainline := v_empty |>);
        EPutProp (t, i) (P <| p_abort := Some Done |>)], requeue_next t P).
  Proof. intros Ha H1 H2. rewrite (abort_effects o w t i P C Ha), H1, H2, N.eqb_refl. reflexivity. Qed.

  Lemma abort_committed_only (o : oracle) (w : world) t i P C :
    aborting w t i P C -> c_committed C = p_prev P -> c_applied C <> p_prev P ->
    rec_prop o w (t, i) =
      ([EPutAValues t (restore (c_avalues C) (aview C));
        EPutCfg t (C <| c_committed := i |> <| c_inline := view C |> <| c_ainline := v_empty |>)], RDone).
  Proof.
    intros Ha H1 H2. rewrite (abort_effects o w t i P C Ha), H1, N.eqb_refl.
    replace (c_applied C =? p_prev P) with false by (symmetry; apply N.eqb_neq; exact H2). reflexivity.
  Qed.

  Lemma abort_applied_only (o : oracle) (w : world) t i P C :
    aborting w t i P C -> c_committed C <> p_prev P -> c_applied C = p_prev P -> i <= c_committed C ->
    rec_prop o w (t, i) =
      ([EPutAValues t (restore (c_avalues C) (aview C));
        EPutCfg t (C <| c_applied := i |> <| c_inline := view C |> <| c_ainline := v_empty |>);
        EPutProp (t, i) (P <| p_abort := Some Done |>)], requeue_next t P).
  Proof.
    intros Ha H1 H2 H3. rewrite (abort_effects o w t i P C Ha), H2, N.eqb_refl.
    replace (c_committed C =? p_prev P) with false by (symmetry; apply N.eqb_neq; exact H1).
    replace (i <=? c_committed C) with true by (symmetry; apply N.leb_le; exact H3). reflexivity.
  Qed.

  (* neither index equals the predecessor and the proposal is not yet passed by both: the invocation does nothing *)
  Lemma abort_idle (o : oracle) (w : world) t i P C :
    aborting w t i P C -> c_committed C <> p_prev P -> c_applied C <> p_prev P -> c_committed C < i \/ c_applied C < i ->
    rec_prop o w (t, i) = ([], if p_prev P =? 0 then RDone else RRequeueProp (t, p_prev P)).
  Proof.
    intros Ha H1 H2 H3. rewrite (abort_effects o w t i P C Ha).
    replace (c_committed C =? p_prev P) with false by (symmetry; apply N.eqb_neq; exact H1).
    replace (c_applied C =? p_prev P) with false by (symmetry; apply N.eqb_neq; exact H2).
    replace ((i <=? c_committed C) && (i <=? c_applied C)) with false; [reflexivity|].
    symmetry. apply andb_false_iff. destruct H3 as [H3|H3]; [left|right]; apply N.leb_gt; exact H3.
  Qed.

  (* both indexes have passed the proposal: only the proposal status is left to write *)
  Lemma abort_passed (o : oracle) (w : world) t i P C :
    aborting w t i P C -> c_committed C <> p_prev P -> c_applied C <> p_prev P -> i <= c_committed C -> i <= c_applied C ->
    rec_prop o w (t, i) = ([EPutProp (t, i) (P <| p_abort := Some Done |>)], requeue_next t P).
  Proof.
    intros Ha H1 H2 H3 H4. rewrite (abort_effects o w t i P C Ha).
    replace (c_committed C =? p_prev P) with false by (symmetry; apply N.eqb_neq; exact H1).
    replace (c_applied C =? p_prev P) with false by (symmetry; apply N.eqb_neq; exact H2).
    replace (i <=? c_committed C) with true by (symmetry; apply N.leb_le; exact H3).
    replace (i <=? c_applied C) with true by (symmetry; apply N.leb_le; exact H4). reflexivity.
  Qed.

  (* the world after the two configuration effects of an abort *)
  Lemma abort_world2 (w : world) t i (P : prop) (C C' : config) va (rest : list eff) :
    aborting w t i P C ->
    let w2 := fold_left apply_eff (firstn 2 (EPutAValues t va :: EPutCfg t C' :: rest)) w in
    aborting w2 t i P (C' <| c_values := c_values C |> <| c_avalues := va |>).
  Proof.
    intros [HP Ha Hb HC]. cbv beta iota zeta delta [firstn]. cbn [fold_left]. split; try assumption.
    - rewrite !props_apply_eff. exact HP.
    - rewrite !cfgs_apply_eff. rewrite HC, lookup_insert. cbn. rewrite lookup_insert. reflexivity.
  Qed.

  (* crash before the entry write (after the re-store of the applied values only): the indexes have not moved, the
     re-run takes the same branch again *)
  Lemma abort_resume_after_values (w : world) t i (P : prop) (C : config) va (rest : list eff) :
    aborting w t i P C ->
    let w1 := fold_left apply_eff (firstn 1 (EPutAValues t va :: rest)) w in
    aborting w1 t i P (C <| c_avalues := va |>).
  Proof.
    intros [HP Ha Hb HC]. cbv beta iota zeta delta [firstn]. cbn [fold_left]. split; try assumption.
    - rewrite !props_apply_eff. exact HP.
    - rewrite !cfgs_apply_eff. rewrite HC, lookup_insert. reflexivity.
  Qed.

  (* crash - or a swallowed write conflict on the proposal - after the entry write of the first branch (Committed.Index =
     Applied.Index = i): both indexes have passed the proposal, the re-run writes the proposal ABORTED and the world is
     the one of the uninterrupted invocation (finding F-18, repaired: before, no branch matched and the proposal
     stayed ABORTING for ever) *)
  Lemma abort_both_resume (o o' : oracle) (w : world) t i P C :
    aborting w t i P C -> c_committed C = p_prev P -> c_applied C = p_prev P -> p_prev P <> i ->
    let w2 := step w (LRec (CtlProp (t, i)) 2 o) in
    rec_prop o' w2 (t, i) = ([EPutProp (t, i) (P <| p_abort := Some Done |>)], requeue_next t P) /\
    forall k', (1 <= k')%nat -> step w2 (LRec (CtlProp (t, i)) k' o') = step w (LRec (CtlProp (t, i)) 3 o).
  Proof.
    intros Ha H1 H2 Hne w2.
    assert (Hr : rec_prop o' w2 (t, i) = ([EPutProp (t, i) (P <| p_abort := Some Done |>)], requeue_next t P)).
    { subst w2. cbn [Proto2.step Proto2.reconcile]. rewrite (abort_both o w t i P C Ha H1 H2). cbn [fst].
      match goal with |- context [firstn 2 (EPutAValues t ?va :: EPutCfg t ?C' :: ?rest)] =>
        pose proof (abort_world2 w t i P C C' va rest Ha) as Ha2 end.
      cbn zeta in Ha2. apply (abort_passed o' _ t i P _ Ha2); cbn; try congruence; apply N.le_refl. }
    split; [exact Hr|]. intros k' Hk'.
    cbn [Proto2.step Proto2.reconcile]. rewrite Hr. cbn [fst].
    destruct k' as [|k']; [lia|].
    replace (firstn (S k') [_]) with [EPutProp (t, i) (P <| p_abort := Some Done |>) : eff] by (destruct k'; reflexivity).
    subst w2. cbn [Proto2.step Proto2.reconcile]. rewrite (abort_both o w t i P C Ha H1 H2). reflexivity.
  Qed.

  (* the same for the third branch *)
  Lemma abort_applied_resume (o o' : oracle) (w : world) t i P C :
    aborting w t i P C -> c_committed C <> p_prev P -> c_applied C = p_prev P -> i <= c_committed C -> p_prev P <> i ->
    let w2 := step w (LRec (CtlProp (t, i)) 2 o) in
    rec_prop o' w2 (t, i) = ([EPutProp (t, i) (P <| p_abort := Some Done |>)], requeue_next t P) /\
    forall k', (1 <= k')%nat -> step w2 (LRec (CtlProp (t, i)) k' o') = step w (LRec (CtlProp (t, i)) 3 o).
  Proof.
    intros Ha H1 H2 H3 Hne w2.
    assert (Hr : rec_prop o' w2 (t, i) = ([EPutProp (t, i) (P <| p_abort := Some Done |>)], requeue_next t P)).
    { subst w2. cbn [Proto2.step Proto2.reconcile]. rewrite (abort_applied_only o w t i P C Ha H1 H2 H3). cbn [fst].
      match goal with |- context [firstn 2 (EPutAValues t ?va :: EPutCfg t ?C' :: ?rest)] =>
        pose proof (abort_world2 w t i P C C' va rest Ha) as Ha2 end.
      cbn zeta in Ha2. apply (abort_passed o' _ t i P _ Ha2); cbn; try congruence; try apply N.le_refl; try exact H3. }
    split; [exact Hr|]. intros k' Hk'.
    cbn [Proto2.step Proto2.reconcile]. rewrite Hr. cbn [fst].
    destruct k' as [|k']; [lia|].
    replace (firstn (S k') [_]) with [EPutProp (t, i) (P <| p_abort := Some Done |>) : eff] by (destruct k'; reflexivity).
    subst w2. cbn [Proto2.step Proto2.reconcile]. rewrite (abort_applied_only o w t i P C Ha H1 H2 H3). reflexivity.
  Qed.

  (* second branch: it never writes the proposal; after its entry write the proposal waits until the applied index
     reaches its predecessor and then the third branch finishes the abort *)
  Lemma abort_committed_resume (o o' : oracle) (w : world) t i P C :
    aborting w t i P C -> c_committed C = p_prev P -> c_applied C <> p_prev P -> c_applied C < i -> p_prev P <> i ->
    let w2 := step w (LRec (CtlProp (t, i)) 2 o) in
    rec_prop o' w2 (t, i) = ([], if p_prev P =? 0 then RDone else RRequeueProp (t, p_prev P)) /\
    exists C2, aborting w2 t i P C2 /\ c_committed C2 = i /\ c_applied C2 = c_applied C.
  Proof.
    intros Ha H1 H2 H3 Hne w2. subst w2. cbn [Proto2.step Proto2.reconcile]. rewrite (abort_committed_only o w t i P C Ha H1 H2). cbn [fst].
    match goal with |- context [firstn 2 (EPutAValues t ?va :: EPutCfg t ?C' :: ?rest)] =>
      pose proof (abort_world2 w t i P C C' va rest Ha) as Ha2 end.
    cbn zeta in Ha2. split.
    - apply (abort_idle o' _ t i P _ Ha2); cbn; try congruence. right. exact H3.
    - eexists. split; [exact Ha2|]. split; reflexivity.
  Qed.

  (** * The transaction reconciler *)
  (* its output is a function of the transaction and proposal stores alone *)
  Lemma scan_props_snapshot (w w' : world) i tg f : props w = props w' -> scan_props w i tg f = scan_props w' i tg f.
  Proof. intros Hp. induction tg as [|t ts IH]; cbn [scan_props]; [reflexivity|]. rewrite Hp, IH. reflexivity. Qed.

  Lemma rec_tx_snapshot (w w' : world) i : txs w = txs w' -> props w = props w' -> rec_tx w i = rec_tx w' i.
  Proof.
    intros Ht Hp. unfold Proto2.rec_tx, phase_scan, gate, all_props, blocked_by_prev, create_props.
    rewrite Ht. destruct (txs w' !! i) as [T|]; [|reflexivity]. cbv zeta.
    rewrite !(scan_props_snapshot w w') by exact Hp. rewrite Hp. reflexivity.
  Qed.

  (* hence: an invocation repeated after steps that wrote no transaction and no proposal (whatever happened to
     configurations, devices, topology) emits exactly the same effects *)
  Lemma neutral_fold (effs : list eff) : forall w : world,
    Forall (@tp_neutral V Ch Req) effs ->
    txs (fold_left apply_eff effs w) = txs w /\ props (fold_left apply_eff effs w) = props w.
  Proof.
    induction effs as [|e r IH]; intros w Hf; [split; reflexivity|].
    inversion Hf as [|? ? He Hr]; subst. cbn [fold_left]. destruct (IH (apply_eff w e) Hr) as [E1 E2].
    rewrite E1, E2, txs_apply_eff, props_apply_eff. destruct e; try (split; reflexivity); destruct He.
  Qed.

  Lemma rec_tx_repeat (w : world) i c (k : nat) o :
    Forall (@tp_neutral V Ch Req) (firstn k (fst (reconcile o w c))) ->
    rec_tx (step w (LRec c k o)) i = rec_tx w i.
  Proof.
    intros Hf. cbn [Proto2.step]. destruct (neutral_fold _ w Hf) as [E1 E2]. apply rec_tx_snapshot; assumption.
  Qed.

  (* store writes of a record are idempotent: executing the same write twice is executing it once *)
  Lemma put_twice (w : world) (e : eff) :
    match e with EPutTx _ _ | EPutProp _ _ | ECreateProp _ _ | ECreateCfg _ _ | EPutValues _ _ | EPutAValues _ _ => True | _ => False end ->
    apply_eff (apply_eff w e) e = apply_eff w e.
  Proof.
    destruct e as [i T|k P|k P|t c| |t v|t v| | |]; intros He; try destruct He; cbn.
    - rewrite insert_insert. reflexivity.
    - destruct (props w !! k) eqn:E; cbn; [rewrite E; reflexivity|]. rewrite lookup_insert. reflexivity.
    - rewrite insert_insert. reflexivity.
    - destruct (cfgs w !! t) eqn:E; cbn; [rewrite E; reflexivity|]. rewrite lookup_insert. reflexivity.
    - destruct (cfgs w !! t) eqn:E; cbn; [|rewrite E; reflexivity]. rewrite lookup_insert. cbn. rewrite insert_insert. reflexivity.
    - destruct (cfgs w !! t) eqn:E; cbn; [|rewrite E; reflexivity]. rewrite lookup_insert. cbn. rewrite insert_insert. reflexivity.
  Qed.

  (* outside the proposal-creation branch an invocation of the transaction reconciler is at most ONE write *)
  Lemma rec_tx_single_write (w : world) i (T : txn) :
    txs w !! i = Some T -> is_Some (t_props T) \/ t_init T <> Some Doing \/ is_Some (t_validate T) ->
    (List.length (fst (rec_tx w i)) <= 1)%nat.
  Proof.
    intros HT Hc. unfold Proto2.rec_tx, phase_scan, gate, fail_init. rewrite HT.
    destruct_matches; cbn [fst List.length]; try lia.
    all: exfalso; destruct Hc as [[x Hx]|[Hx|[x Hx]]]; congruence.
  Qed.

  (* the proposal-creation branch: creations are guarded by the snapshot (nothing that exists is created again) and
     cover every target that has no proposal yet (nothing is lost); ECreateProp on an existing record is a no-op *)
  Lemma create_props_guarded (w : world) i (l : list (N * prop)) :
    Forall (fun e => exists t p, e = ECreateProp (t, i) p /\ props w !! (t, i) = None /\ In (t, p) l) (create_props w i l).
  Proof.
    unfold create_props. induction l as [|[t p] l IH]; cbn [flat_map]; [apply List.Forall_nil|].
    apply Forall_app_2.
    - cbn [fst snd]. destruct (props w !! (t, i)) eqn:E; [apply List.Forall_nil|].
      apply List.Forall_cons; [|apply List.Forall_nil]. exists t, p. repeat split; auto. left; reflexivity.
    - eapply Forall_impl; [exact IH|]. intros e (t' & p' & -> & Hn & Hin). exists t', p'. repeat split; auto. right; exact Hin.
  Qed.

  Lemma create_props_complete (w : world) i (l : list (N * prop)) t p :
    In (t, p) l -> props w !! (t, i) = None -> In (ECreateProp (t, i) p) (create_props w i l).
  Proof.
    intros Hin Hn. unfold create_props. apply in_flat_map. exists (t, p). split; [exact Hin|]. cbn [fst snd]. rewrite Hn. left; reflexivity.
  Qed.

  Lemma create_existing_noop (w : world) k (p : prop) : is_Some (props w !! k) -> apply_eff w (ECreateProp k p) = w.
  Proof. intros [q Hq]. cbn. rewrite Hq. reflexivity. Qed.
End Crash.

(** * Witnesses on the executable instance Model/P2Inst.v *)
Definition y_committing := @committing cmap cmap req dstate.
Definition y_aborting := @aborting cmap cmap req dstate.
Definition y_rec_prop := fun o w k => p2_reconcile o w (CtlProp k).
Definition y_state (w : Wd) (i : N) := t_state <$> (txs w !! i).
Definition y_papply (w : Wd) (k : N * N) := match props w !! k with Some p => p_apply p | None => None end.
Definition y_pabort (w : Wd) (k : N * N) := match props w !! k with Some p => p_abort p | None => None end.
Definition y_tabort (w : Wd) (i : N) := match txs w !! i with Some T => t_abort T | None => None end.

(* one change on target 1, every controller run round-robin with a friendly environment *)
Definition y_pre (n : nat) : list Label :=
  [LTarget 1 false; LConnUp 10 1; LChange [(1, x_ch "/a" "1")] true false] ++ x_rounds n (x_oracle COk) 1 [1].

(* round 10: the proposal is COMMITTING, the committed index is its predecessor (0) *)
Example y_commit_hyps : exists P C,
  y_committing (x_run (y_pre 10)) 1 1 P C /\ c_committed C = p_prev P /\ p_prev P <> 1 /\
  merge_rerun_stable overlay commit_merge 0 0 1 C (rb_change nil P).
Proof.
  eexists _, _. split; [split; vm_compute; reflexivity|].
  split; [vm_compute; reflexivity|]. split; [vm_compute; discriminate|]. vm_compute. reflexivity.
Qed.

(* round 13: APPLYING and sendable; the device answers OK *)
Example y_apply_hyps : exists P C r,
  x_sendable (x_run (y_pre 13)) 1 1 P C 10 r /\ dev_answer (nil : dstate) (x_run (y_pre 13)) 1 (c_term C) (x_oracle COk) = COk /\
  c_aterm C <= c_term C.
Proof. eexists _, _, _. split; [x_sendable_tac|]. split; vm_compute; [reflexivity|discriminate]. Qed.

(* REGRESSION for finding F-17 (a refused apply recorded as APPLIED when the invocation was cut between the configuration
   entry write and the proposal write; witness then: k = 3 followed by friendly rounds ended TApplied on a device that had
   refused).  The failure is now written first: wherever the refusing invocation stops (k = 0..4) and whatever the
   device answers afterwards (refusing again: y_refused; accepting: y_refused_then_ok for k >= 2), the transaction ends
   FAILED with the class, the applied index passes the proposal, and the device is never changed *)
Definition y_refused (k : nat) : Wd :=
  x_run (y_pre 13 ++ [LRec (CtlProp (1, 1)) k (x_oracle CInvalidArgument)] ++ x_rounds 4 (x_oracle CInvalidArgument) 1 [1]).
Definition y_refused_then_ok (k : nat) : Wd :=
  x_run (y_pre 13 ++ [LRec (CtlProp (1, 1)) k (x_oracle CInvalidArgument)] ++ x_rounds 4 (x_oracle COk) 1 [1]).
Definition y_failed_well (w : Wd) : bool :=
  bool_decide (y_state w 1 = Some TFailed) && bool_decide (y_papply w (1, 1) = Some Failed) &&
  bool_decide ((match props w !! (1, 1) with Some p => p_afail p | None => None end) = Some FInvalid) &&
  bool_decide ((match txs w !! 1 with Some T => t_failure T | None => None end) = Some FInvalid) &&
  bool_decide ((c_applied <$> cfgs w !! 1) = Some 1) &&
  bool_decide (List.length (w_devs w) = 0%nat).

Lemma refused_apply_crash_regression :
  forallb (fun k => y_failed_well (y_refused k)) [0; 1; 2; 3; 4; 5]%nat = true /\
  forallb (fun k => y_failed_well (y_refused_then_ok k)) [2; 3; 4]%nat = true.
Proof. split; vm_compute; reflexivity. Qed.

(* a change that the model plugin rejects: round 9 ends with the proposal ABORTING, both indexes at its predecessor *)
Definition y_bad : oracle := mkOracle true false COk 0 0.
Definition y_rejected (n : nat) : list Label :=
  [LTarget 1 false; LConnUp 10 1; LChange [(1, x_ch "/a" "1")] true false] ++ x_rounds n y_bad 1 [1].

Example y_abort_both_hyps : exists P C,
  y_aborting (x_run (y_rejected 9)) 1 1 P C /\ c_committed C = p_prev P /\ c_applied C = p_prev P /\ p_prev P <> 1.
Proof.
  eexists _, _. split; [split; vm_compute; reflexivity|].
  split; [vm_compute; reflexivity|]. split; [vm_compute; reflexivity|]. vm_compute; discriminate.
Qed.

(* REGRESSION for finding F-18 (stopped after the entry write, k = 2, no branch of reconcileAbort matched any more and the
   proposal stayed ABORTING for ever; witness then: y_aborted 2 20 still ABORTING).  Wherever the invocation stops, two
   more rounds complete the abort *)
Definition y_aborted (k n : nat) : Wd :=
  x_run (y_rejected 9 ++ [LRec (CtlProp (1, 1)) k y_bad] ++ x_rounds n y_bad 1 [1]).

Lemma abort_crash_regression :
  forallb (fun k => bool_decide (y_pabort (y_aborted k 2) (1, 1) = Some Done) &&
                    bool_decide (y_tabort (y_aborted k 2) 1 = Some Done) &&
                    bool_decide (y_state (y_aborted k 2) 1 = Some TFailed) &&
                    bool_decide ((c_applied <$> cfgs (y_aborted k 2) !! 1) = Some 1) &&
                    bool_decide ((c_committed <$> cfgs (y_aborted k 2) !! 1) = Some 1)) [0; 1; 2; 3]%nat = true.
Proof. vm_compute; reflexivity. Qed.

(* the second and third abort branches: change 1 is committed but cannot be applied (device unreachable), change 2 is
   rejected by the plugin: its abort first advances the committed index only *)
Definition y_o1 : oracle := mkOracle true true CUnavailable 0 0.
Definition y_o2 : oracle := mkOracle true false CUnavailable 0 0.
Definition y_two (n : nat) : list Label :=
  [LTarget 1 false; LConnUp 10 1; LChange [(1, x_ch "/a" "1")] true false] ++ x_rounds 14 y_o1 1 [1]
  ++ [LChange [(1, x_ch "/b" "2")] true false] ++ x_rounds n y_o2 1 [2].

Example y_abort_committed_hyps : exists P C,
  y_aborting (x_run (y_two 11)) 1 2 P C /\ c_committed C = p_prev P /\ c_applied C <> p_prev P /\ p_prev P <> 2.
Proof.
  eexists _, _. split; [split; vm_compute; reflexivity|].
  split; [vm_compute; reflexivity|]. split; vm_compute; discriminate.
Qed.

(* ... then the device comes back, change 1 is applied, and the third branch finishes the abort of change 2 *)
Definition y_three : list Label :=
  y_two 11 ++ [LRec (CtlProp (1, 2)) 9 y_o2] ++ x_rounds 2 (x_oracle COk) 1 [1].

Example y_abort_applied_hyps : exists P C,
  y_aborting (x_run y_three) 1 2 P C /\ c_committed C <> p_prev P /\ c_applied C = p_prev P /\ 2 <= c_committed C /\ p_prev P <> 2.
Proof.
  eexists _, _. split; [split; vm_compute; reflexivity|].
  split; [vm_compute; discriminate|]. split; [vm_compute; reflexivity|]. split; vm_compute; discriminate.
Qed.

(* the transaction reconciler in a snapshot that a configuration-controller step left unchanged *)
Example y_tx_repeat_hyps :
  Forall (@tp_neutral cmap cmap req) (firstn 1 (fst (p2_reconcile (x_oracle COk) (x_run (y_pre 5)) (CtlCfg 1)))) /\
  fst (p2_reconcile (x_oracle COk) (x_run (y_pre 5)) (CtlCfg 1)) <> [].
Proof. split; vm_compute; [repeat constructor|discriminate]. Qed.

(* REFUTATION of the repeated merge: a Set that deletes /a and sets /a/c in one request.  The invocation stops between the
   path-value write and the entry write (k = 1); the committed index has not moved, the re-run merges the same change
   again into the values already written: AddDeleteChildren now finds /a/c in the store and cascades the delete to it.
   Uninterrupted (k = 3) the stored configuration shows /a/c = 2, after the torn commit it is empty. *)
Definition y_replace : cmap := [(B "/a", mkPV (B "/a") [] true 0); (B "/a/c", mkPV (B "/a/c") (B "2") false 0)].
Definition y_torn (k : nat) : Wd :=
  x_run ([LTarget 1 false; LConnUp 10 1; LChange [(1, y_replace)] true false] ++ x_rounds 10 (x_oracle COk) 1 [1]
         ++ [LRec (CtlProp (1, 1)) k (x_oracle COk)] ++ x_rounds 6 (x_oracle COk) 1 [1]).
Definition y_live (w : Wd) (t : N) := match cfgs w !! t with Some C => live (c_values C) | None => [] end.

Lemma torn_commit_refuted :
  y_state (y_torn 3) 1 = Some TApplied /\ y_live (y_torn 3) 1 = [(B "/a/c", B "2")] /\
  y_state (y_torn 1) 1 = Some TApplied /\ y_live (y_torn 1) 1 = [].
Proof. repeat (split; [vm_compute; reflexivity|]). vm_compute; reflexivity. Qed.

Lemma merge_rerun_unstable :
  exists (C : Cfg) (ch : cmap), ~ merge_rerun_stable overlay commit_merge 0 0 1 C ch.
Proof.
  exists (mkCfg 0 [] [] [] [] 1 0 0 CUnknown None 0 None 0), (stamp 1 y_replace). vm_compute. discriminate.
Qed.

(* C06, value level: the hypotheses are satisfiable (Examples), each of them is needed (counterexamples when one is
   dropped); regression example for finding F-24 (the candidate validated for a rollback before the repair). *)
From Coq Require Import List NArith Bool String.
From OC Require Import Base.Bytes Model.P2Pure Proofs.P2PureRollbackAdc Proofs.P2PureRollbackBool.
Import ListNotations.
Open Scope string_scope.
Open Scope N_scope.

Definition lv (p v : string) (i : N) : str * pv := (B p, mkPV (B p) (B v) false i).
Definition tb (p : string) (i : N) : str * pv := (B p, mkPV (B p) [] true i).

(** * a non-trivial input satisfying every hypothesis *)
Definition ex_m : cmap :=
  [lv "/if[n=e0]/mtu" "1500" 1; lv "/if[n=e0]/desc" "up" 2; lv "/if[n=e1]/mtu" "9000" 3; lv "/if[n=e1]/desc" "b" 3;
   lv "/sys/name" "r1" 1; tb "/old" 2; tb "/sys/ntp" 3; tb "/gone" 0].
(* the entry's inline copy (left behind by a status update): part of the stored map *)
Definition ex_inl : cmap := [lv "/sys/name" "r1" 1; tb "/old" 2].
Definition ex_vw : cmap := overlay ex_inl ex_m.
Definition ex_ch : cmap :=
  [lv "/if[n=e0]/mtu" "1400" 5;     (* overwrite *)
   tb "/if[n=e1]" 5;                (* delete of a list entry that is not itself stored: its leaves go with it *)
   lv "/old/x" "7" 5;               (* new value beneath a tombstone: the tombstone is dropped *)
   tb "/sys/name" 5;                (* delete of a leaf *)
   lv "/new" "1" 5;                 (* new path *)
   tb "/sys/ntp/server" 5;          (* delete beneath a tombstone *)
   tb "/gone" 5].                   (* delete of a tombstone *)

Example ex_wf : rollback_wf 5 6 ex_m ex_vw ex_ch = true.
Proof. vm_compute. reflexivity. Qed.

Example ex_view_differs_in_order : ex_vw <> ex_m /\ sameb ex_vw ex_m = true.
Proof. split; [intros H; vm_compute in H; discriminate | vm_compute; reflexivity]. Qed.

(* the change really changes what Get shows ... *)
Example ex_changed :
  live (overlay [] (commit_merge 3 5 ex_m ex_vw ex_ch)) =
  [(B "/if[n=e0]/desc", B "up"); (B "/if[n=e0]/mtu", B "1400"); (B "/new", B "1"); (B "/old/x", B "7")].
Proof. vm_compute. reflexivity. Qed.

(* ... and the rollback brings back the five old values (an instance of the theorem, evaluated) *)
Example ex_restored :
  let m1 := commit_merge 3 5 ex_m ex_vw ex_ch in
  let m2 := commit_merge 11 6 m1 (overlay [] m1) (rollback_of ex_vw ex_ch) in
  live (overlay [] m2) = live ex_vw /\ List.length (live ex_vw) = 5%nat.
Proof. vm_compute. split; reflexivity. Qed.

(* the rollback values: old values of the named paths, the leaves beneath the deleted list entry, the dropped tombstone,
   tombstones for the created paths *)
Example ex_rollback_values :
  map (fun kv => (fst kv, pv_deleted (snd kv), pv_index (snd kv))) (rollback_of ex_vw ex_ch) =
  [(B "/if[n=e0]/mtu", false, 1); (B "/if[n=e1]/mtu", false, 3); (B "/if[n=e1]/desc", false, 3); (B "/old", true, 2);
   (B "/old/x", true, 0); (B "/sys/name", false, 1); (B "/new", true, 0); (B "/gone", true, 0)].
Proof. vm_compute. reflexivity. Qed.

(** * the candidate validated for the rollback: regression for finding F-24 (repaired in /repo by 3342112) *)
(* reconcileValidate's Rollback case BEFORE the repair: the rollback values overwrote the loaded values
   (changeValues[path] = rollbackValue).  Stored: the leaf /a/c = 1.  Transaction 5 deletes the container /a (not itself
   a stored value).  The rollback values are {/a/c = 1}; after the change's commit the stored map is {/a deleted}.  The
   old candidate was {/a deleted, /a/c = 1} and BuildTree pruned /a/c: the model plugin validated the EMPTY
   configuration, not the restored one.  The repaired function (applyChangeToConfig drops the tombstone) shows it. *)
Definition candidate_rb_before_F24 (persisted rb : cmap) : cmap :=
  fold_left (fun cand '(p, v) => insert p v cand) rb persisted.
Definition cx_m : cmap := [lv "/a/c" "1" 1].
Definition cx_ch : cmap := [tb "/a" 5].

Example candidate_regression_F24 :
  rollback_wf 5 6 cx_m cx_m cx_ch = true /\
  let rb := rollback_of cx_m cx_ch in
  let m1 := commit_merge 0 5 cx_m cx_m cx_ch in
  rb = [lv "/a/c" "1" 1] /\ m1 = [tb "/a" 5] /\
  live cx_m = [(B "/a/c", B "1")] /\
  live (candidate_rb_before_F24 (overlay [] m1) rb) = [] /\
  live (candidate_rb (overlay [] m1) rb) = [(B "/a/c", B "1")] /\
  live (commit_merge 0 6 m1 (overlay [] m1) rb) = [(B "/a/c", B "1")].
Proof. vm_compute. repeat split; reflexivity. Qed.

(* the candidate of the larger example, rollback values taken in another order *)
Example ex_candidate :
  let m1 := commit_merge 3 5 ex_m ex_vw ex_ch in
  live (candidate_rb (overlay [] m1) (permute 4711 (rollback_of ex_vw ex_ch))) = live ex_vw.
Proof. vm_compute. reflexivity. Qed.

(** * every hypothesis is needed *)
(* an update of a path that has a live value beneath it: the rollback's tombstone for the new path takes the value
   beneath it away *)
Example leaves_needed :
  let m := [lv "/a/c" "1" 1] in let ch := [lv "/a" "9" 5] in
  updates_are_leavesb m ch = false /\
  let m1 := commit_merge 0 5 m m ch in
  live (commit_merge 0 6 m1 (overlay [] m1) (rollback_of m ch)) = [] /\ live m = [(B "/a/c", B "1")].
Proof. vm_compute. repeat split; reflexivity. Qed.

(* finding F-14 (open): a delete and an update beneath it in one change - for this iteration order the delete wins,
   the rollback values hold the change's own tombstone, and the rollback restores nothing *)
Example no_delete_above_update_needed :
  let m := [lv "/a/b" "1" 1] in let ch := [tb "/a" 5; lv "/a/b" "9" 5] in
  no_delete_above_updateb ch = false /\
  let m1 := commit_merge 7343 5 m m ch in
  live (commit_merge 59095 6 m1 (overlay [] m1) (rollback_of m ch)) = [] /\ live m = [(B "/a/b", B "1")].
Proof. vm_compute. repeat split; reflexivity. Qed.

(* a live value stored beneath a tombstone (invisible): deleting and rolling back makes it visible *)
Example clean_needed :
  let m := [tb "/a" 2; lv "/a/b" "1" 1] in let ch := [tb "/a/b" 5] in
  cleanb m = false /\
  let m1 := commit_merge 0 5 m m ch in
  live (commit_merge 0 6 m1 (overlay [] m1) (rollback_of m ch)) = [(B "/a/b", B "1")] /\ live m = [].
Proof. vm_compute. repeat split; reflexivity. Qed.

(* Get's filter for wildcard-free queries: exactly the addressed node and what lies beneath it at path element
   boundaries. *)
From Coq Require Import List NArith Bool.
From OC Require Import Base.Bytes Model.Merge Model.Wildcard Proofs.MergeProofs.
Import ListNotations.
Open Scope N_scope.

Definition plain_char (c : N) : bool := negb (c =? c_star) && negb (c =? c_dot).
Definition plain (q : str) : bool := forallb plain_char q.

Lemma compile_plain q : plain q = true -> compile_toks q = map RLit q.
Proof.
  induction q as [|c q IH]; cbn [plain forallb]; intros H; [reflexivity|].
  apply andb_true_iff in H. destruct H as [Hc Hq].
  unfold plain_char in Hc. apply andb_true_iff in Hc. destruct Hc as [H1 H2].
  apply negb_true_iff in H1. apply negb_true_iff in H2.
  cbn [compile_toks map]. rewrite H1, H2. cbn [andb].
  destruct q as [|c2 [|c3 q3]]; rewrite <- (IH Hq); reflexivity.
Qed.

Lemma rmatch_lits q : forall e p,
  rmatch (map RLit q) e p = match strip_prefix q p with Some r => end_ok e r | None => false end.
Proof.
  induction q as [|c q IH]; intros e p; cbn; [reflexivity|].
  destruct p as [|x p]; [reflexivity|].
  rewrite N.eqb_sym. destruct (c =? x); cbn; [apply IH | reflexivity].
Qed.

Lemma strip_prefix_nil_eq q : forall p, strip_prefix q p = Some [] <-> p = q.
Proof.
  induction q as [|c q IH]; intros p; cbn.
  - split; [intros [= ->]; reflexivity | intros ->; reflexivity].
  - destruct p as [|x p]; [split; discriminate|].
    destruct (c =? x) eqn:E.
    + apply N.eqb_eq in E. subst x. rewrite IH. split; [intros ->; reflexivity | intros [= ->]; reflexivity].
    + apply N.eqb_neq in E. split; [discriminate | intros [= -> ->]; congruence].
Qed.

(* a wildcard-free query that does not end in "/" selects the node itself and everything strictly beneath it
   at a path element boundary - nothing else (in particular not /a/bc for /a/b) *)
Theorem get_literal_exact q p :
  plain q = true -> q <> [] -> q <> [c_slash] -> ends_with [c_slash] q = false ->
  match_wildcard q false p = eqb_str p q || is_path_below p q.
Proof.
  intros HP H1 H2 HS. unfold match_wildcard, compile_end. rewrite HS.
  assert (HD : ends_with [c_dot; c_dot; c_dot] q = false).
  { destruct (ends_with [c_dot; c_dot; c_dot] q) eqn:E; [|reflexivity]. exfalso.
    unfold ends_with in E. apply suffixb_spec in E. destruct E as [r ->].
    unfold plain in HP. rewrite forallb_app in HP. apply andb_true_iff in HP. destruct HP as [_ HP].
    cbn in HP. discriminate. }
  rewrite HD. cbn [orb]. rewrite (compile_plain q HP), rmatch_lits.
  unfold is_path_below.
  destruct (eqb_str q []) eqn:E1; [apply eqb_str_eq in E1; contradiction|].
  destruct (eqb_str q [c_slash]) eqn:E2; [apply eqb_str_eq in E2; contradiction|].
  cbn [orb].
  destruct (strip_prefix q p) as [[|c r]|] eqn:S; cbn [end_ok].
  - apply strip_prefix_nil_eq in S. subst p. rewrite eqb_str_refl. reflexivity.
  - destruct (eqb_str p q) eqn:E; [|reflexivity].
    apply eqb_str_eq in E. subst p. assert (S' : strip_prefix q q = Some []) by (apply strip_prefix_nil_eq; reflexivity).
    congruence.
  - destruct (eqb_str p q) eqn:E; [|reflexivity].
    apply eqb_str_eq in E. subst p. assert (S' : strip_prefix q q = Some []) by (apply strip_prefix_nil_eq; reflexivity).
    congruence.
Qed.

(* what Get returns for such a query: the live stored values at or beneath q *)
Theorem get_filter_literal values q :
  plain q = true -> q <> [] -> q <> [c_slash] -> ends_with [c_slash] q = false ->
  get_filter values q =
  filter (fun pv => (eqb_str (pv_path pv) q || is_path_below (pv_path pv) q) && negb (pv_deleted pv)) (map snd values).
Proof.
  intros HP H1 H2 HS. unfold get_filter. apply filter_ext. intros pv.
  rewrite (get_literal_exact q (pv_path pv) HP H1 H2 HS). reflexivity.
Qed.

(* the root query returns every live value whose path starts a path element *)
Lemma get_root_all p : match_wildcard [] false p = match p with [] => true | c :: _ => is_boundary c end.
Proof. reflexivity. Qed.

(* C01, value level, on the executable instance: what a step leaves alone.
     - live_view_frame: a complete step changes the live view (what Get shows) of a target only if it is the commit of
       a proposal of THAT target (instance of the abstract values_only_by_commit + the reachability invariant: the
       inlined values never show a key the stored map does not hold);
     - commit_keeps_untouched / live_value_persists: a live stored value survives every complete step, the commit of
       another proposal of the same target included, unless that proposal's values touch its path (hold the path, or
       delete a path above it) - for every Go-map order. *)
From stdpp Require Import gmap.
From RecordUpdate Require Import RecordUpdate.
From Coq Require Import NArith Lia Permutation.
From OC Require Import Base.Bytes Model.P2Pure Model.Proto2 Model.P2Inst Proofs.P2Base Proofs.P2Phases Proofs.P2_Cursor
     Proofs.P2_Converge Proofs.P2_ConvergeEx Proofs.P2_Order Proofs.P2_OrderStep.
From OC Require Import Proofs.P2PureApplyDefs Proofs.P2PureApplyBase Proofs.P2PureApplySem Proofs.P2PureApplySound
     Proofs.P2PureApplyStatus Proofs.P2PureApplyInst Proofs.P2PureReachPure Proofs.P2PureReachInv Proofs.P2PureReachEff
     Proofs.P2PureReachDyn Proofs.P2PureReachRun Proofs.P2PureAtomicCommit.
Open Scope N_scope.

Lemma cmap_eq_dec (a b : cmap) : {a = b} + {a <> b}.
Proof. repeat (decide equality; try apply N.eq_dec). Defined.

(* the values of [ch] touch path [p]: they hold it, or delete a path above it *)
Definition touches (ch : cmap) (p : str) : Prop := plookup p ch <> None \/ covered ch p = true.

(** * Pure part: an untouched live value survives the commit *)
Section CommitKeeps.
  Context (ord i : N) (m vw ch : cmap).
  Context (Hm : WF m) (Hvw : WF vw) (Hsub : forall k e, plookup k m = Some e -> plookup k vw = Some e)
          (Hnlb : no_live_below vw = true) (Hch : WFC ch).

  Let upd' := fst (add_delete_children i (permute ord ch) vw).
  Let l := permute (rest_code (length ch) ord) upd'.
  Let st := markmap i (permute ord ch) vw.

  (* nothing the change adds lies at or above an untouched path *)
  Lemma ck_upd_none p : plookup p ch = None -> covered ch p = false -> plookup p upd' = None.
  Proof.
    intros Hn Hc. destruct (plookup p upd') as [v|] eqn:E; [|reflexivity]. exfalso.
    destruct (ui_cases _ _ _ _ _ (cs_spec ord i vw ch Hch) _ _ E) as [Hin|(_ & _ & _ & _ & kc & cv & H6 & H7 & H8)].
    - rewrite (in_lookup _ _ _ (proj1 (proj1 Hch)) Hin) in Hn. discriminate.
    - rewrite (cov_intro _ kc cv p H6 H7) in Hc; [discriminate|]. apply below_spec; [apply (proj2 (proj1 Hch) _ _ H6)|exact H8].
  Qed.

  Lemma ck_tomb_above p t d : covered ch p = false -> plookup t upd' = Some d -> pv_deleted d = true -> is_path_below p t = true -> False.
  Proof.
    intros Hc Ht Hd Hb. pose proof (upd_WF _ _ _ _ Hch (cs_spec ord i vw ch Hch)) as Hwu.
    pose proof (proj2 (proj2 Hwu _ _ (lookup_in _ _ _ Ht))) as Hpt.
    destruct (ui_cases _ _ _ _ _ (cs_spec ord i vw ch Hch) _ _ Ht) as [Hin|(_ & _ & _ & _ & kc & cv & H6 & H7 & H8)].
    - rewrite (cov_intro _ t d p Hin Hd Hb) in Hc. discriminate.
    - rewrite (cov_intro _ kc cv p H6 H7) in Hc; [discriminate|]. apply below_spec; [apply (proj2 (proj1 Hch) _ _ H6)|].
      eapply Below_trans; [apply (below_spec _ _ Hpt); exact Hb|exact H8].
  Qed.

  Theorem commit_keeps_untouched p e :
    plookup p m = Some e -> pv_deleted e = false -> plookup p ch = None -> covered ch p = false ->
    plookup p (commit_merge ord i m vw ch) = Some e.
  Proof.
    intros He Hlv Hn Hc. rewrite commit_merge_eq. fold upd' l st.
    pose proof (cs_st_WF ord i vw ch Hvw) as Hst. fold st in Hst.
    pose proof (cs_spec ord i vw ch Hch) as Hu. fold upd' in Hu.
    pose proof (cs_perm ord i vw ch) as Hl. fold upd' l in Hl.
    pose proof (Xc_WF i st vw ch upd' l Hst Hch Hu Hl) as HX.
    destruct (store_write_spec m _ HX Hm) as [_ Hs]. rewrite Hs. unfold sw_val.
    pose proof (Hsub _ _ He) as Hv. destruct (KO_lookup _ _ _ (proj2 Hm) He) as [Hpe Hpp].
    (* the entry of the marked view *)
    assert (Hstp : plookup p st = Some e).
    { unfold st. rewrite markmap_lookup, Hv. cbn. unfold markif. destruct (hitb (permute ord ch) e) eqn:Eh; [|reflexivity]. exfalso.
      apply hitb_spec in Eh. destruct Eh as (kc & cv & H1 & H2 & H3). apply (Permutation_in _ (permute_perm ord ch)) in H1.
      destruct (proj2 (proj1 Hch) _ _ H1) as [Hkc _]. rewrite Hpe, <- Hkc in H3. rewrite (cov_intro _ kc cv p H1 H2 H3) in Hc. discriminate. }
    assert (HXp : plookup p (act_fold l st) = Some e).
    { rewrite (Xc_lookup i st vw ch upd' l Hst Hch Hu Hl), (ck_upd_none p Hn Hc), Hstp, Hlv. reflexivity. }
    assert (Hcov : covered (act_fold l st) p = false).
    { destruct (covered (act_fold l st) p) eqn:E; [|reflexivity]. exfalso. apply covered_spec in E. destruct E as (t & d & Ht & Hd & Hb).
      apply (in_lookup _ _ _ (proj1 HX)) in Ht. rewrite (Xc_lookup i st vw ch upd' l Hst Hch Hu Hl) in Ht.
      destruct (plookup t upd') as [d0|] eqn:E0.
      - injection Ht as ->. exact (ck_tomb_above p t d Hc E0 Hd Hb).
      - destruct (plookup t st) as [d1|] eqn:E1; [|discriminate]. destruct (pv_deleted d1 && dropb upd' t); [discriminate|]. injection Ht as ->.
        unfold st in E1. rewrite markmap_lookup in E1. destruct (plookup t vw) as [e0|] eqn:Ev; [|discriminate]. cbn in E1. injection E1 as <-.
        unfold markif in Hd. destruct (hitb (permute ord ch) e0) eqn:Eh.
        + apply hitb_spec in Eh. destruct Eh as (kc & cv & H1 & H2 & H3). apply (Permutation_in _ (permute_perm ord ch)) in H1.
          destruct (proj2 (proj1 Hch) _ _ H1) as [Hkc Hpc]. destruct (KO_lookup _ _ _ (proj2 Hvw) Ev) as [Hpt Hptp].
          rewrite Hpt, <- Hkc in H3. rewrite (cov_intro _ kc cv p H1 H2) in Hc; [discriminate|].
          apply (below_spec _ _ Hpc). eapply Below_trans; [apply (below_spec _ _ Hptp); exact Hb|apply (below_spec _ _ Hpc); exact H3].
        + pose proof (nlb_spec vw p e (proj1 Hvw) Hnlb Hv Hlv) as Hcv.
          rewrite (cov_intro _ t e0 p (lookup_in _ _ _ Ev) Hd Hb) in Hcv. discriminate. }
    rewrite HXp, Hcov, He, N.eqb_refl. reflexivity.
  Qed.
End CommitKeeps.

(** * World part *)
Section World.
  Context (Lf : N -> str -> Prop) (Lf_free : forall t p q, Lf t p -> Lf t q -> ~ Below p q).

  Notation i_values_only_by_commit :=
    (values_only_by_commit candidate candidate_rb rollback_of overlay commit_merge payload record_applied touched restore
                           resync_payload doc_ok dev_apply stamp [] [] []).

  (* two entries of an invariant world with the same stored map show the same live view *)
  Lemma same_values_same_live (w w' : Wd) t (C C' : Cfg) :
    Inv Lf w -> Inv Lf w' -> cfgs w !! t = Some C -> cfgs w' !! t = Some C' -> c_values C' = c_values C ->
    live (view overlay C') = live (view overlay C).
  Proof.
    intros [HS HD] [HS' HD'] HC HC' E.
    destruct (dc_wf Lf w HS t C HC) as (H1 & _ & H3 & _). destruct (dc_wf Lf w' HS' t C' HC') as (H1' & _ & H3' & _).
    assert (Hlk : forall k, plookup k (view overlay C') = plookup k (view overlay C)).
    { intros k. rewrite (dc_view_lookup Lf w' HS' t C' HC' (HD' t C' HC')), (dc_view_lookup Lf w HS t C HC (HD t C HC)), E. reflexivity. }
    apply live_ext; [apply WF_overlay; assumption|apply WF_overlay; assumption|].
    apply prune_equiv; [apply WF_overlay; assumption|apply WF_overlay; assumption| |].
    - intros k v Hk _. exists v. split; [rewrite Hlk; exact Hk|apply same_content_refl].
    - intros k. rewrite Hlk. auto.
  Qed.

  Theorem live_view_frame (w : Wd) (l : Label) t (C C' : Cfg) :
    Inv Lf w -> label_ok Lf l -> i_complete w l -> cfgs w !! t = Some C -> cfgs (p2_step w l) !! t = Some C' ->
    live (view overlay C') = live (view overlay C) \/
    exists i n o (P : Prop2), l = LRec (CtlProp (t, i)) n o /\ props w !! (t, i) = Some P /\
      p_commit P = Some Doing /\ p_apply P = None /\ p_abort P = None /\ c_committed C = p_prev P /\ (0 < n)%nat.
  Proof.
    intros HI Hl Hc HC HC'. destruct (cmap_eq_dec (c_values C') (c_values C)) as [E|Hne].
    - left. apply (same_values_same_live w (p2_step w l) t C C' HI (inv_step Lf Lf_free w l HI Hl Hc) HC HC' E).
    - right. destruct (i_values_only_by_commit w l t C C' HC HC' Hne) as (i & n & o & P & H1 & H2 & H3 & H4 & H5 & H6 & H7 & _).
      exists i, n, o, P. auto 10.
  Qed.

  (* a step of a proposal of another target, and a step that is no commit, leave the live view alone *)
  Corollary other_target_keeps (w : Wd) t' i n o t (C C' : Cfg) :
    Inv Lf w -> i_complete w (LRec (CtlProp (t', i)) n o) -> t' <> t ->
    cfgs w !! t = Some C -> cfgs (p2_step w (LRec (CtlProp (t', i)) n o)) !! t = Some C' ->
    live (view overlay C') = live (view overlay C).
  Proof.
    intros HI Hc Hne HC HC'. destruct (live_view_frame w (LRec (CtlProp (t', i)) n o) t C C' HI I Hc HC HC') as [E|(i0 & n0 & o0 & P & [= -> _ _ _] & _)]; [exact E|congruence].
  Qed.

  Theorem live_value_persists (w : Wd) (l : Label) t (C C' : Cfg) p e :
    Inv Lf w -> label_ok Lf l -> i_complete w l -> cfgs w !! t = Some C -> cfgs (p2_step w l) !! t = Some C' ->
    plookup p (c_values C) = Some e -> pv_deleted e = false ->
    plookup p (c_values C') = Some e \/
    exists i n o (P : Prop2), l = LRec (CtlProp (t, i)) n o /\ props w !! (t, i) = Some P /\
      p_commit P = Some Doing /\ p_apply P = None /\ p_abort P = None /\ c_committed C = p_prev P /\
      touches (rb_change [] P) p.
  Proof.
    intros [HS HD] Hl Hc HC HC' He Hlv. destruct (cmap_eq_dec (c_values C') (c_values C)) as [E|Hne]; [left; rewrite E; exact He|].
    destruct (i_values_only_by_commit w l t C C' HC HC' Hne) as (i & n & o & P & H1 & H2 & H3 & H4 & H5 & H6 & H7 & H8).
    destruct (plookup p (rb_change [] P)) as [u|] eqn:Eu.
    { right. exists i, n, o, P. repeat split; auto. left. congruence. }
    destruct (covered (rb_change [] P) p) eqn:Ec.
    { right. exists i, n, o, P. repeat split; auto. right. exact Ec. }
    left. rewrite H8. pose proof (HD t C HC) as Hd. destruct (dc_wf Lf w HS t C HC) as (W1 & _ & W3 & _).
    destruct (rb_change_ok Lf w t i P HS H2) as [_ R2].
    apply commit_keeps_untouched; auto.
    - apply WF_overlay; assumption.
    - intros k e0 H. rewrite (dc_view_lookup Lf w HS t C HC Hd). exact H.
    - apply (dc_view_nlb Lf w HS t C HC Hd).
  Qed.
End World.

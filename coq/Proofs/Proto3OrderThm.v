(* Proto3OrderThm: what Order (spec/Config.tla) says about a reachable history, in plain terms, derived from
   order_reach (Proto3OrderStep) and from the frontier invariant. *)
From Coq Require Import List NArith Bool Arith Lia.
From OC Require Import Model.Proto3 Spec.Tla3 Proofs.Proto3Proofs Proofs.Proto3OrderBase Proofs.Proto3OrderStep.
Import ListNotations.
Open Scope N_scope.

Lemma order_from_split b h1 e r : order_from b (h1 ++ e :: r) = true -> event_ordered (b ++ h1) e = true.
Proof.
  revert b; induction h1 as [|x h1 IH]; intros b H; cbn in H.
  - rewrite app_nil_r. apply andb_prop in H. tauto.
  - apply andb_prop in H. destruct H as [_ H]. apply IH in H. rewrite <- app_assoc in H. exact H.
Qed.

Lemma order_ok_split h1 e r : order_ok (h1 ++ e :: r) = true -> event_ordered h1 e = true.
Proof. unfold order_ok. intros H. apply order_from_split in H. exact H. Qed.

Lemma existsb_false_all_iff {A} (f : A -> bool) l : existsb f l = false <-> (forall x, In x l -> f x = false).
Proof.
  split; [|apply existsb_false_all].
  induction l as [|a l IH]; intros H x Hx; [destruct Hx|]. cbn in H. apply orb_false_iff in H. destruct H as [H1 H2].
  destruct Hx as [<-|Hx]; [exact H1 | apply IH; assumption].
Qed.

Definition is_ev (ph : phase) (p : stage) (e : event) : bool :=
  phase_eqb (e_phase e) ph && stage_eqb (e_stage e) p && is_complete e.

Lemma phase_eqb_true a b : phase_eqb a b = true -> a = b.
Proof. destruct a, b; cbn; intros; try discriminate; reflexivity. Qed.
Lemma stage_eqb_true a b : stage_eqb a b = true -> a = b.
Proof. destruct a, b; cbn; intros; try discriminate; reflexivity. Qed.

(* an ordered completed change event of stage p has an index above every earlier one of its stage *)
Lemma ordered_change_event p before e x :
  event_ordered before e = true -> is_ev PhChange p e = true -> In x before -> is_ev PhChange p x = true ->
  e_index x < e_index e.
Proof.
  intros H He Hx Hxe. unfold is_ev in He. apply andb_prop in He. destruct He as [He Hc]. apply andb_prop in He. destruct He as [Hp Hs].
  apply phase_eqb_true in Hp. apply stage_eqb_true in Hs.
  unfold event_ordered in H. rewrite Hc in H. cbn [negb orb] in H.
  assert (R1 : ordered_rollback StCommit before e = false) by (unfold ordered_rollback; rewrite Hp; reflexivity).
  assert (R2 : ordered_rollback StApply before e = false) by (unfold ordered_rollback; rewrite Hp; reflexivity).
  rewrite R1, R2, !orb_false_r in H.
  assert (St : forall q, ordered_change q before e = true -> q = p).
  { intros q Hq. unfold ordered_change in Hq. apply andb_prop in Hq. destruct Hq as [Hq _].
    apply andb_prop in Hq. destruct Hq as [Hq _]. apply andb_prop in Hq. destruct Hq as [_ Hq].
    apply stage_eqb_true in Hq. congruence. }
  assert (K : ordered_change p before e = true).
  { apply orb_prop in H. destruct H as [H|H]; [rewrite <- (St _ H); exact H | rewrite <- (St _ H); exact H]. }
  unfold ordered_change in K. apply andb_prop in K. destruct K as [_ K]. apply negb_true_iff in K.
  assert (Q := proj1 (existsb_false_all_iff _ _) K x Hx). cbn in Q.
  unfold is_ev in Hxe. rewrite Hxe in Q. cbn in Q. apply N.leb_gt in Q. exact Q.
Qed.

(* change commits complete in log-index order, change applies complete in log-index order (= ordinal order, below) *)
Theorem changes_in_log_order_reach : forall w, reach w ->
  forall p h1 e1 h2 e2 h3, w_hist w = h1 ++ e1 :: h2 ++ e2 :: h3 ->
  is_ev PhChange p e1 = true -> is_ev PhChange p e2 = true -> e_index e1 < e_index e2.
Proof.
  intros w Hw p h1 e1 h2 e2 h3 E H1 H2. pose proof (order_reach w Hw) as O. rewrite E in O.
  replace (h1 ++ e1 :: h2 ++ e2 :: h3) with ((h1 ++ e1 :: h2) ++ e2 :: h3) in O by (rewrite <- app_assoc; reflexivity).
  apply order_ok_split in O.
  eapply ordered_change_event; [exact O | exact H2 | | exact H1].
  apply in_or_app. right. left. reflexivity.
Qed.

(* the ordinal a change receives at commit (which sequences the applies) grows with the log index *)
Theorem ordinals_follow_log_order_reach : forall w, reach w ->
  forall j t k u, get_tx w j = Some t -> get_tx w k = Some u -> t_cc t = Complete -> t_cc u = Complete -> j < k ->
  t_cord t < t_cord u.
Proof.
  intros w Hw j t k u Hj Hk Ct Cu L. pose proof (proj1 (Inv_reach w Hw)) as HS.
  apply (o1b _ _ _ _ HS j t k u Hj Hk); [rewrite Ct; reflexivity | rewrite Cu; reflexivity | exact L].
Qed.

(* a completed rollback (commit or apply) is an ordered rollback of spec/Config.tla: its change was completed before it and
   every completed change of that stage with a larger index before it has been followed by a rollback event of that stage *)
Theorem rollbacks_reverse_reach : forall w, reach w ->
  forall p h1 e h2, w_hist w = h1 ++ e :: h2 -> is_ev PhRollback p e = true -> ordered_rollback p h1 e = true.
Proof.
  intros w Hw p h1 e h2 E He. pose proof (order_reach w Hw) as O. rewrite E in O. apply order_ok_split in O.
  unfold is_ev in He. apply andb_prop in He. destruct He as [He Hc]. apply andb_prop in He. destruct He as [Hp Hs].
  apply phase_eqb_true in Hp. apply stage_eqb_true in Hs.
  unfold event_ordered in O. rewrite Hc in O. cbn [negb orb] in O.
  assert (C : forall q, ordered_change q h1 e = false) by (intros q; unfold ordered_change; rewrite Hp; reflexivity).
  rewrite !C in O. cbn [orb] in O.
  assert (St : forall q, ordered_rollback q h1 e = true -> q = p).
  { intros q Hq. unfold ordered_rollback in Hq. apply andb_prop in Hq. destruct Hq as [Hq _].
    apply andb_prop in Hq. destruct Hq as [Hq _]. apply andb_prop in Hq. destruct Hq as [Hq _].
    apply andb_prop in Hq. destruct Hq as [_ Hq]. apply stage_eqb_true in Hq. congruence. }
  apply orb_prop in O. destruct O as [O|O]; rewrite <- (St _ O); exact O.
Qed.

(* what "ordered rollback" gives, spelled out *)
Lemma unrolled_later_false_inv p idx l : unrolled_later p idx l = false ->
  forall l1 x l2, l = l1 ++ x :: l2 -> is_ev PhChange p x = true -> idx < e_index x ->
  exists k, In k l2 /\ e_phase k = PhRollback /\ e_stage k = p /\ e_index k = e_index x.
Proof.
  induction l as [|y r IH]; intros H l1 x l2 E Hx L; [destruct l1; discriminate|].
  cbn in H. apply orb_false_iff in H. destruct H as [H1 H2].
  destruct l1 as [|z l1]; cbn in E; inversion E; subst.
  - unfold is_ev in Hx. rewrite Hx in H1. apply N.ltb_lt in L. rewrite L in H1. cbn in H1.
    apply negb_false_iff in H1. apply existsb_exists in H1. destruct H1 as [k [Hk Q]].
    apply andb_prop in Q. destruct Q as [Q Q3]. apply andb_prop in Q. destruct Q as [Q1 Q2].
    exists k. split; [exact Hk|]. split; [apply phase_eqb_true; exact Q1|]. split; [apply stage_eqb_true; exact Q2 | apply N.eqb_eq; exact Q3].
  - eapply IH; eauto.
Qed.

Theorem rollbacks_reverse_explicit_reach : forall w, reach w ->
  forall p h1 e h2, w_hist w = h1 ++ e :: h2 -> is_ev PhRollback p e = true ->
  (exists x, In x h1 /\ e_phase x = PhChange /\ is_complete x = true /\ e_index x = e_index e) /\
  (forall l1 x l2, h1 = l1 ++ x :: l2 -> is_ev PhChange p x = true -> e_index e < e_index x ->
     exists k, In k l2 /\ e_phase k = PhRollback /\ e_stage k = p /\ e_index k = e_index x).
Proof.
  intros w Hw p h1 e h2 E He. pose proof (rollbacks_reverse_reach w Hw p h1 e h2 E He) as R.
  unfold ordered_rollback in R. apply andb_prop in R. destruct R as [R R2]. apply andb_prop in R. destruct R as [_ R1].
  split.
  - apply existsb_exists in R1. destruct R1 as [x [Hx Q]].
    apply andb_prop in Q. destruct Q as [Q Q3]. apply andb_prop in Q. destruct Q as [Q1 Q2].
    exists x. split; [exact Hx|]. split; [apply phase_eqb_true; exact Q1|]. split; [exact Q2 | apply N.eqb_eq; exact Q3].
  - apply negb_true_iff in R2. apply unrolled_later_false_inv. exact R2.
Qed.

(* The device-error classification of the protocol model (Proto2.classify, written by hand) is the switch of
   reconcileApply as the translator reads it from the Go source on every run (Gen/Tables.v: apply_code_class,
   apply_failure_of_code).  A change of that switch in the source changes the generated tables and breaks this file. *)
From OC Require Import Model.Failure Gen.Tables Model.Proto2.

Definition gen_code (c : code) : grpc_code :=
  match c with
  | COk => G_OK | CCanceled => G_Canceled | CUnknownC => G_Unknown | CInvalidArgument => G_InvalidArgument
  | CDeadlineExceeded => G_DeadlineExceeded | CNotFound => G_NotFound | CAlreadyExists => G_AlreadyExists
  | CPermissionDenied => G_PermissionDenied | CResourceExhausted => G_ResourceExhausted
  | CFailedPrecondition => G_FailedPrecondition | CAborted => G_Aborted | COutOfRange => G_OutOfRange
  | CUnimplemented => G_Unimplemented | CInternal => G_Internal | CUnavailable => G_Unavailable
  | CDataLoss => G_DataLoss | CUnauthenticated => G_Unauthenticated
  end.

Definition gen_ftype (f : ftype) : failure_type :=
  match f with
  | FUnknown => F_UNKNOWN | FCanceled => F_CANCELED | FNotFound => F_NOT_FOUND | FAlreadyExists => F_ALREADY_EXISTS
  | FUnauthorized => F_UNAUTHORIZED | FForbidden => F_FORBIDDEN | FConflict => F_CONFLICT | FInvalid => F_INVALID
  | FUnavailable => F_UNAVAILABLE | FNotSupported => F_NOT_SUPPORTED | FTimeout => F_TIMEOUT | FInternal => F_INTERNAL
  end.

(* the class and, for a failure, the recorded type, as the generated tables give them *)
Definition source_class (c : code) : apply_class * option failure_type :=
  match apply_code_class (gen_code c) with
  | AC_Fail => (AC_Fail, Some (apply_failure_of_code (gen_code c)))
  | k => (k, None)
  end.

Definition model_class (c : code) : apply_class * option failure_type :=
  match classify c with
  | ClsRetry => (AC_Retry, None)
  | ClsWait => (AC_Wait, None)
  | ClsFail f => (AC_Fail, Some (gen_ftype f))
  end.

(* every status code an error can carry (OK is not an error: the switch is only reached with err <> nil) *)
Lemma classify_is_the_source_switch (c : code) : c <> COk -> model_class c = source_class c.
Proof. destruct c; intros H; try reflexivity; congruence. Qed.

(* C06, value level: PrunePathValues / PrunePathMap / live by lookup; two maps that show the same live values have
   the same [live] list (it is sorted by path). *)
From Coq Require Import List Arith NArith Bool Lia Permutation Sorted.
From OC Require Import Base.Bytes Model.P2Pure Proofs.P2PureRollbackBase.
Import ListNotations.
Open Scope N_scope.

(** * what a map shows *)
Definition tomb (m : cmap) (t : str) : Prop := exists e, lookup t m = Some e /\ pv_deleted e = true.
Definition hidden (m : cmap) (k : str) : Prop := exists t, tomb m t /\ below k t.
Definition vis (m : cmap) (k val : str) : Prop :=
  exists e, lookup k m = Some e /\ pv_deleted e = false /\ pv_val e = val /\ ~ hidden m k.
Definition dels (m : cmap) : list str := map pv_path (filter pv_deleted (map snd m)).

Lemma same_tomb a b t : same a b -> tomb a t -> tomb b t.
Proof. intros S (e & H1 & H2). exists e. rewrite <- S. auto. Qed.
Lemma same_hidden a b k : same a b -> hidden a k -> hidden b k.
Proof. intros S (t & H1 & H2). exists t. split; [eapply same_tomb; eauto | exact H2]. Qed.
Lemma same_vis a b k val : same a b -> vis a k val -> vis b k val.
Proof.
  intros S (e & H1 & H2 & H3 & H4). exists e. rewrite <- S. repeat split; auto.
  intros H. apply H4. eapply same_hidden; [apply same_sym; exact S | exact H].
Qed.

Lemma in_dels m d : wf m -> (In d (dels m) <-> tomb m d).
Proof.
  intros (N & K & _). unfold dels, tomb. rewrite in_map_iff. split.
  - intros (v & <- & H). apply filter_In in H. destruct H as [H1 H2]. apply in_map_iff in H1.
    destruct H1 as ([k e] & <- & H1). cbn in *. exists e. rewrite (K _ _ H1). split; [apply in_lookup; assumption | exact H2].
  - intros (e & H1 & H2). exists e. split; [eapply kp_lookup; eauto|]. apply filter_In. split; [|exact H2].
    apply in_map_iff. exists (d, e). split; [reflexivity | apply lookup_in; exact H1].
Qed.

Lemma tomb_proper m t : wf m -> tomb m t -> proper t.
Proof. intros (_ & _ & P) (e & H & _). eapply pk_lookup; eauto. Qed.

Lemma below_deleted_spec m k : wf m -> (below_deleted k (dels m) = true <-> hidden m k).
Proof.
  intros W. unfold below_deleted, hidden. rewrite orb_true_iff, andb_true_iff, !existsb_exists. split.
  - intros [[_ (d & Hd & Hs)] | (d & Hd & H)].
    + apply (in_dels m d W) in Hd. apply (tomb_proper m d W) in Hd. rewrite orb_comm in Hs.
      rewrite (proper_b d Hd) in Hs. discriminate.
    + apply andb_true_iff in H. destruct H as [_ H]. exists d. split; [apply in_dels; assumption | exact H].
  - intros (t & Ht & Hb). right. exists t. split; [apply in_dels; assumption|].
    destruct (tomb_proper m t W Ht) as [P1 P2].
    apply eqb_str_neq in P1. apply eqb_str_neq in P2. rewrite P1, P2. exact Hb.
Qed.

Lemma below_deleted_false m k : wf m -> (below_deleted k (dels m) = false <-> ~ hidden m k).
Proof.
  intros W. rewrite <- (below_deleted_spec m k W). destruct (below_deleted k (dels m)); split; congruence.
Qed.

(** * the sort *)
Lemma insert_sorted_perm x l : Permutation (insert_sorted x l) (x :: l).
Proof.
  induction l as [|y l IH]; cbn; [reflexivity|]. destruct (ltb_str (pv_path x) (pv_path y)); [reflexivity|].
  eapply perm_trans; [apply perm_skip; exact IH | apply perm_swap].
Qed.

Lemma sort_pvs_perm l : Permutation (sort_pvs l) l.
Proof.
  induction l as [|x l IH]; cbn; [reflexivity|].
  eapply perm_trans; [apply insert_sorted_perm | apply perm_skip; exact IH].
Qed.

Lemma sort_pvs_in l x : In x (sort_pvs l) <-> In x l.
Proof. split; apply Permutation_in; [|symmetry]; apply sort_pvs_perm. Qed.

Definition ple (a b : pv) : Prop := ltb_str (pv_path b) (pv_path a) = false.
Definition plt (a b : pv) : Prop := ltb_str (pv_path a) (pv_path b) = true.

Lemma ltb_str_asym a b : ltb_str a b = true -> ltb_str b a = false.
Proof.
  intros H. destruct (ltb_str b a) eqn:E; [|reflexivity].
  pose proof (ltb_str_trans _ _ _ H E) as T. rewrite ltb_str_irrefl in T. discriminate.
Qed.

Lemma insert_sorted_ss x l : StronglySorted ple l -> StronglySorted ple (insert_sorted x l).
Proof.
  induction l as [|y l IH]; cbn; intros S; [constructor; constructor|].
  inversion S as [|? ? S1 S2]; subst. destruct (ltb_str (pv_path x) (pv_path y)) eqn:E.
  - constructor; [exact S|]. constructor; [unfold ple; apply ltb_str_asym; exact E|].
    rewrite Forall_forall in *. intros z Hz. specialize (S2 z Hz). unfold ple in *.
    destruct (ltb_str (pv_path z) (pv_path x)) eqn:E2; [|reflexivity].
    rewrite (ltb_str_trans _ _ _ E2 E) in S2. discriminate.
  - constructor; [apply IH; exact S1|]. rewrite Forall_forall in *. intros z Hz.
    apply (Permutation_in _ (insert_sorted_perm x l)) in Hz. destruct Hz as [<-|Hz]; [exact E | apply S2; exact Hz].
Qed.

Lemma sort_pvs_ss l : StronglySorted ple (sort_pvs l).
Proof. induction l as [|x l IH]; cbn; [constructor | apply insert_sorted_ss; exact IH]. Qed.

Lemma ss_strict l : StronglySorted ple l -> NoDup (map pv_path l) -> StronglySorted plt l.
Proof.
  induction l as [|x l IH]; intros S N; [constructor|]. inversion S as [|? ? S1 S2]; subst.
  cbn in N. inversion N as [|? ? N1 N2]; subst. constructor; [auto|].
  rewrite Forall_forall in *. intros z Hz. specialize (S2 z Hz). unfold ple, plt in *.
  destruct (ltb_str (pv_path x) (pv_path z)) eqn:E; [reflexivity|].
  exfalso. apply N1. rewrite (ltb_str_total _ _ E S2). apply in_map. exact Hz.
Qed.

Lemma ss_filter {A} (R : A -> A -> Prop) f l : StronglySorted R l -> StronglySorted R (filter f l).
Proof.
  induction l as [|x l IH]; intros S; [constructor|]. inversion S as [|? ? S1 S2]; subst. cbn.
  destruct (f x); [|auto]. constructor; [auto|]. rewrite Forall_forall in *. intros z Hz.
  apply filter_In in Hz. apply S2. tauto.
Qed.

Lemma ss_map {A B} (R : B -> B -> Prop) (g : A -> B) l :
  StronglySorted (fun a b => R (g a) (g b)) l -> StronglySorted R (map g l).
Proof.
  induction l as [|x l IH]; intros S; [constructor|]. inversion S as [|? ? S1 S2]; subst. cbn.
  constructor; [auto|]. rewrite Forall_forall in *. intros z Hz. apply in_map_iff in Hz.
  destruct Hz as (y & <- & Hy). auto.
Qed.

Definition klt (a b : str * str) : Prop := ltb_str (fst a) (fst b) = true.

Lemma ss_ext (l1 : list (str * str)) : forall l2,
  StronglySorted klt l1 -> StronglySorted klt l2 -> (forall x, In x l1 <-> In x l2) -> l1 = l2.
Proof.
  induction l1 as [|a l1 IH]; intros [|b l2] S1 S2 H.
  - reflexivity.
  - exfalso. apply (H b). left; reflexivity.
  - exfalso. apply (H a). left; reflexivity.
  - inversion S1 as [|? ? S1a S1b]; subst. inversion S2 as [|? ? S2a S2b]; subst.
    rewrite Forall_forall in *.
    assert (a = b) as ->.
    { destruct (proj1 (H a) (or_introl eq_refl)) as [E|E]; [auto|].
      destruct (proj2 (H b) (or_introl eq_refl)) as [E'|E']; [auto|].
      specialize (S2b _ E). specialize (S1b _ E'). unfold klt in *.
      rewrite (ltb_str_asym _ _ S2b) in S1b. discriminate. }
    f_equal. apply IH; [assumption | assumption|]. intros x. split; intros Hx.
    + destruct (proj1 (H x) (or_intror Hx)) as [E|E]; [|exact E]. subst x.
      specialize (S1b _ Hx). unfold klt in S1b. rewrite ltb_str_irrefl in S1b. discriminate.
    + destruct (proj2 (H x) (or_intror Hx)) as [E|E]; [|exact E]. subst x.
      specialize (S2b _ Hx). unfold klt in S2b. rewrite ltb_str_irrefl in S2b. discriminate.
Qed.

(** * prune *)
Lemma paths_are_keys m : kp m -> map pv_path (map snd m) = map fst m.
Proof.
  intros K. rewrite map_map. apply map_ext_in. intros [k v] H. cbn. apply K. exact H.
Qed.

Lemma prune_in m keep v : wf m ->
  (In v (prune_path_values (map snd m) keep) <->
   lookup (pv_path v) m = Some v /\ ~ hidden m (pv_path v) /\ (pv_deleted v = false \/ keep = true)).
Proof.
  intros W. unfold prune_path_values. fold (dels m). rewrite filter_In, sort_pvs_in, andb_true_iff, negb_true_iff.
  rewrite (below_deleted_false m _ W), orb_true_iff, negb_true_iff.
  destruct W as (N & K & P). split.
  - intros (H1 & H2 & H3). apply in_map_iff in H1. destruct H1 as ([k e] & <- & H1). cbn in *.
    rewrite (K _ _ H1). split; [apply in_lookup; assumption|]. rewrite (K _ _ H1) in H2. auto.
  - intros (H1 & H2 & H3). split; [|auto]. apply in_map_iff. exists (pv_path v, v). split; [reflexivity | apply lookup_in; exact H1].
Qed.

Lemma live_in m k val : wf m -> (In (k, val) (live m) <-> vis m k val).
Proof.
  intros W. unfold live, vis. rewrite in_map_iff. split.
  - intros (v & [= <- <-] & H). apply (prune_in m false v W) in H. destruct H as (H1 & H2 & [H3|H3]); [|discriminate].
    exists v. auto.
  - intros (e & H1 & H2 & H3 & H4). exists e. destruct W as (N & K & P).
    pose proof (kp_lookup m k e K H1) as E. split; [rewrite E, H3; reflexivity|].
    apply prune_in; [exact (conj N (conj K P))|]. rewrite E. auto.
Qed.

Lemma live_sorted m : wf m -> StronglySorted klt (live m).
Proof.
  intros (N & K & P). unfold live, prune_path_values. apply ss_map. apply ss_filter.
  apply (ss_strict _ (sort_pvs_ss _)).
  eapply Permutation_NoDup; [apply Permutation_map; symmetry; apply sort_pvs_perm|].
  rewrite paths_are_keys by exact K. exact N.
Qed.

Theorem live_ext m m' : wf m -> wf m' -> (forall k val, vis m k val <-> vis m' k val) -> live m = live m'.
Proof.
  intros W W' H. apply ss_ext; [apply live_sorted; exact W | apply live_sorted; exact W'|].
  intros [k val]. rewrite (live_in m k val W), (live_in m' k val W'). apply H.
Qed.

Corollary live_same m m' : wf m -> nd m' -> same m m' -> live m = live m'.
Proof.
  intros W N S. assert (wf m') as W'.
  { destruct W as (A & B & C). split; [exact N|]. split; [eapply same_kp | eapply same_pk]; eauto. }
  apply live_ext; [assumption | assumption|]. intros k val. split; apply same_vis; [exact S | apply same_sym; exact S].
Qed.

(* PrunePathMap(values, true): which paths survive *)
Lemma pruned_lookup m k : wf m ->
  (lookup k (prune_path_map m true) <> None <-> (exists e, lookup k m = Some e) /\ ~ hidden m k).
Proof.
  intros W. unfold prune_path_map. split.
  - intros H. destruct (lookup k _) as [e|] eqn:E; [|congruence]. apply lookup_in in E.
    apply in_map_iff in E. destruct E as (v & [= <- <-] & Hv). apply (prune_in m true v W) in Hv.
    destruct Hv as (H1 & H2 & _). split; [exists v; exact H1 | exact H2].
  - intros ((e & H1) & H2) E. apply lookup_none in E. apply E. rewrite map_map. cbn. apply in_map_iff.
    exists e. pose proof (kp_lookup m k e (proj1 (proj2 W)) H1) as Ek. split; [exact Ek|].
    apply prune_in; [exact W|]. rewrite Ek. auto.
Qed.

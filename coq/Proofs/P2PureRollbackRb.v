(* C06, value level: the rollback values recorded by reconcileValidate (rollback_of) by lookup, for every
   iteration order of the change. *)
From Coq Require Import List Arith NArith Bool Lia Permutation.
From OC Require Import Base.Bytes Model.P2Pure Proofs.P2PureRollbackBase Proofs.P2PureRollbackPrune
  Proofs.P2PureRollbackApply Proofs.P2PureRollbackAdc Proofs.P2PureRollbackCommit.
Import ListNotations.
Open Scope N_scope.

Definition tomb0 (k : str) : pv := mkPV k [] true 0.

Lemma cond_insert_fold (f : str -> pv -> bool) l : forall acc, wf acc ->
  (forall k v, In (k, v) l -> pv_path v = k /\ proper k) ->
  let r := fold_left (fun acc '(k, cv) => if f k cv then insert k cv acc else acc) l acc in
  wf r /\
  (forall k e, lookup k r = Some e -> lookup k acc = Some e \/ (In (k, e) l /\ f k e = true)) /\
  (forall k, In k (map fst acc) -> In k (map fst r)) /\
  (forall k e, In (k, e) l -> f k e = true -> In k (map fst r)).
Proof.
  induction l as [|[k0 v0] l IH]; intros acc W P; cbn [fold_left].
  - cbn. split; [exact W|]. split; [auto|]. split; [auto | intros k e []].
  - destruct (P k0 v0 (or_introl eq_refl)) as (Pk & Pp).
    assert (wf (if f k0 v0 then insert k0 v0 acc else acc)) as W1.
    { destruct (f k0 v0); [apply wf_insert; assumption | exact W]. }
    specialize (IH _ W1 (fun k v H => P k v (or_intror H))). cbv zeta in IH. destruct IH as (I1 & I2 & I3 & I4).
    cbv zeta. split; [exact I1|]. split; [|split].
    + intros k e H. apply I2 in H. destruct H as [H|(H1 & H2)]; [|right; split; [right|]; assumption].
      destruct (f k0 v0) eqn:F; [|auto]. rewrite lookup_insert in H. case_eqb k k0; [|auto].
      injection H as <-. rewrite E. right. split; [left; reflexivity | exact F].
    + intros k H. apply I3. destruct (f k0 v0); [apply insert_key_in; right|]; exact H.
    + intros k e [[= <- <-]|H] F; [|eapply I4; eauto]. apply I3. rewrite F. apply insert_key_in. left. reflexivity.
Qed.

Definition rb_step (V : cmap) : cmap * cmap -> str * pv -> cmap * cmap :=
  fun '(cand, rb) '(p, v) =>
    let '(cand', dropped) := apply_change_to_config cand p v in
    let rb1 := match dropped with Some (dp, dv) => insert dp dv rb | None => rb end in
    let rb2 := match lookup p V with
               | Some old => insert p old rb1
               | None => if pv_deleted v then rb1 else insert p (mkPV p [] true 0) rb1 end in
    let rb3 := if pv_deleted v
               then fold_left (fun acc '(k, cv) => if negb (pv_deleted cv) && is_path_below k p then insert k cv acc else acc) V rb2
               else rb2 in
    (cand', rb3).

Lemma rb_unfold V c : rollback_of V c = snd (fold_left (rb_step V) c (V, [])).
Proof. reflexivity. Qed.

Record rb_inv (V l cand rb : cmap) : Prop := {
  ri_nd : nd cand;
  ri_cand : forall k e, lookup k cand = Some e -> lookup k V = Some e \/ lookup k l = Some e;
  ri_wf : wf rb;
  ri_from : forall k r, lookup k rb = Some r ->
              lookup k V = Some r \/
              (lookup k V = None /\ r = tomb0 k /\ exists u, lookup k l = Some u /\ pv_deleted u = false);
  ri_change : forall k u, lookup k l = Some u -> (pv_deleted u = false \/ lookup k V <> None) -> In k (map fst rb);
  ri_kids : forall k x, lookup k V = Some x -> pv_deleted x = false -> cascb l k = true -> In k (map fst rb) }.

Lemma rb_spec V : wf V -> forall c, wf c -> no_delete_above_update c ->
  rb_inv V c (fst (fold_left (rb_step V) c (V, []))) (snd (fold_left (rb_step V) c (V, []))).
Proof.
  intros WV c. induction c as [|[p v] l IH] using rev_ind; intros Wc F14.
  - cbn. constructor.
    + apply WV.
    + auto.
    + split; [constructor|]. split; intros k e [].
    + cbn. discriminate.
    + cbn. discriminate.
    + cbn. discriminate.
  - assert (wf l) as Wl by (eapply wf_app_l; eauto).
    destruct Wc as (Nc & Kc & Pc).
    assert (In (p, v) (l ++ [(p, v)])) as Hin by (apply in_or_app; right; left; reflexivity).
    pose proof (Kc _ _ Hin) as Hpv. pose proof (Pc _ _ Hin) as Hpp.
    assert (lookup p l = None) as Hpl.
    { apply lookup_none. unfold nd in Nc. rewrite map_app in Nc. cbn in Nc.
      intros H. apply NoDup_remove_2 in Nc. apply Nc. rewrite app_nil_r. exact H. }
    assert (forall k u, lookup k l = Some u -> lookup k (l ++ [(p, v)]) = Some u) as Lapp.
    { intros k u H. rewrite lookup_app, H. reflexivity. }
    assert (lookup p (l ++ [(p, v)]) = Some v) as Lp.
    { rewrite lookup_app, Hpl. cbn. rewrite eqb_str_refl. reflexivity. }
    assert (no_delete_above_update l) as F14l.
    { intros k u H D. specialize (F14 k u (Lapp _ _ H) D). rewrite cascb_app in F14. apply orb_false_iff in F14. tauto. }
    specialize (IH Wl F14l). rewrite fold_left_snoc. destruct (fold_left (rb_step V) l (V, [])) as [cand rb].
    cbn [fst snd] in IH. destruct IH as [I1 I2 I3 I4 I5 I6]. destruct WV as (NV & KV & PV).
    cbn [rb_step].
    pose proof (apply_lookup cand p v) as AL. pose proof (apply_nd cand p v I1) as AN.
    pose proof (apply_dropped cand p v) as AD.
    destruct (apply_change_to_config cand p v) as [cand' dropped]. cbn [fst snd] in *.
    (* rb1 *)
    set (rb1 := match dropped with Some (dp, dv) => insert dp dv rb | None => rb end).
    assert (wf rb1 /\ (forall k r, lookup k rb1 = Some r -> lookup k rb = Some r \/ lookup k V = Some r) /\
            (forall k, In k (map fst rb) -> In k (map fst rb1))) as (W1 & F1 & M1).
    { subst rb1. destruct dropped as [[dp dv]|]; [|split; [exact I3 | split; auto]].
      destruct (AD dp dv I1 eq_refl) as (D1 & D2 & D3 & D4).
      assert (lookup dp V = Some dv) as HV.
      { rewrite lookup_insert in D3. case_eqb dp p; [injection D3 as <-; congruence|].
        destruct (I2 _ _ D3) as [H|H]; [exact H|]. exfalso.
        assert (proper dp) as Pd by (eapply pk_lookup; [apply Wl | exact H]).
        apply (ancestors_below dp p Pd) in D2.
        assert (cascb (l ++ [(p, v)]) p = true) as X; [|rewrite (F14 p v Lp D1) in X; discriminate].
        apply cascb_spec. exists dp, dv. split; [apply in_or_app; left; apply lookup_in; exact H|].
        split; [exact D4|]. rewrite (kp_lookup l dp dv (proj1 (proj2 Wl)) H). exact D2. }
      split; [apply wf_insert; [exact I3 | exact (kp_lookup V dp dv KV HV) | exact (pk_lookup V dp dv PV HV)]|]. split.
      - intros k r H. rewrite lookup_insert in H. case_eqb k dp; [injection H as <-; subst; auto | auto].
      - intros k H. apply insert_key_in. right. exact H. }
    (* rb2 *)
    set (rb2 := match lookup p V with
                | Some old => insert p old rb1
                | None => if pv_deleted v then rb1 else insert p (mkPV p [] true 0) rb1 end).
    assert (wf rb2 /\
            (forall k r, lookup k rb2 = Some r ->
               lookup k rb1 = Some r \/ lookup k V = Some r \/
               (k = p /\ lookup p V = None /\ r = tomb0 p /\ pv_deleted v = false)) /\
            (forall k, In k (map fst rb1) -> In k (map fst rb2)) /\
            ((pv_deleted v = false \/ lookup p V <> None) -> In p (map fst rb2))) as (W2 & F2 & M2 & C2).
    { subst rb2. destruct (lookup p V) as [old|] eqn:EV; [|destruct (pv_deleted v) eqn:D].
      - split; [apply wf_insert; [exact W1 | exact (kp_lookup V p old KV EV) | exact Hpp]|]. split; [|split].
        + intros k r H. rewrite lookup_insert in H. case_eqb k p; [injection H as <-; subst; auto | auto].
        + intros k H. apply insert_key_in. right. exact H.
        + intros _. apply insert_key_in. left. reflexivity.
      - split; [exact W1|]. split; [auto|]. split; [auto|]. intros [H|H]; congruence.
      - split; [apply wf_insert; [exact W1 | reflexivity | exact Hpp]|]. split; [|split].
        + intros k r H. rewrite lookup_insert in H. case_eqb k p; [injection H as <-; subst; right; right; auto | auto].
        + intros k H. apply insert_key_in. right. exact H.
        + intros _. apply insert_key_in. left. reflexivity. }
    (* rb3 *)
    set (rb3 := if pv_deleted v then fold_left _ V rb2 else rb2).
    assert (wf rb3 /\
            (forall k r, lookup k rb3 = Some r -> lookup k rb2 = Some r \/ lookup k V = Some r) /\
            (forall k, In k (map fst rb2) -> In k (map fst rb3)) /\
            (forall k x, lookup k V = Some x -> pv_deleted x = false -> pv_deleted v = true -> below k p ->
                         In k (map fst rb3))) as (W3 & F3 & M3 & C3).
    { subst rb3. destruct (pv_deleted v) eqn:D; [|split; [exact W2 | split; [auto | split; [auto | discriminate]]]].
      destruct (cond_insert_fold (fun k cv => negb (pv_deleted cv) && is_path_below k p) V rb2 W2) as (J1 & J2 & J3 & J4).
      { intros k e H. split; eauto. }
      cbv beta in J1, J2, J3, J4. split; [exact J1|]. split; [|split; [exact J3|]].
      - intros k r H. apply J2 in H. destruct H as [H|(H & _)]; [auto | right; apply in_lookup; assumption].
      - intros k x H1 H2 _ H3. apply (J4 k x); [apply lookup_in; exact H1|]. rewrite H2. exact H3. }
    constructor.
    + exact AN.
    + intros k e H. rewrite (AL k I1) in H. case_eqb k p; [injection H as <-; subst; right; exact Lp|].
      destruct (negb (pv_deleted v) && ancb k p && is_tombb cand k); [discriminate|].
      apply I2 in H. destruct H as [H|H]; auto.
    + exact W3.
    + intros k r H. apply F3 in H. destruct H as [H|H]; [|auto]. apply F2 in H.
      destruct H as [H|[H|(-> & H1 & -> & H2)]]; [|auto|].
      * apply F1 in H. destruct H as [H|H]; [|auto]. apply I4 in H.
        destruct H as [H|(H1 & H2 & u & H3 & H4)]; [auto|]. right. split; [exact H1|]. split; [exact H2|]. exists u. auto.
      * right. split; [exact H1|]. split; [reflexivity|]. exists v. auto.
    + intros k u H Hc. rewrite lookup_app in H. destruct (lookup k l) as [u'|] eqn:E.
      * injection H as <-. apply M3, M2, M1. eapply I5; eauto.
      * cbn in H. case_eqb k p; [|discriminate]. injection H as <-. subst k. apply M3, C2. exact Hc.
    + intros k x H1 H2 Hc. rewrite cascb_app in Hc. apply orb_true_iff in Hc. destruct Hc as [Hc|Hc].
      * apply M3, M2, M1. eapply I6; eauto.
      * cbn [cascb existsb] in Hc. rewrite orb_false_r in Hc. apply andb_true_iff in Hc. destruct Hc as [Hc1 Hc2].
        rewrite Hpv in Hc2. eapply C3; eauto.
Qed.

(* the recorded rollback values *)
Record rb_out (V c rb : cmap) : Prop := {
  ro_wf : wf rb;
  ro_from : forall k r, lookup k rb = Some r ->
              lookup k V = Some r \/
              (lookup k V = None /\ r = tomb0 k /\ exists u, lookup k c = Some u /\ pv_deleted u = false);
  ro_change : forall k u, lookup k c = Some u -> (pv_deleted u = false \/ lookup k V <> None) -> In k (map fst rb);
  ro_kids : forall k x, lookup k V = Some x -> pv_deleted x = false -> cascb c k = true -> In k (map fst rb) }.

Theorem rollback_of_spec V c : wf V -> wf c -> no_delete_above_update c -> rb_out V c (rollback_of V c).
Proof.
  intros WV Wc F. rewrite rb_unfold. destruct (rb_spec V WV c Wc F) as [_ _ H3 H4 H5 H6]. constructor; assumption.
Qed.

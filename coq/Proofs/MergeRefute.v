(* Concrete witnesses (vm_compute) of where the faithful model violates property C03, and small general facts. *)
From Coq Require Import List NArith Bool Permutation String.
Local Open Scope string_scope.
From OC Require Import Base.Bytes Model.Merge Model.CfgStore Model.Wildcard Proofs.MergeProofs.
Import ListNotations.
Open Scope N_scope.
Open Scope list_scope.

Definition upd (p v : string) (i : N) : str * path_value := (B p, mkPV (B p) (B v) false i).
Definition del (p : string) (i : N) : str * path_value := (B p, mkPV (B p) [] true i).
Definition s0 : cfg_state := mkCfg [] [] [] [].

(* (i) REPAIRED (3126412): re-creation under a deleted ancestor: /a/b=1 ; delete /a ; /a/b=2 ; /x=3 ; a status
   update.  The re-created value stays readable and the tombstone of /a is gone from the stored map.  (The general
   statement is Proofs/CommitProofs.v commit_store_refines, which has no guard about stored tombstones.) *)
Definition r1 := set_cycle s0 1 [upd "/a/b" "1" 1].
Definition r2 := set_cycle r1 2 [del "/a" 2].
Definition r3 := set_cycle r2 3 [upd "/a/b" "2" 3].
Definition r4 := set_cycle r3 4 [upd "/x" "3" 4].
Definition r5 := status_update r4.

Lemma recreate_kept_example :
  live (view_values r2) (B "/a/b") = None /\
  live (view_values r3) (B "/a/b") = Some (B "2") /\
  live (view_values r4) (B "/a/b") = Some (B "2") /\
  live (view_values r5) (B "/a/b") = Some (B "2") /\
  map_get (B "/a") (cs_map r3) = None.
Proof. repeat split; vm_compute; reflexivity. Qed.

(* the same below a key-less list name and below a leading subset of the keys of a two-key list *)
Definition q1 := set_cycle s0 1 [upd "/l[k=1]/v" "1" 1; upd "/m[k1=a][k2=b]/v" "1" 1].
Definition q2 := set_cycle q1 2 [del "/l" 2; del "/m[k1=a]" 2].
Definition q3 := set_cycle q2 3 [upd "/l[k=1]/v" "2" 3; upd "/m[k1=a][k2=c]/v" "2" 3].
Definition q4 := set_cycle q3 4 [upd "/x" "3" 4].
Lemma recreate_list_kept_example :
  live (view_values q2) (B "/l[k=1]/v") = None /\
  live (view_values q4) (B "/l[k=1]/v") = Some (B "2") /\
  live (view_values q4) (B "/m[k1=a][k2=c]/v") = Some (B "2") /\
  live (view_values q4) (B "/m[k1=a][k2=b]/v") = None.
Proof. repeat split; vm_compute; reflexivity. Qed.

(* (ii) delete of /a and update of /a/b in one request: the result depends on the iteration order *)
Definition ovV : cfgmap := [upd "/a/b" "1" 1].
Definition ov1 : cfgmap := [del "/a" 2; upd "/a/b" "3" 2].
Definition ov2 : cfgmap := [upd "/a/b" "3" 2; del "/a" 2].
Lemma overlap_order_refuted :
  Permutation ov1 ov2 /\
  live (commit_merge 2 ov1 ovV) (B "/a/b") <> live (commit_merge 2 ov2 ovV) (B "/a/b").
Proof. split; [apply perm_swap | vm_compute; discriminate]. Qed.

(* even in the favourable order the value is lost when the map is stored (the tombstone is applied last) *)
Lemma overlap_store_refuted :
  live (persist_commit ovV 2 ov1) (B "/a/b") = None.
Proof. vm_compute; reflexivity. Qed.

(* the same path deleted and updated in one request: computeChange keeps the delete (gNMI: delete, then update) *)
Lemma same_path_refuted :
  map_get (B "/x") (compute_change [(B "/x", B "2")] [B "/x"]) = Some (mkPV (B "/x") [] true 0).
Proof. vm_compute; reflexivity. Qed.

(* (iii) REPAIRED (6c3f66e): the applied values have their own Atomix map; recording the applied values of a
   lagging transaction no longer touches the committed map - for every state, index and change *)
Lemma apply_keeps_committed s idx ch : cs_map (apply_update s idx ch) = cs_map s.
Proof. reflexivity. Qed.
Lemma status_keeps_committed s : cs_map (status_update s) = cs_map s.
Proof. reflexivity. Qed.

Definition a1 := commit_update s0 1 [upd "/x" "1" 1].
Definition a2 := commit_update (status_update a1) 2 [upd "/x" "2" 2].
Definition a3 := apply_update a2 1 [upd "/x" "1" 1].
Lemma alias_repaired_example :
  live (view_values a2) (B "/x") = Some (B "2") /\ live (view_values a3) (B "/x") = Some (B "2").
Proof. split; vm_compute; reflexivity. Qed.

(* a non-trivial input satisfying the hypotheses of merge_refines *)
Definition exV : cfgmap := [upd "/a/b" "1" 1; upd "/a/bc" "2" 1; upd "/a/c/d" "3" 1; upd "/l[k=1]/v" "4" 1; del "/x" 1].
Definition exC : cfgmap := [del "/a/c" 2; upd "/a/b" "5" 2; del "/l" 2; upd "/x" "6" 2].
Definition keys_okb (m : cfgmap) := forallb (fun kv => eqb_str (fst kv) (pv_path (snd kv))) m.
Fixpoint nodupb (l : list str) := match l with [] => true | x :: l' => negb (existsb (eqb_str x) l') && nodupb l' end.
Definition no_overlapb (ch : cfgmap) :=
  forallb (fun c => forallb (fun d => pv_deleted (snd c) || negb (pv_deleted (snd d)) || negb (is_path_below (pv_path (snd c)) (pv_path (snd d)))) ch) ch.

Lemma keys_okb_ok m : keys_okb m = true -> keys_ok m.
Proof.
  unfold keys_okb, keys_ok. rewrite forallb_forall. intros H k v HI. specialize (H _ HI). cbn in H.
  apply eqb_str_eq in H. exact H.
Qed.

Lemma nodupb_ok l : nodupb l = true -> NoDup l.
Proof.
  induction l as [|x l IH]; cbn; intros H; [constructor|].
  apply andb_true_iff in H. destruct H as [H1 H2]. constructor; [|apply IH; exact H2].
  intros HI. apply negb_true_iff in H1. assert (E : existsb (eqb_str x) l = true).
  { apply existsb_exists. exists x. split; [exact HI | apply eqb_str_refl]. }
  congruence.
Qed.

Lemma no_overlapb_ok ch : no_overlapb ch = true -> no_overlap ch.
Proof.
  unfold no_overlapb, no_overlap. rewrite forallb_forall. intros H k c kd d H1 H2 D1 D2.
  specialize (H _ H1). rewrite forallb_forall in H. specialize (H _ H2). cbn in H.
  rewrite D1, D2 in H. cbn in H. apply negb_true_iff in H. exact H.
Qed.

Example merge_refines_example :
  keys_ok exV /\ nodup exV /\ keys_ok exC /\ nodup exC /\ no_overlap exC /\
  live (commit_merge 2 exC exV) (B "/a/b") = Some (B "5") /\
  live (commit_merge 2 exC exV) (B "/a/bc") = Some (B "2") /\
  live (commit_merge 2 exC exV) (B "/a/c/d") = None /\
  live (commit_merge 2 exC exV) (B "/l[k=1]/v") = None /\
  live (commit_merge 2 exC exV) (B "/x") = Some (B "6").
Proof.
  repeat split; try (apply keys_okb_ok; vm_compute; reflexivity); try (apply nodupb_ok; vm_compute; reflexivity);
    try (apply no_overlapb_ok; vm_compute; reflexivity); vm_compute; reflexivity.
Qed.

(* siblings whose names merely share a textual prefix are never "below" *)
Lemma strip_prefix_app a r : strip_prefix a (a ++ r) = Some r.
Proof. induction a as [|x a IH]; cbn; [reflexivity|]. rewrite N.eqb_refl. exact IH. Qed.

Lemma sibling_not_below a c r :
  a <> [] -> a <> [c_slash] -> is_boundary c = false -> is_path_below (a ++ c :: r) a = false.
Proof.
  intros H1 H2 Hc. unfold is_path_below.
  destruct (eqb_str a []) eqn:E1; [apply eqb_str_eq in E1; contradiction|].
  destruct (eqb_str a [c_slash]) eqn:E2; [apply eqb_str_eq in E2; contradiction|].
  cbn [orb]. rewrite strip_prefix_app. exact Hc.
Qed.

Lemma child_below a c r :
  a <> [] -> a <> [c_slash] -> is_boundary c = true -> is_path_below (a ++ c :: r) a = true.
Proof.
  intros H1 H2 Hc. unfold is_path_below.
  destruct (eqb_str a []) eqn:E1; [apply eqb_str_eq in E1; contradiction|].
  destruct (eqb_str a [c_slash]) eqn:E2; [apply eqb_str_eq in E2; contradiction|].
  cbn [orb]. rewrite strip_prefix_app. exact Hc.
Qed.

(* C06, run level: the hypothesis [quiet] of rollback_restores_run (no commit step of a proposal of the target between the
   commit of the change and the commit of its rollback - a statement about EVERY intermediate world) is DERIVED from the
   run, from one field of one record: the rollback proposal directly follows the change in the target's chain
   (p_prev R = i).

     - commit_step_moves: a complete commit step of a proposal of t on top of its predecessor, from a reachable world,
       moves Committed.Index of t to a strictly larger value (commit_cfg + links_ordered + prop_index_pos);
     - committed_mono_run: Committed.Index of a target never decreases along any list of steps (cursors_monotone lifted);
     - quiet_from_cursor: a run of complete invocations from a reachable world at whose two ends Committed.Index of t
       is the same holds no commit step of t;
     - rollback_restores_run_prev: rollback_restores_run with [quiet] replaced by [p_prev R = i]. *)
From stdpp Require Import gmap.
From RecordUpdate Require Import RecordUpdate.
From Coq Require Import NArith Lia Permutation.
From OC Require Import Proofs.P2PureRollbackBase Proofs.P2PureRollbackBool Proofs.P2PureRollbackMain.
From OC Require Import Base.Bytes Model.P2Pure Model.Proto2 Model.P2Inst Proofs.P2Base Proofs.P2Phases Proofs.P2_Cursor
     Proofs.P2_CursorInv Proofs.P2_CursorChain Proofs.P2_CursorLink Proofs.P2_CursorChainInv
     Proofs.P2_Converge Proofs.P2_ConvergeEx Proofs.P2_Order Proofs.P2_OrderStep.
From OC Require Import Proofs.P2PureApplyDefs Proofs.P2PureApplyBase Proofs.P2PureApplySem Proofs.P2PureApplySound
     Proofs.P2PureApplyStatus Proofs.P2PureApplyInst Proofs.P2PureReachPure Proofs.P2PureReachInv Proofs.P2PureReachEff
     Proofs.P2PureReachDyn Proofs.P2PureReachRun Proofs.P2PureReachLabels Proofs.P2PureAtomicCommit Proofs.P2PureAtomicFrame
     Proofs.P2PureAtomicAll Proofs.P2PureRollbackRun.
Open Scope N_scope.

Local Opaque restore record_applied commit_merge touched overlay rollback_of candidate candidate_rb payload resync_payload stamp doc_ok.

Local Notation "'inst' f" := (f candidate candidate_rb rollback_of overlay commit_merge payload record_applied touched restore
                                resync_payload doc_ok dev_apply stamp nil nil nil) (at level 10, f at level 9, only parsing).

Notation i_committed_of := (@committed_of cmap cmap req dstate).

(** * Committed.Index never decreases along a list of steps *)
Lemma reach_fold (ls : list Label) : forall w : Wd, i_reach w -> i_reach (fold_left p2_step ls w).
Proof.
  induction ls as [|l ls IH]; intros w Hr; [exact Hr|]. cbn [fold_left]. apply IH. exact (inst reach_step w l Hr).
Qed.

Lemma committed_mono_run (t : N) (ls : list Label) : forall w : Wd,
  i_reach w -> i_committed_of w t <= i_committed_of (fold_left p2_step ls w) t.
Proof.
  induction ls as [|l ls IH]; intros w Hr; [cbn; lia|]. cbn [fold_left].
  pose proof (proj1 (inst cursors_monotone w l t Hr)) as H1.
  pose proof (IH (p2_step w l) (inst reach_step w l Hr)) as H2.
  unfold p2_step in *. lia.
Qed.

(** * A complete commit step moves Committed.Index strictly upwards *)
Lemma commit_step_moves (t : N) (w : Wd) (l : Label) :
  i_reach w -> i_complete w l -> commit_step_of t w l -> i_committed_of w t < i_committed_of (p2_step w l) t.
Proof.
  intros Hr Hc (i & n & o & P & C & -> & HP & HC & Ec & Ea & Eb & Hcm).
  assert (Hn : (2 <= n)%nat).
  { assert (length (fst (p2_reconcile o w (CtlProp (t, i)))) <= n)%nat as X by exact Hc.
    rewrite (commit_effects o w t i P C HP HC Ec Ea Eb Hcm) in X. cbn [length] in X. lia. }
  destruct (cfg_step_some w (LRec (CtlProp (t, i)) n o) t C HC) as (C1 & HC1).
  pose proof (commit_cfg o w t i n P C C1 HP HC Ec Ea Eb Hcm Hn HC1) as E1.
  unfold committed_of. rewrite HC, HC1, E1. cbn. rewrite Hcm.
  pose proof (inst prop_index_pos w t i P Hr HP) as Hpos.
  destruct (proj1 (inst links_ordered w t i P Hr HP)) as [E0|Hlt]; [rewrite E0|]; lia.
Qed.

(** * Equal cursors at both ends: no commit step in between *)
Lemma quiet_from_cursor (t : N) (ls : list Label) : forall w : Wd,
  i_reach w -> completes w ls -> i_committed_of (fold_left p2_step ls w) t = i_committed_of w t -> quiet t w ls.
Proof.
  induction ls as [|l ls IH]; intros w Hr Hc He; [exact I|]. destruct Hc as [Hc1 Hc2]. cbn [fold_left] in He.
  pose proof (inst reach_step w l Hr) as Hr'. fold p2_step in Hr'.
  pose proof (committed_mono_run t ls (p2_step w l) Hr') as Hm.
  pose proof (proj1 (inst cursors_monotone w l t Hr)) as H1. fold p2_step in H1.
  split.
  - intros Hcs. pose proof (commit_step_moves t w l Hr Hc1 Hcs) as Hlt. lia.
  - apply IH; [exact Hr'|exact Hc2|lia].
Qed.

Lemma completes_app (a b : list Label) : forall w, completes w (a ++ b) <-> completes w a /\ completes (fold_left p2_step a w) b.
Proof.
  induction a as [|l a IH]; intros w; cbn [app fold_left completes]; [tauto|]. rewrite IH. tauto.
Qed.

(** * The run theorem without the hypothesis [quiet] *)
Theorem rollback_restores_run_prev (ls1 ls2 : list Label) t i j n n' (o o' : oracle) (P R : Prop2) (C C1' C2 : Cfg) c :
  let lc := LRec (CtlProp (t, i)) n o in
  let lr := LRec (CtlProp (t, j)) n' o' in
  let ls := ls1 ++ [lc] ++ ls2 ++ [lr] in
  labels_wfb ls = true -> completes p2_init ls ->
  (* lc is the commit step of the Change proposal (t, i) *)
  props (x_run ls1) !! (t, i) = Some P -> p_details P = PChange c -> cfgs (x_run ls1) !! t = Some C ->
  p_commit P = Some Doing -> p_apply P = None -> p_abort P = None -> c_committed C = p_prev P ->
  (* lr is the commit step of the Rollback proposal (t, j) of (t, i), which directly follows (t, i) in the chain of t *)
  props (x_run (ls1 ++ [lc] ++ ls2)) !! (t, j) = Some R -> p_details R = PRollback i -> p_prev R = i ->
  cfgs (x_run (ls1 ++ [lc] ++ ls2)) !! t = Some C1' ->
  p_commit R = Some Doing -> p_apply R = None -> p_abort R = None -> c_committed C1' = p_prev R ->
  p_rbvalues R = Some (rollback_of (view overlay C) c) ->
  rollback_wf i j (c_values C) (view overlay C) c = true ->
  cfgs (x_run ls) !! t = Some C2 ->
  live (view overlay C2) = live (view overlay C).
Proof.
  intros lc lr ls Hw Hc HP Hdt HC Ec Ea Eb Hcm HR Hdr Hprev HC1' Fc Fa Fb Hcm' Hrb Hwf HC2.
  apply (rollback_restores_run ls1 ls2 t i j n n' o o' P R C C1' C2 c Hw Hc HP Hdt HC Ec Ea Eb Hcm); try assumption.
  (* quiet *)
  unfold ls in Hc. apply completes_app in Hc. destruct Hc as [Hc1 Hc2]. fold (x_run ls1) in Hc2.
  change ([lc] ++ ls2 ++ [lr]) with (lc :: ls2 ++ [lr]) in Hc2. destruct Hc2 as [Hlc Hc3].
  apply completes_app in Hc3. destruct Hc3 as [Hc3 _].
  assert (X1 : x_run (ls1 ++ [lc]) = p2_step (x_run ls1) lc) by (unfold x_run; rewrite fold_left_app; reflexivity).
  assert (X2 : x_run (ls1 ++ [lc] ++ ls2) = fold_left p2_step ls2 (p2_step (x_run ls1) lc)).
  { unfold x_run. rewrite fold_left_app. reflexivity. }
  change (quiet t (x_run (ls1 ++ [lc])) ls2). rewrite X1. apply quiet_from_cursor.
  - rewrite <- X1. apply x_run_reach.
  - exact Hc3.
  - rewrite <- X2. unfold committed_of at 1. rewrite HC1', Hcm', Hprev.
    assert (Hn : (2 <= n)%nat).
    { assert (length (fst (p2_reconcile o (x_run ls1) (CtlProp (t, i)))) <= n)%nat as X by exact Hlc.
      rewrite (commit_effects o (x_run ls1) t i P C HP HC Ec Ea Eb Hcm) in X. cbn [length] in X. lia. }
    destruct (cfg_step_some (x_run ls1) lc t C HC) as (C1 & HC1).
    pose proof (commit_cfg o (x_run ls1) t i n P C C1 HP HC Ec Ea Eb Hcm Hn HC1) as E1.
    unfold committed_of. rewrite HC1, E1. reflexivity.
Qed.

Print Assumptions rollback_restores_run_prev.

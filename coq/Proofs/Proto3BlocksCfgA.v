(* Proto3BlocksCfgA: the Applied-cursor writes of applyChange and the Committed.Target write of commitRollback preserve FInv (second layer of the frontier invariant, Proto3BlocksBase). *)
From Coq Require Import List NArith Bool Arith Lia.
From OC Require Import Model.Proto3 Spec.Tla3 Proofs.Proto3Proofs Proofs.Proto3OrderBase Proofs.Proto3BlocksBase.
Import ListNotations.
Open Scope N_scope.

Lemma F_cfg_AC1 g n cm ap i t :
  SInv g n cm ap -> FInv g cm ap -> g i = Some t ->
  cc t = 2 ->
  ca t = 0 ->
  k_ordinal ap + 1 = t_cord t ->
  k_target ap <> i ->
  (forall j p, g j = Some p -> j = k_index ap /\ k_target ap = k_index ap -> 2 <= ca p) ->
  t_ridx t <= k_revision ap ->
  FInv g cm 
    {| k_index := k_index ap; k_ordinal := k_ordinal ap; k_revision := k_revision ap; k_target := i; k_change := k_change ap |}.
Proof.
  intros HS HF Hi G1 G2 G3 G4 G5 G6.
  finv_by prj HS HF g ltac:(inst_gate G5 g).
Qed.

Lemma F_cfg_AC4 g n cm ap i t :
  SInv g n cm ap -> FInv g cm ap -> g i = Some t ->
  cc t = 2 ->
  ca t = 1 ->
  ~ (k_ordinal ap = t_cord t /\ k_revision ap = i) ->
  FInv g cm 
    {| k_index := i; k_ordinal := t_cord t; k_revision := i; k_target := k_target ap; k_change := k_change ap |}.
Proof.
  intros HS HF Hi G1 G2 G3.
  finv_by prj HS HF g ltac:(for_each_tx g ltac:(fun j t0 Hg => pf (fun X Y => failed_blocks g n cm ap j t0 i t HS HF Hg Hi X (or_introl G2) Y))).
Qed.

Lemma F_cfg_bump g n cm ap i t ap' :
  SInv g n cm ap -> FInv g cm ap -> g i = Some t ->
  cc t = 2 -> ca t = 3 \/ ca t = 5 -> k_ordinal ap < t_cord t ->
  k_index ap' = i -> k_ordinal ap' = t_cord t -> k_revision ap' = k_revision ap -> k_target ap' = i ->
  FInv g cm ap'.
Proof.
  intros HS HF Hi G1 G2 G3 E1 E2 E3 E4.
  finv_by ltac:(rewrite ?E1, ?E2, ?E3, ?E4 in *) HS HF g idtac.
Qed.

Lemma F_cfg_R1 g n cm ap i t :
  SInv g n cm ap -> FInv g cm ap -> g i = Some t ->
  rc t = 0 ->
  cc t = 2 ->
  k_revision cm = i ->
  k_target cm = i ->
  k_index cm = k_target cm ->
  FInv g 
    {| k_index := k_index cm; k_ordinal := k_ordinal cm; k_revision := k_revision cm; k_target := t_ridx t; k_change := k_change cm |} ap.
Proof.
  intros HS HF Hi G1 G2 G3 G4 G5.
  finv_by prj HS HF g idtac.
Qed.

(* C04, reachability invariant of the instance, part 2: every effect of every reconcile invocation carries good values
   (eff_ok of Proofs/P2PureReachInv.v), given the static invariant and - for the rollback values recorded at validation -
   a committed view without live values beneath tombstones. *)
From stdpp Require Import gmap.
From RecordUpdate Require Import RecordUpdate.
From Coq Require Import NArith Lia.
From OC Require Import Base.Bytes Model.P2Pure Model.Proto2 Model.P2Inst Proofs.P2Base Proofs.P2Phases Proofs.P2_Cursor.
From OC Require Import Proofs.P2PureApplyDefs Proofs.P2PureApplyBase Proofs.P2PureApplySem Proofs.P2PureApplySound
     Proofs.P2PureApplyStatus Proofs.P2PureReachPure Proofs.P2PureReachInv.
Open Scope N_scope.

(** * same lookups, same cleanliness *)
Lemma nlb_ext (M1 M2 : cmap) : WF M1 -> WF M2 -> (forall k, plookup k M1 = plookup k M2) ->
  no_live_below M1 = true -> no_live_below M2 = true.
Proof.
  intros H1 H2 He Hn. unfold no_live_below. apply forallb_forall. intros [k v] Hin. cbn.
  destruct (pv_deleted v) eqn:Ed; [reflexivity|]. cbn. apply negb_true_iff.
  apply (in_lookup _ _ _ (proj1 H2)) in Hin. rewrite <- He in Hin.
  pose proof (nlb_spec M1 k v (proj1 H1) Hn Hin Ed) as Hc.
  destruct (covered M2 k) eqn:Ec; [|reflexivity]. exfalso. apply covered_spec in Ec. destruct Ec as (t & e & Ht & Hd & Hb).
  apply (in_lookup _ _ _ (proj1 H2)) in Ht. rewrite <- He in Ht.
  rewrite (cov_intro M1 t e k (lookup_in _ _ _ Ht) Hd Hb) in Hc. discriminate.
Qed.

Definition keysub (a b : cmap) : Prop := forall k, plookup k a <> None -> plookup k b <> None.

Lemma overlay_keysub_lookup (inl m : cmap) k : WF m -> keysub inl m -> plookup k (overlay inl m) = plookup k m.
Proof.
  intros Hm Hs. rewrite (overlay_lookup m inl k (proj1 Hm)). destruct (plookup k m) eqn:E; [reflexivity|].
  destruct (plookup k inl) eqn:E2; [|reflexivity]. exfalso. apply (Hs k); congruence.
Qed.

(* the dynamic part, per configuration *)
Definition dynp (vals inl ainl avals : cmap) : Prop :=
  no_live_below vals = true /\ keysub inl vals /\ no_live_below (overlay ainl avals) = true.
Definition dyn (C : Cfg) : Prop := dynp (c_values C) (c_inline C) (c_ainline C) (c_avalues C).

(** * stamping *)
Lemma stamp_in i c k v' : In (k, v') (stamp i c) <-> exists v, In (k, v) c /\ v' = mkPV (pv_path v) (pv_val v) (pv_deleted v) i.
Proof.
  unfold stamp. rewrite in_map_iff. split.
  - intros ([k0 v] & E & Hin). injection E as <- <-. exists v. auto.
  - intros (v & Hin & ->). exists (k, v). auto.
Qed.

Lemma stamp_keys i c : map fst (stamp i c) = map fst c.
Proof. unfold stamp. rewrite map_map. apply map_ext. intros [k v]. reflexivity. Qed.

Section Eff.
  Context (Lf : N -> str -> Prop) (Lf_free : forall t p q, Lf t p -> Lf t q -> ~ Below p q).
  Notation SInv := (SInv Lf).
  Notation chg_ok := (chg_ok Lf).
  Notation nb_ok := (nb_ok Lf).
  Notation tx_ok := (tx_ok Lf).
  Notation eff_ok := (eff_ok Lf).

  Lemma stamp_chg_ok t i c : nb_ok t c -> chg_ok t i (stamp i c).
  Proof.
    intros [[[Hn Hk] Hw] Hl]. split; [split; [split|]|split].
    - unfold ND. rewrite stamp_keys. exact Hn.
    - intros k v' Hin. apply stamp_in in Hin. destruct Hin as (v & Hin & ->). cbn. apply Hk. exact Hin.
    - intros k v' kd d' H1 Hlv H2 Hd. apply stamp_in in H1. destruct H1 as (v & H1 & ->). apply stamp_in in H2. destruct H2 as (d & H2 & ->).
      cbn in Hlv, Hd. exact (Hw _ _ _ _ H1 Hlv H2 Hd).
    - intros k v' Hin. apply stamp_in in Hin. destruct Hin as (v & Hin & ->). reflexivity.
    - intros k v' Hin Hlv. apply stamp_in in Hin. destruct Hin as (v & Hin & ->). cbn in Hlv. exact (Hl _ _ Hin Hlv).
  Qed.

  Lemma chg_nb_ok t i c : chg_ok t i c -> nb_ok t c.
  Proof. intros (H1 & _ & H3). split; assumption. Qed.

  (** * values of one configuration *)
  Section OneCfg.
    Context (w : Wd) (HS : SInv w) (t : N) (C : Cfg) (HC : cfgs w !! t = Some C).

    Lemma cg_parts : cgood w t (c_values C) /\ cgood w t (c_avalues C) /\ cgood w t (c_inline C) /\ cgood w t (c_ainline C).
    Proof. exact (si_cfg Lf w HS t C HC). Qed.

    Lemma cg_overlay a b : cgood w t a -> cgood w t b -> cgood w t (overlay a b).
    Proof.
      intros [A1 A2] [B1 B2]. split; [apply WF_overlay; assumption|]. intros k v Hin. apply In_overlay in Hin.
      destruct Hin; [eapply A2|eapply B2]; eassumption.
    Qed.

    Lemma cg_view : cgood w t (view overlay C).
    Proof. destruct cg_parts as (H1 & H2 & H3 & H4). apply cg_overlay; assumption. Qed.
    Lemma cg_aview : cgood w t (aview overlay C).
    Proof. destruct cg_parts as (H1 & H2 & H3 & H4). apply cg_overlay; assumption. Qed.

    Lemma cg_restore : cgood w t (restore (c_avalues C) (aview overlay C)).
    Proof.
      destruct cg_parts as (_ & [A1 A2] & _). destruct cg_aview as [B1 B2]. split; [apply store_write_spec; assumption|].
      intros k v Hin. apply restore_In in Hin; [|assumption..]. destruct Hin; [eapply A2|eapply B2]; eassumption.
    Qed.

    Section OneProp.
      Context (i : N) (P : Prop2) (HP : props w !! (t, i) = Some P).

      Lemma cg_touched : cgood w t (touched i (view overlay C) (rb_change nil P)).
      Proof.
        destruct cg_view as [V1 V2]. destruct (rb_change_ok Lf w t i P HS HP) as [[R1 R2] R3].
        split; [apply touched_WF; exact V1|]. intros k v Hin. apply touched_In in Hin; [|assumption..].
        destruct Hin as [Hin|Hin]; [eapply V2; eassumption|]. exact (mark_vgood Lf w t i P (k, v) HS HP Hin).
      Qed.

      Lemma cg_record ord : cgood w t (record_applied ord i (c_avalues C) (aview overlay C) (view overlay C) (rb_change nil P)).
      Proof.
        destruct cg_parts as (_ & [A1 A2] & _). destruct cg_aview as [B1 B2]. destruct (rb_change_ok Lf w t i P HS HP) as [[R1 R2] R3].
        split; [apply record_applied_WF; assumption|]. intros k v Hin. apply record_applied_In in Hin; [|assumption..].
        destruct Hin as [Hin|[Hin|[Hin|Hin]]]; [eapply A2; eassumption|eapply B2; eassumption|eapply R2; eassumption|].
        exact (mark_vgood Lf w t i P (k, v) HS HP Hin).
      Qed.

      Lemma cg_commit ord : cgood w t (commit_merge ord i (c_values C) (view overlay C) (rb_change nil P)).
      Proof.
        destruct cg_parts as ([A1 A2] & _). destruct cg_view as [B1 B2]. destruct (rb_change_ok Lf w t i P HS HP) as [[R1 R2] R3].
        split.
        - rewrite commit_merge_eq. apply store_write_spec; [|exact A1]. apply act_fold_WF; [apply markmap_WF; exact B1|].
          intros k v H. apply (Permutation.Permutation_in _ (permute_perm _ _)) in H. apply (proj2 (upd_KO ord i (rb_change nil P) (view overlay C) R3)). exact H.
        - intros k v Hin. apply commit_merge_In in Hin; [|assumption..].
          destruct Hin as [Hin|[Hin|[Hin|Hin]]]; [eapply A2; eassumption|eapply B2; eassumption|eapply R2; eassumption|].
          exact (mark_vgood Lf w t i P (k, v) HS HP Hin).
      Qed.

      (* a live good value lies at a leaf *)
      Lemma vgood_leaf v : vgood w t v -> pv_deleted v = false -> Lf t (pv_path v).
      Proof.
        intros [[_ H]|(Q & HQ & H)] Hlv; [congruence|]. destruct (si_prop Lf w HS _ _ _ HQ) as (_ & Hc & _).
        destruct (p_details Q) as [c|ri]; [|congruence]. rewrite Hlv in H. destruct (Hc c eq_refl) as (_ & _ & Hl). exact (Hl _ _ H Hlv).
      Qed.

      Lemma cg_rollback c : p_details P = PChange c -> dyn C ->
        cgood w t (rollback_of (view overlay C) c) /\ WFC (rollback_of (view overlay C) c).
      Proof.
        intros Hd (D1 & D2 & _). destruct cg_parts as ([A1 A2] & _ & [I1 I2] & _). destruct cg_view as [V1 V2].
        destruct (si_prop Lf w HS _ _ _ HP) as (_ & Hc & _). destruct (Hc c Hd) as (Hw & _ & Hl).
        assert (Hn : no_live_below (view overlay C) = true).
        { apply (nlb_ext (c_values C)); [exact A1|exact V1| |exact D1]. intros k. symmetry. apply overlay_keysub_lookup; assumption. }
        assert (Hlv : leaves_ok (view overlay C) c).
        { intros k u p x H1 H2 H3 H4. apply (Lf_free t); [|apply (Hl _ _ H1 H2)].
          destruct (proj2 V1 _ _ H3) as [-> _]. apply vgood_leaf; [eapply V2; eassumption|exact H4]. }
        destruct (rollback_of_ok (view overlay C) c V1 Hw Hn Hlv) as [R1 R2]. split; [|exact R1].
        split; [apply R1|]. intros k r Hin. destruct (R2 _ _ Hin) as [H| ->]; [eapply V2; eassumption|]. left. split; reflexivity.
      Qed.
    End OneProp.
  End OneCfg.

  (** * the transaction reconciler *)
  Lemma phase_scan_ok (w : Wd) i (T : Txn) tg get start stop on_failed on_all_done :
    SInv w -> i <> 0 ->
    (forall p : Prop2, p_details (start p) = p_details p /\ p_rbvalues (start p) = p_rbvalues p) ->
    (forall p, tx_ok (t_details (on_failed p))) -> tx_ok (t_details on_all_done) ->
    Forall (eff_ok w) (fst (phase_scan w i T tg get start stop on_failed on_all_done)).
  Proof.
    intros HS Hi Hs Hf Ha. unfold phase_scan.
    destruct (scan_props w i tg _) as [r|] eqn:Es; [destruct r as [[]|[t p]]; [apply List.Forall_nil|]|].
    - apply (scan_props_inr w i tg _ t p) in Es. destruct Es as [Hp _]. destruct (si_prop Lf w HS _ _ _ Hp) as (_ & _ & Hr).
      destruct (is_none (get p)); cbn [fst]; (apply List.Forall_cons; [|apply List.Forall_nil]); cbn.
      + exists p. destruct (Hs p) as [E1 E2]. split; [exact Hp|]. split; [exact E1|]. rewrite E2. exact Hr.
      + split; [exact Hi|apply Hf].
    - destruct (default false _); cbn [fst]; [|apply List.Forall_nil]. apply List.Forall_cons; [|apply List.Forall_nil]. cbn. split; [exact Hi|exact Ha].
  Qed.

  Lemma gate_ok (w : Wd) i (T : Txn) tg need next r :
    i <> 0 -> tx_ok (t_details next) -> Forall (eff_ok w) (fst (gate w i T tg need next r)).
  Proof.
    intros Hi Hn. unfold gate. destruct (all_props w i tg _); [|apply List.Forall_nil].
    destruct (blocked_by_prev w i tg need); cbn [fst]; [apply List.Forall_nil|]. apply List.Forall_cons; [|apply List.Forall_nil]. cbn. auto.
  Qed.

  Lemma create_props_ok (w : Wd) i l :
    (forall tp, In tp l -> props w !! (fst tp, i) = None ->
       i <> 0 /\ p_rbvalues (snd tp) = None /\ forall c, p_details (snd tp) = PChange c -> chg_ok (fst tp) i c) ->
    Forall (eff_ok w) (create_props w i l).
  Proof.
    induction l as [|[t p] l IH]; intros H; cbn; [apply List.Forall_nil|].
    destruct (props w !! (t, i)) eqn:E; cbn.
    - apply IH. intros tp Hin. apply H. right. exact Hin.
    - apply List.Forall_cons; [|apply IH; intros tp Hin; apply H; right; exact Hin]. cbn. apply (H (t, p) (or_introl eq_refl) E).
  Qed.

  Lemma rec_tx_ok (w : Wd) i : SInv w -> Forall (eff_ok w) (fst (rec_tx stamp w i)).
  Proof.
    intros HS. unfold Proto2.rec_tx, fail_init. destruct (txs w !! i) as [T|] eqn:HT; [|apply List.Forall_nil].
    destruct (si_tx Lf w HS _ _ HT) as [Hi Ht].
    repeat match goal with
           | |- Forall _ (fst (phase_scan _ _ _ _ _ _ _ _ _)) =>
             apply phase_scan_ok; [exact HS|exact Hi|intros ?; split; reflexivity|intros ?; exact Ht|exact Ht]
           | |- Forall _ (fst (gate _ _ _ _ _ _ _)) => apply gate_ok; [exact Hi|exact Ht]
           | |- Forall _ (fst ([], _)) => apply List.Forall_nil
           | |- Forall _ (fst ([EPutTx _ _], _)) => cbn [fst]; apply List.Forall_cons; [cbn; split; [exact Hi|exact Ht]|apply List.Forall_nil]
           | |- Forall _ (fst ([EPutProp _ _], _)) => fail
           | |- context [match ?x with _ => _ end] => destruct x eqn:?
           end.
    - (* the apply phase is started on a proposal *)
      match goal with E : scan_props _ _ _ _ = Some (inr (?t, ?p)) |- _ => apply (scan_props_inr w i _ _ t p) in E; destruct E as [Hp _] end.
      cbn [fst]. apply List.Forall_cons; [|apply List.Forall_nil]. cbn. eexists. split; [exact Hp|]. split; [reflexivity|].
      apply (si_prop Lf w HS _ _ _ Hp).
    - (* the proposals of a change are created, stamped *)
      try match goal with H : t_details T = TChange _ |- _ => rewrite H in Ht end.
      cbn [fst]. apply Forall_app_2.
      + apply create_props_ok. intros [tt pp] Hin Hn. cbn [fst snd] in *. apply in_map_iff in Hin. destruct Hin as ([t' c'] & [= <- <-] & Hin).
        apply in_map_iff in Hin. destruct Hin as ([t0 c0] & E & Hin). cbn [fst snd] in E.
        destruct (props w !! (t0, i)) eqn:E0; injection E as <- <-; [congruence|].
        split; [exact Hi|]. split; [reflexivity|]. intros c [= <-]. apply stamp_chg_ok. exact (Ht _ _ Hin).
      + apply List.Forall_cons; [|apply List.Forall_nil]. cbn. split; [exact Hi|]. intros t' c' Hin.
        apply in_map_iff in Hin. destruct Hin as ([t0 c0] & E & Hin). cbn [fst snd] in E.
        destruct (props w !! (t0, i)); injection E as <- <-; [exact (Ht _ _ Hin)|].
        apply (chg_nb_ok t0 i). apply stamp_chg_ok. exact (Ht _ _ Hin).
    - (* the proposals of a rollback are created *)
      cbn [fst]. apply Forall_app_2.
      + apply create_props_ok. intros [tt pp] Hin Hn. cbn [fst snd] in *. apply in_map_iff in Hin. destruct Hin as ([t' c'] & [= <- <-] & Hin).
        split; [exact Hi|]. split; [reflexivity|]. intros c H. discriminate H.
      + apply List.Forall_cons; [|apply List.Forall_nil]. cbn. split; [exact Hi|]. match goal with H : t_details T = _ |- _ => rewrite H end. exact Ht.
    - cbn [fst]. apply List.Forall_cons; [|apply List.Forall_nil]. cbn. split; [exact Hi|]. match goal with H : t_details T = _ |- _ => rewrite H end. exact Ht.
    - cbn [fst]. apply List.Forall_cons; [|apply List.Forall_nil]. cbn. split; [exact Hi|]. match goal with H : t_details T = _ |- _ => rewrite H end. exact Ht.
  Qed.
  (** * the proposal, configuration, mastership and connection reconcilers *)
  Local Opaque restore record_applied commit_merge touched overlay rollback_of candidate candidate_rb payload resync_payload stamp doc_ok.

  Ltac conc_link :=
    try match goal with H : _ = Some ?e |- _ => is_var e;
          repeat match type of H with context [match ?x with _ => _ end] => destruct x eqn:? end;
          try discriminate H; injection H as <- end.

  Ltac cg_tac :=
    first [ apply cgood_nil
          | eapply cg_view; eassumption
          | eapply cg_aview; eassumption
          | eapply cg_restore; eassumption
          | eapply cg_touched; eassumption
          | eapply cg_record; eassumption
          | eapply cg_commit; eassumption ].

  Ltac eff_tac Hall :=
    cbn [eff_ok];
    lazymatch goal with
    | |- True => exact I
    | |- ex _ =>
      eexists; split; [eassumption|]; split; [reflexivity|];
      let rb := fresh "rb" in let Hrb := fresh "Hrb" in
      intros rb Hrb; cbn in Hrb;
      first [ eapply Hall; [|exact Hrb]; eassumption
            | injection Hrb as <-; eapply cg_rollback; eauto ]
    | |- cgood _ _ _ /\ cgood _ _ _ => split; cbn; cg_tac
    | |- cgood _ _ _ => cg_tac
    | |- _ = _ /\ _ => repeat split
    end.

  Lemma rec_prop_ok (o : oracle) (w : Wd) t i :
    SInv w -> (forall C : Cfg, cfgs w !! t = Some C -> dyn C) ->
    Forall (eff_ok w) (fst (p2_reconcile o w (CtlProp (t, i)))).
  Proof.
    intros HS HD. unfold p2_reconcile. cbn [Proto2.reconcile]. unfold Proto2.rec_prop, Proto2.vfail, Proto2.upd_status.
    match goal with |- context [match ?x with Some _ => _ | None => ([], RDone) end] => destruct x as [P|] eqn:HP end; [|apply List.Forall_nil].
    assert (Hall : forall i' (Q : Prop2) rb, props w !! (t, i') = Some Q -> p_rbvalues Q = Some rb -> cgood w t rb /\ WFC rb).
    { intros i' Q rb HQ Hr. apply (si_prop Lf w HS _ _ _ HQ). exact Hr. }
    destruct_matches; cbn [fst app]; conc_link;
      repeat (apply List.Forall_cons; [|]); try apply List.Forall_nil; eff_tac Hall.
  Qed.

  Lemma upd_status_ok (w : Wd) t (C C' : Cfg) : SInv w -> cfgs w !! t = Some C -> Forall (eff_ok w) (upd_status overlay restore nil t C C').
  Proof.
    intros HS HC. unfold Proto2.upd_status. apply List.Forall_cons; [cbn [eff_ok]; eapply cg_restore; eassumption|].
    apply List.Forall_cons; [|apply List.Forall_nil]. cbn [eff_ok]. split; cbn; [eapply cg_view; eassumption|apply cgood_nil].
  Qed.

  Lemma resync_ok (w : Wd) t m term a reqs : Forall (eff_ok w) (fst (@resync_effs cmap cmap req t m term a reqs)).
  Proof.
    apply List.Forall_forall. intros e He. apply resync_effs_in in He. destruct He as (r & -> & _). exact I.
  Qed.

  Lemma rec_cfg_ok (o : oracle) (w : Wd) t : SInv w -> Forall (eff_ok w) (fst (p2_reconcile o w (CtlCfg t))).
  Proof.
    intros HS. unfold p2_reconcile. cbn [Proto2.reconcile]. unfold Proto2.rec_cfg.
    destruct_matches; cbn [fst]; try apply List.Forall_nil; try (apply upd_status_ok; assumption).
    all: match goal with E : resync_effs ?t0 ?m0 ?te0 ?a0 ?rq0 = (?es, _) |- _ =>
           pose proof (resync_ok w t0 m0 te0 a0 rq0) as Hr; rewrite E in Hr; cbn [fst] in Hr end.
    all: first [exact Hr | apply Forall_app_2; [exact Hr|apply upd_status_ok; assumption]].
  Qed.

  Lemma rec_master_ok (o : oracle) (w : Wd) t : SInv w -> Forall (eff_ok w) (fst (p2_reconcile o w (CtlMaster t))).
  Proof.
    intros HS. unfold p2_reconcile. cbn [Proto2.reconcile]. unfold Proto2.rec_master.
    destruct_matches; cbn [fst]; try apply List.Forall_nil; apply upd_status_ok; assumption.
  Qed.

  Lemma rec_conn_ok (w : Wd) c : Forall (eff_ok w) (fst (@rec_conn cmap cmap req dstate w c)).
  Proof.
    unfold Proto2.rec_conn. destruct_matches; cbn [fst]; repeat (apply List.Forall_cons; [exact I|]); apply List.Forall_nil.
  Qed.

  Theorem reconcile_ok (o : oracle) (w : Wd) c :
    SInv w -> (forall t (C : Cfg), cfgs w !! t = Some C -> dyn C) -> Forall (eff_ok w) (fst (p2_reconcile o w c)).
  Proof.
    intros HS HD. destruct c as [i|[t i]|t|t|cc].
    - apply rec_tx_ok. exact HS.
    - apply rec_prop_ok; [exact HS|apply HD].
    - apply rec_cfg_ok. exact HS.
    - apply rec_master_ok. exact HS.
    - apply rec_conn_ok.
  Qed.
End Eff.

(* Proofs about Model/Value.v, part 2: the PROTO round trip of homogeneous leaf-lists *)
From Coq Require Import List NArith ZArith Bool Lia.
From OC Require Import Base.Bytes Model.Value Proofs.ValueProofs.
Import ListNotations.
Open Scope Z_scope.

(* ------------------------------------------------------------ slices *)
Lemma take_slice_app (a r : list N) : take_slice (zlen a) (a ++ r) = Ok (a, r).
Proof.
  unfold take_slice, zlen.
  assert (H1 : (Z.of_nat (length a) <? 0) = false) by (apply Z.ltb_ge; lia).
  assert (H2 : (Z.of_nat (length (a ++ r)) <? Z.of_nat (length a)) = false)
    by (apply Z.ltb_ge; rewrite app_length; lia).
  rewrite H1, H2. cbn [orb]. rewrite Nat2Z.id.
  rewrite firstn_app, Nat.sub_diag, firstn_all, firstn_O, app_nil_r.
  rewrite skipn_app, Nat.sub_diag, skipn_all. reflexivity.
Qed.

(* ------------------------------------------------------------ what handleLeafList collects *)
Ltac flt l := induction l as [|? l IH]; cbn; [reflexivity | try rewrite IH; try reflexivity; auto].

Section Collect.
  Context {A : Type} (c : A -> gval).

  Lemma collect_supported l : (forall x, ll_supported (c x) = true) -> forallb ll_supported (map c l) = true.
  Proof. intros H. induction l as [|x l IH]; cbn; [reflexivity|]. rewrite H, IH. reflexivity. Qed.
End Collect.

Lemma strings_of_strings l : ll_strings (map GString l) = l.
Proof. flt l. f_equal. exact IH. Qed.
Lemma ints_of_ints l : ll_ints (map GInt l) = l.
Proof. flt l. f_equal. exact IH. Qed.
Lemma uints_of_uints l : ll_uints (map GUint l) = l.
Proof. flt l. f_equal. exact IH. Qed.
Lemma bools_of_bools l : ll_bools (map GBool l) = l.
Proof. flt l. f_equal. exact IH. Qed.
Lemma bytess_of_bytess l : ll_bytess (map GBytes l) = l.
Proof. flt l. f_equal. exact IH. Qed.
Lemma digits_of_decimals p l : ll_digits (map (fun d => GDecimal d p) l) = l.
Proof. flt l. f_equal. exact IH. Qed.
Lemma floats_of_floats l : ll_floats (map GFloat l) = l.
Proof. flt l. f_equal. exact IH. Qed.

Lemma strings_of_ints l : ll_strings (map GInt l) = []. Proof. flt l. Qed.
Lemma strings_of_uints l : ll_strings (map GUint l) = []. Proof. flt l. Qed.
Lemma strings_of_bools l : ll_strings (map GBool l) = []. Proof. flt l. Qed.
Lemma strings_of_bytess l : ll_strings (map GBytes l) = []. Proof. flt l. Qed.
Lemma strings_of_decimals p l : ll_strings (map (fun d => GDecimal d p) l) = []. Proof. flt l. Qed.
Lemma strings_of_floats l : ll_strings (map GFloat l) = []. Proof. flt l. Qed.
Lemma ints_of_uints l : ll_ints (map GUint l) = []. Proof. flt l. Qed.
Lemma ints_of_bools l : ll_ints (map GBool l) = []. Proof. flt l. Qed.
Lemma ints_of_bytess l : ll_ints (map GBytes l) = []. Proof. flt l. Qed.
Lemma ints_of_decimals p l : ll_ints (map (fun d => GDecimal d p) l) = []. Proof. flt l. Qed.
Lemma ints_of_floats l : ll_ints (map GFloat l) = []. Proof. flt l. Qed.
Lemma uints_of_bools l : ll_uints (map GBool l) = []. Proof. flt l. Qed.
Lemma uints_of_bytess l : ll_uints (map GBytes l) = []. Proof. flt l. Qed.
Lemma uints_of_decimals p l : ll_uints (map (fun d => GDecimal d p) l) = []. Proof. flt l. Qed.
Lemma uints_of_floats l : ll_uints (map GFloat l) = []. Proof. flt l. Qed.
Lemma bools_of_bytess l : ll_bools (map GBytes l) = []. Proof. flt l. Qed.
Lemma bools_of_decimals p l : ll_bools (map (fun d => GDecimal d p) l) = []. Proof. flt l. Qed.
Lemma bools_of_floats l : ll_bools (map GFloat l) = []. Proof. flt l. Qed.
Lemma bytess_of_decimals p l : ll_bytess (map (fun d => GDecimal d p) l) = []. Proof. flt l. Qed.
Lemma bytess_of_floats l : ll_bytess (map GFloat l) = []. Proof. flt l. Qed.
Lemma digits_of_floats l : ll_digits (map GFloat l) = []. Proof. flt l. Qed.

Lemma prec_ok_nondecimal {A} fx (c : A -> gval) l :
  (forall x, match c x with GDecimal _ _ => False | _ => True end) -> ll_prec_ok fx (map c l) = true.
Proof.
  intros H. unfold ll_prec_ok. induction l as [|x l IH]; cbn; [reflexivity|].
  specialize (H x). destruct (c x); try contradiction; exact IH.
Qed.

Lemma prec_ok_decimals fx p l : prec_ok fx p = true -> ll_prec_ok fx (map (fun d => GDecimal d p) l) = true.
Proof. intros H. unfold ll_prec_ok. induction l as [|x l IH]; cbn; [reflexivity|]. rewrite H. exact IH. Qed.

Lemma precision_of_decimals p l t0 :
  l <> [] -> ll_precision (map (fun d => GDecimal d p) l) t0 = u8 p.
Proof.
  unfold ll_precision. intros Hne. destruct l as [|x l]; [contradiction|]. cbn [map fold_left].
  clear Hne x t0.
  induction l as [|y l IH]; cbn [map fold_left]; [reflexivity | exact IH].
Qed.

Lemma isnil_false {A} (l : list A) : l <> [] -> isnil l = false.
Proof. destruct l; [contradiction | reflexivity]. Qed.

(* ------------------------------------------------------------ int / decimal leaf-lists *)
Definition signed_pairs (l : list Z) : list Z := flat_map (fun v => [zlen (be_bytes (Z.abs_N v)); neg_opt v]) l.
Definition signed_bytes (l : list Z) : list N := concat (map (fun v => be_bytes (Z.abs_N v)) l).

Lemma signed_loop_rt l : Forall int64_range l -> ll_signed_loop (signed_pairs l) (signed_bytes l) = Ok l.
Proof.
  unfold signed_pairs, signed_bytes. induction l as [|v l IH]; intros H; [reflexivity|].
  inversion H as [|? ? Hv Hl]; subst.
  cbn [flat_map map concat app ll_signed_loop].
  rewrite take_slice_app. cbn [bind fst snd].
  rewrite IH by exact Hl. cbn [bind].
  rewrite from_be_be_bytes by (apply abs_N_bound; exact Hv).
  rewrite neg_opt_nonzero, int64_of_mag_abs by exact Hv. reflexivity.
Qed.

Definition ll_width (t0 : Z) : Z := if 0 <? t0 then t0 else 32.

Lemma hll_int fx l t0 : l <> [] -> handle_leaf_list fx (map GInt l) t0 = Ok (new_ll_int l (ll_width t0)).
Proof.
  intros Hne. unfold handle_leaf_list.
  rewrite (collect_supported GInt) by reflexivity.
  rewrite (prec_ok_nondecimal fx GInt) by (intros; exact I).
  rewrite strings_of_ints, ints_of_ints. cbn [negb isnil]. rewrite (isnil_false l Hne). reflexivity.
Qed.

Lemma rt_ll_int fx l o :
  l <> [] -> Forall int64_range l -> journey fx (GLeafList (map GInt l)) o = Ok (GLeafList (map GInt l)).
Proof.
  intros Hne H. unfold journey, to_native. rewrite hll_int by exact Hne. cbn [bind].
  unfold to_gnmi, ll_int_list, new_ll_int. cbn [tv_type tv_opts tv_bytes].
  fold (signed_pairs l). fold (signed_bytes l). rewrite signed_loop_rt by exact H. reflexivity.
Qed.

Lemma hll_decimal fx p l t0 :
  l <> [] -> prec_ok fx p = true ->
  handle_leaf_list fx (map (fun d => GDecimal d p) l) t0 = Ok (new_ll_decimal l (u8 p)).
Proof.
  intros Hne Hp. unfold handle_leaf_list.
  rewrite (collect_supported (fun d => GDecimal d p)) by reflexivity.
  rewrite prec_ok_decimals by exact Hp.
  rewrite strings_of_decimals, ints_of_decimals, uints_of_decimals, bools_of_decimals, bytess_of_decimals, digits_of_decimals.
  cbn [negb isnil]. rewrite (isnil_false l Hne). cbn [negb].
  rewrite precision_of_decimals by exact Hne. reflexivity.
Qed.

Lemma rt_ll_decimal fx p l o :
  l <> [] -> Forall int64_range l -> 0 <= p < 256 -> prec_ok fx p = true ->
  journey fx (GLeafList (map (fun d => GDecimal d p) l)) o = Ok (GLeafList (map (fun d => GDecimal d p) l)).
Proof.
  intros Hne H Hp Hok. unfold journey, to_native. rewrite hll_decimal by assumption. cbn [bind].
  assert (Hu : u8 p = p) by (unfold u8; apply Z.mod_small; lia). rewrite Hu.
  unfold to_gnmi, ll_decimal_list, new_ll_decimal. cbn [tv_type tv_opts tv_bytes].
  fold (signed_pairs l). fold (signed_bytes l). rewrite signed_loop_rt by exact H. cbn [bind fst snd].
  rewrite Hu. reflexivity.
Qed.

(* ------------------------------------------------------------ uint leaf-lists *)
Lemma unsigned_loop_rt l :
  Forall uint64_range l ->
  ll_unsigned_loop (map (fun v => zlen (be_bytes (Z.to_N v))) l) (concat (map (fun v => be_bytes (Z.to_N v)) l)) = Ok l.
Proof.
  induction l as [|v l IH]; intros H; [reflexivity|].
  inversion H as [|? ? Hv Hl]; subst.
  cbn [map concat ll_unsigned_loop].
  rewrite take_slice_app. cbn [bind fst snd].
  rewrite IH by exact Hl. cbn [bind].
  unfold uint64_of_mag. rewrite from_be_be_bytes by (apply to_N_bound; exact Hv).
  unfold uint64_range in Hv. rewrite Z2N.id by lia. rewrite u64_id by exact Hv. reflexivity.
Qed.

Lemma hll_uint fx l t0 : l <> [] -> handle_leaf_list fx (map GUint l) t0 = Ok (new_ll_uint l (ll_width t0)).
Proof.
  intros Hne. unfold handle_leaf_list.
  rewrite (collect_supported GUint) by reflexivity.
  rewrite (prec_ok_nondecimal fx GUint) by (intros; exact I).
  rewrite strings_of_uints, ints_of_uints, uints_of_uints. cbn [negb isnil]. rewrite (isnil_false l Hne). reflexivity.
Qed.

Lemma rt_ll_uint fx l o :
  l <> [] -> Forall uint64_range l -> journey fx (GLeafList (map GUint l)) o = Ok (GLeafList (map GUint l)).
Proof.
  intros Hne H. unfold journey, to_native. rewrite hll_uint by exact Hne. cbn [bind].
  unfold to_gnmi, ll_uint_list, new_ll_uint. cbn [tv_type tv_opts tv_bytes].
  rewrite unsigned_loop_rt by exact H. reflexivity.
Qed.

(* ------------------------------------------------------------ bool leaf-lists *)
Lemma hll_bool fx l t0 : l <> [] -> handle_leaf_list fx (map GBool l) t0 = Ok (new_ll_bool l).
Proof.
  intros Hne. unfold handle_leaf_list.
  rewrite (collect_supported GBool) by reflexivity.
  rewrite (prec_ok_nondecimal fx GBool) by (intros; exact I).
  rewrite strings_of_bools, ints_of_bools, uints_of_bools, bools_of_bools. cbn [negb isnil]. rewrite (isnil_false l Hne). reflexivity.
Qed.

Lemma bool_bytes_rt (l : list bool) :
  map (fun b => (b =? 1)%N) (map (fun b : bool => if b then 1%N else 0%N) l) = l.
Proof. induction l as [|b l IH]; [reflexivity|]. cbn [map]. rewrite IH. destruct b; reflexivity. Qed.

Lemma rt_ll_bool fx l o : l <> [] -> journey fx (GLeafList (map GBool l)) o = Ok (GLeafList (map GBool l)).
Proof.
  intros Hne. unfold journey, to_native. rewrite hll_bool by exact Hne. cbn [bind].
  unfold to_gnmi, ll_bool_list, new_ll_bool. cbn [tv_type tv_bytes]. rewrite bool_bytes_rt. reflexivity.
Qed.

(* ------------------------------------------------------------ float leaf-lists *)
Lemma float_loop_rt l : forall fuel r,
  Forall (fun b => f32_range b /\ f32_is_nan b = false) l -> (length l <= fuel)%nat -> take_be4 r = None ->
  ll_float_loop fuel (concat (map (fun b => be4 (f32_trip b)) l) ++ r) = l.
Proof.
  induction l as [|b l IH]; intros fuel r H Hf Hr.
  - cbn [map concat app]. destruct fuel; [reflexivity|]. cbn [ll_float_loop]. rewrite Hr. reflexivity.
  - inversion H as [|? ? [Hb Hn] Hl]; subst.
    destruct fuel as [|fuel]; [cbn in Hf; lia|].
    cbn [map concat ll_float_loop]. rewrite (f32_trip_not_nan b Hn). rewrite <- app_assoc.
    rewrite take_be4_be4 by exact Hb. rewrite (f32_trip_not_nan b Hn).
    f_equal. apply IH; [exact Hl | cbn in Hf; lia | exact Hr].
Qed.

Lemma hll_float fx l t0 : l <> [] -> handle_leaf_list fx (map GFloat l) t0 = Ok (new_ll_float l).
Proof.
  intros Hne. unfold handle_leaf_list.
  rewrite (collect_supported GFloat) by reflexivity.
  rewrite (prec_ok_nondecimal fx GFloat) by (intros; exact I).
  rewrite strings_of_floats, ints_of_floats, uints_of_floats, bools_of_floats, bytess_of_floats, digits_of_floats, floats_of_floats.
  cbn [negb isnil]. rewrite (isnil_false l Hne). reflexivity.
Qed.

Lemma concat_be4_length l : length (concat (map (fun b => be4 (f32_trip b)) l)) = (4 * length l)%nat.
Proof. induction l as [|b l IH]; [reflexivity|]. cbn [map concat]. rewrite app_length, IH. cbn. lia. Qed.

Lemma rt_ll_float fx l o :
  l <> [] -> Forall (fun b => f32_range b /\ f32_is_nan b = false) l ->
  journey fx (GLeafList (map GFloat l)) o = Ok (GLeafList (map GFloat l)).
Proof.
  intros Hne H. unfold journey, to_native. rewrite hll_float by exact Hne. cbn [bind].
  unfold to_gnmi, ll_float_list, new_ll_float. cbn [tv_type tv_bytes].
  rewrite <- (app_nil_r (concat _)) at 2.
  rewrite float_loop_rt; [reflexivity | exact H | rewrite concat_be4_length; lia | reflexivity].
Qed.

(* ------------------------------------------------------------ string leaf-lists *)
Lemma split_on_app_nosep sep w s : ~ In sep w ->
  split_on sep (w ++ sep :: s) = w :: split_on sep s.
Proof.
  induction w as [|c w IH]; intros Hn.
  - cbn. rewrite N.eqb_refl. reflexivity.
  - cbn [app split_on]. destruct (c =? sep)%N eqn:E.
    + apply N.eqb_eq in E. exfalso. apply Hn. left. exact E.
    + rewrite IH by (intros Hin; apply Hn; right; exact Hin). reflexivity.
Qed.

Lemma split_on_nosep sep w : ~ In sep w -> split_on sep w = [w].
Proof.
  induction w as [|c w IH]; intros Hn; [reflexivity|].
  cbn [split_on]. destruct (c =? sep)%N eqn:E.
  - apply N.eqb_eq in E. exfalso. apply Hn. left. exact E.
  - rewrite IH by (intros Hin; apply Hn; right; exact Hin). reflexivity.
Qed.

Lemma split_join sep l : l <> [] -> Forall (fun w => ~ In sep w) l -> split_on sep (join [sep] l) = l.
Proof.
  induction l as [|w l IH]; intros Hne H; [contradiction|].
  inversion H as [|? ? Hw Hl]; subst.
  destruct l as [|w2 l].
  - cbn [join]. apply split_on_nosep. exact Hw.
  - change (join [sep] (w :: w2 :: l)) with (w ++ [sep] ++ join [sep] (w2 :: l)).
    cbn [app]. rewrite split_on_app_nosep by exact Hw. f_equal. apply IH; [discriminate | exact Hl].
Qed.

Lemma hll_string fx l t0 : l <> [] -> handle_leaf_list fx (map GString l) t0 = Ok (new_ll_string l).
Proof.
  intros Hne. unfold handle_leaf_list.
  rewrite (collect_supported GString) by reflexivity.
  rewrite (prec_ok_nondecimal fx GString) by (intros; exact I).
  rewrite strings_of_strings. cbn [negb]. rewrite (isnil_false l Hne). reflexivity.
Qed.

Definition no_gs (s : str) : Prop := ~ In 29%N s.

Lemma rt_ll_string fx l o :
  l <> [] -> Forall no_gs l -> journey fx (GLeafList (map GString l)) o = Ok (GLeafList (map GString l)).
Proof.
  intros Hne H. unfold journey, to_native. rewrite hll_string by exact Hne. cbn [bind].
  unfold to_gnmi, ll_string_list, new_ll_string. cbn [tv_type tv_bytes].
  rewrite split_join by assumption. reflexivity.
Qed.

(* refutation: an element holding the group separator 0x1D comes back as two elements *)
Lemma ll_string_refuted : forall fx,
  exists l o, l <> [] /\ journey fx (GLeafList (map GString l)) o <> Ok (GLeafList (map GString l)).
Proof. intros fx. exists [[97; 29; 98]%N], None. split; [discriminate | destruct fx; vm_compute; discriminate]. Qed.

(* ------------------------------------------------------------ bytes leaf-lists *)
Lemma hll_bytes fx l t0 : l <> [] -> handle_leaf_list fx (map GBytes l) t0 = Ok (new_ll_bytes l).
Proof.
  intros Hne. unfold handle_leaf_list.
  rewrite (collect_supported GBytes) by reflexivity.
  rewrite (prec_ok_nondecimal fx GBytes) by (intros; exact I).
  rewrite strings_of_bytess, ints_of_bytess, uints_of_bytess, bools_of_bytess, bytess_of_bytess.
  cbn [negb isnil]. rewrite (isnil_false l Hne). reflexivity.
Qed.

(* the running state of TypedLeafListBytes.List while it is inside element number (length acc):
   buf holds what has been read of it, rest what is still to come *)
Lemma opts_at acc (cur : list N) later :
  nth_error (map zlen (acc ++ cur :: later)) (length acc) = Some (zlen cur).
Proof.
  rewrite map_app, nth_error_app2 by (rewrite map_length; lia).
  rewrite map_length, Nat.sub_diag. reflexivity.
Qed.

Lemma zlen_snoc (buf : list N) x : zlen (buf ++ [x]) = zlen buf + 1.
Proof. unfold zlen. rewrite app_length. cbn [length]. lia. Qed.

Lemma zlen_mid (buf : list N) x rest : zlen (buf ++ x :: rest) <> zlen buf.
Proof. unfold zlen. rewrite app_length. cbn [length]. lia. Qed.

Lemma snoc_assoc (buf : list N) x rest : buf ++ x :: rest = (buf ++ [x]) ++ rest.
Proof. rewrite <- app_assoc. reflexivity. Qed.

Lemma bytes_loop_inv : forall later,
  Forall (fun e : list N => e <> []) later ->
  forall rest acc buf i startAt,
  i - startAt = zlen buf ->
  ll_bytes_loop (rest ++ concat later) i startAt (length acc) (map zlen (acc ++ (buf ++ rest) :: later)) buf acc
  = Ok (acc ++ (buf ++ rest) :: later).
Proof.
  induction later as [|e later IHl]; intros Hl.
  - induction rest as [|x rest IH]; intros acc buf i startAt Hi.
    + cbn [concat app ll_bytes_loop]. rewrite app_nil_r. reflexivity.
    + cbn [app ll_bytes_loop]. rewrite opts_at.
      assert (Hneq : (i - startAt =? zlen (buf ++ x :: rest)) = false)
        by (apply Z.eqb_neq; rewrite Hi; intros E; symmetry in E; revert E; apply zlen_mid).
      rewrite Hneq. rewrite (snoc_assoc buf x rest).
      apply IH. rewrite zlen_snoc. lia.
  - inversion Hl as [|? ? He Hl']; subst. specialize (IHl Hl').
    induction rest as [|x rest IH]; intros acc buf i startAt Hi.
    + destruct e as [|y e]; [contradiction|].
      rewrite app_nil_r. cbn [concat app ll_bytes_loop].
      rewrite opts_at. rewrite Hi, Z.eqb_refl.
      replace (acc ++ buf :: (y :: e) :: later) with ((acc ++ [buf]) ++ ([y] ++ e) :: later)
        by (rewrite <- app_assoc; reflexivity).
      replace (S (length acc)) with (length (acc ++ [buf])) by (rewrite app_length; cbn [length]; lia).
      apply IHl. unfold zlen in *. cbn [length]. lia.
    + cbn [app ll_bytes_loop]. rewrite opts_at.
      assert (Hneq : (i - startAt =? zlen (buf ++ x :: rest)) = false)
        by (apply Z.eqb_neq; rewrite Hi; intros E; symmetry in E; revert E; apply zlen_mid).
      rewrite Hneq. rewrite (snoc_assoc buf x rest).
      apply IH. rewrite zlen_snoc. lia.
Qed.

(* every element after the first is non-empty (an empty first element is kept) *)
Definition tail_nonempty (l : list (list N)) : Prop :=
  match l with [] => True | _ :: tl => Forall (fun e => e <> []) tl end.

Lemma bytes_list_rt l : l <> [] -> tail_nonempty l -> ll_bytes_list (new_ll_bytes l) = Ok l.
Proof.
  intros Hne Ht. destruct l as [|e0 later]; [contradiction|]. cbn [tail_nonempty] in Ht.
  unfold ll_bytes_list, new_ll_bytes. cbn [tv_bytes tv_opts concat].
  exact (bytes_loop_inv later Ht e0 [] [] 0 0 eq_refl).
Qed.

Lemma rt_ll_bytes fx l o :
  l <> [] -> tail_nonempty l -> journey fx (GLeafList (map GBytes l)) o = Ok (GLeafList (map GBytes l)).
Proof.
  intros Hne Ht. unfold journey, to_native. rewrite hll_bytes by exact Hne. cbn [bind].
  unfold to_gnmi. cbn [tv_type new_ll_bytes].
  change {| tv_bytes := concat l; tv_type := VLLBytes; tv_opts := map zlen l |} with (new_ll_bytes l).
  rewrite bytes_list_rt by assumption. reflexivity.
Qed.

(* refutation: an empty element after the first one is lost (and the elements after it are merged) *)
Lemma ll_bytes_refuted : forall fx,
  exists l o, l <> [] /\ journey fx (GLeafList (map GBytes l)) o <> Ok (GLeafList (map GBytes l)).
Proof. intros fx. exists [[1]; []; [2]; [3]]%N, None. split; [discriminate | destruct fx; vm_compute; discriminate]. Qed.

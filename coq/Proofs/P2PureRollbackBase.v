(* C06, value level, concrete pure layer (Model/P2Pure.v): association-list maps by lookup, paths, folds, permute.
   Stdlib only. *)
From Coq Require Import List Arith NArith Bool Lia Permutation.
From OC Require Import Base.Bytes Model.P2Pure.
Import ListNotations.
Open Scope N_scope.

Ltac case_eqb a b :=
  let E := fresh "E" in
  destruct (eqb_str a b) eqn:E; [apply eqb_str_eq in E | apply eqb_str_neq in E].

(** * Well-formedness (Prop level) *)
Definition nd (m : cmap) : Prop := NoDup (map fst m).
Definition kp (m : cmap) : Prop := forall k v, In (k, v) m -> pv_path v = k.
Definition proper (k : str) : Prop := k <> [] /\ k <> [c_slash].
Definition pk (m : cmap) : Prop := forall k v, In (k, v) m -> proper k.
Definition wf (m : cmap) : Prop := nd m /\ kp m /\ pk m.
(* same Go map, possibly another iteration order *)
Definition same (a b : cmap) : Prop := forall k, lookup k a = lookup k b.

(** * lookup *)
Lemma lookup_in k m v : lookup k m = Some v -> In (k, v) m.
Proof.
  induction m as [|[k' v'] m IH]; cbn; [discriminate|].
  case_eqb k k'; [intros [= ->]; subst; left; reflexivity | intros H; right; auto].
Qed.

Lemma lookup_none k m : lookup k m = None <-> ~ In k (map fst m).
Proof.
  induction m as [|[k' v'] m IH]; cbn; [tauto|].
  case_eqb k k'; [subst; split; [discriminate | intros H; exfalso; apply H; left; reflexivity]|].
  rewrite IH. split; [intros H [H1|H1]; [congruence | auto] | intros H H1; apply H; right; exact H1].
Qed.

Lemma in_lookup k m v : nd m -> In (k, v) m -> lookup k m = Some v.
Proof.
  unfold nd. induction m as [|[k' v'] m IH]; cbn; [intros _ []|].
  intros N [[= -> ->]|H]; [rewrite eqb_str_refl; reflexivity|].
  inversion N as [|? ? N1 N2]; subst. case_eqb k k'; [|auto].
  subst. exfalso. apply N1. change k' with (fst (k', v)). apply in_map. exact H.
Qed.

Lemma lookup_some_key k m v : lookup k m = Some v -> In k (map fst m).
Proof. intros H. change k with (fst (k, v)). apply in_map. apply lookup_in. exact H. Qed.

Lemma in_key_lookup k m : In k (map fst m) -> exists v, lookup k m = Some v.
Proof.
  intros H. destruct (lookup k m) eqn:E; [eauto|]. apply lookup_none in E. contradiction.
Qed.

Lemma lookup_app k a b : lookup k (a ++ b) = match lookup k a with Some v => Some v | None => lookup k b end.
Proof. induction a as [|[k' v'] a IH]; cbn; [reflexivity|]. destruct (eqb_str k k'); auto. Qed.

Lemma kp_lookup m k v : kp m -> lookup k m = Some v -> pv_path v = k.
Proof. intros K H. apply K. apply lookup_in. exact H. Qed.

Lemma pk_lookup m k v : pk m -> lookup k m = Some v -> proper k.
Proof. intros K H. eapply K. apply lookup_in. exact H. Qed.

(** * insert *)
Lemma lookup_map_replace k v k' m :
  lookup k' (map (fun kv : str * pv => if eqb_str k (fst kv) then (k, v) else kv) m) =
  if eqb_str k' k then match lookup k m with Some _ => Some v | None => None end else lookup k' m.
Proof.
  induction m as [|[k0 v0] m IH]; cbn [map lookup fst]; [destruct (eqb_str k' k); reflexivity|].
  destruct (eqb_str k k0) eqn:E1; cbn [lookup]; destruct (eqb_str k' k) eqn:E3.
  - reflexivity.
  - apply eqb_str_eq in E1. subst k0. rewrite E3. exact IH.
  - apply eqb_str_eq in E3. subst k'. rewrite E1. exact IH.
  - rewrite IH. reflexivity.
Qed.

Lemma lookup_insert k' k v m : lookup k' (insert k v m) = if eqb_str k' k then Some v else lookup k' m.
Proof.
  unfold insert. destruct (lookup k m) eqn:E.
  - rewrite lookup_map_replace, E. reflexivity.
  - rewrite lookup_app. cbn. case_eqb k' k; [subst; rewrite E; reflexivity | destruct (lookup k' m); reflexivity].
Qed.

Lemma insert_fst k v m :
  map fst (insert k v m) = match lookup k m with Some _ => map fst m | None => map fst m ++ [k] end.
Proof.
  unfold insert. destruct (lookup k m) eqn:E.
  - clear E. induction m as [|[k0 v0] m IH]; cbn; [reflexivity|].
    case_eqb k k0; cbn; rewrite IH; congruence.
  - rewrite map_app. reflexivity.
Qed.

Lemma nd_insert k v m : nd m -> nd (insert k v m).
Proof.
  unfold nd. intros N. rewrite insert_fst. destruct (lookup k m) eqn:E; [exact N|].
  apply lookup_none in E. eapply Permutation_NoDup; [apply Permutation_app_comm|]. cbn. constructor; assumption.
Qed.

Lemma in_insert k v m k' v' : In (k', v') (insert k v m) -> (k' = k /\ v' = v) \/ In (k', v') m.
Proof.
  unfold insert. destruct (lookup k m).
  - intros H. apply in_map_iff in H. destruct H as [[k0 v0] [H1 H2]]. cbn in H1.
    destruct (eqb_str k k0); inversion H1; subst; auto.
  - intros H. apply in_app_or in H. destruct H as [H|[[= <- <-]|[]]]; auto.
Qed.

Lemma kp_insert k v m : kp m -> pv_path v = k -> kp (insert k v m).
Proof. intros K P k' v' H. apply in_insert in H. destruct H as [[-> ->]|H]; auto. Qed.

Lemma pk_insert k v m : pk m -> proper k -> pk (insert k v m).
Proof. intros K P k' v' H. apply in_insert in H. destruct H as [[-> ->]|H]; eauto. Qed.

Lemma wf_insert k v m : wf m -> pv_path v = k -> proper k -> wf (insert k v m).
Proof. intros (A & B & C) P Q. split; [|split]; [apply nd_insert | apply kp_insert | apply pk_insert]; assumption. Qed.

Lemma insert_key_in k v m x : In x (map fst (insert k v m)) <-> x = k \/ In x (map fst m).
Proof.
  split.
  - intros H. apply in_key_lookup in H. destruct H as [e H]. rewrite lookup_insert in H.
    case_eqb x k; [auto | right; eapply lookup_some_key; eauto].
  - intros H. destruct (lookup x (insert k v m)) eqn:E; [eapply lookup_some_key; eauto|].
    rewrite lookup_insert in E. case_eqb x k; [discriminate|]. destruct H as [H|H]; [congruence|].
    apply lookup_none in E. contradiction.
Qed.

(** * remove *)
Lemma in_remove k m x : In x (remove k m) -> In x m.
Proof.
  induction m as [|[k' v'] m IH]; cbn; [tauto|]. destruct (eqb_str k k'); [auto|].
  intros [H|H]; auto.
Qed.

Lemma remove_fst_in k m x : In x (map fst (remove k m)) -> In x (map fst m).
Proof.
  induction m as [|[k' v'] m IH]; cbn; [tauto|]. destruct (eqb_str k k'); cbn; [auto|].
  intros [H|H]; auto.
Qed.

Lemma nd_remove k m : nd m -> nd (remove k m).
Proof.
  unfold nd. induction m as [|[k' v'] m IH]; cbn; [auto|]. intros N. inversion N as [|? ? N1 N2]; subst.
  destruct (eqb_str k k'); [exact N2|]. cbn. constructor; [|auto].
  intros H. apply N1. eapply remove_fst_in; eauto.
Qed.

Lemma lookup_remove k' k m : nd m -> lookup k' (remove k m) = if eqb_str k' k then None else lookup k' m.
Proof.
  unfold nd. induction m as [|[k0 v0] m IH]; cbn; [destruct (eqb_str k' k); reflexivity|].
  intros N. inversion N as [|? ? N1 N2]; subst. case_eqb k k0.
  - subst k0. case_eqb k' k; [subst; apply lookup_none; exact N1 | reflexivity].
  - cbn. case_eqb k' k0; [subst k0; case_eqb k' k; [congruence | reflexivity] | auto].
Qed.

Lemma kp_remove k m : kp m -> kp (remove k m).
Proof. intros K k' v' H. apply K. eapply in_remove; eauto. Qed.
Lemma pk_remove k m : pk m -> pk (remove k m).
Proof. intros K k' v' H. eapply K. eapply in_remove; eauto. Qed.
Lemma wf_remove k m : wf m -> wf (remove k m).
Proof. intros (A & B & C). split; [|split]; [apply nd_remove | apply kp_remove | apply pk_remove]; assumption. Qed.

(** * same *)
Lemma same_refl a : same a a. Proof. intros k; reflexivity. Qed.
Lemma same_sym a b : same a b -> same b a. Proof. intros H k; symmetry; apply H. Qed.
Lemma same_trans a b c : same a b -> same b c -> same a c. Proof. intros H1 H2 k; rewrite H1; apply H2. Qed.

Lemma same_kp a b : same a b -> nd b -> kp a -> kp b.
Proof. intros S N K k v H. apply (kp_lookup a); [exact K|]. rewrite S. apply in_lookup; assumption. Qed.
Lemma same_pk a b : same a b -> nd b -> pk a -> pk b.
Proof. intros S N K k v H. apply (pk_lookup a k v); [exact K|]. rewrite S. apply in_lookup; assumption. Qed.

(** * paths *)
Definition below (k a : str) : Prop := is_path_below k a = true.
Definition boundary (c : N) : bool := (c =? c_slash) || (c =? c_lbr).

Lemma proper_b a : proper a -> eqb_str a [] || eqb_str a [c_slash] = false.
Proof.
  intros [H1 H2]. apply orb_false_iff. split; apply eqb_str_neq; assumption.
Qed.

Lemma nth_error_app_len {A} (a : list A) c r : nth_error (a ++ c :: r) (length a) = Some c.
Proof. induction a; cbn; auto. Qed.

Lemma below_split k a : proper a -> (below k a <-> exists c r, k = a ++ c :: r /\ boundary c = true).
Proof.
  intros P. unfold below, is_path_below. rewrite (proper_b a P). split.
  - intros H. apply andb_true_iff in H. destruct H as [H H3]. apply andb_true_iff in H. destruct H as [H1 H2].
    apply prefixb_spec in H2. destruct H2 as [r ->]. destruct r as [|c r].
    + rewrite app_nil_r in H1. apply N.ltb_lt in H1. lia.
    + rewrite nth_error_app_len in H3. exists c, r. split; [reflexivity | exact H3].
  - intros (c & r & -> & Hb). rewrite nth_error_app_len, prefixb_app, app_length. cbn [length].
    replace (N.of_nat (length a) <? N.of_nat (length a + S (length r))) with true by (symmetry; apply N.ltb_lt; lia).
    exact Hb.
Qed.

Lemma below_proper k a : proper a -> below k a -> proper k.
Proof.
  intros P H. apply below_split in H; [|exact P]. destruct H as (c & r & -> & _). destruct P as [P1 P2].
  destruct a as [|x a]; [congruence|]. split; [discriminate|]. destruct a; cbn; discriminate.
Qed.

Lemma below_trans a b c : proper c -> below a b -> below b c -> below a c.
Proof.
  intros P H1 H2. pose proof (below_proper _ _ P H2) as Pb.
  apply below_split in H1; [|exact Pb]. apply below_split in H2; [|exact P]. apply below_split; [exact P|].
  destruct H1 as (c1 & r1 & -> & B1). destruct H2 as (c2 & r2 & -> & B2).
  exists c2, (r2 ++ c1 :: r1). split; [rewrite <- app_assoc; reflexivity | exact B2].
Qed.

Lemma below_irrefl a : proper a -> ~ below a a.
Proof.
  intros P H. apply below_split in H; [|exact P]. destruct H as (c & r & E & _).
  apply (f_equal (@length N)) in E. rewrite app_length in E. cbn in E. lia.
Qed.

Lemma below_asym a b : proper a -> proper b -> below a b -> ~ below b a.
Proof. intros Pa Pb H1 H2. apply (below_irrefl a Pa). eapply below_trans; eauto. Qed.

(* the ancestors the Go loops visit are exactly the proper paths the path lies beneath *)
Lemma boundary_prefixes_in a p : forall n,
  In a (boundary_prefixes n p) <->
  exists i c, (1 <= i < n)%nat /\ a = firstn i p /\ nth_error p i = Some c /\ boundary c = true.
Proof.
  induction n as [|n IH]; cbn [boundary_prefixes].
  - split; [intros [] | intros (i & c & H & _); lia].
  - destruct n as [|n'].
    + split; [intros [] | intros (i & c & H & _); lia].
    + remember (S n') as n. split.
      * intros H. assert (In a (boundary_prefixes n p) \/
                          exists c, a = firstn n p /\ nth_error p n = Some c /\ boundary c = true) as [H1|H1].
        { destruct (nth_error p n) as [c|] eqn:E; [|left; exact H].
          fold (boundary c) in H. destruct (boundary c) eqn:B; [|left; exact H].
          destruct H as [H|H]; [right; exists c; auto | left; exact H]. }
        -- apply IH in H1. destruct H1 as (i & c & Hi & R). exists i, c. split; [lia | exact R].
        -- destruct H1 as (c & R). exists n, c. split; [lia | exact R].
      * intros (i & c & Hi & Ha & Hn & Hb).
        destruct (Nat.eq_dec i n) as [->|Hne].
        -- rewrite Hn. fold (boundary c). rewrite Hb. left. symmetry. exact Ha.
        -- assert (In a (boundary_prefixes n p)) as H1.
           { apply IH. exists i, c. split; [lia | auto]. }
           destruct (nth_error p n) as [c'|]; [|exact H1]. fold (boundary c'). destruct (boundary c'); [right|]; exact H1.
Qed.

Lemma ancestors_below a p : proper a -> (In a (ancestors p) <-> below p a).
Proof.
  intros P. unfold ancestors. rewrite boundary_prefixes_in, (below_split p a P). split.
  - intros (i & c & Hi & -> & Hn & Hb). exists c, (skipn (S i) p). split; [|exact Hb].
    rewrite <- (firstn_skipn i p) at 1. f_equal.
    clear - Hn. revert p Hn. induction i as [|i IH]; intros [|x p]; cbn; try discriminate.
    + intros [= ->]. reflexivity.
    + intros H. apply IH. exact H.
  - intros (c & r & -> & Hb). exists (length a), c. rewrite app_length. cbn [length].
    destruct P as [P1 _]. destruct a as [|x a]; [congruence|]. cbn [length]. split; [lia|].
    split; [|split; [|exact Hb]].
    + change (S (length a)) with (length (x :: a)). rewrite firstn_app, firstn_all, Nat.sub_diag. cbn. rewrite app_nil_r. reflexivity.
    + change (S (length a)) with (length (x :: a)). apply nth_error_app_len.
Qed.

(** * folds *)
Lemma fold_left_snoc {A B} (f : A -> B -> A) l x a : fold_left f (l ++ [x]) a = f (fold_left f l a) x.
Proof. rewrite fold_left_app. reflexivity. Qed.

Lemma fold_left_inv {A B} (P : A -> Prop) (f : A -> B -> A) l : forall a,
  P a -> (forall a x, In x l -> P a -> P (f a x)) -> P (fold_left f l a).
Proof.
  induction l as [|x l IH]; cbn; intros a Ha Hs; [exact Ha|].
  apply IH; [apply Hs; [left; reflexivity | exact Ha] | intros a' x' Hx; apply Hs; right; exact Hx].
Qed.

(** * permute *)
Lemma take_nth_perm {A} n : forall (l : list A) x r, take_nth n l = Some (x, r) -> Permutation l (x :: r).
Proof.
  induction n as [|n IH]; intros [|y l] x r; cbn; try discriminate.
  - intros [= -> ->]. reflexivity.
  - destruct (take_nth n l) as [[z r']|] eqn:E; [|discriminate]. intros [= -> <-].
    eapply perm_trans; [apply perm_skip; apply (IH _ _ _ E) | apply perm_swap].
Qed.

Lemma permute_fuel_perm {A} fuel : forall n (l : list A), Permutation (permute_fuel fuel n l) l.
Proof.
  induction fuel as [|f IH]; intros n l; cbn [permute_fuel]; [reflexivity|].
  destruct l as [|y l]; [reflexivity|].
  destruct (take_nth _ (y :: l)) as [[x r]|] eqn:E; [|reflexivity].
  apply take_nth_perm in E. eapply perm_trans; [|symmetry; exact E]. constructor. apply IH.
Qed.

Lemma permute_perm {A} n (l : list A) : Permutation (permute n l) l.
Proof. apply permute_fuel_perm. Qed.

Lemma perm_nd a b : Permutation a b -> nd a -> nd b.
Proof. unfold nd. intros H N. eapply Permutation_NoDup; [apply Permutation_map; exact H | exact N]. Qed.

Lemma perm_same a b : Permutation a b -> nd a -> same a b.
Proof.
  intros H N k. destruct (lookup k a) eqn:E.
  - symmetry. apply in_lookup; [eapply perm_nd; eauto|]. eapply Permutation_in; [exact H|]. apply lookup_in. exact E.
  - symmetry. apply lookup_none. apply lookup_none in E. intros H1. apply E.
    eapply Permutation_in; [apply Permutation_map; symmetry; exact H | exact H1].
Qed.

Lemma perm_kp a b : Permutation a b -> kp a -> kp b.
Proof. intros H K k v Hi. apply K. eapply Permutation_in; [symmetry; exact H | exact Hi]. Qed.
Lemma perm_pk a b : Permutation a b -> pk a -> pk b.
Proof. intros H K k v Hi. eapply K. eapply Permutation_in; [symmetry; exact H | exact Hi]. Qed.
Lemma perm_wf a b : Permutation a b -> wf a -> wf b.
Proof. intros H (A & B & C). split; [|split]; [eapply perm_nd | eapply perm_kp | eapply perm_pk]; eauto. Qed.

Lemma permute_wf n m : wf m -> wf (permute n m).
Proof. apply perm_wf. symmetry. apply permute_perm. Qed.
Lemma permute_same n m : nd m -> same (permute n m) m.
Proof. intros N. apply same_sym. apply perm_same; [symmetry; apply permute_perm | exact N]. Qed.

(** * overlay *)
Lemma lookup_overlay k inl m : nd m ->
  lookup k (overlay inl m) = match lookup k m with Some v => Some v | None => lookup k inl end.
Proof.
  unfold overlay, nd. revert inl. induction m as [|[k0 v0] m IH]; intros inl N; cbn; [reflexivity|].
  inversion N as [|? ? N1 N2]; subst. rewrite IH by exact N2. case_eqb k k0.
  - subst k0. apply lookup_none in N1. rewrite N1, lookup_insert, eqb_str_refl. reflexivity.
  - destruct (lookup k m); [reflexivity|]. rewrite lookup_insert. case_eqb k k0; [congruence | reflexivity].
Qed.

Lemma overlay_keys inl m x : In x (map fst (overlay inl m)) -> In x (map fst inl) \/ In x (map fst m).
Proof.
  unfold overlay. revert inl. induction m as [|[k0 v0] m IH]; intros inl; cbn; [auto|].
  intros H. apply IH in H. destruct H as [H|H]; [|auto]. apply insert_key_in in H. destruct H as [->|H]; auto.
Qed.

Lemma nd_overlay inl m : nd inl -> nd (overlay inl m).
Proof.
  unfold overlay. revert inl. induction m as [|[k0 v0] m IH]; intros inl N; cbn; [exact N|].
  apply IH. apply nd_insert. exact N.
Qed.

Lemma overlay_nil_same m : nd m -> same (overlay [] m) m.
Proof. intros N k. rewrite lookup_overlay by exact N. destruct (lookup k m); reflexivity. Qed.

(* C09 - proofs over the queued protocol model Model/Proto2Queue.v (all pure layers):
     - every queued run is a run of the protocol model: the invariants of Proofs/P2Phases.v hold in every queued world,
     - only controller ids that name a stored record can be enabled,
     - wake-up tokens: a pending id from which an id is reached through re-queue results; the fixed-point theorem
       under the token invariant,
     - the records of transactions and proposals only move forward: every write of the transaction and the proposal
       controller strictly lowers the phase rank of the record it writes. *)
From stdpp Require Import gmap.
From RecordUpdate Require Import RecordUpdate.
From Coq Require Import NArith Lia.
From OC Require Import Model.Proto2 Model.Proto2Queue Proofs.P2Base Proofs.P2Phases.
Open Scope N_scope.

Section Queue.
  Context {V Ch Req D : Type}.
  Context (candidate : V -> Ch -> V) (candidate_rb : V -> Ch -> V) (rollback_of : V -> Ch -> Ch)
          (overlay : V -> V -> V) (commit_merge : N -> N -> V -> V -> Ch -> V)
          (payload : N -> V -> Ch -> option Req) (record_applied : N -> N -> V -> V -> V -> Ch -> V)
          (touched : N -> V -> Ch -> V) (restore : V -> V -> V)
          (resync_payload : V -> list (option Req)) (doc_ok : V -> bool)
          (dev_apply : D -> Req -> D) (stamp : N -> Ch -> Ch) (v_empty : V) (d_empty : D) (ch_empty : Ch).

  Notation world := (@world V Ch Req D).
  Notation eff := (@eff V Ch Req).
  Notation txn := (@txn Ch).
  Notation prop := (@prop Ch).
  Notation qworld := (@qworld V Ch Req D).
  Notation apply_eff := (@apply_eff V Ch Req D dev_apply d_empty).
  Notation rec_tx := (@rec_tx V Ch Req D stamp).
  Notation rec_prop := (@rec_prop V Ch Req D candidate candidate_rb rollback_of overlay commit_merge payload record_applied
                                  touched restore doc_ok v_empty d_empty ch_empty).
  Notation reconcile := (@reconcile V Ch Req D candidate candidate_rb rollback_of overlay commit_merge payload record_applied
                                    touched restore resync_payload doc_ok stamp v_empty d_empty ch_empty).
  Notation step := (@step V Ch Req D candidate candidate_rb rollback_of overlay commit_merge payload record_applied
                          touched restore resync_payload doc_ok dev_apply stamp v_empty d_empty ch_empty).
  Notation reach := (@reach V Ch Req D candidate candidate_rb rollback_of overlay commit_merge payload record_applied
                            touched restore resync_payload doc_ok dev_apply stamp v_empty d_empty ch_empty).
  Notation qstep := (@qstep V Ch Req D candidate candidate_rb rollback_of overlay commit_merge payload record_applied
                            touched restore resync_payload doc_ok dev_apply stamp v_empty d_empty ch_empty).
  Notation qreach := (@qreach V Ch Req D candidate candidate_rb rollback_of overlay commit_merge payload record_applied
                              touched restore resync_payload doc_ok dev_apply stamp v_empty d_empty ch_empty).
  Notation apply_effs := (@apply_effs V Ch Req D dev_apply d_empty).
  Notation wakes := (@wakes V Ch Req D).
  Notation J := (@J V Ch Req D).

  (** * Queued runs are runs of the protocol model *)
  Lemma apply_effs_world (es : list eff) : forall w : world, fst (apply_effs w es) = fold_left apply_eff es w.
  Proof.
    induction es as [|e r IH]; intros w; cbn; [reflexivity|].
    specialize (IH (apply_eff w e)). destruct (apply_effs (apply_eff w e) r) as [w' q]. cbn in *. exact IH.
  Qed.

  Lemma qstep_world (s : qworld) l : exists ls, qw (qstep s l) = fold_left step ls (qw s).
  Proof.
    destruct l as [n o|l]; cbn [Proto2Queue.qstep].
    - destruct (nth_error (queue s) n) as [c|]; [|exists []; reflexivity].
      destruct (reconcile o (qw s) c) as [es r] eqn:Er.
      pose proof (apply_effs_world es (qw s)) as Hw. destruct (apply_effs (qw s) es) as [w' q]. cbn in *.
      exists [LRec c (length es) o]. cbn. rewrite Er. cbn. rewrite firstn_all. exact Hw.
    - destruct l as [chs sy se|ri|c k o|c t|c|c t|t p|t|t].
      + exists [LChange chs sy se]. reflexivity.
      + exists [LRollback ri]. reflexivity.
      + exists []. reflexivity.
      + exists [LConnUp c t]. reflexivity.
      + exists [LConnDown c]. reflexivity.
      + exists [LForeignRel c t]. reflexivity.
      + exists [LTarget t p]. reflexivity.
      + exists [LTargetGone t]. reflexivity.
      + exists [LDevRestart t]. reflexivity.
  Qed.

  Lemma qreach_reach (s : qworld) : qreach s -> reach (qw s).
  Proof.
    intros [ls ->]. induction ls as [|l ls IH] using rev_ind.
    - exists []. reflexivity.
    - unfold Proto2Queue.qrun in *. rewrite fold_left_app. cbn [fold_left].
      destruct IH as [ls0 E]. destruct (qstep_world (fold_left qstep ls qinit) l) as [ls1 E1].
      exists (ls0 ++ ls1). rewrite E1, E. unfold Proto2.run. rewrite fold_left_app. reflexivity.
  Qed.

  (* the phase invariants of Proofs/P2Phases.v hold in every queued world *)
  Lemma qreach_J (s : qworld) : qreach s -> J (qw s).
  Proof.
    intros H. apply (J_reach candidate candidate_rb rollback_of overlay commit_merge payload record_applied touched restore
                             resync_payload doc_ok dev_apply stamp v_empty d_empty ch_empty). apply qreach_reach. exact H.
  Qed.

  (** * Only ids of stored records can be enabled *)
  Lemma in_keys {K A} `{Countable K} (m : gmap K A) (f : K -> ctrl) k a :
    m !! k = Some a -> In (f k) (map (fun kv => f (fst kv)) (map_to_list m)).
  Proof.
    intros Hk. apply in_map_iff. exists (k, a). split; [reflexivity|].
    apply elem_of_list_In. apply elem_of_map_to_list. exact Hk.
  Qed.

  Lemma enabled_stored (o : oracle) (w : world) (c : ctrl) :
    fst (reconcile o w c) <> [] -> In c (all_ctrls w).
  Proof.
    unfold all_ctrls. intros He. destruct c as [i|k|t|t|c]; cbn [Proto2.reconcile] in He.
    - unfold Proto2.rec_tx in He. destruct (txs w !! i) as [T|] eqn:E; [|contradiction].
      apply in_or_app. left. eapply (in_keys (txs w) CtlTx); eassumption.
    - unfold Proto2.rec_prop in He. destruct k as [t i]. destruct (props w !! (t, i)) as [P|] eqn:E; [|contradiction].
      apply in_or_app. right. apply in_or_app. left. eapply (in_keys (props w) CtlProp); eassumption.
    - unfold Proto2.rec_cfg in He. destruct (cfgs w !! t) as [C|] eqn:E; [|contradiction].
      apply in_or_app. right. apply in_or_app. right. apply in_or_app. left. eapply (in_keys (cfgs w) CtlCfg); eassumption.
    - unfold Proto2.rec_master in He. destruct (cfgs w !! t) as [C|] eqn:E; [|contradiction].
      do 3 (apply in_or_app; right). apply in_or_app. left. eapply (in_keys (cfgs w) CtlMaster); eassumption.
    - unfold Proto2.rec_conn in He. destruct (conns w !! c) as [t|] eqn:E.
      + do 4 (apply in_or_app; right). apply in_or_app. left. eapply (in_keys (conns w) CtlConn); eassumption.
      + destruct (rels w !! c) as [r|] eqn:E2; [|contradiction].
        do 5 (apply in_or_app; right). eapply (in_keys (rels w) CtlConn); eassumption.
  Qed.

  (** * Wake-up tokens *)
  (* [c] hands over to [c'] in [w]: its reconcile writes nothing and asks for [c'] *)
  Definition hands_over (w : world) (c c' : ctrl) : Prop :=
    exists o, fst (reconcile o w c) = [] /\
              In c' (requeue c (snd (reconcile o w c))).
  Inductive leads_to (w : world) : ctrl -> ctrl -> Prop :=
  | lt_refl c : leads_to w c c
  | lt_step c c' c'' : hands_over w c c' -> leads_to w c' c'' -> leads_to w c c''.
  (* a pending id from which [c] is reached *)
  Definition covered (s : qworld) (c : ctrl) : Prop := exists c0, In c0 (queue s) /\ leads_to (qw s) c0 c.
  (* the token invariant: every enabled controller id is covered *)
  Definition tokens (s : qworld) : Prop := forall c o, fst (reconcile o (qw s) c) <> [] -> covered s c.

  Theorem fixpoint_of_tokens (s : qworld) :
    tokens s -> idle s = true -> forall c o, fst (reconcile o (qw s) c) = [].
  Proof.
    intros Ht Hi c o. destruct (fst (reconcile o (qw s) c)) as [|e r] eqn:E; [reflexivity|exfalso].
    destruct (Ht c o) as (c0 & Hin & _); [rewrite E; discriminate|].
    unfold idle in Hi. destruct (queue s); [destruct Hin|discriminate].
  Qed.

  (** * Every write wakes the ids that own or read the written record *)
  (* the ids a write is guaranteed to put into the work set: the controller of the written record, the transaction of a
     written proposal, and for a configuration the proposal, configuration and mastership controllers *)
  Definition owners (e : eff) : list ctrl :=
    match e with
    | EPutTx i _ => [CtlTx i]
    | EPutProp k _ => [CtlTx (snd k); CtlProp k]
    | EPutCfg t c => [CtlProp (t, c_index c); CtlProp (t, c_applied c); CtlProp (t, c_proposed c); CtlCfg t; CtlMaster t]
    | _ => []
    end.
  (* the entry write of a configuration happens only when the configuration exists *)
  Definition lands (w : world) (e : eff) : Prop :=
    match e with EPutCfg t _ => is_Some (cfgs w !! t) | _ => True end.

  Lemma wakes_owners (w : world) (e : eff) c : lands w e -> In c (owners e) -> In c (wakes w e).
  Proof.
    destruct e as [i T|k P|k P|t c0|t c0|t v|t v|c0 t|c0|ev]; cbn [owners lands Proto2Queue.wakes]; intros Hl Hin;
      try (destruct Hin; fail).
    - unfold tx_wakes. destruct Hin as [<-|[]]. left. reflexivity.
    - exact Hin.
    - destruct Hl as [c1 Hc]. rewrite Hc. unfold cfg_wakes.
      destruct Hin as [<-|[<-|[<-|[<-|[<-|[]]]]]].
      + left. reflexivity.
      + right. left. reflexivity.
      + right. right. left. reflexivity.
      + apply in_or_app. right. apply in_or_app. right. left. reflexivity.
      + apply in_or_app. right. apply in_or_app. right. right. left. reflexivity.
  Qed.

  Lemma cfg_stays (w : world) (e : eff) t : is_Some (cfgs w !! t) -> is_Some (cfgs (apply_eff w e) !! t).
  Proof.
    intros Hs. rewrite cfgs_apply_eff.
    destruct e as [i T|k P|k P|t0 c0|t0 c0|t0 v|t0 v|c0 t0|c0|ev]; try exact Hs;
      destruct (cfgs w !! t0) eqn:E; try exact Hs;
      (destruct (decide (t0 = t)) as [->|Hne]; [rewrite lookup_insert; eexists; reflexivity|rewrite lookup_insert_ne by exact Hne; exact Hs]).
  Qed.

  Lemma lands_stays (w : world) (e0 e : eff) : lands w e -> lands (apply_eff w e0) e.
  Proof. destruct e; cbn [lands]; try (intros; exact I). apply cfg_stays. Qed.

  Lemma apply_effs_owners (es : list eff) : forall (w : world) e c,
    In e es -> lands w e -> In c (owners e) -> In c (snd (apply_effs w es)).
  Proof.
    induction es as [|e0 r IH]; intros w e c Hin Hl Hc; [destruct Hin|].
    cbn. destruct (apply_effs (apply_eff w e0) r) as [w' q] eqn:E. cbn.
    apply in_or_app. destruct Hin as [->|Hin].
    - left. apply wakes_owners; assumption.
    - right. specialize (IH (apply_eff w e0) e c Hin (lands_stays w e0 e Hl) Hc). rewrite E in IH. exact IH.
  Qed.

  (* after the delivery of any pending id, the owners and readers of every record it wrote are pending *)
  Theorem delivery_wakes_owners (s : qworld) n o c0 e c :
    nth_error (queue s) n = Some c0 -> In e (fst (reconcile o (qw s) c0)) -> lands (qw s) e -> In c (owners e) ->
    In c (queue (qstep s (QDeliver n o))).
  Proof.
    intros Hn Hin Hl Hc. cbn [Proto2Queue.qstep]. rewrite Hn.
    destruct (reconcile o (qw s) c0) as [es r] eqn:Er. cbn in Hin.
    pose proof (apply_effs_owners es (qw s) e c Hin Hl Hc) as H.
    destruct (apply_effs (qw s) es) as [w' q]. cbn in *.
    apply in_or_app. right. apply in_or_app. left. exact H.
  Qed.

  (** * Records only move forward *)
  Definition rk (o : option ph) : nat := match o with None => 2 | Some Doing => 1 | Some _ => 0 end%nat.
  Definition mt (T : txn) : nat :=
    (rk (t_init T) + rk (t_validate T) + rk (t_commit T) + rk (t_apply T) + rk (t_abort T) + (if is_none (t_props T) then 1 else 0))%nat.
  Definition mp (P : prop) : nat :=
    (rk (p_init P) + rk (p_validate P) + rk (p_commit P) + rk (p_apply P) + rk (p_abort P)
     + (if N.eqb (p_prev P) 0 then 1 else 0) + (if N.eqb (p_next P) 0 then 1 else 0))%nat.

  (* what a write of the transaction / proposal controller does to the record it writes *)
  Definition forward (w : world) (e : eff) : Prop :=
    match e with
    | EPutTx i T' => exists T, txs w !! i = Some T /\ (mt T' < mt T)%nat
    | EPutProp k P' => exists P, props w !! k = Some P /\ (mp P' < mp P)%nat
    | _ => True
    end.

  Ltac fw_tx T :=
    eexists; split; [eassumption|]; unfold mt;
    cbn [t_init t_validate t_commit t_apply t_abort t_props t_state t_failure t_details set];
    repeat match goal with H : _ T = _ |- _ => rewrite H end; cbn;
    repeat match goal with |- context [rk ?x] => destruct x as [[]|]; cbn end;
    repeat match goal with |- context [is_none ?x] => destruct x; cbn end; lia.

  Lemma phase_scan_forward (w : world) i (T : txn) tg get start stop on_failed on_all_done :
    txs w !! i = Some T ->
    (forall p, get p = None -> (mp (start p) < mp p)%nat) ->
    (stop = true -> forall p, (mt (on_failed p) < mt T)%nat) -> (mt on_all_done < mt T)%nat ->
    Forall (forward w) (fst (phase_scan w i T tg get start stop on_failed on_all_done)).
  Proof.
    intros HT Hs Hf Hd. unfold phase_scan.
    destruct (scan_props w i tg _) as [[u|[t p]]|] eqn:Hscan.
    - apply Forall_nil_2.
    - apply scan_props_inr in Hscan. destruct Hscan as [Hp Hfp].
      destruct (is_none (get p)) eqn:Hn.
      + apply Forall_cons_2; [|apply Forall_nil_2]. exists p. split; [exact Hp|]. apply Hs. destruct (get p); [discriminate|reflexivity].
      + apply Forall_cons_2; [|apply Forall_nil_2]. exists T. split; [exact HT|]. apply Hf.
        cbn in Hfp. destruct stop; [reflexivity|discriminate].
    - destruct (default false _); [|apply Forall_nil_2].
      apply Forall_cons_2; [|apply Forall_nil_2]. exists T. split; [exact HT|exact Hd].
  Qed.

  Lemma gate_forward (w : world) i (T : txn) tg need next r :
    txs w !! i = Some T -> (mt next < mt T)%nat -> Forall (forward w) (fst (gate w i T tg need next r)).
  Proof.
    intros HT Hm. unfold gate. destruct (all_props w i tg _); [|apply Forall_nil_2].
    destruct (blocked_by_prev w i tg need); [apply Forall_nil_2|].
    apply Forall_cons_2; [|apply Forall_nil_2]. exists T. split; [exact HT|exact Hm].
  Qed.

  Lemma create_props_forward (w w0 : world) i l : Forall (forward w) (create_props w0 i l).
  Proof.
    unfold create_props. induction l as [|tp l IH]; cbn; [apply Forall_nil_2|].
    destruct (props w0 !! (tp.1, i)); cbn; [exact IH|]. apply Forall_cons_2; [exact I|exact IH].
  Qed.

  Ltac mt_tac T :=
    unfold mt; cbn [t_init t_validate t_commit t_apply t_abort t_props t_state t_failure t_details set];
    repeat match goal with H : _ T = _ |- _ => rewrite H end; cbn;
    repeat match goal with |- context [rk ?x] => destruct x as [[]|]; cbn end;
    repeat match goal with |- context [is_none ?x] => destruct x; cbn end; lia.
  Ltac mp_start :=
    let p := fresh "p" in let Hg := fresh "Hg" in
    intros p Hg; unfold mp; cbn [p_init p_validate p_commit p_apply p_abort p_prev p_next set]; rewrite Hg; cbn; lia.
  Ltac one_tx T HT := apply Forall_cons_2; [exists T; split; [exact HT|mt_tac T]|apply Forall_nil_2].

  Lemma rec_tx_forward (w : world) i : Forall (forward w) (fst (rec_tx w i)).
  Proof.
    unfold Proto2.rec_tx. destruct (txs w !! i) as [T|] eqn:HT; [|apply Forall_nil_2].
    destruct (t_apply T) as [a|] eqn:Ea.
    { destruct a; try apply Forall_nil_2.
      destruct (scan_props w i _ (fun p => is_none (p_apply p))) as [[u|[t p]]|] eqn:Hscan.
      - apply Forall_nil_2.
      - apply scan_props_inr in Hscan. destruct Hscan as [Hp Hn]. apply Forall_cons_2; [|apply Forall_nil_2].
        exists p. split; [exact Hp|]. unfold mp. cbn [p_init p_validate p_commit p_apply p_abort p_prev p_next set].
        destruct (p_apply p); [discriminate|]. cbn. lia.
      - apply phase_scan_forward; auto; [mp_start|intros _ p; mt_tac T|mt_tac T]. }
    destruct (t_abort T) as [ab|] eqn:Eb.
    { destruct ab; try apply Forall_nil_2. apply phase_scan_forward; auto; [mp_start|discriminate|mt_tac T]. }
    destruct (t_commit T) as [c|] eqn:Ec.
    { destruct c; try apply Forall_nil_2.
      - apply phase_scan_forward; auto; [mp_start|discriminate|mt_tac T].
      - apply gate_forward; auto. mt_tac T. }
    destruct (t_validate T) as [v|] eqn:Ev.
    { destruct v; try apply Forall_nil_2.
      - apply phase_scan_forward; auto; [mp_start|intros _ p; mt_tac T|mt_tac T].
      - apply gate_forward; auto. mt_tac T. }
    destruct (t_init T) as [ini|] eqn:Ei.
    2:{ one_tx T HT. }
    destruct ini; try apply Forall_nil_2.
    - destruct (match txs w !! (i - 1) with Some P => _ | None => false end); [apply Forall_nil_2|].
      destruct (t_props T) as [tg'|] eqn:Ep.
      + destruct (all_props w i tg' _) as [[|]|]; try apply Forall_nil_2. one_tx T HT.
      + destruct (t_details T) as [chs|ri] eqn:Ed.
        * cbn [fst]. apply Forall_app_2; [apply create_props_forward|]. one_tx T HT.
        * destruct (txs w !! ri) as [R|] eqn:HR.
          -- destruct (t_details R) as [chs|rj].
             ++ cbn [fst]. apply Forall_app_2; [apply create_props_forward|]. one_tx T HT.
             ++ unfold fail_init. cbn [fst]. one_tx T HT.
          -- unfold fail_init. cbn [fst]. one_tx T HT.
    - apply gate_forward; auto. mt_tac T.
  Qed.

  Ltac fw_prop :=
    eexists; split; [eassumption|]; unfold mp;
    cbn [p_init p_validate p_commit p_apply p_abort p_prev p_next p_details p_rbindex p_rbvalues p_vfail p_afail p_term set];
    repeat match goal with H : _ = _ |- _ => rewrite H end; cbn; lia.
  Ltac fw_list :=
    repeat first [ apply Forall_nil_2
                 | apply Forall_cons_2; [ first [ exact I | fw_prop ] | ] ].

  Lemma rec_prop_forward (o : oracle) (w : world) k : Forall (forward w) (fst (rec_prop o w k)).
  Proof.
    unfold Proto2.rec_prop, Proto2.vfail, Proto2.upd_status. destruct k as [t i].
    destruct (props w !! (t, i)) as [P|] eqn:HP; [|apply Forall_nil_2].
    destruct_matches; cbn [fst app]; fw_list.
    (* the linking step *)
    destruct (0 <? c_proposed c) eqn:Hpos; [|discriminate].
    destruct (props w !! (t, c_proposed c)) as [Q|] eqn:HQ; [|discriminate].
    apply N.ltb_lt in Hpos. apply N.ltb_lt in E6.
    destruct (p_next Q =? 0) eqn:Hn.
    - injection E7 as <-. apply Forall_cons_2; [|apply Forall_nil_2]. exists Q. split; [exact HQ|].
      unfold mp. cbn [p_init p_validate p_commit p_apply p_abort p_prev p_next set].
      change (N.eqb (p_next Q) 0) with (p_next Q =? 0). rewrite Hn.
      destruct (N.eqb_spec i 0) as [->|_]; [lia|]. lia.
    - destruct (p_prev P =? 0) eqn:Hp; [|discriminate]. injection E7 as <-.
      apply Forall_cons_2; [|apply Forall_nil_2]. exists P. split; [exact HP|].
      unfold mp. cbn [p_init p_validate p_commit p_apply p_abort p_prev p_next set].
      change (N.eqb (p_prev P) 0) with (p_prev P =? 0). rewrite Hp.
      destruct (N.eqb_spec (c_proposed c) 0) as [Hz|_]; [lia|]. lia.
  Qed.

  (** * The theorem: every write of the transaction and of the proposal controller moves its record forward *)
  Theorem records_move_forward (o : oracle) (w : world) (c : ctrl) :
    (match c with CtlTx _ | CtlProp _ => True | _ => False end) ->
    Forall (forward w) (fst (reconcile o w c)).
  Proof.
    destruct c as [i|k|t|t|cc]; intros Hc; try destruct Hc; cbn [Proto2.reconcile].
    - apply rec_tx_forward.
    - apply rec_prop_forward.
  Qed.

  (* the rank of a record is bounded: a record is written at most 11 (transaction) / 12 (proposal) times by these controllers *)
  Lemma mt_bound (T : txn) : (mt T <= 11)%nat.
  Proof. unfold mt. destruct (t_init T) as [[]|], (t_validate T) as [[]|], (t_commit T) as [[]|], (t_apply T) as [[]|], (t_abort T) as [[]|], (t_props T); cbn; lia. Qed.
  Lemma mp_bound (P : prop) : (mp P <= 12)%nat.
  Proof. unfold mp. destruct (p_init P) as [[]|], (p_validate P) as [[]|], (p_commit P) as [[]|], (p_apply P) as [[]|], (p_abort P) as [[]|], (N.eqb (p_prev P) 0), (N.eqb (p_next P) 0); cbn; lia. Qed.
End Queue.

(* C04, concrete pure layer (Model/P2Pure.v): the well-formedness predicates (boolean) under which the pure-layer
   obligations of Proofs/P2_Converge.v are PROVED for all values (Proofs/P2PureApply*.v), and the abstraction.
   No proofs here beyond definitions; stdlib only. *)
From Coq Require Import List NArith Bool.
From OC Require Import Base.Bytes Model.P2Pure.
Import ListNotations.
Open Scope N_scope.

(* a path that is neither "" nor "/" (the two spellings of the root) *)
Definition proper (p : str) : bool := negb (eqb_str p []) && negb (eqb_str p [c_slash]).

(* Go map: keys unique *)
Fixpoint nodup_keys (m : cmap) : bool :=
  match m with [] => true | (k, _) :: r => negb (existsb (fun kv => eqb_str k (fst kv)) r) && nodup_keys r end.
(* key = path of the value, and the path is proper *)
Definition keys_ok (m : cmap) : bool :=
  forallb (fun kv => eqb_str (fst kv) (pv_path (snd kv)) && proper (fst kv)) m.
Definition wfk (m : cmap) : bool := nodup_keys m && keys_ok m.

(* [p] lies strictly beneath a tombstone of [m] *)
Definition covered (m : cmap) (p : str) : bool :=
  existsb (fun kd => pv_deleted (snd kd) && is_path_below p (fst kd)) m.
(* no LIVE value beneath a tombstone (tombstones beneath tombstones are what a cascading delete records) *)
Definition no_live_below (m : cmap) : bool :=
  forallb (fun kv => pv_deleted (snd kv) || negb (covered m (fst kv))) m.
(* no entry at all beneath a tombstone (what store() leaves behind: it prunes) *)
Definition no_entry_below (m : cmap) : bool :=
  forallb (fun kv => negb (covered m (fst kv))) m.

(* a change does not delete a path and UPDATE something beneath it: the excluded overlap is the open finding F-14-C03.
   (A delete beneath a delete is allowed: the rollback of a value re-created beneath a tombstone is such a change.) *)
Definition wf_change (ch : cmap) : bool := wfk ch && no_live_below ch.

(* store() skips a path whose stored value carries the same index as the value to be written: a stored value and a
   change value of the same index must say the same (deleted flag; value when live) *)
Definition same_content (e v : pv) : bool :=
  Bool.eqb (pv_deleted e) (pv_deleted v) && (pv_deleted v || eqb_str (pv_val e) (pv_val v)).
Definition idx_compat (m ch : cmap) : bool :=
  forallb (fun kv => match lookup (fst kv) ch with
                     | Some v => negb (pv_index (snd kv) =? pv_index v) || same_content (snd kv) v
                     | None => true
                     end) m.

(* the stored applied map [m], the applied values inlined in the entry [inl] *)
Definition wf_pair (inl m : cmap) : bool := wfk inl && wfk m && no_live_below (overlay inl m).
(* the inputs of one apply: + the change [ch]; nothing is asked of the loaded committed view *)
Definition wf_apply (inl m ch : cmap) : bool :=
  wf_pair inl m && wf_change ch && idx_compat m ch.

(* the abstraction: the leaves of the device sorted by path; the live leaves of an applied-values map (P2Pure.live) *)
Fixpoint ins_kv (x : str * str) (l : list (str * str)) : list (str * str) :=
  match l with [] => [x] | y :: l' => if ltb_str (fst x) (fst y) then x :: l else y :: ins_kv x l' end.
Definition abs_dev (d : dstate) : list (str * str) := fold_right ins_kv [] d.
Definition abs_app (va : cmap) : list (str * str) := live va.

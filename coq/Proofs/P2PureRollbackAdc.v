(* C06, value level: AddDeleteChildren by lookup - what it adds to the change values and how it mutates the view,
   for every iteration order of the change. *)
From Coq Require Import List Arith NArith Bool Lia Permutation.
From OC Require Import Base.Bytes Model.P2Pure Proofs.P2PureRollbackBase.
Import ListNotations.
Open Scope N_scope.

Definition mark (idx : N) (v : pv) : pv := mkPV (pv_path v) (pv_val v) true idx.
(* the path lies beneath a deleted value of the change *)
Definition cascb (c : cmap) (p : str) : bool :=
  existsb (fun '(_, cv) => pv_deleted cv && is_path_below p (pv_path cv)) c.
Definition markif (idx : N) (c : cmap) (v : pv) : pv := if cascb c (pv_path v) then mark idx v else v.

Definition adc_step (idx : N) : cmap * cmap -> str * pv -> cmap * cmap :=
  fun '(upd, st) '(_, cv) =>
    if pv_deleted cv then
      let hit (v : pv) := is_path_below (pv_path v) (pv_path cv) in
      let mark (v : pv) := mkPV (pv_path v) (pv_val v) true idx in
      let kids := filter (fun '(_, v) => hit v) st in
      let st' := map (fun '(k, v) => if hit v then (k, mark v) else (k, v)) st in
      let upd' := fold_left (fun u '(_, v) => insert (pv_path v) (mark v) u) kids upd in
      (insert (pv_path cv) cv upd', st')
    else (insert (pv_path cv) cv upd, st).

Lemma adc_unfold idx c V : add_delete_children idx c V = fold_left (adc_step idx) c ([], V).
Proof. reflexivity. Qed.

Lemma cascb_app a b p : cascb (a ++ b) p = cascb a p || cascb b p.
Proof. unfold cascb. apply existsb_app. Qed.

Lemma cascb_spec c p :
  cascb c p = true <-> exists k cv, In (k, cv) c /\ pv_deleted cv = true /\ below p (pv_path cv).
Proof.
  unfold cascb. rewrite existsb_exists. split.
  - intros ([k cv] & H1 & H2). apply andb_true_iff in H2. exists k, cv. tauto.
  - intros (k & cv & H1 & H2 & H3). exists (k, cv). split; [exact H1|]. apply andb_true_iff. auto.
Qed.

Lemma cascb_perm a b p : Permutation a b -> cascb a p = cascb b p.
Proof.
  intros H. destruct (cascb a p) eqn:E; symmetry.
  - apply cascb_spec in E. apply cascb_spec. destruct E as (k & cv & H1 & R). exists k, cv. split; [|exact R].
    eapply Permutation_in; eauto.
  - destruct (cascb b p) eqn:E'; [|reflexivity]. apply cascb_spec in E'. destruct E' as (k & cv & H1 & R).
    assert (cascb a p = true) as X; [|congruence]. apply cascb_spec. exists k, cv. split; [|exact R].
    eapply Permutation_in; [symmetry; exact H | exact H1].
Qed.

Lemma mark_path idx v : pv_path (mark idx v) = pv_path v. Proof. reflexivity. Qed.
Lemma mark_mark idx v : mark idx (mark idx v) = mark idx v. Proof. reflexivity. Qed.
Lemma markif_path idx c v : pv_path (markif idx c v) = pv_path v.
Proof. unfold markif. destruct (cascb c (pv_path v)); reflexivity. Qed.
Lemma mark_markif idx c v : mark idx (markif idx c v) = mark idx v.
Proof. unfold markif. destruct (cascb c (pv_path v)); reflexivity. Qed.

Lemma kids_fold idx (kids : cmap) : forall U, wf U -> (forall k v, In (k, v) kids -> proper (pv_path v)) ->
  let U' := fold_left (fun u '(_, v) => insert (pv_path v) (mkPV (pv_path v) (pv_val v) true idx) u) kids U in
  wf U' /\
  (forall k u, lookup k U' = Some u ->
     lookup k U = Some u \/ exists k' v, In (k', v) kids /\ pv_path v = k /\ u = mark idx v) /\
  (forall k, In k (map fst U) -> In k (map fst U')) /\
  (forall k' v, In (k', v) kids -> In (pv_path v) (map fst U')).
Proof.
  induction kids as [|[k0 v0] kids IH]; intros U W P; cbn [fold_left].
  - cbn. split; [exact W|]. split; [auto|]. split; [auto | intros k' v []].
  - fold (mark idx v0).
    assert (wf (insert (pv_path v0) (mark idx v0) U)) as W1.
    { apply wf_insert; [exact W | reflexivity | eapply P; left; reflexivity]. }
    specialize (IH _ W1 (fun k v H => P k v (or_intror H))). cbv zeta in IH.
    destruct IH as (I1 & I2 & I3 & I4). cbv zeta. split; [exact I1|]. split; [|split].
    + intros k u H. apply I2 in H. destruct H as [H|(k' & v & H1 & H2)].
      * rewrite lookup_insert in H. case_eqb k (pv_path v0); [|auto].
        inversion H; subst. right. exists k0, v0. split; [left; reflexivity | auto].
      * right. exists k', v. split; [right; exact H1 | exact H2].
    + intros k H. apply I3. apply insert_key_in. right. exact H.
    + intros k' v [[= <- <-]|H]; [|eapply I4; eauto]. apply I3. apply insert_key_in. left. reflexivity.
Qed.

Lemma map_pair_id (V : cmap) : map (fun '(k, v) => (k, v)) V = V.
Proof. induction V as [|[k v] V IH]; cbn; congruence. Qed.

(* the change values after the cascade, and the mutated view *)
Record adc_inv (idx : N) (c V U S : cmap) : Prop := {
  ai_store : S = map (fun '(k, v) => (k, markif idx c v)) V;
  ai_wf : wf U;
  ai_from : forall k u, lookup k U = Some u ->
              lookup k c = Some u \/ exists x, lookup k V = Some x /\ cascb c k = true /\ u = mark idx x;
  ai_change : forall k, In k (map fst c) -> In k (map fst U);
  ai_kids : forall k x, lookup k V = Some x -> cascb c k = true -> In k (map fst U) }.

Lemma adc_spec idx V : wf V -> forall c, wf c ->
  adc_inv idx c V (fst (add_delete_children idx c V)) (snd (add_delete_children idx c V)).
Proof.
  intros WV c. rewrite adc_unfold. induction c as [|[kx cv] l IH] using rev_ind; intros Wc.
  - cbn. constructor.
    + unfold markif. cbn. symmetry. apply map_pair_id.
    + split; [constructor|]. split; intros k v [].
    + cbn. discriminate.
    + intros k [].
    + cbn. discriminate.
  - assert (wf l) as Wl.
    { destruct Wc as (N & K & P). unfold nd in N. rewrite map_app in N. cbn in N. apply NoDup_remove_1 in N.
      rewrite app_nil_r in N. split; [exact N|]. split; intros k v H; [apply K | eapply P]; apply in_or_app; left; exact H. }
    specialize (IH Wl). rewrite fold_left_snoc. destruct (fold_left (adc_step idx) l ([], V)) as [U S].
    cbn [fst snd] in IH. destruct IH as [I1 I2 I3 I4 I5].
    destruct Wc as (Nc & Kc & Pc).
    assert (In (kx, cv) (l ++ [(kx, cv)])) as Hin by (apply in_or_app; right; left; reflexivity).
    pose proof (Kc _ _ Hin) as Hkx. pose proof (Pc _ _ Hin) as Hpx.
    assert (lookup kx l = None) as Hnl.
    { apply lookup_none. unfold nd in Nc. rewrite map_app in Nc. cbn in Nc.
      intros H. apply NoDup_remove_2 in Nc. apply Nc. rewrite app_nil_r. exact H. }
    assert (forall k u, lookup k l = Some u -> lookup k (l ++ [(kx, cv)]) = Some u) as Lapp.
    { intros k u H. rewrite lookup_app, H. reflexivity. }
    assert (forall p, cascb l p = true -> cascb (l ++ [(kx, cv)]) p = true) as Capp.
    { intros p H. rewrite cascb_app, H. reflexivity. }
    cbn [adc_step]. destruct (pv_deleted cv) eqn:D; cbn [fst snd].
    + (* a delete: cascade *)
      set (kids := filter (fun '(_, v) => is_path_below (pv_path v) (pv_path cv)) S).
      assert (forall k v, In (k, v) kids -> exists x, lookup k V = Some x /\ v = markif idx l x /\ pv_path x = k /\
                                                   below k kx) as Hkids.
      { intros k v H. apply filter_In in H. destruct H as [H1 H2]. rewrite I1 in H1. apply in_map_iff in H1.
        destruct H1 as ([k' x] & [= <- <-] & H1). exists x. destruct WV as (NV & KV & PV).
        rewrite markif_path, Hkx, (KV _ _ H1) in H2. split; [apply in_lookup; assumption|]. auto. }
      destruct (kids_fold idx kids U I2) as (J1 & J2 & J3 & J4).
      { intros k v H. destruct (Hkids k v H) as (x & H1 & -> & H3 & H4). rewrite markif_path, H3.
        eapply pk_lookup; [apply WV | exact H1]. }
      constructor.
      * rewrite I1, map_map. apply map_ext. intros [k v]. cbn beta iota. rewrite markif_path.
        destruct (is_path_below (pv_path v) (pv_path cv)) eqn:B; f_equal; unfold markif; rewrite cascb_app;
          cbn [cascb existsb]; rewrite D, B; cbn [andb orb]; rewrite ?orb_true_r, ?orb_false_r;
          destruct (cascb l (pv_path v)); reflexivity.
      * apply wf_insert; [auto | reflexivity | rewrite Hkx; exact Hpx].
      * intros k u H. rewrite lookup_insert in H. case_eqb k (pv_path cv).
        -- injection H as <-. subst k. left. rewrite Hkx, lookup_app, Hnl. cbn. rewrite eqb_str_refl. reflexivity.
        -- apply J2 in H. destruct H as [H|(k' & v & H1 & H2 & H3)].
           ++ apply I3 in H. destruct H as [H|(x & H1 & H2 & H3)]; [left; auto | right; exists x; auto].
           ++ destruct (Hkids k' v H1) as (x & Hx1 & -> & Hx3 & Hx4). rewrite markif_path in H2.
              assert (k' = k) as -> by congruence. right. exists x. split; [exact Hx1|]. split.
              ** rewrite cascb_app. cbn [cascb existsb]. rewrite D, Hkx. unfold below in Hx4. rewrite Hx4.
                 cbn. apply orb_true_r.
              ** rewrite H3. apply mark_markif.
      * intros k H. rewrite map_app in H. apply in_app_or in H. apply insert_key_in.
        destruct H as [H|[<-|[]]]; [right; apply J3; apply I4; exact H | left; cbn; auto].
      * intros k x Hx Hc. apply insert_key_in. right. rewrite cascb_app in Hc. apply orb_true_iff in Hc.
        destruct Hc as [Hc|Hc]; [apply J3; eapply I5; eauto|].
        cbn [cascb existsb] in Hc. rewrite orb_false_r, D in Hc. cbn [andb] in Hc.
        destruct WV as (NV & KV & PV). pose proof (kp_lookup V k x KV Hx) as Hp.
        rewrite <- Hp at 1. rewrite <- (markif_path idx l x). apply (J4 k (markif idx l x)).
        apply filter_In. split; [|rewrite markif_path, Hp; exact Hc].
        rewrite I1. apply in_map_iff. exists (k, x). split; [reflexivity | apply lookup_in; exact Hx].
    + (* an update *)
      assert (forall p, cascb (l ++ [(kx, cv)]) p = cascb l p) as Csame.
      { intros p. rewrite cascb_app. cbn [cascb existsb]. rewrite D. cbn. rewrite orb_false_r. reflexivity. }
      constructor.
      * rewrite I1. apply map_ext. intros [k v]. unfold markif. rewrite Csame. reflexivity.
      * apply wf_insert; [auto | reflexivity | rewrite Hkx; exact Hpx].
      * intros k u H. rewrite lookup_insert in H. case_eqb k (pv_path cv).
        -- injection H as <-. subst k. left. rewrite Hkx, lookup_app, Hnl. cbn. rewrite eqb_str_refl. reflexivity.
        -- apply I3 in H. destruct H as [H|(x & H1 & H2 & H3)]; [left; auto | right; exists x; rewrite Csame; auto].
      * intros k H. rewrite map_app in H. apply in_app_or in H. apply insert_key_in.
        destruct H as [H|[<-|[]]]; [right; apply I4; exact H | left; cbn; auto].
      * intros k x Hx Hc. apply insert_key_in. right. rewrite Csame in Hc. eapply I5; eauto.
Qed.

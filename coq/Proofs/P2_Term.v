(* Mastership, terms and re-synchronisation in the v2 protocol model (C10), all schedules, all crash prefixes:
     - the mastership term of a target never decreases; the master changes to Some m only together with term+1
       and to None without changing the term; over any run, a re-assigned mastership has a strictly larger term,
     - every device request carries the term and the master connection of the configuration snapshot, the master
       relation belongs to this node and its connection is live,
     - a proposal change is sent only outside SYNCHRONIZING with applied term = term; a re-push only in SYNCHRONIZING;
       the applied term is raised (non-persistent target, something applied) only after every request of the
       re-push was answered OK in the same invocation. *)
From stdpp Require Import gmap.
From RecordUpdate Require Import RecordUpdate.
From Coq Require Import NArith Lia.
From OC Require Import Model.Proto2 Proofs.P2Base Proofs.P2Phases Proofs.P2_Cursor Proofs.P2_CursorInv.
Open Scope N_scope.

Section Term.
  Context {V Ch Req D : Type}.
  Context (candidate : V -> Ch -> V) (candidate_rb : V -> Ch -> V) (rollback_of : V -> Ch -> Ch)
          (overlay : V -> V -> V) (commit_merge : N -> N -> V -> V -> Ch -> V)
          (payload : N -> V -> Ch -> option Req) (record_applied : N -> N -> V -> V -> V -> Ch -> V)
          (touched : N -> V -> Ch -> V) (restore : V -> V -> V)
          (resync_payload : V -> list (option Req)) (doc_ok : V -> bool)
          (dev_apply : D -> Req -> D) (stamp : N -> Ch -> Ch) (v_empty : V) (d_empty : D) (ch_empty : Ch).

  Notation world := (@world V Ch Req D).
  Notation eff := (@eff V Ch Req).
  Notation txn := (@txn Ch).
  Notation prop := (@prop Ch).
  Notation config := (@config V).
  Notation devev := (@devev Req).
  Notation apply_eff := (@apply_eff V Ch Req D dev_apply d_empty).
  Notation rec_tx := (@rec_tx V Ch Req D stamp).
  Notation rec_prop := (@rec_prop V Ch Req D candidate candidate_rb rollback_of overlay commit_merge payload record_applied
                                  touched restore doc_ok v_empty d_empty ch_empty).
  Notation rec_cfg := (@rec_cfg V Ch Req D overlay restore resync_payload v_empty d_empty).
  Notation rec_master := (@rec_master V Ch Req D overlay restore v_empty).
  Notation rec_conn := (@rec_conn V Ch Req D).
  Notation reconcile := (@reconcile V Ch Req D candidate candidate_rb rollback_of overlay commit_merge payload record_applied
                                    touched restore resync_payload doc_ok stamp v_empty d_empty ch_empty).
  Notation step := (@step V Ch Req D candidate candidate_rb rollback_of overlay commit_merge payload record_applied
                          touched restore resync_payload doc_ok dev_apply stamp v_empty d_empty ch_empty).
  Notation reach := (@reach V Ch Req D candidate candidate_rb rollback_of overlay commit_merge payload record_applied
                            touched restore resync_payload doc_ok dev_apply stamp v_empty d_empty ch_empty).
  Notation view := (@view V overlay).
  Notation aview := (@aview V overlay).
  Notation dev_answer := (@dev_answer V Ch Req D d_empty).
  Notation rb_change := (@rb_change Ch ch_empty).


  Notation cfg_write := (@cfg_write V Ch Req D).
  Notation sent_by_apply := (@sent_by_apply V Ch Req D overlay payload d_empty ch_empty).
  Notation sent_by_resync := (@sent_by_resync V Ch Req D overlay resync_payload d_empty).
  Notation upd_status := (@upd_status V Ch Req overlay restore v_empty).

  Definition term_of (w : world) (t : N) : N := match cfgs w !! t with Some C => c_term C | None => 0 end.
  Definition master_of (w : world) (t : N) : option N := match cfgs w !! t with Some C => c_master C | None => None end.
  Definition run_from (w : world) (ls : list label) : world := fold_left step ls w.

  Ltac sim_cbn S := apply sim_fields in S; cbn in S; destruct S as (S1 & S2 & S3 & S4 & S5 & S6 & S7 & S8 & S9).

  (** * Terms and masters, one step *)
  (* either nothing changes, or the master resigns (same term), or a master is elected in term+1 among the live
     CONTROLS relations from this node to the target *)
  Theorem mastership_step (w : world) l t :
    (master_of (step w l) t = master_of w t /\ term_of (step w l) t = term_of w t) \/
    (master_of (step w l) t = None /\ master_of w t <> None /\ term_of (step w l) t = term_of w t /\
     exists k o, l = LRec (CtlMaster t) k o) \/
    (exists m, master_of (step w l) t = Some m /\ term_of (step w l) t = term_of w t + 1 /\ rels w !! m = Some (t, true) /\
               (forall m0, master_of w t = Some m0 -> rels w !! m0 <> Some (t, true)) /\
               exists k o, l = LRec (CtlMaster t) k o).
  Proof.
    unfold master_of, term_of. destruct (cfgs (step w l) !! t) as [C'|] eqn:H'.
    - apply cfg_step in H'. destruct H' as [(C & HC & [S|(ctl & k & o & c0 & -> & Hw & S)])|(Hn & i & k & o & -> & _ & Hc)].
      + rewrite HC. sim_cbn S. left. split; congruence.
      + rewrite HC. inversion Hw; subst; sim_cbn S; try (left; split; congruence).
        * right. left. repeat split; try congruence. eauto.
        * right. right. exists m. repeat split; try congruence; eauto.
      + rewrite Hn. unfold core in Hc. injection Hc as _ _ _ _ _ -> -> _ _. left. split; reflexivity.
    - rewrite (cfg_step_none _ _ _ _ _ _ _ _ _ _ _ _ _ _ _ _ _ _ _ H'). left. split; reflexivity.
  Qed.

  Theorem term_monotone_step (w : world) l t :
    term_of w t <= term_of (step w l) t /\
    (forall m, master_of (step w l) t = Some m -> master_of (step w l) t <> master_of w t -> term_of (step w l) t = term_of w t + 1) /\
    (master_of (step w l) t = None -> term_of (step w l) t = term_of w t).
  Proof.
    destruct (mastership_step w l t) as [(Hm & Ht)|[(Hm & Hm0 & Ht & _)|(m & Hm & Ht & _)]].
    - split; [lia|]. split; [intros m _ Hne; congruence|auto].
    - split; [lia|]. split; [intros m H; congruence|auto].
    - split; [lia|]. split; [auto|intros H; congruence].
  Qed.

  (* at most one master: the master is ONE optional field of the configuration record *)
  Theorem single_master (w : world) t (C : config) m m' :
    cfgs w !! t = Some C -> c_master C = Some m -> c_master C = Some m' -> m = m'.
  Proof. intros _ H1 H2. congruence. Qed.

  (** * Terms and masters over a run *)
  Theorem term_monotone_run (ls : list label) : forall (w : world) t, term_of w t <= term_of (run_from w ls) t.
  Proof.
    unfold run_from. induction ls as [|l ls IH]; intros w t; cbn [fold_left]; [lia|].
    pose proof (IH (step w l) t). destruct (term_monotone_step w l t) as [H1 _]. lia.
  Qed.

  (* whenever, at the end of a run, the target has a master different from the one at the start (in particular
     after the master relation was lost: resignation or direct re-election), the term is strictly larger *)
  Theorem new_term_after_reassign (ls : list label) : forall (w : world) t m,
    master_of (run_from w ls) t = Some m -> master_of (run_from w ls) t <> master_of w t ->
    term_of w t < term_of (run_from w ls) t.
  Proof.
    unfold run_from. induction ls as [|l ls IH]; intros w t m Hm Hne; cbn [fold_left] in *; [congruence|].
    pose proof (term_monotone_run ls (step w l) t) as Hmono. unfold run_from in Hmono.
    destruct (mastership_step w l t) as [(Hm1 & Ht1)|[(Hm1 & Hm0 & Ht1 & _)|(m1 & Hm1 & Ht1 & _)]].
    - rewrite <- Ht1. eapply IH; [exact Hm|]. congruence.
    - rewrite <- Ht1. eapply IH; [exact Hm|]. congruence.
    - lia.
  Qed.

  Theorem new_term_after_loss (ls : list label) (w : world) t m0 m :
    master_of w t = Some m0 -> rels w !! m0 <> Some (t, true) ->
    master_of (run_from w ls) t = Some m -> m <> m0 ->
    term_of w t < term_of (run_from w ls) t.
  Proof. intros H0 _ Hm Hne. eapply new_term_after_reassign; [exact Hm|]. congruence. Qed.

  Theorem new_term_after_resign (ls : list label) (w : world) t m :
    master_of w t = None -> master_of (run_from w ls) t = Some m -> term_of w t < term_of (run_from w ls) t.
  Proof. intros H0 Hm. eapply new_term_after_reassign; [exact Hm|]. congruence. Qed.

  (** * Device requests *)
  (* every request carries the term of the configuration snapshot as election id and goes over the connection
     named by its master; that CONTROLS relation is owned by this node and its connection is live *)
  Theorem election_id (w : world) l evs t m term og r a :
    devlog (step w l) = devlog w ++ evs -> In (DevSet t m term og r a) evs ->
    exists C, cfgs w !! t = Some C /\ term = c_term C /\ c_master C = Some m /\
              (exists tt, rels w !! m = Some (tt, true)) /\ is_Some (conns w !! m).
  Proof.
    intros Hd Hin. destruct (devlog_step_in _ _ _ _ _ _ _ _ _ _ _ _ _ _ _ _ _ _ _ _ _ _ _ _ _ Hd Hin)
      as (ctl & k & o & -> & [(i & -> & -> & Hs)|(-> & -> & Hs)]).
    - destruct Hs as (C & P & HC & _ & Ht & Hm & Hr & Hc & _). exists C. auto.
    - destruct Hs as (C & HC & _ & Ht & Hm & Hr & Hc & _). exists C. auto.
  Qed.

  (* a proposal change is sent only outside SYNCHRONIZING and when the device was synchronised in the current term;
     a re-push (no origin) is sent only in state SYNCHRONIZING *)
  Theorem no_change_before_resync (w : world) l evs t m term og r a :
    reach w -> devlog (step w l) = devlog w ++ evs -> In (DevSet t m term og r a) evs ->
    exists C, cfgs w !! t = Some C /\
      match og with
      | Some i => c_state C <> CSynchronizing /\ c_aterm C = c_term C /\ exists k o, l = LRec (CtlProp (t, i)) k o
      | None => c_state C = CSynchronizing /\ exists k o, l = LRec (CtlCfg t) k o
      end.
  Proof.
    intros Hr Hd Hin. destruct (devlog_step_in _ _ _ _ _ _ _ _ _ _ _ _ _ _ _ _ _ _ _ _ _ _ _ _ _ Hd Hin)
      as (ctl & k & o & -> & [(i & -> & -> & Hs)|(-> & -> & Hs)]).
    - destruct Hs as (C & P & HC & _ & _ & _ & _ & _ & _ & _ & _ & _ & Hst & Hle & _). exists C. split; [exact HC|].
      split; [exact Hst|]. split; [|eauto].
      pose proof (aterm_le_term candidate candidate_rb rollback_of overlay commit_merge payload record_applied touched restore
                    resync_payload doc_ok dev_apply stamp v_empty d_empty ch_empty _ _ _ Hr HC). lia.
    - destruct Hs as (C & HC & _ & _ & _ & _ & _ & _ & Hst & _). exists C. split; [exact HC|]. split; [exact Hst|eauto].
  Qed.

  (** * Re-synchronisation *)
  (* the applied term moves only by the configuration reconciler, to the current term, and for a non-persistent
     target only from state SYNCHRONIZING with a master *)
  Theorem aterm_moves_by_sync (w : world) l t (C C' : config) :
    cfgs w !! t = Some C -> cfgs (step w l) !! t = Some C' -> c_aterm C' <> c_aterm C ->
    c_aterm C' = c_term C /\ c_term C' = c_term C /\ (exists k o, l = LRec (CtlCfg t) k o) /\
    (targets w !! t = Some true \/
     (targets w !! t = Some false /\ c_state C = CSynchronizing /\ c_state C' = CSynchronized /\ is_Some (c_master C))).
  Proof.
    intros HC H' Hne. apply cfg_step in H'.
    destruct H' as [(C0 & HC0 & [S|(ctl & k & o & c0 & -> & Hw & S)])|(Hn & _)]; [| |congruence].
    - rewrite HC in HC0. injection HC0 as <-. sim_cbn S. congruence.
    - rewrite HC in HC0. injection HC0 as <-. inversion Hw; subst; sim_cbn S; try congruence.
      + split; [congruence|]. split; [congruence|]. split; [eauto|]. left. assumption.
      + split; [congruence|]. split; [congruence|]. split; [eauto|]. right. repeat split; auto.
        all: try (match goal with H : c_master _ = Some _ |- _ => rewrite H end; eexists; reflexivity).
  Qed.

  (* when the configuration reconciler of a non-persistent target with something applied writes the entry in state
     SYNCHRONIZING, its effect list is: every request of the re-push, each answered OK, then the status write that
     sets the applied term to the current term *)
  Theorem resync_completes (o : oracle) (w : world) t (C c : config) :
    cfgs w !! t = Some C -> targets w !! t = Some false -> c_state C = CSynchronizing -> c_applied C <> 0 ->
    In (EPutCfg t c) (fst (rec_cfg o w t)) ->
    exists m rs, c_master C = Some m /\ resync_payload (aview C) = map Some rs /\
      fst (rec_cfg o w t) =
        map (fun r => EDev (DevSet t m (c_term C) None r COk)) rs ++
        upd_status t C (C <| c_state := CSynchronized |> <| c_amaster := c_master C |> <| c_aterm := c_term C |>) /\
      c_aterm c = c_term C /\ c_state c = CSynchronized.
  Proof.
    intros HC HT Hst Happ. unfold Proto2.rec_cfg. rewrite HC, HT.
    rewrite Hst. cbn [negb]. rewrite bool_decide_eq_true_2 by reflexivity. cbn [negb].
    destruct (c_master C) as [m|] eqn:Hm; [|intros []].
    apply N.eqb_neq in Happ. rewrite Happ.
    destruct (rels w !! m) as [[tt [|]]|]; try (intros []).
    destruct (conns w !! m); [|intros []].
    destruct (resync_effs t m (c_term C) (dev_answer w t (c_term C) o) (resync_payload (aview C))) as [es res] eqn:E.
    pose proof (resync_effs_complete (V:=V) (Ch:=Ch) t m (c_term C) (dev_answer w t (c_term C) o) (resync_payload (aview C))) as Hcomp.
    pose proof (resync_effs_in (V:=V) (Ch:=Ch) t m (c_term C) (dev_answer w t (c_term C) o) (resync_payload (aview C))) as Hin.
    rewrite E in Hcomp, Hin. cbn [fst snd] in Hcomp, Hin.
    destruct res as [r|].
    - cbn [fst]. intros H. destruct (Hin _ H) as (? & Heq & _). discriminate Heq.
    - cbn [fst]. destruct (Hcomp eq_refl) as (rs & Hrs & ->). intros H. exists m, rs. split; [reflexivity|]. split; [exact Hrs|].
      split; [reflexivity|]. apply in_app_or in H. destruct H as [H|H].
      + apply in_map_iff in H. destruct H as (? & Heq & _). discriminate Heq.
      + unfold Proto2.upd_status in H. cbn in H. destruct H as [H|[H|[]]]; [discriminate H|]. injection H as <-. cbn. auto.
  Qed.
  (** * Re-synchronisation, step level *)
  Lemma fold_devs (evs : list devev) : forall w : world,
    cfgs (fold_left apply_eff (map (@EDev V Ch Req) evs) w) = cfgs w /\ devlog (fold_left apply_eff (map (@EDev V Ch Req) evs) w) = devlog w ++ evs.
  Proof.
    induction evs as [|ev evs IH]; intros w; cbn [map fold_left]; [split; [reflexivity|symmetry; apply app_nil_r]|].
    destruct (IH (apply_eff w (EDev ev))) as [Hc Hd]. rewrite Hc, Hd, cfgs_apply_eff, devlog_apply_eff.
    split; [reflexivity|]. rewrite <- app_assoc. reflexivity.
  Qed.

  (* the step that raises the applied term of a non-persistent target with something applied appends the COMPLETE
     re-push to the device log, every request in the current term over the master's connection and answered OK *)
  Theorem resync_step (w : world) l t (C C' : config) :
    cfgs w !! t = Some C -> targets w !! t = Some false -> c_applied C <> 0 ->
    cfgs (step w l) !! t = Some C' -> c_aterm C' <> c_aterm C ->
    exists m rs, c_master C = Some m /\ resync_payload (aview C) = map Some rs /\
      devlog (step w l) = devlog w ++ map (fun r => DevSet t m (c_term C) None r COk) rs.
  Proof.
    intros HC HT Happ HC' Hne.
    destruct (aterm_moves_by_sync _ _ _ _ _ HC HC' Hne) as (_ & _ & (k & o & ->) & [Hp|(_ & Hst & _ & _)]); [congruence|].
    cbn [Proto2.step Proto2.reconcile] in HC' |- *.
    pose proof HC' as Hpre. apply cfg_prefix in Hpre.
    destruct Hpre as [(C0 & HC0 & S)|[(c & Hin & S)|(c & _ & Hn & _)]]; [| |congruence].
    { rewrite HC in HC0. injection HC0 as <-. apply sim_fields in S. destruct S as (_ & _ & _ & _ & _ & _ & _ & _ & S9). congruence. }
    destruct (resync_completes o w t C c HC HT Hst Happ Hin) as (m & rs & Hm & Hrs & Hes & _).
    exists m, rs. split; [exact Hm|]. split; [exact Hrs|].
    rewrite Hes in HC' |- *. clear Hes Hin.
    set (evs := map (fun r => DevSet t m (c_term C) None r COk) rs).
    replace (map (fun r => EDev (DevSet t m (c_term C) None r COk)) rs) with (map (@EDev V Ch Req) evs) in * by (unfold evs; rewrite map_map; reflexivity).
    unfold Proto2.upd_status in *.
    rewrite firstn_app, fold_left_app in HC' |- *. rewrite map_length in HC' |- *. rewrite firstn_map in HC' |- *.
    destruct (fold_devs (firstn k evs) w) as [Hc1 Hd1].
    set (w1 := fold_left apply_eff (map (@EDev V Ch Req) (firstn k evs)) w) in *.
    destruct (k - length evs)%nat as [|[|j]] eqn:Hk.
    - exfalso. cbn [firstn fold_left] in HC'. rewrite Hc1, HC in HC'. injection HC' as <-. congruence.
    - exfalso. cbn [firstn fold_left] in HC'. rewrite cfgs_apply_eff, Hc1, HC, lookup_insert in HC'. injection HC' as <-. cbn in Hne. congruence.
    - cbn [firstn fold_left]. rewrite firstn_nil. cbn [fold_left]. rewrite !devlog_apply_eff, Hd1.
      rewrite firstn_all2 by lia. reflexivity.
  Qed.
End Term.

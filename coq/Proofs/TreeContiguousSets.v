(* C18: the contiguity result of TreeContiguous.v on path/value sets as PrunePathValues hands them to BuildTree
   (TreeSpec.live_paths), its boolean hypotheses, an inhabitant, and the two counterexamples showing that the
   hypotheses are needed. *)
From Coq Require Import List Arith NArith ZArith Bool Lia Sorted Permutation String.
From OC Require Import Base.Bytes Model.Tree Model.TreeSpec Proofs.TreeProofs Proofs.TreeBuildProofs Proofs.TreeExamples
     Proofs.TreeContiguous.
Import ListNotations.
Open Scope N_scope.

(* the text is "/" e1 "/" e2 ... for its own elements, none of them empty or split by the tokenizer *)
Definition normal_textb (p : str) : bool :=
  let es := split_path p in
  match es with [] => false | _ => forallb elem_okb es && eqb_str p (TreeContiguous.ptext es) end.

(* no path's elements are a prefix of another's, as a boolean on an ordered list *)
Fixpoint is_preb (x y : list str) : bool :=
  match x, y with
  | [], _ => true
  | a :: x', b :: y' => eqb_str a b && is_preb x' y'
  | _ :: _, [] => false
  end.

Fixpoint pfreeb (L : list (list str * tv)) : bool :=
  match L with
  | [] => true
  | a :: L' => forallb (fun c => negb (is_preb (fst a) (fst c)) && negb (is_preb (fst c) (fst a))) L' && pfreeb L'
  end.

Lemma is_preb_spec x : forall y, is_pre x y -> is_preb x y = true.
Proof.
  induction x as [|a x IH]; intros y [r ->]; [reflexivity|]. cbn. rewrite eqb_str_refl. apply IH. exists r. reflexivity.
Qed.

Lemma pfreeb_ok L : pfreeb L = true -> pfree L.
Proof.
  induction L as [|p L IH]; intros H l1 a l2 c l3 E; [destruct l1; discriminate|].
  cbn [pfreeb] in H. apply andb_true_iff in H. destruct H as [H1 H2].
  destruct l1 as [|q l1]; cbn [app] in E; injection E as -> ->.
  - rewrite forallb_forall in H1. specialize (H1 c ltac:(apply in_or_app; right; left; reflexivity)).
    apply andb_true_iff in H1. destruct H1 as [A1 A2]. apply negb_true_iff in A1, A2.
    split; intros HP; apply is_preb_spec in HP; congruence.
  - apply (IH H2 l1 a l2 c l3 eq_refl).
Qed.

Lemma normal_text_parts p : normal_textb p = true ->
  split_path p <> [] /\ Forall elem_ok (split_path p) /\ p = TreeContiguous.ptext (split_path p).
Proof.
  unfold normal_textb. destruct (split_path p) as [|e es] eqn:E; [discriminate|].
  rewrite andb_true_iff. intros [H1 H2]. split; [discriminate|]. split; [|apply eqb_str_eq; exact H2].
  apply Forall_forall. rewrite forallb_forall in H1. exact H1.
Qed.

Lemma ssorted_map {A C} (R : A -> A -> Prop) (S : C -> C -> Prop) (f : A -> C) l :
  (forall x y, In x l -> In y l -> R x y -> S (f x) (f y)) -> StronglySorted R l -> StronglySorted S (map f l).
Proof.
  induction l as [|x l IH]; intros H SS; [constructor|]. inversion SS as [|? ? S1 F1]; subst. cbn [map]. constructor.
  - apply IH; [intros a b Ha Hb; apply H; right; assumption | exact S1].
  - rewrite Forall_forall in *. intros y Hy. apply in_map_iff in Hy. destruct Hy as [z [<- Hz]].
    apply H; [left; reflexivity | right; exact Hz | apply F1; exact Hz].
Qed.

Lemma list_eqb_refl a : list_eqb a a = true.
Proof. induction a as [|x a IH]; [reflexivity|]. cbn. rewrite eqb_str_refl. exact IH. Qed.

Lemma tv_eqb_refl a : tv_eqb a a = true.
Proof.
  destruct a as [t b o]. unfold tv_eqb. cbn [tv_type tv_bytes tv_opts]. rewrite N.eqb_refl, eqb_str_refl. cbn [andb].
  induction o as [|z o IH]; [reflexivity|]. rewrite Z.eqb_refl. exact IH.
Qed.

Lemma paths_eqb_refl a : paths_eqb a a = true.
Proof. induction a as [|[p v] a IH]; [reflexivity|]. cbn. rewrite list_eqb_refl, tv_eqb_refl. exact IH. Qed.

(* pairwise distinct child elements at every node *)
Definition distinct_children (t : trie) : Prop := good t.

(* for path/value sets: what BuildTree processes after pruning is the depth-first enumeration of a trie whose nodes have
   pairwise distinct child elements - the paths sharing leading elements, e.g. those of one list entry, are contiguous -
   and trie_of rebuilds that trie: the contiguity conjunct of wf_set holds *)
Theorem sorted_live_paths pvs :
  (forall x, In x pvs -> normal_textb (pv_path x) = true) -> pfree (live_paths pvs) ->
  exists cs, NoDup (map fst cs) /\ Forall (fun et => good (snd et)) cs /\
             dfs (TNode cs) = live_paths pvs /\ trie_of (live_paths pvs) = TNode cs /\
             paths_eqb (dfs (trie_of (live_paths pvs))) (live_paths pvs) = true.
Proof.
  intros NT PF.
  assert (NEp : forall x, In x pvs -> pv_path x <> []).
  { intros x Hx E. specialize (NT x Hx). rewrite E in NT. vm_compute in NT. discriminate. }
  destruct (prune_exact false pvs NEp) as [HP SS].
  assert (IN : forall x, In x (prune false pvs) -> In x pvs).
  { intros x Hx. eapply Permutation_in in Hx; [|exact HP]. apply filter_In in Hx. apply Hx. }
  destruct (sorted_is_dfs (live_paths pvs)) as [cs [ND [GC [DF TO]]]].
  - intros p Hp. unfold live_paths in Hp. apply in_map_iff in Hp. destruct Hp as [x [<- Hx]]. cbn [fst].
    destruct (normal_text_parts _ (NT x (IN x Hx))) as [H1 [H2 _]]. auto.
  - exact PF.
  - unfold live_paths. apply (ssorted_map pv_le text_le); [|exact SS].
    intros x y Hx Hy Hle. unfold text_le, text. cbn [fst].
    destruct (normal_text_parts _ (NT x (IN x Hx))) as [_ [_ Ex]].
    destruct (normal_text_parts _ (NT y (IN y Hy))) as [_ [_ Ey]].
    rewrite <- Ex, <- Ey. exact Hle.
  - exists cs. repeat split; try assumption. rewrite TO, DF. apply paths_eqb_refl.
Qed.

(* ------------------------------------------------------------------ an inhabitant and the counterexamples *)
Example sorted_example :
  (forall x, In x wf_example -> normal_textb (pv_path x) = true) /\ pfree (live_paths wf_example).
Proof.
  split.
  - intros x Hx. cbn in Hx. repeat (destruct Hx as [<-|Hx]; [vm_compute; reflexivity|]). destruct Hx.
  - apply pfreeb_ok. vm_compute. reflexivity.
Qed.

Definition child_elems (t : trie) : list str := match t with TNode cs => map fst cs | TLeaf _ => [] end.

(* without the leading '/' on every path the order does not keep an element's paths together:
   "/a/b" < "/z/y" < "a/c" bytewise, SplitPath gives [a;b] [z;y] [a;c], prefix-free - and a appears twice *)
Definition cx_slash : list pv := [ live "/a/b" "1"; live "/z/y" "2"; live "a/c" "3" ].

Example leading_slash_needed :
  pfree (live_paths cx_slash) /\
  map fst (live_paths cx_slash) = [[B "a"; B "b"]; [B "z"; B "y"]; [B "a"; B "c"]] /\
  child_elems (trie_of (live_paths cx_slash)) = [B "a"; B "z"; B "a"] /\
  normal_textb (B "a/c") = false /\ wf_set true cx_slash = false.
Proof. split; [apply pfreeb_ok; vm_compute; reflexivity|]. vm_compute. repeat split; reflexivity. Qed.

(* with a leaf above a leaf a name sorting below '/' comes in between: "/a/b" < "/a/b-c" < "/a/b/d" ('-' < '/'),
   all three texts normal - the paths through element b are not contiguous: node a gets two children b *)
Definition cx_leaf : list pv := [ live "/a/b" "1"; live "/a/b-c" "2"; live "/a/b/d" "3" ].

Example prefix_free_needed :
  (forall x, In x cx_leaf -> normal_textb (pv_path x) = true) /\
  map fst (live_paths cx_leaf) = [[B "a"; B "b"]; [B "a"; B "b-c"]; [B "a"; B "b"; B "d"]] /\
  pfreeb (live_paths cx_leaf) = false /\
  match trie_of (live_paths cx_leaf) with TNode [(_, t)] => child_elems t | _ => [] end = [B "b"; B "b-c"; B "b"] /\
  wf_set true cx_leaf = false.
Proof.
  split.
  - intros x Hx. cbn in Hx. repeat (destruct Hx as [<-|Hx]; [vm_compute; reflexivity|]). destruct Hx.
  - vm_compute. repeat split; reflexivity.
Qed.

Lemma prefix_free_fails : ~ pfree (live_paths cx_leaf).
Proof.
  intros PF.
  assert (E : exists a b c, live_paths cx_leaf = [a; b; c] /\ fst a = [B "a"; B "b"] /\ fst c = [B "a"; B "b"; B "d"]).
  { vm_compute. eexists. eexists. eexists. repeat split; reflexivity. }
  destruct E as [a [b [c [E [Ea Ec]]]]].
  destruct (PF [] a [b] c [] E) as [H _]. apply H. exists [B "d"]. rewrite Ea, Ec. reflexivity.
Qed.

(* C18: the input-level hypotheses of TreeWfInputs.v are satisfiable (the example set of TreeExamples.v) and each of the
   schema / grammar / value hypotheses is needed: for each one a set that satisfies all the others and on which the
   faithful model of BuildTree fails, panics, splits an entry or reads back different leaves. *)
From Coq Require Import List NArith Bool String Permutation.
From OC Require Import Base.Bytes Model.Tree Model.TreeSpec Proofs.TreeExamples Proofs.TreeContiguousSets Proofs.TreeWfInputs.
Import ListNotations.
Open Scope N_scope.

Example inputs_example : inputs_okb true wf_example = true /\ inputs_okb false wf_example = true.
Proof. vm_compute. split; reflexivity. Qed.

(* (normal texts, prefix-free, grammar, schema keys, key names, key leaves, siblings) *)
Definition parts (rfc : bool) (pvs : list pv) : bool * bool * bool * bool * bool * bool * bool :=
  let lp := live_paths pvs in
  (forallb (fun x => normal_textb (pv_path x)) pvs, pfreeb lp, grammarb lp, schema_keysb lp, key_namesb lp,
   key_leavesb rfc lp, siblingsb lp).

(* schema_keysb: one list, two key-name lists.  BuildTree succeeds, but the document no longer says which key the
   second entry has: read back under the list's key names it is the entry with a = "" *)
Definition cx_keys : list pv := [ live "/l[a=1]/v" "1"; live "/l[b=2]/w" "2" ].

Example schema_keys_needed :
  parts true cx_keys = (true, true, true, false, true, true, true) /\ wf_set true cx_keys = false /\
  exists t x, build_tree true cx_keys = Ok t /\
              In x (flatten (schema_of (live_paths cx_keys)) [] t) /\
              ~ In x (explicit_leaves true (live_paths cx_keys) ++ key_leaves true (trie_of (live_paths cx_keys)) []) /\
              x = ([(B "l", [(B "a", [])]); (B "w", [])], GStr (B "2")).
Proof.
  split; [vm_compute; reflexivity|]. split; [vm_compute; reflexivity|]. eexists. eexists.
  split; [vm_compute; reflexivity|]. split; [vm_compute; right; right; right; left; reflexivity|].
  split; [|reflexivity]. vm_compute. intros H. repeat (destruct H as [H|H]; [discriminate|]). exact H.
Qed.

(* siblingsb: a name that is a leaf and a list at once *)
Definition cx_kind : list pv := [ live "/a/l" "1"; live "/a/l[k=1]/v" "2" ].
Example siblings_needed :
  parts true cx_kind = (true, true, true, true, true, true, false) /\ build_tree true cx_kind = Err /\ wf_set true cx_kind = false.
Proof. vm_compute. repeat split; reflexivity. Qed.

(* key_namesb: a container inside a list entry named like the entry's key *)
Definition cx_kname : list pv := [ live "/l[k=1]/k/x" "1" ].
Example key_names_needed :
  parts true cx_kname = (true, true, true, true, false, true, true) /\ build_tree true cx_kname = Err /\ wf_set true cx_kname = false.
Proof. vm_compute. repeat split; reflexivity. Qed.

(* key_leavesb: an explicit key leaf that contradicts the path splits the entry *)
Definition cx_kleaf : list pv := [ live "/l[k=1]/k" "2"; live "/l[k=1]/v" "3" ].
Example key_leaves_needed :
  parts true cx_kleaf = (true, true, true, true, true, false, true) /\
  (exists l, build_tree true cx_kleaf = Ok (NMap [(B "l", NArr l)]) /\ List.length l = 2%nat) /\ wf_set true cx_kleaf = false.
Proof. split; [vm_compute; reflexivity|]. split; [eexists; vm_compute; split; reflexivity | vm_compute; reflexivity]. Qed.

(* grammarb: an element with '=' and no bracket makes addPathToTree panic *)
Definition cx_gram : list pv := [ live "/x=1/v" "2" ].
Example grammar_needed :
  parts true cx_gram = (true, true, false, true, true, true, true) /\ build_tree true cx_gram = Panic /\ wf_set true cx_gram = false.
Proof. vm_compute. repeat split; reflexivity. Qed.

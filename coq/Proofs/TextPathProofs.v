(* Textual paths: the ancestors the repaired code scans (path[:i] with path[i] = '/' or '[') are exactly the
   paths the given one is beneath in the sense of utils.IsPathBelow. *)
From Coq Require Import List NArith Bool Lia.
From OC Require Import Base.Bytes Model.Merge Proofs.MergeProofs.
Import ListNotations.
Open Scope N_scope.

Definition proper (p : str) : Prop := p <> [] /\ p <> [c_slash].

Lemma bprefixes_spec rest : forall acc a,
  In a (bprefixes acc rest) <-> exists r1 c r2, rest = r1 ++ c :: r2 /\ is_boundary c = true /\ a = acc ++ r1.
Proof.
  induction rest as [|x rest IH]; intros acc a; cbn.
  - split; [intros [] | intros [r1 [c [r2 [H _]]]]; destruct r1; discriminate].
  - rewrite in_app_iff, IH. split.
    + intros [H|[r1 [c [r2 [E [B A]]]]]].
      * destruct (is_boundary x) eqn:Bx; [|destruct H].
        destruct H as [<-|[]]. exists [], x, rest. rewrite app_nil_r. auto.
      * exists (x :: r1), c, r2. subst. rewrite <- app_assoc. auto.
    + intros [r1 [c [r2 [E [B A]]]]]. destruct r1 as [|y r1]; cbn in E; injection E as -> ->.
      * left. rewrite B. left. rewrite app_nil_r in A. auto.
      * right. exists r1, c, r2. rewrite <- app_assoc. auto.
Qed.

Lemma strip_prefix_some a : forall x r, strip_prefix a x = Some r -> x = a ++ r.
Proof.
  induction a as [|c a IH]; intros x r; cbn.
  - intros [= ->]. reflexivity.
  - destruct x as [|y x]; [discriminate|]. destruct (c =? y) eqn:E; [|discriminate].
    apply N.eqb_eq in E. subst y. intros H. f_equal. apply IH. exact H.
Qed.

Lemma strip_prefix_app' a r : strip_prefix a (a ++ r) = Some r.
Proof. induction a as [|x a IH]; cbn; [reflexivity|]. rewrite N.eqb_refl. exact IH. Qed.

Lemma in_ancestors_iff x a :
  In a (boundary_ancestors x) <-> a <> [] /\ exists c r, x = a ++ c :: r /\ is_boundary c = true.
Proof.
  unfold boundary_ancestors. destruct x as [|c0 rest].
  - split; [intros [] | intros [_ [c [r [H _]]]]; destruct a; discriminate].
  - rewrite <- in_rev, bprefixes_spec. split.
    + intros [r1 [c [r2 [E [B A]]]]]. subst. split; [discriminate|]. exists c, r2. auto.
    + intros [NE [c [r [E B]]]]. destruct a as [|a0 a]; [congruence|]. cbn in E. injection E as -> ->.
      exists a, c, r. auto.
Qed.

Lemma below_iff x a : proper a ->
  (is_path_below x a = true <-> exists c r, x = a ++ c :: r /\ is_boundary c = true).
Proof.
  intros [H1 H2]. unfold is_path_below.
  destruct (eqb_str a []) eqn:E1; [apply eqb_str_eq in E1; contradiction|].
  destruct (eqb_str a [c_slash]) eqn:E2; [apply eqb_str_eq in E2; contradiction|].
  cbn [orb]. split.
  - destruct (strip_prefix a x) as [[|c r]|] eqn:S; try discriminate.
    intros B. exists c, r. split; [apply strip_prefix_some; exact S | exact B].
  - intros [c [r [-> B]]]. rewrite strip_prefix_app'. exact B.
Qed.

Lemma ancestor_below x a : proper a -> (In a (boundary_ancestors x) <-> is_path_below x a = true).
Proof.
  intros P. rewrite in_ancestors_iff, (below_iff x a P). destruct P as [P1 P2]. tauto.
Qed.

Lemma below_trans p t d : proper t -> proper d ->
  is_path_below p t = true -> is_path_below t d = true -> is_path_below p d = true.
Proof.
  intros Pt Pd H1 H2. apply (below_iff p t Pt) in H1. apply (below_iff t d Pd) in H2.
  destruct H1 as [c [r [-> B]]]. destruct H2 as [c' [r' [-> B']]].
  apply (below_iff _ d Pd). exists c', (r' ++ c :: r). rewrite <- app_assoc. cbn. auto.
Qed.

Lemma below_irrefl p : proper p -> is_path_below p p = false.
Proof.
  intros P. destruct (is_path_below p p) eqn:E; [|reflexivity].
  apply (below_iff p p P) in E. destruct E as [c [r [E _]]].
  exfalso. apply (f_equal (@length N)) in E. rewrite app_length in E. cbn in E. lia.
Qed.

(* C01, value level: the premise [committed_means_merged] of [all_or_none_values_partial] (Proofs/P2PureAtomicAll.v)
   discharged for runs of COMPLETE reconcile invocations from the initial world.
     - B_inv (every reachable world): no proposal of the target lies strictly between a proposal and its PrevIndex;
     - J_inv (worlds reached by complete invocations): a proposal that is neither applying, nor aborting, nor COMMITTED
       has its index above Committed.Index (with partial invocations this fails: the commit invocation cut after the
       configuration write leaves Committed.Index = i with the proposal still committing);
     - done_step: the Commit phase of a proposal becomes Done only by the step of its own controller;
     - committed_means_merged_holds, all_or_none_values. *)
From stdpp Require Import gmap.
From RecordUpdate Require Import RecordUpdate.
From Coq Require Import NArith Lia.
From OC Require Import Model.Proto2 Proofs.P2Base Proofs.P2Phases Proofs.P2_Order Proofs.P2_Cursor Proofs.P2_CursorInv
     Proofs.P2_CursorChain Proofs.P2_CursorLink Proofs.P2_CursorChainInv Proofs.P2_CursorGuard Proofs.P2_Converge.
Open Scope N_scope.

Section Merged.
  Context {V Ch Req D : Type}.
  Context (candidate : V -> Ch -> V) (candidate_rb : V -> Ch -> V) (rollback_of : V -> Ch -> Ch)
          (overlay : V -> V -> V) (commit_merge : N -> N -> V -> V -> Ch -> V)
          (payload : N -> V -> Ch -> option Req) (record_applied : N -> N -> V -> V -> V -> Ch -> V)
          (touched : N -> V -> Ch -> V) (restore : V -> V -> V)
          (resync_payload : V -> list (option Req)) (doc_ok : V -> bool)
          (dev_apply : D -> Req -> D) (stamp : N -> Ch -> Ch) (v_empty : V) (d_empty : D) (ch_empty : Ch).

  Notation world := (@world V Ch Req D).
  Notation eff := (@eff V Ch Req).
  Notation txn := (@txn Ch).
  Notation prop := (@prop Ch).
  Notation config := (@config V).
  Notation apply_eff := (@apply_eff V Ch Req D dev_apply d_empty).
  Notation rec_tx := (@rec_tx V Ch Req D stamp).
  Notation rec_prop := (@rec_prop V Ch Req D candidate candidate_rb rollback_of overlay commit_merge payload record_applied
                                  touched restore doc_ok v_empty d_empty ch_empty).
  Notation reconcile := (@reconcile V Ch Req D candidate candidate_rb rollback_of overlay commit_merge payload record_applied
                                    touched restore resync_payload doc_ok stamp v_empty d_empty ch_empty).
  Notation step := (@step V Ch Req D candidate candidate_rb rollback_of overlay commit_merge payload record_applied
                          touched restore resync_payload doc_ok dev_apply stamp v_empty d_empty ch_empty).
  Notation reach := (@reach V Ch Req D candidate candidate_rb rollback_of overlay commit_merge payload record_applied
                            touched restore resync_payload doc_ok dev_apply stamp v_empty d_empty ch_empty).
  Notation complete := (complete candidate candidate_rb rollback_of overlay commit_merge payload record_applied touched restore
                                 resync_payload doc_ok stamp v_empty d_empty ch_empty).
  Notation cfg_write := (@cfg_write V Ch Req D).

  Local Notation "'inst' f" := (f candidate candidate_rb rollback_of overlay commit_merge payload record_applied touched restore
                                  resync_payload doc_ok dev_apply stamp v_empty d_empty ch_empty) (at level 10, f at level 9).

  Local Notation "'instp' f" := (f candidate candidate_rb rollback_of overlay commit_merge payload record_applied touched restore
                                   doc_ok v_empty d_empty ch_empty) (at level 10, f at level 9).

  Ltac sim_cbn S := apply sim_fields in S; cbn in S; destruct S as (S1 & S2 & S3 & S4 & S5 & S6 & S7 & S8 & S9).

  (** * No proposal strictly between a proposal and its PrevIndex *)
  Definition B_inv (w : world) : Prop :=
    forall t i j (Pi Pj : prop), props w !! (t, i) = Some Pi -> props w !! (t, j) = Some Pj ->
      p_prev Pj <> 0 -> p_prev Pj < i -> i < j -> False.

  Lemma B_init : B_inv (@init V Ch Req D).
  Proof. intros t i j Pi Pj H. cbn in H. rewrite lookup_empty in H. discriminate H. Qed.

  Lemma B_step (w : world) l : reach w -> B_inv w -> B_inv (step w l).
  Proof.
    intros Hr HB t i j Pi' Pj' HPi' HPj' Hnz Hlt1 Hlt2.
    destruct (inst prop_post _ _ _ _ HPj') as [(_ & Hz & _)|(Pj & HPj & Hrel)]; [congruence|].
    assert (HexI : exists Pi : prop, props w !! (t, i) = Some Pi).
    { destruct (inst prop_post _ _ _ _ HPi') as [(_ & _ & _ & _ & n & o & _ & Hin)|(Pi & HPi & _)]; [|eauto].
      exfalso. cbn [snd] in Hin. exact (inst no_create_below w t i j Pi' Pj Hr Hin HPj Hlt2). }
    destruct HexI as [Pi HPi].
    destruct Hrel as [(Hp & _)|(t0 & i0 & n & o & Hl & Hlw)].
    - rewrite Hp in *. exact (HB t i j Pi Pj HPi HPj Hnz Hlt1 Hlt2).
    - destruct Hlw as [(Hp & _)|[(C & Pi0 & _ & _ & _ & _ & _ & _ & _ & ->)|(C & Q & HC & Hk & Hdo & Hlt & Hpos & HQ & _ & Hz & ->)]].
      + rewrite Hp in *. exact (HB t i j Pi Pj HPi HPj Hnz Hlt1 Hlt2).
      + cbn in *. exact (HB t i j Pi Pj HPi HPj Hnz Hlt1 Hlt2).
      + cbn in *. injection Hk as <- <-.
        pose proof (inst open_is_last w t i j Pi Pj Hr HPi HPj Hlt2) as Hd.
        destruct (ci_reg _ (inst C_inv_reach _ Hr) _ _ _ HPi Hd) as (C0 & HC0 & Hle).
        rewrite HC in HC0. injection HC0 as <-. lia.
  Qed.

  Theorem B_reach (w : world) : reach w -> B_inv w.
  Proof.
    apply (inst reach_ind B_inv).
    - exact B_init.
    - intros w0 l Hr Hi. apply B_step; assumption.
  Qed.

  (** * A proposal that is still open lies above Committed.Index *)
  Lemma open_below (w : world) t i (P : prop) (C : config) :
    reach w -> props w !! (t, i) = Some P -> cfgs w !! t = Some C -> p_init P <> Some Done -> c_committed C < i.
  Proof.
    intros Hr HP HC Hnd. pose proof (inst prop_index_pos _ _ _ _ Hr HP) as Hpos.
    destruct (N.eq_dec (c_committed C) 0) as [Hz|Hnz]; [lia|].
    destruct (ci_committed _ (inst C_inv_reach _ Hr) _ _ HC Hnz) as (Pc & HPc & Hd).
    destruct (N.lt_trichotomy (c_committed C) i) as [Hlt|[He|Hgt]]; [exact Hlt| |].
    - rewrite He in HPc. congruence.
    - exfalso. apply Hnd. exact (inst open_is_last w t i (c_committed C) P Pc Hr HP HPc Hgt).
  Qed.

  Definition J_inv (w : world) : Prop :=
    forall t i (P : prop) (C : config), props w !! (t, i) = Some P -> cfgs w !! t = Some C ->
      p_apply P = None -> p_abort P = None -> p_commit P <> Some Done -> c_committed C < i.

  Lemma J_init : J_inv (@init V Ch Req D).
  Proof. intros t i P C H. cbn in H. rewrite lookup_empty in H. discriminate H. Qed.

  (* a complete commit invocation marks the proposal COMMITTED *)
  Lemma commit_complete (w : world) t i n o (P : prop) (C : config) :
    props w !! (t, i) = Some P -> p_apply P = None -> p_abort P = None -> p_commit P = Some Doing -> cfgs w !! t = Some C ->
    complete w (LRec (CtlProp (t, i)) n o) ->
    props (step w (LRec (CtlProp (t, i)) n o)) !! (t, i) = Some (P <| p_commit := Some Done |>).
  Proof.
    intros HP Ha Hb Hc HC Hlen. unfold P2_Converge.complete in Hlen. cbn [Proto2.step Proto2.reconcile] in *.
    rewrite firstn_all2 by exact Hlen.
    destruct (instp rec_prop_commit_effs o w t i P C HP Ha Hb Hc HC) as (v & c' & _ & ->).
    rewrite fold_left_app. cbn [fold_left]. rewrite props_apply_eff. apply lookup_insert.
  Qed.

  Lemma J_step (w : world) l : reach w -> J_inv w -> complete w l -> J_inv (step w l).
  Proof.
    intros Hr HJ Hcp t i P' C' HP' HC' Hap Hab Hco.
    pose proof (inst reach_step w l Hr) as Hr'. pose proof (B_reach w Hr) as HB. pose proof (inst C_inv_reach _ Hr) as HCI.
    assert (Hid : p_init P' = Some Done \/ p_init P' <> Some Done) by (destruct (p_init P') as [[]|]; auto; right; discriminate).
    destruct Hid as [Hid|Hid]; [|exact (open_below _ _ _ _ _ Hr' HP' HC' Hid)].
    assert (Hpre : exists P : prop, props w !! (t, i) = Some P /\ p_apply P = None /\ p_abort P = None /\ p_commit P <> Some Done).
    { pose proof HP' as H. apply prop_step in H. destruct H as [H|(ctl & n & o & _ & [H|[H _]])].
      - exists P'. auto.
      - apply reconcile_putprop in H. destruct H as (P & HP & _ & Hu). exists P. split; [exact HP|].
        destruct Hu as [(i0 & _ & (_ & Hc & Hb & Ha & _))|(T & _ & _ & _ & Hs)].
        + split; [destruct Ha as [E|(_ & [E|E])]; congruence|]. split; [destruct Hb as [E|(_ & E)]; congruence|].
          destruct Hc as [E|(E & _)]; congruence.
        + destruct Hs as [(_ & _ & ->)|[(_ & _ & _ & ->)|[(_ & _ & _ & E & ->)|(_ & _ & _ & _ & _ & ->)]]]; cbn in *;
            try discriminate; repeat split; auto; congruence.
      - apply reconcile_createprop in H. destruct H as (T & _ & _ & _ & _ & _ & _ & _ & _ & _ & [(c & ->)|(ri & ->)]); discriminate Hid. }
    destruct Hpre as (P & HP & Hap0 & Hab0 & Hco0).
    apply cfg_step in HC'. destruct HC' as [(C & HC & Hrel)|(Hn & i1 & k & o & _ & _ & Hcore)].
    2:{ unfold core in Hcore. injection Hcore as _ _ Hc3 _ _ _ _ _ _. rewrite Hc3.
        pose proof (inst prop_index_pos _ _ _ _ Hr' HP'). lia. }
    pose proof (HJ t i P C HP HC Hap0 Hab0 Hco0) as Hlt.
    destruct Hrel as [S|(ctl & k & o & c0 & -> & Hw & S)]; [sim_cbn S; rewrite <- S3; exact Hlt|].
    assert (Hmove : forall i0 (P0 : prop), props w !! (t, i0) = Some P0 -> c_committed C = p_prev P0 -> i0 <> i ->
                    is_Some (p_commit P0) \/ is_Some (p_abort P0) -> i0 < i).
    { intros i0 P0 HP0 Hpr Hne Hs.
      destruct (N.lt_trichotomy i0 i) as [Hl|[He|Hg]]; [exact Hl|congruence|]. exfalso.
      assert (Hd0 : p_init P0 = Some Done) by (eapply (inst phase_linked); [exact Hr|exact HP0|]; destruct Hs; auto).
      pose proof (inst open_is_last w t i i0 P P0 Hr HP HP0 Hg) as Hd.
      destruct (N.eq_dec (p_prev P0) 0) as [Hz|Hnz].
      - destruct (ci_reg _ HCI _ _ _ HP Hd) as (C1 & HC1 & Hle1). rewrite HC in HC1. injection HC1 as <-.
        destruct (ci_reg _ HCI _ _ _ HP0 Hd0) as (C2 & HC2 & Hle2). rewrite HC in HC2. injection HC2 as <-.
        pose proof (ci_first _ HCI t C i0 i P0 P HC HP0 HP Hle2 Hle1 Hz). lia.
      - apply (HB t i i0 P P0 HP HP0 Hnz); [lia|exact Hg]. }
    inversion Hw; subst; sim_cbn S; rewrite <- ?S3; try exact Hlt.
    - (* the commit write *)
      destruct (N.eq_dec i0 i) as [->|Hne].
      + exfalso. match goal with HP1 : props w !! (t, i) = Some ?P1, E : p_commit ?P1 = Some Doing |- _ =>
                   rewrite (commit_complete w t i k o P1 C HP1) in HP' by assumption end.
        injection HP' as <-. cbn in Hco. congruence.
      + eapply Hmove; try eassumption. left. match goal with E : p_commit _ = Some Doing |- _ => rewrite E end. eexists; reflexivity.
    - destruct (N.eq_dec i0 i) as [->|Hne]; [exfalso; congruence|].
      eapply Hmove; try eassumption. right. match goal with E : p_abort _ = Some Doing |- _ => rewrite E end. eexists; reflexivity.
    - destruct (N.eq_dec i0 i) as [->|Hne]; [exfalso; congruence|].
      eapply Hmove; try eassumption. right. match goal with E : p_abort _ = Some Doing |- _ => rewrite E end. eexists; reflexivity.
  Qed.

  (** * The Commit phase becomes Done only by the step of the proposal's own controller *)
  Lemma done_step (w : world) l t i (P' : prop) :
    props (step w l) !! (t, i) = Some P' -> p_commit P' = Some Done ->
    (exists P : prop, props w !! (t, i) = Some P /\ p_commit P = Some Done) \/
    (exists (P : prop) n o, l = LRec (CtlProp (t, i)) n o /\ props w !! (t, i) = Some P /\
       p_commit P = Some Doing /\ p_apply P = None /\ p_abort P = None).
  Proof.
    intros HP' Hd. pose proof HP' as H. apply prop_step in H. destruct H as [H|(ctl & n & o & -> & [H|[H _]])].
    - left. exists P'. auto.
    - destruct ctl as [j|[t0 i0]|t0|t0|c0]; cbn [Proto2.reconcile] in H.
      + apply rec_tx_putprop in H. destruct H as (t1 & p & T & _ & _ & _ & Hp & Hs). left. exists p. split; [exact Hp|].
        destruct Hs as [(_ & _ & ->)|[(_ & _ & _ & ->)|[(_ & _ & _ & _ & ->)|(_ & _ & _ & _ & _ & ->)]]]; cbn in Hd; try exact Hd; discriminate Hd.
      + pose proof H as H1. apply rec_prop_putprop in H1. destruct H1 as (P & HP & _ & _ & (_ & Hc & _)).
        destruct Hc as [E|(E1 & E2 & E3)].
        * left. exists P. split; [exact HP|congruence].
        * right. destruct (instp rec_prop_commit_write _ _ _ _ _ _ _ H HP E1 E2) as ([= <- <-] & Ha & Hb).
          exists P, n, o. auto.
      + apply rec_cfg_kinds in H. destruct H.
      + apply rec_master_only_putcfg in H. destruct H.
      + apply rec_conn_only_rel in H. destruct H.
    - apply reconcile_createprop in H. destruct H as (T & _ & _ & _ & _ & _ & _ & _ & _ & _ & [(c & ->)|(ri & ->)]); discriminate Hd.
  Qed.

  (* the commit step of a run of complete invocations finds Committed.Index = PrevIndex *)
  Lemma commit_from_prev (w : world) t i (P : prop) :
    reach w -> J_inv w -> props w !! (t, i) = Some P -> p_commit P = Some Doing -> p_apply P = None -> p_abort P = None ->
    exists C : config, cfgs w !! t = Some C /\ c_committed C = p_prev P.
  Proof.
    intros Hr HJ HP Hc Ha Hb.
    assert (Hd : p_init P = Some Done).
    { eapply (inst phase_linked); [exact Hr|exact HP|]. right. left. rewrite Hc. eexists; reflexivity. }
    destruct (ci_reg _ (inst C_inv_reach _ Hr) _ _ _ HP Hd) as (C & HC & _). exists C. split; [exact HC|].
    destruct (inst commit_guard_reach w Hr t i P C HP HC Hc Hb Ha) as [He|Hle]; [exact He|].
    assert (Hne : p_commit P <> Some Done) by congruence.
    pose proof (HJ t i P C HP HC Ha Hb Hne). lia.
  Qed.
End Merged.

(** * On the executable instance *)
From OC Require Import Base.Bytes Model.P2Pure Model.P2Inst Proofs.P2_ConvergeEx Proofs.P2PureApplyInst Proofs.P2PureReachLabels
     Proofs.P2PureAtomicAll.

Lemma x_run_snoc (ls : list Label) (l : Label) : x_run (ls ++ [l]) = p2_step (x_run ls) l.
Proof. unfold x_run. rewrite fold_left_app. reflexivity. Qed.

Lemma J_run (ls : list Label) : completes p2_init ls -> J_inv (x_run ls).
Proof.
  induction ls as [|l ls IH] using rev_ind; intros Hc.
  - exact J_init.
  - apply completes_app in Hc. destruct Hc as [Hc1 [Hc2 _]]. rewrite x_run_snoc.
    apply (J_step candidate candidate_rb rollback_of overlay commit_merge payload record_applied touched restore
             resync_payload doc_ok dev_apply stamp [] [] []); [apply x_run_reach|exact (IH Hc1)|exact Hc2].
Qed.

Theorem committed_means_merged_holds (ls : list Label) : completes p2_init ls -> committed_means_merged ls.
Proof.
  induction ls as [|l ls IH] using rev_ind; intros Hc t i P HP Hd.
  - unfold x_run in HP. cbn in HP. rewrite lookup_empty in HP. discriminate HP.
  - pose proof Hc as Hc0. apply completes_app in Hc0. destruct Hc0 as [Hc1 _]. rewrite x_run_snoc in HP.
    destruct (done_step candidate candidate_rb rollback_of overlay commit_merge payload record_applied touched restore
                resync_payload doc_ok dev_apply stamp [] [] [] (x_run ls) l t i P HP Hd)
      as [(P1 & HP1 & Hd1)|(P0 & n & o & -> & HP0 & E1 & E2 & E3)].
    + destruct (IH Hc1 t i P1 HP1 Hd1) as (ls1 & ls2 & n & o & P0 & C0 & -> & H).
      exists ls1, (ls2 ++ [l]), n, o, P0, C0. split; [|exact H]. rewrite <- app_assoc. reflexivity.
    + destruct (commit_from_prev candidate candidate_rb rollback_of overlay commit_merge payload record_applied touched restore
                  resync_payload doc_ok dev_apply stamp [] [] [] (x_run ls) t i P0 (x_run_reach ls) (J_run ls Hc1) HP0 E1 E2 E3)
        as (C0 & HC0 & E4).
      exists ls, [], n, o, P0, C0. repeat split; auto.
Qed.

Theorem all_or_none_values (ls : list Label) :
  labels_wfb ls = true -> completes p2_init ls -> i_reconcile_nothing (x_run ls) ->
  forall i (T : Txn), txs (x_run ls) !! i = Some T ->
    (forall t, In t (default [] (t_props T)) ->
       exists (P : Prop2) (C : Cfg), props (x_run ls) !! (t, i) = Some P /\ p_commit P = Some Done /\ cfgs (x_run ls) !! t = Some C /\
         forall c p u, p_details P = PChange c -> In (p, u) c -> pv_deleted u = false ->
           In (p, pv_val u) (live (view overlay C)) \/
           exists ls1 ls2 n o, ls = ls1 ++ LRec (CtlProp (t, i)) n o :: ls2 /\
                               touched_in (x_run (ls1 ++ [LRec (CtlProp (t, i)) n o])) ls2 t p) \/
    ((forall t P, props (x_run ls) !! (t, i) = Some P -> p_commit P = None) /\
     forall ls1 ls2 t n o t' (C C' : Cfg), ls = ls1 ++ LRec (CtlProp (t, i)) n o :: ls2 ->
       cfgs (x_run ls1) !! t' = Some C -> cfgs (p2_step (x_run ls1) (LRec (CtlProp (t, i)) n o)) !! t' = Some C' ->
       live (view overlay C') = live (view overlay C)).
Proof.
  intros Hw Hc Hfix. exact (all_or_none_values_partial ls Hw Hc Hfix (committed_means_merged_holds ls Hc)).
Qed.

(* Proofs for Model/PanicSkel.v: no modelled northbound handler reaches a Panic outcome on a
   request that is decodable from the wire. *)
From Coq Require Import List NArith ZArith Bool Lia.
From OC Require Import Base.Bytes Model.PanicSkel.
Import ListNotations.
Open Scope N_scope.

Definition np {A} (o : outcome A) : Prop := is_panic o = false.

Lemma np_ok {A} (a : A) : np (Ok a).  Proof. reflexivity. Qed.
Lemma np_err {A} c : np (@Err A c).  Proof. reflexivity. Qed.

Lemma np_bind {A B} (o : outcome A) (k : A -> outcome B) :
  np o -> (forall a, o = Ok a -> np (k a)) -> np (bind o k).
Proof. destruct o as [a|c|w]; cbn; intros Ho Hk; [apply Hk; reflexivity | reflexivity | discriminate]. Qed.

Ltac np_step :=
  match goal with
  | |- np (Ok _) => apply np_ok
  | |- np (Err _) => apply np_err
  | |- np (bind _ _) => apply np_bind; [| intros ? ?]
  | |- np (if ?b then _ else _) => destruct b eqn:?
  end.

(* ------------------------------------------------------------------ slices and searches *)
Lemma slice_np s lo hi : (0 <= lo)%Z -> (lo <= hi)%Z -> (hi <= zlen s)%Z -> np (slice s lo hi).
Proof.
  intros H1 H2 H3. unfold slice.
  destruct (0 <=? lo)%Z eqn:E1; [| apply Z.leb_gt in E1; lia].
  destruct (lo <=? hi)%Z eqn:E2; [| apply Z.leb_gt in E2; lia].
  destruct (hi <=? zlen s)%Z eqn:E3; [| apply Z.leb_gt in E3; lia].
  reflexivity.
Qed.

Lemma zlen_nonneg s : (0 <= zlen s)%Z.  Proof. unfold zlen; lia. Qed.
Lemma zlen_cons c s : zlen (c :: s) = (zlen s + 1)%Z.  Proof. unfold zlen; cbn [List.length]; lia. Qed.
Lemma zlen_app a b : zlen (a ++ b) = (zlen a + zlen b)%Z.  Proof. unfold zlen; rewrite app_length; lia. Qed.

Lemma last_index_byte_spec c s i :
  last_index_byte c s = Some i -> (i < List.length s)%nat /\ nth i s 0 = c.
Proof.
  revert i; induction s as [|x s IH]; intros i; cbn; [discriminate|].
  destruct (last_index_byte c s) as [j|] eqn:E.
  - intros [= <-]. destruct (IH j eq_refl) as [H1 H2]. split; [lia | exact H2].
  - destruct (x =? c) eqn:Ex; [|discriminate]. intros [= <-]. apply N.eqb_eq in Ex. split; [lia | exact Ex].
Qed.

Lemma zlast_index_range c s : (-1 <= zlast_index c s < zlen s)%Z.
Proof.
  unfold zlast_index, zlen. destruct (last_index_byte c s) as [i|] eqn:E.
  - apply last_index_byte_spec in E. lia.
  - pose proof (Nat2Z.is_nonneg (List.length s)). lia.
Qed.

Lemma index_byte_spec c s i : index_byte c s = Some i -> (i < List.length s)%nat.
Proof.
  revert i; induction s as [|x s IH]; intros i; cbn; [discriminate|].
  destruct (x =? c); [intros [= <-]; lia|].
  destruct (index_byte c s) as [j|]; cbn; [|discriminate]. intros [= <-]. specialize (IH j eq_refl). lia.
Qed.

Lemma last_index_head c s : last_index_byte c (c :: s) <> None.
Proof. cbn. destruct (last_index_byte c s); [discriminate|]. rewrite N.eqb_refl. discriminate. Qed.

Lemma zlast_index_head c s : (0 <= zlast_index c (c :: s))%Z.
Proof.
  unfold zlast_index. destruct (last_index_byte c (c :: s)) eqn:E; [lia|].
  exfalso; exact (last_index_head c s E).
Qed.

(* ------------------------------------------------------------------ index matches are bracketed *)
Definition bracketed (m : str) : Prop := exists inner, m = c_lbr :: inner ++ [c_rbr].

Lemma index_matches_aux_bracketed cur s : Forall bracketed (index_matches_aux cur s).
Proof.
  revert cur; induction s as [|c s IH]; intros cur; cbn; [constructor|].
  destruct cur as [acc|].
  - destruct (c =? c_rbr); [constructor; [exists (rev acc); reflexivity | apply IH]|].
    destruct (c =? c_nl); apply IH.
  - destruct (c =? c_lbr); apply IH.
Qed.

Lemma nth_last {A} (l : list A) (x d : A) : nth (List.length l) (l ++ [x]) d = x.
Proof. induction l; cbn; auto. Qed.

Lemma extract_one_np m : bracketed m -> np (extract_one m).
Proof.
  intros [inner ->]. unfold extract_one.
  set (m := c_lbr :: inner ++ [c_rbr]).
  assert (Hlen : zlen m = (zlen inner + 2)%Z) by (unfold m; rewrite zlen_cons, zlen_app; unfold zlen; cbn; lia).
  pose proof (zlen_nonneg inner) as Hin.
  destruct (zlast_index c_eq m <? 0)%Z eqn:Eneg.
  - np_step; [apply slice_np; lia | np_step].
  - apply Z.ltb_ge in Eneg.
    unfold zlast_index in *. destruct (last_index_byte c_eq m) as [i|] eqn:E; [|lia].
    destruct (last_index_byte_spec _ _ _ E) as [Hi Hn].
    assert (i <> 0)%nat by (intros ->; unfold m in Hn; cbn in Hn; discriminate).
    assert (i <> S (List.length inner))%nat.
    { intros ->. unfold m in Hn. cbn [nth] in Hn. rewrite nth_last in Hn. discriminate. }
    assert (List.length m = S (S (List.length inner))) by (unfold m; cbn; rewrite app_length; cbn; lia).
    unfold zlen in *.
    np_step; [apply slice_np; unfold zlen; lia|].
    np_step; [apply slice_np; unfold zlen; lia | np_step].
Qed.

Lemma extract_all_np ms : Forall bracketed ms -> np (extract_all ms).
Proof.
  induction 1 as [|m ms Hm _ IH]; cbn; [apply np_ok|].
  np_step; [apply extract_one_np; exact Hm|]. np_step; [exact IH | np_step].
Qed.

Lemma extract_index_names_np path : np (extract_index_names path).
Proof. apply extract_all_np, index_matches_aux_bracketed. Qed.

Lemma last_elem_np {A} (l : list A) : l <> [] -> np (last_elem l).
Proof.
  intros H. unfold last_elem. destruct (rev l) eqn:E; [|apply np_ok].
  exfalso. apply H. rewrite <- (rev_involutive l), E. reflexivity.
Qed.

(* ------------------------------------------------------------------ path text *)
Definition all_some {A} (l : list (option A)) : bool := forallb (fun o => match o with Some _ => true | None => false end) l.

Lemma str_path_elem_np es : all_some es = true -> np (str_path_elem es).
Proof.
  induction es as [|[e|] es IH]; cbn; intros H; [apply np_ok | | discriminate].
  np_step; [apply IH; exact H | np_step].
Qed.

Lemma str_path_np p : opath_ok p = true -> np (str_path p).
Proof.
  destruct p as [p|]; cbn; [|intros; apply np_ok]. unfold elems_ok. intros H.
  destruct (p_elem p) eqn:E; [destruct (p_element p); apply np_ok|].
  apply str_path_elem_np. exact H.
Qed.

Definition starts_slash (s : str) : Prop := exists r, s = c_slash :: r.

Lemma str_path_elem_slash es s : es <> [] -> str_path_elem es = Ok s -> starts_slash s.
Proof.
  destruct es as [|[e|] es]; cbn; [congruence | | discriminate]. intros _.
  destruct (str_path_elem es); cbn; [|discriminate|discriminate]. intros [= <-]. eexists; reflexivity.
Qed.

Lemma str_path_slash p s : str_path p = Ok s -> starts_slash s.
Proof.
  destruct p as [p|]; cbn; [|intros [= <-]; exists []; reflexivity].
  destruct (p_elem p) eqn:E.
  - destruct (p_element p); intros [= <-]; eexists; reflexivity.
  - rewrite <- E. apply str_path_elem_slash. rewrite E; discriminate.
Qed.

Lemma full_path_np prefix p : opath_ok prefix = true -> opath_ok p = true -> np (full_path prefix p).
Proof.
  intros H1 H2. unfold full_path. np_step; [apply str_path_np; exact H1|].
  np_step; [apply str_path_np; exact H2 | np_step].
Qed.

Lemma full_path_slash prefix p s : full_path prefix p = Ok s -> starts_slash s.
Proof.
  unfold full_path. destruct (str_path prefix) as [pp| |] eqn:E1; cbn; [|discriminate|discriminate].
  destruct (str_path p) as [s0| |] eqn:E2; cbn; [|discriminate|discriminate].
  intros [= <-]. destruct (eqb_str pp root).
  - eapply str_path_slash; eassumption.
  - destruct (str_path_slash _ _ E1) as [r ->]. exists (r ++ s0). reflexivity.
Qed.

(* ------------------------------------------------------------------ pkg/utils/path *)
Lemma find_path_from_model_np path rw exact : np (find_path_from_model path rw exact).
Proof.
  unfold find_path_from_model. destruct (lookup_rw _ rw); [apply np_ok|].
  destruct exact; [apply np_err|].
  np_step.
  - destruct (suffixb [c_rbr] path); [|apply np_ok].
    np_step; [apply extract_index_names_np|].
    destruct a as [|x l]; [apply np_ok|]. np_step; [apply last_elem_np; discriminate | np_step].
  - np_step; [np_step | np_step].
Qed.

Lemma get_parent_path_np path : np (get_parent_path path).
Proof.
  unfold get_parent_path. pose proof (zlast_index_range c_slash path).
  destruct (zlast_index c_slash path <=? 0)%Z eqn:E; [apply np_ok|].
  apply Z.leb_gt in E. apply slice_np; lia.
Qed.

Lemma check_key_value_np path r v : np (dec_guard v) -> np (check_key_value path r v).
Proof.
  intros Hdg. unfold check_key_value. np_step; [apply extract_index_names_np|].
  destruct a as [|x l]; [apply np_ok|].
  np_step; [np_step|]. np_step; [np_step|].
  np_step; [destruct (nv_type v =? 5); [exact Hdg | apply np_ok]|].
  np_step; [apply get_parent_path_np|].
  np_step.
  - pose proof (zlast_index_range c_slash a0). apply slice_np; lia.
  - np_step; [apply extract_index_names_np|]. np_step; np_step.
Qed.

Lemma json_base_path_np path : np (json_base_path path).
Proof.
  unfold json_base_path. destruct ((1 <? zlen path)%Z && suffixb [c_slash] path) eqn:E; [|apply np_ok].
  apply andb_true_iff in E. destruct E as [E _]. apply Z.ltb_lt in E. apply slice_np; lia.
Qed.

(* ------------------------------------------------------------------ values *)
Lemma leaf_list_collect_np l a :
  forallb (fun o => match o with Some s => scalar_ok s | None => false end) l = true -> np (leaf_list_collect l a).
Proof.
  revert a; induction l as [|[s|] l IH]; intros a; cbn; intros H; [apply np_ok | | apply np_ok].
  apply andb_true_iff in H. destruct H as [Hs Hl].
  destruct s as [x|x|z|n|b|b|[[d p]|]|f|]; try (apply IH; exact Hl); try apply np_err.
  - destruct (max_decimal_precision <? p); [apply np_err | apply IH; exact Hl].
  - cbn in Hs. discriminate.
Qed.

Lemma handle_leaf_list_np l :
  forallb (fun o => match o with Some s => scalar_ok s | None => false end) l = true -> np (handle_leaf_list l).
Proof.
  intros H. unfold handle_leaf_list. destruct (has_nil_elem l); [apply np_err|].
  np_step; [apply leaf_list_collect_np; exact H|].
  destruct (la_str a), (la_int a), (la_uint a), (la_bool a), (la_bytes a), (la_dec a), (la_float a);
    first [apply np_ok | apply np_err].
Qed.

Lemma to_native_np v : match v with Some t => tval_ok t = true | None => True end -> np (to_native v).
Proof.
  destruct v as [[s|j|l]|]; cbn; intros H; try apply np_err.
  - destruct s as [x|x|z|n|b|b|[[d p]|]|[|]|]; first [apply np_ok | apply np_err | discriminate | idtac].
    destruct (max_decimal_precision <? p); [apply np_err | apply np_ok].
  - apply handle_leaf_list_np. exact H.
Qed.

(* the guarded read of TypeOpts[0] never fails, so the conversion at a model entry is the conversion *)
Lemma to_native_at_eq r v : to_native_at r v = to_native v.
Proof.
  unfold to_native_at. destruct (reads_type_opts v); [|reflexivity].
  destruct (rw_opts r); reflexivity.
Qed.

(* ... and the guard has content *)
Example type_opt0_needs_guard : type_opt0 false [] = Panic w_index /\ forall opts, np (type_opt0 true opts).
Proof. split; [reflexivity | intros [|x o]; reflexivity]. Qed.

(* a value accepted by the conversion has a precision strDecimal64 can divide by *)
Lemma to_native_dec_guard v nv : to_native v = Ok nv -> np (dec_guard nv).
Proof.
  destruct v as [[s|j|l]|]; cbn; try discriminate.
  - destruct s as [x|x|z|n|b|b|[[d p]|]|[|]|]; try discriminate; try (intros [= <-]; reflexivity).
    destruct (max_decimal_precision <? p) eqn:E; [discriminate|]. intros [= <-].
    apply N.ltb_ge in E. unfold max_decimal_precision in E. unfold dec_guard. cbn.
    assert (Hp : (Z.of_N (p mod 256) mod 256 < 64)%Z).
    { rewrite N.mod_small by lia. rewrite Z.mod_small by lia. lia. }
    apply Z.ltb_lt in Hp. rewrite Hp. reflexivity.
  - unfold handle_leaf_list. destruct (has_nil_elem l); [discriminate|].
    destruct (leaf_list_collect l la_empty) as [a| |]; cbn; try discriminate.
    destruct (la_str a), (la_int a), (la_uint a), (la_bool a), (la_bytes a), (la_dec a), (la_float a);
      try discriminate; intros [= <-]; reflexivity.
Qed.

(* ------------------------------------------------------------------ Set *)
Lemma do_delete_np ck rw prefix p : opath_ok prefix = true -> opath_ok p = true -> np (do_delete ck rw prefix p).
Proof.
  intros H1 H2. unfold do_delete. np_step; [apply full_path_np; assumption|].
  np_step; [apply find_path_from_model_np|].
  np_step.
  - destruct a0 as [[|] [rp|]]; try apply np_ok.
    destruct (rw_iskey rp && negb (suffixb [c_rbr] a)); [|apply np_ok].
    destruct (full_path_slash _ _ _ H) as [r ->].
    pose proof (zlast_index_head c_slash r). pose proof (zlast_index_range c_slash (c_slash :: r)).
    apply slice_np; lia.
  - destruct ck; [|apply np_ok]. np_step; [apply extract_index_names_np|]. np_step; np_step.
Qed.

Lemma do_update_np rw prefix u : opath_ok prefix = true -> update_ok u = true -> np (do_update rw prefix u).
Proof.
  intros H1 H2. destruct u as [u|]; [|discriminate]. cbn in H2. apply andb_true_iff in H2. destruct H2 as [Hp Hv].
  unfold do_update. np_step; [apply full_path_np; assumption|].
  assert (Htyped : np (r <- find_path_from_model a rw true ;;
                       match r with
                       | (_, Some rp) => nv <- to_native_at rp (u_val u) ;; _ <- check_key_value a rp nv ;; Ok [a]
                       | (_, None) => Panic w_nil
                       end)).
  { np_step; [apply find_path_from_model_np|].
    unfold find_path_from_model in H0. destruct (lookup_rw (anonymize_indices a) rw) eqn:El; [|discriminate].
    injection H0 as <-. rewrite to_native_at_eq. np_step; [apply to_native_np; destruct (u_val u); [exact Hv | exact I]|].
    np_step; [|np_step]. apply check_key_value_np. eapply to_native_dec_guard; eassumption. }
  destruct (u_val u) as [[s|j|l]|]; try exact Htyped.
  np_step; [apply json_base_path_np|]. destruct (u_plugin u); [apply np_err | apply np_ok].
Qed.

Lemma resolve_target_np e ov id : np (resolve_target e ov id).
Proof.
  unfold resolve_target. destruct (find_target e id); [|apply np_err].
  np_step.
  - destruct (lookup_override ov id) as [[tv|]|]; first [apply np_ok | apply np_err].
  - destruct (find_plugin e (fst a) (snd a)); [apply np_ok | apply np_err].
Qed.

Lemma get_tinfo_np e ov ts id : np (get_tinfo e ov ts id).
Proof.
  unfold get_tinfo. destruct (find _ ts); [apply np_ok|]. np_step; [apply resolve_target_np | np_step].
Qed.

Lemma set_deletes_np e ov prefix ds : forall ts,
  opath_ok prefix = true -> forallb opath_ok ds = true -> np (set_deletes e ov prefix ds ts).
Proof.
  induction ds as [|d ds IH]; intros ts Hp Hd; cbn; [apply np_ok|].
  apply andb_true_iff in Hd. destruct Hd as [Hd Hds].
  np_step; [apply get_tinfo_np|]. destruct a as [t ts1].
  np_step; [apply do_delete_np; assumption|]. apply IH; assumption.
Qed.

Lemma set_updates_np e ov prefix us : forall ts,
  opath_ok prefix = true -> forallb update_ok us = true -> np (set_updates e ov prefix us ts).
Proof.
  induction us as [|u us IH]; intros ts Hp Hu; cbn; [apply np_ok|].
  apply andb_true_iff in Hu. destruct Hu as [Hu Hus].
  np_step; [destruct u; [apply np_ok | discriminate]|].
  np_step; [apply get_tinfo_np|]. destruct a0 as [t ts1].
  np_step; [apply do_update_np; assumption|]. apply IH; assumption.
Qed.

Lemma extract_ext_np id exts : forallb ext_ok exts = true -> np (extract_ext id exts).
Proof.
  induction exts as [|x exts IH]; cbn; intros H; [apply np_ok|].
  apply andb_true_iff in H. destruct H as [Hx Hxs].
  destruct x as [[[i p]|]|]; [|discriminate|apply IH; exact Hxs].
  destruct (i =? id); [apply np_ok | apply IH; exact Hxs].
Qed.

Lemma get_overrides_np exts : forallb ext_ok exts = true -> np (get_overrides exts).
Proof.
  intros H. unfold get_overrides. np_step; [apply extract_ext_np; exact H|].
  destruct a as [[| |]|]; first [apply np_ok | apply np_err].
Qed.

Lemma get_strategy_np exts : forallb ext_ok exts = true -> np (get_strategy exts).
Proof.
  intros H. unfold get_strategy. np_step; [apply extract_ext_np; exact H|].
  destruct a as [[| |]|]; first [apply np_ok | apply np_err].
Qed.

Lemma set_wire_ok_parts r : set_wire_ok r = true ->
  opath_ok (s_prefix r) = true /\ forallb opath_ok (s_delete r) = true /\
  forallb update_ok (s_replace r) = true /\ forallb update_ok (s_update r) = true /\ forallb ext_ok (s_ext r) = true.
Proof. unfold set_wire_ok. rewrite !andb_true_iff. tauto. Qed.

Theorem set_handler_total : forall e r, set_wire_ok r = true -> np (set_handler e r).
Proof.
  intros e r H. destruct (set_wire_ok_parts r H) as (Hp & Hd & Hr & Hu & Hx).
  unfold set_handler.
  np_step; [apply get_overrides_np; exact Hx|].
  np_step; [apply get_strategy_np; exact Hx|].
  np_step; [np_step|].
  np_step; [apply set_deletes_np; assumption|].
  np_step; [apply set_updates_np; assumption|].
  np_step; [apply set_updates_np; assumption|].
  np_step; [np_step|]. np_step; np_step.
Qed.

(* the hypothesis has content: a SetRequest with a nil path element (which no decoder produces) panics *)
Definition nil_elem_req : set_req :=
  Build_set_req None [Some (Build_gpath (B "t1") [None] [])] [] [] [].

Lemma set_handler_needs_wire_ok :
  exists e r, set_wire_ok r = false /\
              set_handler e r = Panic w_nil.
Proof.
  exists (Build_env [Build_target (B "t1") (B "m") (B "1")] [Build_plugin (B "m") (B "1") []] 0), nil_elem_req.
  split; vm_compute; reflexivity.
Qed.

(* ------------------------------------------------------------------ Subscribe and the scalar-only entry points *)
Theorem subscribe_handler_total : forall ms b, np (subscribe_handler b ms).
Proof.
  induction ms as [|m ms IH]; intros b; cbn; [apply np_ok|].
  np_step; [|apply IH].
  destruct m as [prefix subs| |]; cbn; [|destruct b; first [apply np_ok | apply np_err] | apply np_err].
  destruct b; [apply np_err|].
  destruct (negb (eqb_str (path_target prefix) [])); [apply np_ok|].
  destruct (existsb _ subs); first [apply np_ok | apply np_err].
Qed.

Theorem misc_handlers_total : forall i,
  np capabilities_handler /\ np list_models_handler /\ np (rollback_handler i) /\ np admin_store_handler.
Proof. intros i. repeat split. Qed.

(* ------------------------------------------------------------------ Get *)
Lemma forall_guard_np {A} (f : A -> outcome unit) l : (forall x, In x l -> np (f x)) -> np (forall_guard f l).
Proof.
  induction l as [|x l IH]; cbn; intros H; [apply np_ok|].
  np_step; [apply H; left; reflexivity | apply IH; intros y Hy; apply H; right; exact Hy].
Qed.

(* MustCompile on the text MatchWildcardRegexp builds from the query *)
Definition regexp_ok : Prop := forall q, np (must_compile (wildcard_regexp q false)).

Lemma stored_ok_guards v : stored_ok v = true -> sv_deleted v = false ->
  np (tree_guard (sv_path v)) /\ np (json_leaf_guard (sv_val v)) /\ np (leaf_guard (sv_val v)).
Proof.
  unfold stored_ok. intros H Hd. rewrite Hd in H. cbn in H. apply andb_true_iff in H. destruct H as [H1 H2].
  apply negb_true_iff in H1. apply negb_true_iff in H2. split; [exact H1|]. split; [exact H2|].
  unfold json_leaf_guard in H2. destruct (leaf_guard (sv_val v)); [reflexivity | reflexivity | discriminate].
Qed.

Lemma get_update_np c enc q : regexp_ok -> forallb stored_ok (cf_values c) = true -> np (get_update c enc q).
Proof.
  intros Hre Hc. unfold get_update. np_step; [apply Hre|].
  set (sel := filter _ (cf_values c)).
  assert (Hsel : forall v, In v sel -> np (tree_guard (sv_path v)) /\ np (json_leaf_guard (sv_val v)) /\ np (leaf_guard (sv_val v))).
  { intros v Hv. apply filter_In in Hv. destruct Hv as [Hin Hf]. apply andb_true_iff in Hf. destruct Hf as [_ Hd].
    apply negb_true_iff in Hd. apply stored_ok_guards; [|exact Hd].
    rewrite forallb_forall in Hc. apply Hc. exact Hin. }
  destruct sel as [|v0 sel0] eqn:Esel; [apply np_ok|]. rewrite <- Esel in *. clear Esel.
  np_step.
  - np_step; [|np_step]. apply forall_guard_np. intros v Hv. destruct (Hsel v Hv) as (H1 & H2 & _).
    np_step; [exact H1 | exact H2].
  - np_step; [|np_step].
    np_step; [|np_step]. apply forall_guard_np. intros v Hv. destruct (Hsel v Hv) as (_ & _ & H3). exact H3.
Qed.

Lemma find_config_ok st id ty ver c : state_ok st = true -> find_config st id ty ver = Some c -> forallb stored_ok (cf_values c) = true.
Proof.
  unfold state_ok, find_config. intros Hst Hf. apply find_some in Hf. destruct Hf as [Hin _].
  rewrite forallb_forall in Hst. apply Hst. exact Hin.
Qed.

Lemma add_target_np e st ov id : np (add_target e st ov id).
Proof.
  unfold add_target. np_step; [apply resolve_target_np|]. destruct (find_config _ _ _ _); [apply np_ok | apply np_err].
Qed.

Lemma add_target_ok e st ov id c : state_ok st = true -> add_target e st ov id = Ok c -> forallb stored_ok (cf_values c) = true.
Proof.
  unfold add_target. intros Hst. destruct (resolve_target e ov id) as [p| |]; cbn; [|discriminate|discriminate].
  destruct (find_config st id (pl_type p) (pl_version p)) eqn:E; [|discriminate]. intros [= <-].
  eapply find_config_ok; eassumption.
Qed.

Definition seen_ok (seen : list (str * config)) : Prop := forall sc, In sc seen -> forallb stored_ok (cf_values (snd sc)) = true.

Local Arguments str_path : simpl never.
Local Arguments add_target : simpl never.
Local Arguments prefix_has_elems : simpl never.

Lemma get_paths_np e st ov prefix ps : forall seen acc,
  state_ok st = true -> opath_ok prefix = true -> forallb opath_ok ps = true -> all_some ps = true -> seen_ok seen ->
  np (get_paths e st ov prefix ps seen acc) /\
  (forall seen' qs, get_paths e st ov prefix ps seen acc = Ok (Some (seen', qs)) -> seen_ok seen').
Proof.
  induction ps as [|[p|] ps IH]; intros seen acc Hst Hpf Hps Hall Hseen; cbn.
  - split; [apply np_ok | intros ? ? [= <- _]; exact Hseen].
  - cbn in Hps, Hall. apply andb_true_iff in Hps. destruct Hps as [Hp Hps].
    match goal with |- context [if ?b then Ok None else _] => destruct b end; [split; [apply np_ok | discriminate]|].
    match goal with |- context [if eqb_str ?x [] then Err c_invalid else _] => set (id := x) end.
    destruct (eqb_str id []); [split; [apply np_err | discriminate]|].
    destruct (find (fun sc => eqb_str (fst sc) id) seen) eqn:Ef.
    + cbn. assert (Hs : np (str_path (Some p))) by (apply str_path_np; exact Hp).
      destruct (str_path (Some p)) as [s| |]; cbn; [|split; [reflexivity|discriminate]|discriminate].
      destruct (prefix_has_elems prefix).
      * assert (Hpp : np (str_path prefix)) by (apply str_path_np; exact Hpf).
        destruct (str_path prefix) as [pp| |]; cbn; [|split; [reflexivity|discriminate]|discriminate].
        apply IH; assumption.
      * cbn. apply IH; assumption.
    + pose proof (add_target_np e st ov id) as Hat.
      destruct (add_target e st ov id) as [c| |] eqn:Ea; cbn; [|split; [reflexivity|discriminate]|discriminate].
      assert (Hseen' : seen_ok ((id, c) :: seen)).
      { intros sc [<-|Hin]; [cbn; eapply add_target_ok; eassumption | apply Hseen; exact Hin]. }
      assert (Hs : np (str_path (Some p))) by (apply str_path_np; exact Hp).
      destruct (str_path (Some p)) as [s| |]; cbn; [|split; [reflexivity|discriminate]|discriminate].
      destruct (prefix_has_elems prefix).
      * assert (Hpp : np (str_path prefix)) by (apply str_path_np; exact Hpf).
        destruct (str_path prefix) as [pp| |]; cbn; [|split; [reflexivity|discriminate]|discriminate].
        apply IH; assumption.
      * cbn. apply IH; assumption.
  - cbn in Hall. discriminate.
Qed.

Lemma get_updates_np seen enc qs : forall d, regexp_ok -> seen_ok seen -> np (get_updates seen enc qs d).
Proof.
  induction qs as [|[id q] qs IH]; intros d Hre Hseen; cbn; [apply np_ok|].
  destruct (find (fun sc => eqb_str (fst sc) id) seen) as [[i c]|] eqn:Ef; [|apply IH; assumption].
  np_step; [|apply IH; assumption].
  apply get_update_np; [exact Hre|]. apply find_some in Ef. destruct Ef as [Hin _]. apply (Hseen _ Hin).
Qed.

Lemma get_wire_ok_parts r : get_wire_ok r = true ->
  opath_ok (g_prefix r) = true /\ forallb opath_ok (g_path r) = true /\ all_some (g_path r) = true /\ forallb ext_ok (g_ext r) = true.
Proof. unfold get_wire_ok, all_some. rewrite !andb_true_iff. tauto. Qed.

Lemma state_branch_np prefix ps : forall any, all_some ps = true ->
  np ((fix go (ps : list (option gpath)) (any : bool) : outcome bool :=
         match ps with
         | [] => if any then Err c_some else Ok true
         | None :: _ => Panic w_nil
         | Some p :: ps' =>
           let id := if eqb_str (p_target p) [] then path_target prefix else p_target p in
           if eqb_str id [] then Err c_invalid else go ps' true
         end) ps any).
Proof.
  induction ps as [|[p|] ps IH]; intros any H; cbn; [destruct any; reflexivity | | discriminate].
  destruct (eqb_str _ []); [reflexivity | apply IH; exact H].
Qed.

Theorem get_handler_total_partial : forall e st r,
  regexp_ok -> get_wire_ok r = true -> state_ok st = true -> np (get_handler e st r).
Proof.
  intros e st r Hre H Hst. destruct (get_wire_ok_parts r H) as (Hpf & Hps & Hall & Hx).
  unfold get_handler.
  np_step; [np_step|].
  np_step; [apply get_strategy_np; exact Hx|].
  np_step; [apply state_branch_np; exact Hall|].
  np_step.
  { pose proof (get_overrides_np (g_ext r) Hx) as Ho. destruct (get_overrides (g_ext r)); [exact Ho | reflexivity | exact Ho]. }
  destruct (get_paths_np e st a0 (g_prefix r) (g_path r) [] [] Hst Hpf Hps Hall) as [Hnp Hseen]; [intros sc []|].
  np_step; [exact Hnp|].
  destruct a1 as [[seen qs]|]; [|apply np_ok].
  specialize (Hseen _ _ H2).
  np_step.
  - destruct (g_path r); [|apply np_ok]. destruct (g_prefix r) as [pf|] eqn:Epf; [|apply np_ok].
    destruct (eqb_str (p_target pf) []); [apply np_err|].
    pose proof (add_target_np e st a0 (p_target pf)) as Hat.
    destruct (add_target e st a0 (p_target pf)) as [c| |] eqn:Ea; cbn; [|reflexivity|discriminate].
    assert (Hs : np (str_path (Some pf))) by (apply str_path_np; exact Hpf).
    destruct (str_path (Some pf)) as [s| |]; cbn; [|reflexivity|discriminate].
    np_step; [|np_step]. apply get_update_np; [exact Hre|]. eapply add_target_ok; eassumption.
  - np_step; [apply get_updates_np; assumption|]. np_step; np_step.
Qed.

(* small-scope sanity check of regexp_ok (the general statement is Proofs/PanicSkelRegexp.v): every query of at most 3 characters over the alphabet that matters
   (a wildcard star, dot, backslash, brackets, parenthesis, dollar, slash, a letter) compiles *)
Fixpoint words (alphabet : str) (n : nat) : list str :=
  match n with
  | O => [[]]
  | S k => [] :: flat_map (fun w => map (fun c => c :: w) alphabet) (words alphabet k)
  end.

Definition regexp_alphabet : str := B "a/.*\([]$".

Example regexp_ok_small_scope :
  forallb (fun q => negb (is_panic (must_compile (wildcard_regexp q false))) &&
                    negb (is_panic (must_compile (wildcard_regexp q true)))) (words regexp_alphabet 3) = true.
Proof. vm_compute. reflexivity. Qed.

(* ------------------------------------------------------------------ LeafSelectionQuery *)
Lemma lsq_updates_np rw prefix us : forall acc,
  opath_ok prefix = true -> forallb update_ok us = true -> np (lsq_updates rw prefix us acc).
Proof.
  induction us as [|u us IH]; intros acc Hp Hu; cbn; [apply np_ok|].
  apply andb_true_iff in Hu. destruct Hu as [Hu Hus].
  np_step; [apply do_update_np; assumption | apply IH; assumption].
Qed.

Lemma lsq_deletes_np rw prefix ds : forall acc,
  opath_ok prefix = true -> forallb opath_ok ds = true -> np (lsq_deletes rw prefix ds acc).
Proof.
  induction ds as [|d ds IH]; intros acc Hp Hd; cbn; [apply np_ok|].
  apply andb_true_iff in Hd. destruct Hd as [Hd Hds].
  np_step; [apply do_delete_np; assumption | apply IH; assumption].
Qed.

Lemma build_tree_guard_np vals : forallb stored_ok vals = true -> np (build_tree_guard vals).
Proof.
  intros H. unfold build_tree_guard. apply forall_guard_np. intros v Hv.
  unfold prune in Hv. apply filter_In in Hv. destruct Hv as [Hin Hf]. apply andb_true_iff in Hf. destruct Hf as [Hd _].
  apply negb_true_iff in Hd. rewrite forallb_forall in H. destruct (stored_ok_guards v (H v Hin) Hd) as (H1 & H2 & _).
  np_step; [exact H1 | exact H2].
Qed.

(* the paths a change context adds are live entries of the merged configuration: they have to be inside
   the tree builder's domain as well (tree_safe_updates); for typed updates they are instances of model
   paths with index values restricted by CheckKeyValue, for JSON updates they are the plugin's answer *)
Definition tree_safe_updates (e : env) (st : state) (r : lsq_req) : Prop :=
  forall c p cx ups ups' dels,
    find_config st (l_target r) (l_type r) (l_version r) = Some c ->
    find_plugin e (l_type r) (l_version r) = Some p -> l_ctx r = Some cx ->
    lsq_updates (pl_rw p) (s_prefix cx) (s_update cx) [] = Ok ups ->
    lsq_updates (pl_rw p) (s_prefix cx) (s_replace cx) ups = Ok ups' ->
    lsq_deletes (pl_rw p) (s_prefix cx) (s_delete cx) [] = Ok dels ->
    forallb stored_ok (lsq_merge (cf_values c) ups' dels) = true.

Theorem lsq_handler_total_partial : forall e st r,
  lsq_wire_ok r = true -> state_ok st = true -> tree_safe_updates e st r -> np (lsq_handler e st r).
Proof.
  intros e st r Hw Hst Hsafe. unfold lsq_handler.
  destruct (find_config st (l_target r) (l_type r) (l_version r)) as [c|] eqn:Ec; [|apply np_err].
  destruct (find_plugin e (l_type r) (l_version r)) as [p|] eqn:Ep; [|apply np_err].
  pose proof (find_config_ok _ _ _ _ _ Hst Ec) as Hc.
  unfold lsq_wire_ok in Hw.
  destruct (l_ctx r) as [cx|] eqn:Ecx.
  - destruct (set_wire_ok_parts cx Hw) as (Hp & Hd & Hr & Hu & Hx).
    destruct (0 <? List.length (s_update cx) + List.length (s_replace cx) + List.length (s_delete cx))%nat.
    + pose proof (lsq_updates_np (pl_rw p) (s_prefix cx) (s_update cx) [] Hp Hu) as H1.
      destruct (lsq_updates (pl_rw p) (s_prefix cx) (s_update cx) []) as [ups| |] eqn:E1; cbn; [|reflexivity|discriminate].
      pose proof (lsq_updates_np (pl_rw p) (s_prefix cx) (s_replace cx) ups Hp Hr) as H2.
      destruct (lsq_updates (pl_rw p) (s_prefix cx) (s_replace cx) ups) as [ups'| |] eqn:E2; cbn; [|reflexivity|discriminate].
      pose proof (lsq_deletes_np (pl_rw p) (s_prefix cx) (s_delete cx) [] Hp Hd) as H3.
      destruct (lsq_deletes (pl_rw p) (s_prefix cx) (s_delete cx) []) as [dels| |] eqn:E3; cbn; [|reflexivity|discriminate].
      destruct (forallb is_path_valid ups'); cbn; [|reflexivity].
      np_step; [|np_step]. apply build_tree_guard_np. eapply Hsafe; eauto.
    + cbn. np_step; [|np_step]. apply build_tree_guard_np. exact Hc.
  - cbn. np_step; [|np_step]. apply build_tree_guard_np. exact Hc.
Qed.

(* a LeafSelectionQuery without a change context needs no further assumption *)
Theorem lsq_handler_total_no_context : forall e st r,
  l_ctx r = None -> state_ok st = true -> np (lsq_handler e st r).
Proof.
  intros e st r Hn Hst. apply lsq_handler_total_partial; [unfold lsq_wire_ok; rewrite Hn; reflexivity | exact Hst |].
  intros c p cx ups ups' dels _ _ Hcx. rewrite Hn in Hcx. discriminate.
Qed.

(* ------------------------------------------------------------------ the hypotheses are satisfiable by non-trivial inputs *)
Definition ex_env : env :=
  Build_env [Build_target (B "t1") (B "devicesim") (B "1.0.0")]
            [Build_plugin (B "devicesim") (B "1.0.0")
                          [Build_rwpath (B "/list[k=*]/k") true (B "k") []; Build_rwpath (B "/list[k=*]/v") false [] []; Build_rwpath (B "/foo") false [] []]] 0.

Definition ex_set : set_req :=
  Build_set_req None
    [Some (Build_gpath (B "t1") [Some (Build_elem (B "list") [(B "k", B "a]")])] [])]
    []
    [Some (Build_update (Some (Build_gpath (B "t1") [Some (Build_elem (B "list") [(B "k", B "k1")]); Some (Build_elem (B "k") [])] []))
                        (Some (TScalar (SStr (B "k1")))) (PPaths []));
     Some (Build_update (Some (Build_gpath (B "t1") [Some (Build_elem (B "foo") [])] [])) (Some (TScalar (SFloat true))) (PPaths []))]
    [ERegistered (Some (111, XStrategy false))].

Example ex_set_wire_ok : set_wire_ok ex_set = true.
Proof. vm_compute. reflexivity. Qed.

(* the delete of list[k=a]] (the shape that used to slice out of range) is refused with a status *)
Example ex_set_outcome : set_handler ex_env ex_set = Err c_invalid.
Proof. vm_compute. reflexivity. Qed.

(* without that delete the request reaches the NaN float, which is refused with a status as well *)
Example ex_set_nan_outcome :
  set_handler ex_env (Build_set_req None [] [] (s_update ex_set) (s_ext ex_set)) = Err c_internal.
Proof. vm_compute. reflexivity. Qed.

Definition ex_state : state :=
  [Build_config (B "t1-devicesim-1.0.0")
     [Build_stored (B "/list[k=k1]/k") false (mk_nval vt_string 2 [] None);
      Build_stored (B "/cont/lli") false (mk_nval vt_ll_int 4 [64; 0; 0; 1; 1; 3; 0]%Z None);
      Build_stored (B "/a=b/c") true (mk_nval 0 0 [] None)]].

Example ex_state_ok : state_ok ex_state = true.
Proof. vm_compute. reflexivity. Qed.

Definition ex_get : get_req :=
  Build_get_req (Some (Build_gpath (B "t1") [] [])) [Some (Build_gpath [] [Some (Build_elem (B "list") [(B "k", B "a(")])] [])] enc_json 0 [].

Example ex_get_wire_ok : get_wire_ok ex_get = true.
Proof. vm_compute. reflexivity. Qed.

Example ex_get_outcome : get_handler ex_env ex_state ex_get = Ok true.
Proof. vm_compute. reflexivity. Qed.

(* what state_ok excludes: a live entry the tree builder cannot slice (it passes IsPathValid) *)
Example tree_guard_unsafe_valid_path :
  is_path_valid (B "/list[k=a]]b=c]/v") = true /\ tree_guard (B "/list[k=a]]b=c]/v") = Panic w_slice.
Proof. split; vm_compute; reflexivity. Qed.

(* the allocation guard of LeafSelectionQuery has content: without it the first merged update panics on a
   configuration that exists but holds no value *)
Example merge_writes_needs_allocation :
  merge_writes false [] [B "/foo"] = Panic w_nilmap /\ forall vals ups, merge_writes true vals ups = Ok tt.
Proof. split; [reflexivity | intros; reflexivity]. Qed.

(* C06, value level: the configuration store's write (store() + clearDeletedAncestors) by lookup. *)
From Coq Require Import List Arith NArith Bool Lia Permutation.
From OC Require Import Base.Bytes Model.P2Pure Proofs.P2PureRollbackBase Proofs.P2PureRollbackPrune Proofs.P2PureRollbackApply.
Import ListNotations.
Open Scope N_scope.

(* the stored tombstone at [k] is removed on behalf of the written live value [v] *)
Definition clearb (M W : cmap) (v : pv) (k : str) : bool :=
  negb (pv_deleted v) && ancb k (pv_path v) &&
  match lookup k W with Some _ => false | None => is_tombb M k end.

Lemma clear_fold M W l : forall st, nd st ->
  let r := fold_left (fun acc a =>
               match lookup a W with
               | Some _ => acc
               | None => match lookup a M with
                         | Some e => if pv_deleted e then remove a acc else acc
                         | None => acc
                         end
               end) l st in
  nd r /\ (forall x, In x r -> In x st) /\
  forall k, lookup k r =
            if existsb (eqb_str k) l && match lookup k W with Some _ => false | None => is_tombb M k end
            then None else lookup k st.
Proof.
  induction l as [|a l IH]; intros st N; cbn [fold_left].
  - cbn. split; [exact N|]. split; [auto | reflexivity].
  - set (st1 := match lookup a W with Some _ => st | None => _ end).
    assert (nd st1 /\ (forall x, In x st1 -> In x st) /\
            forall k, lookup k st1 = if eqb_str k a && match lookup k W with Some _ => false | None => is_tombb M k end
                                     then None else lookup k st) as (N1 & S1 & L1).
    { subst st1. unfold is_tombb. destruct (lookup a W) eqn:EW.
      - split; [exact N|]. split; [auto|]. intros k. case_eqb k a; [subst; rewrite EW|]; reflexivity.
      - destruct (lookup a M) as [e|] eqn:EM; [destruct (pv_deleted e) eqn:D|].
        + split; [apply nd_remove; exact N|]. split; [intros x; apply in_remove|]. intros k.
          rewrite (lookup_remove k a st N). case_eqb k a; [subst; rewrite EW, EM, D|]; reflexivity.
        + split; [exact N|]. split; [auto|]. intros k. case_eqb k a; [subst; rewrite EW, EM, D|]; reflexivity.
        + split; [exact N|]. split; [auto|]. intros k. case_eqb k a; [subst; rewrite EW, EM|]; reflexivity. }
    destruct (IH st1 N1) as (I1 & I2 & I3). cbv zeta. split; [exact I1|]. split; [auto|].
    intros k. rewrite I3, L1. cbn [existsb].
    destruct (eqb_str k a); cbn [orb andb]; [|reflexivity].
    destruct (match lookup k W with Some _ => false | None => is_tombb M k end); [|rewrite andb_false_r; reflexivity].
    rewrite andb_true_r. destruct (existsb (eqb_str k) l); reflexivity.
Qed.

Lemma clear_spec M W v st : nd st ->
  nd (clear_ancestors M W v st) /\ (forall x, In x (clear_ancestors M W v st) -> In x st) /\
  forall k, lookup k (clear_ancestors M W v st) = if clearb M W v k then None else lookup k st.
Proof.
  intros N. unfold clear_ancestors, clearb. destruct (pv_deleted v); cbn [negb andb].
  - split; [exact N|]. split; [auto | reflexivity].
  - apply (clear_fold M W (ancestors (pv_path v)) st N).
Qed.

Lemma clearb_in_values M W v k e : lookup k W = Some e -> clearb M W v k = false.
Proof. intros H. unfold clearb. rewrite H. apply andb_false_r. Qed.

(* the value passes store()'s filters and is written *)
Definition written (M P : cmap) (v : pv) : bool :=
  match lookup (pv_path v) M, lookup (pv_path v) P with
  | None, Some _ => true
  | Some e, Some _ => negb (pv_index v =? pv_index e)
  | _, None => false
  end.

Definition sw_step (M W P : cmap) : cmap -> str * pv -> cmap :=
  fun st '(_, v) =>
    match lookup (pv_path v) M, lookup (pv_path v) P with
    | None, Some _ => clear_ancestors M W v (insert (pv_path v) v st)
    | None, None => st
    | Some _, None => remove (pv_path v) st
    | Some e, Some _ => if pv_index v =? pv_index e then st else clear_ancestors M W v (insert (pv_path v) v st)
    end.

Lemma store_write_unfold M W : store_write M W = fold_left (sw_step M W (prune_path_map W true)) W M.
Proof. reflexivity. Qed.

Definition cleared (M W P l : cmap) (k : str) : bool :=
  existsb (fun '(_, v) => written M P v && clearb M W v k) l.

Lemma sw_fold M W P : nd M -> forall l, nd l -> kp l -> (forall k v, In (k, v) l -> lookup k W <> None) ->
  let r := fold_left (sw_step M W P) l M in
  nd r /\ (forall x, In x r -> In x M \/ In x l) /\
  forall k, lookup k r =
    match lookup k l with
    | Some v => match lookup k P with
                | None => None
                | Some _ => match lookup k M with
                            | Some e => if pv_index v =? pv_index e then Some e else Some v
                            | None => Some v
                            end
                end
    | None => if cleared M W P l k then None else lookup k M
    end.
Proof.
  intros NM l. induction l as [|[p v] l IH] using rev_ind; intros Nl Kl Sub.
  - cbn. split; [exact NM|]. split; [auto | reflexivity].
  - assert (nd l) as Nl'.
    { unfold nd in *. rewrite map_app in Nl. cbn in Nl. apply NoDup_remove_1 in Nl. rewrite app_nil_r in Nl. exact Nl. }
    assert (lookup p l = None) as Hpl.
    { apply lookup_none. unfold nd in Nl. rewrite map_app in Nl. cbn in Nl.
      intros H. apply NoDup_remove_2 in Nl. apply Nl. rewrite app_nil_r. exact H. }
    assert (In (p, v) (l ++ [(p, v)])) as Hin by (apply in_or_app; right; left; reflexivity).
    pose proof (Kl _ _ Hin) as Hpv. pose proof (Sub _ _ Hin) as HpW.
    destruct (IH Nl' (fun k v H => Kl k v (in_or_app _ _ _ (or_introl H)))
                 (fun k v H => Sub k v (in_or_app _ _ _ (or_introl H)))) as (I1 & I2 & I3).
    cbv zeta. rewrite fold_left_snoc. set (F := fold_left (sw_step M W P) l M) in *.
    assert (forall k, lookup k l <> None -> forall v', clearb M W v' k = false) as Safe.
    { intros k Hk v'. destruct (lookup k l) as [e|] eqn:E; [|congruence]. apply lookup_in in E.
      specialize (Sub k e (in_or_app _ _ _ (or_introl E))). destruct (lookup k W) eqn:EW; [|congruence].
      eapply clearb_in_values; eauto. }
    assert (forall v', clearb M W v' p = false) as SafeP.
    { intros v'. destruct (lookup p W) eqn:EW; [|congruence]. eapply clearb_in_values; eauto. }
    assert (forall k, cleared M W P (l ++ [(p, v)]) k = cleared M W P l k || (written M P v && clearb M W v k)) as Cl.
    { intros k. unfold cleared. rewrite existsb_app. cbn [existsb]. rewrite orb_false_r. reflexivity. }
    assert (cleared M W P l p = false) as ClP.
    { unfold cleared. destruct (existsb _ l) eqn:X; [|reflexivity]. apply existsb_exists in X.
      destruct X as ([k' v'] & _ & X). rewrite SafeP, andb_false_r in X. discriminate. }
    (* the two shapes of a step: written / not written *)
    assert (forall F', nd F' -> (forall x, In x F' -> In x F \/ x = (p, v)) ->
              (forall k, lookup k F' =
                 if written M P v then (if clearb M W v k then None else if eqb_str k p then Some v else lookup k F)
                 else if eqb_str k p then
                        match lookup p P with None => None | Some _ => lookup p M end
                      else lookup k F) ->
              nd F' /\ (forall x, In x F' -> In x M \/ In x (l ++ [(p, v)])) /\
              forall k, lookup k F' =
                match lookup k (l ++ [(p, v)]) with
                | Some v0 => match lookup k P with
                             | None => None
                             | Some _ => match lookup k M with
                                         | Some e => if pv_index v0 =? pv_index e then Some e else Some v0
                                         | None => Some v0
                                         end
                             end
                | None => if cleared M W P (l ++ [(p, v)]) k then None else lookup k M
                end) as Shape.
    { intros F' N' S' L'. split; [exact N'|]. split.
      - intros x Hx. apply S' in Hx. destruct Hx as [Hx| ->]; [|right; exact Hin].
        apply I2 in Hx. destruct Hx as [Hx|Hx]; [left; exact Hx | right; apply in_or_app; left; exact Hx].
      - intros k. rewrite L', lookup_app. cbn [lookup]. rewrite Cl.
        case_eqb k p.
        + subst k. rewrite Hpl, SafeP. unfold written. rewrite Hpv.
          destruct (lookup p M) as [e|] eqn:EM; destruct (lookup p P) as [q|] eqn:EP; cbn; try reflexivity.
          destruct (pv_index v =? pv_index e); reflexivity.
        + rewrite I3. destruct (lookup k l) as [v0|] eqn:Ek.
          * rewrite (Safe k); [|congruence]. destruct (written M P v); reflexivity.
          * destruct (written M P v); cbn [andb]; [|rewrite orb_false_r; reflexivity].
            destruct (clearb M W v k); [rewrite orb_true_r; reflexivity | rewrite orb_false_r; reflexivity]. }
    cbn [sw_step]. rewrite Hpv.
    assert (nd (insert p v F) /\ forall x, In x (insert p v F) -> In x F \/ x = (p, v)) as (NI & SI).
    { split; [apply nd_insert; exact I1|]. intros [k e] Hx. apply in_insert in Hx. destruct Hx as [[-> ->]|Hx]; auto. }
    destruct (clear_spec M W v (insert p v F) NI) as (C1 & C2 & C3).
    destruct (lookup p M) as [e|] eqn:EM; destruct (lookup p P) as [q|] eqn:EP.
    + destruct (pv_index v =? pv_index e) eqn:EI.
      * apply Shape; [exact I1 | auto|]. intros k. unfold written. rewrite Hpv, EM, EP, EI. cbn.
        case_eqb k p; [subst k; rewrite I3, Hpl, ClP; exact EM | reflexivity].
      * apply Shape; [exact C1 | auto|]. intros k. unfold written. rewrite Hpv, EM, EP, EI. cbn.
        rewrite C3, lookup_insert. reflexivity.
    + apply Shape; [apply nd_remove; exact I1 | intros x Hx; left; eapply in_remove; eauto|].
      intros k. unfold written. rewrite Hpv, EM, EP. rewrite (lookup_remove k p F I1). reflexivity.
    + apply Shape; [exact C1 | auto|]. intros k. unfold written. rewrite Hpv, EM, EP.
      rewrite C3, lookup_insert. reflexivity.
    + apply Shape; [exact I1 | auto|]. intros k. unfold written. rewrite Hpv, EM, EP.
      case_eqb k p; [subst k; rewrite I3, Hpl, ClP; exact EM | reflexivity].
Qed.

Theorem store_write_spec M W : nd M -> wf W ->
  nd (store_write M W) /\ (forall x, In x (store_write M W) -> In x M \/ In x W) /\
  forall k, lookup k (store_write M W) =
    match lookup k W with
    | Some v => match lookup k (prune_path_map W true) with
                | None => None
                | Some _ => match lookup k M with
                            | Some e => if pv_index v =? pv_index e then Some e else Some v
                            | None => Some v
                            end
                end
    | None => if cleared M W (prune_path_map W true) W k then None else lookup k M
    end.
Proof.
  intros NM (NW & KW & PW). rewrite store_write_unfold. apply (sw_fold M W _ NM W NW KW).
  intros k v H E. apply lookup_none in E. apply E. change k with (fst (k, v)). apply in_map. exact H.
Qed.

(* C09 - wait (c), Validate: the frame of the guardian, and the invariant over every reachable queued world.
   PROVED here:
     other_prop_write         the proposal reconcile of (t, i) writes another proposal record only to set its NextIndex := i
     write_keeps_abort        a write of the record (t, j) in Abort IN_PROGRESS by anybody but CtlProp (t, j) keeps it in
                              Abort IN_PROGRESS with the apply phase not started (J: an aborting transaction never starts to apply)
     applied_mover_requeues   a proposal reconcile in Apply IN_PROGRESS / Apply FAILED returns requeue_next, or writes nothing,
                              or writes one device event only
     abort_mover              a proposal reconcile in Abort IN_PROGRESS with Applied.Index = PrevIndex returns requeue_next or
                              writes nothing
     guard_frame_deliver      [guard_frame] for every delivery from a reachable queued world
     wait_c_reach             [wait_c s] for every qreach s (P2_QueueWaitC2.wait_c_reach_cond without its premise). *)
From stdpp Require Import gmap.
From RecordUpdate Require Import RecordUpdate.
From Coq Require Import NArith Lia.
From OC Require Import Model.Proto2 Model.Proto2Queue Proofs.P2Base Proofs.P2Phases Proofs.P2_Order Proofs.P2_Cursor
     Proofs.P2_CursorInv Proofs.P2_CursorLink Proofs.P2_CursorChainInv Proofs.P2_Queue Proofs.P2_QueueWaitA
     Proofs.P2_QueueWaitC Proofs.P2_QueueWaitC2.
Open Scope N_scope.

Section WaitC3.
  Context {V Ch Req D : Type}.
  Context (candidate : V -> Ch -> V) (candidate_rb : V -> Ch -> V) (rollback_of : V -> Ch -> Ch)
          (overlay : V -> V -> V) (commit_merge : N -> N -> V -> V -> Ch -> V)
          (payload : N -> V -> Ch -> option Req) (record_applied : N -> N -> V -> V -> V -> Ch -> V)
          (touched : N -> V -> Ch -> V) (restore : V -> V -> V)
          (resync_payload : V -> list (option Req)) (doc_ok : V -> bool)
          (dev_apply : D -> Req -> D) (stamp : N -> Ch -> Ch) (v_empty : V) (d_empty : D) (ch_empty : Ch).

  Notation world := (@world V Ch Req D).
  Notation eff := (@eff V Ch Req).
  Notation txn := (@txn Ch).
  Notation prop := (@prop Ch).
  Notation config := (@config V).
  Notation qworld := (@qworld V Ch Req D).
  Notation apply_eff := (@apply_eff V Ch Req D dev_apply d_empty).
  Notation rec_prop := (@rec_prop V Ch Req D candidate candidate_rb rollback_of overlay commit_merge payload record_applied
                                  touched restore doc_ok v_empty d_empty ch_empty).
  Notation reconcile := (@reconcile V Ch Req D candidate candidate_rb rollback_of overlay commit_merge payload record_applied
                                    touched restore resync_payload doc_ok stamp v_empty d_empty ch_empty).
  Notation step := (@step V Ch Req D candidate candidate_rb rollback_of overlay commit_merge payload record_applied
                          touched restore resync_payload doc_ok dev_apply stamp v_empty d_empty ch_empty).
  Notation reach := (@reach V Ch Req D candidate candidate_rb rollback_of overlay commit_merge payload record_applied
                            touched restore resync_payload doc_ok dev_apply stamp v_empty d_empty ch_empty).
  Notation qstep := (@qstep V Ch Req D candidate candidate_rb rollback_of overlay commit_merge payload record_applied
                            touched restore resync_payload doc_ok dev_apply stamp v_empty d_empty ch_empty).
  Notation qreach := (@qreach V Ch Req D candidate candidate_rb rollback_of overlay commit_merge payload record_applied
                              touched restore resync_payload doc_ok dev_apply stamp v_empty d_empty ch_empty).
  Notation T_reach := (T_inv_reach candidate candidate_rb rollback_of overlay commit_merge payload record_applied touched restore
                                   resync_payload doc_ok dev_apply stamp v_empty d_empty ch_empty).
  Notation C_reach := (C_inv_reach candidate candidate_rb rollback_of overlay commit_merge payload record_applied touched restore
                                   resync_payload doc_ok dev_apply stamp v_empty d_empty ch_empty).
  Notation J_reach := (J_reach candidate candidate_rb rollback_of overlay commit_merge payload record_applied touched restore
                               resync_payload doc_ok dev_apply stamp v_empty d_empty ch_empty).
  Notation q_reach := (qreach_reach candidate candidate_rb rollback_of overlay commit_merge payload record_applied touched restore
                                    resync_payload doc_ok dev_apply stamp v_empty d_empty ch_empty).
  Notation d_shape := (deliver_shape candidate candidate_rb rollback_of overlay commit_merge payload record_applied touched restore
                                     resync_payload doc_ok dev_apply stamp v_empty d_empty ch_empty).
  Notation d_step := (deliver_is_step candidate candidate_rb rollback_of overlay commit_merge payload record_applied touched restore
                                      resync_payload doc_ok dev_apply stamp v_empty d_empty ch_empty).
  Notation d_owners := (delivery_wakes_owners candidate candidate_rb rollback_of overlay commit_merge payload record_applied touched
                                              restore resync_payload doc_ok dev_apply stamp v_empty d_empty ch_empty).
  Notation applied_of := (@applied_of V Ch Req D).
  Notation requeue_next := (@requeue_next Ch).
  Notation wait_c := (@wait_c V Ch Req D).
  Notation guarded := (@guarded V Ch Req D).
  Notation guard_frame := (@guard_frame V Ch Req D).
  Notation abort_doing := (@abort_doing Ch).

  Ltac split_in H :=
    cbn [fst app In] in H;
    repeat match type of H with
           | _ \/ _ => destruct H as [H|H]; [try discriminate H|]
           | False => destruct H
           end.

  (** * Piece (1): who writes a proposal record, and how *)
  Lemma other_prop_write (o : oracle) (w : world) t i k (P' : prop) :
    In (EPutProp k P') (fst (rec_prop o w (t, i))) ->
    k = (t, i) \/ exists P : prop, props w !! k = Some P /\ P' = P <| p_next := i |>.
  Proof.
    unfold Proto2.rec_prop, Proto2.vfail, Proto2.upd_status.
    destruct (props w !! (t, i)) as [P|] eqn:HP; [|intros []].
    repeat match goal with |- context [match ?x with _ => _ end] => destruct x eqn:? end; intros H;
      try (match goal with E : _ = Some ?e |- _ => is_var e;
             repeat match type of E with context [match ?x with _ => _ end] => destruct x eqn:? end;
             try discriminate E; injection E as <- end);
      split_in H; try (injection H as <- <-); try (left; reflexivity).
    all: right; eexists; split; [eassumption|reflexivity].
  Qed.

  Lemma abort_not_applying (T : txn) : tx_wf T -> is_Some (t_abort T) -> t_apply T = Some Doing -> False.
  Proof.
    unfold tx_wf, wfb. intros Hwf [x Hx] Ha. rewrite Ha, Hx in Hwf.
    destruct (t_init T) as [[]|], (t_validate T) as [[]|], (t_commit T) as [[]|]; cbn in Hwf; discriminate Hwf.
  Qed.

  Lemma write_keeps_abort (o : oracle) (w : world) c t j (Q Q' : prop) :
    reach w -> props w !! (t, j) = Some Q -> abort_doing Q -> c <> CtlProp (t, j) ->
    In (EPutProp (t, j) Q') (fst (reconcile o w c)) -> abort_doing Q'.
  Proof.
    intros Hr HQ [Hap Hab] Hc Hin. pose proof (J_reach _ Hr) as HJ.
    pose proof Hin as Hin2. apply reconcile_putprop in Hin2.
    destruct Hin2 as (P & HP & _ & [(i0 & -> & _)|(T & -> & HT & _ & Hs)]).
    - cbn [Proto2.reconcile fst] in Hin. apply other_prop_write in Hin. destruct Hin as [E|(P0 & HP0 & ->)].
      + exfalso. apply Hc. cbn [fst] in *. rewrite E. reflexivity.
      + assert (EQ : Some P0 = Some Q) by (rewrite <- HP0; exact HQ). injection EQ as ->. split; cbn; assumption.
    - assert (EQ : Some P = Some Q) by (rewrite <- HP; exact HQ). injection EQ as ->. cbn [snd] in HT.
      destruct Hs as [(Hta & _ & _)|[(_ & _ & Hn & _)|[(_ & _ & _ & _ & ->)|(_ & _ & _ & _ & _ & ->)]]].
      + exfalso. destruct (j_back _ HJ _ _ HQ) as (T0 & HT0 & _ & _ & Hb & _); [right; right; left; rewrite Hab; eexists; reflexivity|].
        cbn [snd] in HT0. assert (EQ : Some T0 = Some T) by (rewrite <- HT0; exact HT). injection EQ as ->.
        eapply abort_not_applying; [eapply (j_tx _ HJ); exact HT|apply Hb; rewrite Hab; eexists; reflexivity|exact Hta].
      + rewrite Hab in Hn. discriminate.
      + split; cbn; assumption.
      + split; cbn; assumption.
  Qed.

  (** * Piece (2): the movers of Applied.Index re-queue their successor *)
  Lemma applied_mover_requeues (o : oracle) (w : world) t a (Pa : prop) :
    props w !! (t, a) = Some Pa -> p_apply Pa = Some Doing \/ p_apply Pa = Some Failed ->
    snd (rec_prop o w (t, a)) = requeue_next t Pa \/ fst (rec_prop o w (t, a)) = [] \/
    exists ev, fst (rec_prop o w (t, a)) = [EDev ev].
  Proof.
    intros HP Hph. unfold Proto2.rec_prop. rewrite HP.
    destruct Hph as [-> | ->].
    - repeat match goal with |- context [match ?x with _ => _ end] => destruct x eqn:? end; cbn [fst snd];
        first [left; reflexivity | right; left; reflexivity | right; right; eexists; reflexivity].
    - destruct (cfgs w !! t); [left; reflexivity|right; left; reflexivity].
  Qed.

  Lemma abort_mover (o : oracle) (w : world) t a (Pa : prop) :
    props w !! (t, a) = Some Pa -> abort_doing Pa -> applied_of w t = p_prev Pa ->
    snd (rec_prop o w (t, a)) = requeue_next t Pa \/ fst (rec_prop o w (t, a)) = [].
  Proof.
    intros HP Hab Heq. destruct (cfgs w !! t) as [C|] eqn:HC.
    - destruct (abort_result candidate candidate_rb rollback_of overlay commit_merge payload record_applied touched restore
                  doc_ok v_empty d_empty ch_empty o w t a Pa C HP Hab HC) as [H|[[_ Hne]|[H _]]].
      + left. exact H.
      + exfalso. apply Hne. unfold P2_Cursor.applied_of in Heq. rewrite HC in Heq. exact Heq.
      + right. exact H.
    - right. destruct Hab as [Hap Hab]. unfold Proto2.rec_prop. rewrite HP, Hap, Hab, HC. reflexivity.
  Qed.

  (** * The frame of the guardian *)
  Theorem guard_frame_deliver (s : qworld) n o c :
    qreach s -> nth_error (queue s) n = Some c -> guard_frame s (qstep s (QDeliver n o)) c.
  Proof.
    intros Hq Hn t j Hc (Q & HQ & Hab & Halt).
    pose proof (q_reach _ Hq) as Hr. pose proof (C_reach _ Hr) as HCI. pose proof (T_reach _ Hr) as HTI.
    destruct (d_shape s n o c Hn) as (Hw & Hkeep & Hrq).
    pose proof (d_step s n o c Hn) as Hst.
    assert (Hpk : In (CtlProp (t, j)) (queue s) -> In (CtlProp (t, j)) (queue (qstep s (QDeliver n o)))).
    { intros H. apply Hkeep; [exact H|]. intros E. apply Hc. symmetry. exact E. }
    assert (Hk : is_Some (props (qw (qstep s (QDeliver n o))) !! (t, j))).
    { rewrite Hw. apply props_fold_keep. eexists. exact HQ. }
    destruct Hk as [Q' HQ'].
    pose proof HQ' as HQ2. rewrite Hst in HQ2.
    apply (prop_step candidate candidate_rb rollback_of overlay commit_merge payload record_applied touched restore
             resync_payload doc_ok dev_apply stamp v_empty d_empty ch_empty) in HQ2.
    destruct HQ2 as [HQ2|(ctl & n0 & o0 & Hl & [Hput|[_ Hnone]])].
    3:{ rewrite HQ in Hnone. discriminate. }
    2:{ injection Hl as <- _ <-. exists Q'. split; [exact HQ'|]. split.
        - eapply write_keeps_abort; [exact Hr|exact HQ|exact Hab|exact Hc|exact Hput].
        - right. apply (d_owners s n o c _ _ Hn Hput I). right. left. reflexivity. }
    assert (EQ : Some Q' = Some Q) by (rewrite <- HQ2; exact HQ). injection EQ as ->.
    exists Q. split; [exact HQ'|]. split; [exact Hab|].
    destruct Halt as [Ha|Hp]; [|right; apply Hpk; exact Hp].
    destruct (N.eq_dec (applied_of (qw (qstep s (QDeliver n o))) t) (p_prev Q)) as [E|E]; [|left; exact E].
    right.
    assert (Hmv : applied_of (step (qw s) (LRec c (length (fst (reconcile o (qw s) c))) o)) t <> applied_of (qw s) t).
    { rewrite <- Hst, E. intros X. apply Ha. symmetry. exact X. }
    apply (applied_moves_by_successor candidate candidate_rb rollback_of overlay commit_merge payload record_applied touched
             restore resync_payload doc_ok dev_apply stamp v_empty d_empty ch_empty) in Hmv.
    destruct Hmv as (a & k & o' & Pa & Hl & HPa & Hai & Hcases).
    injection Hl as -> _ <-. rewrite <- Hst, E in Hai. subst a.
    assert (Hpq : p_prev Q <> 0).
    { intros Z. rewrite Z in HPa. destruct (ti_created _ HTI _ _ _ HPa) as (T & HTi & _). rewrite (ti_zero _ HTI) in HTi. discriminate. }
    assert (Hj0 : j <> 0).
    { intros ->. destruct (ti_created _ HTI _ _ _ HQ) as (T & HTi & _). rewrite (ti_zero _ HTI) in HTi. discriminate. }
    destruct (ci_prev _ HCI _ _ _ HQ Hpq) as (Pa' & HPa' & Hnx).
    assert (EQ : Some Pa' = Some Pa) by (rewrite <- HPa'; exact HPa). injection EQ as ->.
    assert (Hres : snd (rec_prop o (qw s) (t, p_prev Q)) = requeue_next t Pa \/ fst (rec_prop o (qw s) (t, p_prev Q)) = [] \/
                   exists ev, fst (rec_prop o (qw s) (t, p_prev Q)) = [EDev ev]).
    { destruct Hcases as [(Hd & _)|[(Hf & _)|(Hn1 & Hd & Heq)]].
      - apply applied_mover_requeues; [exact HPa|left; exact Hd].
      - apply applied_mover_requeues; [exact HPa|right; exact Hf].
      - destruct (abort_mover o (qw s) t (p_prev Q) Pa HPa (conj Hn1 Hd) Heq) as [H|H]; [left; exact H|right; left; exact H]. }
    destruct Hres as [Hs|[Hf|(ev & Hf)]].
    - apply Hrq. cbn [Proto2.reconcile]. rewrite Hs. unfold Proto2.requeue_next. rewrite Hnx.
      destruct (j =? 0) eqn:E0; [apply N.eqb_eq in E0; destruct (Hj0 E0)|]. left. reflexivity.
    - exfalso. apply Ha. rewrite <- E. rewrite Hw. cbn [Proto2.reconcile]. rewrite Hf. reflexivity.
    - exfalso. apply Ha. rewrite <- E. rewrite Hw. cbn [Proto2.reconcile]. rewrite Hf. cbn [fold_left].
      unfold P2_Cursor.applied_of. rewrite cfgs_apply_eff. reflexivity.
  Qed.

  (** * Wait (c), Validate, in every reachable queued world *)
  Theorem wait_c_reach (s : qworld) : qreach s -> wait_c s.
  Proof.
    apply (wait_c_reach_cond candidate candidate_rb rollback_of overlay commit_merge payload record_applied touched restore
             resync_payload doc_ok dev_apply stamp v_empty d_empty ch_empty).
    intros s0 n o c Hq Hn. apply guard_frame_deliver; assumption.
  Qed.
End WaitC3.

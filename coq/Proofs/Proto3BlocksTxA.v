(* Proto3BlocksTxA: the transaction-record writes of applyChange (PENDING -> IN_PROGRESS / ABORTED, IN_PROGRESS -> COMPLETE) preserve FInv (second layer of the frontier invariant, Proto3BlocksBase). *)
From Coq Require Import List NArith Bool Arith Lia.
From OC Require Import Model.Proto3 Spec.Tla3 Proofs.Proto3Proofs Proofs.Proto3OrderBase Proofs.Proto3BlocksBase.
Import ListNotations.
Open Scope N_scope.

Lemma F_tx_AC1' g n cm ap i t t' :
  SInv g n cm ap -> FInv g cm ap -> g i = Some t ->
  cc t = 2 ->
  ca t = 0 ->
  k_ordinal ap + 1 = t_cord t ->
  k_target ap = i ->
  flds t' = (t_rb t, t_cc t, InProgress, t_cord t, t_rc t, t_ra t, t_rord t, t_ridx t) ->
  FInv (updf g i t') cm ap.
Proof.
  intros HS HF Hi G1 G2 G3 G4 F. getflds F.
  finv_by ltac:(split_upd; rwt t') HS HF g idtac.
Qed.

Lemma F_tx_abort g n cm ap i t t' :
  SInv g n cm ap -> FInv g cm ap -> g i = Some t ->
  cc t = 2 ->
  ca t = 0 ->
  k_ordinal ap + 1 = t_cord t ->
  k_target ap <> i ->
  (forall j p, g j = Some p -> j = k_index ap /\ k_target ap = k_index ap -> 2 <= ca p) ->
  flds t' = (t_rb t, t_cc t, Aborted, t_cord t, t_rc t, t_ra t, t_rord t, t_ridx t) ->
  FInv (updf g i t') cm ap.
Proof.
  intros HS HF Hi G1 G2 G3 G4 G5 F. getflds F.
  finv_by ltac:(split_upd; rwt t') HS HF g ltac:(inst_gate G5 g).
Qed.

Lemma F_tx_AC2 g n cm ap i t t' :
  SInv g n cm ap -> FInv g cm ap -> g i = Some t ->
  cc t = 2 ->
  ca t = 1 ->
  k_ordinal ap = t_cord t ->
  k_revision ap = i ->
  flds t' = (t_rb t, t_cc t, Complete, t_cord t, t_rc t, t_ra t, t_rord t, t_ridx t) ->
  FInv (updf g i t') cm ap.
Proof.
  intros HS HF Hi G1 G2 G3 G4 F. getflds F.
  finv_by ltac:(split_upd; rwt t') HS HF g idtac.
Qed.

(* Whole histories of acknowledged Sets: folding reconcileCommit + the store write over ANY list of change maps that
   satisfy the per-request guards, starting from the empty store, leaves a stored map whose live leaves are the fold of
   the sequential gNMI effect (spec_step) over the list.  Induction over the list with commit_store_refines for the
   step and CommitPreserve.v for the invariant. *)
From Coq Require Import List NArith Bool Lia.
From OC Require Import Base.Bytes Model.Merge Model.CfgStore
     Proofs.MergeProofs Proofs.TextPathProofs Proofs.PruneProofs Proofs.StoreProofs Proofs.CommitProofs Proofs.StoreFullProofs
     Proofs.CommitPreserve.
Import ListNotations.
Open Scope N_scope.

(* ------------------------------------------------------------------ the reference effect on functions *)
(* some delete of the request has p strictly beneath it (at a path element boundary) *)
Definition deleted_above (ch : cfgmap) (p : str) : bool :=
  existsb (fun kv => pv_deleted (snd kv) && is_path_below p (pv_path (snd kv))) ch.

(* one request applied to the live leaves L (a function path -> value): an update sets its leaf, a delete removes its
   node and everything strictly beneath it, nothing else changes.  No reference to what is stored. *)
Definition spec_step (L : str -> option str) (ch : cfgmap) (p : str) : option str :=
  match map_get p ch with
  | Some c => live_of c
  | None => if deleted_above ch p then None else L p
  end.

Fixpoint spec_history (L : str -> option str) (h : list (N * cfgmap)) : str -> option str :=
  match h with
  | [] => L
  | (_, ch) :: h' => spec_history (spec_step L ch) h'
  end.

Lemma spec_live_fun_step V ch p : spec_live_fun V ch p = spec_step (live V) ch p.
Proof.
  unfold spec_live_fun, spec_step, cascadedb, deleted_above. destruct (map_get p ch); [reflexivity|].
  destruct (existsb _ ch); cbn [andb]; [|reflexivity].
  unfold map_has, live. destruct (map_get p V); reflexivity.
Qed.

Lemma spec_step_ext L L' ch : (forall q, L q = L' q) -> forall p, spec_step L ch p = spec_step L' ch p.
Proof. intros E p. unfold spec_step. rewrite E. reflexivity. Qed.

Lemma spec_history_ext h : forall L L', (forall q, L q = L' q) -> forall p, spec_history L h p = spec_history L' h p.
Proof.
  induction h as [|[i ch] h IH]; intros L L' E p; cbn; [apply E|].
  apply IH. apply spec_step_ext. exact E.
Qed.

(* ------------------------------------------------------------------ the implementation's fold *)
Fixpoint run_history (M : cfgmap) (h : list (N * cfgmap)) : cfgmap :=
  match h with
  | [] => M
  | (idx, ch) :: h' => run_history (persist_commit M idx ch) h'
  end.

(* ------------------------------------------------------------------ guards *)
(* one request: keys are the paths of their values, distinct, not "" or "/"; no update beneath a delete of the same
   request; every value carries the transaction index *)
Definition req_ok (ic : N * cfgmap) : Prop :=
  keys_ok (snd ic) /\ nodup (snd ic) /\ proper_keys (snd ic) /\ no_overlap (snd ic) /\ stamped (fst ic) (snd ic).

(* transaction indexes increase strictly (and start at b or later) *)
Fixpoint indexes_from (b : N) (h : list (N * cfgmap)) : Prop :=
  match h with
  | [] => True
  | (i, _) :: h' => b <= i /\ indexes_from (N.succ i) h'
  end.

(* paths named / updated by some request of a list *)
Definition names (cs : list cfgmap) (q : str) : Prop := exists c, In c cs /\ In q (map fst c).
Definition updated (cs : list cfgmap) (p : str) : Prop := exists c v, In c cs /\ In (p, v) c /\ pv_deleted v = false.

(* leaf / container discipline (what the YANG schema enforces): a path that is ever updated is a leaf, i.e. no request
   of the history names a path strictly beneath it *)
Definition leaf_discipline (cs : list cfgmap) : Prop :=
  forall p q, updated cs p -> names cs q -> is_path_below q p = false.

Definition history_ok (h : list (N * cfgmap)) : Prop :=
  Forall req_ok h /\ indexes_from 0 h /\ leaf_discipline (map snd h).

(* ------------------------------------------------------------------ the invariant of the stored map *)
Record st_inv (past : list cfgmap) (b : N) (M : cfgmap) : Prop := {
  si_keys : keys_ok M;
  si_nodup : nodup M;
  si_proper : proper_keys M;
  si_clean : clean M;
  si_older : older b M;
  si_names : forall q, In q (map fst M) -> names past q;
  si_live : forall p, live M p <> None -> updated past p
}.

Lemma st_inv_empty : st_inv [] 0 [].
Proof.
  constructor.
  - intros k v [].
  - constructor.
  - intros k v [].
  - intros p t e _ [].
  - intros k e [].
  - intros q [].
  - intros p H. cbn in H. congruence.
Qed.

Lemma names_mono cs cs' q : (forall c, In c cs -> In c cs') -> names cs q -> names cs' q.
Proof. intros S [c [HI H]]. exists c. auto. Qed.

Lemma updated_mono cs cs' p : (forall c, In c cs -> In c cs') -> updated cs p -> updated cs' p.
Proof. intros S [c [v [HI H]]]. exists c, v. auto. Qed.

Lemma older_mono b b' M : b <= b' -> older b M -> older b' M.
Proof. intros L O k e HI. specialize (O k e HI). lia. Qed.

(* one commit keeps the invariant *)
Lemma st_inv_step past b M idx ch :
  st_inv past b M -> req_ok (idx, ch) -> b <= idx -> leaf_discipline (past ++ [ch]) ->
  leaf_ok M ch /\ st_inv (past ++ [ch]) (N.succ idx) (persist_commit M idx ch).
Proof.
  intros [KM NM PM CM OM NA LI] [KC [NC [PC [GC SC]]]] Lb LD. cbn [fst snd] in *.
  assert (S1 : forall c, In c past -> In c (past ++ [ch])) by (intros c H; apply in_or_app; left; exact H).
  assert (S2 : In ch (past ++ [ch])) by (apply in_or_app; right; left; reflexivity).
  assert (LF : leaf_ok M ch).
  { intros p q L HQ. apply LD.
    - apply (updated_mono past); [exact S1 | apply LI; exact L].
    - destruct HQ as [HQ|HQ]; [apply (names_mono past); [exact S1 | apply NA; exact HQ] | exists ch; auto]. }
  split; [exact LF|].
  assert (OM' : older idx M) by (apply (older_mono b); assumption).
  constructor.
  - apply (M'_keys_ok idx M ch); assumption.
  - apply (M'_nodup idx M ch); assumption.
  - apply (M'_proper idx M ch); assumption.
  - apply (M'_clean idx M ch); assumption.
  - apply (M'_older idx M ch); assumption.
  - intros q HI. destruct (M'_keys idx M ch KM NM KC NC GC OM' SC q HI) as [H|H].
    + exists ch. auto.
    + apply (names_mono past); [exact S1 | apply NA; exact H].
  - intros p L. destruct (M'_live_origin idx M ch KM NM PM KC NC GC LF OM' SC p L) as [[c [HI Dc]]|H].
    + exists ch, c. auto.
    + apply (updated_mono past); [exact S1 | apply LI; exact H].
Qed.

Lemma commit_step_spec past b M idx ch :
  st_inv past b M -> req_ok (idx, ch) -> b <= idx -> leaf_discipline (past ++ [ch]) ->
  forall p, live (persist_commit M idx ch) p = spec_step (live M) ch p.
Proof.
  intros I R Lb LD p. destruct (st_inv_step past b M idx ch I R Lb LD) as [LF _].
  destruct I as [KM NM PM CM OM NA LI]. destruct R as [KC [NC [PC [GC SC]]]]. cbn [fst snd] in *.
  rewrite <- spec_live_fun_step. apply commit_store_refines; try assumption.
  apply fresh_of_older; [apply (older_mono b); assumption | exact SC].
Qed.

(* ------------------------------------------------------------------ histories *)
Theorem history_refines_gen h : forall past b M,
  st_inv past b M -> Forall req_ok h -> indexes_from b h -> leaf_discipline (past ++ map snd h) ->
  (forall p, live (run_history M h) p = spec_history (live M) h p) /\
  exists b', st_inv (past ++ map snd h) b' (run_history M h).
Proof.
  induction h as [|[idx ch] h IH]; intros past b M I R IX LD.
  - cbn. split; [reflexivity|]. exists b. rewrite app_nil_r. exact I.
  - inversion R as [|? ? R1 R2]; subst. destruct IX as [Lb IX]. cbn [map snd] in LD.
    assert (E : past ++ ch :: map snd h = (past ++ [ch]) ++ map snd h) by (rewrite <- app_assoc; reflexivity).
    assert (LD1 : leaf_discipline (past ++ [ch])).
    { intros p q U Nq. apply LD.
      - apply (updated_mono (past ++ [ch])); [|exact U]. intros c H. rewrite E. apply in_or_app. left. exact H.
      - apply (names_mono (past ++ [ch])); [|exact Nq]. intros c H. rewrite E. apply in_or_app. left. exact H. }
    destruct (st_inv_step past b M idx ch I R1 Lb LD1) as [_ I'].
    rewrite E in LD. destruct (IH (past ++ [ch]) (N.succ idx) (persist_commit M idx ch) I' R2 IX LD) as [H1 [b' H2]].
    cbn [run_history spec_history map snd]. split.
    + intros p. rewrite H1. apply spec_history_ext. apply (commit_step_spec past b M idx ch I R1 Lb LD1).
    + exists b'. rewrite E. exact H2.
Qed.

(* from the empty store *)
Theorem history_refines h : history_ok h ->
  forall p, live (run_history [] h) p = spec_history (fun _ => None) h p.
Proof.
  intros [R [IX LD]] p.
  destruct (history_refines_gen h [] 0 [] st_inv_empty R IX LD) as [H _]. rewrite H.
  apply spec_history_ext. reflexivity.
Qed.

(* the hypotheses of commit_store_refines hold again after every history: the store is well formed and clean *)
Theorem history_invariant h : history_ok h ->
  keys_ok (run_history [] h) /\ nodup (run_history [] h) /\ proper_keys (run_history [] h) /\ clean (run_history [] h) /\
  (forall p, live (run_history [] h) p <> None -> updated (map snd h) p).
Proof.
  intros [R [IX LD]].
  destruct (history_refines_gen h [] 0 [] st_inv_empty R IX LD) as [_ [b' [K N P C _ _ L]]]. cbn [app] in L. auto.
Qed.

(* a single commit re-establishes what the next commit needs (the statement missing so far) *)
Theorem commit_preserves idx M ch :
  keys_ok M -> nodup M -> proper_keys M -> clean M ->
  keys_ok ch -> nodup ch -> proper_keys ch -> no_overlap ch ->
  leaf_ok M ch -> older idx M -> stamped idx ch ->
  keys_ok (persist_commit M idx ch) /\ nodup (persist_commit M idx ch) /\ proper_keys (persist_commit M idx ch) /\
  clean (persist_commit M idx ch) /\ older (N.succ idx) (persist_commit M idx ch) /\
  (forall q, In q (map fst (persist_commit M idx ch)) -> In q (map fst ch) \/ In q (map fst M)) /\
  (forall p, live (persist_commit M idx ch) p <> None ->
             (exists c, In (p, c) ch /\ pv_deleted c = false) \/ live M p <> None).
Proof.
  intros KM NM PM CM KC NC PC GC LF OM SC.
  split; [apply (M'_keys_ok idx M ch); assumption|].
  split; [apply (M'_nodup idx M ch); assumption|].
  split; [apply (M'_proper idx M ch); assumption|].
  split; [apply (M'_clean idx M ch); assumption|].
  split; [apply (M'_older idx M ch); assumption|].
  split; [apply (M'_keys idx M ch); assumption | apply (M'_live_origin idx M ch); assumption].
Qed.

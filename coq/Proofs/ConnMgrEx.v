(* Witnesses for the connection manager model: the hypotheses of the theorems are satisfiable on non-trivial runs; the
   regression witness of finding F-CONN-1 (the loop before /repo ac94f55 and a CONNECTING that is not read) and what the
   code does with the same samples now; what is still not covered (a goroutine that reads nothing between two READY
   states); two live connections of one target after Disconnect + Connect. *)
From Coq Require Import List NArith Bool.
From OC Require Import Model.ConnMgr Proofs.ConnMgrProofs.
Import ListNotations.
Open Scope N_scope.

(** a device that is away for one failed attempt: READY IDLE CONNECTING TRANSIENT_FAILURE IDLE CONNECTING READY *)
Definition ex_away : list event :=
  [EConnect 7; ESample 0 Connecting; ESample 0 Ready; ESample 0 Idle; ESample 0 Connecting; ESample 0 TransientFailure;
   ESample 0 Idle; ESample 0 Connecting; ESample 0 Ready].

Example ex_away_trace :
  snd (run 1 ex_away) = [Added 0 7 1; Removed 0 7 1; CallConnect 0; CallConnect 0; Added 0 7 2] /\
  get (fst (run 1 ex_away)) 1 = None /\ get (fst (run 1 ex_away)) 2 = Some 7 /\
  chan_ok (samples_of 0 ex_away) = true.
Proof. vm_compute. repeat split. Qed.

(** the hypotheses of [seen_loss_replaces_run] / [channel_loss_replaces_run] hold on it
    (es1 = up to the first READY, es2 = the rest but the last) *)
Example ex_away_hyps :
  let es1 := firstn 3 ex_away in let es2 := firstn 5 (skipn 3 ex_away) in
  let m := fst (run_from current (init 1) es1) in
  es1 ++ es2 ++ [ESample 0 Ready] = ex_away /\
  (exists go, nth_error (m_gors m) 0 = Some go /\ g_conn go = Some 1) /\
  samples_of 0 es2 <> [] /\ chan_ok (Ready :: samples_of 0 es2 ++ [Ready]) = true /\
  existsb (loss_seen current) (samples_of 0 es2) = true /\ ~ In Shutdown (samples_of 0 es2).
Proof.
  cbn zeta. split; [reflexivity|]. split; [eexists; split; vm_compute; reflexivity|].
  split; [vm_compute; discriminate|]. split; [reflexivity|]. split; [reflexivity|].
  vm_compute. intros H. repeat (destruct H as [H|H]; [discriminate|]). exact H.
Qed.

(** the device restarts and accepts again at once; the goroutine reads the state after the re-dial has completed:
    the channel went READY IDLE CONNECTING READY, the goroutine read READY IDLE READY *)
Definition ex_chan : list chan_state := [Connecting; Ready; Idle; Connecting; Ready].
Definition ex_seen : list chan_state := [Connecting; Ready; Idle; Ready].
Definition ex_skip : list event := EConnect 7 :: map (ESample 0) ex_seen.

(** regression (F-CONN-1): before ac94f55 these samples left the connection of the lost transport in place *)
Example skipped_connecting_before_repair :
  chan_ok ex_chan = true /\ sampled ex_chan ex_seen = true /\
  ex_chan = [Connecting] ++ Ready :: [Idle; Connecting] ++ Ready :: [] /\
  snd (run_before_repair 1 ex_skip) = [Added 0 7 1; CallConnect 0] /\
  gconn (fst (run_before_repair 1 ex_skip)) 0 = Some 1 /\ get (fst (run_before_repair 1 ex_skip)) 1 = Some 7.
Proof. vm_compute. repeat split. Qed.

Theorem skipped_connecting_refuted_before_repair :
  exists (cs ss l1 mid l2 : list chan_state),
    chan_ok cs = true /\ sampled cs ss = true /\
    cs = l1 ++ Ready :: mid ++ Ready :: l2 /\ mid <> [] /\ l2 = [] /\ last ss Idle = Ready /\
    added_ids (snd (run_before_repair 1 (EConnect 7 :: map (ESample 0) ss))) = [1] /\
    (forall g t id, ~ In (Removed g t id) (snd (run_before_repair 1 (EConnect 7 :: map (ESample 0) ss)))) /\
    get (fst (run_before_repair 1 (EConnect 7 :: map (ESample 0) ss))) 1 = Some 7.
Proof.
  exists ex_chan, ex_seen, [Connecting], [Idle; Connecting], [].
  repeat split; try reflexivity; try discriminate.
  intros g t id H. vm_compute in H. repeat (destruct H as [H|H]; [discriminate|]). exact H.
Qed.

(** the code as it is removes the connection of the lost transport on the same samples and makes a new one *)
Example skipped_connecting_now :
  snd (run 1 ex_skip) = [Added 0 7 1; Removed 0 7 1; CallConnect 0; Added 0 7 2] /\
  gconn (fst (run 1 ex_skip)) 0 = Some 2 /\ get (fst (run 1 ex_skip)) 1 = None.
Proof. vm_compute. repeat split. Qed.

(** what is still not covered: a goroutine that reads NOTHING between the two READY states (it was not scheduled
    between the loss and the completed re-dial, and something else - an RPC on the idle channel - started the re-dial):
    the contract "lost and re-established => new connection" does not hold without an assumption on the samples *)
Definition ex_unread : list chan_state := [Connecting; Ready; Ready].

Theorem unread_loss_refuted :
  exists (cs ss l1 mid l2 : list chan_state),
    chan_ok cs = true /\ sampled cs ss = true /\
    cs = l1 ++ Ready :: mid ++ Ready :: l2 /\ mid <> [] /\ l2 = [] /\ last ss Idle = Ready /\
    added_ids (snd (run 1 (EConnect 7 :: map (ESample 0) ss))) = [1] /\
    (forall g t id, ~ In (Removed g t id) (snd (run 1 (EConnect 7 :: map (ESample 0) ss)))) /\
    get (fst (run 1 (EConnect 7 :: map (ESample 0) ss))) 1 = Some 7.
Proof.
  exists ex_chan, ex_unread, [Connecting], [Idle; Connecting], [].
  repeat split; try reflexivity; try discriminate.
  intros g t id H. vm_compute in H. repeat (destruct H as [H|H]; [discriminate|]). exact H.
Qed.

(** Disconnect + Connect of the same target before the first goroutine has read SHUTDOWN: two live connections of the
    target, one per Connect, until the SHUTDOWN is read *)
Definition ex_reconnect : list event :=
  [EConnect 7; ESample 0 Ready; EDisconnect 7; EConnect 7; ESample 1 Ready].

Example two_live_of_one_target :
  snd (run 1 ex_reconnect) = [Added 0 7 1; Added 1 7 2] /\
  get (fst (run 1 ex_reconnect)) 1 = Some 7 /\ get (fst (run 1 ex_reconnect)) 2 = Some 7 /\
  snd (run 1 (ex_reconnect ++ [ESample 0 Shutdown])) = [Added 0 7 1; Added 1 7 2; Removed 0 7 1].
Proof. vm_compute. repeat split. Qed.

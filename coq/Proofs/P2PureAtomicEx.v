(* C01, value level: the hypotheses of the theorems of Proofs/P2PureAtomic*.v are satisfiable on non-trivial runs of the
   executable instance, and what the theorems conclude is what evaluation shows (vm_compute).  The run is the one of
   Proofs/P2_OrderEx.v: one Set naming two targets (/a = 1 on target 1, /b = 2 on target 2) driven to COMMITTING. *)
From stdpp Require Import gmap.
From RecordUpdate Require Import RecordUpdate.
From Coq Require Import NArith Lia.
From OC Require Import Base.Bytes Model.P2Pure Model.Proto2 Model.P2Inst Proofs.P2_ConvergeEx Proofs.P2_OrderEx.
From OC Require Import Proofs.P2PureApplyDefs Proofs.P2PureApplyInst Proofs.P2PureReachLabels Proofs.P2PureReachEx
     Proofs.P2PureAtomicCommit Proofs.P2PureAtomicFrame Proofs.P2PureAtomicAll.
Open Scope N_scope.

Definition ls_c : list Label := ls_validating ++ ls_committing.
Definition commit1 : Label := pr 1 o_acc.

(* C01_commit_contains_change / C01_untouched_targets_keep_values / C01_committed_value_persists: the run up to and
   including the commit step of proposal (1,1) is well-formed and complete, the proposal is COMMITTING on top of its
   predecessor *)
Example ex_commit_premises :
  labels_wfb (ls_c ++ [commit1]) = true /\ completesb p2_init (ls_c ++ [commit1]) = true /\
  exists (P : Prop2) (C : Cfg), props (x_run ls_c) !! (1, 1) = Some P /\ cfgs (x_run ls_c) !! 1 = Some C /\
    p_details P = PChange [(B "/a", mkPV (B "/a") (B "1") false 1)] /\
    p_commit P = Some Doing /\ p_apply P = None /\ p_abort P = None /\ c_committed C = p_prev P.
Proof.
  split; [vm_compute; reflexivity|]. split; [vm_compute; reflexivity|].
  eexists _, _. split; [vm_compute; reflexivity|]. split; [vm_compute; reflexivity|]. repeat split; vm_compute; reflexivity.
Qed.

(* ... and what the theorems conclude: target 1 shows the change, target 2 is untouched *)
Example ex_commit_shows :
  option_map (fun C : Cfg => (c_committed C, live (view overlay C))) (cfgs (p2_step (x_run ls_c) commit1) !! 1) = Some (1, [(B "/a", B "1")]) /\
  option_map (fun C : Cfg => live (view overlay C)) (cfgs (p2_step (x_run ls_c) commit1) !! 2) =
  option_map (fun C : Cfg => live (view overlay C)) (cfgs (x_run ls_c) !! 2).
Proof. split; vm_compute; reflexivity. Qed.

(* C01_all_or_none_values_partial: the run continued until nothing is left to do (no target entity: the apply waits);
   both proposals COMMITTED, both live views show their share *)
Definition ls_idle : list Label := ls_c ++ [pr 1 o_acc; pr 2 o_acc; tx 9; tx 9; tx 9; tx 9].
Example ex_idle_values :
  labels_wfb ls_idle = true /\ completesb p2_init ls_idle = true /\
  map (fun tc => (fst tc, live (view overlay (snd tc)))) (w_cfgs (x_run ls_idle)) = [(1, [(B "/a", B "1")]); (2, [(B "/b", B "2")])] /\
  map (fun kp => (fst kp, p_commit (snd kp))) (w_props (x_run ls_idle)) = [((1, 1), Some Done); ((2, 1), Some Done)].
Proof. repeat split; vm_compute; reflexivity. Qed.

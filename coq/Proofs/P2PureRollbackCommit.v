(* C06, value level: reconcileCommit's merge + store write (commit_merge) by lookup, for every iteration order:
   the stored map afterwards is the merged view with everything beneath a tombstone pruned; the merged view holds
   the change's updates, a tombstone at every deleted path and every stored path beneath one, and otherwise the old
   view without the tombstones an update lies beneath. *)
From Coq Require Import List Arith NArith Bool Lia Permutation.
From OC Require Import Base.Bytes Model.P2Pure Proofs.P2PureRollbackBase Proofs.P2PureRollbackPrune
  Proofs.P2PureRollbackApply Proofs.P2PureRollbackAdc Proofs.P2PureRollbackStore.
Import ListNotations.
Open Scope N_scope.

(* no live value beneath a tombstone *)
Definition clean (V : cmap) : Prop := forall k e, lookup k V = Some e -> pv_deleted e = false -> ~ hidden V k.
(* no update of the change lies beneath a delete of the same change (the excluded overlap is finding F-14) *)
Definition no_delete_above_update (c : cmap) : Prop :=
  forall k u, lookup k c = Some u -> pv_deleted u = false -> cascb c k = false.

Record commit_hyp (idx : N) (M V c : cmap) : Prop := {
  ch_M : nd M; ch_same : same V M; ch_V : wf V; ch_c : wf c;
  ch_clean : clean V;
  ch_f14 : no_delete_above_update c;
  (* store() skips a path whose stored value has the index of the value to write: then they must be the same value *)
  ch_idx1 : forall k u e, lookup k c = Some u -> lookup k M = Some e -> pv_index u = pv_index e -> u = e;
  ch_idx2 : forall k e, lookup k M = Some e -> pv_index e <> idx }.

Record commit_out (idx : N) (V c st' m' : cmap) : Prop := {
  co_wf_st : wf st'; co_wf : wf m';
  co_store : forall k, (hidden st' k -> lookup k m' = None) /\ (~ hidden st' k -> lookup k m' = lookup k st');
  co_upd : forall k u, lookup k c = Some u -> pv_deleted u = false -> lookup k st' = Some u;
  co_del : forall k u, lookup k c = Some u -> pv_deleted u = true ->
           exists e, lookup k st' = Some e /\ pv_deleted e = true /\ (e = u \/ pv_index e = idx);
  co_casc : forall k x, lookup k V = Some x -> cascb c k = true ->
            exists e, lookup k st' = Some e /\ pv_deleted e = true /\ (lookup k c = Some e \/ pv_index e = idx);
  co_rest : forall k, lookup k c = None -> (cascb c k = false \/ lookup k V = None) ->
            lookup k st' = if is_tombb V k && live_below c k then None else lookup k V }.

Lemma lookup_map_vals (f : pv -> pv) (V : cmap) k :
  lookup k (map (fun '(k, v) => (k, f v)) V) = option_map f (lookup k V).
Proof. induction V as [|[k0 v0] V IH]; cbn; [reflexivity|]. destruct (eqb_str k k0); [reflexivity | exact IH]. Qed.

Lemma map_vals_fst (f : pv -> pv) (V : cmap) : map fst (map (fun '(k, v) => (k, f v)) V) = map fst V.
Proof. induction V as [|[k0 v0] V IH]; cbn; congruence. Qed.

Lemma live_below_spec l k :
  live_below l k = true <-> exists p u, In (p, u) l /\ pv_deleted u = false /\ below p k.
Proof.
  unfold live_below. rewrite existsb_exists. split.
  - intros ([p u] & H1 & H2). apply andb_true_iff in H2. destruct H2 as [H2 H3]. apply negb_true_iff in H2. exists p, u. auto.
  - intros (p & u & H1 & H2 & H3). exists (p, u). split; [exact H1|]. apply andb_true_iff. split; [apply negb_true_iff|]; assumption.
Qed.

Lemma bool_ext (a b : bool) : (a = true <-> b = true) -> a = b.
Proof. destruct a, b; intuition congruence. Qed.

Lemma cascb_same a b p : nd a -> nd b -> same a b -> cascb a p = cascb b p.
Proof.
  intros Na Nb S. apply bool_ext. rewrite !cascb_spec. split; intros (k & cv & H1 & R); exists k, cv; (split; [|exact R]).
  - apply lookup_in. rewrite <- S. apply in_lookup; assumption.
  - apply lookup_in. rewrite S. apply in_lookup; assumption.
Qed.

Theorem commit_spec ord idx M V c : commit_hyp idx M V c ->
  exists st', commit_out idx V c st' (commit_merge ord idx M V c).
Proof.
  intros [NM SVM WV Wc CL F14 IX1 IX2]. unfold commit_merge.
  set (c' := permute ord c).
  assert (wf c') as Wc' by (apply permute_wf; exact Wc).
  assert (same c' c) as Sc by (apply permute_same; apply Wc).
  assert (forall p, cascb c' p = cascb c p) as Cc.
  { intros p. apply cascb_perm. apply permute_perm. }
  pose proof (adc_spec idx V WV c' Wc') as A.
  destruct (add_delete_children idx c' V) as [U S]. cbn [fst snd] in A. destruct A as [A1 A2 A3 A4 A5].
  set (U' := permute (rest_code (length c) ord) U).
  assert (wf U') as WU' by (apply permute_wf; exact A2).
  assert (same U' U) as SU by (apply permute_same; apply A2).
  fold (apply_loop U' S). set (st' := apply_loop U' S).
  destruct WV as (NV & KV & PV).
  (* the mutated view *)
  assert (wf S) as WS.
  { rewrite A1. split; [unfold nd; rewrite map_vals_fst; exact NV|]. split.
    - intros k v H. apply in_map_iff in H. destruct H as ([k0 x] & [= <- <-] & H). rewrite markif_path. eauto.
    - intros k v H. apply in_map_iff in H. destruct H as ([k0 x] & [= <- <-] & H). eauto. }
  assert (forall k, lookup k S = option_map (markif idx c') (lookup k V)) as LS.
  { intros k. rewrite A1. apply lookup_map_vals. }
  (* origin of the loop's values *)
  assert (forall k u, lookup k U = Some u -> pv_deleted u = false -> lookup k c = Some u) as Ulive.
  { intros k u H D. apply A3 in H. destruct H as [H|(x & _ & _ & ->)]; [rewrite <- Sc; exact H | discriminate]. }
  assert (forall k u, lookup k U = Some u -> pv_deleted u = true ->
            (lookup k c = Some u \/ (cascb c k = true /\ exists x, lookup k V = Some x /\ u = mark idx x))) as Utomb.
  { intros k u H D. apply A3 in H. destruct H as [H|(x & H1 & H2 & H3)]; [left; rewrite <- Sc; exact H|].
    right. rewrite Cc in H2. split; [exact H2 | eauto]. }
  assert (forall p, proper p -> cascb c p = true -> forall k, below k p -> cascb c k = true) as Cdown.
  { intros p Pp H k Hk. apply cascb_spec in H. apply cascb_spec. destruct H as (kd & cv & H1 & H2 & H3).
    exists kd, cv. split; [exact H1|]. split; [exact H2|]. destruct Wc as (Nc & Kc & Pc).
    eapply below_trans; [|exact Hk | exact H3]. rewrite (Kc _ _ H1). eapply Pc; eauto. }
  assert (no_conflict U') as NC.
  { intros p u t e H1 H2 H3 H4 Hb. destruct WU' as (NU' & KU' & PU').
    apply (in_lookup _ _ _ NU') in H1. apply (in_lookup _ _ _ NU') in H3. rewrite SU in H1, H3.
    pose proof (Ulive _ _ H1 H2) as Hc. pose proof (F14 _ _ Hc H2) as Hf.
    assert (cascb c p = true) as X; [|congruence].
    destruct (Utomb _ _ H3 H4) as [Ht|(Ht & _)].
    - apply cascb_spec. exists t, e. split; [apply lookup_in; exact Ht|]. split; [exact H4|].
      rewrite (kp_lookup c t e (proj1 (proj2 Wc)) Ht). exact Hb.
    - apply (Cdown t); [|exact Ht | exact Hb]. eapply pk_lookup; [apply A2 | exact H3]. }
  destruct (apply_loop_spec U' S WU' WS NC) as (Wst & Lst). fold st' in Wst, Lst.
  assert (forall k, lookup k st' = match lookup k U with
                                   | Some u => Some u
                                   | None => if is_tombb S k && live_below U' k then None else lookup k S
                                   end) as Lst'.
  { intros k. rewrite Lst, SU. reflexivity. }
  assert (forall k, live_below U' k = live_below c k) as LB.
  { intros k. apply bool_ext. rewrite !live_below_spec. split; intros (p & u & H1 & H2 & H3); exists p, u; (split; [|auto]).
    - apply lookup_in. apply Ulive; [|exact H2]. rewrite <- SU. apply in_lookup; [apply WU' | exact H1].
    - apply lookup_in. rewrite SU. apply (in_lookup _ _ _ (proj1 Wc)) in H1.
      assert (In p (map fst U)) as Hk.
      { apply A4. apply (lookup_some_key p c' u). rewrite Sc. exact H1. }
      apply in_key_lookup in Hk. destruct Hk as (u' & Hu'). rewrite Hu'. f_equal.
      pose proof Hu' as Hu''. apply A3 in Hu''. destruct Hu'' as [E|(x & _ & E & _)].
      + rewrite Sc, H1 in E. congruence.
      + rewrite Cc, (F14 _ _ H1 H2) in E. discriminate. }
  (* the merged view in terms of the change and the old view *)
  assert (forall k u, lookup k c = Some u -> pv_deleted u = false -> lookup k st' = Some u) as Cupd.
  { intros k u H D. rewrite Lst'. assert (In k (map fst U)) as Hk.
    { apply A4. apply (lookup_some_key k c' u). rewrite Sc. exact H. }
    apply in_key_lookup in Hk. destruct Hk as (u' & Hu'). rewrite Hu'. f_equal.
    pose proof Hu' as Hu''. apply A3 in Hu''. destruct Hu'' as [E|(x & _ & E & _)].
    - rewrite Sc, H in E. congruence.
    - rewrite Cc, (F14 _ _ H D) in E. discriminate. }
  assert (forall k u, lookup k c = Some u -> pv_deleted u = true ->
            exists e, lookup k st' = Some e /\ pv_deleted e = true /\ (e = u \/ pv_index e = idx)) as Cdel.
  { intros k u H D. assert (In k (map fst U)) as Hk.
    { apply A4. apply (lookup_some_key k c' u). rewrite Sc. exact H. }
    apply in_key_lookup in Hk. destruct Hk as (u' & Hu'). exists u'. rewrite Lst', Hu'. split; [reflexivity|].
    pose proof Hu' as Hu''. apply A3 in Hu''. destruct Hu'' as [E|(x & _ & _ & ->)].
    - rewrite Sc, H in E. injection E as <-. auto.
    - cbn. auto. }
  assert (forall k x, lookup k V = Some x -> cascb c k = true ->
            exists e, lookup k st' = Some e /\ pv_deleted e = true /\ (lookup k c = Some e \/ pv_index e = idx)) as Ccasc.
  { intros k x H D. assert (In k (map fst U)) as Hk by (eapply A5; [exact H | rewrite Cc; exact D]).
    apply in_key_lookup in Hk. destruct Hk as (u' & Hu'). exists u'. rewrite Lst', Hu'. split; [reflexivity|].
    pose proof Hu' as Hu''. apply A3 in Hu''. destruct Hu'' as [E|(x' & _ & _ & ->)].
    - rewrite Sc in E. split; [|left; exact E]. destruct (pv_deleted u') eqn:Du; [reflexivity|].
      rewrite (F14 _ _ E Du) in D. discriminate.
    - cbn. auto. }
  assert (forall k, lookup k c = None -> (cascb c k = false \/ lookup k V = None) ->
            lookup k U = None /\ lookup k S = lookup k V) as Rest0.
  { intros k Hc Hn. split.
    - destruct (lookup k U) as [u|] eqn:E; [|reflexivity]. apply A3 in E.
      destruct E as [E|(x & E1 & E2 & _)]; [rewrite Sc in E; congruence|]. rewrite Cc in E2.
      destruct Hn; congruence.
    - rewrite LS. destruct (lookup k V) as [x|] eqn:E; [|reflexivity]. cbn. unfold markif.
      rewrite (KV _ _ (lookup_in _ _ _ E)), Cc. destruct Hn as [Hn|Hn]; [rewrite Hn; reflexivity | discriminate]. }
  assert (forall k, lookup k c = None -> (cascb c k = false \/ lookup k V = None) ->
            lookup k st' = if is_tombb V k && live_below c k then None else lookup k V) as Crest.
  { intros k Hc Hn. destruct (Rest0 k Hc Hn) as (R1 & R2). rewrite Lst', R1, LB. unfold is_tombb. rewrite R2. reflexivity. }
  (* the store write *)
  destruct (store_write_spec M st' NM Wst) as (Nm & Im & Lm).
  assert (forall k, (hidden st' k -> lookup k (store_write M st') = None) /\
                    (~ hidden st' k -> lookup k (store_write M st') = lookup k st')) as Store.
  { intros k. pose proof (pruned_lookup st' k Wst) as PL. rewrite Lm.
    destruct (lookup k st') as [v|] eqn:Ek.
    - split.
      + intros Hh. destruct (lookup k (prune_path_map st' true)) eqn:Ep; [|reflexivity].
        exfalso. assert (Some p <> None) as X by discriminate. apply PL in X. tauto.
      + intros Hh. destruct (lookup k (prune_path_map st' true)) eqn:Ep.
        2:{ exfalso. apply (proj2 PL); [|reflexivity]. split; [eauto | exact Hh]. }
        destruct (lookup k M) as [e|] eqn:EM; [|reflexivity].
        destruct (pv_index v =? pv_index e) eqn:EI; [|reflexivity]. apply N.eqb_eq in EI. f_equal.
        (* same index: same value *)
        rewrite Lst' in Ek. destruct (lookup k U) as [u|] eqn:EU.
        * injection Ek as ->. pose proof EU as EU'. apply A3 in EU'. destruct EU' as [E|(x & _ & _ & ->)].
          -- symmetry. rewrite Sc in E. eapply IX1; eauto.
          -- cbn in EI. exfalso. eapply IX2; eauto.
        * destruct (is_tombb S k && live_below U' k); [discriminate|]. rewrite LS, SVM, EM in Ek. cbn in Ek.
          injection Ek as <-. unfold markif. destruct (cascb c' (pv_path e)) eqn:Ecas; [|reflexivity].
          exfalso. assert (pv_path e = k) as Hp by (eapply kp_lookup; [exact KV | rewrite SVM; exact EM]).
          rewrite Hp in Ecas. assert (In k (map fst U)) as Hk by (eapply A5; [rewrite SVM; exact EM | exact Ecas]).
          apply lookup_none in EU. contradiction.
    - assert (lookup k M = None \/ cleared M st' (prune_path_map st' true) st' k = true) as X.
      2:{ destruct X as [X|X]; rewrite X; [destruct (cleared _ _ _ _ _)|]; split; reflexivity. }
      destruct (lookup k M) as [e|] eqn:EM; [right | left; reflexivity].
      rewrite Lst' in Ek. destruct (lookup k U) as [u|] eqn:EU; [discriminate|].
      destruct (is_tombb S k && live_below U' k) eqn:ED; [|rewrite LS, SVM, EM in Ek; discriminate].
      apply andb_true_iff in ED. destruct ED as [ED1 ED2].
      assert (lookup k S = Some e /\ pv_deleted e = true) as (ES & De).
      { unfold is_tombb in ED1. rewrite LS, SVM, EM in ED1 |- *. cbn in *. unfold markif in *.
        destruct (cascb c' (pv_path e)) eqn:Ecas; [|auto]. exfalso.
        assert (pv_path e = k) as Hp by (eapply kp_lookup; [exact KV | rewrite SVM; exact EM]).
        rewrite Hp in Ecas. assert (In k (map fst U)) as Hk by (eapply A5; [rewrite SVM; exact EM | exact Ecas]).
        apply lookup_none in EU. contradiction. }
      assert (proper k) as Pk by (eapply pk_lookup; [exact PV | rewrite SVM; exact EM]).
      apply live_below_spec in ED2. destruct ED2 as (p & u & H1 & H2 & H3).
      apply (in_lookup _ _ _ (proj1 WU')) in H1. rewrite SU in H1.
      pose proof (Ulive _ _ H1 H2) as Hcu.
      assert (lookup p st' = Some u) as Hst by (rewrite Lst', H1; reflexivity).
      pose proof (kp_lookup U p u (proj1 (proj2 A2)) H1) as Hpu.
      unfold cleared. apply existsb_exists. exists (p, u). split; [apply lookup_in; exact Hst|].
      apply andb_true_iff. split.
      + (* the update is written *)
        assert (~ hidden st' p) as Nh.
        { intros (t & (et & Ht1 & Ht2) & Ht3). rewrite Lst' in Ht1. destruct (lookup t U) as [ut|] eqn:EtU.
          - injection Ht1 as ->. apply (NC p u t et); auto; apply lookup_in; rewrite SU; assumption.
          - destruct (is_tombb S t && live_below U' t) eqn:EDt; [discriminate|].
            assert (is_tombb S t = true) as T1 by (unfold is_tombb; rewrite Ht1; exact Ht2).
            assert (live_below U' t = true) as T2.
            { apply live_below_spec. exists p, u. split; [apply lookup_in; rewrite SU; exact H1 | auto]. }
            rewrite T1, T2 in EDt. discriminate. }
        unfold written. rewrite Hpu.
        destruct (lookup p (prune_path_map st' true)) as [q|] eqn:Ep.
        2:{ exfalso. apply (proj2 (pruned_lookup st' p Wst)); [|exact Ep]. split; [eauto | exact Nh]. }
        destruct (lookup p M) as [e'|] eqn:EM'; [|reflexivity]. apply negb_true_iff. apply N.eqb_neq. intros EI.
        pose proof (IX1 _ _ _ Hcu EM' EI) as ->.
        apply (CL p e'); [rewrite SVM; exact EM' | exact H2|]. exists k. split; [|exact H3].
        exists e. rewrite SVM. auto.
      + unfold clearb. rewrite Hpu, H2, (ancb_below k p Pk). unfold below in H3. rewrite H3. cbn.
        assert (live_below U' k = true) as T2.
        { apply live_below_spec. exists p, u. split; [apply lookup_in; rewrite SU; exact H1 | auto]. }
        assert (is_tombb S k = true) as T1 by (unfold is_tombb; rewrite ES; exact De).
        rewrite Lst', EU, T1, T2. cbn. unfold is_tombb. rewrite EM. exact De. }
  exists st'. constructor; auto.
  - split; [exact Nm|]. split.
    + intros k v H. apply Im in H. destruct H as [H|H]; [|eapply (proj1 (proj2 Wst)); eauto].
      apply (in_lookup _ _ _ NM) in H. rewrite <- SVM in H. eapply kp_lookup; eauto.
    + intros k v H. apply Im in H. destruct H as [H|H]; [|eapply (proj2 (proj2 Wst)); eauto].
      apply (in_lookup _ _ _ NM) in H. rewrite <- SVM in H. eapply pk_lookup; eauto.
Qed.
